#!/bin/sh
# re-run every check against the stored behaviour-preserving refactorings (harmless/H*/patch.diff): anything but OK is a
# false alarm of the machinery (except the broken step-level tie under renamed reducers, H1: no-failing-input-found)
cd "$(dirname "$0")" || exit 2
for d in harmless/${1:-H*}/; do
  n=$(basename $d)
  WT=/tmp/harmless_wt_$n
  git -C /repo worktree add -q --detach $WT HEAD || exit 2
  if ! git -C $WT apply $PWD/$d/patch.diff 2>/dev/null; then echo "$n: PATCH DOES NOT APPLY"; git -C /repo worktree remove --force $WT; continue; fi
  for i in 01 02 03 04 05 06 07 08 09 10 11 12 13 14 15 16 17 18; do echo "C$i"; done |
    xargs -P 6 -I{} sh -c "VERIF_EVIDENCE_DIR=/tmp/harmless_evidence VERIF_REPLAY_DIR=/tmp/harmless_replays SMOOTHMATH_REPO=$WT ./check {} --tier quick 2>&1 | grep -E '^(OK|VIOLATION|INFRA|  )' | head -2 | cut -c1-260 | sed 's/^/$n /'"
  git -C /repo worktree remove --force $WT
done
