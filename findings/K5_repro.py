"""K5 reproduction with the plain library (no harness):
     for s in 0 3; do PYTHONHASHSEED=$s PYTHONPATH=/repo/src python3 findings/K5_repro.py; done
prints a different length/digest for the two hash seeds (20548 vs 20553 characters at commit 82372c9)."""
import hashlib
import logging
import smoothmath as sm
from smoothmath.expression import Variable, Add, Multiply
logging.getLogger().addHandler(logging.NullHandler())
logging.lastResort = None
ns = ["zeta", "y", "w_1", "µ", "alpha"]
mk = lambda: Add(*(Multiply(*[Variable(n) for n in ns]) for _ in range(260)))  # noqa: E731
sm.Partial(mk(), "zeta").as_expression()      # the two queries the battery asks first in the same process
mk()._normalize()
r = repr(sm.Differential(mk(), compute_early=True).component("y").as_expression())
print(len(r), hashlib.sha256(r.encode()).hexdigest()[:16])
