#!/bin/sh
# usage: tools_seeded_all.sh [glob]   (default: all)
# re-run, for every stored seeded change, the checks recorded as catching it (scratch worktree, removed
# afterwards); the failing inputs each check reports are collected into corpus/<Cxx>/<change>.json, which
# every later run of that check replays first
cd "$(dirname "$0")" || exit 2
WT=/tmp/seeded_wt_$$
for d in seeded/${1:-*}/; do
  n=$(basename $d)
  git -C /repo worktree add -q --detach $WT HEAD || exit 2
  if ! git -C $WT apply $PWD/$d/patch.diff 2>/dev/null; then echo "$n: PATCH DOES NOT APPLY"; git -C /repo worktree remove --force $WT; continue; fi
  checks=$(python3 -c "import json;print(' '.join(c for c in json.load(open('$d/meta.json'))['caught_by'] if '(' not in c))")
  out=""
  for c in $checks; do
    line=$(VERIF_EVIDENCE_DIR=/tmp/seeded_evidence VERIF_REPLAY_DIR=/tmp/seeded_replays VERIF_NO_CORPUS=1 SMOOTHMATH_REPO=$WT ./check $c --tier quick 2>&1 | grep -E "^(OK|VIOLATION|INFRA)" | head -1)
    r=$(echo "$line" | awk '{print $1}')
    out="$out $c:$r"
    rp=$(echo "$line" | sed -n 's/.*replay=\([^ ]*\).*/\1/p')
    if [ "$r" = "VIOLATION" ] && [ -n "$rp" ] && ! echo "$line" | grep -q no-failing-input-found; then
      python3 tools_corpus.py "$c" "$n" "$rp"
    fi
  done
  echo "$n:$out"
  git -C /repo worktree remove --force $WT
done
