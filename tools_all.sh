#!/bin/sh
# usage: tools_all.sh <tier> <seed...> : every check on /repo as it is, six at a time; evidence goes to /tmp (not /verif/evidence)
cd "$(dirname "$0")" || exit 2
T=$1; shift
for s in "$@"; do for i in 01 02 03 04 05 06 07 08 09 10 11 12 13 14 15 16 17 18; do echo "$s C$i"; done; done |
  xargs -P 6 -L 1 sh -c 'VERIF_SEED=$0 VERIF_EVIDENCE_DIR=/tmp/ev_clean ./check $1 --tier '$T' 2>&1 | grep -E "^(OK|VIOLATION|INFRA|KNOWN|  )" | grep -v "^KNOWN" | head -3 | cut -c1-300'
