/-
C16 — Ill-formed expressions are rejected at construction.

The checked constructors of Model/Surface.lean take arbitrary Python values (`PyVal`: an expression,
a number — `int` or `float` —, a string, anything else).  Every theorem is an *iff* for acceptance:
the constructor answers an expression exactly on the documented arguments, and the expression is the
freshly built node carrying exactly the operands and the parameter that were passed (`e = mkNPow u k`
etc.: parameters are reported back as given; an integral float `n` is stored as that integer).
Companion theorems name the exception raised otherwise (`DomainError` for `n` and bases, the generic
`Exception` for operands and names), in the order the implementation checks.
`WF` (Real/Spec.lean) is well-formedness: n ≥ 1, bases positive, logarithm base ≠ 1, hereditarily.
-/
import Smooth.Proofs.Construct
import Smooth.Proofs.WFSym

namespace Smooth
open Expr

/-! ### acceptance, exactly -/

/-- **C16.** `NthPower(inner, n)` is accepted exactly for an expression operand and `n` a positive
integer (as `int` or integral `float`); the stored parameter is that integer. -/
theorem nthPower_ok_iff (inner n : PyVal ℝ) (e : Expr ℝ) :
    mkNthPowerChecked realNum inner n = .ok e ↔
      ∃ (u : Expr ℝ) (k : ℕ), inner = .expr u ∧ n = .num (k : ℝ) ∧ 1 ≤ k ∧ e = mkNPow u k :=
  mkNthPowerChecked_ok_iff inner n e

/-- the same for `NthRoot(inner, n)` -/
theorem nthRoot_ok_iff (inner n : PyVal ℝ) (e : Expr ℝ) :
    mkNthRootChecked realNum inner n = .ok e ↔
      ∃ (u : Expr ℝ) (k : ℕ), inner = .expr u ∧ n = .num (k : ℝ) ∧ 1 ≤ k ∧ e = mkNRoot u k :=
  mkNthRootChecked_ok_iff inner n e

/-- `Exponential(inner, base)` is accepted exactly for an expression operand and a positive base -/
theorem exponential_ok_iff (inner : PyVal ℝ) (b : ℝ) (e : Expr ℝ) :
    mkExponentialChecked realNum inner b = .ok e ↔
      ∃ u : Expr ℝ, inner = .expr u ∧ 0 < b ∧ e = mkExp u b :=
  mkExponentialChecked_ok_iff inner b e

/-- `Logarithm(inner, base)` : an expression operand, a positive base, and base ≠ 1 -/
theorem logarithm_ok_iff (inner : PyVal ℝ) (b : ℝ) (e : Expr ℝ) :
    mkLogarithmChecked realNum inner b = .ok e ↔
      ∃ u : Expr ℝ, inner = .expr u ∧ 0 < b ∧ b ≠ 1 ∧ e = mkLog u b :=
  mkLogarithmChecked_ok_iff inner b e

/-- acceptance of a base never depends on the operand (in particular not on a parameter the operand
carries itself): whether `Logarithm(u, b)` is accepted is the same for every expression operand -/
theorem logarithm_accepts_independent_of_operand (u u' : Expr ℝ) (b : ℝ) :
    (∃ e, mkLogarithmChecked realNum (.expr u) b = .ok e) ↔
      (∃ e', mkLogarithmChecked realNum (.expr u') b = .ok e') := by
  constructor
  · rintro ⟨e, h⟩
    obtain ⟨_, _, hb, hb1, _⟩ := (logarithm_ok_iff _ b e).mp h
    exact ⟨mkLog u' b, (logarithm_ok_iff _ b _).mpr ⟨u', rfl, hb, hb1, rfl⟩⟩
  · rintro ⟨e, h⟩
    obtain ⟨_, _, hb, hb1, _⟩ := (logarithm_ok_iff _ b e).mp h
    exact ⟨mkLog u b, (logarithm_ok_iff _ b _).mpr ⟨u, rfl, hb, hb1, rfl⟩⟩

/-- base one is rejected whatever the operand — also when the operand is an `Exponential` of base one
(the shape of seeded change C16r11) -/
theorem logarithm_base_one_rejected (u : Expr ℝ) (e : Expr ℝ) :
    mkLogarithmChecked realNum (.expr u) 1 ≠ .ok e := by
  intro h
  obtain ⟨_, _, _, hb1, _⟩ := (logarithm_ok_iff _ 1 e).mp h
  exact hb1 rfl

example (v : Expr ℝ) (e : Expr ℝ) :
    mkLogarithmChecked realNum (.expr (mkExp v 1)) 1 ≠ .ok e := logarithm_base_one_rejected _ e

/-- `Variable(name)` : a non-empty name made of word characters only (any number instance) -/
theorem variable_ok_iff {α : Type} (isWord : Char → Bool) (name : String) (e : Expr α) :
    mkVariableChecked isWord name = .ok e ↔
      name ≠ "" ∧ name.toList.all isWord = true ∧ e = mkVar name :=
  mkVariableChecked_ok_iff isWord name e

/-- the unary classes (`Negation`, `Reciprocal`, `Cosine`, `Sine`: `mk` is the node builder) accept
exactly an expression operand -/
theorem unary_ok_iff {α : Type} (mk : Expr α → Expr α) (inner : PyVal α) (e : Expr α) :
    mkUnaryChecked mk inner = .ok e ↔ ∃ u, inner = .expr u ∧ e = mk u :=
  mkUnaryChecked_ok_iff mk inner e

/-- the binary classes (`Minus`, `Divide`, `Power`) accept exactly two expression operands, kept in
order -/
theorem binary_ok_iff {α : Type} (mk : Expr α → Expr α → Expr α) (l r : PyVal α) (e : Expr α) :
    mkBinaryChecked mk l r = .ok e ↔ ∃ a b, l = .expr a ∧ r = .expr b ∧ e = mk a b :=
  mkBinaryChecked_ok_iff mk l r e

/-- the n-ary classes (`Add`, `Multiply`) accept exactly a (possibly empty) list of expression
operands, kept in order -/
theorem nary_ok_iff {α : Type} (mk : List (Expr α) → Expr α) (vs : List (PyVal α)) (e : Expr α) :
    mkNaryChecked mk vs = .ok e ↔ ∃ us, vs = us.map PyVal.expr ∧ e = mk us :=
  mkNaryChecked_ok_iff mk vs e

/-! ### which exception -/

/-- `n` that is not a positive integer: `DomainError`, before the operand is looked at -/
theorem nth_bad_n (inner : PyVal ℝ) {n : PyVal ℝ} (h : ¬ GoodN n) :
    mkNthPowerChecked realNum inner n = .error .domain ∧
      mkNthRootChecked realNum inner n = .error .domain :=
  ⟨mkNthPowerChecked_badN inner h, mkNthRootChecked_badN inner h⟩

/-- a good `n` but an operand that is not an expression: the generic `Exception` -/
theorem nth_bad_operand {inner n : PyVal ℝ} (hn : GoodN n) (hv : inner.NotExpr) :
    mkNthPowerChecked realNum inner n = .error .usage ∧
      mkNthRootChecked realNum inner n = .error .usage :=
  ⟨mkNthPowerChecked_notExpr hn hv, mkNthRootChecked_notExpr hn hv⟩

/-- a number is a bad `n` exactly when it is not a positive integer; non-numbers always are -/
theorem goodN_num_iff (x : ℝ) : GoodN (.num x) ↔ IsPosInt x := by
  constructor
  · rintro ⟨k, hk, h⟩; injection h with h; exact ⟨k, hk, h⟩
  · rintro ⟨k, hk, rfl⟩; exact ⟨k, hk, rfl⟩

/-- a non-positive base: `DomainError` (after the operand check) -/
theorem base_nonpos (u : Expr ℝ) {b : ℝ} (hb : b ≤ 0) :
    mkExponentialChecked realNum (.expr u) b = .error .domain ∧
      mkLogarithmChecked realNum (.expr u) b = .error .domain :=
  ⟨mkExponentialChecked_badBase u hb, mkLogarithmChecked_badBase u (Or.inl hb)⟩

/-- logarithm base one: `DomainError` -/
theorem log_base_one (u : Expr ℝ) : mkLogarithmChecked realNum (.expr u) 1 = .error .domain :=
  mkLogarithmChecked_badBase u (Or.inr rfl)

/-- an operand that is not an expression: the generic `Exception`, whatever the base -/
theorem base_bad_operand {inner : PyVal ℝ} (b : ℝ) (hv : inner.NotExpr) :
    mkExponentialChecked realNum inner b = .error .usage ∧
      mkLogarithmChecked realNum inner b = .error .usage :=
  ⟨mkExponentialChecked_notExpr b hv, mkLogarithmChecked_notExpr b hv⟩

/-- an empty name, or a name with a non-word character: the generic `Exception` -/
theorem variable_reject {α : Type} (isWord : Char → Bool) (name : String)
    (h : name = "" ∨ name.toList.all isWord = false) :
    (mkVariableChecked isWord name : R (Expr α)) = .error .usage :=
  mkVariableChecked_reject isWord name h

/-- a non-expression operand of a unary / binary (either side) / n-ary (any position) class: the
generic `Exception` -/
theorem operand_reject {α : Type} {v : PyVal α} (hv : v.NotExpr) :
    (∀ mk : Expr α → Expr α, mkUnaryChecked mk v = .error .usage) ∧
    (∀ (mk : Expr α → Expr α → Expr α) (r : PyVal α), mkBinaryChecked mk v r = .error .usage) ∧
    (∀ (mk : Expr α → Expr α → Expr α) (a : Expr α), mkBinaryChecked mk (.expr a) v = .error .usage) ∧
    (∀ (mk : List (Expr α) → Expr α) (vs : List (PyVal α)), v ∈ vs →
      mkNaryChecked mk vs = .error .usage) :=
  ⟨fun mk => mkUnaryChecked_notExpr mk hv, fun mk r => mkBinaryChecked_notExpr_left mk r hv,
    fun mk a => mkBinaryChecked_notExpr_right mk a hv,
    fun mk _ hmem => mkNaryChecked_notExpr mk hmem hv⟩

/-! ### consequently: everything that can be built is well formed -/

/-- **C16 (`mk_WF`).** Whatever a constructor accepts, on operands that are well formed, is well
formed.  (`v.WFArg`: if the Python value `v` is an expression, it is `WF`.) -/
theorem mk_WF :
    (∀ v : ℝ, WF (mkConst v)) ∧
    (∀ (isWord : Char → Bool) (name : String) (e : Expr ℝ),
      mkVariableChecked isWord name = .ok e → WF e) ∧
    (∀ (c : UnaryClass) (inner : PyVal ℝ) (e : Expr ℝ), inner.WFArg →
      mkUnaryChecked c.mk inner = .ok e → WF e) ∧
    (∀ (c : BinaryClass) (l r : PyVal ℝ) (e : Expr ℝ), l.WFArg → r.WFArg →
      mkBinaryChecked c.mk l r = .ok e → WF e) ∧
    (∀ (c : NaryClass) (vs : List (PyVal ℝ)) (e : Expr ℝ), (∀ v ∈ vs, PyVal.WFArg v) →
      mkNaryChecked c.mk vs = .ok e → WF e) ∧
    (∀ (inner n : PyVal ℝ) (e : Expr ℝ), inner.WFArg →
      mkNthPowerChecked realNum inner n = .ok e → WF e) ∧
    (∀ (inner n : PyVal ℝ) (e : Expr ℝ), inner.WFArg →
      mkNthRootChecked realNum inner n = .ok e → WF e) ∧
    (∀ (inner : PyVal ℝ) (b : ℝ) (e : Expr ℝ), inner.WFArg →
      mkExponentialChecked realNum inner b = .ok e → WF e) ∧
    (∀ (inner : PyVal ℝ) (b : ℝ) (e : Expr ℝ), inner.WFArg →
      mkLogarithmChecked realNum inner b = .ok e → WF e) :=
  ⟨mkConst_WF, mkVariableChecked_WF, mkUnaryChecked_WF, mkBinaryChecked_WF, mkNaryChecked_WF,
    mkNthPowerChecked_WF, mkNthRootChecked_WF, mkExponentialChecked_WF, mkLogarithmChecked_WF⟩

/-- **C16.** By induction over how it was built (`Constructible`, Proofs/Construct.lean: the fifteen
checked constructors and the six operators, on arbitrary Python values whose expression operands were
built the same way): every expression that can be built is well formed. -/
theorem constructible_WF (isWord : Char → Bool) (e : Expr ℝ) (h : Constructible isWord e) : WF e :=
  h.wf

/-- and the model's executable node check `wfNode` holds of every well-formed node whose name (if it
is a variable) passed the name check -/
theorem wfNode_holds (isWord : Char → Bool) {e : Expr ℝ} (h : WF e)
    (hvar : ∀ f x, e = .var f x → x ≠ "" ∧ x.toList.all isWord = true) :
    wfNode realNum isWord e = true := wfNode_of_WF isWord h hvar

/-! ### the derivative builders keep well-formedness -/

/-- forward symbolic mode: `_synthetic_partial` of a well-formed expression is well formed -/
theorem symFwd_WF (x : String) (e : Expr ℝ) (h : WF e) : WF (symFwd realNum x e) :=
  WF_symFwd x e h

/-- reverse symbolic mode: every partial reported by `_synthetic_partials()` is well formed -/
theorem syntheticPartials_WF (e : Expr ℝ) (h : WF e) :
    ∀ p ∈ syntheticPartials realNum e, WF p.2 := WF_syntheticPartials e h

/-! ### non-vacuity -/

/-- `NthPower(x, 3.0)` stores the integer 3; `NthRoot` likewise -/
example :
    mkNthPowerChecked realNum (.expr (mkVar "x")) (.num 3) = .ok (mkNPow (mkVar "x") 3) ∧
    mkNthRootChecked realNum (.expr (mkVar "x")) (.num 3) = .ok (mkNRoot (mkVar "x") 3) := by
  constructor
  · exact (nthPower_ok_iff _ _ _).mpr ⟨mkVar "x", 3, rfl, by norm_num, by norm_num, rfl⟩
  · exact (nthRoot_ok_iff _ _ _).mpr ⟨mkVar "x", 3, rfl, by norm_num, by norm_num, rfl⟩

/-- bad `n`: a non-number, zero, a half -/
example : ¬ GoodN (.str "3" : PyVal ℝ) ∧ ¬ GoodN (.num (0 : ℝ)) ∧ ¬ GoodN (.num (1 / 2 : ℝ)) := by
  refine ⟨?_, ?_, ?_⟩
  · rintro ⟨k, _, h⟩; cases h
  · rw [goodN_num_iff]
    have := not_isPosInt_of_nonpos (j := 0) (by norm_num); simpa using this
  · rw [goodN_num_iff]
    apply not_isPosInt_of_not_int
    rintro ⟨j, hj⟩
    have h2 : ((2 * j : ℤ) : ℝ) = ((1 : ℤ) : ℝ) := by push_cast; rw [hj]; norm_num
    have : 2 * j = 1 := by exact_mod_cast h2
    omega

/-- `Exponential(x, 2)`, `Logarithm(x, 2)` are accepted; base `e` is legal -/
example :
    mkExponentialChecked realNum (.expr (mkVar "x")) 2 = .ok (mkExp (mkVar "x") 2) ∧
    mkLogarithmChecked realNum (.expr (mkVar "x")) 2 = .ok (mkLog (mkVar "x") 2) ∧
    mkLogarithmChecked realNum (.expr (mkVar "x")) (Real.exp 1) =
      .ok (mkLog (mkVar "x") (Real.exp 1)) :=
  ⟨(exponential_ok_iff _ _ _).mpr ⟨_, rfl, by norm_num, rfl⟩,
    (logarithm_ok_iff _ _ _).mpr ⟨_, rfl, by norm_num, by norm_num, rfl⟩,
    (logarithm_ok_iff _ _ _).mpr ⟨_, rfl, Real.exp_pos 1, exp_one_ne_one, rfl⟩⟩

/-- a name check that accepts something and rejects something -/
example :
    (mkVariableChecked (fun c => c.isAlphanum || c == '_') "x_1" : R (Expr ℝ)) = .ok (mkVar "x_1") ∧
    (mkVariableChecked (fun c => c.isAlphanum || c == '_') "x y" : R (Expr ℝ)) = .error .usage ∧
    (mkVariableChecked (fun c => c.isAlphanum || c == '_') "" : R (Expr ℝ)) = .error .usage := by
  refine ⟨(variable_ok_iff _ _ _).mpr ⟨by decide, by decide, rfl⟩,
    variable_reject _ _ (Or.inr (by decide)), variable_reject _ _ (Or.inl rfl)⟩

/-- a constructible (hence well-formed) expression using an operator, a parameterised class and a
variable: `Logarithm(x ** 2, base = 2)` -/
example : Constructible (fun c => c.isAlphanum || c == '_')
    (mkLog (mkNPow (mkVar "x") 2) 2) := by
  have hx : Constructible (fun c => c.isAlphanum || c == '_') (mkVar "x" : Expr ℝ) :=
    .var (name := "x") ((variable_ok_iff _ _ _).mpr ⟨by decide, by decide, rfl⟩)
  have hp : Constructible (fun c => c.isAlphanum || c == '_') (mkNPow (mkVar "x") 2 : Expr ℝ) :=
    .opPow (v := .num 2) hx (fun u h => by cases h)
      ((opPow_num_ok_iff _ _ _).mpr ⟨2, by norm_num, by norm_num, rfl⟩)
  exact .logarithm (inner := .expr _) (b := 2) (fun u h => by injection h with h; subst h; exact hp)
    ((logarithm_ok_iff _ _ _).mpr ⟨_, rfl, by norm_num, by norm_num, rfl⟩)

/-- the hypothesis of `symFwd_WF` / `syntheticPartials_WF` on a tree exercising every parameterised
formula -/
example : WF (mkMul [mkNRoot (mkVar "x") 3, mkExp (mkVar "y") 2, mkLog (mkNPow (mkVar "x") 2) 10,
    mkPow (mkVar "x") (mkVar "y")]) := by
  simp [WF, WFList]

end Smooth
