/-
C15 — Operator syntax builds exactly the named constructors.

`opNeg/opAdd/opSub/opMul/opDiv/opPow` (Model/Surface.lean) are the dunders `__neg__`, `__add__`,
`__sub__`, `__mul__`, `__truediv__`, `__pow__`; the right operand is an arbitrary Python value
(`PyVal`: an expression, a number — `int` or `float`, not distinguished —, a string, anything else).
The results are stated as *equalities of trees* with the freshly built node (`mkAdd [a, b]` is
`Add(a, b)` with both flags `False`) whose children are the operands themselves, flags included:
nothing is simplified, flattened or reordered.  `v.NotExpr` says the value is not an expression.
Over the reals "an integer k ≥ 1, also when written as an integral float" is: the number equals
`(k : ℝ)` for a natural number `k ≥ 1`.
-/
import Smooth.Proofs.Construct

namespace Smooth
open Expr

section generic
variable {α : Type}

/-- **C15.** `-a` is `Negation(a)` -/
theorem neg_builds (a : Expr α) : opNeg a = mkNeg a := opNeg_eq a

/-- `a + b` is the binary `Add(a, b)` -/
theorem add_builds (a b : Expr α) : opAdd a (.expr b) = .ok (mkAdd [a, b]) := opAdd_expr a b

/-- `a - b` is `Minus(a, b)` -/
theorem sub_builds (a b : Expr α) : opSub a (.expr b) = .ok (mkMinus a b) := opSub_expr a b

/-- `a * b` is the binary `Multiply(a, b)` -/
theorem mul_builds (a b : Expr α) : opMul a (.expr b) = .ok (mkMul [a, b]) := opMul_expr a b

/-- `a / b` is `Divide(a, b)` -/
theorem div_builds (a b : Expr α) : opDiv a (.expr b) = .ok (mkDiv a b) := opDiv_expr a b

/-- `a ** b` is `Power(a, b)` when `b` is an expression, for every number instance -/
theorem pow_builds (N : Num α) (a b : Expr α) : opPow N a (.expr b) = .ok (mkPow a b) :=
  opPow_expr N a b

/-- a non-expression right operand of `+ - * /` is rejected with the generic `Exception` -/
theorem arith_rejects_nonexpr (a : Expr α) {v : PyVal α} (hv : v.NotExpr) :
    opAdd a v = .error .usage ∧ opSub a v = .error .usage ∧ opMul a v = .error .usage ∧
      opDiv a v = .error .usage :=
  ⟨opAdd_notExpr a hv, opSub_notExpr a hv, opMul_notExpr a hv, opDiv_notExpr a hv⟩

/-- in particular numbers, strings and foreign objects -/
theorem arith_rejects_num_str_other (a : Expr α) (x : α) (s : String) :
    opAdd a (.num x) = .error .usage ∧ opAdd a (.str s) = .error .usage ∧
      opAdd a .other = .error .usage :=
  ⟨opAdd_notExpr a (PyVal.notExpr_num x), opAdd_notExpr a (PyVal.notExpr_str s),
    opAdd_notExpr a PyVal.notExpr_other⟩

/-- an exponent that is neither an expression nor a number is rejected -/
theorem pow_rejects_str_other (N : Num α) (a : Expr α) (s : String) :
    opPow N a (.str s) = .error .usage ∧ opPow N a .other = .error .usage :=
  ⟨opPow_str N a s, opPow_other N a⟩

end generic

/-- **C15.** `a ** v` for a number `v` succeeds exactly when `v` is an integer `k ≥ 1` (as `int` or
as an integral `float`), and then it is `NthPower(a, k)` with that integer stored. -/
theorem pow_num_builds_iff (a : Expr ℝ) (v : ℝ) (e : Expr ℝ) :
    opPow realNum a (.num v) = .ok e ↔ ∃ k : ℕ, 1 ≤ k ∧ v = (k : ℝ) ∧ e = mkNPow a k :=
  opPow_num_ok_iff a v e

/-- `a ** k` is `NthPower(a, k)` -/
theorem pow_nat_builds (a : Expr ℝ) {k : ℕ} (hk : 1 ≤ k) :
    opPow realNum a (.num (k : ℝ)) = .ok (mkNPow a k) := opPow_natCast a hk

/-- a numeric exponent that is not a positive integer never yields an expression -/
theorem pow_num_rejects (a : Expr ℝ) {v : ℝ} (hv : ¬ IsPosInt v) (e : Expr ℝ) :
    opPow realNum a (.num v) ≠ .ok e := opPow_num_reject a hv e

/-- precisely: a non-integral number is the generic `Exception` (raised by `__pow__`), an integer
`≤ 0` the `DomainError` of `NthPower` -/
theorem pow_num_errors (a : Expr ℝ) :
    (∀ x : ℝ, (¬ ∃ j : ℤ, (j : ℝ) = x) → opPow realNum a (.num x) = .error .usage) ∧
    (∀ j : ℤ, j ≤ 0 → opPow realNum a (.num (j : ℝ)) = .error .domain) :=
  ⟨fun _ hx => opPow_non_integral a hx, fun _ hj => opPow_nonpos_int a hj⟩

/-- every result of an operator on well-formed operands is well formed -/
theorem op_results_WF {a : Expr ℝ} (ha : WF a) :
    WF (opNeg a) ∧
    (∀ (v : PyVal ℝ) (e : Expr ℝ), v.WFArg →
      (opAdd a v = .ok e ∨ opSub a v = .ok e ∨ opMul a v = .ok e ∨ opDiv a v = .ok e) → WF e) ∧
    (∀ (v : PyVal ℝ) (e : Expr ℝ), v.WFArg → opPow realNum a v = .ok e → WF e) :=
  ⟨opNeg_WF ha, fun _ _ hv h => opBinary_WF ha hv h, fun _ _ hv h => opPow_WF ha hv h⟩

/-! ### non-vacuity -/

/-- nothing is simplified or reordered: `x + 0`, `0 + x` and `x * 1` stay as written, and operands
keep their own flags -/
example :
    opAdd (mkVar "x") (.expr (mkConst (0 : ℝ))) = .ok (mkAdd [mkVar "x", mkConst 0]) ∧
    opAdd (mkConst (0 : ℝ)) (.expr (mkVar "x")) = .ok (mkAdd [mkConst 0, mkVar "x"]) ∧
    opMul (Expr.var { red := true } "x") (.expr (mkConst (1 : ℝ))) =
      .ok (mkMul [Expr.var { red := true } "x", mkConst 1]) :=
  ⟨add_builds _ _, add_builds _ _, mul_builds _ _⟩

/-- `x ** 3` and `x ** 3.0` are `NthPower(x, 3)` -/
example : opPow realNum (mkVar "x") (.num 3) = .ok (mkNPow (mkVar "x") 3) := by
  have := pow_nat_builds (mkVar "x") (k := 3) (by norm_num)
  simpa using this

/-- `3` is a positive integer, `1/2`, `0` and `-2` are not: all hypotheses above are satisfiable -/
example : IsPosInt 3 := ⟨3, by norm_num, by norm_num⟩

example : ¬ ∃ j : ℤ, (j : ℝ) = 1 / 2 := by
  rintro ⟨j, hj⟩
  have h2 : ((2 * j : ℤ) : ℝ) = ((1 : ℤ) : ℝ) := by push_cast; rw [hj]; norm_num
  have : 2 * j = 1 := by exact_mod_cast h2
  omega

example : opPow realNum (mkVar "x") (.num 0) = .error .domain ∧
    opPow realNum (mkVar "x") (.num (-2)) = .error .domain := by
  have h0 := (pow_num_errors (mkVar "x")).2 0 (by norm_num)
  have h2 := (pow_num_errors (mkVar "x")).2 (-2) (by norm_num)
  constructor
  · simpa using h0
  · simpa using h2

example : ¬ IsPosInt 0 ∧ ¬ IsPosInt (-2) := by
  constructor
  · have := not_isPosInt_of_nonpos (j := 0) (by norm_num); simpa using this
  · have := not_isPosInt_of_nonpos (j := -2) (by norm_num); simpa using this

end Smooth
