/-
C03 — Forward-mode partials equal the true partial derivative.

`fwdG realNum` is the model of `_numeric_partial` (what `Partial(e, v).at(p)` and `Derivative(e).at(p)`
compute when not computed early).  "True partial derivative" is Mathlib's `HasDerivAt` of the
denotation `den` along the coordinate `x`, all other coordinates held at the point.
-/
import Smooth.Proofs.Forward
import Smooth.Model.Objects

namespace Smooth
open Expr

/-- **C03.**  On every supplied point of the domain forward mode returns a number, and that number
is the derivative of `t ↦ ⟦e⟧(ρ[x ↦ t])` at `ρ x` — for every expression (any nesting, any arity,
every n ≥ 1, every base > 0 including 1 and bases below 1) and every variable name. -/
theorem fwd_hasDerivAt (p : Point ℝ) (x : String) (e : Expr ℝ) (hwf : WF e) (hs : Supp p e)
    (hd : Dom (valOf p) e) :
    ∃ d, fwdG realNum p x e = .ok d ∧
      HasDerivAt (fun t => den (upd (valOf p) x t) e) d (valOf p x) :=
  (fwdR_spec p x e hwf).1 hs hd

/-- the value is *the* partial derivative (`deriv` of the coordinate function) -/
theorem fwd_eq_deriv (p : Point ℝ) (x : String) (e : Expr ℝ) (hwf : WF e) (hs : Supp p e)
    (hd : Dom (valOf p) e) :
    fwdG realNum p x e = .ok (deriv (fun t => den (upd (valOf p) x t) e) (valOf p x)) := by
  obtain ⟨d, h, hder⟩ := fwd_hasDerivAt p x e hwf hs hd
  rw [h, hder.deriv]

/-- with respect to a variable that does not occur the result is 0 -/
theorem fwd_not_occurring (p : Point ℝ) (x : String) (e : Expr ℝ) (hwf : WF e) (hs : Supp p e)
    (hd : Dom (valOf p) e) (hx : ¬ Occurs x e) : fwdG realNum p x e = .ok 0 := by
  obtain ⟨d, h, hder⟩ := fwd_hasDerivAt p x e hwf hs hd
  have hconst : (fun t => den (upd (valOf p) x t) e) = fun _ => den (valOf p) e := by
    funext t; exact den_upd_of_not_occurs (valOf p) e hx t
  rw [hconst] at hder
  have := hder.unique (hasDerivAt_const (valOf p x) (den (valOf p) e))
  rw [h, this]

/-- `Partial(e, x).at(p)` (not computed early, `as_expression()` not yet called) is forward mode -/
theorem partial_late_at (e : Expr ℝ) (x : String) (p : Point ℝ) :
    (PartialObj.mk e x none).at realNum p = fwdG realNum p x e := rfl

/-- `Derivative(e).at(p)` is the late `Partial` in the single variable -/
theorem derivative_late_at (e : Expr ℝ) (p : Point ℝ) :
    (DerivativeObj.new realNum e false >>= fun D => D.1.at realNum p) =
      (singleVarName e >>= fun x => fwdG realNum p x e) := by
  unfold DerivativeObj.new PartialObj.new
  cases singleVarName e <;> rfl

/-- non-vacuity: a product of three non-trivial factors in which the variable occurs in several
arguments, an odd root of a negative inner value, and a base below one, at a point of the domain -/
example :
    let e : Expr ℝ := mkMul [mkVar "x", mkNRoot (mkMinus (mkVar "x") (mkConst 9)) 3,
      mkExp (mkVar "x") (1 / 2)]
    let p : Point ℝ := [("x", 1)]
    WF e ∧ Supp p e ∧ Dom (valOf p) e := by
  simp [WF, WFList, Supp, SuppList, Dom, DomList, den, valOf, Point.get?]
  norm_num

end Smooth
