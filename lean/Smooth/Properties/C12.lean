/-
C12 — Equality is structural, an equivalence, and consistent with hashing.

`beq N a b` is the model of `Expression.__eq__`, `hashKey` the tuple the implementation hands to
Python's `hash`, `HKey.same N` equality of such tuples up to `==` on the numbers in them (what
CPython's `hash` is trusted to respect: `hash(2) == hash(2.0)`), `pointBeq N` the model of
`Point.__eq__`.  Everything is generic in the number instance `N`; the only assumption, where one is
needed, is `EqLaws N` : the number comparison `N.eq` is reflexive, symmetric and transitive — true of
the reals (`eqLaws_real`) and of the exact-rational instance of the correspondence driver
(`eqLaws_rational`), where it relates *distinct* carrier elements, as Python's `2 == 2.0` does.
(IEEE `==` is not reflexive at NaN; no constructor or evaluation of the library produces NaN, C17.)

`StructEq N` (Proofs/Equality.lean) is the specification, written as an inductive relation
independently of `beq`: same constructor, children pairwise related in the same order (lists: same
length), value/base related by `N.eq`, `n` and names equal, the per-object flags not looked at.
-/
import Smooth.Proofs.Equality

namespace Smooth
variable {α : Type}
open Expr

/-! ### the assumption is satisfiable -/

/-- real-number comparison is an equivalence -/
theorem eqLaws_real : EqLaws realNum := realNum_eqLaws

/-- so is the comparison of the exact-rational instance, which ignores part of the carrier -/
theorem eqLaws_rational : EqLaws qeNum := qeNum_eqLaws

/-! ### equality is structural -/

/-- **C12 (structure).**  Two expressions are equal exactly when they are the same constructor applied
to pairwise equal arguments in the same order with numerically equal parameters. -/
theorem beq_iff_structEq {N : Num α} (h : EqLaws N) (a b : Expr α) :
    beq N a b = true ↔ StructEq N a b :=
  beq_iff_structEq_of_symm h.symm a b

/-- Without any assumption on `N.eq`: the implementation compares the parameters right-to-left
(`other.value == self.value`), so `beq N a b` is `StructEq N b a`. -/
theorem beq_iff_structEq_swapped (N : Num α) (a b : Expr α) :
    beq N a b = true ↔ StructEq N b a :=
  beq_iff_structEq_flip N a b

theorem beqList_iff_structEqList {N : Num α} (h : EqLaws N) (as bs : List (Expr α)) :
    beqList N as bs = true ↔ StructEqList N as bs :=
  beqList_iff_structEqList_of_symm h.symm as bs

/-- argument lists: same length and `beq` position by position -/
theorem beqList_iff_pairwise (N : Num α) (as bs : List (Expr α)) :
    beqList N as bs = true ↔ List.Forall₂ (fun a b => beq N a b = true) as bs :=
  beqList_iff_forall₂ N as bs

/-- `StructEqList` is the position-by-position lifting of `StructEq` -/
theorem structEqList_iff_pairwise (N : Num α) (as bs : List (Expr α)) :
    StructEqList N as bs ↔ List.Forall₂ (StructEq N) as bs :=
  structEqList_iff_forall₂ N as bs

/-- the memo flags and the object identity play no role -/
theorem beq_ignores_flags (N : Num α) (g g' : Flags) (a b : Expr α) :
    beq N (a.setFlags g) (b.setFlags g') = beq N a b := by
  rw [beq_setFlags_left, beq_setFlags_right]

/-! ### equality is an equivalence -/

theorem beq_refl {N : Num α} (h : EqLaws N) (a : Expr α) : beq N a a = true := beq_refl' h a

theorem beq_symm {N : Num α} (h : EqLaws N) {a b : Expr α} (hab : beq N a b = true) :
    beq N b a = true := beq_symm' h hab

theorem beq_trans {N : Num α} (h : EqLaws N) {a b c : Expr α} (hab : beq N a b = true)
    (hbc : beq N b c = true) : beq N a c = true := beq_trans' h hab hbc

theorem beqList_refl {N : Num α} (h : EqLaws N) (as : List (Expr α)) : beqList N as as = true :=
  beqList_refl' h as

theorem beqList_symm {N : Num α} (h : EqLaws N) {as bs : List (Expr α)}
    (hab : beqList N as bs = true) : beqList N bs as = true := beqList_symm' h hab

theorem beqList_trans {N : Num α} (h : EqLaws N) {as bs cs : List (Expr α)}
    (hab : beqList N as bs = true) (hbc : beqList N bs cs = true) : beqList N as cs = true :=
  beqList_trans' h hab hbc

/-! ### what equality tells apart (no assumption on `N`) -/

/-- different constructors are never equal -/
theorem beq_of_ctor_ne (N : Num α) {a b : Expr α} (h : a.ctor ≠ b.ctor) : beq N a b = false := by
  cases hb : beq N a b
  · rfl
  · exact absurd (beq_ctor_eq hb) h

/-- constants: exactly numeric equality of the values (so `2` and `2.0` agree) -/
theorem beq_const (N : Num α) (f g : Flags) (v w : α) :
    beq N (.const f v) (.const g w) = N.eq w v := by
  simp [beq]

/-- variables: exactly equality of the names -/
theorem beq_var (N : Num α) (f g : Flags) (x y : String) :
    beq N (.var f x : Expr α) (.var g y) = true ↔ x = y := by
  simp [beq]

/-- different `n` ⇒ different powers -/
theorem beq_npow_n (N : Num α) {f g : Flags} {a b : Expr α} {n m : Nat}
    (h : beq N (.npow f a n) (.npow g b m) = true) : n = m := by
  simp [beq] at h; exact h.2

/-- different `n` ⇒ different roots -/
theorem beq_nroot_n (N : Num α) {f g : Flags} {a b : Expr α} {n m : Nat}
    (h : beq N (.nroot f a n) (.nroot g b m) = true) : n = m := by
  simp [beq] at h; exact h.2

/-- different base ⇒ different exponentials -/
theorem beq_exp_base (N : Num α) {f g : Flags} {a b : Expr α} {x y : α}
    (h : beq N (.exp f a x) (.exp g b y) = true) : N.eq y x = true := by
  simp [beq] at h; exact h.2

/-- different base ⇒ different logarithms -/
theorem beq_log_base (N : Num α) {f g : Flags} {a b : Expr α} {x y : α}
    (h : beq N (.log f a x) (.log g b y) = true) : N.eq y x = true := by
  simp [beq] at h; exact h.2

/-- sums of different arity are different -/
theorem beq_add_arity (N : Num α) {f g : Flags} {as bs : List (Expr α)}
    (h : as.length ≠ bs.length) : beq N (.add f as) (.add g bs) = false := by
  cases hb : beq N (.add f as) (.add g bs)
  · rfl
  · exact absurd (beqList_length_eq (by simpa [beq] using hb)) h

/-- products of different arity are different -/
theorem beq_mul_arity (N : Num α) {f g : Flags} {as bs : List (Expr α)}
    (h : as.length ≠ bs.length) : beq N (.mul f as) (.mul g bs) = false := by
  cases hb : beq N (.mul f as) (.mul g bs)
  · rfl
  · exact absurd (beqList_length_eq (by simpa [beq] using hb)) h

/-- argument order matters: `a - b` equals `b - a` only if `a` equals `b` (both ways round) -/
theorem beq_minus_swap (N : Num α) (f g : Flags) (a b : Expr α) :
    beq N (.minus f a b) (.minus g b a) = (beq N a b && beq N b a) := by
  simp [beq]

/-- … and so for the two arguments of a sum (products alike) -/
theorem beq_add_swap (N : Num α) (f g : Flags) (a b : Expr α) :
    beq N (.add f [a, b]) (.add g [b, a]) = (beq N a b && beq N b a) := by
  simp [beq, beqList]

theorem beq_mul_swap (N : Num α) (f g : Flags) (a b : Expr α) :
    beq N (.mul f [a, b]) (.mul g [b, a]) = (beq N a b && beq N b a) := by
  simp [beq, beqList]

/-! ### hashing -/

/-- **C12 (hash).**  Equal expressions have equal hashes: the keys handed to `hash` agree up to `==`
on the numbers in them. -/
theorem hashKey_respects_beq {N : Num α} (h : EqLaws N) {a b : Expr α} (hab : beq N a b = true) :
    HKey.same N (hashKey a) (hashKey b) = true :=
  hashKey_same_of_beq h hab

/-! ### points -/

/-- **C12 (points).**  Points (with pairwise distinct names, as keyword arguments are) are equal
exactly when they have the same number of coordinates and answer every lookup alike: both miss, or
both hit with numerically equal values — in any order. -/
theorem pointBeq_iff (N : Num α) (p q : Point α) (hp : (p.map Prod.fst).Nodup) :
    pointBeq N p q = true ↔ p.length = q.length ∧ ∀ x, LookupAgree N p q x :=
  pointBeq_iff_lookup N q hp

/-- equal points have the same coordinate names, up to order -/
theorem pointBeq_same_names {N : Num α} {p q : Point α} (hp : (p.map Prod.fst).Nodup)
    (h : pointBeq N p q = true) : (p.map Prod.fst).Perm (q.map Prod.fst) :=
  pointBeq_names_perm hp h

theorem pointBeq_refl {N : Num α} (h : EqLaws N) {p : Point α} (hp : (p.map Prod.fst).Nodup) :
    pointBeq N p p = true := pointBeq_refl' h hp

/-- (distinctness of the names of `q` follows) -/
theorem pointBeq_symm {N : Num α} (h : EqLaws N) {p q : Point α} (hp : (p.map Prod.fst).Nodup)
    (hpq : pointBeq N p q = true) : pointBeq N q p = true := pointBeq_symm' h hp hpq

theorem pointBeq_trans {N : Num α} (h : EqLaws N) {p q r : Point α}
    (hpq : pointBeq N p q = true) (hqr : pointBeq N q r = true) : pointBeq N p r = true :=
  pointBeq_trans' h hpq hqr

/-- the order of the coordinates is irrelevant -/
theorem pointBeq_perm {N : Num α} (h : EqLaws N) {p p' : Point α} (hp : (p.map Prod.fst).Nodup)
    (hperm : p.Perm p') : pointBeq N p p' = true := pointBeq_of_perm h hp hperm

/-! ### non-vacuity and concrete discrimination -/

section examples
open Classical

/-- `beq_iff_structEq` relates objects that are not literally the same: flags differ, and the
constants are `2` and `1 + 1`. -/
example : beq realNum (mkAdd [mkConst 2, mkNPow (mkVar "x") 3])
    (.add { red := true, id := 7 } [.const { failed := true } (1 + 1), mkNPow (mkVar "x") 3]) = true := by
  apply (beq_iff_structEq eqLaws_real _ _).mpr
  exact .add (.cons (.const (by norm_num [realNum_eq])) (.cons (.npow .var) .nil))

/-- "2 and 2.0 agree": distinct elements of the carrier that are `==` give equal expressions -/
example : (⟨2, true⟩ : QE) ≠ ⟨2, false⟩ ∧
    beq qeNum (mkLog (mkConst ⟨2, true⟩) ⟨3, false⟩) (mkLog (mkConst ⟨2, false⟩) ⟨3, true⟩) = true ∧
    HKey.same qeNum (hashKey (mkLog (mkConst (⟨2, true⟩ : QE)) ⟨3, false⟩))
      (hashKey (mkLog (mkConst (⟨2, false⟩ : QE)) ⟨3, true⟩)) = true := by
  have hb : beq qeNum (mkLog (mkConst ⟨2, true⟩) ⟨3, false⟩)
      (mkLog (mkConst ⟨2, false⟩) ⟨3, true⟩) = true := by
    simp [beq, qeNum_eq]
  exact ⟨by simp, hb, hashKey_respects_beq eqLaws_rational hb⟩

/-- argument order, arity, `n`, base, name, value and constructor are all told apart -/
example :
    beq realNum (mkAdd [mkVar "x", mkVar "y"]) (mkAdd [mkVar "y", mkVar "x"]) = false ∧
    beq realNum (mkMinus (mkVar "x") (mkVar "y")) (mkMinus (mkVar "y") (mkVar "x")) = false ∧
    beq realNum (mkAdd [mkVar "x"]) (mkAdd [mkVar "x", mkVar "x"]) = false ∧
    beq realNum (mkNPow (mkVar "x") 2) (mkNPow (mkVar "x") 3) = false ∧
    beq realNum (mkExp (mkVar "x") 2) (mkExp (mkVar "x") 3) = false ∧
    beq realNum (mkConst 2) (mkConst 3) = false ∧
    beq realNum (mkAdd [mkVar "x"]) (mkMul [mkVar "x"]) = false ∧
    beq realNum (mkCos (mkVar "x")) (mkSin (mkVar "x")) = false := by
  refine ⟨?_, ?_, ?_, ?_, ?_, ?_, ?_, ?_⟩ <;> simp [beq, beqList]

/-- points: order is irrelevant; a different value, name or number of coordinates is not -/
example :
    pointBeq realNum [("x", 1), ("y", 2)] [("y", 2), ("x", 1)] = true ∧
    pointBeq realNum [("x", 1), ("y", 2)] [("y", 1), ("x", 2)] = false ∧
    pointBeq realNum [("x", 1), ("y", 2)] [("x", 1), ("z", 2)] = false ∧
    pointBeq realNum [("x", 1)] [("x", 1), ("y", 2)] = false := by
  refine ⟨?_, ?_, ?_, ?_⟩
  · exact pointBeq_perm eqLaws_real (by simp) (List.Perm.swap _ _ _)
  all_goals simp [pointBeq, Point.get?]

/-- the hypotheses of `pointBeq_symm`/`pointBeq_iff` are met by a non-trivial pair -/
example : (([("x", 1), ("y", 2)] : Point ℝ).map Prod.fst).Nodup ∧
    pointBeq realNum [("x", 1), ("y", 2)] [("y", 1 + 1), ("x", 1)] = true := by
  constructor
  · simp
  · have h2 : (1 : ℝ) + 1 = 2 := by norm_num
    simp [pointBeq, Point.get?, h2]

/-- distinctness of names is needed for reflexivity: a repeated name is looked up at its first
occurrence only -/
example : pointBeq realNum [("x", 1), ("x", 2)] [("x", 1), ("x", 2)] = false := by
  simp [pointBeq, Point.get?]

end examples

end Smooth
