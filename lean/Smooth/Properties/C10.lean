/-
C10 (frame part) — evaluation and the numeric derivative passes only ever WRITE MEMOS.

In the heap model (Model/Heap) the only mutable state is the store of `_value` fields; the
expression tree, the point and every other object are arguments, not state, so no operation of the
model can change what an existing object denotes.  What remains to be shown is the frame of the
store: `evalS`/`fwdS`/`revS` return the initial store with entries pushed in front, every one of them
at the id of a memo-carrying object reachable from the expression they were called on.  These
statements are unconditional: no well-formedness of sharing, no consistency of the initial store,
any number instance.
-/
import Smooth.Proofs.Heap
import Smooth.Model.Instances

namespace Smooth
open Expr
variable {α : Type}

/-- **C10 (frame of `_evaluate`).** -/
theorem eval_only_adds_memos (N : Num α) (p : Point α) (e : Expr α) (st st' : Store α) (v : α)
    (h : evalS N p e st = .ok (v, st')) :
    ∃ added : Store α, st' = added ++ st ∧ ∀ i ∈ added.map Prod.fst, i ∈ memoIds e :=
  evalS_frame e (fun _ hi => hi) st v st' h

/-- **C10 (frame of `_numeric_partial`).** -/
theorem fwd_only_adds_memos (N : Num α) (p : Point α) (x : String) (e : Expr α)
    (st st' : Store α) (d : α) (h : fwdS N p x e st = .ok (d, st')) :
    ∃ added : Store α, st' = added ++ st ∧ ∀ i ∈ added.map Prod.fst, i ∈ memoIds e :=
  fwdS_frame x e (fun _ hi => hi) st d st' h

/-- **C10 (frame of `_compute_numeric_partials`).** -/
theorem rev_only_adds_memos (N : Num α) (p : Point α) (e : Expr α) (m : α) (acc acc' : Acc α)
    (st st' : Store α) (h : revS N p e m acc st = .ok (acc', st')) :
    ∃ added : Store α, st' = added ++ st ∧ ∀ i ∈ added.map Prod.fst, i ∈ memoIds e :=
  revS_frame e (fun _ hi => hi) m acc st acc' st' h

/-- hence the memo of every object that is not reachable from `e` is exactly what it was -/
theorem eval_foreign_memos_untouched (N : Num α) (p : Point α) (e : Expr α) (st st' : Store α)
    (v : α) (h : evalS N p e st = .ok (v, st')) {j : Nat} (hj : j ∉ memoIds e) :
    st'.get? j = st.get? j :=
  (evalS_frame e (fun _ hi => hi) st v st' h).get?_of_not_mem hj

theorem fwd_foreign_memos_untouched (N : Num α) (p : Point α) (x : String) (e : Expr α)
    (st st' : Store α) (d : α) (h : fwdS N p x e st = .ok (d, st')) {j : Nat}
    (hj : j ∉ memoIds e) : st'.get? j = st.get? j :=
  (fwdS_frame x e (fun _ hi => hi) st d st' h).get?_of_not_mem hj

theorem rev_foreign_memos_untouched (N : Num α) (p : Point α) (e : Expr α) (m : α)
    (acc acc' : Acc α) (st st' : Store α) (h : revS N p e m acc st = .ok (acc', st')) {j : Nat}
    (hj : j ∉ memoIds e) : st'.get? j = st.get? j :=
  (revS_frame e (fun _ hi => hi) m acc st acc' st' h).get?_of_not_mem hj

/-- and no run on `e₁` (at any point, from any store) changes what any expression `e₂` — sharing
objects with `e₁` or not — evaluates to afterwards, at any point -/
theorem eval_does_not_disturb_others (N : Num α) (p₁ p₂ : Point α) (e₁ : Expr α) {e₂ : Expr α}
    (hid : IdsOK e₂) (st st' : Store α) (v : α) (_h : evalS N p₁ e₁ st = .ok (v, st')) :
    atS N p₂ e₂ st' = atS N p₂ e₂ st := by
  rw [at_refines N p₂ hid, at_refines N p₂ hid]

/-! ### non-vacuity -/

/-- a run that does add entries: from a store holding only a foreign entry, evaluating the DAG
`s * s` (`s` = id 1, product = id 2) pushes the memo of `s` once (the second occurrence is a hit) and
then the memo of the product -/
example : evalS intNum [("x", 3)] (exDag 1) [(99, 5)] = .ok (16, [(2, 16), (1, 4)] ++ [(99, 5)]) ∧
    memoIds (exDag (1 : Int)) = [2, 1, 1] := ⟨rfl, rfl⟩

/-- forward and reverse mode on the same DAG return, too; they memoise the shared factor only (the
product rule evaluates the factors, not the product) -/
example : fwdS intNum [("x", 3)] "x" (exDag 1) [(99, 5)]
      = .ok (8, [(1, 4)] ++ [(99, 5)]) ∧
    revS intNum [("x", 3)] (exDag 1) 1 [] [(99, 5)]
      = .ok ([("x", 8)], [(1, 4)] ++ [(99, 5)]) := ⟨rfl, rfl⟩

end Smooth
