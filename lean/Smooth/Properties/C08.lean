/-
C08 (part B) — simplification is value-preserving: the n-ary rewrite rules, every step of the step
driver, constant folding, the `_fully_reduce` loop for every budget (the give-up fallback included)
and the normal-form pass each yield an expression that `Refines` the input:

  `Refines e e'`  :=  `WF e → WF e'`,  every point supplying `e` supplies `e'`,  and wherever `e` is
  defined (`Dom ρ e`) `e'` is defined and `den ρ e' = den ρ e`   — the domain may only grow.

The twelve rules of `Add`/`Multiply` are sound unconditionally (`nary_rule_sound`).  The driver-level
theorems take the soundness of the individual rules as the hypothesis `RulesSound Allowed` ("rule `r`
refines `e` whenever it applies and `Allowed r e`"), `Allowed` being an abstract side condition that
is non-trivial only for the known exception K1 (`nrootPow` on even/even); they require `Allowed` of
exactly the rule applications the run performs: `stepRedex e` is THE (rule, redex) pair of the step
`stepF realNum e` (`step_event_rule`, `step_redex_applies` tie it to the model), `StepOK`, `RunOK`,
`NormOK`, `NormRedOK` collect these along `stepF`, `fullyReduceLoop`, `normalizeF`, `normReducedF`.
Proofs: Proofs/RulesNary.lean, Proofs/SRootMul.lean, Proofs/DriverSound.lean, Proofs/ListSem.lean.
-/
import Smooth.Proofs.RulesNary
import Smooth.Proofs.DriverSound
import Smooth.Proofs.RulesUnary

namespace Smooth
open Expr

/-! ### the rules of `Add` and `Multiply` -/

/-- **C08, n-ary rules.**  Each of `addFlatten, addZeros, addLogs, addConsts, mulFlatten, mulZero,
mulOnes, mulNegs, mulNPows, mulNRoots, mulExps, mulConsts` refines its input whenever it applies. -/
theorem nary_rule_sound (r : RuleId) (hr : r.isNary = true) (e e' : Expr ℝ)
    (h : r.apply realNum e = some e') : Refines e e' :=
  nary_rule_refines hr h

/-- the sign-keeping root is multiplicative (what `mulNRoots` rests on) -/
theorem sroot_multiplicative (n : ℕ) (hn : 1 ≤ n) (a b : ℝ) :
    sroot n (a * b) = sroot n a * sroot n b :=
  sroot_mul_b hn a b

/-- `group_by_key` is a partition: flattening the groups gives back the items, up to order -/
theorem group_by_key_partition {κ β : Type} (eq : κ → κ → Bool)
    (heq : ∀ a b, eq a b = true → a = b) (items : List (κ × β)) :
    (flatGroups (groupByKey eq items)).Perm items :=
  groupByKey_perm heq items

/-- `RulesSound` for all 46 rules follows from the twelve here plus the 34 others -/
theorem rulesSound_of_others (Allowed : RuleId → Expr ℝ → Prop)
    (h : ∀ r e e', r.isNary = false → r.apply realNum e = some e' → Allowed r e → Refines e e') :
    RulesSound Allowed := fun r e e' happ hal => by
  cases hr : r.isNary
  · exact h r e e' hr happ hal
  · exact nary_rule_refines hr happ

/-! ### constant folding, flags, congruence -/

/-- **C08, constant folding.**  A variable-free expression that evaluates to `v` is replaced by the
constant `v`. -/
theorem fold_sound (e : Expr ℝ) (v : ℝ) (h : foldAttempt realNum e = some (.inl v)) :
    Refines e (mkConst v) :=
  fold_refines h

/-- the memo flags are not part of the meaning -/
theorem flags_irrelevant (g : Flags) (e : Expr ℝ) : SameSem e (e.setFlags g) :=
  sameSem_setFlags g e

/-- replacing a term of a sum / a factor of a product by a refinement refines the whole (the other
thirteen constructor contexts: `Refines.minus_congr` … `Refines.sin_congr` in Proofs/ListSem) -/
theorem replace_in_sum (f g : Flags) (pre post : List (Expr ℝ)) (e e' : Expr ℝ) (h : Refines e e') :
    Refines (.add f (pre ++ e :: post)) (.add g (pre ++ e' :: post)) :=
  Refines.add_replace f g pre post h

theorem replace_in_product (f g : Flags) (pre post : List (Expr ℝ)) (e e' : Expr ℝ)
    (h : Refines e e') : Refines (.mul f (pre ++ e :: post)) (.mul g (pre ++ e' :: post)) :=
  Refines.mul_replace f g pre post h

/-! ### the step driver -/

/-- the step reports `.rule r` exactly when `stepRedex` names a redex for `r` … -/
theorem step_event_rule (e : Expr ℝ) (r : RuleId) :
    (stepF realNum e).2 = .rule r ↔ ∃ e₀, stepRedex e = some (r, e₀) :=
  stepF_event_rule e r

/-- … and the rule does rewrite that redex -/
theorem step_redex_applies (e : Expr ℝ) (r : RuleId) (e₀ : Expr ℝ)
    (h : stepRedex e = some (r, e₀)) : ∃ e₁, r.apply realNum e₀ = some e₁ :=
  stepRedex_applies h

/-- **C08, one step.**  `_take_reduction_step` refines its input provided the one rule application
it performs (if any) is allowed. -/
theorem step_sound (Allowed : RuleId → Expr ℝ → Prop) (hrules : RulesSound Allowed) (e : Expr ℝ)
    (hok : StepOK Allowed e) : Refines e (stepF realNum e).1 :=
  step_refines hrules e hok

/-- **C08, `_fully_reduce`**, for EVERY budget: also when the budget runs out and the partially
reduced expression is returned (`warned = true`), the result refines the input. -/
theorem fully_reduce_sound (Allowed : RuleId → Expr ℝ → Prop) (hrules : RulesSound Allowed)
    (bound : Nat) (e : Expr ℝ) (hok : RunOK Allowed bound e) :
    Refines e (fullyReduceWith realNum bound e).expr :=
  fullyReduce_refines hrules bound e hok

/-- **C08, the normal-form pass**, on arbitrary (not necessarily reduced) input. -/
theorem norm_reduced_sound (Allowed : RuleId → Expr ℝ → Prop) (hrules : RulesSound Allowed)
    (bound fuel : Nat) (e e' : Expr ℝ) (w : Bool) (hok : NormRedOK Allowed bound fuel e)
    (h : normReducedF realNum bound fuel e = some (e', w)) : Refines e e' :=
  normReduced_refines hrules bound fuel e e' w hok h

/-- **C08, `_normalize`.** -/
theorem normalize_sound (Allowed : RuleId → Expr ℝ → Prop) (hrules : RulesSound Allowed)
    (bound fuel : Nat) (e e' : Expr ℝ) (w : Bool) (hok : NormOK Allowed bound fuel e)
    (h : normalizeF realNum bound fuel e = some (e', w)) : Refines e e' :=
  normalize_refines hrules bound fuel e e' w hok h

/-- read on the evaluator: a value of the input is a value of the simplified expression -/
theorem normalize_keeps_value (Allowed : RuleId → Expr ℝ → Prop) (hrules : RulesSound Allowed)
    (bound fuel : Nat) (e e' : Expr ℝ) (w : Bool) (hok : NormOK Allowed bound fuel e)
    (h : normalizeF realNum bound fuel e = some (e', w)) (hwf : WF e) (p : Point ℝ) (v : ℝ)
    (hv : evalG realNum p e = .ok v) : evalG realNum p e' = .ok v :=
  (normalize_refines hrules bound fuel e e' w hok h).eval hwf p v hv

/-- when every conceivable rule application is allowed, the side conditions hold of every run -/
theorem run_ok_of_forall (Allowed : RuleId → Expr ℝ → Prop)
    (hall : ∀ r e₀ e₁, r.apply realNum e₀ = some e₁ → Allowed r e₀) (fuel : Nat) (e : Expr ℝ) :
    RunOK Allowed fuel e :=
  RunOK_of_forall hall fuel e

/-! ### non-vacuity -/

/-- the rules do apply: flattening, a zero factor under a reciprocal (the domain grows), logarithms of
one base, roots of one degree (with a non-member in between) -/
example : ruleAddFlatten (mkAdd [mkVar "x", mkAdd [mkVar "y", mkConst (1 : ℝ)]]) =
    some (mkAdd [mkVar "x", mkVar "y", mkConst 1]) := rfl

example : ruleMulZero realNum (mkMul [mkRecip (mkVar "x"), mkConst 0]) = some (mkConst 0) := by
  simp [ruleMulZero, isConstSuch, asConst]

example : ruleAddLogs realNum (mkAdd [mkLog (mkVar "x") 2, mkLog (mkVar "y") 2]) =
    some (mkAdd [mkLog (mkMul [mkVar "x", mkVar "y"]) 2]) := by
  simp [ruleAddLogs, consolidate, groupByKey, groupInsert, asLog]

example : ruleMulNRoots (mkMul [mkNRoot (mkVar "x") 2, mkVar "z", mkNRoot (mkVar "y") 2] : Expr ℝ) =
    some (mkMul [mkVar "z", mkNRoot (mkMul [mkVar "x", mkVar "y"]) 2]) := rfl

/-- `RulesSound` is satisfiable with a non-trivial `Allowed`: allow exactly the twelve rules here -/
example : RulesSound (fun r _ => r.isNary = true) := fun _ _ _ happ hal => nary_rule_refines hal happ

/-- a step that does fire a rule, and whose side condition holds: on `x + 0` with flagged children the
redex is the node itself, the rule `addZeros` -/
example :
    let e : Expr ℝ := .add {} [.var { red := true } "x", .const { red := true } 0]
    stepRedex e = some (.addZeros, e) ∧ StepOK (fun r _ => r.isNary = true) e := by
  intro e
  have h : stepRedex e = some (.addZeros, e) := by
    simp [e, stepRedex, nodeRedex, listRedex, isRed, Expr.flags, foldAttempt, vars, varsAux,
      varsAuxList, reducers, firstRule, RuleId.apply, ruleAddFlatten, spliceFirst, asAdd,
      ruleAddZeros, isConstSuch, asConst]
  refine ⟨h, fun r e₀ hr => ?_⟩
  rw [h] at hr
  simp only [Option.some.injEq, Prod.mk.injEq] at hr
  rw [← hr.1]; rfl

/-- the hypotheses of `normalize_sound` are satisfiable (tiny budget and fuel, so that the run can be
computed by hand: the budget is exhausted at once, the warning is reported) -/
example : NormOK (fun r _ => r.isNary = true) 0 2 (mkVar "x" : Expr ℝ) ∧
    normalizeF realNum 0 2 (mkVar "x") = some (mkVar "x", true) :=
  ⟨⟨trivial, trivial⟩, rfl⟩

/-- the exhausted budget: with budget 0 the loop gives up at once, warns, and still refines -/
example (e : Expr ℝ) : (fullyReduceWith realNum 0 e).warned = true ∧
    Refines e (fullyReduceWith realNum 0 e).expr :=
  ⟨rfl, fullyReduce_refines (Allowed := fun r _ => r.isNary = true)
    (fun _ _ _ happ hal => nary_rule_refines hal happ) 0 e trivial⟩


/-! ### all 46 rules together; the recorded defect K1 as the one explicit side condition -/

/-- every rule that is not one of the twelve n-ary rules is one of the 34 unary/binary rules -/
theorem non_nary_is_unary (r : RuleId) (h : r.isNary = false) : r ∈ unaryRules := by
  cases r <;> first | (exact absurd h (by decide)) | (simp [unaryRules])

/-- **C08, every individual rewrite rule.**  Each of the 46 rules, whenever it fires, yields an
expression that is well formed, needs no new variable, is defined wherever the input is defined and
has the same value there — except the even/even instance of `NthRoot(NthPower(u, m), n)` (K1), which
is exactly what `K1FreeAt` excludes. -/
theorem all_rules_sound : RulesSound K1FreeAt :=
  rulesSound_of_others K1FreeAt fun r e e' hr happ hal =>
    unaryRule_refines r (non_nary_is_unary r hr) e e' happ hal

/-- one step of the driver (rule, constant fold, child step or flag) -/
theorem step_sound_partial (e : Expr ℝ) (hok : StepOK K1FreeAt e) :
    Refines e (stepF realNum e).1 :=
  step_sound K1FreeAt all_rules_sound e hok

/-- the whole reduction loop, for every budget — also when the rewriter gives up and returns a
partially reduced form -/
theorem fully_reduce_sound_partial (bound : Nat) (e : Expr ℝ) (hok : RunOK K1FreeAt bound e) :
    Refines e (fullyReduceWith realNum bound e).expr :=
  fully_reduce_sound K1FreeAt all_rules_sound bound e hok

/-- `_normalize()` : reduction followed by the normal-form pass, on arbitrary input -/
theorem normalize_sound_partial (bound fuel : Nat) (e e' : Expr ℝ) (w : Bool)
    (hok : NormOK K1FreeAt bound fuel e) (h : normalizeF realNum bound fuel e = some (e', w)) :
    Refines e e' :=
  normalize_sound K1FreeAt all_rules_sound bound fuel e e' w hok h

/-- the full statement (without the K1 side condition) is FALSE for the code as it is: -/
theorem rule_soundness_fails_at_K1 :
    RuleId.nrootPow.apply realNum (mkNRoot (mkNPow (mkVar "x") 2) 2 : Expr ℝ) =
        some (mkNPow (mkNRoot (mkVar "x") 2) 2) ∧
      ¬ Refines (mkNRoot (mkNPow (mkVar "x") 2) 2 : Expr ℝ) (mkNPow (mkNRoot (mkVar "x") 2) 2) :=
  ⟨rfl, nrootPow_unsound⟩

/-- K1 through the evaluator: at x = -3 the redex has a value, the rewritten form raises -/
theorem K1_witness_eval :
    (∃ v, evalG realNum [("x", -3)] (mkNRoot (mkNPow (mkVar "x") 2) 2 : Expr ℝ) = .ok v) ∧
      evalG realNum [("x", -3)] (mkNPow (mkNRoot (mkVar "x") 2) 2 : Expr ℝ) = .error .domain :=
  nrootPow_unsound_eval

/-- non-vacuity: each of the 34 unary/binary rules fires on a well-formed, K1-free redex that is in
its domain -/
example : ∀ r ∈ unaryRules, ∃ e' : Expr ℝ,
    r.apply realNum (unaryWitness r) = some e' ∧ WF (unaryWitness r) ∧
      K1FreeAt r (unaryWitness r) ∧ Dom (fun _ => (2 : ℝ)) (unaryWitness r) :=
  unaryRule_fires

end Smooth
