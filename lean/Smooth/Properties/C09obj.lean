/-
C09 (objects) — history independence of the persistent derivative objects.

"The result of any evaluation or derivative query depends only on the expression and the point, never
on history."  Properties/C09.lean treats the two memo mechanisms inside expressions (`_value`, the
reduction flags).  This file treats the third piece of state that survives between calls: the
`_synthetic_partial` attribute of a `Partial` (and of the `Partial` inside a `Derivative`).  Users keep
such objects and call `.at(point)` / `.as_expression()` many times in any order; C09 says every answer
is the answer a fresh object would give.

Model (Proofs/ObjHistory.lean, computable, generic in the number record `N`):
* `POp α`  — a call: `.at p` or `.asExpr`;   `DOp α` — on a `Derivative`: `.at p`, `.atNumber t`, `.asExpr`;
* `POut α` — what the call returned: `.num r` (a number or an error) or `.expr r` (the expression
  together with "a warning was logged during this call", or an error);
* `PartialObj.step N P o` — next state and answer (a FAILING `as_expression()` leaves the state
  unchanged: Python assigns the attribute only after `_normalize()` has returned);
* `PartialObj.run N P ops` — final state and transcript of a history;
* `PartialObj.freshAnswer N e x o` — the answer of the never-used late object `Partial(e, x)`;
* `POut.MemoOf fresh out` — `out` is `fresh`, or `fresh = (s, w)` and `out = (s, false)`: the same
  expression, and no warning (a fresh object may log the budget warning while it normalises; an object
  that answers from its memo never logs one);  `POut.forget` erases the warning flag.

Side conditions, and where each is needed:
* `WF e` (what every constructible expression satisfies, C16) and `Supp p e` (the point has a
  coordinate for every variable of `e`) for the `.at` calls;
* **K1** — `NormOK K1FreeAt REDUCTION_STEPS_BOUND NORMALIZE_FUEL (symFwd realNum x e)`: the rewriter's
  run on the raw symbolic partial performs no even/even `NthRoot(NthPower(·))` rewrite (the one
  unsound rule, C05/C08).  Needed ONLY for `.at` ON the domain after the expression has been stored.
  Without it the statement is false: `partial_history_K1_witness`.  Theorems that need it carry the
  suffix `_partial`.
* **fuel** (`normalize … = some _`): NOT needed for late objects — if the rewriter runs out of fuel,
  `as_expression()` fails, the state stays as it was, and a fresh object fails in the same way.  For
  objects built with `compute_early=True` the hypothesis is "the construction succeeded"
  (`PartialObj.new … true = .ok _`), which is the fuel condition (`partial_early_construction_succeeds`,
  and C06 `early_construction_fails_only_for_fuel`).
* `.as_expression()` needs nothing at all and holds for every number instance.
-/
import Smooth.Proofs.ObjHistory

namespace Smooth
open Expr

/-! ## 1. the state invariant -/

/-- **C09obj, state invariant.**  After ANY history of calls on `Partial(e, x)` or
`Partial(e, x, compute_early=True)` the object still has the original `e` and the variable `x`, and its
`_synthetic_partial` is either absent or THE normalised symbolic partial
`_retrieve_synthetic_partial(e, x)` — for every number instance. -/
theorem partial_state_invariant {α : Type} (N : Num α) (e : Expr α) (x : String) (early : Bool)
    (P₀ : PartialObj α) (w₀ : Bool) (h₀ : PartialObj.new N e x early = .ok (P₀, w₀))
    (ops : List (POp α)) :
    (P₀.run N ops).1 = ⟨e, x, none⟩ ∨
      ∃ s w, retrieveSyntheticPartial N e x = .ok (s, w) ∧ (P₀.run N ops).1 = ⟨e, x, some s⟩ :=
  oh_run_inv N (oh_inv_new N e x early h₀) ops

/-- the stored expression is the same whatever the history and however the object was built -/
theorem partial_stored_expression_unique {α : Type} (N : Num α) (e : Expr α) (x : String)
    (early₁ early₂ : Bool) (P₁ P₂ : PartialObj α) (w₁ w₂ : Bool)
    (h₁ : PartialObj.new N e x early₁ = .ok (P₁, w₁))
    (h₂ : PartialObj.new N e x early₂ = .ok (P₂, w₂)) (ops₁ ops₂ : List (POp α)) (s₁ s₂ : Expr α)
    (e₁ : (P₁.run N ops₁).1.syn = some s₁) (e₂ : (P₂.run N ops₂).1.syn = some s₂) : s₁ = s₂ :=
  oh_inv_stored_unique N (oh_run_inv N (oh_inv_new N e x early₁ h₁) ops₁)
    (oh_run_inv N (oh_inv_new N e x early₂ h₂) ops₂) e₁ e₂

/-- an object that stores an expression (built early, or after a successful `as_expression()`) never
changes again -/
theorem partial_stored_state_is_final {α : Type} (N : Num α) (e s : Expr α) (x : String)
    (ops : List (POp α)) : ((PartialObj.mk e x (some s)).run N ops).1 = ⟨e, x, some s⟩ :=
  oh_run_stored N e s x ops

/-- in particular the object built with `compute_early=True` -/
theorem partial_early_state_constant {α : Type} (N : Num α) (e : Expr α) (x : String)
    (P₀ : PartialObj α) (w₀ : Bool) (h₀ : PartialObj.new N e x true = .ok (P₀, w₀))
    (ops : List (POp α)) : (P₀.run N ops).1 = P₀ :=
  oh_run_early N e x h₀ ops

/-- once the history contains a successful `as_expression()` the late object stores its result -/
theorem partial_state_after_as_expression {α : Type} (N : Num α) (e s : Expr α) (x : String)
    (w : Bool) (hret : retrieveSyntheticPartial N e x = .ok (s, w)) (ops : List (POp α))
    (h : POp.asExpr ∈ ops) : ((PartialObj.mk e x none).run N ops).1 = ⟨e, x, some s⟩ :=
  oh_run_asExpr_mem N hret (oh_inv_fresh N e x) ops h

/-- a failing `as_expression()` leaves the object as it was; and when the rewriter has not enough
fuel for this expression, a late object stays in its initial state under every history -/
theorem partial_failed_as_expression_keeps_state {α : Type} (N : Num α) (e : Expr α) (x : String)
    (err : Err) :
    (∀ P : PartialObj α, P.asExpression N = .error err →
        P.step N .asExpr = (P, .expr (.error err))) ∧
      (retrieveSyntheticPartial N e x = .error err →
        ∀ ops, ((PartialObj.mk e x none).run N ops).1 = ⟨e, x, none⟩) :=
  ⟨fun P h => oh_step_asExpr_fail N P h, fun h ops => oh_run_fuel N h ops⟩

/-! ## 2. answers do not depend on the history

FULL STATEMENT (what the property asks for; FALSE for the code as it is because of the recorded defect
K1, see `partial_history_K1_witness`):

  theorem partial_at_history_independent (e) (x) (hwf : WF e) (early) (P₀) (w₀)
      (h₀ : PartialObj.new realNum e x early = .ok (P₀, w₀)) (ops) (p) (hs : Supp p e) :
      ((P₀.run realNum ops).1.step realNum (.at p)).2 = PartialObj.freshAnswer realNum e x (.at p)

PROVED: the same with the K1 side condition `hK1`.  What is missing for the full statement is exactly
the soundness of the one rule instance K1, which does not hold.  OFF the domain and for
`as_expression()` the full statement is proved (no K1 hypothesis).
-/

/-- **C09obj, `.at(point)`.**  After any history (on a late or an early object) `.at(p)` at a supplied
point returns exactly what a fresh late `Partial(e, x)` returns: the same number on the domain, the
same `DomainError` off it. -/
theorem partial_at_history_independent_partial (e : Expr ℝ) (x : String) (hwf : WF e)
    (hK1 : NormOK K1FreeAt REDUCTION_STEPS_BOUND NORMALIZE_FUEL (symFwd realNum x e))
    (early : Bool) (P₀ : PartialObj ℝ) (w₀ : Bool)
    (h₀ : PartialObj.new realNum e x early = .ok (P₀, w₀)) (ops : List (POp ℝ)) (p : Point ℝ)
    (hs : Supp p e) :
    ((P₀.run realNum ops).1.step realNum (.at p)).2 =
      .num ((PartialObj.mk e x none).at realNum p) :=
  oh_memoOf_num (oh_after_history hwf hK1 (oh_inv_new realNum e x early h₀) ops (.at p) hs)

/-- … on the domain both are the true partial derivative … -/
theorem partial_at_on_domain_history_independent_partial (e : Expr ℝ) (x : String) (hwf : WF e)
    (hK1 : NormOK K1FreeAt REDUCTION_STEPS_BOUND NORMALIZE_FUEL (symFwd realNum x e))
    (early : Bool) (P₀ : PartialObj ℝ) (w₀ : Bool)
    (h₀ : PartialObj.new realNum e x early = .ok (P₀, w₀)) (ops : List (POp ℝ)) (p : Point ℝ)
    (hs : Supp p e) (hd : Dom (valOf p) e) :
    ((P₀.run realNum ops).1.step realNum (.at p)).2 = .num (.ok (truePartial p x e)) ∧
      PartialObj.freshAnswer realNum e x (.at p) = .num (.ok (truePartial p x e)) := by
  rw [partial_at_history_independent_partial e x hwf hK1 early P₀ w₀ h₀ ops p hs, oh_fresh_at]
  exact ⟨congrArg POut.num (oh_at_fresh_on hwf p hs hd),
    congrArg POut.num (tp_fwd_is_truePartial p x e hwf hs hd)⟩

/-- … and off the domain both raise `DomainError` — with NO K1 hypothesis: an object that stores an
expression evaluates the original first. -/
theorem partial_at_off_domain_history_independent (e : Expr ℝ) (x : String) (hwf : WF e)
    (early : Bool) (P₀ : PartialObj ℝ) (w₀ : Bool)
    (h₀ : PartialObj.new realNum e x early = .ok (P₀, w₀)) (ops : List (POp ℝ)) (p : Point ℝ)
    (hs : Supp p e) (hnd : ¬ Dom (valOf p) e) :
    ((P₀.run realNum ops).1.step realNum (.at p)).2 = .num (.error .domain) ∧
      PartialObj.freshAnswer realNum e x (.at p) = .num (.error .domain) :=
  ⟨congrArg POut.num
      (oh_at_inv_off hwf (oh_run_inv realNum (oh_inv_new realNum e x early h₀) ops) p hs hnd),
    congrArg POut.num (oh_at_fresh_off hwf p hs hnd)⟩

/-- **C09obj, `.as_expression()`.**  After any history (on a late or an early object)
`as_expression()` returns the fresh object's answer `_retrieve_synthetic_partial(e, x)` — the same
expression or the same failure — except that the warning flag may be dropped: either the answer IS the
fresh one, or the fresh one is `(s, w)` and the answer is `(s, false)`.  For every number instance;
no K1, no fuel, no well-formedness hypothesis. -/
theorem partial_as_expression_history_independent {α : Type} (N : Num α) (e : Expr α) (x : String)
    (early : Bool) (P₀ : PartialObj α) (w₀ : Bool)
    (h₀ : PartialObj.new N e x early = .ok (P₀, w₀)) (ops : List (POp α)) :
    PartialObj.freshAnswer N e x .asExpr = .expr (retrieveSyntheticPartial N e x) ∧
    (((P₀.run N ops).1.step N .asExpr).2 = .expr (retrieveSyntheticPartial N e x) ∨
      ∃ s w, retrieveSyntheticPartial N e x = .ok (s, w) ∧
        ((P₀.run N ops).1.step N .asExpr).2 = .expr (.ok (s, false))) := by
  refine ⟨oh_fresh_asExpr N e x, ?_⟩
  rcases oh_asExpr_memoOf N (oh_run_inv N (oh_inv_new N e x early h₀) ops) with h | ⟨s, w, h1, h2⟩
  · exact Or.inl (by rw [h, oh_fresh_asExpr])
  · rw [oh_fresh_asExpr] at h1
    injection h1 with h1
    exact Or.inr ⟨s, w, h1, h2⟩

/-- the warning flag, exactly: the FIRST successful `as_expression()` of a late object carries the
fresh object's flag, every later one — and every one on an early object, whose warning was logged at
construction (`w₀`) — carries `false` -/
theorem partial_as_expression_warning_flag {α : Type} (N : Num α) (e s : Expr α) (x : String)
    (w : Bool) (hret : retrieveSyntheticPartial N e x = .ok (s, w)) :
    (∀ ops : List (POp α), POp.asExpr ∉ ops →
        (((PartialObj.mk e x none).run N ops).1.step N .asExpr).2 = .expr (.ok (s, w))) ∧
    (∀ ops : List (POp α), POp.asExpr ∈ ops →
        (((PartialObj.mk e x none).run N ops).1.step N .asExpr).2 = .expr (.ok (s, false))) ∧
    (∀ (P₀ : PartialObj α) (w₀ : Bool), PartialObj.new N e x true = .ok (P₀, w₀) →
        w₀ = w ∧ ∀ ops : List (POp α),
          ((P₀.run N ops).1.step N .asExpr).2 = .expr (.ok (s, false))) :=
  oh_warning_flag N hret

/-- **C09obj, whole transcript.**  Call by call, the transcript of any history is the transcript of
fresh objects (`MemoOf`: equal, or the same expression without the warning). -/
theorem partial_transcript_is_fresh_partial (e : Expr ℝ) (x : String) (hwf : WF e)
    (hK1 : NormOK K1FreeAt REDUCTION_STEPS_BOUND NORMALIZE_FUEL (symFwd realNum x e))
    (early : Bool) (P₀ : PartialObj ℝ) (w₀ : Bool)
    (h₀ : PartialObj.new realNum e x early = .ok (P₀, w₀)) (ops : List (POp ℝ))
    (hsupp : ∀ o ∈ ops, o.Supplies e) :
    List.Forall₂ (fun o out => POut.MemoOf (PartialObj.freshAnswer realNum e x o) out) ops
      (P₀.run realNum ops).2 :=
  oh_run_transcript hwf hK1 (oh_inv_new realNum e x early h₀) ops hsupp

/-- what `MemoOf` means: for numbers equality; in general equality after forgetting the warning flag;
and equality outright when the fresh object logs no warning -/
theorem memoOf_meaning {α : Type} (fresh out : POut α) (h : POut.MemoOf fresh out) :
    out.forget = fresh.forget ∧ (∀ r, fresh = .num r → out = .num r) ∧
      ((∀ s w, fresh = .expr (.ok (s, w)) → w = false) → out = fresh) :=
  ⟨oh_memoOf_forget h, fun _ hr => oh_memoOf_num (hr ▸ h), oh_memoOf_no_warning h⟩

/-! ## 5. the shape the check uses: two histories, one final answer -/

/-- **C09obj, two histories.**  Take two objects for the same `e`, `x` (each late or early), run any
two histories on them, then ask the same question: the two answers agree — exactly for `.at p`, up to
the warning flag for `.as_expression()`. -/
theorem partial_two_histories_partial (e : Expr ℝ) (x : String) (hwf : WF e)
    (hK1 : NormOK K1FreeAt REDUCTION_STEPS_BOUND NORMALIZE_FUEL (symFwd realNum x e))
    (early₁ early₂ : Bool) (P₁ P₂ : PartialObj ℝ) (w₁ w₂ : Bool)
    (h₁ : PartialObj.new realNum e x early₁ = .ok (P₁, w₁))
    (h₂ : PartialObj.new realNum e x early₂ = .ok (P₂, w₂))
    (ops₁ ops₂ : List (POp ℝ)) (o : POp ℝ) (hsupp : o.Supplies e) :
    ((P₁.run realNum ops₁).1.step realNum o).2.forget =
      ((P₂.run realNum ops₂).1.step realNum o).2.forget :=
  oh_two_histories hwf hK1 (oh_inv_new realNum e x early₁ h₁) (oh_inv_new realNum e x early₂ h₂)
    ops₁ ops₂ o hsupp

/-- for `.at p` the agreement is exact -/
theorem partial_two_histories_at_partial (e : Expr ℝ) (x : String) (hwf : WF e)
    (hK1 : NormOK K1FreeAt REDUCTION_STEPS_BOUND NORMALIZE_FUEL (symFwd realNum x e))
    (early₁ early₂ : Bool) (P₁ P₂ : PartialObj ℝ) (w₁ w₂ : Bool)
    (h₁ : PartialObj.new realNum e x early₁ = .ok (P₁, w₁))
    (h₂ : PartialObj.new realNum e x early₂ = .ok (P₂, w₂))
    (ops₁ ops₂ : List (POp ℝ)) (p : Point ℝ) (hs : Supp p e) :
    ((P₁.run realNum ops₁).1.step realNum (.at p)).2 =
      ((P₂.run realNum ops₂).1.step realNum (.at p)).2 := by
  rw [partial_at_history_independent_partial e x hwf hK1 early₁ P₁ w₁ h₁ ops₁ p hs,
    partial_at_history_independent_partial e x hwf hK1 early₂ P₂ w₂ h₂ ops₂ p hs]

/-- for `.as_expression()` the returned expression (or failure) agrees, for every number instance and
with no side condition (only the flag is forgotten) -/
theorem partial_two_histories_as_expression {α : Type} (N : Num α) (e : Expr α) (x : String)
    (early₁ early₂ : Bool) (P₁ P₂ : PartialObj α) (w₁ w₂ : Bool)
    (h₁ : PartialObj.new N e x early₁ = .ok (P₁, w₁))
    (h₂ : PartialObj.new N e x early₂ = .ok (P₂, w₂)) (ops₁ ops₂ : List (POp α)) :
    ((P₁.run N ops₁).1.step N .asExpr).2.forget = ((P₂.run N ops₂).1.step N .asExpr).2.forget := by
  rw [oh_memoOf_forget (oh_asExpr_memoOf N (oh_run_inv N (oh_inv_new N e x early₁ h₁) ops₁)),
    oh_memoOf_forget (oh_asExpr_memoOf N (oh_run_inv N (oh_inv_new N e x early₂ h₂) ops₂))]

/-! ## 3. objects built early; `Derivative` -/

/-- `Partial(e, x, compute_early=True)` can be built whenever the rewriter has enough fuel for the raw
symbolic partial (it cannot fail otherwise: C06 `early_construction_fails_only_for_fuel`); it stores
the normalised symbolic partial, and the theorems above (stated for `early : Bool`) apply to it -/
theorem partial_early_construction_succeeds (e : Expr ℝ) (x : String)
    (hfuel : ∃ r, normalize realNum (symFwd realNum x e) = some r) :
    ∃ s w, retrieveSyntheticPartial realNum e x = .ok (s, w) ∧
      PartialObj.new realNum e x true = .ok (⟨e, x, some s⟩, w) :=
  oh_new_early_ok e x hfuel

/-- a `Derivative` forwards every call to its `Partial` in the single variable: one step of the
`Derivative` is one step of the wrapped `Partial` (`.at(number)` becomes `.at` of the one-coordinate
point), and so is a whole history — for every number instance -/
theorem derivative_history_is_partial_history {α : Type} (N : Num α) (D : DerivativeObj α)
    (ops : List (DOp α)) :
    D.run N ops = ({ D with partial_ := (D.partial_.run N (ops.map (DOp.toPOp D.x))).1 },
      (D.partial_.run N (ops.map (DOp.toPOp D.x))).2) :=
  oh_drun_eq N D ops

/-- **C09obj, state invariant of `Derivative`.**  After any history on `Derivative(e)` (late or early)
the object still has `e`, the single variable, and a `Partial` satisfying the `Partial` invariant. -/
theorem derivative_state_invariant {α : Type} (N : Num α) (e : Expr α) (early : Bool)
    (D₀ : DerivativeObj α) (w₀ : Bool) (h₀ : DerivativeObj.new N e early = .ok (D₀, w₀))
    (ops : List (DOp α)) :
    singleVarName e = .ok D₀.x ∧ (D₀.run N ops).1.orig = e ∧ (D₀.run N ops).1.x = D₀.x ∧
      ((D₀.run N ops).1.partial_ = ⟨e, D₀.x, none⟩ ∨
        ∃ s w, retrieveSyntheticPartial N e D₀.x = .ok (s, w) ∧
          (D₀.run N ops).1.partial_ = ⟨e, D₀.x, some s⟩) := by
  obtain ⟨hx, hinv⟩ := oh_dinv_new N e early h₀
  exact ⟨hx, oh_drun_inv N hinv ops⟩

/-- the fresh `Derivative` the next theorems compare with is the one the constructor builds -/
theorem derivative_fresh_is_new {α : Type} (N : Num α) (e : Expr α) (D : DerivativeObj α) (w : Bool)
    (h : DerivativeObj.new N e false = .ok (D, w)) (o : DOp α) :
    (D.step N o).2 = DerivativeObj.freshAnswer N e D.x o := by
  conv_lhs => rw [oh_dnew_late N e h]
  rfl

/-- **C09obj, `Derivative`.**  After any history on `Derivative(e)` (late or early) every call —
`.at(point)` at a supplied point, `.at(number)` (the one-coordinate point always supplies `e`),
`.as_expression()` — answers like a fresh late `Derivative(e)`: the same number on the domain, the
same `DomainError` off it, the same expression (possibly without the warning). -/
theorem derivative_history_independent_partial (e : Expr ℝ) (hwf : WF e) (early : Bool)
    (D₀ : DerivativeObj ℝ) (w₀ : Bool) (h₀ : DerivativeObj.new realNum e early = .ok (D₀, w₀))
    (hK1 : NormOK K1FreeAt REDUCTION_STEPS_BOUND NORMALIZE_FUEL (symFwd realNum D₀.x e))
    (ops : List (DOp ℝ)) (o : DOp ℝ) (hsupp : o.Supplies e) :
    POut.MemoOf (DerivativeObj.freshAnswer realNum e D₀.x o)
      ((D₀.run realNum ops).1.step realNum o).2 := by
  obtain ⟨hx, hinv⟩ := oh_dinv_new realNum e early h₀
  exact oh_dafter_history hwf hx hK1 hinv ops o hsupp

/-- the numeric calls, spelled out: `.at(p)` and `.at(t)` after any history equal the fresh answers -/
theorem derivative_at_history_independent_partial (e : Expr ℝ) (hwf : WF e) (early : Bool)
    (D₀ : DerivativeObj ℝ) (w₀ : Bool) (h₀ : DerivativeObj.new realNum e early = .ok (D₀, w₀))
    (hK1 : NormOK K1FreeAt REDUCTION_STEPS_BOUND NORMALIZE_FUEL (symFwd realNum D₀.x e))
    (ops : List (DOp ℝ)) :
    (∀ p, Supp p e → ((D₀.run realNum ops).1.step realNum (.at p)).2 =
        .num (fwdG realNum p D₀.x e)) ∧
    (∀ t, ((D₀.run realNum ops).1.step realNum (.atNumber t)).2 =
        .num (fwdG realNum [(D₀.x, t)] D₀.x e)) :=
  ⟨fun p hs => oh_memoOf_num
      (derivative_history_independent_partial e hwf early D₀ w₀ h₀ hK1 ops (.at p) hs),
    fun t => oh_memoOf_num
      (derivative_history_independent_partial e hwf early D₀ w₀ h₀ hK1 ops (.atNumber t) trivial)⟩

/-- the whole transcript of a `Derivative` history -/
theorem derivative_transcript_is_fresh_partial (e : Expr ℝ) (hwf : WF e) (early : Bool)
    (D₀ : DerivativeObj ℝ) (w₀ : Bool) (h₀ : DerivativeObj.new realNum e early = .ok (D₀, w₀))
    (hK1 : NormOK K1FreeAt REDUCTION_STEPS_BOUND NORMALIZE_FUEL (symFwd realNum D₀.x e))
    (ops : List (DOp ℝ)) (hsupp : ∀ o ∈ ops, o.Supplies e) :
    List.Forall₂ (fun o out => POut.MemoOf (DerivativeObj.freshAnswer realNum e D₀.x o) out) ops
      (D₀.run realNum ops).2 := by
  obtain ⟨hx, hinv⟩ := oh_dinv_new realNum e early h₀
  exact oh_drun_transcript hwf hx hK1 hinv ops hsupp

/-- two `Derivative` objects, two histories, one final answer (up to the warning flag) -/
theorem derivative_two_histories_partial (e : Expr ℝ) (hwf : WF e) (x : String)
    (hx : singleVarName e = .ok x)
    (hK1 : NormOK K1FreeAt REDUCTION_STEPS_BOUND NORMALIZE_FUEL (symFwd realNum x e))
    (early₁ early₂ : Bool) (D₁ D₂ : DerivativeObj ℝ) (w₁ w₂ : Bool)
    (h₁ : DerivativeObj.new realNum e early₁ = .ok (D₁, w₁))
    (h₂ : DerivativeObj.new realNum e early₂ = .ok (D₂, w₂))
    (ops₁ ops₂ : List (DOp ℝ)) (o : DOp ℝ) (hsupp : o.Supplies e) :
    ((D₁.run realNum ops₁).1.step realNum o).2.forget =
      ((D₂.run realNum ops₂).1.step realNum o).2.forget := by
  obtain ⟨hx₁, hinv₁⟩ := oh_dinv_new realNum e early₁ h₁
  obtain ⟨hx₂, hinv₂⟩ := oh_dinv_new realNum e early₂ h₂
  have e₁ : D₁.x = x := by rw [hx] at hx₁; injection hx₁ with h; exact h.symm
  have e₂ : D₂.x = x := by rw [hx] at hx₂; injection hx₂ with h; exact h.symm
  rw [e₁] at hinv₁
  rw [e₂] at hinv₂
  exact oh_dtwo_histories hwf hx hK1 hinv₁ hinv₂ ops₁ ops₂ o hsupp

/-! ## 4. `Differential`

A `Differential` is immutable after construction: no method of the Python class assigns an attribute,
and accordingly none of the model's functions `DifferentialObj.component`, `.componentAt`, `.at` has a
state output.  `DifferentialObj.step` therefore returns the object it was given, by definition; the
first three theorems only record this (they are `rfl`).  The content is in the comparison of the early
object with a fresh late one. -/

/-- the object after any history of queries is the object, and the transcript is the list of the
answers the (unchanged) object gives to each query on its own -/
theorem differential_queries_stateless {α : Type} (N : Num α) (D : DifferentialObj α)
    (ops : List (FOp α)) : (D.run N ops).1 = D ∧ (D.run N ops).2 = ops.map (D.answer N) :=
  ⟨oh_frun_state N D ops, oh_frun_answers N D ops⟩

/-- two successive identical queries return equal results -/
theorem differential_repeated_query {α : Type} (N : Num α) (D : DifferentialObj α) (o : FOp α) :
    ((D.step N o).1.step N o).2 = (D.step N o).2 := rfl

/-- the answer to a query after any history is the answer without the history -/
theorem differential_history_independent {α : Type} (N : Num α) (D : DifferentialObj α)
    (ops : List (FOp α)) (o : FOp α) : ((D.run N ops).1.step N o).2 = D.answer N o := by
  rw [oh_frun_state]; rfl

/-- **C09obj, early `Differential`, `component_at`.**  At every supplied point
`Differential(e, compute_early=True).component_at(x, p)` equals the fresh late answer
`Differential(e).component_at(x, p)`, for every name `x` — on the domain (outside K1 for every stored
component) and off it. -/
theorem differential_early_component_at_eq_late_partial (e : Expr ℝ) (hwf : WF e)
    (hK1r : ∀ y s, SAcc.get? (syntheticPartials realNum e) y = some s →
      NormOK K1FreeAt REDUCTION_STEPS_BOUND NORMALIZE_FUEL s)
    (D : DifferentialObj ℝ) (w : Bool) (hnew : DifferentialObj.new realNum e true = .ok (D, w))
    (x : String) (p : Point ℝ) (hs : Supp p e) :
    D.componentAt realNum x p = (DifferentialObj.mk e none).componentAt realNum x p :=
  oh_early_componentAt hwf hK1r hnew x p hs

/-- on the domain both are the true partial, off the domain both raise `DomainError` (the latter with
no K1 hypothesis) -/
theorem differential_component_at_values (e : Expr ℝ) (hwf : WF e) (D : DifferentialObj ℝ) (w : Bool)
    (hnew : DifferentialObj.new realNum e true = .ok (D, w)) (x : String) (p : Point ℝ)
    (hs : Supp p e) :
    (Dom (valOf p) e →
      (∀ y s, SAcc.get? (syntheticPartials realNum e) y = some s →
        NormOK K1FreeAt REDUCTION_STEPS_BOUND NORMALIZE_FUEL s) →
      D.componentAt realNum x p = .ok (truePartial p x e) ∧
        (DifferentialObj.mk e none).componentAt realNum x p = .ok (truePartial p x e)) ∧
    (¬ Dom (valOf p) e →
      D.componentAt realNum x p = .error .domain ∧
        (DifferentialObj.mk e none).componentAt realNum x p = .error .domain) := by
  refine ⟨fun hd hK1r => ?_, fun hnd => ?_⟩
  · rw [oh_early_componentAt hwf hK1r hnew x p hs]
    exact ⟨oh_late_componentAt_on hwf x p hs hd, oh_late_componentAt_on hwf x p hs hd⟩
  · exact ⟨oh_early_componentAt_off hwf hnew x p hs hnd, oh_late_componentAt_off hwf x p hs hnd⟩

/-- **C09obj, early `Differential`, `.at(p)`.**  At every supplied point
`Differential(e, compute_early=True).at(p)` equals the fresh late `Differential(e).at(p)`: the same
`LocatedDifferential` on the domain (outside K1), the same `DomainError` off it.  Hence every
`.at(p).component(x)` agrees, too. -/
theorem differential_early_at_eq_late_partial (e : Expr ℝ) (hwf : WF e)
    (hK1r : ∀ y s, SAcc.get? (syntheticPartials realNum e) y = some s →
      NormOK K1FreeAt REDUCTION_STEPS_BOUND NORMALIZE_FUEL s)
    (D : DifferentialObj ℝ) (w : Bool) (hnew : DifferentialObj.new realNum e true = .ok (D, w))
    (p : Point ℝ) (hs : Supp p e) :
    D.at realNum p = (DifferentialObj.mk e none).at realNum p ∧
      ∀ x, D.answer realNum (.atComponent x p) =
        (DifferentialObj.mk e none).answer realNum (.atComponent x p) :=
  ⟨oh_early_at hwf hK1r hnew p hs, fun x => (oh_early_answer hwf hK1r hnew).2.2 x p hs⟩

/-- the values of `.at(p).component(x)`: the true partial on the domain; off the domain `.at(p)`
itself raises `DomainError`, for any `Differential` of `e`, with no K1 hypothesis -/
theorem differential_at_component_values (e : Expr ℝ) (hwf : WF e) (x : String) (p : Point ℝ)
    (hs : Supp p e) :
    (Dom (valOf p) e → (DifferentialObj.mk e none).answer realNum (.atComponent x p) =
        .num (.ok (truePartial p x e))) ∧
    (¬ Dom (valOf p) e → ∀ D : DifferentialObj ℝ, D.orig = e →
        D.at realNum p = .error .domain) :=
  ⟨fun hd => congrArg FOut.num (oh_late_atComponent_on hwf x p hs hd),
    fun hnd D hD => oh_early_at_off hwf D hD p hs hnd⟩

/-- the `Partial` handed out by `component(x)` of an early `Differential` stores the (reverse-mode)
component and is therefore immutable; after any history its `.at(p)` answers like a fresh late
`Partial(e, x)`.  (Its `as_expression()` returns the stored reverse-mode component, which by the
recorded finding K2 need not be the same tree as the late object's — C06.) -/
theorem differential_early_component_history_partial (e : Expr ℝ) (x : String) (hwf : WF e)
    (hK1r : ∀ y s, SAcc.get? (syntheticPartials realNum e) y = some s →
      NormOK K1FreeAt REDUCTION_STEPS_BOUND NORMALIZE_FUEL s)
    (hK1f : NormOK K1FreeAt REDUCTION_STEPS_BOUND NORMALIZE_FUEL (symFwd realNum x e))
    (D : DifferentialObj ℝ) (w : Bool) (hnew : DifferentialObj.new realNum e true = .ok (D, w))
    (P : PartialObj ℝ) (w' : Bool) (hc : D.component realNum x = .ok (P, w'))
    (ops : List (POp ℝ)) (p : Point ℝ) (hs : Supp p e) :
    ((P.run realNum ops).1.step realNum (.at p)).2 =
      PartialObj.freshAnswer realNum e x (.at p) :=
  oh_early_component_history hwf hK1r hK1f hnew hc ops p hs

/-! ## 6. non-vacuity, and the K1 counter-example -/

/-- the hypotheses hold for `e = x * sin x`, and the history
`[at p, as_expression, at q, as_expression, at p]` on the fresh object `Partial(e, "x")` is computed:
the three numbers are the true partials (what fresh objects answer), both expressions are
`Add(Sine(x), Multiply(Cosine(x), x))` (no warning), the final state stores that expression -/
example :
    let e : Expr ℝ := mkMul [mkVar "x", mkSin (mkVar "x")]
    let s : Expr ℝ := mkAdd [mkSin (mkVar "x"), mkMul [mkCos (mkVar "x"), mkVar "x"]]
    let p : Point ℝ := [("x", 2)]
    let q : Point ℝ := [("y", 5), ("x", -1)]
    WF e ∧ NormOK K1FreeAt REDUCTION_STEPS_BOUND NORMALIZE_FUEL (symFwd realNum "x" e) ∧
      Supp p e ∧ Supp q e ∧
      PartialObj.new realNum e "x" false = .ok (⟨e, "x", none⟩, false) ∧
      (PartialObj.mk e "x" none).run realNum [.at p, .asExpr, .at q, .asExpr, .at p] =
        (⟨e, "x", some s⟩,
          [.num (.ok (truePartial p "x" e)), .expr (.ok (s, false)),
            .num (.ok (truePartial q "x" e)), .expr (.ok (s, false)),
            .num (.ok (truePartial p "x" e))]) ∧
      truePartial p "x" e = Real.sin 2 + Real.cos 2 * 2 ∧
      truePartial q "x" e = Real.sin (-1) + Real.cos (-1) * (-1) := by
  intro e s p q
  have hp : Supp p e := by simp [e, p, Supp, SuppList, Point.get?]
  have hq : Supp q e := by simp [e, q, Supp, SuppList, Point.get?]
  refine ⟨oh_exXsin_wf, oh_exXsin_K1, hp, hq, rfl, oh_exXsin_run p q hp hq, ?_, ?_⟩
  · rw [oh_exXsin_value p hp]; simp [p, valOf, Point.get?]
  · rw [oh_exXsin_value q hq]; simp [q, valOf, Point.get?]

/-- the same history on the EARLY object `Partial(x * sin x, "x", compute_early=True)`: the
construction succeeds, and the theorems apply to it: e.g. its final `.at(p)` is the fresh answer -/
example :
    let e : Expr ℝ := mkMul [mkVar "x", mkSin (mkVar "x")]
    let s : Expr ℝ := mkAdd [mkSin (mkVar "x"), mkMul [mkCos (mkVar "x"), mkVar "x"]]
    let p : Point ℝ := [("x", 2)]
    PartialObj.new realNum e "x" true = .ok (⟨e, "x", some s⟩, false) ∧
      (((PartialObj.mk e "x" (some s)).run realNum [.at p, .asExpr, .at p, .asExpr]).1.step realNum
        (.at p)).2 = .num ((PartialObj.mk e "x" none).at realNum p) := by
  intro e s p
  have hnew : PartialObj.new realNum e "x" true = .ok (⟨e, "x", some s⟩, false) := by
    simp only [PartialObj.new, if_true, e, oh_exXsin_retrieve]
    rfl
  exact ⟨hnew, partial_at_history_independent_partial e "x" oh_exXsin_wf oh_exXsin_K1 true _ _ hnew
    _ p (by simp [e, p, Supp, SuppList, Point.get?])⟩

/-- a history with a point OFF the domain: `Partial(Reciprocal(y), "y")`,
`[at (y=2), as_expression, at (y=0), as_expression, at (y=2)]`: the call at `y = 0` raises
`DomainError` although the stored expression is there — exactly as a fresh object does -/
example :
    (PartialObj.mk (mkRecip (mkVar "y") : Expr ℝ) "y" none).run realNum
        [.at [("y", 2)], .asExpr, .at [("y", 0)], .asExpr, .at [("y", 2)]] =
      (⟨mkRecip (mkVar "y"), "y", some (mkNeg (mkRecip (mkNPow (mkVar "y") 2)))⟩,
        [.num (.ok (truePartial [("y", 2)] "y" (mkRecip (mkVar "y")))),
          .expr (.ok (mkNeg (mkRecip (mkNPow (mkVar "y") 2)), false)),
          .num (.error .domain),
          .expr (.ok (mkNeg (mkRecip (mkNPow (mkVar "y") 2)), false)),
          .num (.ok (truePartial [("y", 2)] "y" (mkRecip (mkVar "y"))))]) ∧
      PartialObj.freshAnswer realNum (mkRecip (mkVar "y") : Expr ℝ) "y" (.at [("y", 0)]) =
        .num (.error .domain) :=
  oh_exRc_run

/-- the hypotheses of the `Derivative` theorems hold for `Reciprocal(y)` (single variable `y`), late and
early; a history with all three kinds of call, one of them off the domain -/
example :
    let e : Expr ℝ := mkRecip (mkVar "y")
    WF e ∧ singleVarName e = .ok "y" ∧
      NormOK K1FreeAt REDUCTION_STEPS_BOUND NORMALIZE_FUEL (symFwd realNum "y" e) ∧
      DerivativeObj.new realNum e false = .ok (⟨e, "y", ⟨e, "y", none⟩⟩, false) ∧
      DerivativeObj.new realNum e true =
        .ok (⟨e, "y", ⟨e, "y", some (mkNeg (mkRecip (mkNPow (mkVar "y") 2)))⟩⟩, false) ∧
      (∀ o ∈ [DOp.atNumber 0, DOp.asExpr, DOp.at [("y", (2 : ℝ))], DOp.atNumber 0],
        DOp.Supplies e o) := by
  intro e
  have hx : singleVarName e = .ok "y" := by
    simp [e, singleVarName, vars, varsAux, pure, Except.pure]
  refine ⟨oh_exRc_wf, hx, runRc_K1Fwd, ?_, ?_, ?_⟩
  · simp only [DerivativeObj.new, hx, PartialObj.new]
    rfl
  · have := oh_exRc_retrieve
    simp only [runRcExpr] at this
    simp only [DerivativeObj.new, hx, PartialObj.new, if_true, bind, Except.bind]
    simp only [e, this, pure, Except.pure]
  · intro o ho
    simp only [List.mem_cons, List.not_mem_nil, or_false] at ho
    rcases ho with rfl | rfl | rfl | rfl
    · trivial
    · trivial
    · simp [DOp.Supplies, e, Supp, Point.get?]
    · trivial

/-- the hypotheses of the `Differential` theorems hold for `x * y` (the early object is built, every
stored component is outside K1), at a point listing the coordinates in another order -/
example :
    let e : Expr ℝ := mkMul [mkVar "x", mkVar "y"]
    DifferentialObj.new realNum e true = .ok (⟨e, some [("x", mkVar "y"), ("y", mkVar "x")]⟩, false) ∧
      (∀ z s, SAcc.get? (syntheticPartials realNum e) z = some s →
        NormOK K1FreeAt REDUCTION_STEPS_BOUND NORMALIZE_FUEL s) ∧
      NormOK K1FreeAt REDUCTION_STEPS_BOUND NORMALIZE_FUEL (symFwd realNum "x" e) ∧
      WF e ∧ Supp [("y", 2), ("x", 3)] e ∧ Dom (valOf [("y", 2), ("x", 3)]) e :=
  ⟨symrevEx_differential "x" "y" (by decide), runXY_K1Rev, runXY_K1Fwd,
    by simp [WF, WFList, Supp, SuppList, Dom, DomList, Point.get?]⟩

/-- **K1: the hypothesis cannot be dropped.**  For `e = x * NthRoot(NthPower(x, 2), 2)` (= x·|x|) and
the point `x = -3` of the domain: a fresh object answers `6` (the true partial); after the history
`[as_expression]` the very same call answers `-6`; the K1 side condition fails for this input.  The
transcript of `[at, as_expression, at]` at that point is `6`, `x + (x * x) / x`, `-6`. -/
theorem partial_history_K1_witness :
    let e : Expr ℝ := mkMul [mkVar "x", mkNRoot (mkNPow (mkVar "x") 2) 2]
    let p : Point ℝ := [("x", -3)]
    WF e ∧ Supp p e ∧ Dom (valOf p) e ∧
      PartialObj.freshAnswer realNum e "x" (.at p) = .num (.ok 6) ∧
      (((PartialObj.mk e "x" none).run realNum [.asExpr]).1.step realNum (.at p)).2 =
        .num (.ok (-6)) ∧
      ¬ NormOK K1FreeAt REDUCTION_STEPS_BOUND NORMALIZE_FUEL (symFwd realNum "x" e) ∧
      ((PartialObj.mk e "x" none).run realNum [.at p, .asExpr, .at p]).2 =
        [.num (.ok 6),
          .expr (.ok (mkAdd [mkVar "x", mkDiv (mkMul [mkVar "x", mkVar "x"]) (mkVar "x")], false)),
          .num (.ok (-6))] := by
  intro e p
  obtain ⟨h1, h2, h3, h4, h5, h6⟩ := oh_K1_history_dependent
  exact ⟨h1, h2, h3, h4, h5, h6, oh_K1_run⟩

/-- the same defect seen through the routes of C06 (`|x|` at `x = -3`): the late object answers `-1`,
the early one and the late one after `as_expression()` answer `+1` -/
example :
    routePL realNum (mkNRoot (mkNPow (mkVar "x") 2) 2) "x" [("x", (-3 : ℝ))] = .ok (-1) ∧
      routePE realNum (mkNRoot (mkNPow (mkVar "x") 2) 2) "x" [("x", (-3 : ℝ))] = .ok 1 ∧
      routePA realNum (mkNRoot (mkNPow (mkVar "x") 2) 2) "x" [("x", (-3 : ℝ))] = .ok 1 :=
  runK1_routes_disagree

end Smooth
