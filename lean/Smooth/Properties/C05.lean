/-
C05 — Symbolic derivatives denote the true derivative.

"The expression returned by `as_expression()` of a `Derivative` or `Partial` is, at every point where
the original expression is defined, itself defined and equal in value to the true partial derivative
of the original (its domain may only be larger).  It mentions no variable that the original does not
mention, and it is again a well-formed expression, so differentiating it once more yields the true
second-order partial."

`symFwd realNum x e` is the model of `e._synthetic_partial(x)` (forward symbolic route);
`retrieveSyntheticPartial` = `_synthetic_partial(x)._normalize()`; `PartialObj.asExpression`,
`DerivativeObj.asExpression` are the public `as_expression()`.  "True partial derivative" is Mathlib's
`HasDerivAt` / `deriv` of the denotation `den` along the coordinate `x`, all other coordinates held.
The statements about the raw symbolic partial hold for EVERY valuation `ρ` of the domain (not only
the valuations `valOf p` of points); the point forms talk about the evaluator `evalG`.

Proofs: Proofs/SymForward.lean; the two concrete `as_expression()` runs: Proofs/SymForwardRun.lean.
-/
import Smooth.Proofs.SymForward
import Smooth.Proofs.SymForwardRun
import Smooth.Proofs.SymReverse

namespace Smooth
open Expr Filter Topology

/-! ## forward route: `_synthetic_partial` -/

/-- **C05, value.**  Wherever `e` is defined, the value of its symbolic partial is the derivative of
`t ↦ ⟦e⟧(ρ[x ↦ t])` at `ρ x` — for every expression, every variable name, every valuation. -/
theorem symbolic_partial_hasDerivAt (ρ : String → ℝ) (x : String) (e : Expr ℝ) (hwf : WF e)
    (hd : Dom ρ e) :
    HasDerivAt (fun t => den (upd ρ x t) e) (den ρ (symFwd realNum x e)) (ρ x) :=
  symFwd_hasDerivAt ρ x e hwf hd

/-- **C05, value, through the evaluator.**  At every supplied point of the domain of `e`, evaluating
the symbolic partial succeeds and returns *the* partial derivative of `e` there. -/
theorem symbolic_partial_value (p : Point ℝ) (x : String) (e : Expr ℝ) (hwf : WF e) (hs : Supp p e)
    (hd : Dom (valOf p) e) :
    evalG realNum p (symFwd realNum x e) =
      .ok (deriv (fun t => den (upd (valOf p) x t) e) (valOf p x)) :=
  symFwd_eval_deriv p x e hwf hs hd

/-- the symbolic route and the numeric forward route (C03) agree: evaluating `_synthetic_partial`
gives exactly what `_numeric_partial` computes (the `Power` short-cut of the numeric code included) -/
theorem symbolic_partial_eq_numeric (p : Point ℝ) (x : String) (e : Expr ℝ) (hwf : WF e)
    (hs : Supp p e) (hd : Dom (valOf p) e) :
    evalG realNum p (symFwd realNum x e) = fwdG realNum p x e :=
  symFwd_eval p x e hwf hs hd

/-- the form asked for in the task: whatever number forward mode returns, the symbolic partial is
supplied, in its domain, and denotes that number -/
theorem symbolic_partial_sound (p : Point ℝ) (x : String) (e : Expr ℝ) (hwf : WF e) (hs : Supp p e)
    (hd : Dom (valOf p) e) (d : ℝ) (h : fwdG realNum p x e = .ok d) :
    Supp p (symFwd realNum x e) ∧ Dom (valOf p) (symFwd realNum x e) ∧
      den (valOf p) (symFwd realNum x e) = d :=
  symFwd_sound p x e hwf hs hd d h

/-- **C05, definedness.**  The symbolic partial is defined wherever the original is: its domain may
only be larger (it is strictly larger in the example below). -/
theorem symbolic_partial_defined (ρ : String → ℝ) (x : String) (e : Expr ℝ) (hwf : WF e)
    (hd : Dom ρ e) : Dom ρ (symFwd realNum x e) :=
  symFwd_dom ρ x e hwf hd

/-- read on the evaluator: where `e` has a value, its symbolic partial has a value -/
theorem symbolic_partial_defined_eval (p : Point ℝ) (x : String) (e : Expr ℝ) (hwf : WF e) (v : ℝ)
    (hv : evalG realNum p e = .ok v) : ∃ d, evalG realNum p (symFwd realNum x e) = .ok d := by
  obtain ⟨hs, hd, _⟩ := (evalR_good p e hwf).ok_iff.mp hv
  exact ⟨_, symFwd_eval_deriv p x e hwf hs hd⟩

/-- **C05, variables.**  The symbolic partial mentions no variable that `e` does not mention (for
every number instance, not only the reals). -/
theorem symbolic_partial_vars {α : Type} (N : Num α) (x : String) (e : Expr α) (y : String)
    (h : y ∈ (symFwd N x e).vars) : y ∈ e.vars :=
  vars_symFwd_subset N x e h

/-- hence every point that supplies `e` supplies its symbolic partial -/
theorem symbolic_partial_supplied (p : Point ℝ) (x : String) (e : Expr ℝ) (hs : Supp p e) :
    Supp p (symFwd realNum x e) :=
  symFwd_supp p x e hs

/-- **C05, well-formedness.**  The symbolic partial of a well-formed expression is well formed
(n ≥ 1, bases positive, logarithm bases ≠ 1) — so everything above applies to it again. -/
theorem symbolic_partial_wf (x : String) (e : Expr ℝ) (hwf : WF e) : WF (symFwd realNum x e) :=
  WF_symFwd x e hwf

/-- with respect to a variable that does not occur, the symbolic partial evaluates to 0 -/
theorem symbolic_partial_not_occurring (ρ : String → ℝ) (x : String) (e : Expr ℝ) (hwf : WF e)
    (hd : Dom ρ e) (hx : ¬ Occurs x e) : den ρ (symFwd realNum x e) = 0 :=
  symFwd_den_of_not_occurs ρ x e hwf hd hx

/-! ## second order -/

/-- **the domain is open along coordinate lines**: near the point, along any coordinate, `e` stays
defined (this is what makes "the first partial as a function of `y`" meaningful) -/
theorem domain_open_along_coordinate (ρ : String → ℝ) (y : String) (e : Expr ℝ) (hwf : WF e)
    (hd : Dom ρ e) : ∀ᶠ t in 𝓝 (ρ y), Dom (upd ρ y t) e :=
  dom_eventually ρ y e hwf hd

/-- near the point along the `y`-line, the symbolic partial IS the first partial `∂e/∂x` -/
theorem symbolic_partial_is_first_partial_nearby (ρ : String → ℝ) (x y : String) (e : Expr ℝ)
    (hwf : WF e) (hd : Dom ρ e) :
    ∀ᶠ t in 𝓝 (ρ y), den (upd ρ y t) (symFwd realNum x e) =
      deriv (fun s => den (upd (upd ρ y t) x s) e) ((upd ρ y t) x) :=
  first_partial_eventually ρ x y e hwf hd

/-- **C05, second order.**  Differentiating the symbolic partial once more yields the true
second-order partial: the twice-differentiated expression is defined wherever `e` is, and its value
is the derivative along `y` of the function `t ↦ (∂e/∂x)(ρ[y ↦ t])`. -/
theorem second_order_partial (ρ : String → ℝ) (x y : String) (e : Expr ℝ) (hwf : WF e)
    (hd : Dom ρ e) :
    Dom ρ (symFwd realNum y (symFwd realNum x e)) ∧
      HasDerivAt (fun t => deriv (fun s => den (upd (upd ρ y t) x s) e) ((upd ρ y t) x))
        (den ρ (symFwd realNum y (symFwd realNum x e))) (ρ y) :=
  ⟨second_partial_dom ρ x y e hwf hd, second_partial_deriv ρ x y e hwf hd⟩

/-- the same about the expression `symFwd x e` itself (the form of the task statement) -/
theorem second_order_partial_expr (p : Point ℝ) (x y : String) (e : Expr ℝ) (hwf : WF e)
    (_hs : Supp p e) (hd : Dom (valOf p) e) :
    HasDerivAt (fun t => den (upd (valOf p) y t) (symFwd realNum x e))
      (den (valOf p) (symFwd realNum y (symFwd realNum x e))) (valOf p y) :=
  second_partial (valOf p) x y e hwf hd

/-- … and through the evaluator: at a supplied point of the domain of `e`, evaluating the
twice-differentiated expression returns that second-order partial -/
theorem second_order_partial_value (p : Point ℝ) (x y : String) (e : Expr ℝ) (hwf : WF e)
    (hs : Supp p e) (hd : Dom (valOf p) e) :
    evalG realNum p (symFwd realNum y (symFwd realNum x e)) =
      .ok (deriv (fun t => deriv (fun s => den (upd (upd (valOf p) y t) x s) e)
        ((upd (valOf p) y t) x)) (valOf p y)) := by
  rw [(second_partial_deriv (valOf p) x y e hwf hd).deriv]
  exact (evalR_good p _ (WF_symFwd y _ (WF_symFwd x e hwf))).ok_iff.mpr
    ⟨symFwd_supp p y _ (symFwd_supp p x e hs), second_partial_dom (valOf p) x y e hwf hd, rfl⟩

/-! ## `as_expression()` : the normalised symbolic partial

FULL STATEMENT (what the property text asks for; FALSE for the code as it is, because of the recorded
defect K1 — see `as_expression_K1_witness` below):

  theorem as_expression_sound (e : Expr ℝ) (x : String) (hwf : WF e) (s : Expr ℝ) (P' : PartialObj ℝ)
      (w : Bool) (h : (PartialObj.mk e x none).asExpression realNum = .ok (s, P', w)) :
      WF s ∧ (∀ y ∈ s.vars, y ∈ e.vars) ∧ (∀ p, Supp p e → Supp p s) ∧
        (∀ ρ, Dom ρ e → Dom ρ s ∧ HasDerivAt (fun t => den (upd ρ x t) e) (den ρ s) (ρ x)) ∧ …

PROVED (`as_expression_sound_partial`): the same under the hypothesis
`NormOK K1FreeAt REDUCTION_STEPS_BOUND NORMALIZE_FUEL (symFwd realNum x e)`, i.e. "no rewrite
`NthRoot(NthPower(u, m), n) ⇒ NthPower(NthRoot(u, n), m)` with `m`, `n` both even happens during the
normalisation run of the raw symbolic partial".  What is missing for the full statement is exactly
the soundness of that one rule instance, which does not hold.
-/

/-- **C05, `Partial.as_expression()`** (object that has not computed its expression yet), outside K1:
the returned expression `s` refines the raw symbolic partial; it is memoised in the object; it is
well formed, mentions no variable that `e` does not mention, is supplied by every point that supplies
`e`, is defined wherever `e` is defined and its value there is the true partial derivative — in
`HasDerivAt` form for every valuation, and through the evaluator at points (where it also coincides
with what numeric forward mode answers). -/
theorem as_expression_sound_partial (e : Expr ℝ) (x : String) (hwf : WF e)
    (hK1 : NormOK K1FreeAt REDUCTION_STEPS_BOUND NORMALIZE_FUEL (symFwd realNum x e))
    (s : Expr ℝ) (P' : PartialObj ℝ) (w : Bool)
    (h : (PartialObj.mk e x none).asExpression realNum = .ok (s, P', w)) :
    Refines (symFwd realNum x e) s ∧ P' = ⟨e, x, some s⟩ ∧
      WF s ∧ (∀ y, y ∈ s.vars → y ∈ e.vars) ∧ (∀ p : Point ℝ, Supp p e → Supp p s) ∧
      (∀ ρ : String → ℝ, Dom ρ e →
        Dom ρ s ∧ HasDerivAt (fun t => den (upd ρ x t) e) (den ρ s) (ρ x)) ∧
      (∀ p : Point ℝ, Supp p e → Dom (valOf p) e → evalG realNum p s = fwdG realNum p x e) := by
  obtain ⟨hret, hP⟩ := asExpression_late h
  have hr := retrieveSyntheticPartial_refines e x s w hK1 hret
  exact ⟨hr, hP, refines_symFwd_facts hr hwf⟩

/-- the value through the evaluator, spelled out as `deriv` -/
theorem as_expression_value_partial (e : Expr ℝ) (x : String) (hwf : WF e)
    (hK1 : NormOK K1FreeAt REDUCTION_STEPS_BOUND NORMALIZE_FUEL (symFwd realNum x e))
    (s : Expr ℝ) (P' : PartialObj ℝ) (w : Bool)
    (h : (PartialObj.mk e x none).asExpression realNum = .ok (s, P', w))
    (p : Point ℝ) (hs : Supp p e) (hd : Dom (valOf p) e) :
    evalG realNum p s = .ok (deriv (fun t => den (upd (valOf p) x t) e) (valOf p x)) := by
  obtain ⟨_, _, _, _, _, _, hev⟩ := as_expression_sound_partial e x hwf hK1 s P' w h
  rw [hev p hs hd, ← symFwd_eval p x e hwf hs hd]
  exact symFwd_eval_deriv p x e hwf hs hd

/-- a second `as_expression()` returns the memoised expression, without a warning -/
theorem as_expression_memoised (e s : Expr ℝ) (x : String) :
    (PartialObj.mk e x (some s)).asExpression realNum = .ok (s, ⟨e, x, some s⟩, false) := rfl

/-- after `as_expression()` the object evaluates through the stored expression; on supplied points of
the domain the answers of `.at(point)` are unchanged -/
theorem partial_at_unchanged_partial (e : Expr ℝ) (x : String) (hwf : WF e)
    (hK1 : NormOK K1FreeAt REDUCTION_STEPS_BOUND NORMALIZE_FUEL (symFwd realNum x e))
    (s : Expr ℝ) (P' : PartialObj ℝ) (w : Bool)
    (h : (PartialObj.mk e x none).asExpression realNum = .ok (s, P', w))
    (p : Point ℝ) (hs : Supp p e) (hd : Dom (valOf p) e) :
    P'.at realNum p = (PartialObj.mk e x none).at realNum p := by
  obtain ⟨hr, hP, _⟩ := as_expression_sound_partial e x hwf hK1 s P' w h
  rw [hP]
  exact partial_at_memoised hr hwf p hs hd

/-- `Partial(e, x, compute_early=True)` stores the same normalised expression -/
theorem partial_early_sound_partial (e : Expr ℝ) (x : String) (hwf : WF e)
    (hK1 : NormOK K1FreeAt REDUCTION_STEPS_BOUND NORMALIZE_FUEL (symFwd realNum x e))
    (P : PartialObj ℝ) (w : Bool) (h : PartialObj.new realNum e x true = .ok (P, w)) :
    ∃ s, P = ⟨e, x, some s⟩ ∧ Refines (symFwd realNum x e) s ∧ WF s ∧
      (∀ ρ : String → ℝ, Dom ρ e →
        Dom ρ s ∧ HasDerivAt (fun t => den (upd ρ x t) e) (den ρ s) (ρ x)) := by
  obtain ⟨s, hret, hP⟩ := partialNew_early h
  have hr := retrieveSyntheticPartial_refines e x s w hK1 hret
  obtain ⟨h1, _, _, h4, _⟩ := refines_symFwd_facts hr hwf
  exact ⟨s, hP, hr, h1, h4⟩

/-- **C05, `Derivative.as_expression()`** : a `Derivative` wraps the `Partial` in its single variable -/
theorem derivative_as_expression_sound_partial (D : DerivativeObj ℝ) (e : Expr ℝ) (x : String)
    (hD : D.partial_ = ⟨e, x, none⟩) (hwf : WF e)
    (hK1 : NormOK K1FreeAt REDUCTION_STEPS_BOUND NORMALIZE_FUEL (symFwd realNum x e))
    (s : Expr ℝ) (D' : DerivativeObj ℝ) (w : Bool)
    (h : D.asExpression realNum = .ok (s, D', w)) :
    Refines (symFwd realNum x e) s ∧ D'.partial_ = ⟨e, x, some s⟩ ∧
      WF s ∧ (∀ y, y ∈ s.vars → y ∈ e.vars) ∧ (∀ p : Point ℝ, Supp p e → Supp p s) ∧
      (∀ ρ : String → ℝ, Dom ρ e →
        Dom ρ s ∧ HasDerivAt (fun t => den (upd ρ x t) e) (den ρ s) (ρ x)) ∧
      (∀ p : Point ℝ, Supp p e → Dom (valOf p) e → evalG realNum p s = fwdG realNum p x e) :=
  as_expression_sound_partial e x hwf hK1 s D'.partial_ w (derivativeAsExpression_late hD h)

/-- a `Derivative` built the ordinary way (not computed early) does wrap such a `Partial` -/
theorem derivative_new_late (e : Expr ℝ) (D : DerivativeObj ℝ) (w : Bool)
    (h : DerivativeObj.new realNum e false = .ok (D, w)) :
    singleVarName e = .ok D.x ∧ D.partial_ = ⟨e, D.x, none⟩ :=
  derivativeNew_late h

/-! ### K1: the hypothesis cannot be dropped

The hypothesis `NormOK K1FreeAt …` excludes exactly the even/even instances of the rule
`NthRoot(NthPower(u, m), n) ⇒ NthPower(NthRoot(u, n), m)`.  For `e = NthRoot(NthPower(x, 2), 2)`
(= |x|) the witness is carried through the WHOLE of `as_expression()` over the reals (26 reduction
steps replayed one by one in Proofs/SymForwardRun.lean, then the normal-form pass): the run performs
the even/even rewrite (then `NthPower(NthRoot(x,2),2) ⇒ x`), and the object returns `Divide(x, x)`.
At `x = -3`, where `e` is defined and its derivative is `-1`, the returned expression evaluates to
`+1`.  The same happens through the product rule for `e = x * NthRoot(NthPower(x, 2), 2)` (= x·|x|,
38 steps): the object returns `x + (x * x) / x`, which is `-6` at `x = -3` where the derivative is `6`.
-/

/-- **K1 witness.**  `Partial(NthRoot(NthPower(x, 2), 2), "x").as_expression()` returns
`Divide(x, x)`; at the point `x = -3` the original is defined, its true partial (what forward mode
returns) is `-1`, the returned expression evaluates to `1`.  So the returned expression does not
refine the symbolic partial, the run contains the rule `nrootPow`, and the hypothesis of
`as_expression_sound_partial` fails for this input — it cannot be dropped. -/
theorem as_expression_K1_witness :
    let e : Expr ℝ := mkNRoot (mkNPow (mkVar "x") 2) 2
    let s : Expr ℝ := mkDiv (mkVar "x") (mkVar "x")
    let p : Point ℝ := [("x", -3)]
    (PartialObj.mk e "x" none).asExpression realNum = .ok (s, ⟨e, "x", some s⟩, false) ∧
      WF e ∧ Supp p e ∧ Dom (valOf p) e ∧
      fwdG realNum p "x" e = .ok (-1) ∧ evalG realNum p s = .ok 1 ∧
      ¬ Refines (symFwd realNum "x" e) s ∧
      StepEvent.rule .nrootPow ∈ (fullyReduce realNum (symFwd realNum "x" e)).trace ∧
      ¬ NormOK K1FreeAt REDUCTION_STEPS_BOUND NORMALIZE_FUEL (symFwd realNum "x" e) := by
  intro e s p
  obtain ⟨hwf, hs, hd, hfd⟩ := runK1_true_partial
  refine ⟨runK1_asExpression, hwf, hs, hd, hfd, runK1_returned_value, runK1_not_refines,
    runK1_symFwd ▸ runK1_run_uses_nrootPow, fun hK1 => runK1_not_refines ?_⟩
  exact (as_expression_sound_partial e "x" hwf hK1 s _ false runK1_asExpression).1

/-- **K1 witness, through the product rule.**  `Partial(x * NthRoot(NthPower(x, 2), 2), "x")
.as_expression()` returns `x + (x * x) / x`; at `x = -3` the true partial is `6`, the returned
expression evaluates to `-6`; the hypothesis of `as_expression_sound_partial` fails for this input. -/
theorem as_expression_K1_witness_product :
    let e : Expr ℝ := mkMul [mkVar "x", mkNRoot (mkNPow (mkVar "x") 2) 2]
    let s : Expr ℝ := mkAdd [mkVar "x", mkDiv (mkMul [mkVar "x", mkVar "x"]) (mkVar "x")]
    let p : Point ℝ := [("x", -3)]
    (PartialObj.mk e "x" none).asExpression realNum = .ok (s, ⟨e, "x", some s⟩, false) ∧
      WF e ∧ Supp p e ∧ Dom (valOf p) e ∧
      fwdG realNum p "x" e = .ok 6 ∧ evalG realNum p s = .ok (-6) ∧
      ¬ NormOK K1FreeAt REDUCTION_STEPS_BOUND NORMALIZE_FUEL (symFwd realNum "x" e) := by
  intro e s p
  obtain ⟨hwf, hs, hd, hfd⟩ := runXabs_true_partial
  refine ⟨runXabs_asExpression, hwf, hs, hd, hfd, runXabs_returned_value, fun hK1 => ?_⟩
  have h := (as_expression_sound_partial e "x" hwf hK1 s _ false runXabs_asExpression).2.2.2.2.2.2 p hs hd
  rw [runXabs_returned_value, hfd] at h
  injection h with h
  norm_num at h

/-- the redex, the rule and the failing side condition, in isolation -/
theorem as_expression_K1_rule_witness :
    RuleId.nrootPow.apply realNum (mkNRoot (mkNPow (mkVar "x") 2) 2 : Expr ℝ) =
        some (mkNPow (mkNRoot (mkVar "x") 2) 2) ∧
      ¬ K1FreeAt .nrootPow (mkNRoot (mkNPow (mkVar "x") 2) 2 : Expr ℝ) ∧
      ¬ Refines (mkNRoot (mkNPow (mkVar "x") 2) 2 : Expr ℝ) (mkNPow (mkNRoot (mkVar "x") 2) 2) ∧
      (∃ v, evalG realNum [("x", -3)] (mkNRoot (mkNPow (mkVar "x") 2) 2 : Expr ℝ) = .ok v) ∧
      evalG realNum [("x", -3)] (mkNPow (mkNRoot (mkVar "x") 2) 2 : Expr ℝ) = .error .domain :=
  ⟨rfl, by simp [K1FreeAt, K1Free], nrootPow_unsound, nrootPow_unsound_eval.1,
    nrootPow_unsound_eval.2⟩

/-- the raw symbolic partial of `x · NthRoot(NthPower(x, 2), 2)` contains the same K1 redex as a
factor (the product rule copies the other factor) -/
theorem as_expression_K1_redex_present :
    symFwd realNum "x" (mkMul [mkVar "x", mkNRoot (mkNPow (mkVar "x") 2) 2] : Expr ℝ) =
      mkAdd [mkMul [mkConst 1, mkNRoot (mkNPow (mkVar "x") 2) 2],
        mkMul [symFwd realNum "x" (mkNRoot (mkNPow (mkVar "x") 2) 2 : Expr ℝ), mkVar "x"]] := by
  simp [symFwd, symFwdList, symMulTerms, symMulTermsGo]

/-! ## reverse route: see Proofs/SymReverse.lean

(`symRev` / `syntheticPartials`, the model of `_compute_synthetic_partials` and `_synthetic_partials`,
used by `Differential`: to be filled in by the task that delivers Proofs/SymReverse.lean.)
-/

/-! ## non-vacuity -/

/-- the hypotheses of the forward-route theorems are satisfiable by a non-trivial instance: a product
in which the variable occurs in several factors, an odd root of a negative inner value, a base below
one, a general power and a logarithm, at a point of the domain, with two variables -/
example :
    let e : Expr ℝ := mkMul [mkVar "x", mkNRoot (mkMinus (mkVar "x") (mkConst 9)) 3,
      mkExp (mkVar "y") (1 / 2), mkPow (mkVar "x") (mkVar "y"), mkLog (mkVar "x") 10]
    let p : Point ℝ := [("y", 2), ("x", 1)]
    WF e ∧ Supp p e ∧ Dom (valOf p) e := by
  simp [WF, WFList, Supp, SuppList, Dom, DomList, den, valOf, Point.get?]
  norm_num

/-- "its domain may only be larger" — and it can be strictly larger: `Exponential(1/x, base 1)` is
undefined at `x = 0`, its symbolic partial is the constant 0, defined everywhere -/
example :
    let e : Expr ℝ := mkExp (mkRecip (mkVar "x")) 1
    WF e ∧ ¬ Dom (fun _ => (0 : ℝ)) e ∧ Dom (fun _ => (0 : ℝ)) (symFwd realNum "x" e) := by
  simp [WF, Dom, den, symFwd, unarySymFormula]

/-- a concrete second-order instance: for `e = x² · y` the twice-differentiated expression
`∂/∂y ∂/∂x` evaluates to `2·x` (here at x = 3, y = 5: 6), as `second_order_partial_value` says -/
example :
    let e : Expr ℝ := mkMul [mkNPow (mkVar "x") 2, mkVar "y"]
    let p : Point ℝ := [("x", 3), ("y", 5)]
    WF e ∧ Supp p e ∧ Dom (valOf p) e ∧
      den (valOf p) (symFwd realNum "y" (symFwd realNum "x" e)) = 6 := by
  simp [WF, WFList, Supp, SuppList, Dom, DomList, den, denList, valOf, Point.get?, symFwd,
    symFwdList, symMulTerms, symMulTermsGo, unarySymFormula]
  norm_num

/-- the hypotheses of `as_expression_sound_partial` are satisfiable by a non-trivial instance:
`Partial(x * sin x, "x").as_expression()` over the reals runs 14 reduction steps (3 rule
applications, none of them `nrootPow`) and the normal-form pass, and returns
`Add(Sine(x), Multiply(Cosine(x), x))`; the K1 side condition holds of the whole run -/
example :
    let e : Expr ℝ := mkMul [mkVar "x", mkSin (mkVar "x")]
    let s : Expr ℝ := mkAdd [mkSin (mkVar "x"), mkMul [mkCos (mkVar "x"), mkVar "x"]]
    WF e ∧ NormOK K1FreeAt REDUCTION_STEPS_BOUND NORMALIZE_FUEL (symFwd realNum "x" e) ∧
      (PartialObj.mk e "x" none).asExpression realNum = .ok (s, ⟨e, "x", some s⟩, false) :=
  ⟨by simp [WF, WFList], runXsin_symFwd ▸ runXsin_normOK _, runXsin_asExpression⟩


/-! ## Reverse symbolic route (what Differential(compute_early=True) stores)

C05 (reverse symbolic route) — `Differential(e, compute_early=True)` : the expressions built by
`_compute_synthetic_partials` / `_synthetic_partials()` are sound.

`symRev realNum e m acc` is the model of `e._compute_synthetic_partials(accumulator, multiplier)`
(a symbolic multiplier is passed down; at every variable occurrence it is added into the
`SyntheticPartialsAccumulator`: absent → set, present → `Add(existing, contribution)`);
`syntheticPartials realNum e` of `e._synthetic_partials()` (multiplier `Constant(1)`, empty
accumulator, read back every variable of `e`, default `Constant(0)`); `DifferentialObj.new realNum e
true` of `Differential(e, compute_early=True)`, which stores each component after `_normalize()`.

`den ρ s` is the real number the expression `s` denotes, `Dom ρ s` its documented domain, `Supp p s`
"the point has a coordinate for every variable of `s`", `WF s` what every constructible expression
satisfies (C16); `fwdG realNum p y e` is forward mode, which by C03 is the true partial derivative.
Proofs: Proofs/SymReverse.lean (same architecture as Proofs/Reverse.lean, the numeric analogue C04).
-/
open Expr

/-! ### one traversal -/

/-- **C05r, one traversal.**  At a supplied point of the domain of `e`, with a multiplier `m` and an
accumulator that are well formed, supplied and defined at the point, one traversal ends in an
accumulator with the same three properties, in which the VALUE of the expression of *every* variable
`y` has grown by `(value of m) · (forward-mode partial of e w.r.t. y)` — also for a variable occurring
several times, and also below a `Power` whose variable-free base equals 1 (where the numeric code
takes a short-cut that the symbolic code does not have: the symbolic contributions are then `… · 0`
and `log 1 · …`). -/
theorem reverse_symbolic_traversal (p : Point ℝ) (e : Expr ℝ) (hwf : WF e) (hs : Supp p e)
    (hd : Dom (valOf p) e) (m : Expr ℝ) (acc : SAcc ℝ) (hm1 : WF m) (hm2 : Supp p m)
    (hm3 : Dom (valOf p) m) (ha1 : WFA acc) (ha2 : SuppA p acc) (ha3 : DomA (valOf p) acc) :
    let acc' := symRev realNum e m acc
    WFA acc' ∧ SuppA p acc' ∧ DomA (valOf p) acc' ∧
      ∀ y d, fwdG realNum p y e = .ok d →
        denA (valOf p) acc' y = denA (valOf p) acc y + den (valOf p) m * d :=
  symRev_spec' p e hwf hs hd m acc hm1 hm2 hm3 ha1 ha2 ha3

/-- what `add_to` does to the lookups -/
theorem accumulator_add_to (acc : SAcc ℝ) (x z : String) (c : Expr ℝ) :
    SAcc.get? (SAcc.addTo acc x c) z =
      if z = x then some (SAcc.merged (SAcc.get? acc x) c) else SAcc.get? acc z :=
  SAcc.get?_addTo acc x z c

/-- `existing + contribution` : the contribution itself on first use, then the binary `Add` -/
theorem accumulator_merged (ex c : Expr ℝ) :
    SAcc.merged none c = c ∧ SAcc.merged (some ex) c = mkAdd [ex, c] := ⟨rfl, rfl⟩

/-! ### `_synthetic_partials()` -/

/-- the dictionary has exactly the variables of `e` as keys -/
theorem reverse_symbolic_keys (e : Expr ℝ) (y : String) :
    (∃ s, SAcc.get? (syntheticPartials realNum e) y = some s) ↔ y ∈ e.vars := by
  rw [syntheticPartials_get?]
  split <;> simp [*]

/-- **C05r, value.**  For every variable `y` of `e`, at every supplied point of the domain of `e`,
the stored expression denotes the true partial derivative of `e` with respect to `y`. -/
theorem reverse_symbolic_value (p : Point ℝ) (e : Expr ℝ) (hwf : WF e) (hs : Supp p e)
    (hd : Dom (valOf p) e) (y : String) (hy : y ∈ e.vars) : ∃ s,
      SAcc.get? (syntheticPartials realNum e) y = some s ∧
        HasDerivAt (fun t => den (upd (valOf p) y t) e) (den (valOf p) s) (valOf p y) :=
  syntheticPartials_hasDerivAt hwf hs hd hy

/-- the same through the two executable routes: evaluating the stored expression IS asking
forward mode (`Partial(e, y).at(p)` without early computation) -/
theorem reverse_symbolic_value_eval (p : Point ℝ) (e : Expr ℝ) (hwf : WF e) (hs : Supp p e)
    (hd : Dom (valOf p) e) (y : String) (s : Expr ℝ)
    (hget : SAcc.get? (syntheticPartials realNum e) y = some s) :
    evalG realNum p s = fwdG realNum p y e :=
  syntheticPartials_eval hwf hs hd hget

/-- **C05r, definedness.**  Every stored expression needs no coordinate that `e` does not need and is
inside its documented domain wherever `e` is: evaluating it there succeeds. -/
theorem reverse_symbolic_defined (p : Point ℝ) (e : Expr ℝ) (hwf : WF e) (hs : Supp p e)
    (hd : Dom (valOf p) e) (y : String) (s : Expr ℝ)
    (hget : SAcc.get? (syntheticPartials realNum e) y = some s) :
    Supp p s ∧ Dom (valOf p) s ∧ evalG realNum p s = .ok (den (valOf p) s) := by
  have hy : y ∈ e.vars := (reverse_symbolic_keys e y).mp ⟨s, hget⟩
  obtain ⟨s', hs', h1, h2, h3, _⟩ := syntheticPartials_sound hwf hs hd y hy
  rw [hget] at hs'; injection hs' with hs'; subst hs'
  exact ⟨h2, h3, (evalR_good p s h1).ok_iff.mpr ⟨h2, h3, rfl⟩⟩

/-- **C05r, well-formedness.**  Every stored expression is well formed (n ≥ 1, bases positive,
logarithm bases ≠ 1). -/
theorem reverse_symbolic_wf (e : Expr ℝ) (hwf : WF e) (y : String) (s : Expr ℝ)
    (hget : SAcc.get? (syntheticPartials realNum e) y = some s) : WF s := by
  have h : SAccWF (syntheticPartials realNum e) := WF_syntheticPartials e hwf
  exact SAccWF_get? h hget

/-- **C05r, variables.**  Every stored expression mentions only variables of `e`. -/
theorem reverse_symbolic_vars (e : Expr ℝ) (y : String) (s : Expr ℝ)
    (hget : SAcc.get? (syntheticPartials realNum e) y = some s) (x : String) (hx : x ∈ s.vars) :
    x ∈ e.vars :=
  (mem_vars x e).mpr (syntheticPartials_occurs realNum e hget ((mem_vars x s).mp hx))

/-! ### the normalised components stored by `Differential(e, compute_early=True)`

`NormOK K1FreeAt REDUCTION_STEPS_BOUND NORMALIZE_FUEL s` says that the run of `_normalize()` on `s`
performs no application of the one unsound rule (K1: `NthRoot(NthPower(u, m), n)` with `m`, `n` both
even); see C08.  It is required of the raw components only. -/

/-- `Differential(e, compute_early=True)` stores `normalizeAll` of `_synthetic_partials()` -/
theorem differential_early_stored (e : Expr ℝ) (D : DifferentialObj ℝ) (w : Bool)
    (hnew : DifferentialObj.new realNum e true = .ok (D, w)) :
    ∃ d, normalizeAll realNum (syntheticPartials realNum e) = .ok (d, w) ∧ D = ⟨e, some d⟩ :=
  differentialNew_early realNum e hnew

/-- **C05r, normalised components refine the raw ones**: same keys; each normalised component is
well formed, needs no new variable, is defined wherever the raw one is and has the same value there. -/
theorem differential_early_refines (e : Expr ℝ) (d : SAcc ℝ) (w : Bool)
    (h : normalizeAll realNum (syntheticPartials realNum e) = .ok (d, w))
    (hok : ∀ y s, SAcc.get? (syntheticPartials realNum e) y = some s →
      NormOK K1FreeAt REDUCTION_STEPS_BOUND NORMALIZE_FUEL s) :
    (∀ y, y ∉ e.vars → SAcc.get? d y = none) ∧
    ∀ y ∈ e.vars, ∃ s s', SAcc.get? (syntheticPartials realNum e) y = some s ∧
      SAcc.get? d y = some s' ∧ Refines s s' :=
  normalizeAll_refines h hok

/-- **C05r, normalised value.**  On the domain of the ORIGINAL expression every stored normalised
component evaluates to the forward-mode partial, i.e. (C03) the true partial derivative. -/
theorem differential_early_value (p : Point ℝ) (e : Expr ℝ) (hwf : WF e) (hs : Supp p e)
    (hd : Dom (valOf p) e) (d : SAcc ℝ) (w : Bool)
    (h : normalizeAll realNum (syntheticPartials realNum e) = .ok (d, w))
    (hok : ∀ y s, SAcc.get? (syntheticPartials realNum e) y = some s →
      NormOK K1FreeAt REDUCTION_STEPS_BOUND NORMALIZE_FUEL s)
    (y : String) (s' : Expr ℝ) (hget : SAcc.get? d y = some s') :
    evalG realNum p s' = fwdG realNum p y e :=
  normalizeAll_eval hwf hs hd h hok hget

/-- **C05r, public object.**  `Differential(e, compute_early=True).component_at(y, p)` answers what
forward mode answers, for every name `y` (for a name that is not a variable of `e` the object falls
back to `Partial(e, y)`). -/
theorem differential_early_component_at (p : Point ℝ) (e : Expr ℝ) (hwf : WF e) (hs : Supp p e)
    (hd : Dom (valOf p) e) (D : DifferentialObj ℝ) (w : Bool)
    (hnew : DifferentialObj.new realNum e true = .ok (D, w))
    (hok : ∀ y s, SAcc.get? (syntheticPartials realNum e) y = some s →
      NormOK K1FreeAt REDUCTION_STEPS_BOUND NORMALIZE_FUEL s) (y : String) :
    D.componentAt realNum y p = fwdG realNum p y e :=
  differential_early_componentAt hwf hs hd hnew hok y

/-! ### non-vacuity -/

/-- the hypotheses of the traversal / value / definedness theorems: a sum of a `Power` with the
variable-free base 1 (the numeric short-cut), a quotient, and a product with a repeated variable, at a
point listing the coordinates in another order -/
example :
    let e : Expr ℝ := mkAdd [mkPow (mkConst 1) (mkVar "x"), mkDiv (mkSin (mkVar "x")) (mkVar "y"),
      mkMul [mkVar "x", mkVar "y", mkVar "x"]]
    let p : Point ℝ := [("y", 2), ("x", 3)]
    WF e ∧ Supp p e ∧ Dom (valOf p) e ∧ e.vars = ["x", "y"] := by
  simp [WF, WFList, Supp, SuppList, Dom, DomList, den, valOf, Point.get?, vars, varsAux, varsAuxList]

/-- a multiplier and a non-empty accumulator meeting the hypotheses of `reverse_symbolic_traversal` -/
example :
    let p : Point ℝ := [("y", 2), ("x", 3)]
    let m : Expr ℝ := mkRecip (mkVar "y")
    let acc : SAcc ℝ := [("x", mkLog (mkVar "x") 2)]
    WF m ∧ Supp p m ∧ Dom (valOf p) m ∧ WFA acc ∧ SuppA p acc ∧ DomA (valOf p) acc := by
  intro p m acc
  have hacc : ∀ y s, SAcc.get? acc y = some s → s = mkLog (mkVar "x") 2 := by
    intro y s h
    simp only [acc, SAcc.get?] at h
    split at h
    · injection h with h; exact h.symm
    · cases h
  refine ⟨by simp [m, WF], by simp [m, p, Supp, Point.get?],
    by simp [m, p, Dom, den, valOf, Point.get?], ?_, ?_, ?_⟩
  · intro y s h; rw [hacc y s h]; norm_num [WF]
  · intro y s h; rw [hacc y s h]; simp [p, Supp, Point.get?]
  · intro y s h; rw [hacc y s h]; simp [p, Dom, den, valOf, Point.get?]

/-- what `_synthetic_partials()` stores for `x · y` (accumulator entries are really created and read
back) -/
example : syntheticPartials realNum (mkMul [mkVar "x", mkVar "y"] : Expr ℝ) =
    [("x", mkMul [mkConst 1, mkVar "y"]), ("y", mkMul [mkConst 1, mkVar "x"])] :=
  symrevEx_partials "x" "y" (by decide)

/-- a variable occurring twice: the second contribution goes through `Add(existing, contribution)` -/
example : SAcc.get? (syntheticPartials realNum (mkAdd [mkVar "x", mkVar "x"] : Expr ℝ)) "x" =
    some (mkAdd [mkConst 1, mkConst 1]) := by
  simp [syntheticPartials, symRev, symRevList, SAcc.addTo, SAcc.get?, SAcc.set, vars, varsAux,
    varsAuxList]

/-- the hypotheses of the theorems about the normalised components are satisfiable: for `e = x · y`
the object is built (without warning), it stores `{x: y, y: x}`, and the run of the rewriter on each
raw component (four steps, one of them the rule `mulOnes`) performs no K1 application -/
example :
    let e : Expr ℝ := mkMul [mkVar "x", mkVar "y"]
    DifferentialObj.new realNum e true = .ok (⟨e, some [("x", mkVar "y"), ("y", mkVar "x")]⟩, false) ∧
      (∀ z s, SAcc.get? (syntheticPartials realNum e) z = some s →
        NormOK K1FreeAt REDUCTION_STEPS_BOUND NORMALIZE_FUEL s) ∧
      WF e ∧ Supp [("y", 2), ("x", 3)] e ∧ Dom (valOf [("y", 2), ("x", 3)]) e :=
  ⟨symrevEx_differential "x" "y" (by decide), symrevEx_hok "x" "y" (by decide),
    by simp [WF, WFList, Supp, SuppList, Dom, DomList, Point.get?]⟩


end Smooth
