/-
C02 — DomainError is raised exactly at the points outside the (strict) domain.

`Dom` (Real/Spec.lean) demands the documented condition of *every* sub-expression — zero denominator,
non-positive logarithm argument, non-positive base of a general power, zero under a root with n ≥ 2,
negative under an even root — so "even if that sub-expression cannot influence the result" is part of
the quantifier, not of a sample.
-/
import Smooth.Proofs.Eval

namespace Smooth
open Expr

/-- **C02.**  At a point that supplies the expression, the evaluator answers `DomainError` exactly
when some sub-expression is outside its documented domain. -/
theorem eval_domain_iff (p : Point ℝ) (e : Expr ℝ) (hwf : WF e) (hs : Supp p e) :
    evalG realNum p e = .error .domain ↔ ¬ Dom (valOf p) e :=
  (evalR_good p e hwf).domain_iff hs

/-- On the domain it never raises, and the result is a real number (`Except.ok` of an element of ℝ:
not NaN, not an infinity, not complex — by the type of the model, whose primitive operations can
only fail with an explicit error value, none of which occurs: see C17). -/
theorem eval_on_domain (p : Point ℝ) (e : Expr ℝ) (hwf : WF e) (hs : Supp p e)
    (hd : Dom (valOf p) e) : ∃ v : ℝ, evalG realNum p e = .ok v :=
  ⟨den (valOf p) e, ((evalR_good p e hwf).ok_iff).mpr ⟨hs, hd, rfl⟩⟩

/-- the only outcomes of evaluation at a supplied point: a value, or `DomainError` -/
theorem eval_supplied_outcomes (p : Point ℝ) (e : Expr ℝ) (hwf : WF e) (hs : Supp p e) :
    (∃ v : ℝ, evalG realNum p e = .ok v) ∨ evalG realNum p e = .error .domain := by
  by_cases hd : Dom (valOf p) e
  · exact Or.inl (eval_on_domain p e hwf hs hd)
  · exact Or.inr ((eval_domain_iff p e hwf hs).mpr hd)

/-! The offending sub-expression matters under every parent that makes it irrelevant to the value: -/

/-- under a zero factor, in any position -/
theorem dom_under_zero_factor (ρ : String → ℝ) (f g : Flags) (pre post : List (Expr ℝ)) (u : Expr ℝ)
    (h : Dom ρ (.mul f (pre ++ [.const g 0, u] ++ post))) : Dom ρ u := by
  simp only [Dom] at h
  induction pre with
  | nil => simpa [DomList] using h.2.1
  | cons a as ih => exact ih (by simpa [DomList] using h.2)

/-- as the exponent of base one -/
theorem dom_under_base_one (ρ : String → ℝ) (f g : Flags) (u : Expr ℝ)
    (h : Dom ρ (.pow f (.const g 1) u)) : Dom ρ u := h.2.1

/-- under a zero numerator -/
theorem dom_under_zero_numerator (ρ : String → ℝ) (f g : Flags) (u : Expr ℝ)
    (h : Dom ρ (.div f (.const g 0) u)) : Dom ρ u ∧ den ρ u ≠ 0 := h.2

/-- hence e.g. `0 * (1/x)` and `1 ** log x` raise at `x = 0` although their value would be defined -/
theorem hidden_offender_raises (x : String) :
    evalG realNum [(x, 0)] (mkMul [mkConst 0, mkRecip (mkVar x)]) = .error .domain ∧
    evalG realNum [(x, 0)] (mkPow (mkConst 1) (mkLog (mkVar x) (Real.exp 1))) = .error .domain := by
  constructor
  · apply (eval_domain_iff _ _ (by simp [WF, WFList]) (by simp [Supp, SuppList, Point.get?])).mpr
    simp [Dom, DomList, den, valOf, Point.get?]
  · have hwf : WF (mkPow (mkConst (1 : ℝ)) (mkLog (mkVar x) (Real.exp 1))) := by
      exact ⟨trivial, Real.exp_pos 1, exp_one_ne_one, trivial⟩
    apply (eval_domain_iff _ _ hwf (by simp [Supp, Point.get?])).mpr
    simp [Dom, den, valOf, Point.get?]

/-- non-vacuity of `eval_domain_iff`: a supplied point outside the domain exists (and one inside) -/
example : ∃ (p : Point ℝ) (e : Expr ℝ), WF e ∧ Supp p e ∧ ¬ Dom (valOf p) e :=
  ⟨[("x", -4)], mkNRoot (mkVar "x") 2, by simp [WF], by simp [Supp, Point.get?],
    by simp [Dom, den, valOf, Point.get?]⟩

example : ∃ (p : Point ℝ) (e : Expr ℝ), WF e ∧ Supp p e ∧ Dom (valOf p) e :=
  ⟨[("x", -8)], mkNRoot (mkVar "x") 3, by simp [WF], by simp [Supp, Point.get?],
    by simp [Dom, den, valOf, Point.get?]⟩

end Smooth
