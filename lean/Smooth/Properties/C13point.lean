/-
C13 (points) — The printed form of a `Point` echoes the point, whatever its coordinate names are.

After fix F4 `Point._to_string` prints `Point(x=1, y=2)` only if *every* coordinate name can be
written as a keyword argument (`_can_be_written_as_keyword`: an identifier, not a reserved word,
unchanged by NFKC normalisation) and otherwise `Point(**{"x": 1, "1y": 2})`, which `eval` accepts for
any names at all.  The model is `renderPointWith kw p`, with the predicate `kw : String → Bool`
kept abstract: nothing below depends on which names are expressible.

Tokens: `PTok α` extends the expression tokens (`.tok t`) by `**` (`.star2`), `{` (`.lb`), `}` (`.rb`)
and `:` (`.colon`).  Names in the dictionary form are *string* tokens (`.str x`), in the keyword form
identifier tokens (`.ident x`).

Side conditions: NONE on the point (names may repeat, be empty, be reserved words, …), NONE on the
numbers, NONE on `kw`.
-/
import Smooth.Proofs.PointDict
import Smooth.Real.Instance

namespace Smooth
variable {α : Type}

/-- **Keyword form.**  If every coordinate name can be written as a keyword argument the point prints
exactly as before the fix: `Point(x=1, y=2)`, the tokens of `renderPoint`. -/
theorem renderPointWith_plain (kw : String → Bool) (p : Point α)
    (h : ∀ xv ∈ p, kw xv.1 = true) :
    renderPointWith kw p = (renderPoint p).map .tok :=
  pd_plain kw p h

/-- **Dictionary form.**  If some coordinate name cannot be written as a keyword argument the point
prints as `Point(**{"x": 1, "1y": 2})`: the items `"name": value` in the order of the point,
separated by commas, between `Point(**{` and `})`.  *All* names are then written as strings, also the
expressible ones. -/
theorem renderPointWith_dict (kw : String → Bool) (p : Point α)
    (h : ¬ ∀ xv ∈ p, kw xv.1 = true) :
    renderPointWith kw p =
      .tok (.ident "Point") :: .tok .lp :: .star2 :: .lb ::
        (List.intercalate [.tok .comma]
            (p.map fun (x, v) => [PTok.tok (.str x), .colon, .tok (.num v)])
          ++ [.rb, .tok .rp]) :=
  pd_dict kw p h

/-- **The printed form determines the point** (names, values and their order), for every choice of
the expressibility predicate and without any assumption on the names: the two forms cannot be
confused, and each of them can be read back. -/
theorem renderPointWith_injective (kw : String → Bool) {p q : Point α}
    (h : renderPointWith kw p = renderPointWith kw q) : p = q :=
  pd_injective kw h

/-- and conversely, trivially: printing is a function of the point -/
theorem renderPointWith_eq_iff (kw : String → Bool) (p q : Point α) :
    renderPointWith kw p = renderPointWith kw q ↔ p = q :=
  ⟨pd_injective kw, fun h => h ▸ rfl⟩

/-- **The form tells whether all names are expressible**: the third token is `**` exactly when some
name cannot be written as a keyword argument. -/
theorem renderPointWith_form (kw : String → Bool) (p : Point α) :
    (renderPointWith kw p)[2]? = some .star2 ↔ ¬ (∀ xv ∈ p, kw xv.1 = true) :=
  pd_form kw p

/-- The empty point prints as `Point()` (it has no name that could fail to be expressible). -/
theorem renderPointWith_empty (kw : String → Bool) :
    renderPointWith kw ([] : Point α) = [.tok (.ident "Point"), .tok .lp, .tok .rp] := rfl

/-! ### examples (non-vacuity): `class` is a reserved word -/

/-- `Point(**{"x": 1, "class": 2})` -/
example : renderPointWith (fun s => s != "class") ([("x", 1), ("class", 2)] : Point ℝ) =
    [.tok (.ident "Point"), .tok .lp, .star2, .lb,
      .tok (.str "x"), .colon, .tok (.num 1), .tok .comma,
      .tok (.str "class"), .colon, .tok (.num 2), .rb, .tok .rp] := by
  rw [renderPointWith_dict _ _ (by simp)]
  simp [List.intercalate]

/-- the same straight from the model -/
example : renderPointWith (fun s => s != "class") ([("x", 1), ("class", 2)] : Point ℝ) =
    [.tok (.ident "Point"), .tok .lp, .star2, .lb,
      .tok (.str "x"), .colon, .tok (.num 1), .tok .comma,
      .tok (.str "class"), .colon, .tok (.num 2), .rb, .tok .rp] := by
  simp [renderPointWith, joinComma]

/-- `Point(x=1, y=2)` -/
example : renderPointWith (fun s => s != "class") ([("x", 1), ("y", 2)] : Point ℝ) =
    [.tok (.ident "Point"), .tok .lp, .tok (.ident "x"), .tok .eqs, .tok (.num 1), .tok .comma,
      .tok (.ident "y"), .tok .eqs, .tok (.num 2), .tok .rp] := by
  rw [renderPointWith_plain _ _ (by simp)]
  simp [renderPoint, joinComma]

/-- the hypotheses of both forms are met, and the form test tells them apart -/
example :
    (renderPointWith (fun s => s != "class") ([("x", 1), ("class", 2)] : Point ℝ))[2]? = some .star2 ∧
    (renderPointWith (fun s => s != "class") ([("x", 1), ("y", 2)] : Point ℝ))[2]? ≠ some .star2 := by
  constructor
  · exact (renderPointWith_form _ _).mpr (by simp)
  · exact fun h => (renderPointWith_form _ _).mp h (by simp)

/-- names that are not identifiers at all (here: empty, with a space, repeated) are printed and
distinguished just the same -/
example : renderPointWith (fun s => s != "class") ([("", 1), ("a b", 2), ("", 3)] : Point ℝ)
    ≠ renderPointWith (fun s => s != "class") ([("", 1), ("a b", 2), ("", 4)] : Point ℝ) := by
  intro h
  have := renderPointWith_injective _ h
  norm_num at this

end Smooth
