/-
C12 (objects) — Equality, hashing and printing of the public objects
`Partial`, `Derivative`, `Differential`, `LocatedDifferential`, `Point` (and expressions among them).

`Obj α` (Model/Surface) is what `==`/`hash`/`repr` look at in each public object; `Obj.beq N` is the
model of the five `__eq__` methods ("same class and equal parts"), `Obj.hashKey` the tuple each
`__hash__` hands to Python's `hash` (`Partial` leaves the variable out; `Point` sorts its items),
`Obj.render` the token stream of `__repr__`.  `HKey.same N` is equality of such tuples up to `==` on the
numbers in them (what CPython's `hash` is trusted to respect).

Assumptions, where needed:
* `EqLaws N` : `N.eq` is an equivalence (`eqLaws_real`, `eqLaws_rational` in C12);
* `Obj.WF` : the names of every point in the object are pairwise distinct — keyword arguments /
  dictionary keys are.  It is needed exactly where a point is compared with itself or the comparison
  is turned round (a repeated name is looked up at its first occurrence only, see the last example).

Helper lemmas are in Proofs/Objects.lean (prefix `obj_`), on top of Proofs/Equality.lean and
Proofs/Print.lean.
-/
import Smooth.Proofs.Objects

namespace Smooth
variable {α : Type}
open Expr

/-! ### equality is an equivalence -/

/-- **reflexive** on objects whose points have distinct names -/
theorem Obj.beq_refl {N : Num α} (h : EqLaws N) (a : Obj α) (ha : a.WF) : Obj.beq N a a = true :=
  obj_beq_refl h a ha

/-- **symmetric** on well-formed objects.  (Of the two hypotheses, only `b.WF` is used when the
objects are points — the model evaluates `other._coordinates == self._coordinates` — and only `a.WF`
when they are located differentials; the other classes need neither.) -/
theorem Obj.beq_symm {N : Num α} (h : EqLaws N) {a b : Obj α} (ha : a.WF) (hb : b.WF)
    (hab : Obj.beq N a b = true) : Obj.beq N b a = true :=
  obj_beq_symm h a b ha hb hab

/-- **transitive**, with no well-formedness hypothesis at all -/
theorem Obj.beq_trans {N : Num α} (h : EqLaws N) {a b c : Obj α} (hab : Obj.beq N a b = true)
    (hbc : Obj.beq N b c = true) : Obj.beq N a c = true :=
  obj_beq_trans h hab hbc

/-! ### what equality tells apart (no assumption on `N`) -/

/-- Objects of different classes are never equal: `Partial`, `Derivative`, `Differential`,
`LocatedDifferential`, `Point` and expressions are pairwise unequal whatever they contain. -/
theorem Obj.beq_class (N : Num α) {a b : Obj α} (h : a.cls ≠ b.cls) : Obj.beq N a b = false := by
  cases hb : Obj.beq N a b
  · rfl
  · exact absurd (obj_beq_cls hb) h

/-- in particular an expression never equals a derivative object or a point -/
theorem Obj.beq_expr_other (N : Num α) (e : Expr α) {b : Obj α} (h : b.cls ≠ .expr) :
    Obj.beq N (.expr e) b = false ∧ Obj.beq N b (.expr e) = false :=
  ⟨Obj.beq_class N (fun hc => h hc.symm), Obj.beq_class N h⟩

/-- among expressions it is expression equality (C12) -/
theorem expr_beq_iff (N : Num α) (a b : Expr α) :
    Obj.beq N (.expr a) (.expr b) = beq N a b := rfl

/-- `Point.__eq__` : dictionary equality, `other` against `self` -/
theorem point_beq_iff (N : Num α) (p q : Point α) :
    Obj.beq N (.point p) (.point q) = pointBeq N q p := rfl

/-- `Partial.__eq__` : equal original expressions and the same variable name -/
theorem partial_beq_iff (N : Num α) (a b : Expr α) (x y : String) :
    Obj.beq N (.partial_ a x) (.partial_ b y) = true ↔ beq N a b = true ∧ x = y := by
  simp [Obj.beq]

/-- `Derivative.__eq__` : equal original expressions -/
theorem derivative_beq_iff (N : Num α) (a b : Expr α) :
    Obj.beq N (.derivative a) (.derivative b) = true ↔ beq N a b = true := Iff.rfl

/-- `Differential.__eq__` : equal original expressions -/
theorem differential_beq_iff (N : Num α) (a b : Expr α) :
    Obj.beq N (.differential a) (.differential b) = true ↔ beq N a b = true := Iff.rfl

/-- `LocatedDifferential.__eq__` : equal original expressions and equal points -/
theorem located_beq_iff (N : Num α) (a b : Expr α) (p q : Point α) :
    Obj.beq N (.located a p) (.located b q) = true ↔ beq N a b = true ∧ pointBeq N p q = true := by
  simp [Obj.beq]

/-! ### hashing -/

/-- `sorted(coordinates.items())` is a rearrangement of the items … -/
theorem sortedItems_perm (p : Point α) : (sortedItems p).Perm p := obj_sortedItems_perm p

/-- … in non-decreasing order of the names … -/
theorem sortedItems_sorted (p : Point α) : (sortedItems p).Pairwise (fun a b => a.1 ≤ b.1) :=
  obj_sortedItems_pairwise p

/-- … and, names being distinct, the only such one (so the values never take part in the sorting). -/
theorem sortedItems_unique {p l : Point α} (hp : (p.map Prod.fst).Nodup) (hl : l.Perm p)
    (hs : l.Pairwise (fun a b => a.1 ≤ b.1)) : sortedItems p = l :=
  obj_sortedItems_unique hp hl hs

/-- Equal points are hashed alike: the sorted item tuples list the same names in the same order with
`N.eq` values.  (Distinct names in the first point; those of the second follow.) -/
theorem pointHashKey_respects_pointBeq {N : Num α} {p q : Point α} (hp : (p.map Prod.fst).Nodup)
    (h : pointBeq N p q = true) : HKey.same N (pointHashKey p) (pointHashKey q) = true :=
  obj_pointHashKey_same hp h

/-- **C12 (hash) for every public object.**  Equal objects have equal hashes: the keys handed to
`hash` agree up to `==` on the numbers in them. -/
theorem Obj.hashKey_respects_beq {N : Num α} (h : EqLaws N) {a b : Obj α} (ha : a.WF) (hb : b.WF)
    (hab : Obj.beq N a b = true) : HKey.same N a.hashKey b.hashKey = true :=
  obj_hashKey_same_of_beq h a b ha hb hab

/-- `Partial.__hash__` leaves the variable out: partials of one expression with respect to different
variables collide (they are not equal, `partial_beq_iff`) -/
theorem partial_hashKey_ignores_variable (e : Expr α) (x y : String) :
    (Obj.partial_ e x).hashKey = (Obj.partial_ e y).hashKey := rfl

/-! ### printing -/

/-- The printed form of an expression starts with one of the 15 expression class names followed by
`(` — never with `Partial`, `Derivative`, `Differential`, `LocatedDifferential` or `Point`.
(Named `render_head_class` because Proofs/Print.lean already has a weaker `render_head`.) -/
theorem render_head_class (e : Expr α) :
    ∃ c t, render e = Tok.ident c :: Tok.lp :: t ∧
      c ∈ ["Constant", "Variable", "Add", "Multiply", "Minus", "Divide", "Power", "Negation",
        "Reciprocal", "Cosine", "Sine", "NthPower", "NthRoot", "Exponential", "Logarithm"] :=
  obj_render_head e

/-- `Point.__repr__` is injective (names, values and their order are all printed) -/
theorem renderPoint_injective {p q : Point α} (h : renderPoint p = renderPoint q) : p = q :=
  obj_renderPoint_inj h

/-- **Printing is injective up to flags, across all classes.**  Two public objects print identically
exactly when they are of the same class with the same parts, up to the (unprinted) memo flags of the
expression.  No hypothesis. -/
theorem Obj.render_eq_iff (a b : Obj α) : Obj.render a = Obj.render b ↔ a.fresh = b.fresh :=
  obj_render_eq_iff_fresh a b

/-- objects of different classes print differently -/
theorem Obj.render_class {a b : Obj α} (h : Obj.render a = Obj.render b) : a.cls = b.cls := by
  have hf := (Obj.render_eq_iff a b).mp h
  cases a <;> cases b <;> first | rfl | (simp [Obj.fresh] at hf)

/-- **Objects that print identically are `==`**, when `==` is reflexive on the stored numbers (false
for a float NaN) and the names of the points of one of them are distinct. -/
theorem Obj.render_eq_imp_beq (N : Num α) (hrefl : ∀ v, N.eq v v = true) {a b : Obj α} (ha : a.WF)
    (h : Obj.render a = Obj.render b) : Obj.beq N a b = true :=
  obj_beq_of_render_eq N hrefl a b ha h

/-- i.e. unequal objects never print identically -/
theorem Obj.unequal_print_differently (N : Num α) (hrefl : ∀ v, N.eq v v = true) {a b : Obj α}
    (ha : a.WF) (h : Obj.beq N a b = false) : Obj.render a ≠ Obj.render b := fun hr => by
  rw [Obj.render_eq_imp_beq N hrefl ha hr] at h; cases h

/-! ### non-vacuity and concrete discrimination -/

section examples
open Classical

/-- "2 and 2.0 agree" inside a `Partial`: the original expressions are spelled with distinct carrier
elements that are `==`; the partials are equal and hash alike -/
example : (⟨2, true⟩ : QE) ≠ ⟨2, false⟩ ∧
    Obj.beq qeNum (.partial_ (mkMul [mkConst ⟨2, true⟩, mkVar "x"]) "x")
      (.partial_ (mkMul [mkConst ⟨2, false⟩, mkVar "x"]) "x") = true ∧
    HKey.same qeNum (Obj.partial_ (mkMul [mkConst (⟨2, true⟩ : QE), mkVar "x"]) "x").hashKey
      (Obj.partial_ (mkMul [mkConst (⟨2, false⟩ : QE), mkVar "x"]) "x").hashKey = true := by
  have hb : Obj.beq qeNum (.partial_ (mkMul [mkConst ⟨2, true⟩, mkVar "x"]) "x")
      (.partial_ (mkMul [mkConst ⟨2, false⟩, mkVar "x"]) "x") = true := by
    simp [Obj.beq, beq, beqList, qeNum_eq]
  exact ⟨by simp, hb, Obj.hashKey_respects_beq qeNum_eqLaws trivial trivial hb⟩

/-- two partials of the same expression with respect to different variables: unequal, same hash key -/
example :
    Obj.beq realNum (.partial_ (mkMul [mkVar "x", mkVar "y"]) "x")
      (.partial_ (mkMul [mkVar "x", mkVar "y"]) "y") = false ∧
    (Obj.partial_ (mkMul [mkVar "x", mkVar "y"] : Expr ℝ) "x").hashKey
      = (Obj.partial_ (mkMul [mkVar "x", mkVar "y"]) "y").hashKey :=
  ⟨by simp [Obj.beq], rfl⟩

/-- points given in different orders: both well-formed, equal, and hashed alike — the sorted item
tuple is literally the same -/
example :
    (Obj.point ([("x", 1), ("y", 2)] : Point ℝ)).WF ∧ (Obj.point ([("y", 2), ("x", 1)] : Point ℝ)).WF ∧
    Obj.beq realNum (.point [("x", 1), ("y", 2)]) (.point [("y", 2), ("x", 1)]) = true ∧
    HKey.same realNum (Obj.point ([("x", 1), ("y", 2)] : Point ℝ)).hashKey
      (Obj.point ([("y", 2), ("x", 1)] : Point ℝ)).hashKey = true ∧
    sortedItems ([("y", 2), ("x", 1)] : Point ℝ) = [("x", 1), ("y", 2)] := by
  have h1 : (Obj.point ([("x", 1), ("y", 2)] : Point ℝ)).WF := by simp [Obj.WF]
  have h2 : (Obj.point ([("y", 2), ("x", 1)] : Point ℝ)).WF := by simp [Obj.WF]
  have hb : Obj.beq realNum (.point [("x", 1), ("y", 2)]) (.point [("y", 2), ("x", 1)]) = true :=
    pointBeq_of_perm realNum_eqLaws h2 (List.Perm.swap _ _ _)
  refine ⟨h1, h2, hb, Obj.hashKey_respects_beq realNum_eqLaws h1 h2 hb, ?_⟩
  exact sortedItems_unique h2 (List.Perm.swap _ _ _) (by simp)

/-- located differentials: numerically equal values at the point, spelled differently, in a different
order: equal and hashed alike; a different value is told apart -/
example :
    Obj.beq realNum (.located (mkSin (mkVar "x")) [("x", 1), ("y", 2)])
      (.located (mkSin (mkVar "x")) [("y", 1 + 1), ("x", 1)]) = true ∧
    HKey.same realNum (Obj.located (mkSin (mkVar "x")) ([("x", 1), ("y", 2)] : Point ℝ)).hashKey
      (Obj.located (mkSin (mkVar "x")) ([("y", 1 + 1), ("x", 1)] : Point ℝ)).hashKey = true ∧
    Obj.beq realNum (.located (mkSin (mkVar "x")) [("x", 1), ("y", 2)])
      (.located (mkSin (mkVar "x")) [("x", 1), ("y", 3)]) = false := by
  have h2 : (1 : ℝ) + 1 = 2 := by norm_num
  have hb : Obj.beq realNum (.located (mkSin (mkVar "x")) [("x", 1), ("y", 2)])
      (.located (mkSin (mkVar "x")) [("y", 1 + 1), ("x", 1)]) = true := by
    simp [Obj.beq, beq, pointBeq, Point.get?, h2]
  refine ⟨hb, Obj.hashKey_respects_beq realNum_eqLaws (by simp [Obj.WF]) (by simp [Obj.WF]) hb, ?_⟩
  simp [Obj.beq, beq, pointBeq, Point.get?]

/-- the classes are told apart whatever the content: a `Derivative` and a `Differential` of the same
expression, and the expression itself, are pairwise unequal and print differently -/
example :
    Obj.beq realNum (.derivative (mkVar "x")) (.differential (mkVar "x")) = false ∧
    Obj.beq realNum (.expr (mkVar "x")) (.derivative (mkVar "x")) = false ∧
    Obj.beq realNum (.differential (mkVar "x")) (.expr (mkVar "x")) = false ∧
    Obj.render (.derivative (mkVar "x" : Expr ℝ)) ≠ Obj.render (.differential (mkVar "x")) :=
  ⟨Obj.beq_class _ (by simp [Obj.cls]), Obj.beq_class _ (by simp [Obj.cls]),
    Obj.beq_class _ (by simp [Obj.cls]),
    Obj.unequal_print_differently realNum (by simp) trivial (Obj.beq_class _ (by simp [Obj.cls]))⟩

/-- `Obj.render_eq_iff` / `Obj.render_eq_imp_beq` relate objects that are not literally the same: the
flags of the expressions differ -/
example :
    Obj.located (.var { failed := true } "x") ([("x", 1)] : Point ℝ) ≠ .located (mkVar "x") [("x", 1)] ∧
    Obj.render (.located (.var { failed := true } "x") ([("x", 1)] : Point ℝ))
      = Obj.render (.located (mkVar "x") [("x", 1)]) ∧
    Obj.beq realNum (.located (.var { failed := true } "x") [("x", 1)])
      (.located (mkVar "x") [("x", 1)]) = true := by
  have hr : Obj.render (.located (.var { failed := true } "x") ([("x", 1)] : Point ℝ))
      = Obj.render (.located (mkVar "x") [("x", 1)]) :=
    (Obj.render_eq_iff _ _).mpr (by simp [Obj.fresh, Expr.fresh, mkVar])
  exact ⟨by simp [mkVar], hr, Obj.render_eq_imp_beq realNum (by simp) (by simp [Obj.WF]) hr⟩

/-- the printed form of a `LocatedDifferential` -/
example : Obj.render (.located (mkVar "x") ([("x", 1), ("y", 2)] : Point ℝ)) =
    [.ident "LocatedDifferential", .lp, .ident "Variable", .lp, .str "x", .rp, .comma,
      .ident "Point", .lp, .ident "x", .eqs, .num 1, .comma, .ident "y", .eqs, .num 2, .rp, .rp] := by
  simp [Obj.render, renderLocated, renderPoint, render, joinComma]

/-- well-formedness is needed for reflexivity: a point with a repeated name is not equal to itself,
although it prints like itself -/
example : ¬ (Obj.point ([("x", 1), ("x", 2)] : Point ℝ)).WF ∧
    Obj.beq realNum (.point [("x", 1), ("x", 2)]) (.point [("x", 1), ("x", 2)]) = false := by
  constructor
  · simp [Obj.WF]
  · simp [Obj.beq, pointBeq, Point.get?]

end examples

end Smooth
