/-
C01 — Evaluation returns the real-arithmetic value of the expression.

Everything is about `evalG realNum` : the model's evaluator (a transcription of `_evaluate`,
`_verify_domain_constraints`, `_value_formula` and `math_functions.py`) instantiated with Mathlib's
real numbers.  `den` reads the tree as ordinary real arithmetic (Real/Spec.lean) and is written
independently of the model; `Dom` is the documented domain; `Supp p e` says the point has a
coordinate for every variable.  Rounding (the property's "up to floating-point rounding") is outside
any theorem and is decided by the correspondence run against the implementation.
-/
import Smooth.Proofs.Eval
import Smooth.Proofs.Vars
import Smooth.Proofs.Forward
import Smooth.Proofs.RatHom

namespace Smooth
open Expr

/-- **C01.**  The evaluator answers a value exactly on supplied points of the domain, and the value
is the denotation: n-ary sum and product (empty sum 0, empty product 1), difference, quotient,
integer power, sign-keeping real n-th root, `a^b = exp (b ln a)`, base-`b` exponential and logarithm,
sine, cosine. -/
theorem eval_ok_iff (p : Point ℝ) (e : Expr ℝ) (hwf : WF e) (v : ℝ) :
    evalG realNum p e = .ok v ↔ Supp p e ∧ Dom (valOf p) e ∧ v = den (valOf p) e :=
  (evalR_good p e hwf).ok_iff

/-- on the domain the value is the denotation -/
theorem eval_eq_den (p : Point ℝ) (e : Expr ℝ) (hwf : WF e) (hs : Supp p e)
    (hd : Dom (valOf p) e) : evalG realNum p e = .ok (den (valOf p) e) :=
  (eval_ok_iff p e hwf _).mpr ⟨hs, hd, rfl⟩

/-- the short-circuiting running product of `math_functions.multiply` is the product -/
theorem multiply_is_product (xs : List ℝ) : mfMultiply realNum xs = xs.prod := mfMultiply_real xs

/-- Python's `sum` is the sum -/
theorem add_is_sum (xs : List ℝ) : mfAdd realNum xs = xs.sum := mfAdd_real xs

/-- the four-way case split of `math_functions.nth_root` (identity, `sqrt`, sign-flipped `cbrt`,
`x ** (1/n)` with sign handling) is the sign-keeping real root on its documented domain -/
theorem nth_root_is_sroot {n : ℕ} (hn : 1 ≤ n) (a : ℝ) (h : RootOK n a) :
    (do verifyNthRoot realNum n a; mfNthRoot realNum a n) = .ok (sroot n a) := by
  rw [nthRoot_local hn a]; simp [h]

/-- the sign-keeping root really is a root: `sroot n x ^ n = x` for odd `n`, and for `x ≥ 0` -/
theorem sroot_pow {n : ℕ} (hn : 1 ≤ n) (x : ℝ) (h : 0 ≤ x ∨ n % 2 = 1) : sroot n x ^ n = x := by
  have hn0 : (n : ℝ) ≠ 0 := by exact_mod_cast (by omega : n ≠ 0)
  unfold sroot
  split
  · next hx =>
    rw [← Real.rpow_natCast, ← Real.rpow_mul hx]
    simp [hn0]
  · next hx =>
    have hodd : n % 2 = 1 := by
      rcases h with h | h
      · exact absurd h hx
      · exact h
    have hneg : 0 ≤ -x := by linarith [not_le.mp hx]
    have : Odd n := Nat.odd_iff.mpr hodd
    rw [Odd.neg_pow this, ← Real.rpow_natCast, ← Real.rpow_mul hneg]
    simp [hn0]

/-- the bare-number entry point is evaluation at the one-coordinate point of the single variable -/
theorem atNumber_eq (e : Expr ℝ) (t : ℝ) :
    atNumber realNum e t = (singleVarName e >>= fun x => evalG realNum [(x, t)] e) := rfl

/-- and it is rejected (the library's generic `Exception`) exactly for expressions with two or more
variables -/
theorem atNumber_usage_iff (e : Expr ℝ) (hwf : WF e) (t : ℝ) :
    atNumber realNum e t = .error .usage ↔ 2 ≤ e.vars.length := by
  unfold atNumber singleVarName
  match hv : e.vars with
  | [] =>
    simp only [pure, Except.pure, bind, Except.bind, List.length_nil]
    constructor
    · intro h
      rcases (evalR_good [("whatever", t)] e hwf).error_cases h with h | h <;> cases h
    · intro h; omega
  | [x] =>
    simp only [pure, Except.pure, bind, Except.bind, List.length_singleton]
    constructor
    · intro h
      rcases (evalR_good [(x, t)] e hwf).error_cases h with h | h <;> cases h
    · intro h; omega
  | _ :: _ :: _ => simp [bind, Except.bind, throw, throwThe, MonadExceptOf.throw]

/-- non-vacuity: a concrete tree with a shared-looking structure, an odd root of a negative value, a
0-ary product and a 1-ary sum meets every hypothesis of `eval_ok_iff` -/
example :
    let e : Expr ℝ := mkAdd [mkVar "x", mkNRoot (mkVar "y") 3, mkMul [], mkAdd [mkNPow (mkVar "x") 2]]
    let p : Point ℝ := [("x", 1), ("y", -8)]
    WF e ∧ Supp p e ∧ Dom (valOf p) e := by
  simp [WF, WFList, Supp, SuppList, Dom, DomList, den, valOf, Point.get?]


/-! ## The exactness sentence: the exact-rational run of the model is the real-number value

C01x — the exactness sentence of C01 (and C03/C04): the exact-rational run of the model is the
real-number value.

"When every exact intermediate is a small integer or dyadic rational the result is exactly that
number."  The correspondence harness decides this sentence by running the *same generic model* with
the executable instance `qeNum : Num QE` (Model/Instances.lean): exact rational arithmetic on the field
`q : Rat`, plus a flag `rep : Bool`.  The flag is bookkeeping for the harness only: it starts as
"this number is (the value of) an IEEE double of ordinary magnitude" and every arithmetic operation
and-s the flags of its operands with "the exact result is again such a double"; when the final flag
holds, the harness demands bit-exact equality with the Python implementation (no rounding can have
happened).  What "representable" means is a statement about IEEE doubles, outside Lean, and NO THEOREM
BELOW DEPENDS ON `rep` — `φ` forgets it.

What is proved here is the other half: the field `q` of the exact run *is* the real number that all
other theorems (C01 `eval_ok_iff`, C03 `fwd_hasDerivAt`, C04 …) are about.  Precisely: on the
rational fragment (`RatFrag`: only `const, var, add, minus, neg, mul, div, recip, npow` nodes — no
roots, general powers, exponentials, logarithms, trigonometry, where `qeNum` answers `unsupported`
or special-cases) the run over `qeNum` followed by `φ : QE → ℝ` equals the run over `realNum` on the
`φ`-image of the tree and of the point — values, `DomainError`s and `CoordinateMissing`s alike.

ONE SIDE CONDITION IS NECESSARY.  `qeNum.powNat a n` does not compute astronomically large exact
powers: when `(log2 |num a| + log2 (den a) + 2) * n > 300000` it answers `⟨0, false⟩`.  That value
is wrong (see `powNat_guard_breaks_exactness` below: the exact run returns `0`, even flagged
`rep = true`, where the real value is about 2.1), so every theorem carries the hypothesis that the
guard does not fire at the powers the run takes: `EvalFits p e` for evaluation, `DiffFits p e` for
both differentiation modes (which also square the operand of `Reciprocal` and the denominator of
`Divide`).  `PowFits.of_small` gives the hypothesis from a bound on numerators and denominators.
-/
open Expr

/-! ### evaluation -/

/-- **the exact run is the real run**, in one equation: values and errors -/
theorem exact_run_agrees (p : Point QE) (e : Expr QE) (hf : RatFrag e) (hs : EvalFits p e) :
    evalG realNum (Point.mapNum φ p) (e.castNum φ) = Except.map φ (evalG qeNum p e) :=
  evalG_hom_map p e hf hs

/-- **C01, exactness sentence.**  If the exact-rational run returns `v`, evaluation over the real
numbers of the same tree at the same point returns the real number `v.q`. -/
theorem exact_run_is_real_value (p : Point QE) (e : Expr QE) (hf : RatFrag e) (hs : EvalFits p e)
    {v : QE} (h : evalG qeNum p e = .ok v) :
    evalG realNum (Point.mapNum φ p) (e.castNum φ) = .ok (φ v) := by
  rw [evalG_hom_map p e hf hs, h]; rfl

/-- … and every error of the exact run is the error of the real run … -/
theorem exact_run_error_is_real (p : Point QE) (e : Expr QE) (hf : RatFrag e) (hs : EvalFits p e)
    {err : Err} (h : evalG qeNum p e = .error err) :
    evalG realNum (Point.mapNum φ p) (e.castNum φ) = .error err := by
  rw [evalG_hom_map p e hf hs, h]; rfl

/-- … in particular a `DomainError` of the exact run is a `DomainError` over the reals (the zero
tests agree because `((q : ℚ) : ℝ) = 0 ↔ q = 0`) -/
theorem exact_run_domain_error_is_real (p : Point QE) (e : Expr QE) (hf : RatFrag e)
    (hs : EvalFits p e) (h : evalG qeNum p e = .error .domain) :
    evalG realNum (Point.mapNum φ p) (e.castNum φ) = .error .domain :=
  exact_run_error_is_real p e hf hs h

/-- conversely the real run determines the exact one: a real value comes from an exact value -/
theorem real_value_is_exact_run (p : Point QE) (e : Expr QE) (hf : RatFrag e) (hs : EvalFits p e)
    {r : ℝ} (h : evalG realNum (Point.mapNum φ p) (e.castNum φ) = .ok r) :
    ∃ v, evalG qeNum p e = .ok v ∧ φ v = r := by
  rw [evalG_hom_map p e hf hs] at h
  cases hq : evalG qeNum p e with
  | error _ => rw [hq] at h; cases h
  | ok v => rw [hq] at h; injection h with h; exact ⟨v, rfl, h⟩

/-- on the fragment the exact run never answers `unsupported` (nor anything but the library's two
errors) -/
theorem exact_run_errors (p : Point QE) (e : Expr QE) (hf : RatFrag e) (hs : EvalFits p e)
    (hwf : WF (e.castNum φ)) {err : Err} (h : evalG qeNum p e = .error err) :
    err = .domain ∨ err = .missing :=
  (evalR_good _ _ hwf).error_cases (exact_run_error_is_real p e hf hs h)

/-- a successful exact run certifies well-formedness (`1 ≤ n` at every `npow`) … -/
theorem exact_run_ok_WF (p : Point QE) (e : Expr QE) (hf : RatFrag e) {v : QE}
    (h : evalG qeNum p e = .ok v) : WF (e.castNum φ) :=
  ratfrag_ok_WF p e hf v h

/-- … hence its value is the denotation `den` of C01 at a supplied point of the documented domain:
the exact run computes "that number". -/
theorem exact_run_is_den (p : Point QE) (e : Expr QE) (hf : RatFrag e) (hs : EvalFits p e)
    {v : QE} (h : evalG qeNum p e = .ok v) :
    Supp (Point.mapNum φ p) (e.castNum φ) ∧ Dom (valOf (Point.mapNum φ p)) (e.castNum φ) ∧
      φ v = den (valOf (Point.mapNum φ p)) (e.castNum φ) :=
  (evalR_good _ _ (ratfrag_ok_WF p e hf v h)).ok_iff.mp (exact_run_is_real_value p e hf hs h)

/-- the bare-number entry point `Expression.at(number)` -/
theorem exact_at_number_agrees (e : Expr QE) (t : QE) (hf : RatFrag e)
    (hs : ∀ x, EvalFits [(x, t)] e) :
    atNumber realNum (e.castNum φ) (φ t) = Except.map φ (atNumber qeNum e t) :=
  atNumber_hom_map e t hf hs

/-! ### forward mode (C03) -/

theorem exact_forward_agrees (p : Point QE) (x : String) (e : Expr QE) (hf : RatFrag e)
    (hs : DiffFits p e) :
    fwdG realNum (Point.mapNum φ p) x (e.castNum φ) = Except.map φ (fwdG qeNum p x e) :=
  fwdG_hom_map p x e hf hs

/-- **C03, exactness.**  If exact-rational forward mode returns `d`, forward mode over the reals
returns the real number `d.q`. -/
theorem exact_forward_is_real_partial (p : Point QE) (x : String) (e : Expr QE) (hf : RatFrag e)
    (hs : DiffFits p e) {d : QE} (h : fwdG qeNum p x e = .ok d) :
    fwdG realNum (Point.mapNum φ p) x (e.castNum φ) = .ok (φ d) := by
  rw [fwdG_hom_map p x e hf hs, h]; rfl

theorem exact_forward_error_is_real (p : Point QE) (x : String) (e : Expr QE) (hf : RatFrag e)
    (hs : DiffFits p e) {err : Err} (h : fwdG qeNum p x e = .error err) :
    fwdG realNum (Point.mapNum φ p) x (e.castNum φ) = .error err := by
  rw [fwdG_hom_map p x e hf hs, h]; rfl

/-- composed with C03: wherever the exact run evaluates the expression, exact forward mode returns
a rational, and that rational *is* the partial derivative of the denotation. -/
theorem exact_forward_is_true_derivative (p : Point QE) (x : String) (e : Expr QE) (hf : RatFrag e)
    (hs : DiffFits p e) {v : QE} (h : evalG qeNum p e = .ok v) :
    ∃ d, fwdG qeNum p x e = .ok d ∧
      HasDerivAt (fun t => den (upd (valOf (Point.mapNum φ p)) x t) (e.castNum φ)) (φ d)
        (valOf (Point.mapNum φ p) x) := by
  have hwf := ratfrag_ok_WF p e hf v h
  obtain ⟨hS, hD, _⟩ := exact_run_is_den p e hf (DiffFits.evalFits p e hs) h
  obtain ⟨dR, hd, hder⟩ := (fwdR_spec _ x _ hwf).1 hS hD
  rw [fwdG_hom_map p x e hf hs] at hd
  cases hq : fwdG qeNum p x e with
  | error _ => rw [hq] at hd; cases hd
  | ok d => rw [hq] at hd; injection hd with hd; exact ⟨d, rfl, hd ▸ hder⟩

/-! ### reverse mode (C04) -/

/-- one reverse traversal from any multiplier and accumulator -/
theorem exact_reverse_agrees (p : Point QE) (e : Expr QE) (hf : RatFrag e) (hs : DiffFits p e)
    (m : QE) (acc : Acc QE) :
    revG realNum (Point.mapNum φ p) (e.castNum φ) (φ m) (Point.mapNum φ acc)
      = Except.map (Point.mapNum φ) (revG qeNum p e m acc) :=
  revG_hom_map p e hf hs m acc

/-- **C04, exactness.**  `_numeric_partials(point)` over the exact rationals is, entry by entry,
`_numeric_partials(point)` over the reals. -/
theorem exact_reverse_is_real_partials (p : Point QE) (e : Expr QE) (hf : RatFrag e)
    (hs : DiffFits p e) {t : Acc QE} (h : numericPartials qeNum p e = .ok t) :
    numericPartials realNum (Point.mapNum φ p) (e.castNum φ) = .ok (Point.mapNum φ t) := by
  rw [numericPartials_hom_map p e hf hs, h]; rfl

/-! ### non-vacuity -/

/-- x² / (x + 1/2) at x = 3 : a quotient, a natural power, a sum with a dyadic constant -/
def c01xExpr : Expr QE := mkDiv (mkNPow (mkVar "x") 2) (mkAdd [mkVar "x", mkConst ⟨1 / 2, true⟩])
def c01xPoint : Point QE := [("x", ⟨3, true⟩)]

theorem c01x_frag : RatFrag c01xExpr := by simp [c01xExpr, RatFrag, RatFragList]

theorem c01x_fits : DiffFits c01xPoint c01xExpr := by
  simp only [c01xExpr, DiffFits, DiffFitsList, and_true, true_and]
  exact ⟨FitsAt.of_eval (a := ⟨3, true⟩) (by decide +kernel) (by decide +kernel),
    FitsAt.of_eval (a := ⟨7 / 2, true⟩) (by decide +kernel) (by decide +kernel)⟩

/-- `exact_run_is_real_value`, `exact_run_is_den`: hypotheses met; the value 18/7 is not a double,
and the flag says so -/
example : RatFrag c01xExpr ∧ EvalFits c01xPoint c01xExpr ∧
    evalG qeNum c01xPoint c01xExpr = .ok ⟨18 / 7, false⟩ :=
  ⟨c01x_frag, DiffFits.evalFits _ _ c01x_fits, by decide +kernel⟩

/-- … with a representable result: x² / (x + 1) at x = 3 is 9/4 -/
example : evalG qeNum c01xPoint (mkDiv (mkNPow (mkVar "x") 2) (mkAdd [mkVar "x", mkConst ⟨1, true⟩]))
    = .ok ⟨9 / 4, true⟩ := by decide +kernel

/-- `exact_run_domain_error_is_real`: 1 / (x − 3) at x = 3 -/
example :
    let e : Expr QE := mkRecip (mkMinus (mkVar "x") (mkConst ⟨3, true⟩))
    RatFrag e ∧ EvalFits c01xPoint e ∧ evalG qeNum c01xPoint e = .error .domain := by
  refine ⟨by simp [RatFrag], by simp [EvalFits], by decide +kernel⟩

/-- `exact_run_error_is_real` with the other error: a missing coordinate -/
example :
    let e : Expr QE := mkMul [mkVar "x", mkVar "y"]
    RatFrag e ∧ EvalFits c01xPoint e ∧ evalG qeNum c01xPoint e = .error .missing := by
  refine ⟨by simp [RatFrag, RatFragList], by simp [EvalFits, EvalFitsList], by decide +kernel⟩

/-- `exact_forward_is_real_partial`, `exact_forward_is_true_derivative`:
d/dx x²/(x + 1/2) at 3 is 48/49 -/
example : RatFrag c01xExpr ∧ DiffFits c01xPoint c01xExpr ∧
    fwdG qeNum c01xPoint "x" c01xExpr = .ok ⟨48 / 49, false⟩ :=
  ⟨c01x_frag, c01x_fits, by decide +kernel⟩

/-- `exact_reverse_is_real_partials` -/
example : numericPartials qeNum c01xPoint c01xExpr = .ok [("x", ⟨48 / 49, false⟩)] := by
  decide +kernel

/-! ### the side condition is necessary, and `rep` is not a certificate by itself -/

/-- **Without `EvalFits` the statement is false.**  x = 1 + 2⁻²⁰ (a double), `x ** 50000 * 2`:
over the reals (and in Python, up to rounding) about 2.0976; the size guard of `qeNum.powNat` fires
(42 bits × 50000 > 300000) and answers `⟨0, false⟩`, the short-circuit of `multiply` sees "a zero
factor" and answers a *fresh* zero — the exact run returns `0` with `rep = true`. -/
theorem powNat_guard_breaks_exactness :
    let x : QE := ⟨1048577 / 1048576, true⟩
    let e : Expr QE := mkMul [mkNPow (mkVar "x") 50000, mkConst ⟨2, true⟩]
    RatFrag e ∧ evalG qeNum [("x", x)] e = .ok ⟨0, true⟩ ∧
      evalG realNum (Point.mapNum φ [("x", x)]) (e.castNum φ) = .ok ((φ x) ^ 50000 * 2) ∧
      (φ x) ^ 50000 * 2 ≠ 0 := by
  refine ⟨by simp [RatFrag, RatFragList], by decide +kernel, ?_, ?_⟩
  · simp only [Expr.castNum, Expr.castNumList, Point.mapNum_cons, Point.mapNum_nil, evalG,
      evalListG, Point.get?, mfNthPower, bind, Except.bind, pure, Except.pure, mfMultiply_real]
    simp [φ]
  · have : φ ⟨1048577 / 1048576, true⟩ ≠ 0 := by simp [φ]
    exact mul_ne_zero (pow_ne_zero _ this) two_ne_zero

/-- **`rep` alone is not sticky** (independently of the guard): ((2⁵³ + 1) − 2⁵³) − 1 is exactly 0
but passes through 2⁵³ + 1, which is not a double (`rep = false`; in doubles the result is −1);
`multiply` then returns a fresh zero with `rep = true`.  The harness must not read a final
`rep = true` as "no intermediate was rounded" when a product short-circuited on a zero factor. -/
example :
    let z : Expr QE := mkMinus (mkMinus (mkAdd [mkConst ⟨9007199254740992, true⟩, mkConst ⟨1, true⟩])
      (mkConst ⟨9007199254740992, true⟩)) (mkConst ⟨1, true⟩)
    evalG qeNum [] z = .ok ⟨0, false⟩ ∧
      evalG qeNum [] (mkMul [z, mkConst ⟨5, true⟩]) = .ok ⟨0, true⟩ := by
  exact ⟨by decide +kernel, by decide +kernel⟩


end Smooth
