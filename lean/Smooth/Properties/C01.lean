/-
C01 — Evaluation returns the real-arithmetic value of the expression.

Everything is about `evalG realNum` : the model's evaluator (a transcription of `_evaluate`,
`_verify_domain_constraints`, `_value_formula` and `math_functions.py`) instantiated with Mathlib's
real numbers.  `den` reads the tree as ordinary real arithmetic (Real/Spec.lean) and is written
independently of the model; `Dom` is the documented domain; `Supp p e` says the point has a
coordinate for every variable.  Rounding (the property's "up to floating-point rounding") is outside
any theorem and is decided by the correspondence run against the implementation.
-/
import Smooth.Proofs.Eval
import Smooth.Proofs.Vars

namespace Smooth
open Expr

/-- **C01.**  The evaluator answers a value exactly on supplied points of the domain, and the value
is the denotation: n-ary sum and product (empty sum 0, empty product 1), difference, quotient,
integer power, sign-keeping real n-th root, `a^b = exp (b ln a)`, base-`b` exponential and logarithm,
sine, cosine. -/
theorem eval_ok_iff (p : Point ℝ) (e : Expr ℝ) (hwf : WF e) (v : ℝ) :
    evalG realNum p e = .ok v ↔ Supp p e ∧ Dom (valOf p) e ∧ v = den (valOf p) e :=
  (evalR_good p e hwf).ok_iff

/-- on the domain the value is the denotation -/
theorem eval_eq_den (p : Point ℝ) (e : Expr ℝ) (hwf : WF e) (hs : Supp p e)
    (hd : Dom (valOf p) e) : evalG realNum p e = .ok (den (valOf p) e) :=
  (eval_ok_iff p e hwf _).mpr ⟨hs, hd, rfl⟩

/-- the short-circuiting running product of `math_functions.multiply` is the product -/
theorem multiply_is_product (xs : List ℝ) : mfMultiply realNum xs = xs.prod := mfMultiply_real xs

/-- Python's `sum` is the sum -/
theorem add_is_sum (xs : List ℝ) : mfAdd realNum xs = xs.sum := mfAdd_real xs

/-- the four-way case split of `math_functions.nth_root` (identity, `sqrt`, sign-flipped `cbrt`,
`x ** (1/n)` with sign handling) is the sign-keeping real root on its documented domain -/
theorem nth_root_is_sroot {n : ℕ} (hn : 1 ≤ n) (a : ℝ) (h : RootOK n a) :
    (do verifyNthRoot realNum n a; mfNthRoot realNum a n) = .ok (sroot n a) := by
  rw [nthRoot_local hn a]; simp [h]

/-- the sign-keeping root really is a root: `sroot n x ^ n = x` for odd `n`, and for `x ≥ 0` -/
theorem sroot_pow {n : ℕ} (hn : 1 ≤ n) (x : ℝ) (h : 0 ≤ x ∨ n % 2 = 1) : sroot n x ^ n = x := by
  have hn0 : (n : ℝ) ≠ 0 := by exact_mod_cast (by omega : n ≠ 0)
  unfold sroot
  split
  · next hx =>
    rw [← Real.rpow_natCast, ← Real.rpow_mul hx]
    simp [hn0]
  · next hx =>
    have hodd : n % 2 = 1 := by
      rcases h with h | h
      · exact absurd h hx
      · exact h
    have hneg : 0 ≤ -x := by linarith [not_le.mp hx]
    have : Odd n := Nat.odd_iff.mpr hodd
    rw [Odd.neg_pow this, ← Real.rpow_natCast, ← Real.rpow_mul hneg]
    simp [hn0]

/-- the bare-number entry point is evaluation at the one-coordinate point of the single variable -/
theorem atNumber_eq (e : Expr ℝ) (t : ℝ) :
    atNumber realNum e t = (singleVarName e >>= fun x => evalG realNum [(x, t)] e) := rfl

/-- and it is rejected (the library's generic `Exception`) exactly for expressions with two or more
variables -/
theorem atNumber_usage_iff (e : Expr ℝ) (hwf : WF e) (t : ℝ) :
    atNumber realNum e t = .error .usage ↔ 2 ≤ e.vars.length := by
  unfold atNumber singleVarName
  match hv : e.vars with
  | [] =>
    simp only [pure, Except.pure, bind, Except.bind, List.length_nil]
    constructor
    · intro h
      rcases (evalR_good [("whatever", t)] e hwf).error_cases h with h | h <;> cases h
    · intro h; omega
  | [x] =>
    simp only [pure, Except.pure, bind, Except.bind, List.length_singleton]
    constructor
    · intro h
      rcases (evalR_good [(x, t)] e hwf).error_cases h with h | h <;> cases h
    · intro h; omega
  | _ :: _ :: _ => simp [bind, Except.bind, throw, throwThe, MonadExceptOf.throw]

/-- non-vacuity: a concrete tree with a shared-looking structure, an odd root of a negative value, a
0-ary product and a 1-ary sum meets every hypothesis of `eval_ok_iff` -/
example :
    let e : Expr ℝ := mkAdd [mkVar "x", mkNRoot (mkVar "y") 3, mkMul [], mkAdd [mkNPow (mkVar "x") 2]]
    let p : Point ℝ := [("x", 1), ("y", -8)]
    WF e ∧ Supp p e ∧ Dom (valOf p) e := by
  simp [WF, WFList, Supp, SuppList, Dom, DomList, den, valOf, Point.get?]

end Smooth
