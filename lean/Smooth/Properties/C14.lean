/-
C14 — An expression needs exactly the coordinates of the variables it mentions.

`Supp p e` : the point has a coordinate for every variable occurring in `e`
(`supp_iff_vars` : iff for every name in the model's variable list `e.vars`; `mem_vars` : that
list contains exactly the occurring variables).  Extra coordinates are irrelevant
(`evalG_congr_occurs`, …, generic in the number instance: Proofs/Coords.lean).
-/
import Smooth.Proofs.Reverse
import Smooth.Proofs.Coords
import Smooth.Model.Objects
import Smooth.Proofs.NoMissingInst

namespace Smooth
open Expr

/-- **C14.**  At a point that supplies every occurring variable, evaluation never answers
`CoordinateMissing` … -/
theorem eval_supplied_no_missing (p : Point ℝ) (e : Expr ℝ) (hwf : WF e) (hs : Supp p e) :
    evalG realNum p e ≠ .error .missing :=
  fun h => (evalR_good p e hwf).missing_not_supp h hs

/-- … nor does forward mode, whatever the differentiation variable (occurring or not, supplied by
the point or not) … -/
theorem fwd_supplied_no_missing (p : Point ℝ) (x : String) (e : Expr ℝ) (hwf : WF e)
    (hs : Supp p e) : fwdG realNum p x e ≠ .error .missing := by
  intro h
  by_cases hd : Dom (valOf p) e
  · obtain ⟨d, h', _⟩ := (fwdR_spec p x e hwf).1 hs hd
    rw [h] at h'; cases h'
  · have := (fwdR_spec p x e hwf).2.1 hs hd
    rw [h] at this; cases this

/-- … nor reverse mode. -/
theorem rev_supplied_no_missing (p : Point ℝ) (e : Expr ℝ) (hwf : WF e) (hs : Supp p e) (m : ℝ)
    (acc : Acc ℝ) : revG realNum p e m acc ≠ .error .missing := by
  intro h
  by_cases hd : Dom (valOf p) e
  · obtain ⟨a, h', _⟩ := (revR_spec p e hwf m acc).1 hs hd
    rw [h] at h'; cases h'
  · have := (revR_spec p e hwf m acc).2.1 hs hd
    rw [h] at this; cases this

/-- Evaluation at a point lacking an occurring variable never returns a number. -/
theorem eval_lacking_never_ok (p : Point ℝ) (e : Expr ℝ) (hwf : WF e) (x : String)
    (hx : Occurs x e) (hp : p.get? x = none) (v : ℝ) : evalG realNum p e ≠ .ok v := by
  intro h
  have hs := ((evalR_good p e hwf).ok_iff.mp h).1
  have := (supp_iff_occurs p e).mp hs x hx
  rw [hp] at this; simp at this

/-- whatever other coordinates the point has or lacks: only occurring variables are read -/
theorem eval_extra_coordinates (p q : Point ℝ) (e : Expr ℝ)
    (h : ∀ x, Occurs x e → p.get? x = q.get? x) : evalG realNum p e = evalG realNum q e :=
  evalG_congr_occurs realNum e h

theorem fwd_extra_coordinates (p q : Point ℝ) (x : String) (e : Expr ℝ)
    (h : ∀ y, Occurs y e → p.get? y = q.get? y) : fwdG realNum p x e = fwdG realNum q x e :=
  fwdG_congr_occurs realNum x e h

/-- reverse mode, and the whole gradient, read only occurring coordinates as well -/
theorem rev_extra_coordinates (p q : Point ℝ) (e : Expr ℝ)
    (h : ∀ y, Occurs y e → p.get? y = q.get? y) (m : ℝ) (acc : Acc ℝ) :
    revG realNum p e m acc = revG realNum q e m acc :=
  revG_congr_occurs realNum e h m acc

theorem numericPartials_extra_coordinates (p q : Point ℝ) (e : Expr ℝ)
    (h : ∀ y, Occurs y e → p.get? y = q.get? y) :
    numericPartials realNum p e = numericPartials realNum q e :=
  numericPartials_congr_occurs realNum e h

/-- the gradient at a supplied point never answers `CoordinateMissing` -/
theorem numericPartials_supplied_no_missing (p : Point ℝ) (e : Expr ℝ) (hs : Supp p e) :
    numericPartials realNum p e ≠ .error .missing :=
  numericPartials_not_missing noMissing_realNum p e hs

/-- `CoordinateMissing` from evaluation names a real gap: some occurring variable has no
coordinate (so the error is never raised "for" a variable that does not occur) -/
theorem eval_missing_lacks (p : Point ℝ) (e : Expr ℝ) (h : evalG realNum p e = .error .missing) :
    ∃ x, Occurs x e ∧ p.get? x = none :=
  evalG_missing_lacks noMissing_realNum p e h

/-- The same statements for **every** number instance the driver runs (exact rationals, the two
float instances): none of them needs well-formedness, and `NoMissing N` only says that the
instance's own primitives never answer `missing`. -/
theorem generic_coordinates {α : Type} (N : Num α) (hN : NoMissing N) (p : Point α) (e : Expr α) :
    (Supp p e → evalG N p e ≠ .error .missing) ∧
    (Supp p e → ∀ x, fwdG N p x e ≠ .error .missing) ∧
    (Supp p e → ∀ m acc, revG N p e m acc ≠ .error .missing) ∧
    (Supp p e → numericPartials N p e ≠ .error .missing) ∧
    (∀ x, Occurs x e → p.get? x = none → ∀ v, evalG N p e ≠ .ok v) ∧
    (∀ q : Point α, (∀ y, Occurs y e → p.get? y = q.get? y) →
      evalG N p e = evalG N q e ∧ (∀ x, fwdG N p x e = fwdG N q x e) ∧
      (∀ m acc, revG N p e m acc = revG N q e m acc) ∧
      numericPartials N p e = numericPartials N q e) :=
  ⟨evalG_not_missing hN p e, fun hs x => fwdG_not_missing hN p x e hs,
   fun hs m acc => revG_not_missing hN p e hs m acc, numericPartials_not_missing hN p e,
   fun x hx hp v => evalG_not_ok_of_lacking N p e x hx hp v,
   fun _ h => ⟨evalG_congr_occurs N e h, fun x => fwdG_congr_occurs N x e h,
     fun m acc => revG_congr_occurs N e h m acc, numericPartials_congr_occurs N e h⟩⟩

/-- … instantiated: the exact-rational instance and the double-with-error-bound instance (every
comparison mode) that the correspondence driver executes satisfy all of `generic_coordinates`. -/
theorem driver_instances_coordinates :
    (∀ (p : Point QE) (e : Expr QE), Supp p e → evalG qeNum p e ≠ .error .missing ∧
      (∀ x, fwdG qeNum p x e ≠ .error .missing) ∧ numericPartials qeNum p e ≠ .error .missing) ∧
    (∀ (mode : Nat) (p : Point FB) (e : Expr FB), Supp p e →
      evalG (fbNum mode) p e ≠ .error .missing ∧
      (∀ x, fwdG (fbNum mode) p x e ≠ .error .missing) ∧
      numericPartials (fbNum mode) p e ≠ .error .missing) :=
  ⟨fun p e hs =>
      let g := generic_coordinates qeNum noMissing_qeNum p e
      ⟨g.1 hs, g.2.1 hs, g.2.2.2.1 hs⟩,
   fun mode p e hs =>
      let g := generic_coordinates (fbNum mode) (noMissing_fbNum mode) p e
      ⟨g.1 hs, g.2.1 hs, g.2.2.2.1 hs⟩⟩

/-- a bare number is accepted in place of a point exactly for expressions with at most one
variable (see also `atNumber_usage_iff` in C01) … -/
theorem single_variable_accepts_iff (e : Expr ℝ) :
    (∃ x, singleVarName e = .ok x) ↔ ∀ x y, Occurs x e → Occurs y e → x = y := by
  rw [singleVarName_ok_iff, vars_length_le_one_iff]

/-- … and `Derivative` accepts exactly such expressions -/
theorem derivative_accepts_iff (e : Expr ℝ) :
    (∃ D, DerivativeObj.new realNum e false = .ok D) ↔ e.vars.length ≤ 1 := by
  rw [← singleVarName_ok_iff]
  unfold DerivativeObj.new PartialObj.new
  constructor
  · rintro ⟨D, h⟩
    cases hs : singleVarName e with
    | error err => simp [hs, bind, Except.bind] at h
    | ok x => exact ⟨x, rfl⟩
  · rintro ⟨x, hx⟩
    simp [hx, bind, Except.bind, pure, Except.pure]

/-- non-vacuity: an expression over two of three supplied coordinates -/
example :
    let e : Expr ℝ := mkAdd [mkVar "x", mkMul [mkVar "y", mkVar "x"]]
    WF e ∧ Supp [("z", (1 : ℝ)), ("y", 2), ("x", 3)] e ∧ ¬ Supp [("z", (1 : ℝ)), ("x", 3)] e := by
  simp [WF, WFList, Supp, SuppList, Point.get?]

end Smooth
