/-
C07 — Derivative queries fail exactly where the expression itself is undefined.

Numeric routes (everything that does not go through a stored symbolic partial): forward mode
(`Partial.at`, `Derivative.at`, `Differential.component(..).at`, `component_at`, all not computed
early) and reverse mode (`LocatedDifferential(e, p)`, `Differential(e).at(p)`).  The early routes
evaluate the original expression first and then a simplified symbolic partial; for them the
statement additionally needs "simplification never shrinks the domain" (C08), which holds up to the
recorded defect K1 — see Properties/C06.lean / C08.lean for the `_partial` statements.
-/
import Smooth.Proofs.Reverse
import Smooth.Model.Objects

namespace Smooth
open Expr

/-- **C07, forward mode.**  At a point that supplies the expression, forward mode returns a number
iff evaluation does … -/
theorem fwd_ok_iff (p : Point ℝ) (x : String) (e : Expr ℝ) (hwf : WF e) (hs : Supp p e) :
    (∃ d, fwdG realNum p x e = .ok d) ↔ (∃ v, evalG realNum p e = .ok v) := by
  constructor
  · rintro ⟨d, hd⟩
    by_cases hdom : Dom (valOf p) e
    · exact ⟨_, (evalR_good p e hwf).ok_iff.mpr ⟨hs, hdom, rfl⟩⟩
    · have := (fwdR_spec p x e hwf).2.1 hs hdom
      rw [hd] at this; cases this
  · rintro ⟨v, hv⟩
    obtain ⟨_, hdom, _⟩ := (evalR_good p e hwf).ok_iff.mp hv
    obtain ⟨d, h, _⟩ := (fwdR_spec p x e hwf).1 hs hdom
    exact ⟨d, h⟩

/-- … and raises `DomainError` iff evaluation does: it never returns a number where the expression
has no value — whatever rule could have skipped the undefined part (exponent of a base that
evaluates to one, factor next to zero, zero numerator, variable-free sub-trees) — and never raises
where the expression is defined. -/
theorem fwd_domain_iff (p : Point ℝ) (x : String) (e : Expr ℝ) (hwf : WF e) (hs : Supp p e) :
    fwdG realNum p x e = .error .domain ↔ evalG realNum p e = .error .domain := by
  rw [(evalR_good p e hwf).domain_iff hs]
  constructor
  · intro h hdom
    obtain ⟨d, h', _⟩ := (fwdR_spec p x e hwf).1 hs hdom
    rw [h] at h'; cases h'
  · exact (fwdR_spec p x e hwf).2.1 hs

/-- **C07, reverse mode.**  The same for one reverse traversal from any accumulator … -/
theorem rev_ok_iff (p : Point ℝ) (e : Expr ℝ) (hwf : WF e) (hs : Supp p e) (m : ℝ) (acc : Acc ℝ) :
    (∃ a, revG realNum p e m acc = .ok a) ↔ (∃ v, evalG realNum p e = .ok v) := by
  constructor
  · rintro ⟨a, ha⟩
    by_cases hdom : Dom (valOf p) e
    · exact ⟨_, (evalR_good p e hwf).ok_iff.mpr ⟨hs, hdom, rfl⟩⟩
    · have := (revR_spec p e hwf m acc).2.1 hs hdom
      rw [ha] at this; cases this
  · rintro ⟨v, hv⟩
    obtain ⟨_, hdom, _⟩ := (evalR_good p e hwf).ok_iff.mp hv
    obtain ⟨a, h, _⟩ := (revR_spec p e hwf m acc).1 hs hdom
    exact ⟨a, h⟩

theorem rev_domain_iff (p : Point ℝ) (e : Expr ℝ) (hwf : WF e) (hs : Supp p e) (m : ℝ)
    (acc : Acc ℝ) :
    revG realNum p e m acc = .error .domain ↔ evalG realNum p e = .error .domain := by
  rw [(evalR_good p e hwf).domain_iff hs]
  constructor
  · intro h hdom
    obtain ⟨a, h', _⟩ := (revR_spec p e hwf m acc).1 hs hdom
    rw [h] at h'; cases h'
  · exact (revR_spec p e hwf m acc).2.1 hs

/-- … hence for constructing a `LocatedDifferential` -/
theorem located_domain_iff (p : Point ℝ) (e : Expr ℝ) (hwf : WF e) (hs : Supp p e) :
    (∃ L, LocatedObj.new realNum e p = .ok L) ↔ (∃ v, evalG realNum p e = .ok v) := by
  rw [← rev_ok_iff p e hwf hs 1 []]
  simp only [LocatedObj.new, numericPartials, realNum_one]
  constructor
  · rintro ⟨L, h⟩
    cases hr : revG realNum p e 1 [] with
    | error err => simp [hr, bind, Except.bind] at h
    | ok a => exact ⟨a, rfl⟩
  · rintro ⟨a, h⟩
    simp [h, bind, Except.bind, pure, Except.pure]

/-- the late `Partial` object is forward mode, so the two forward statements are about `Partial.at`,
`Derivative.at`, `Differential.component(..).at` and `component_at` of objects not computed early -/
theorem partial_late_is_fwd (e : Expr ℝ) (x : String) (p : Point ℝ) :
    (PartialObj.mk e x none).at realNum p = fwdG realNum p x e := rfl

theorem differential_late_component_is_fwd (e : Expr ℝ) (x : String) (p : Point ℝ) :
    (DifferentialObj.mk e none).componentAt realNum x p = fwdG realNum p x e := by
  simp [DifferentialObj.componentAt, DifferentialObj.component, PartialObj.new, bind, Except.bind,
    pure, Except.pure, PartialObj.at]

/-- the repaired defect F2 as a theorem: `Power(Constant(1), Reciprocal(x))` at `x = 0` -/
theorem power_base_one_shortcut_still_raises (x : String) :
    fwdG realNum [(x, 0)] x (mkPow (mkConst 1) (mkRecip (mkVar x))) = .error .domain := by
  apply (fwd_domain_iff _ _ _ (by simp [WF]) (by simp [Supp, Point.get?])).mpr
  apply ((evalR_good _ _ (by simp [WF])).domain_iff (by simp [Supp, Point.get?])).mpr
  simp [Dom, den, valOf, Point.get?]

/-- non-vacuity: supplied points inside and outside the domain of an expression whose undefined
part is skippable -/
example :
    let e : Expr ℝ := mkMul [mkConst 0, mkLog (mkVar "x") (Real.exp 1)]
    WF e ∧ Supp [("x", (1 : ℝ))] e ∧ Dom (valOf [("x", 1)]) e ∧ Supp [("x", (-1 : ℝ))] e ∧
      ¬ Dom (valOf [("x", -1)]) e := by
  simp [WF, WFList, Supp, SuppList, Dom, DomList, den, valOf, Point.get?, Real.exp_pos,
    exp_one_ne_one]

end Smooth
