/-
C08odd — simplification is value-preserving, UNCONDITIONALLY, on expressions without even roots.

The only unsound rewrite of the library (recorded defect K1) is
`NthRoot(NthPower(u, m), n) ⇒ NthPower(NthRoot(u, n), m)` with `n` AND `m` even.  The soundness theorems
of C08 and C05 (`step_sound_partial`, `fully_reduce_sound_partial`, `normalize_sound_partial`,
`as_expression_sound_partial`, `differential_early_*`) therefore carry a hypothesis about the RUN of the
rewriter (`StepOK / RunOK / NormOK K1FreeAt …` : "the run never applies that instance").

Here that hypothesis is replaced by a SYNTACTIC condition on the input:

  `NoEvenRoot e`  :=  every `NthRoot` node of `e`, at any depth, has an odd degree
                      (`∀ f u n, Sub (.nroot f u n) e → n % 2 = 1`, `Sub s e` = "`s` is a node of `e`").

All expressions without `NthRoot` nodes qualify (polynomials, rational functions, exp/log/trig/power
expressions), and so do expressions whose roots are all odd.  The condition is kept by every one of
the 46 rules, by constant folding and flagging, by every step, by `_fully_reduce` (any budget), by the
normal-form pass and `_normalize` (any budget and fuel), and by symbolic differentiation (forward and
reverse); and a redex without even root is never an instance of K1.  Hence, for such inputs, the
side conditions hold of every run and the soundness theorems become unconditional.
The condition is sufficient, not necessary (last section).

`Refines e e'` := `WF e → WF e'`, every point supplying `e` supplies `e'`, and wherever `e` is defined
`e'` is defined with the same value (Proofs/Refines).
Proofs: Proofs/NoEvenRoot.lean (definition, the 46 rules), Proofs/NoEvenRootDriver.lean (driver),
Proofs/NoEvenRootSym.lean (symbolic derivatives), Proofs/NoEvenRootOK.lean (side conditions,
corollaries).  The invariance theorems are generic in the number record `N`.
-/
import Smooth.Proofs.NoEvenRootOK
import Smooth.Proofs.SymForwardRun

namespace Smooth
open Expr

/-! ## the condition -/

/-- node by node: the node itself is not an even root, and no child contains one -/
theorem noEvenRoot_iff {α : Type} (e : Expr α) :
    NoEvenRoot e ↔ OddRootAt e ∧ ∀ c ∈ children e, NoEvenRoot c :=
  ner_iff e

/-- the one constructor that matters … -/
theorem noEvenRoot_nroot {α : Type} (f : Flags) (u : Expr α) (n : Nat) :
    NoEvenRoot (.nroot f u n) ↔ n % 2 = 1 ∧ NoEvenRoot u :=
  ner_nroot f u n

/-- … every other constructor only passes the condition on to its operands (the remaining cases are
the simp lemmas `ner_const … ner_sin` of Proofs/NoEvenRoot) -/
theorem noEvenRoot_other {α : Type} (f : Flags) (u l r : Expr α) (as : List (Expr α)) (n : Nat)
    (b v : α) (x : String) :
    NoEvenRoot (.const f v) ∧ NoEvenRoot (.var f x : Expr α) ∧
      (NoEvenRoot (.add f as) ↔ ∀ a ∈ as, NoEvenRoot a) ∧
      (NoEvenRoot (.mul f as) ↔ ∀ a ∈ as, NoEvenRoot a) ∧
      (NoEvenRoot (.minus f l r) ↔ NoEvenRoot l ∧ NoEvenRoot r) ∧
      (NoEvenRoot (.div f l r) ↔ NoEvenRoot l ∧ NoEvenRoot r) ∧
      (NoEvenRoot (.pow f l r) ↔ NoEvenRoot l ∧ NoEvenRoot r) ∧
      (NoEvenRoot (.neg f u) ↔ NoEvenRoot u) ∧ (NoEvenRoot (.recip f u) ↔ NoEvenRoot u) ∧
      (NoEvenRoot (.npow f u n) ↔ NoEvenRoot u) ∧ (NoEvenRoot (.exp f u b) ↔ NoEvenRoot u) ∧
      (NoEvenRoot (.log f u b) ↔ NoEvenRoot u) ∧ (NoEvenRoot (.cos f u) ↔ NoEvenRoot u) ∧
      (NoEvenRoot (.sin f u) ↔ NoEvenRoot u) :=
  ⟨ner_const f v, ner_var f x, ner_add f as, ner_mul f as, ner_minus f l r, ner_div f l r,
    ner_pow f l r, ner_neg f u, ner_recip f u, ner_npow f u n, ner_exp f u b, ner_log f u b,
    ner_cos f u, ner_sin f u⟩

/-- an expression without any `NthRoot` node qualifies -/
theorem noEvenRoot_of_no_nroot {α : Type} (e : Expr α) (h : ∀ f u n, ¬ Sub (.nroot f u n) e) :
    NoEvenRoot e :=
  fun f u n hs => absurd hs (h f u n)

/-- the memo flags do not matter -/
theorem noEvenRoot_flags {α : Type} (g : Flags) (e : Expr α) :
    (NoEvenRoot (e.setFlags g) ↔ NoEvenRoot e) ∧ (NoEvenRoot e.fresh ↔ NoEvenRoot e) :=
  ⟨ner_setFlags g e, ner_fresh e⟩

/-! ## the condition is an invariant (every number instance) -/

/-- **every one of the 46 rewrite rules keeps it** (the rules that create `NthRoot` nodes: `nrootPow`
and `mulNRoots` keep the degree, `nrootNeg`/`nrootRecip` too, `nrootRoot` multiplies two odd degrees,
`npowRoot` divides an odd degree by a gcd) -/
theorem rule_keeps_noEvenRoot {α : Type} (N : Num α) (r : RuleId) (e e' : Expr α)
    (h : r.apply N e = some e') (hs : NoEvenRoot e) : NoEvenRoot e' :=
  ner_rule N r h hs

/-- one step of `_take_reduction_step` (rule, constant fold, child step or flag) -/
theorem step_keeps_noEvenRoot {α : Type} (N : Num α) (e : Expr α) (hs : NoEvenRoot e) :
    NoEvenRoot (stepF N e).1 :=
  ner_stepF N e hs

/-- `_fully_reduce`, every budget (exhaustion included) -/
theorem fully_reduce_keeps_noEvenRoot {α : Type} (N : Num α) (bound : Nat) (e : Expr α)
    (hs : NoEvenRoot e) : NoEvenRoot (fullyReduceWith N bound e).expr :=
  ner_fullyReduceWith N bound hs

/-- the normal-form pass, every budget and fuel -/
theorem norm_reduced_keeps_noEvenRoot {α : Type} (N : Num α) (bound fuel : Nat) (e e' : Expr α)
    (w : Bool) (hs : NoEvenRoot e) (h : normReducedF N bound fuel e = some (e', w)) :
    NoEvenRoot e' :=
  ner_normReducedF N bound fuel hs h

/-- `_normalize`, every budget and fuel -/
theorem normalize_keeps_noEvenRoot {α : Type} (N : Num α) (bound fuel : Nat) (e e' : Expr α)
    (w : Bool) (hs : NoEvenRoot e) (h : normalizeF N bound fuel e = some (e', w)) : NoEvenRoot e' :=
  ner_normalizeF N bound fuel hs h

/-- forward symbolic mode `_synthetic_partial` (the formula of `NthRoot` re-uses the node itself inside
an `NthPower`: same degree) -/
theorem symbolic_partial_keeps_noEvenRoot {α : Type} (N : Num α) (x : String) (e : Expr α)
    (hs : NoEvenRoot e) : NoEvenRoot (symFwd N x e) :=
  ner_symFwd N x e hs

/-- reverse symbolic mode: one traversal `_compute_synthetic_partials` keeps every accumulated
expression free of even roots … -/
theorem reverse_symbolic_traversal_keeps_noEvenRoot {α : Type} (N : Num α) (e m : Expr α)
    (acc : SAcc α) (hs : NoEvenRoot e) (hm : NoEvenRoot m)
    (ha : ∀ y s, SAcc.get? acc y = some s → NoEvenRoot s) :
    ∀ y s, SAcc.get? (symRev N e m acc) y = some s → NoEvenRoot s :=
  NerA_symRev N e m acc hs hm ha

/-- … hence every entry of `_synthetic_partials()` -/
theorem synthetic_partials_keep_noEvenRoot {α : Type} (N : Num α) (e : Expr α) (hs : NoEvenRoot e)
    (y : String) (s : Expr α) (hget : SAcc.get? (syntheticPartials N e) y = some s) :
    NoEvenRoot s :=
  ner_syntheticPartials N hs hget

/-! ## the K1 side conditions hold of every run -/

/-- a redex without even root is not an instance of K1 (whatever the rule) -/
theorem k1FreeAt_of_noEvenRoot (r : RuleId) (e : Expr ℝ) (hs : NoEvenRoot e) : K1FreeAt r e :=
  ner_k1FreeAt r hs

/-- the redex of a step is free of even roots when the stepped expression is -/
theorem step_redex_noEvenRoot (e : Expr ℝ) (hs : NoEvenRoot e) (r : RuleId) (e₀ : Expr ℝ)
    (h : stepRedex e = some (r, e₀)) : NoEvenRoot e₀ :=
  ner_stepRedex e hs r e₀ h

theorem stepOK_of_noEvenRoot (e : Expr ℝ) (hs : NoEvenRoot e) : StepOK K1FreeAt e :=
  ner_stepOK hs

theorem runOK_of_noEvenRoot (bound : Nat) (e : Expr ℝ) (hs : NoEvenRoot e) :
    RunOK K1FreeAt bound e :=
  ner_runOK bound hs

theorem normOK_of_noEvenRoot (bound fuel : Nat) (e : Expr ℝ) (hs : NoEvenRoot e) :
    NormOK K1FreeAt bound fuel e :=
  ner_normOK bound fuel hs

theorem normRedOK_of_noEvenRoot (bound fuel : Nat) (e : Expr ℝ) (hs : NoEvenRoot e) :
    NormRedOK K1FreeAt bound fuel e :=
  ner_normRedOK bound fuel hs

/-! ## C08 without side condition -/

/-- every rule application to a redex without even root refines it -/
theorem rule_sound_of_noEvenRoot (r : RuleId) (e e' : Expr ℝ) (h : r.apply realNum e = some e')
    (hs : NoEvenRoot e) : Refines e e' :=
  ner_rule_refines r h hs

/-- **C08, one step**, unconditional for inputs without even roots -/
theorem step_sound_of_noEvenRoot (e : Expr ℝ) (hs : NoEvenRoot e) :
    Refines e (stepF realNum e).1 :=
  ner_step_refines hs

/-- **C08, `_fully_reduce`**, every budget (the give-up fallback included) -/
theorem fully_reduce_sound_of_noEvenRoot (bound : Nat) (e : Expr ℝ) (hs : NoEvenRoot e) :
    Refines e (fullyReduceWith realNum bound e).expr :=
  ner_fullyReduce_refines bound hs

/-- **C08, the normal-form pass** -/
theorem norm_reduced_sound_of_noEvenRoot (bound fuel : Nat) (e e' : Expr ℝ) (w : Bool)
    (hs : NoEvenRoot e) (h : normReducedF realNum bound fuel e = some (e', w)) : Refines e e' :=
  ner_normReduced_refines bound fuel hs h

/-- **C08, `_normalize`**, every budget and fuel -/
theorem normalize_sound_of_noEvenRoot (bound fuel : Nat) (e e' : Expr ℝ) (w : Bool)
    (hs : NoEvenRoot e) (h : normalizeF realNum bound fuel e = some (e', w)) : Refines e e' :=
  ner_normalize_refines bound fuel hs h

/-- read on the evaluator: a value of the input is a value of the simplified expression -/
theorem normalize_keeps_value_of_noEvenRoot (bound fuel : Nat) (e e' : Expr ℝ) (w : Bool)
    (hs : NoEvenRoot e) (h : normalizeF realNum bound fuel e = some (e', w)) (hwf : WF e)
    (p : Point ℝ) (v : ℝ) (hv : evalG realNum p e = .ok v) : evalG realNum p e' = .ok v :=
  (ner_normalize_refines bound fuel hs h).eval hwf p v hv

/-! ## C05 without side condition -/

/-- **C05, `Partial.as_expression()`** for an original without even roots: everything
`as_expression_sound_partial` states, with no hypothesis about the run — and the returned expression
is again free of even roots, so the statement applies to it once more (second order). -/
theorem as_expression_sound_of_noEvenRoot (e : Expr ℝ) (x : String) (hwf : WF e)
    (hner : NoEvenRoot e) (s : Expr ℝ) (P' : PartialObj ℝ) (w : Bool)
    (h : (PartialObj.mk e x none).asExpression realNum = .ok (s, P', w)) :
    Refines (symFwd realNum x e) s ∧ P' = ⟨e, x, some s⟩ ∧
      WF s ∧ (∀ y, y ∈ s.vars → y ∈ e.vars) ∧ (∀ p : Point ℝ, Supp p e → Supp p s) ∧
      (∀ ρ : String → ℝ, Dom ρ e →
        Dom ρ s ∧ HasDerivAt (fun t => den (upd ρ x t) e) (den ρ s) (ρ x)) ∧
      (∀ p : Point ℝ, Supp p e → Dom (valOf p) e → evalG realNum p s = fwdG realNum p x e) ∧
      NoEvenRoot s :=
  ner_asExpression_sound hwf hner h

/-- `Partial(e, x, compute_early=True)` stores the same normalised expression -/
theorem partial_early_sound_of_noEvenRoot (e : Expr ℝ) (x : String) (hwf : WF e)
    (hner : NoEvenRoot e) (P : PartialObj ℝ) (w : Bool)
    (h : PartialObj.new realNum e x true = .ok (P, w)) :
    ∃ s, P = ⟨e, x, some s⟩ ∧ Refines (symFwd realNum x e) s ∧ WF s ∧ NoEvenRoot s ∧
      (∀ ρ : String → ℝ, Dom ρ e →
        Dom ρ s ∧ HasDerivAt (fun t => den (upd ρ x t) e) (den ρ s) (ρ x)) :=
  ner_partialNew_early_sound hwf hner h

/-- **C05, `Derivative.as_expression()`** -/
theorem derivative_as_expression_sound_of_noEvenRoot (D : DerivativeObj ℝ) (e : Expr ℝ) (x : String)
    (hD : D.partial_ = ⟨e, x, none⟩) (hwf : WF e) (hner : NoEvenRoot e)
    (s : Expr ℝ) (D' : DerivativeObj ℝ) (w : Bool) (h : D.asExpression realNum = .ok (s, D', w)) :
    Refines (symFwd realNum x e) s ∧ D'.partial_ = ⟨e, x, some s⟩ ∧
      WF s ∧ (∀ y, y ∈ s.vars → y ∈ e.vars) ∧ (∀ p : Point ℝ, Supp p e → Supp p s) ∧
      (∀ ρ : String → ℝ, Dom ρ e →
        Dom ρ s ∧ HasDerivAt (fun t => den (upd ρ x t) e) (den ρ s) (ρ x)) ∧
      (∀ p : Point ℝ, Supp p e → Dom (valOf p) e → evalG realNum p s = fwdG realNum p x e) ∧
      NoEvenRoot s :=
  ner_asExpression_sound hwf hner (derivativeAsExpression_late hD h)

/-- **C05r, `Differential(e, compute_early=True)`** for an original without even roots, with no
hypothesis about the runs: the object stores `normalizeAll` of `_synthetic_partials()`; there is no
entry for a name that is not a variable of `e`; for every variable the stored component refines the raw
reverse-mode one and is again well formed and free of even roots; and at every supplied point of the
domain of `e` every stored component evaluates to the forward-mode partial (C03: the true partial
derivative), which is also what `component_at` answers for every name. -/
theorem differential_early_sound_of_noEvenRoot (e : Expr ℝ) (hwf : WF e) (hner : NoEvenRoot e)
    (D : DifferentialObj ℝ) (w : Bool) (hnew : DifferentialObj.new realNum e true = .ok (D, w)) :
    ∃ d, D = ⟨e, some d⟩ ∧ normalizeAll realNum (syntheticPartials realNum e) = .ok (d, w) ∧
      (∀ y, y ∉ e.vars → SAcc.get? d y = none) ∧
      (∀ y ∈ e.vars, ∃ s s', SAcc.get? (syntheticPartials realNum e) y = some s ∧
        SAcc.get? d y = some s' ∧ Refines s s' ∧ WF s' ∧ NoEvenRoot s') ∧
      (∀ p : Point ℝ, Supp p e → Dom (valOf p) e →
        (∀ y s', SAcc.get? d y = some s' → evalG realNum p s' = fwdG realNum p y e) ∧
        ∀ y, D.componentAt realNum y p = fwdG realNum p y e) :=
  ner_differential_early_sound hwf hner hnew

/-- the side condition `hok` of `differential_early_refines / _value / _component_at` (C05) holds -/
theorem differential_early_hok_of_noEvenRoot (e : Expr ℝ) (hner : NoEvenRoot e) : ∀ y s,
    SAcc.get? (syntheticPartials realNum e) y = some s →
      NormOK K1FreeAt REDUCTION_STEPS_BOUND NORMALIZE_FUEL s :=
  ner_syntheticPartials_normOK hner

/-! ## non-vacuity -/

/-- the class is large: a rational function of exponentials, logarithms, trigonometric functions,
general and integer powers — and odd roots, also of even powers, also nested -/
example :
    NoEvenRoot (mkDiv (mkAdd [mkNPow (mkVar "x") 2, mkSin (mkVar "y"), mkConst (3 : ℝ)])
        (mkMul [mkExp (mkVar "x") 2, mkLog (mkPow (mkVar "x") (mkVar "y")) 10,
          mkNRoot (mkNRoot (mkNPow (mkMinus (mkVar "x") (mkConst 1)) 2) 3) 5])) := by
  simp

/-- the rules that build `NthRoot` nodes do fire on such inputs, and keep the degrees odd -/
example : ruleNRootRoot (mkNRoot (mkNRoot (mkVar "x") 3) 5 : Expr ℝ) = some (mkNRoot (mkVar "x") 15) ∧
    ruleNPowRoot (mkNPow (mkNRoot (mkVar "x") 9) 6 : Expr ℝ) = some (mkNPow (mkNRoot (mkVar "x") 3) 2) ∧
    ruleMulNRoots (mkMul [mkNRoot (mkVar "x") 3, mkVar "z", mkNRoot (mkVar "y") 3] : Expr ℝ) =
      some (mkMul [mkVar "z", mkNRoot (mkMul [mkVar "x", mkVar "y"]) 3]) :=
  ⟨rfl, rfl, rfl⟩

/-- **the rule of K1 itself fires, legitimately**: on `NthRoot(NthPower(x, 2), 3)` with flagged
children the redex of the step is the node itself, the rule is `nrootPow`, the input has no even
root, and (by `step_sound_of_noEvenRoot`) the result `NthPower(NthRoot(x, 3), 2)` refines it -/
example :
    let e : Expr ℝ := .nroot {} (.npow { red := true } (.var { red := true } "x") 2) 3
    NoEvenRoot e ∧ stepRedex e = some (.nrootPow, e) ∧
      stepF realNum e = (mkNPow (mkNRoot (.var { red := true } "x") 3) 2, .rule .nrootPow) ∧
      Refines e (mkNPow (mkNRoot (.var { red := true } "x") 3) 2) := by
  intro e
  have hner : NoEvenRoot e := by simp [e]
  have hstep : stepF realNum e =
      (mkNPow (mkNRoot (.var { red := true } "x") 3) 2, .rule .nrootPow) := by
    simp [e, stepF, stepNode, stepTop, isRed, Expr.flags, foldAttempt, vars, varsAux, reducers,
      firstRule, RuleId.apply, ruleNRootOne, ruleNRootPow]
  refine ⟨hner, ?_, hstep, ?_⟩
  · simp [e, stepRedex, nodeRedex, isRed, Expr.flags, foldAttempt, vars, varsAux, reducers,
      firstRule, RuleId.apply, ruleNRootOne, ruleNRootPow]
  · have := step_sound_of_noEvenRoot e hner
    rwa [hstep] at this

/-- the hypotheses of `normalize_sound_of_noEvenRoot` are satisfiable with the library's own budget
and fuel: `NthRoot(NthPower(x, 2), 3)._normalize()` runs five steps (one of them the rule `nrootPow`)
without warning and returns `NthPower(NthRoot(x, 3), 2)` -/
example :
    let e : Expr ℝ := mkNRoot (mkNPow (mkVar "x") 2) 3
    NoEvenRoot e ∧ WF e ∧
      normalize realNum e = some (mkNPow (mkNRoot (mkVar "x") 3) 2, false) ∧
      StepEvent.rule .nrootPow ∈ (fullyReduce realNum e).trace :=
  ⟨by simp, by simp [WF], by rfl, by decide⟩

/-- the hypotheses of `as_expression_sound_of_noEvenRoot` are satisfiable:
`Partial(x * sin x, "x").as_expression()` over the reals (run replayed in Proofs/SymForwardRun) -/
example :
    let e : Expr ℝ := mkMul [mkVar "x", mkSin (mkVar "x")]
    let s : Expr ℝ := mkAdd [mkSin (mkVar "x"), mkMul [mkCos (mkVar "x"), mkVar "x"]]
    WF e ∧ NoEvenRoot e ∧
      (PartialObj.mk e "x" none).asExpression realNum = .ok (s, ⟨e, "x", some s⟩, false) :=
  ⟨by simp [WF, WFList], by simp, runXsin_asExpression⟩

/-- the hypotheses of `differential_early_sound_of_noEvenRoot` are satisfiable:
`Differential(x · y, compute_early=True)` (run replayed in Proofs/SymReverse) -/
example :
    let e : Expr ℝ := mkMul [mkVar "x", mkVar "y"]
    WF e ∧ NoEvenRoot e ∧
      DifferentialObj.new realNum e true = .ok (⟨e, some [("x", mkVar "y"), ("y", mkVar "x")]⟩, false) ∧
      Supp [("y", 2), ("x", 3)] e ∧ Dom (valOf [("y", 2), ("x", 3)]) e :=
  ⟨by simp [WF, WFList], by simp, symrevEx_differential "x" "y" (by decide),
    by simp [Supp, SuppList, Point.get?], by simp [Dom, DomList]⟩

/-- symbolic differentiation of an odd root does build a new `NthRoot`-containing expression (the node
itself inside an `NthPower`), of the same odd degree -/
example : symFwd realNum "x" (mkNRoot (mkVar "x") 3 : Expr ℝ) =
      mkDiv (mkConst 1) (mkMul [mkConst 3, mkNPow (mkNRoot (mkVar "x") 3) 2]) ∧
    NoEvenRoot (symFwd realNum "x" (mkNRoot (mkVar "x") 3 : Expr ℝ)) :=
  ⟨by simp [symFwd, unarySymFormula], ner_symFwd _ _ _ (by simp)⟩

/-! ## the condition is sufficient, not necessary -/

/-- an even root of an ODD power is not a K1 redex: `nrootPow` fires on `NthRoot(NthPower(x, 3), 2)`,
the K1 side condition holds and the rewrite is sound — but the syntactic condition excludes it -/
example :
    let e : Expr ℝ := mkNRoot (mkNPow (mkVar "x") 3) 2
    RuleId.nrootPow.apply realNum e = some (mkNPow (mkNRoot (mkVar "x") 2) 3) ∧
      K1FreeAt .nrootPow e ∧ Refines e (mkNPow (mkNRoot (mkVar "x") 2) 3) ∧ ¬ NoEvenRoot e := by
  intro e
  have hk : K1FreeAt .nrootPow e := by simp [e, K1FreeAt, K1Free]
  exact ⟨rfl, hk, ner_rulesSound _ _ _ rfl hk, by simp [e]⟩

/-- an even root outside any K1 redex: for `NthRoot(x, 2)` the K1 side condition holds of the whole
`_normalize` run, for every budget and fuel (so `normalize_sound_partial` of C08 applies), although
`NoEvenRoot` fails -/
theorem even_root_outside_K1 :
    ¬ NoEvenRoot (mkNRoot (mkVar "x") 2 : Expr ℝ) ∧
      ∀ bound fuel, NormOK K1FreeAt bound fuel (mkNRoot (mkVar "x") 2 : Expr ℝ) :=
  ⟨nerExSqrt_not_ner, fun bound fuel => nerExSqrt_normOK bound fuel⟩

/-- … while on the K1 witness itself (`NthRoot(NthPower(x, 2), 2)`, where the rewrite IS unsound) the
syntactic condition fails, as it must -/
example : ¬ NoEvenRoot (mkNRoot (mkNPow (mkVar "x") 2) 2 : Expr ℝ) := by simp

end Smooth
