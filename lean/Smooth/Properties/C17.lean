/-
C17 — Only the library's own errors escape, and results are real numbers.

The model makes "a Python arithmetic error would have escaped here" an observable outcome:
`.error .zeroDiv` (`/` by zero), `.error .valueErr` (`math.sqrt`/`math.log` outside their domain),
`.error .complex` (a negative number to a fractional power).  These theorems say none of them — nor
`usage`, `unsupported`, `fuel` — is ever the outcome of evaluation, forward mode or reverse mode,
at any point whatsoever (inside, outside or on the boundary of the domain, with or without missing
coordinates); and a successful outcome is `.ok` of a real number by the type of the model.
Overflow, recursion depth and memory are outside the model (no real-number model exhibits them).
-/
import Smooth.Proofs.Reverse
import Smooth.Model.Objects

namespace Smooth
open Expr

/-- **C17, evaluation.** -/
theorem eval_error_kinds (p : Point ℝ) (e : Expr ℝ) (hwf : WF e) (err : Err)
    (h : evalG realNum p e = .error err) : err = .domain ∨ err = .missing :=
  (evalR_good p e hwf).error_cases h

/-- **C17, forward mode** (`Partial.at`, `Derivative.at`, `component_at`, late). -/
theorem fwd_error_kinds (p : Point ℝ) (x : String) (e : Expr ℝ) (hwf : WF e) (err : Err)
    (h : fwdG realNum p x e = .error err) : err = .domain ∨ err = .missing :=
  (fwdR_spec p x e hwf).2.2 err h

/-- **C17, reverse mode** (`LocatedDifferential`, `Differential.at`, late). -/
theorem rev_error_kinds (p : Point ℝ) (e : Expr ℝ) (hwf : WF e) (m : ℝ) (acc : Acc ℝ) (err : Err)
    (h : revG realNum p e m acc = .error err) : err = .domain ∨ err = .missing :=
  (revR_spec p e hwf m acc).2.2 err h

theorem numericPartials_error_kinds (p : Point ℝ) (e : Expr ℝ) (hwf : WF e) (err : Err)
    (h : numericPartials realNum p e = .error err) : err = .domain ∨ err = .missing := by
  simp only [numericPartials, realNum_one] at h
  cases hr : revG realNum p e 1 [] with
  | error e1 =>
    simp only [hr, bind, Except.bind] at h
    injection h with h; subst h
    exact rev_error_kinds p e hwf _ _ _ hr
  | ok a => simp [hr, bind, Except.bind, pure, Except.pure] at h

/-- in particular no CPython-level error is ever produced -/
theorem no_python_error (p : Point ℝ) (x : String) (e : Expr ℝ) (hwf : WF e) :
    (∀ k ∈ [Err.zeroDiv, .valueErr, .complex, .usage, .unsupported, .fuel],
      evalG realNum p e ≠ .error k ∧ fwdG realNum p x e ≠ .error k ∧
      ∀ m acc, revG realNum p e m acc ≠ .error k) := by
  intro k hk
  refine ⟨fun h => ?_, fun h => ?_, fun m acc h => ?_⟩
  · rcases eval_error_kinds p e hwf k h with rfl | rfl <;> simp at hk
  · rcases fwd_error_kinds p x e hwf k h with rfl | rfl <;> simp at hk
  · rcases rev_error_kinds p e hwf m acc k h with rfl | rfl <;> simp at hk

/-- the bare-number entry point adds exactly one more outcome, the documented generic exception for
expressions with two or more variables -/
theorem atNumber_error_kinds (e : Expr ℝ) (hwf : WF e) (t : ℝ) (err : Err)
    (h : atNumber realNum e t = .error err) : err = .domain ∨ err = .missing ∨ err = .usage := by
  unfold atNumber at h
  cases hs : singleVarName e with
  | error e1 =>
    simp only [hs, bind, Except.bind] at h
    injection h with h; subst h
    unfold singleVarName at hs
    split at hs <;> cases hs <;> simp
  | ok x =>
    simp only [hs, bind, Except.bind] at h
    rcases eval_error_kinds _ e hwf err h with h | h
    · exact Or.inl h
    · exact Or.inr (Or.inl h)

/-- non-vacuity: an expression whose derivative formulas divide, take logarithms and fractional
powers, at a boundary point with a coordinate missing -/
example : WF (mkDiv (mkNRoot (mkVar "x") 3) (mkLog (mkVar "y") (1 / 2)) : Expr ℝ) := by
  simp [WF]

end Smooth
