/-
C18 — the same expression and point always produce the same outcome whatever the order in which a
point's coordinates were written or variables were created; no answer depends on set or dictionary
iteration order.

In the model every Python `dict`/`set` is a *list*, so that an iteration order exists and a
dependence on it would be expressible: a point is an association list (`Point α`, read by
`Point.get?`), the variable set is the list `e.vars` (first-occurrence order), the accumulators of
reverse mode are association lists (`Acc`, `SAcc`).  The theorems say that permuting any of these
lists changes no outcome — value, error or dictionary entry.  All statements are generic in the
number instance `N : Num α` (reals, rationals, doubles alike).

`symFwd`, the rewrite rules, `stepF`, `fullyReduceLoop`, `normalizeF` take neither a point nor a
variable list nor an accumulator: there is no order parameter they could depend on, and nothing to
state (the n-ary operand lists are sequences in Python, too).  Object identities (`Flags.id`, which
depend on creation order) are ignored by every semantic function by construction of the model.
-/
import Smooth.Proofs.Order

namespace Smooth
open Expr
variable {α : Type}

/-! ### the order in which a point's coordinates are written -/

/-- **C18, evaluation.**  Two points with the same lookups give the same outcome (value or error). -/
theorem eval_same_lookups (N : Num α) {p q : Point α} (h : ∀ x, p.get? x = q.get? x)
    (e : Expr α) : evalG N p e = evalG N q e :=
  evalG_congr_point N h e

/-- … forward-mode partial derivative -/
theorem fwd_same_lookups (N : Num α) {p q : Point α} (h : ∀ x, p.get? x = q.get? x)
    (x : String) (e : Expr α) : fwdG N p x e = fwdG N q x e :=
  fwdG_congr_point N h x e

/-- … reverse mode, from any multiplier and accumulator -/
theorem rev_same_lookups (N : Num α) {p q : Point α} (h : ∀ x, p.get? x = q.get? x)
    (e : Expr α) (m : α) (acc : Acc α) : revG N p e m acc = revG N q e m acc :=
  revG_congr_point N h e m acc

/-- … all numeric partials at once -/
theorem numericPartials_same_lookups (N : Num α) {p q : Point α}
    (h : ∀ x, p.get? x = q.get? x) (e : Expr α) :
    numericPartials N p e = numericPartials N q e :=
  numericPartials_congr_point N h e

/-- Writing the coordinates (distinct names) in another order does not change any lookup. -/
theorem point_lookup_perm {p q : Point α} (h : p.Perm q) (hnd : p.names.Nodup) (x : String) :
    p.get? x = q.get? x :=
  Point.get?_perm h hnd x

/-- **C18, evaluation at a re-ordered point.** -/
theorem eval_perm (N : Num α) {p q : Point α} (h : p.Perm q) (hnd : p.names.Nodup)
    (e : Expr α) : evalG N p e = evalG N q e :=
  evalG_perm N h hnd e

theorem fwd_perm (N : Num α) {p q : Point α} (h : p.Perm q) (hnd : p.names.Nodup)
    (x : String) (e : Expr α) : fwdG N p x e = fwdG N q x e :=
  fwdG_perm N h hnd x e

theorem rev_perm (N : Num α) {p q : Point α} (h : p.Perm q) (hnd : p.names.Nodup)
    (e : Expr α) (m : α) (acc : Acc α) : revG N p e m acc = revG N q e m acc :=
  revG_perm N h hnd e m acc

theorem numericPartials_perm_point (N : Num α) {p q : Point α} (h : p.Perm q)
    (hnd : p.names.Nodup) (e : Expr α) : numericPartials N p e = numericPartials N q e :=
  numericPartials_perm N h hnd e

/-- the hypothesis is met by a genuinely re-ordered point … -/
example : ∃ p q : Point ℝ, p ≠ q ∧ p.Perm q ∧ p.names.Nodup :=
  ⟨[("x", 1), ("y", 2)], [("y", 2), ("x", 1)], by simp, List.Perm.swap _ _ _,
    by simp [Point.names]⟩

/-- … and `Nodup` cannot be dropped: with a repeated name the first entry wins.  (Python keyword
arguments and dictionary keys are distinct, so such a point does not exist there.) -/
example : ∃ p q : Point ℝ, p.Perm q ∧ p.get? "x" ≠ q.get? "x" :=
  ⟨[("x", 1), ("x", 2)], [("x", 2), ("x", 1)], List.Perm.swap _ _ _, by simp [Point.get?]⟩

/-! ### `Expression.at(number)` -/

/-- the single variable is found whatever the order in which the variable set is listed -/
theorem single_variable_perm {vs vs' : List String} (h : vs'.Perm vs) :
    singleOf vs' = singleOf vs :=
  singleOf_perm h

/-- `singleOf` is the model's `get_the_single_variable_name` -/
theorem single_variable_is_model (e : Expr α) : singleVarName e = singleOf e.vars :=
  singleVarName_eq_singleOf e

/-- `at(number)` is evaluation at any point, with any other coordinates in any order, that gives
the number to the variable of the expression -/
theorem at_number_any_point (N : Num α) (e : Expr α) (t : α) (p : Point α)
    (hlen : e.vars.length ≤ 1) (hp : ∀ x, Occurs x e → p.get? x = some t) :
    atNumber N e t = evalG N p e :=
  atNumber_eq_evalG N e t p hlen hp

example : ∃ (e : Expr ℝ) (p : Point ℝ), e.vars.length ≤ 1 ∧ p.length = 2 ∧
    ∀ x, Occurs x e → p.get? x = some 3 :=
  ⟨mkMul [mkVar "x", mkSin (mkVar "x")], [("y", 5), ("x", 3)],
    by simp [Expr.vars, varsAux, varsAuxList], rfl, by
      intro x hx
      have : x = "x" := by simpa [Occurs, OccursList, eq_comm] using hx
      subst this
      simp [Point.get?]⟩

/-! ### the order in which the variable set is listed at read-back -/

/-- `numericPartialsOver N p e vs` is `_numeric_partials` reading back over the listing `vs` of the
variable set; the model reads back over `e.vars`. -/
theorem numericPartials_is_over (N : Num α) (p : Point α) (e : Expr α) :
    numericPartials N p e = numericPartialsOver N p e e.vars :=
  numericPartials_eq_over N p e

/-- **C18, read-back.**  Whatever the order in which the variable set is iterated, the outcome is
the same error, or a dictionary with the same entry under every name. -/
theorem numericPartials_listing_order (N : Num α) (p : Point α) (e : Expr α)
    {vs' : List String} (h : vs'.Perm e.vars) (x : String) :
    (numericPartialsOver N p e vs').map (fun d => Acc.get? d x) =
      (numericPartials N p e).map (fun d => Acc.get? d x) :=
  numericPartialsOver_perm N p e h x

/-- both orders at once: re-ordered point, re-ordered variable set -/
theorem numericPartials_order_independent (N : Num α) {p q : Point α} (hp : p.Perm q)
    (hnd : p.names.Nodup) (e : Expr α) {vs' : List String} (h : vs'.Perm e.vars) (x : String) :
    (numericPartialsOver N q e vs').map (fun d => Acc.get? d x) =
      (numericPartials N p e).map (fun d => Acc.get? d x) := by
  rw [numericPartials_perm N hp hnd e]
  exact numericPartialsOver_perm N q e h x

/-- what a name finds in a read-back: the accumulated value (default `0`) if it is listed, nothing
otherwise — the position in the listing leaves no trace -/
theorem readBack_lookup (N : Num α) (acc : Acc α) (vs : List String) (x : String) :
    Acc.get? (readBack N acc vs) x =
      if x ∈ vs then some ((acc.get? x).getD N.zero) else none :=
  get?_readBack N acc vs x

/-- the accumulator of reverse mode is itself used only through its lookups: two accumulators with
the same entries (in any order) lead to the same error or to accumulators with the same entries -/
theorem rev_accumulator_order (N : Num α) (p : Point α) (e : Expr α) (m : α) {a b : Acc α}
    (h : AccEq a b) : AccRel (revG N p e m a) (revG N p e m b) :=
  revG_congr_acc N p e m a b h

/-- `syntheticPartialsOver N e vs` is `_synthetic_partials` reading back over the listing `vs` -/
theorem syntheticPartials_is_over (N : Num α) (e : Expr α) :
    syntheticPartials N e = syntheticPartialsOver N e e.vars :=
  syntheticPartials_eq_over N e

/-- **C18, symbolic read-back.**  The expression found under every name does not depend on the
order in which the variable set is iterated. -/
theorem syntheticPartials_listing_order (N : Num α) (e : Expr α) {vs' : List String}
    (h : vs'.Perm e.vars) (x : String) :
    SAcc.get? (syntheticPartialsOver N e vs') x = SAcc.get? (syntheticPartials N e) x :=
  syntheticPartialsOver_perm N e h x

/-- a genuinely different listing of a two-variable expression's variable set -/
example : ∃ (e : Expr ℝ) (vs' : List String), vs' ≠ e.vars ∧ vs'.Perm e.vars :=
  ⟨mkDiv (mkVar "x") (mkMul [mkVar "y", mkVar "x"]), ["y", "x"],
    by simp [Expr.vars, varsAux, varsAuxList],
    by simpa [Expr.vars, varsAux, varsAuxList] using List.Perm.swap "x" "y" []⟩

/-- accumulators with the same entries in a different order -/
example : ∃ a b : Acc ℝ, a ≠ b ∧ AccEq a b :=
  ⟨[("x", 1), ("y", 2)], [("y", 2), ("x", 1)], by simp, fun x =>
    Point.get?_perm (List.Perm.swap _ _ _) (by simp [Point.names]) x⟩

/-! ### differentiation creates no variable (used by C05 and C14) -/

theorem symFwd_vars_subset (N : Num α) (x : String) (e : Expr α) {x' : String}
    (h : x' ∈ (symFwd N x e).vars) : x' ∈ e.vars :=
  vars_symFwd_subset N x e h

end Smooth
