/-
C09 — history independence: the `_value` memo never changes an answer.

The result of any evaluation or derivative query depends only on the expression and the point, never
on history: earlier evaluations at other points, earlier calls that failed part-way, or other
expressions that share sub-expression objects.

Model/Heap: object identity is `Flags.id`; a DAG is a tree in which the shared object occurs several
times with the same id; the `_value` fields of all objects form a `Store` (`id ↦ value`).  All history
is the store the query starts from.  The public entry points (`atS`, `partialAtS`,
`numericPartialsS` = reset, then `evalS`/`fwdS`/`revS`) are compared with the pure functions of
Model/Eval and Model/Numeric (`evalG`, `fwdG`, `numericPartials`), which have no state at all.
The theorems quantify over EVERY initial store — stale values of the expression's own objects from
runs at other points or from runs that raised half-way, entries of foreign objects, anything — and
over every number instance `N`.

The one hypothesis, `IdsOK e` (well-formed sharing): two memo-carrying sub-nodes of `e` with the same
id are the same sub-tree up to flags — in Python, the same object.  It is necessary (`exClash` below).
-/
import Smooth.Proofs.Heap
import Smooth.Model.Instances

namespace Smooth
open Expr
variable {α : Type}

/-- **C09 (evaluation).**  `Expression.at(point)` started from an arbitrary memo store returns
exactly what the memo-free evaluator returns: same value, or same error. -/
theorem at_history_independent (N : Num α) (p : Point α) {e : Expr α} (hid : IdsOK e)
    (st : Store α) : atS N p e st = evalG N p e :=
  at_refines N p hid st

/-- **C09 (forward mode).**  the numeric `Partial.at(point)` likewise -/
theorem partialAt_history_independent (N : Num α) (p : Point α) (x : String) {e : Expr α}
    (hid : IdsOK e) (st : Store α) : partialAtS N p x e st = fwdG N p x e :=
  partialAt_refines N p x hid st

/-- **C09 (reverse mode).**  `_numeric_partials(point)` likewise -/
theorem numericPartials_history_independent (N : Num α) (p : Point α) {e : Expr α}
    (hid : IdsOK e) (st : Store α) : numericPartialsS N p e st = numericPartials N p e :=
  numericPartials_refines N p hid st

/-- two histories, one answer -/
theorem at_any_two_histories (N : Num α) (p : Point α) {e : Expr α} (hid : IdsOK e)
    (st₁ st₂ : Store α) : atS N p e st₁ = atS N p e st₂ := by
  rw [at_refines N p hid, at_refines N p hid]

/-- in particular after an earlier evaluation of ANOTHER expression `e'` (which may share objects
with `e`) at ANOTHER point `p'`, itself started from any store -/
theorem at_after_other_evaluation (N : Num α) (p p' : Point α) {e : Expr α} (e' : Expr α)
    (hid : IdsOK e) (st₀ st₁ : Store α) (v' : α) (_h : evalS N p' e' st₀ = .ok (v', st₁)) :
    atS N p e st₁ = evalG N p e :=
  at_refines N p hid st₁

/-- … and after earlier derivative queries -/
theorem at_after_other_partials (N : Num α) (p p' : Point α) {e : Expr α} (e' : Expr α)
    (hid : IdsOK e) (st₀ st₁ : Store α) (m : α) (acc acc' : Acc α)
    (_h : revS N p' e' m acc st₀ = .ok (acc', st₁)) :
    atS N p e st₁ = evalG N p e ∧ numericPartialsS N p e st₁ = numericPartials N p e :=
  ⟨at_refines N p hid st₁, numericPartials_refines N p hid st₁⟩

/-- **The memo invariant behind it** (`_evaluate` itself, no reset): started in a store that is
consistent at `p` on the objects of `e` (every memo entry of an object of `e` holds that object's
value at `p`; entries at foreign ids are arbitrary), `evalS` returns the pure value, leaves a
consistent store that extends the old one by entries of `e`'s own objects — and if it raises, it
raises the pure evaluator's error. -/
theorem eval_memo_refines (N : Num α) (p : Point α) {e : Expr α} (hid : IdsOK e) {st : Store α}
    (hc : Cons N p e st) :
    (∀ v st', evalS N p e st = .ok (v, st') →
        evalG N p e = .ok v ∧ Cons N p e st' ∧ Ext (memoIds e) st st') ∧
    (∀ err, evalS N p e st = .error err → evalG N p e = .error err) :=
  evalS_refines N p hid hc

/-- the same for `_numeric_partial` … -/
theorem fwd_memo_refines (N : Num α) (p : Point α) (x : String) {e : Expr α} (hid : IdsOK e)
    {st : Store α} (hc : Cons N p e st) :
    (∀ v st', fwdS N p x e st = .ok (v, st') →
        fwdG N p x e = .ok v ∧ Cons N p e st' ∧ Ext (memoIds e) st st') ∧
    (∀ err, fwdS N p x e st = .error err → fwdG N p x e = .error err) :=
  fwdS_refines N p x hid hc

/-- … and for `_compute_numeric_partials` -/
theorem rev_memo_refines (N : Num α) (p : Point α) {e : Expr α} (hid : IdsOK e) (m : α)
    (acc : Acc α) {st : Store α} (hc : Cons N p e st) :
    (∀ acc' st', revS N p e m acc st = .ok (acc', st') →
        revG N p e m acc = .ok acc' ∧ Cons N p e st' ∧ Ext (memoIds e) st st') ∧
    (∀ err, revS N p e m acc st = .error err → revG N p e m acc = .error err) :=
  revS_refines N p hid m acc hc

/-- the reset establishes the invariant from any store -/
theorem reset_consistent (N : Num α) (p : Point α) (e : Expr α) (st : Store α) :
    Cons N p e (resetS e st) :=
  cons_resetS N p e st

/-- trees without sharing are well-formed -/
theorem idsOK_of_distinct_ids {e : Expr α} (h : (memoIds e).Nodup) : IdsOK e :=
  idsOK_of_nodup h

/-! ### non-vacuity and sharpness

`exDag one` is the DAG `s * s` with the ONE object `s = x + 1` (id 1) occurring twice under the
product (id 2).  `intNum` is a toy exact instance over `Int` so that runs reduce by `rfl`. -/

/-- the hypothesis holds of a genuine DAG (same id twice), over every number type -/
example (one : α) : IdsOK (exDag one) ∧ memoIds (exDag one) = [2, 1, 1] :=
  ⟨exDag_idsOK one, rfl⟩

/-- the theorem applied to it with a stale store (wrong values at both own ids, a foreign entry),
over the exact-rational instance of the correspondence driver -/
example : atS qeNum [("x", ⟨3, true⟩)] (exDag ⟨1, true⟩)
      [(1, ⟨100, true⟩), (2, ⟨7, true⟩), (99, ⟨5, true⟩)]
    = evalG qeNum [("x", ⟨3, true⟩)] (exDag ⟨1, true⟩) :=
  at_history_independent qeNum _ (exDag_idsOK _) _

/-- the same run computed: `(3 + 1) * (3 + 1) = 16`, not the stale `7` -/
example : atS intNum [("x", 3)] (exDag 1) [(1, 100), (2, 7), (99, 5)] = .ok 16 ∧
    evalG intNum [("x", 3)] (exDag 1) = .ok 16 := ⟨rfl, rfl⟩

/-- the stale store is not consistent, and the theorem is not trivial: without the reset, `_evaluate`
itself returns the stale memo of the root, or squares the stale memo of the shared child -/
example : (evalS intNum [("x", 3)] (exDag 1) [(1, 100), (2, 7), (99, 5)]).map (·.1) = .ok 7 ∧
    (evalS intNum [("x", 3)] (exDag 1) [(1, 100), (99, 5)]).map (·.1) = .ok 10000 := ⟨rfl, rfl⟩

/-- a consistent non-empty store: the memo of the shared child is hit, the answer is right -/
example : Cons intNum [("x", 3)] (exDag 1) [(1, 4), (99, 5)] ∧
    evalS intNum [("x", 3)] (exDag 1) [(1, 4), (99, 5)] = .ok (16, [(2, 16), (1, 4), (99, 5)]) := by
  refine ⟨?_, rfl⟩
  intro u hu v hv
  simp only [exDag, exS, memoSubs, memoSubsList, List.append_nil, List.cons_append,
    List.nil_append, List.mem_cons, List.not_mem_nil, or_false] at hu
  rcases hu with rfl | rfl | rfl <;> cases hv <;> rfl

/-- `IdsOK` is necessary: `exClash = (-x) + x ** 2` with both children carrying id 1 — the second
child hits the first child's memo — evaluates to `-6` instead of `6`, from the EMPTY store -/
example : atS intNum [("x", 3)] exClash [] = .ok (-6) ∧ evalG intNum [("x", 3)] exClash = .ok 6 ∧
    ¬ IdsOK exClash := by
  refine ⟨rfl, rfl, fun h => ?_⟩
  have this : (Except.ok (-6) : R Int) = .ok 6 := at_refines intNum [("x", 3)] h []
  exact absurd (Except.ok.inj this) (by decide)

end Smooth
