/-
C09 — history independence: the `_value` memo never changes an answer.

The result of any evaluation or derivative query depends only on the expression and the point, never
on history: earlier evaluations at other points, earlier calls that failed part-way, or other
expressions that share sub-expression objects.

Model/Heap: object identity is `Flags.id`; a DAG is a tree in which the shared object occurs several
times with the same id; the `_value` fields of all objects form a `Store` (`id ↦ value`).  All history
is the store the query starts from.  The public entry points (`atS`, `partialAtS`,
`numericPartialsS` = reset, then `evalS`/`fwdS`/`revS`) are compared with the pure functions of
Model/Eval and Model/Numeric (`evalG`, `fwdG`, `numericPartials`), which have no state at all.
The theorems quantify over EVERY initial store — stale values of the expression's own objects from
runs at other points or from runs that raised half-way, entries of foreign objects, anything — and
over every number instance `N`.

The one hypothesis, `IdsOK e` (well-formed sharing): two memo-carrying sub-nodes of `e` with the same
id are the same sub-tree up to flags — in Python, the same object.  It is necessary (`exClash` below).
-/
import Smooth.Proofs.Heap
import Smooth.Model.Instances
import Smooth.Proofs.FlagIndepNorm

namespace Smooth
open Expr
variable {α : Type}

/-- **C09 (evaluation).**  `Expression.at(point)` started from an arbitrary memo store returns
exactly what the memo-free evaluator returns: same value, or same error. -/
theorem at_history_independent (N : Num α) (p : Point α) {e : Expr α} (hid : IdsOK e)
    (st : Store α) : atS N p e st = evalG N p e :=
  at_refines N p hid st

/-- **C09 (forward mode).**  the numeric `Partial.at(point)` likewise -/
theorem partialAt_history_independent (N : Num α) (p : Point α) (x : String) {e : Expr α}
    (hid : IdsOK e) (st : Store α) : partialAtS N p x e st = fwdG N p x e :=
  partialAt_refines N p x hid st

/-- **C09 (reverse mode).**  `_numeric_partials(point)` likewise -/
theorem numericPartials_history_independent (N : Num α) (p : Point α) {e : Expr α}
    (hid : IdsOK e) (st : Store α) : numericPartialsS N p e st = numericPartials N p e :=
  numericPartials_refines N p hid st

/-- two histories, one answer -/
theorem at_any_two_histories (N : Num α) (p : Point α) {e : Expr α} (hid : IdsOK e)
    (st₁ st₂ : Store α) : atS N p e st₁ = atS N p e st₂ := by
  rw [at_refines N p hid, at_refines N p hid]

/-- in particular after an earlier evaluation of ANOTHER expression `e'` (which may share objects
with `e`) at ANOTHER point `p'`, itself started from any store -/
theorem at_after_other_evaluation (N : Num α) (p p' : Point α) {e : Expr α} (e' : Expr α)
    (hid : IdsOK e) (st₀ st₁ : Store α) (v' : α) (_h : evalS N p' e' st₀ = .ok (v', st₁)) :
    atS N p e st₁ = evalG N p e :=
  at_refines N p hid st₁

/-- … and after earlier derivative queries -/
theorem at_after_other_partials (N : Num α) (p p' : Point α) {e : Expr α} (e' : Expr α)
    (hid : IdsOK e) (st₀ st₁ : Store α) (m : α) (acc acc' : Acc α)
    (_h : revS N p' e' m acc st₀ = .ok (acc', st₁)) :
    atS N p e st₁ = evalG N p e ∧ numericPartialsS N p e st₁ = numericPartials N p e :=
  ⟨at_refines N p hid st₁, numericPartials_refines N p hid st₁⟩

/-- **The memo invariant behind it** (`_evaluate` itself, no reset): started in a store that is
consistent at `p` on the objects of `e` (every memo entry of an object of `e` holds that object's
value at `p`; entries at foreign ids are arbitrary), `evalS` returns the pure value, leaves a
consistent store that extends the old one by entries of `e`'s own objects — and if it raises, it
raises the pure evaluator's error. -/
theorem eval_memo_refines (N : Num α) (p : Point α) {e : Expr α} (hid : IdsOK e) {st : Store α}
    (hc : Cons N p e st) :
    (∀ v st', evalS N p e st = .ok (v, st') →
        evalG N p e = .ok v ∧ Cons N p e st' ∧ Ext (memoIds e) st st') ∧
    (∀ err, evalS N p e st = .error err → evalG N p e = .error err) :=
  evalS_refines N p hid hc

/-- the same for `_numeric_partial` … -/
theorem fwd_memo_refines (N : Num α) (p : Point α) (x : String) {e : Expr α} (hid : IdsOK e)
    {st : Store α} (hc : Cons N p e st) :
    (∀ v st', fwdS N p x e st = .ok (v, st') →
        fwdG N p x e = .ok v ∧ Cons N p e st' ∧ Ext (memoIds e) st st') ∧
    (∀ err, fwdS N p x e st = .error err → fwdG N p x e = .error err) :=
  fwdS_refines N p x hid hc

/-- … and for `_compute_numeric_partials` -/
theorem rev_memo_refines (N : Num α) (p : Point α) {e : Expr α} (hid : IdsOK e) (m : α)
    (acc : Acc α) {st : Store α} (hc : Cons N p e st) :
    (∀ acc' st', revS N p e m acc st = .ok (acc', st') →
        revG N p e m acc = .ok acc' ∧ Cons N p e st' ∧ Ext (memoIds e) st st') ∧
    (∀ err, revS N p e m acc st = .error err → revG N p e m acc = .error err) :=
  revS_refines N p hid m acc hc

/-- the reset establishes the invariant from any store -/
theorem reset_consistent (N : Num α) (p : Point α) (e : Expr α) (st : Store α) :
    Cons N p e (resetS e st) :=
  cons_resetS N p e st

/-- trees without sharing are well-formed -/
theorem idsOK_of_distinct_ids {e : Expr α} (h : (memoIds e).Nodup) : IdsOK e :=
  idsOK_of_nodup h

/-! ### non-vacuity and sharpness

`exDag one` is the DAG `s * s` with the ONE object `s = x + 1` (id 1) occurring twice under the
product (id 2).  `intNum` is a toy exact instance over `Int` so that runs reduce by `rfl`. -/

/-- the hypothesis holds of a genuine DAG (same id twice), over every number type -/
example (one : α) : IdsOK (exDag one) ∧ memoIds (exDag one) = [2, 1, 1] :=
  ⟨exDag_idsOK one, rfl⟩

/-- the theorem applied to it with a stale store (wrong values at both own ids, a foreign entry),
over the exact-rational instance of the correspondence driver -/
example : atS qeNum [("x", ⟨3, true⟩)] (exDag ⟨1, true⟩)
      [(1, ⟨100, true⟩), (2, ⟨7, true⟩), (99, ⟨5, true⟩)]
    = evalG qeNum [("x", ⟨3, true⟩)] (exDag ⟨1, true⟩) :=
  at_history_independent qeNum _ (exDag_idsOK _) _

/-- the same run computed: `(3 + 1) * (3 + 1) = 16`, not the stale `7` -/
example : atS intNum [("x", 3)] (exDag 1) [(1, 100), (2, 7), (99, 5)] = .ok 16 ∧
    evalG intNum [("x", 3)] (exDag 1) = .ok 16 := ⟨rfl, rfl⟩

/-- the stale store is not consistent, and the theorem is not trivial: without the reset, `_evaluate`
itself returns the stale memo of the root, or squares the stale memo of the shared child -/
example : (evalS intNum [("x", 3)] (exDag 1) [(1, 100), (2, 7), (99, 5)]).map (·.1) = .ok 7 ∧
    (evalS intNum [("x", 3)] (exDag 1) [(1, 100), (99, 5)]).map (·.1) = .ok 10000 := ⟨rfl, rfl⟩

/-- a consistent non-empty store: the memo of the shared child is hit, the answer is right -/
example : Cons intNum [("x", 3)] (exDag 1) [(1, 4), (99, 5)] ∧
    evalS intNum [("x", 3)] (exDag 1) [(1, 4), (99, 5)] = .ok (16, [(2, 16), (1, 4), (99, 5)]) := by
  refine ⟨?_, rfl⟩
  intro u hu v hv
  simp only [exDag, exS, memoSubs, memoSubsList, List.append_nil, List.cons_append,
    List.nil_append, List.mem_cons, List.not_mem_nil, or_false] at hu
  rcases hu with rfl | rfl | rfl <;> cases hv <;> rfl

/-- `IdsOK` is necessary: `exClash = (-x) + x ** 2` with both children carrying id 1 — the second
child hits the first child's memo — evaluates to `-6` instead of `6`, from the EMPTY store -/
example : atS intNum [("x", 3)] exClash [] = .ok (-6) ∧ evalG intNum [("x", 3)] exClash = .ok 6 ∧
    ¬ IdsOK exClash := by
  refine ⟨rfl, rfl, fun h => ?_⟩
  have this : (Except.ok (-6) : R Int) = .ok 6 := at_refines intNum [("x", 3)] h []
  exact absurd (Except.ok.inj this) (by decide)


/-! ## Second memo mechanism: reduction flags never change the result

C09 (second memo mechanism) — history independence: the reduction flags never change the result.

Every Python node carries two memo flags that survive across calls and are shared by every expression
that shares the object: `_is_fully_reduced` (`Flags.red`) and `_evaluation_failed` (`Flags.failed`).
`_take_reduction_step` (`stepF`) consults them: a node flagged `red` is returned unchanged, a node
flagged `failed` is not constant-folded again.  C09 demands that the result of a simplification
depends only on the expression, never on flags left by earlier simplifications.

* `FlagsSound N e` (Proofs/FlagSound) — what the flags promise, for every node `s` of `e` at any depth:
  `s.red`    ⟹ no rule of the class of `s` applies at `s`, every operand of `s` is flagged `red`
               (`Honest`, Proofs/Settled), and constant folding does not succeed at `s` (`NoFold`);
  `s.failed` ⟹ `s` is variable-free and `evalG N [] s = .error .domain` (`ReallyFails`).
  Trees without flags are sound, every step of the driver keeps a flagging sound, sub-objects of a
  sound object are sound, fresh nodes around sound operands are sound: every flagging that any
  sequence of earlier simplifications (without the budget warning) can leave behind is sound.
* `pstep N` (Proofs/FlagIndep) — the *pure* rewrite step, a function on trees that consults no flag:
  constant folding at the outermost foldable position, else the pure step inside the first operand
  (left to right) that has one, else the first applicable reducer of the node's class.
* `Expr.fresh` erases all flags (and ids): `e.fresh` is the tree `e` denotes.

(a) one step from a sound flagging only changes flags or performs exactly `pstep` on the erased tree;
(b) hence a run visits, as trees, the successive `pstep`-iterates of the erased start; (c) with
termination (C11) `_fully_reduce` returns the same tree for `e` and for `e.fresh` — and for any two
soundly flagged copies of one tree; (d) the same for `_normalize`.  The budget warning (fallback) is
excluded by hypothesis: the fallback flags an unreduced root, which is not sound.
The proof uses of `failed` only that evaluation does not succeed.
Everything is generic in the number record `N` (reals, exact rationals, doubles).
-/
open Expr
variable {α : Type}

/-! ### every reachable flagging is sound -/

/-- expressions as the constructors build them (no flag set) are soundly flagged -/
theorem fresh_flags_sound (N : Num α) (e : Expr α) : FlagsSound N e.fresh :=
  flagsSound_fresh N e

/-- one call of `_take_reduction_step` keeps the flagging sound (whatever it does: return a flagged
node, fold, mark `_evaluation_failed`, step inside an operand, apply a rule, flag) -/
theorem step_keeps_flags_sound (N : Num α) (e : Expr α) (hs : FlagsSound N e) :
    FlagsSound N (stepF N e).1 :=
  (stepE_sim N hs).1

/-- `_fully_reduce` that ends without the budget warning leaves a sound flagging … -/
theorem fullyReduce_keeps_flags_sound (N : Num α) (bound : Nat) (e : Expr α) (hs : FlagsSound N e)
    (hw : (fullyReduceWith N bound e).warned = false) :
    FlagsSound N (fullyReduceWith N bound e).expr :=
  (fi_fullyReduceLoop_reach N bound e 0 [] hs).2 hw

/-- … in every sub-object (which other expressions may share) … -/
theorem sub_object_flags_sound (N : Num α) {e s : Expr α} (hs : FlagsSound N e) (h : Sub s e) :
    FlagsSound N s :=
  hs.sub h

/-- … and a new node built by a constructor (no flag set) around soundly flagged operands is soundly
flagged -/
theorem new_node_flags_sound (N : Num α) {e : Expr α} (hf : e.flags = {})
    (hc : ∀ c ∈ children e, FlagsSound N c) : FlagsSound N e :=
  (flagsSound_of_default N hf).mpr hc

/-! ### (a) one step: only flags change, or exactly the pure step is performed -/

/-- **C09 (one step).**  From a sound flagging, one call of `_take_reduction_step` on an unflagged
root either leaves the tree unchanged (only flags were set) or rewrites the tree by exactly the pure
step `pstep`, which does not know about flags. -/
theorem step_flag_only_or_pure_step (N : Num α) (e : Expr α) (hs : FlagsSound N e)
    (hr : e.isRed = false) :
    (stepF N e).1.fresh = e.fresh ∨ pstep N e.fresh = some (stepF N e).1.fresh :=
  (stepF_sim N e hs hr).2

/-- a node flagged `_is_fully_reduced` in a sound flagging is a normal form of the pure step: skipping
it skips nothing -/
theorem flagged_is_pure_normal_form (N : Num α) (e : Expr α) (hs : FlagsSound N e)
    (hr : e.isRed = true) : pstep N e.fresh = none :=
  pstep_none_of_red N e hs hr

/-! ### (b) runs: the same sequence of trees -/

/-- **C09 (runs).**  Every form the loop visits is, as a tree, reached from the start tree by pure
steps: the distinct trees a run goes through are the successive `pstep`-iterates of `e.fresh`,
whatever the flags. -/
theorem run_follows_pure_steps (N : Num α) (e : Expr α) (hs : FlagsSound N e) (k : Nat) :
    PReach N e.fresh ((stepE N)^[k] e).fresh :=
  (iterate_sim N hs k).2

/-- the pure step is a function, so the trees visited by two runs from differently flagged copies of
one tree lie on one and the same chain -/
theorem two_runs_one_chain (N : Num α) (e₁ e₂ : Expr α) (h₁ : FlagsSound N e₁)
    (h₂ : FlagsSound N e₂) (heq : e₁.fresh = e₂.fresh) (i j : Nat) :
    PReach N ((stepE N)^[i] e₁).fresh ((stepE N)^[j] e₂).fresh ∨
      PReach N ((stepE N)^[j] e₂).fresh ((stepE N)^[i] e₁).fresh := by
  have p₁ := (iterate_sim N h₁ i).2
  have p₂ := (iterate_sim N h₂ j).2
  rw [heq] at p₁
  exact p₁.linear p₂

/-! ### (c) the result of `_fully_reduce` -/

/-- **C09 (reduction flags).**  The fully reduced form does not depend on a sound pre-flagging: with
budgets under which neither run logs the warning, `_fully_reduce` of `e` and of the flag-free copy
`e.fresh` return the same tree (`Expr.fresh` erases the flags of the results). -/
theorem fullyReduce_flag_independent (N : Num α) (e : Expr α) (hs : FlagsSound N e) (b b' : Nat)
    (hw : (fullyReduceWith N b e).warned = false)
    (hw' : (fullyReduceWith N b' e.fresh).warned = false) :
    (fullyReduceWith N b e).expr.fresh = (fullyReduceWith N b' e.fresh).expr.fresh :=
  fullyReduceWith_flag_independent N hs (flagsSound_fresh N e) (ff_fresh_fresh e).symm b b' hw hw'

/-- such budgets exist, and every larger budget gives the same tree -/
theorem fullyReduce_flag_independent_large (N : Num α) (e : Expr α) (hs : FlagsSound N e) :
    ∃ K, ∀ b b', K ≤ b → K ≤ b' →
      (fullyReduceWith N b e).warned = false ∧ (fullyReduceWith N b' e.fresh).warned = false ∧
      (fullyReduceWith N b e).expr.fresh = (fullyReduceWith N b' e.fresh).expr.fresh :=
  fullyReduceWith_flag_independent_large N hs (flagsSound_fresh N e) (ff_fresh_fresh e).symm

/-- the library's own budget `REDUCTION_STEPS_BOUND = 1000` -/
theorem fullyReduce_default_flag_independent (N : Num α) (e : Expr α) (hs : FlagsSound N e)
    (hw : (fullyReduce N e).warned = false) (hw' : (fullyReduce N e.fresh).warned = false) :
    (fullyReduce N e).expr.fresh = (fullyReduce N e.fresh).expr.fresh :=
  fullyReduce_flag_independent N e hs _ _ hw hw'

/-- two histories, one answer: two soundly flagged copies of one tree (flags left by any two
different sequences of earlier simplifications of it, of its parts, or of expressions sharing parts
with it) are fully reduced to the same tree -/
theorem fullyReduce_any_two_histories (N : Num α) (e₁ e₂ : Expr α) (h₁ : FlagsSound N e₁)
    (h₂ : FlagsSound N e₂) (heq : e₁.fresh = e₂.fresh) (b₁ b₂ : Nat)
    (w₁ : (fullyReduceWith N b₁ e₁).warned = false)
    (w₂ : (fullyReduceWith N b₂ e₂).warned = false) :
    (fullyReduceWith N b₁ e₁).expr.fresh = (fullyReduceWith N b₂ e₂).expr.fresh :=
  fullyReduceWith_flag_independent N h₁ h₂ heq b₁ b₂ w₁ w₂

/-- what the answer is, without any mention of flags: the result of `_fully_reduce` (no warning) is,
as a tree, THE normal form of `e.fresh` under the pure step — reached from it by pure steps, and not
steppable; there is only one such tree (`PReach.normal_unique`). -/
theorem fullyReduce_is_pure_normal_form (N : Num α) (e : Expr α) (hs : FlagsSound N e) (b : Nat)
    (hw : (fullyReduceWith N b e).warned = false) :
    PReach N e.fresh (fullyReduceWith N b e).expr.fresh ∧
      pstep N (fullyReduceWith N b e).expr.fresh = none ∧
      ∀ t, PReach N e.fresh t → pstep N t = none → t = (fullyReduceWith N b e).expr.fresh := by
  obtain ⟨hreach, hsound⟩ := fi_fullyReduceLoop_reach N b e 0 [] hs
  obtain ⟨n, hn, hred⟩ := fi_fullyReduceLoop_iterate N b e 0 [] hw
  have hnf : pstep N (fullyReduceWith N b e).expr.fresh = none := by
    refine pstep_none_of_red N _ (hsound hw) ?_
    unfold fullyReduceWith
    rw [hn]
    exact hred
  exact ⟨hreach, hnf, fun t ht hnt => ht.normal_unique hnt hreach hnf⟩

/-- even when the budget runs out (warning, fallback) the returned tree is one of the pure-step
iterates of `e.fresh` — only then it need not be the last one, and the root flag the fallback sets
is not sound -/
theorem fullyReduce_fallback_on_chain (N : Num α) (e : Expr α) (hs : FlagsSound N e) (b : Nat) :
    PReach N e.fresh (fullyReduceWith N b e).expr.fresh :=
  (fi_fullyReduceLoop_reach N b e 0 [] hs).1

/-! ### (d) the result of `_normalize` -/

/-- **C09 (reduction flags, `_normalize`).**  `_normalize()` = `_fully_reduce()` followed by
`_normalize_fully_reduced()`, which calls the full `_normalize()` of every term of a sum or product —
objects flagged by the run that produced them.  With fuel and budgets under which neither call logs
the warning (`false`), `_normalize` of `e` and of the flag-free copy `e.fresh` return the same
expression (literally: the normal form consists of fresh nodes only). -/
theorem normalize_flag_independent (N : Num α) (e : Expr α) (hs : FlagsSound N e)
    (b b' fuel fuel' : Nat) (r r' : Expr α)
    (h : normalizeF N b fuel e = some (r, false))
    (h' : normalizeF N b' fuel' e.fresh = some (r', false)) : r = r' :=
  normalizeF_flag_independent N hs (flagsSound_fresh N e) (ff_fresh_fresh e).symm b b' fuel fuel'
    r r' h h'

/-- the library's own budget and the driver's fuel -/
theorem normalize_default_flag_independent (N : Num α) (e : Expr α) (hs : FlagsSound N e)
    (r r' : Expr α) (h : normalize N e = some (r, false))
    (h' : normalize N e.fresh = some (r', false)) : r = r' :=
  normalize_flag_independent N e hs _ _ _ _ r r' h h'

/-- two histories, one normal form -/
theorem normalize_any_two_histories (N : Num α) (e₁ e₂ : Expr α) (h₁ : FlagsSound N e₁)
    (h₂ : FlagsSound N e₂) (heq : e₁.fresh = e₂.fresh) (b₁ b₂ fuel₁ fuel₂ : Nat) (r₁ r₂ : Expr α)
    (n₁ : normalizeF N b₁ fuel₁ e₁ = some (r₁, false))
    (n₂ : normalizeF N b₂ fuel₂ e₂ = some (r₂, false)) : r₁ = r₂ :=
  normalizeF_flag_independent N h₁ h₂ heq b₁ b₂ fuel₁ fuel₂ r₁ r₂ n₁ n₂

/-! ### Non-vacuity -/

section Examples

/-- flags as an earlier simplification leaves them: the object `-x` was fully reduced before (flagged
at every node); it is now an operand of a new sum next to the new node `-(-x)`, whose operand is
the same flagged object `-x` -/
def exFlagged : Expr α :=
  .add {} [.neg { red := true } (.var { red := true } "x"),
           .neg {} (.neg { red := true } (.var { red := true } "x"))]

/-- the hypothesis of all theorems above holds of it, for every `N` -/
theorem exFlagged_sound (N : Num α) : FlagsSound N (exFlagged : Expr α) := by
  simp [exFlagged, flagsSound_add, flagsSound_neg, flagsSound_var, children, NodeSound, Honest,
    NoFold, isRed, flags, reducers, firstRule, RuleId.apply, ruleNegNeg, ruleNegSum, vars, varsAux]

/-- the two runs differ (the flagged one takes 2 steps, the flag-free one 6), the trees agree:
`-x + -(-x)` becomes `-x + x` -/
example (N : Num α) :
    (fullyReduceWith N 50 (exFlagged : Expr α)).steps = 2 ∧
    (fullyReduceWith N 50 (exFlagged : Expr α).fresh).steps = 6 ∧
    (fullyReduceWith N 50 (exFlagged : Expr α)).warned = false ∧
    (fullyReduceWith N 50 (exFlagged : Expr α).fresh).warned = false ∧
    (fullyReduceWith N 50 (exFlagged : Expr α)).expr.fresh
      = mkAdd [mkNeg (mkVar "x"), mkVar "x"] := by
  refine ⟨rfl, rfl, rfl, rfl, rfl⟩

example (N : Num α) :
    (fullyReduceWith N 50 (exFlagged : Expr α)).expr.fresh
      = (fullyReduceWith N 50 (exFlagged : Expr α).fresh).expr.fresh :=
  fullyReduce_flag_independent N _ (exFlagged_sound N) 50 50 rfl rfl

/-- `_normalize`: both copies normalise, without warning, to `x - x` -/
example (N : Num α) :
    normalizeF N 50 10 (exFlagged : Expr α) = some (mkMinus (mkVar "x") (mkVar "x"), false) ∧
    normalizeF N 50 10 (exFlagged : Expr α).fresh
      = some (mkMinus (mkVar "x") (mkVar "x"), false) := by
  constructor <;> rfl

example (N : Num α) (r r' : Expr α) (h : normalizeF N 50 10 (exFlagged : Expr α) = some (r, false))
    (h' : normalizeF N 70 20 (exFlagged : Expr α).fresh = some (r', false)) : r = r' :=
  normalize_flag_independent N _ (exFlagged_sound N) 50 70 10 20 r r' h h'

/-- (a), both alternatives: the first step from `exFlagged` performs the pure step (`-(-x) ⟶ x`
inside the second operand — the flagged first operand is skipped), the first step from the flag-free
copy only sets a flag -/
example (N : Num α) :
    pstep N (exFlagged : Expr α).fresh = some (stepF N (exFlagged : Expr α)).1.fresh ∧
    (stepF N (exFlagged : Expr α).fresh).1.fresh = (exFlagged : Expr α).fresh := by
  constructor <;> rfl

/-- the flags matter to `stepF` and the hypothesis `FlagsSound` is necessary: a dishonest
`_is_fully_reduced` flag on `-(-x)` changes the result -/
example (N : Num α) :
    let bad : Expr α := .neg { red := true } (.neg {} (.var {} "x"))
    ¬ FlagsSound N bad ∧
    (fullyReduceWith N 50 bad).expr.fresh = mkNeg (mkNeg (mkVar "x")) ∧
    (fullyReduceWith N 50 bad.fresh).expr.fresh = mkVar "x" := by
  refine ⟨fun h => ?_, rfl, rfl⟩
  have := ((h _ (Sub.refl _)).1 rfl).1.1
  simp [reducers, firstRule, RuleId.apply, ruleNegNeg] at this

/-- the `_evaluation_failed` flag, over the exact rationals: `1/0` was found to fail before; the
flagged run does not evaluate it again, the flag-free run does (and sets the flag), the trees agree:
`x * (1/0)` stays `x * (1/0)` -/
def exFailed : Expr QE :=
  .mul {} [.var { red := true } "x", .recip { failed := true } (.const { red := true } ⟨0, true⟩)]

theorem exFailed_sound : FlagsSound qeNum exFailed := by
  have h : evalG qeNum [] (.recip { failed := true } (.const { red := true } ⟨0, true⟩))
      = .error .domain := by
    rfl
  simp [exFailed, flagsSound_mul, flagsSound_recip, flagsSound_var, flagsSound_const, children,
    NodeSound, Honest, NoFold, ReallyFails, isRed, flags, reducers, firstRule, vars, varsAux,
    isConstNode, h]

example :
    (fullyReduceWith qeNum 50 exFailed).expr.fresh
      = (fullyReduceWith qeNum 50 exFailed.fresh).expr.fresh :=
  fullyReduce_flag_independent qeNum _ exFailed_sound 50 50 rfl rfl

end Examples


end Smooth
