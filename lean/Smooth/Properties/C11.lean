/-
C11 — Simplification terminates in a rule-free form, without cycles.

"simplification never cycles and never grows an expression without bound: from every expression the
successive rewrite steps reach, without ever revisiting an earlier form, a form to which no rewrite
rule applies."

`stepF N e` is one call of `_take_reduction_step`; `stepE N e = (stepF N e).1` the expression it
returns.  `mu : Expr α → ℕ ×ₗ ℕ ×ₗ ℕ ×ₗ ℕ ×ₗ ℕ` (Proofs/MeasureDefs) is a measure into a well-order,
independent of every number (so everything here holds for every number record `N`: reals, exact
rationals, doubles) and of how the flags inside the expression are set.
-/
import Smooth.Proofs.Settled

namespace Smooth
open Expr
variable {α : Type}

/-- **C11 (measure).**  Every step on an unflagged expression — constant folding, a step inside the
first unflagged child, any of the 46 rules at the node, or flagging — strictly decreases `mu` in the
lexicographic order, which is well-founded. -/
theorem mu_step_lt (N : Num α) (e : Expr α) (h : e.isRed = false) :
    mu (stepF N e).1 < mu e :=
  mu_stepE_lt N e h

/-- the order the measure lives in has no infinite descending chain -/
theorem mu_wellFounded :
    WellFounded (fun a b : ℕ ×ₗ ℕ ×ₗ ℕ ×ₗ ℕ ×ₗ ℕ => a < b) :=
  wellFounded_lt

/-- **C11 (no cycle).**  As long as the form reached after `i` steps is unflagged, every later form
is strictly smaller, hence different: no earlier form is ever revisited.  (Once the root is flagged
`stepF` returns its argument unchanged — `stepF_of_isRed` — which is the loop's exit, not a cycle.) -/
theorem no_cycle (N : Num α) (e : Expr α) (i j : Nat) (hij : i < j)
    (hi : ((stepE N)^[i] e).isRed = false) :
    mu ((stepE N)^[j] e) < mu ((stepE N)^[i] e) ∧ (stepE N)^[j] e ≠ (stepE N)^[i] e := by
  have h := mu_iterate_lt N e i hi j hij
  exact ⟨h, fun heq => absurd (heq ▸ h) (lt_irrefl _)⟩

/-- **C11 (termination).**  From every expression finitely many steps reach a flagged form. -/
theorem terminates (N : Num α) (e : Expr α) : ∃ k, ((stepE N)^[k] e).isRed = true :=
  exists_iterate_isRed N e

/-- hence `_fully_reduce`'s loop, given a large enough budget, ends without the warning, on a
flagged expression -/
theorem fullyReduce_terminates (N : Num α) (e : Expr α) :
    ∃ K, ∀ bound, K ≤ bound →
      (fullyReduceWith N bound e).warned = false ∧ (fullyReduceWith N bound e).expr.isRed = true := by
  obtain ⟨k, hk⟩ := terminates N e
  exact ⟨k + 1, fun bound hb => fullyReduceLoop_of_iterate N k bound e 0 [] hk (by omega)⟩

/-- **C11 (rule-free).**  When a step flags the root (the event that ends the loop), no rewrite rule
of the root's class applies to the returned expression. -/
theorem flagged_root_rule_free (N : Num α) (e : Expr α) (h : e.isRed = false)
    (hev : (stepF N e).2 = .flag) (hred : (stepF N e).1.isRed = true) :
    firstRule N (stepF N e).1 (reducers (stepF N e).1) = none :=
  stepF_flag_red N e h hev hred

/-- in particular none of the 46 rules, individually -/
theorem flagged_root_no_rule (N : Num α) (e : Expr α) (h : e.isRed = false)
    (hev : (stepF N e).2 = .flag) (hred : (stepF N e).1.isRed = true) :
    ∀ r ∈ reducers (stepF N e).1, r.apply N (stepF N e).1 = none :=
  firstRule_none N _ _ (flagged_root_rule_free N e h hev hred)

/-- the individual rules all decrease the measure, in every expression -/
theorem every_rule_decreases (N : Num α) (r : RuleId) (e e' : Expr α)
    (h : r.apply N e = some e') : mu e' < mu e :=
  (mu_lt_iff _ _).mpr (rule_decreases N r h)

/-- "never grows without bound": the sequence of forms is eventually constant, so only finitely many
forms (pairwise different up to that point, by `no_cycle`) are ever visited -/
theorem eventually_constant (N : Num α) (e : Expr α) :
    ∃ k, ((stepE N)^[k] e).isRed = true ∧ ∀ j, k ≤ j → (stepE N)^[j] e = (stepE N)^[k] e := by
  obtain ⟨k, hk⟩ := terminates N e
  exact ⟨k, hk, iterate_const_of_isRed N e k hk⟩

/-! ### rule-free everywhere

`Settled N e` (Proofs/Settled): every flagged node of `e`, at any depth, has no applicable rule of its
class and only flagged children — "the flags are honest".  Expressions without flags, as the
constructors build them, are settled (`settled_fresh`), and every step keeps an expression settled
(`step_settled`).  `Sub s e`: `s` is a node of `e`. -/

theorem step_settled (N : Num α) (e : Expr α) (hs : Settled N e) : Settled N (stepF N e).1 :=
  stepF_settled N e hs

theorem fresh_settled (N : Num α) (e : Expr α) : Settled N e.fresh := settled_fresh N e

/-- **C11 (rule-free, everywhere).**  From a settled expression the steps reach a form in which every
node is flagged and no rule of its class applies at any node. -/
theorem reaches_rule_free (N : Num α) (e : Expr α) (hs : Settled N e) :
    ∃ k, ∀ s, Sub s ((stepE N)^[k] e) →
      s.isRed = true ∧ ∀ r ∈ reducers s, r.apply N s = none := by
  obtain ⟨k, hk⟩ := terminates N e
  refine ⟨k, fun s hsub => ?_⟩
  obtain ⟨h1, h2⟩ := (iterate_settled N hs k).all_of_isRed hk s hsub
  exact ⟨h1, firstRule_none N s _ h2⟩

/-- the same for `_fully_reduce` with a large enough budget: no warning, and the result is flagged
and rule-free at every node -/
theorem fullyReduce_rule_free (N : Num α) (e : Expr α) (hs : Settled N e) :
    ∃ K, ∀ bound, K ≤ bound →
      (fullyReduceWith N bound e).warned = false ∧
      ∀ s, Sub s (fullyReduceWith N bound e).expr →
        s.isRed = true ∧ ∀ r ∈ reducers s, r.apply N s = none := by
  obtain ⟨K, hK⟩ := fullyReduce_terminates N e
  refine ⟨K, fun bound hb => ?_⟩
  obtain ⟨hw, hr⟩ := hK bound hb
  refine ⟨hw, fun s hsub => ?_⟩
  obtain ⟨h1, h2⟩ := (fullyReduceLoop_settled N bound e 0 [] hs hw).all_of_isRed hr s hsub
  exact ⟨h1, firstRule_none N s _ h2⟩

/-! Non-vacuity. -/

/-- `mu_step_lt`, `no_cycle`: unflagged expressions exist, and a step does change them
(here `-(-x)`: the first step goes down to the leaf and flags it) -/
example (N : Num α) :
    (mkNeg (mkNeg (mkVar "x")) : Expr α).isRed = false ∧
      stepE N (mkNeg (mkNeg (mkVar "x"))) = mkNeg (mkNeg (.var { red := true } "x")) := by
  constructor <;> rfl

/-- `flagged_root_rule_free`: a non-leaf step that ends in a flag event on a flagged root -/
example (N : Num α) :
    let e : Expr α := .sin {} (.var { red := true } "x")
    e.isRed = false ∧ (stepF N e).2 = .flag ∧ (stepF N e).1.isRed = true := by
  refine ⟨rfl, ?_, ?_⟩ <;> rfl

/-- a rule step that the measure accounts for: `-(-x)` with flagged children rewrites to `x`, a
flagged root reached by a `rule` event (covered by `reaches_rule_free`, not by
`flagged_root_rule_free`) -/
example (N : Num α) :
    stepF N (.neg {} (.neg { red := true } (.var { red := true } "x")) : Expr α) =
      (.var { red := true } "x", .rule .negNeg) := by
  rfl

/-- `reaches_rule_free`, `fullyReduce_rule_free`: settled expressions exist — every expression
without flags, e.g. `x - (-(x * y))` — and a whole run can be followed: `-(-x)` reaches `x` in
three steps (flag `x`, flag `-x`, rule `negNeg`; the root is then the flagged `x`) -/
example (N : Num α) :
    Settled N (mkMinus (mkVar "x") (mkNeg (mkMul [mkVar "x", mkVar "y"])) : Expr α) :=
  fresh_settled N (mkMinus (mkVar "x") (mkNeg (mkMul [mkVar "x", mkVar "y"])))

example (N : Num α) :
    (stepE N)^[3] (mkNeg (mkNeg (mkVar "x")) : Expr α) = .var { red := true } "x" := by
  rfl

end Smooth
