/-
C06 — Early, late and every other differentiation route give the same answers.

"A derivative object built with compute_early=True and one built with compute_early=False behave
identically: for every expression, variable and point that supplies the expression's variables,
Partial, Derivative, Differential.component(...).at, Differential.component_at,
Differential.at(...).component and LocatedDifferential.component, early or late, with the variable
given as object or as name, all return the same number or all raise DomainError, and early and late
as_expression() results are equal expressions.  Differential(e).component(v) equals Partial(e, v) and
Differential(e).at(p) equals LocatedDifferential(e, p)."

The thirteen numeric routes (`routePL … routeLD`) and the six `as_expression()` routes
(`routeExprP …`) are defined in Proofs/Routes.lean exactly as the native driver composes them from
the object functions of Model/Objects.lean:

  PL  Partial(e,x).at(p)                       PE  Partial(e,x,early).at(p)
  PA  P = Partial(e,x); P.as_expression(); P.at(p)
  DL / DE / DA   the same three for Derivative(e)   (single variable)
  FCL / FCE      Differential(e[,early]).component(x).at(p)
  FCAL / FCAE    Differential(e[,early]).component_at(x, p)
  FATL / FATE    Differential(e[,early]).at(p).component(x)
  LD             LocatedDifferential(e, p).component(x)

(In the model a variable is always given by its name; the conversion of a `Variable` object to its
name happens before the object layer and is not a separate route of the model.)

`truePartial p x e` is `deriv (fun t => ⟦e⟧(ρ[x ↦ t])) (ρ x)` with `ρ = valOf p` (Proofs/TruePartial).

What is proved, and under which side conditions:

* ON the domain every route returns `.ok (truePartial p x e)` — for the routes through a stored,
  simplified expression under the K1 side condition (`NormOK K1FreeAt …`: the rewriter's run performs
  no even/even `NthRoot(NthPower(·))` rewrite, the one unsound rule, see C05/C08) and "enough fuel"
  (`normalize … = some _`; the model's `normalize` is fuel-indexed).  The statement WITHOUT the K1
  hypothesis is false: `routes_disagree_under_K1`.  Hence the suffix `_partial`.
* OFF the domain every route returns `.error .domain` — no K1 hypothesis at all, only fuel (building
  an early object runs the rewriter even off the domain; that can fail only for lack of fuel).
* Unconditionally and for every number instance: PA = PE, FCE = FCAE, the `as_expression()` results
  of early and late `Partial` / `Derivative` coincide (same expression, same warning, same failure),
  `Differential(e).component(x)` is `Partial(e, x)`.
* `Differential(e).at(p)` IS `LocatedDifferential(e, p)` (late: at every supplying point; early: on
  the domain outside K1).
* K2 (recorded finding): early and late `Differential` components are NOT equal expressions in
  general — witness `Sine(Negation(y))` — but they denote the same function on the original's domain.

Proofs: Proofs/Routes.lean; the replayed rewriter runs: Proofs/RoutesRun.lean.
-/
import Smooth.Proofs.Routes
import Smooth.Proofs.RoutesRun

namespace Smooth
open Expr

/-! ## 1. on the domain -/

/-
FULL STATEMENT (what the property text asks for; FALSE for the code as it is because of K1, see
`routes_disagree_under_K1`):

  theorem routes_agree_on_domain (p) (x) (e) (hwf : WF e) (hs : Supp p e) (hd : Dom (valOf p) e)
      (fuel hypotheses) : AllPartialRoutes realNum e x p (.ok (truePartial p x e))

PROVED: the same with the two K1 side conditions `hK1f`, `hK1r`.  What is missing for the full
statement is exactly the soundness of the one rule instance K1, which does not hold.
-/

/-- **C06 on the domain.**  At a supplied point of the domain, outside K1 and with enough fuel, all
ten routes that take a variable name — `Partial` late / early / after `as_expression()`,
`Differential.component(x).at` late / early, `component_at` late / early, `.at(p).component(x)`
late / early, `LocatedDifferential.component` — return the same number: the true partial derivative
(for every name `x`, a variable of `e` or not). -/
theorem routes_agree_on_domain_partial (p : Point ℝ) (x : String) (e : Expr ℝ) (hwf : WF e)
    (hs : Supp p e) (hd : Dom (valOf p) e)
    (hK1f : NormOK K1FreeAt REDUCTION_STEPS_BOUND NORMALIZE_FUEL (symFwd realNum x e))
    (hfuelf : ∃ r, normalize realNum (symFwd realNum x e) = some r)
    (hK1r : ∀ y s, SAcc.get? (syntheticPartials realNum e) y = some s →
      NormOK K1FreeAt REDUCTION_STEPS_BOUND NORMALIZE_FUEL s)
    (hfuelr : ∀ y s, SAcc.get? (syntheticPartials realNum e) y = some s →
      ∃ r, normalize realNum s = some r) :
    AllPartialRoutes realNum e x p (.ok (truePartial p x e)) :=
  routes_all_on x hwf hs hd hK1f hfuelf hK1r hfuelr

/-- the numeric routes need no side condition at all -/
theorem numeric_routes_agree_on_domain (p : Point ℝ) (x : String) (e : Expr ℝ) (hwf : WF e)
    (hs : Supp p e) (hd : Dom (valOf p) e) :
    routePL realNum e x p = .ok (truePartial p x e) ∧
      routeFCL realNum e x p = .ok (truePartial p x e) ∧
      routeFCAL realNum e x p = .ok (truePartial p x e) ∧
      routeFATL realNum e x p = .ok (truePartial p x e) ∧
      routeLD realNum e x p = .ok (truePartial p x e) :=
  ⟨routes_PL_on x hwf hs hd, routes_FCL_on x hwf hs hd, routes_FCAL_on x hwf hs hd,
    routes_FATL_on x hwf hs hd, routes_LD_on x hwf hs hd⟩

/-- **C06 on the domain, `Derivative`.**  For an expression with at most one variable
(`singleVarName e = .ok x`: `x` is that variable, or the placeholder name when there is none) the
three `Derivative` routes return the true partial with respect to `x`, too. -/
theorem derivative_routes_agree_on_domain_partial (p : Point ℝ) (x : String) (e : Expr ℝ)
    (hwf : WF e) (hs : Supp p e) (hd : Dom (valOf p) e) (hx : singleVarName e = .ok x)
    (hK1f : NormOK K1FreeAt REDUCTION_STEPS_BOUND NORMALIZE_FUEL (symFwd realNum x e))
    (hfuelf : ∃ r, normalize realNum (symFwd realNum x e) = some r) :
    AllDerivativeRoutes realNum e p (.ok (truePartial p x e)) :=
  routes_all_derivative_on x hwf hs hd hx hK1f hfuelf

/-- `singleVarName e = .ok x` means: at most one variable, and it is `x` -/
theorem single_variable_name_ok (e : Expr ℝ) (x : String) (hx : singleVarName e = .ok x) :
    e.vars.length ≤ 1 ∧ ∀ y ∈ e.vars, y = x :=
  routes_singleVarName_ok hx

/-- with two or more variables there is no `Derivative`: the three routes raise the same (usage)
error, at construction -/
theorem derivative_routes_usage_error {α : Type} (N : Num α) (e : Expr α) (p : Point α) (err : Err)
    (hx : singleVarName e = .error err) : AllDerivativeRoutes N e p (.error err) :=
  routes_all_derivative_usage N e p err hx

/-- **K1: the side condition cannot be dropped.**  `e = NthRoot(NthPower(x, 2), 2)` (= |x|) at
`x = -3`, a supplied point of the domain: the late `Partial` answers `-1` (the true partial), the
early `Partial` and the late one after `as_expression()` answer `+1`. -/
theorem routes_disagree_under_K1 :
    routePL realNum (mkNRoot (mkNPow (mkVar "x") 2) 2) "x" [("x", (-3 : ℝ))] = .ok (-1) ∧
      routePE realNum (mkNRoot (mkNPow (mkVar "x") 2) 2) "x" [("x", (-3 : ℝ))] = .ok 1 ∧
      routePA realNum (mkNRoot (mkNPow (mkVar "x") 2) 2) "x" [("x", (-3 : ℝ))] = .ok 1 :=
  runK1_routes_disagree

/-! ## 2. off the domain -/

/-- **C06 off the domain.**  At a supplied point outside the domain all ten routes raise
`DomainError` — with NO K1 hypothesis: the routes through a stored expression evaluate the original
first, the numeric ones fail by C07.  The fuel hypotheses are needed because building an early object
runs the rewriter even off the domain. -/
theorem routes_agree_off_domain (p : Point ℝ) (x : String) (e : Expr ℝ) (hwf : WF e)
    (hs : Supp p e) (hnd : ¬ Dom (valOf p) e)
    (hfuelf : ∃ r, normalize realNum (symFwd realNum x e) = some r)
    (hfuelr : ∀ y s, SAcc.get? (syntheticPartials realNum e) y = some s →
      ∃ r, normalize realNum s = some r) :
    AllPartialRoutes realNum e x p (.error .domain) :=
  routes_all_off x hwf hs hnd hfuelf hfuelr

theorem derivative_routes_agree_off_domain (p : Point ℝ) (x : String) (e : Expr ℝ) (hwf : WF e)
    (hs : Supp p e) (hnd : ¬ Dom (valOf p) e) (hx : singleVarName e = .ok x)
    (hfuelf : ∃ r, normalize realNum (symFwd realNum x e) = some r) :
    AllDerivativeRoutes realNum e p (.error .domain) :=
  routes_all_derivative_off x hwf hs hnd hx hfuelf

/-- constructing an early object can fail only for lack of fuel (never with a domain, missing or
usage error), on or off the domain, for every number instance -/
theorem early_construction_fails_only_for_fuel {α : Type} (N : Num α) (e : Expr α) (x : String)
    (err : Err) :
    (PartialObj.new N e x true = .error err → err = .fuel) ∧
      (DifferentialObj.new N e true = .error err → err = .fuel) :=
  ⟨routes_partialNew_early_error N e x err, routes_differentialNew_early_error N e err⟩

/-! ## 3. identities that hold for every number instance, point and expression -/

/-- a late `Partial` after `as_expression()` behaves exactly like an early one: same answer, same
error, whatever the point -/
theorem partial_after_as_expression_is_early {α : Type} (N : Num α) (e : Expr α) (x : String)
    (p : Point α) : routePA N e x p = routePE N e x p :=
  routePA_eq_routePE N e x p

/-- `component(x).at(p)` is `component_at(x, p)` -/
theorem component_then_at_is_component_at {α : Type} (N : Num α) (e : Expr α) (x : String)
    (p : Point α) :
    routeFCE N e x p = routeFCAE N e x p ∧ routeFCL N e x p = routeFCAL N e x p :=
  ⟨rfl, rfl⟩

/-- the `Derivative` routes are the `Partial` routes in the single variable -/
theorem derivative_routes_are_partial_routes {α : Type} (N : Num α) (e : Expr α) (p : Point α) :
    routeDL N e p = (do let x ← singleVarName e; routePL N e x p) ∧
      routeDE N e p = (do let x ← singleVarName e; routePE N e x p) ∧
      routeDA N e p = (do let x ← singleVarName e; routePA N e x p) :=
  ⟨routeDL_eq N e p, routeDE_eq N e p, routeDA_eq N e p⟩

/-- **`as_expression()` : early = late.**  `Partial(e, x, compute_early=True).as_expression()` and
`Partial(e, x).as_expression()` return the same expression (both are `_retrieve_synthetic_partial`),
with the same warning, or fail alike. -/
theorem partial_asExpression_early_eq_late {α : Type} (N : Num α) (e : Expr α) (x : String) :
    routeExprPE N e x = routeExprP N e x :=
  routes_partial_asExpression_early_eq_late N e x

/-- the same for `Derivative` -/
theorem derivative_asExpression_early_eq_late {α : Type} (N : Num α) (e : Expr α) :
    routeExprDE N e = routeExprD N e :=
  routes_derivative_asExpression_early_eq_late N e

/-- … and after the call the late object is in exactly the state of the early one -/
theorem partial_objects_early_late {α : Type} (N : Num α) (e : Expr α) (x : String) :
    (do let (P, w) ← PartialObj.new N e x true
        let (s, P', _) ← P.asExpression N
        pure (s, P', w)) =
    (do let (P, _) ← PartialObj.new N e x false
        P.asExpression N) :=
  routes_partial_objects_early_late N e x

/-! ## 4. object equalities -/

/-- `Differential(e).component(x)` equals `Partial(e, x)` -/
theorem differential_component_late_is_partial {α : Type} (N : Num α) (e : Expr α) (x : String) :
    (DifferentialObj.mk e none).component N x = PartialObj.new N e x false :=
  routes_component_late N e x

/-- `Differential(e).at(p)` equals `LocatedDifferential(e, p)` at every point that supplies `e`: the
same object on the domain, the same `DomainError` off it -/
theorem differential_late_at_is_located (p : Point ℝ) (e : Expr ℝ) (hwf : WF e) (hs : Supp p e) :
    (DifferentialObj.mk e none).at realNum p = LocatedObj.new realNum e p :=
  routes_differential_late_at p e hwf hs

/-- `Differential(e, compute_early=True).at(p)` equals `LocatedDifferential(e, p)` on the domain,
outside K1: evaluating the stored components gives the very dictionary reverse mode computes -/
theorem differential_early_at_is_located_partial (p : Point ℝ) (e : Expr ℝ) (hwf : WF e)
    (hs : Supp p e) (hd : Dom (valOf p) e)
    (hK1r : ∀ y s, SAcc.get? (syntheticPartials realNum e) y = some s →
      NormOK K1FreeAt REDUCTION_STEPS_BOUND NORMALIZE_FUEL s)
    (D : DifferentialObj ℝ) (w : Bool) (hnew : DifferentialObj.new realNum e true = .ok (D, w)) :
    D.at realNum p = LocatedObj.new realNum e p :=
  routes_differential_early_at hwf hs hd hK1r hnew

/-- that dictionary: `{y : ∂e/∂y  for y in e.vars}` -/
theorem numeric_partials_on_domain (p : Point ℝ) (e : Expr ℝ) (hwf : WF e) (hs : Supp p e)
    (hd : Dom (valOf p) e) :
    numericPartials realNum p e = .ok (e.vars.map fun y => (y, truePartial p y e)) :=
  routes_numericPartials_on hwf hs hd

/-! ## 5. K2 : early and late `Differential` components

FULL STATEMENT asked for by the property text ("early and late as_expression() results are equal
expressions"), for `Differential` components:

  routeExprFE realNum e x = routeExprFL realNum e x

FALSE (recorded finding K2, `differential_asExpression_K2_witness`): the early object stores the
normalised REVERSE-symbolic component, the late one computes the normalised FORWARD-symbolic partial;
the two raw trees differ and so can their normal forms.  What IS true: -/

/-- **K2 replacement.**  Outside K1, the expression the early `Differential` returns for a component
and the one the late `Differential` returns both evaluate to the true partial derivative at every
supplied point of the original's domain: they denote the same function there. -/
theorem differential_asExpression_same_meaning_partial (e : Expr ℝ) (x : String) (hwf : WF e)
    (hK1f : NormOK K1FreeAt REDUCTION_STEPS_BOUND NORMALIZE_FUEL (symFwd realNum x e))
    (hK1r : ∀ y s, SAcc.get? (syntheticPartials realNum e) y = some s →
      NormOK K1FreeAt REDUCTION_STEPS_BOUND NORMALIZE_FUEL s)
    (s₁ s₂ : Expr ℝ) (w₁ w₂ : Bool)
    (h₁ : routeExprFE realNum e x = .ok (s₁, w₁)) (h₂ : routeExprFL realNum e x = .ok (s₂, w₂))
    (p : Point ℝ) (hs : Supp p e) (hd : Dom (valOf p) e) :
    evalG realNum p s₁ = .ok (truePartial p x e) ∧ evalG realNum p s₂ = .ok (truePartial p x e) :=
  routes_K2_same_meaning x hwf hK1f hK1r h₁ h₂ p hs hd

/-- the late `Differential`'s component expression is the late `Partial`'s -/
theorem differential_late_asExpression_is_partial {α : Type} (N : Num α) (e : Expr α) (x : String) :
    routeExprFL N e x = routeExprP N e x :=
  routes_differential_late_asExpression N e x

/-- **K2 witness.**  For `e = Sine(Negation(y))` the early `Differential` returns
`Negation(Cosine(y))` for the component `y` (reverse symbolic route: 8 rewriter steps replayed over
the reals), the late one returns `Multiply(Cosine(y), Constant(-1))` (forward symbolic route: 7
steps): different trees — although all K1 and fuel hypotheses hold, so both denote `-cos y`. -/
theorem differential_asExpression_K2_witness :
    routeExprFE realNum (mkSin (mkNeg (mkVar "y"))) "y" = .ok (mkNeg (mkCos (mkVar "y")), false) ∧
      routeExprFL realNum (mkSin (mkNeg (mkVar "y"))) "y" =
        .ok (mkMul [mkCos (mkVar "y"), mkConst (-1)], false) ∧
      (mkNeg (mkCos (mkVar "y")) : Expr ℝ) ≠ mkMul [mkCos (mkVar "y"), mkConst (-1)] ∧
      routeExprFE realNum (mkSin (mkNeg (mkVar "y"))) "y" ≠
        routeExprFL realNum (mkSin (mkNeg (mkVar "y"))) "y" := by
  refine ⟨runK2_exprFE, runK2_exprFL, runK2_trees_differ, ?_⟩
  rw [runK2_exprFE, runK2_exprFL]
  intro h
  injection h with h
  injection h with h _
  exact runK2_trees_differ h

/-! ## non-vacuity -/

/-- all hypotheses of `routes_agree_on_domain_partial` hold for the two-variable product `x * y`
(variable `x`) at a point listing the coordinates in another order: the forward symbolic partial
`Add(Multiply(1, y), Multiply(0, x))` is normalised in 10 steps (rules `mulOnes`, `mulZero`,
`addZeros`), each reverse component in 4 -/
example :
    let e : Expr ℝ := mkMul [mkVar "x", mkVar "y"]
    let p : Point ℝ := [("y", 2), ("x", 3)]
    WF e ∧ Supp p e ∧ Dom (valOf p) e ∧
      NormOK K1FreeAt REDUCTION_STEPS_BOUND NORMALIZE_FUEL (symFwd realNum "x" e) ∧
      (∃ r, normalize realNum (symFwd realNum "x" e) = some r) ∧
      (∀ y s, SAcc.get? (syntheticPartials realNum e) y = some s →
        NormOK K1FreeAt REDUCTION_STEPS_BOUND NORMALIZE_FUEL s) ∧
      (∀ y s, SAcc.get? (syntheticPartials realNum e) y = some s →
        ∃ r, normalize realNum s = some r) :=
  ⟨by simp [WF, WFList], by simp [Supp, SuppList, Point.get?], by simp [Dom, DomList],
    runXY_K1Fwd, runXY_fuelFwd, runXY_K1Rev, runXY_fuelRev⟩

/-- … so the theorem applies: e.g. the early `Differential.at(p).component("x")` of `x * y` at
`(x, y) = (3, 2)` is the true partial -/
example : routeFATE realNum (mkMul [mkVar "x", mkVar "y"]) "x" [("y", 2), ("x", 3)] =
    .ok (truePartial [("y", 2), ("x", 3)] "x" (mkMul [mkVar "x", mkVar "y"])) :=
  (routes_agree_on_domain_partial _ "x" _ (by simp [WF, WFList]) (by simp [Supp, SuppList, Point.get?])
    (by simp [Dom, DomList]) runXY_K1Fwd runXY_fuelFwd runXY_K1Rev runXY_fuelRev).FATE

/-- all hypotheses of the on-domain AND the off-domain theorems (`Partial`/`Differential` and
`Derivative` forms) hold for `Reciprocal(y)`: `y = 2` is a supplied point of the domain, `y = 0` a
supplied point outside it; raw forward and reverse partials are `Negation(Divide(1, NthPower(y, 2)))`,
normalised in 8 steps (rules `divToMul`, `mulOnes`) to `Negation(Reciprocal(NthPower(y, 2)))` -/
example :
    let e : Expr ℝ := mkRecip (mkVar "y")
    WF e ∧ Supp [("y", (2 : ℝ))] e ∧ Dom (valOf [("y", (2 : ℝ))]) e ∧
      Supp [("y", (0 : ℝ))] e ∧ ¬ Dom (valOf [("y", (0 : ℝ))]) e ∧
      singleVarName e = .ok "y" ∧
      NormOK K1FreeAt REDUCTION_STEPS_BOUND NORMALIZE_FUEL (symFwd realNum "y" e) ∧
      (∃ r, normalize realNum (symFwd realNum "y" e) = some r) ∧
      (∀ y s, SAcc.get? (syntheticPartials realNum e) y = some s →
        NormOK K1FreeAt REDUCTION_STEPS_BOUND NORMALIZE_FUEL s) ∧
      (∀ y s, SAcc.get? (syntheticPartials realNum e) y = some s →
        ∃ r, normalize realNum s = some r) :=
  ⟨by simp [WF], by simp [Supp, Point.get?], by simp [Dom, den, valOf, Point.get?],
    by simp [Supp, Point.get?], by simp [Dom, den, valOf, Point.get?],
    by simp [singleVarName, vars, varsAux, pure, Except.pure],
    runRc_K1Fwd, runRc_fuelFwd, runRc_K1Rev, runRc_fuelRev⟩

/-- the hypotheses of the K2 replacement hold for the K2 witness itself -/
example :
    let e : Expr ℝ := mkSin (mkNeg (mkVar "y"))
    WF e ∧ Supp [("y", (2 : ℝ))] e ∧ Dom (valOf [("y", (2 : ℝ))]) e ∧
      NormOK K1FreeAt REDUCTION_STEPS_BOUND NORMALIZE_FUEL (symFwd realNum "y" e) ∧
      (∀ y s, SAcc.get? (syntheticPartials realNum e) y = some s →
        NormOK K1FreeAt REDUCTION_STEPS_BOUND NORMALIZE_FUEL s) :=
  ⟨by simp [WF], by simp [Supp, Point.get?], by simp [Dom], runK2_K1Fwd, runK2_K1Rev⟩

/-- an early object really is built in these examples (the constructions do not fail) -/
example : DifferentialObj.new realNum (mkMul [mkVar "x", mkVar "y"] : Expr ℝ) true =
    .ok (⟨mkMul [mkVar "x", mkVar "y"], some [("x", mkVar "y"), ("y", mkVar "x")]⟩, false) :=
  symrevEx_differential "x" "y" (by decide)

/-- an expression with two variables: the hypothesis of `derivative_routes_usage_error` -/
example : singleVarName (mkMul [mkVar "x", mkVar "y"] : Expr ℝ) = .error .usage := by
  simp [singleVarName, vars, varsAux, varsAuxList, throw, throwThe, MonadExceptOf.throw]

end Smooth
