/-
C04 — Reverse-mode gradient equals the true partials for every variable at once.

`revG realNum` is the model of `_compute_numeric_partials` (multiplier passing into the accumulator
dictionary); `numericPartials` of `_numeric_partials` (seed 1, read back every variable of `e`),
`LocatedObj.new/component` and `DifferentialObj.at` of the public objects.
-/
import Smooth.Proofs.TruePartial

namespace Smooth
open Expr

/- `truePartial p y e := deriv (fun t => den (upd (valOf p) y t) e) (valOf p y)` — the true partial
derivative of `e` with respect to `y` at the point — is defined in Proofs/TruePartial.lean. -/

theorem fwd_is_truePartial (p : Point ℝ) (y : String) (e : Expr ℝ) (hwf : WF e) (hs : Supp p e)
    (hd : Dom (valOf p) e) : fwdG realNum p y e = .ok (truePartial p y e) :=
  tp_fwd_is_truePartial p y e hwf hs hd

/-- **C04 (one traversal).**  From any accumulator and with any multiplier `m`, one reverse-mode
traversal of an expression defined at the point adds `m ·` (true partial) to the entry of *every*
variable simultaneously — a variable occurring several times (in different arguments, or through a
shared sub-expression, which in the model is the same sub-tree occurring twice) receives the sum of
its contributions because that sum is what the true partial of the whole tree is. -/
theorem rev_adds_true_partials (p : Point ℝ) (e : Expr ℝ) (hwf : WF e) (hs : Supp p e)
    (hd : Dom (valOf p) e) (m : ℝ) (acc : Acc ℝ) :
    ∃ acc', revG realNum p e m acc = .ok acc' ∧
      ∀ y, getA acc' y = getA acc y + m * truePartial p y e :=
  tp_rev_adds_true_partials p e hwf hs hd m acc

/-- `_numeric_partials(point)` : every listed variable reads its true partial -/
theorem numericPartials_true (p : Point ℝ) (e : Expr ℝ) (hwf : WF e) (hs : Supp p e)
    (hd : Dom (valOf p) e) :
    ∃ d, numericPartials realNum p e = .ok d ∧
      ∀ y, Acc.get? d y = if y ∈ e.vars then some (truePartial p y e) else none :=
  tp_numericPartials_true p e hwf hs hd

/-- a variable that does not occur has true partial 0 (so the default `0` of
`LocatedDifferential.component` is the true partial as well) -/
theorem truePartial_not_occurring (p : Point ℝ) (y : String) (e : Expr ℝ) (hy : ¬ Occurs y e) :
    truePartial p y e = 0 :=
  tp_truePartial_not_occurring p y e hy

/-- **C04 (public objects).**  `LocatedDifferential(e, p).component(y)` is the true partial for every
queried variable, occurring or not. -/
theorem located_component_true (p : Point ℝ) (e : Expr ℝ) (hwf : WF e) (hs : Supp p e)
    (hd : Dom (valOf p) e) (y : String) :
    ∃ L, LocatedObj.new realNum e p = .ok L ∧ L.component realNum y = truePartial p y e :=
  tp_located_component_true p e hwf hs hd y

/-- `Differential(e).at(p)` (not computed early) is `LocatedDifferential(e, p)` after checking that
the expression is defined at the point -/
theorem differential_late_at (p : Point ℝ) (e : Expr ℝ) (hwf : WF e) (hs : Supp p e)
    (hd : Dom (valOf p) e) :
    (DifferentialObj.mk e none).at realNum p = LocatedObj.new realNum e p :=
  tp_differential_late_at p e hwf hs hd

/-- non-vacuity: a three-factor product with a zero factor and a repeated variable -/
example :
    let e : Expr ℝ := mkMul [mkVar "x", mkConst 0, mkAdd [mkVar "x", mkVar "y"]]
    let p : Point ℝ := [("y", 2), ("x", 3)]
    WF e ∧ Supp p e ∧ Dom (valOf p) e := by
  simp [WF, WFList, Supp, SuppList, Dom, DomList, Point.get?]

end Smooth
