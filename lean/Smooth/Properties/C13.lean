/-
C13 — The printed form echoes the object.

`render e` is the token stream of `repr(e)`: the constructor call that builds `e`.  `parseExpr` is
`eval` restricted to the public constructors.  What a reader of the printed text can return at best is
`e.fresh`: the same tree with the per-object memo flags (which are not printed) reset; `==` does not
look at them.

Side conditions: NONE on the expression (no well-formedness is needed: `NthPower(…, n=0)` or a
base `-1` print and read back just the same) and NONE on what follows the printed form in the token
stream (the parser never looks past the closing parenthesis).  The only hypothesis anywhere is
reflexivity of `==` on the stored numbers where the statement is about `==` (false for a float NaN,
true over ℝ).

The parser also accepts the default-base spellings `Exponential(u)` / `Logarithm(u)` (base `e`);
`render` never produces them, so they play no role in the round trip (`parse_default_base`).
-/
import Smooth.Proofs.Print
import Smooth.Real.Instance

namespace Smooth
open Expr
variable {α : Type}

/-- **C13, round trip.**  Evaluating the printed text of `e`, followed by any tokens `rest`, yields
the flag-free copy of `e` and leaves exactly `rest`; some fuel (nesting budget) suffices. -/
theorem parse_render (N : Num α) (e : Expr α) (rest : List (Tok α)) :
    ∃ fuel, parseExpr N fuel (render e ++ rest) = some (e.fresh, rest) :=
  ⟨_, parse_render_length N e rest⟩

/-- … namely every fuel from the number of nodes on, … -/
theorem parse_render_fuel (N : Num α) (e : Expr α) (rest : List (Tok α)) (k : Nat)
    (hk : size e ≤ k) : parseExpr N k (render e ++ rest) = some (e.fresh, rest) :=
  parse_render_of_size_le N e k rest hk

/-- … in particular the fuel the driver uses, on the printed text alone. -/
theorem parse_render_driver_fuel (N : Num α) (e : Expr α) :
    parseExpr N ((render e).length + 1) (render e) = some (e.fresh, []) :=
  parse_render_driver N e

/-- Fuel only bounds the nesting: an answer never changes when more is given. -/
theorem parse_fuel_mono (N : Num α) (k : Nat) (ts : List (Tok α)) (r : Expr α × List (Tok α))
    (h : parseExpr N k ts = some r) : parseExpr N (k + 1) ts = some r :=
  parse_mono N k ts r h

theorem parse_fuel_mono_le (N : Num α) {k k' : Nat} (hk : k ≤ k') (ts : List (Tok α))
    (r : Expr α × List (Tok α)) (h : parseExpr N k ts = some r) : parseExpr N k' ts = some r :=
  parse_mono_le N hk ts r h

/-- **C13, injectivity.**  Two expressions that print identically differ at most in flags;
i.e. expressions that differ in anything but flags print differently.  No hypothesis. -/
theorem render_injective (a b : Expr α) (h : render a = render b) : a.fresh = b.fresh :=
  render_injective_fresh a b h

/-- and conversely flags are not printed: printing identically *is* differing at most in flags -/
theorem render_eq_iff (a b : Expr α) : render a = render b ↔ a.fresh = b.fresh :=
  render_eq_iff_fresh a b

/-- stronger: no printed form is a proper prefix of another one -/
theorem render_prefix_free' (a b : Expr α) (r1 r2 : List (Tok α))
    (h : render a ++ r1 = render b ++ r2) : a.fresh = b.fresh ∧ r1 = r2 :=
  render_prefix_free a b r1 r2 h

/-- **C13 in terms of `==`.**  The object read back is equal (`==`, either way round) to the
original, whenever `==` is reflexive on the stored numbers. -/
theorem reparsed_eq_original (N : Num α) (hrefl : ∀ v, N.eq v v = true) (e : Expr α) :
    ∃ e', parseExpr N ((render e).length + 1) (render e) = some (e', []) ∧
      beq N e' e = true ∧ beq N e e' = true :=
  ⟨e.fresh, parse_render_driver N e, beq_fresh_self N hrefl e⟩

/-- Two unequal expressions never print identically. -/
theorem unequal_print_differently (N : Num α) (hrefl : ∀ v, N.eq v v = true) (a b : Expr α)
    (h : beq N a b = false) : render a ≠ render b := fun hr => by
  rw [beq_of_render_eq N hrefl a b hr] at h; cases h

/-- over the reals `==` on numbers is reflexive, so both hold outright -/
theorem realNum_eq_refl (v : ℝ) : realNum.eq v v = true := by simp

theorem reparsed_eq_original_real (e : Expr ℝ) :
    ∃ e', parseExpr realNum ((render e).length + 1) (render e) = some (e', []) ∧
      beq realNum e' e = true ∧ beq realNum e e' = true :=
  reparsed_eq_original realNum realNum_eq_refl e

theorem unequal_print_differently_real (a b : Expr ℝ) (h : beq realNum a b = false) :
    render a ≠ render b :=
  unequal_print_differently realNum realNum_eq_refl a b h

/-- The default-base spellings are read as base `e` (they are never printed). -/
theorem parse_default_base (N : Num α) (u : Expr α) (k : Nat) (rest : List (Tok α))
    (hk : size u ≤ k) :
    parseExpr N (k + 1) ([Tok.ident "Exponential", Tok.lp] ++ render u ++ [Tok.rp] ++ rest)
      = some (mkExp u.fresh N.e, rest) ∧
    parseExpr N (k + 1) ([Tok.ident "Logarithm", Tok.lp] ++ render u ++ [Tok.rp] ++ rest)
      = some (mkLog u.fresh N.e, rest) :=
  ⟨parse_default_base_exp N u k rest hk, parse_default_base_log N u k rest hk⟩

/-! ### Non-vacuity: a concrete expression whose printed form uses every kind of token
(`ident`, `(`, `)`, `,`, `=`, string, number, integer), with non-default flags on some nodes. -/

/-- `Add(NthPower(Variable('x'), n=2), Exponential(Constant(3), base=2), Multiply())` -/
noncomputable def c13Sample : Expr ℝ :=
  .add { red := true, id := 7 }
    [.npow {} (.var { failed := true } "x") 2, .exp {} (.const { id := 3 } 3) 2, .mul {} []]

example : render c13Sample =
    [.ident "Add", .lp,
      .ident "NthPower", .lp, .ident "Variable", .lp, .str "x", .rp, .comma, .ident "n", .eqs,
        .nat 2, .rp, .comma,
      .ident "Exponential", .lp, .ident "Constant", .lp, .num 3, .rp, .comma, .ident "base", .eqs,
        .num 2, .rp, .comma,
      .ident "Multiply", .lp, .rp,
      .rp] := by
  simp [c13Sample, render, renderList, joinComma]

/-- the round trip on it, with the driver's fuel (here 31), returns the flag-free tree … -/
example : parseExpr realNum 31 (render c13Sample)
    = some (mkAdd [mkNPow (mkVar "x") 2, mkExp (mkConst 3) 2, mkMul []], []) := by
  have h := parse_render_driver_fuel realNum c13Sample
  have hl : (render c13Sample).length + 1 = 31 := by
    simp [c13Sample, render, renderList, joinComma]
  rw [hl] at h
  simpa [c13Sample, fresh, freshList] using h

/-- … which is not the original object (flags differ) but `==` to it -/
example : c13Sample.fresh ≠ c13Sample ∧ beq realNum c13Sample.fresh c13Sample = true :=
  ⟨by simp [c13Sample, fresh, freshList], (beq_fresh_self realNum realNum_eq_refl _).1⟩

/-- `unequal_print_differently` applies to a non-trivial pair: same shape, different `n` -/
example : beq realNum (mkNPow (mkVar "x") 2) (mkNPow (mkVar "x") 3) = false ∧
    render (mkNPow (mkVar "x" : Expr ℝ) 2) ≠ render (mkNPow (mkVar "x") 3) :=
  ⟨by simp [beq], unequal_print_differently_real _ _ (by simp [beq])⟩

/-- `render_injective` applies to a non-trivial pair: same tree, different flags -/
example : render c13Sample = render c13Sample.fresh ∧ c13Sample ≠ c13Sample.fresh :=
  ⟨(render_fresh _).symm, by simp [c13Sample, fresh, freshList]⟩

end Smooth
