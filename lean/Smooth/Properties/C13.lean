import Smooth.Model.Surface
namespace Smooth
/-- placeholder while the property file is being written -/
theorem C13_placeholder : (1 : Nat) = 1 := rfl
end Smooth
