/-
C17 (object layer) and C16 (everything handed out is constructible) — the error kinds of every public
differentiation route, and the well-formedness of every expression the library returns.

"From every public entry point only the library's own exceptions escape (DomainError,
CoordinateMissing, the documented generic Exception for misuse such as `Derivative` of a two-variable
expression) — never ZeroDivisionError, ValueError('math domain error'), a complex result …"

In the model a CPython-level error would be the outcome `.error .zeroDiv | .valueErr | .complex`;
`.unsupported` is only produced by the exact-rational instance, and `.fuel` only by `liftFuel` when
the structural fuel of the model's `normalizeF` runs out (a model artefact, see section 4).
Properties/C17.lean covers `evalG`, `fwdG`, `revG`, `numericPartials`, `atNumber`.  This file covers
the object layer: the thirteen numeric routes `routePL … routeLD` and the six `as_expression()` routes
`routeExprP … routeExprFL` of Model/Routes.lean (see Properties/C06.lean for the table of routes).

The routes with `compute_early=True` or after `as_expression()` SIMPLIFY the symbolic derivative and
then evaluate the simplified tree.  The evaluator's error kinds are known for WELL-FORMED trees
(`WF`: n ≥ 1, bases > 0, logarithm base ≠ 1), so the key fact is section 1: simplification keeps `WF`
— unconditionally, WITHOUT any K1-free hypothesis (the K1 rule `NthRoot(NthPower(u, m), n) ⇒
NthPower(NthRoot(u, n), m)` changes the meaning of the tree, not its well-formedness).  Section 1 is
at the same time a C16 statement: every expression the library hands out is one its own constructors
would accept.

Proofs: Proofs/WFDriver.lean (section 1), Proofs/WFRoutes.lean (sections 2, 3),
Proofs/WFObjects.lean (section 2b), Proofs/WFFuel.lean and Proofs/WFFuelSym.lean (section 4).
Sections 1, 2, 2b are over `realNum`; sections 3 and 4 hold for every number instance.
-/
import Smooth.Proofs.WFDriver
import Smooth.Proofs.WFRoutes
import Smooth.Proofs.WFObjects
import Smooth.Proofs.WFFuel
import Smooth.Proofs.WFFuelSym
import Smooth.Proofs.RoutesRun

namespace Smooth
open Expr

/-! ## 1. simplification keeps well-formedness, unconditionally -/

/-- **every one of the 46 rewrite rules** maps a well-formed expression to a well-formed expression
(no side condition; the K1 rule `nrootPow` included) -/
theorem rule_keeps_WF (r : RuleId) (e e' : Expr ℝ) (h : r.apply realNum e = some e') (hwf : WF e) :
    WF e' :=
  wfd_rule r h hwf

/-- **constant folding** (`_consolidate_expression_lacking_variables`): whatever `foldAttempt` answers,
the node that replaces `e` in `stepNode` — the `Constant` of the value, or `e` with
`_evaluation_failed` set — is well formed -/
theorem fold_keeps_WF (e : Expr ℝ) (hwf : WF e) :
    (∀ v, foldAttempt realNum e = some (.inl v) → WF (mkConst v : Expr ℝ)) ∧ WF e.markFailed :=
  ⟨fun v _ => wfd_fold v, (wf_markFailed e).mpr hwf⟩

/-- **one call of `_take_reduction_step`** (rule, constant fold, child step or flag) -/
theorem step_keeps_WF (e : Expr ℝ) (hwf : WF e) : WF (stepF realNum e).1 :=
  wfd_stepF e hwf

/-- **the `_fully_reduce` loop, for every budget** — also when the budget runs out and the partially
reduced form is returned with a warning -/
theorem fullyReduce_keeps_WF (bound : Nat) (e : Expr ℝ) (hwf : WF e) :
    WF (fullyReduceWith realNum bound e).expr :=
  wfd_fullyReduceWith bound hwf

/-- **the normal-form pass `_normalize_fully_reduced`** (every budget, every fuel) -/
theorem normReduced_keeps_WF (bound fuel : Nat) (e e' : Expr ℝ) (w : Bool)
    (h : normReducedF realNum bound fuel e = some (e', w)) (hwf : WF e) : WF e' :=
  wfd_normReducedF bound fuel hwf h

/-- **`_normalize()`** (every budget, every fuel) -/
theorem normalize_keeps_WF (bound fuel : Nat) (e e' : Expr ℝ) (w : Bool)
    (h : normalizeF realNum bound fuel e = some (e', w)) (hwf : WF e) : WF e' :=
  wfd_normalizeF bound fuel hwf h

/-- **`_retrieve_synthetic_partial`**: the simplified symbolic partial of a well-formed expression is
well formed -/
theorem retrieveSyntheticPartial_WF (e : Expr ℝ) (x : String) (s : Expr ℝ) (w : Bool)
    (h : retrieveSyntheticPartial realNum e x = .ok (s, w)) (hwf : WF e) : WF s :=
  wfd_retrieve h hwf

/-- **the table of `Differential(e, compute_early=True)`**: every stored component is well formed -/
theorem differential_table_WF (e : Expr ℝ) (d : SAcc ℝ) (w : Bool)
    (h : normalizeAll realNum (syntheticPartials realNum e) = .ok (d, w)) (hwf : WF e) :
    ∀ b ∈ d, WF b.2 :=
  wfd_differential_table h hwf

/-- … as an object: the table inside the constructed `Differential` -/
theorem differentialNew_table_WF (e : Expr ℝ) (D : DifferentialObj ℝ) (w : Bool)
    (h : DifferentialObj.new realNum e true = .ok (D, w)) (hwf : WF e) :
    ∃ d, D.syn = some d ∧ ∀ b ∈ d, WF b.2 := by
  obtain ⟨d, hn, rfl⟩ := differentialNew_early realNum e h
  exact ⟨d, rfl, wfd_differential_table hn hwf⟩

/-- **C16/C17: every expression an `as_expression()` route returns is well formed** — the six routes
by name -/
theorem exprRoutes_WF (e : Expr ℝ) (x : String) (s : Expr ℝ) (w : Bool) (hwf : WF e) :
    (routeExprP realNum e x = .ok (s, w) → WF s) ∧
    (routeExprPE realNum e x = .ok (s, w) → WF s) ∧
    (routeExprD realNum e = .ok (s, w) → WF s) ∧
    (routeExprDE realNum e = .ok (s, w) → WF s) ∧
    (routeExprFE realNum e x = .ok (s, w) → WF s) ∧
    (routeExprFL realNum e x = .ok (s, w) → WF s) :=
  ⟨fun h => wfd_routeExprP h hwf, fun h => wfd_routeExprPE h hwf, fun h => wfd_routeExprD h hwf,
    fun h => wfd_routeExprDE h hwf, fun h => wfd_routeExprFE h hwf, fun h => wfd_routeExprFL h hwf⟩

/-! ## 2. error kinds of the thirteen numeric routes -/

/-- `Partial(e, x).at(p)` -/
theorem routePL_error_kinds (e : Expr ℝ) (x : String) (p : Point ℝ) (hwf : WF e) (err : Err)
    (h : routePL realNum e x p = .error err) : err = .domain ∨ err = .missing ∨ err = .fuel :=
  wfd_routePL_error hwf h

/-- `Partial(e, x, compute_early=True).at(p)` -/
theorem routePE_error_kinds (e : Expr ℝ) (x : String) (p : Point ℝ) (hwf : WF e) (err : Err)
    (h : routePE realNum e x p = .error err) : err = .domain ∨ err = .missing ∨ err = .fuel :=
  wfd_routePE_error hwf h

/-- `P = Partial(e, x); P.as_expression(); P.at(p)` -/
theorem routePA_error_kinds (e : Expr ℝ) (x : String) (p : Point ℝ) (hwf : WF e) (err : Err)
    (h : routePA realNum e x p = .error err) : err = .domain ∨ err = .missing ∨ err = .fuel :=
  wfd_routePA_error hwf h

/-- `Derivative(e).at(p)` : additionally the documented generic exception (two or more variables) -/
theorem routeDL_error_kinds (e : Expr ℝ) (p : Point ℝ) (hwf : WF e) (err : Err)
    (h : routeDL realNum e p = .error err) :
    err = .domain ∨ err = .missing ∨ err = .fuel ∨ err = .usage :=
  wfd_routeDL_error hwf h

/-- `Derivative(e, compute_early=True).at(p)` -/
theorem routeDE_error_kinds (e : Expr ℝ) (p : Point ℝ) (hwf : WF e) (err : Err)
    (h : routeDE realNum e p = .error err) :
    err = .domain ∨ err = .missing ∨ err = .fuel ∨ err = .usage :=
  wfd_routeDE_error hwf h

/-- `D = Derivative(e); D.as_expression(); D.at(p)` -/
theorem routeDA_error_kinds (e : Expr ℝ) (p : Point ℝ) (hwf : WF e) (err : Err)
    (h : routeDA realNum e p = .error err) :
    err = .domain ∨ err = .missing ∨ err = .fuel ∨ err = .usage :=
  wfd_routeDA_error hwf h

/-- `Differential(e).component(x).at(p)` -/
theorem routeFCL_error_kinds (e : Expr ℝ) (x : String) (p : Point ℝ) (hwf : WF e) (err : Err)
    (h : routeFCL realNum e x p = .error err) : err = .domain ∨ err = .missing ∨ err = .fuel :=
  wfd_routeFCL_error hwf h

/-- `Differential(e, compute_early=True).component(x).at(p)` -/
theorem routeFCE_error_kinds (e : Expr ℝ) (x : String) (p : Point ℝ) (hwf : WF e) (err : Err)
    (h : routeFCE realNum e x p = .error err) : err = .domain ∨ err = .missing ∨ err = .fuel :=
  wfd_routeFCE_error hwf h

/-- `Differential(e).component_at(x, p)` -/
theorem routeFCAL_error_kinds (e : Expr ℝ) (x : String) (p : Point ℝ) (hwf : WF e) (err : Err)
    (h : routeFCAL realNum e x p = .error err) : err = .domain ∨ err = .missing ∨ err = .fuel :=
  wfd_routeFCAL_error hwf h

/-- `Differential(e, compute_early=True).component_at(x, p)` -/
theorem routeFCAE_error_kinds (e : Expr ℝ) (x : String) (p : Point ℝ) (hwf : WF e) (err : Err)
    (h : routeFCAE realNum e x p = .error err) : err = .domain ∨ err = .missing ∨ err = .fuel :=
  wfd_routeFCAE_error hwf h

/-- `Differential(e).at(p).component(x)` -/
theorem routeFATL_error_kinds (e : Expr ℝ) (x : String) (p : Point ℝ) (hwf : WF e) (err : Err)
    (h : routeFATL realNum e x p = .error err) : err = .domain ∨ err = .missing ∨ err = .fuel :=
  wfd_routeFATL_error hwf h

/-- `Differential(e, compute_early=True).at(p).component(x)` -/
theorem routeFATE_error_kinds (e : Expr ℝ) (x : String) (p : Point ℝ) (hwf : WF e) (err : Err)
    (h : routeFATE realNum e x p = .error err) : err = .domain ∨ err = .missing ∨ err = .fuel :=
  wfd_routeFATE_error hwf h

/-- `LocatedDifferential(e, p).component(x)` -/
theorem routeLD_error_kinds (e : Expr ℝ) (x : String) (p : Point ℝ) (hwf : WF e) (err : Err)
    (h : routeLD realNum e x p = .error err) : err = .domain ∨ err = .missing ∨ err = .fuel :=
  wfd_routeLD_error hwf h

/-- sharper, for the six routes that never run the simplifier (`compute_early=False`, no
`as_expression()`): `.fuel` cannot occur either -/
theorem late_routes_error_kinds (e : Expr ℝ) (x : String) (p : Point ℝ) (hwf : WF e) (err : Err) :
    (routePL realNum e x p = .error err → err = .domain ∨ err = .missing) ∧
    (routeFCL realNum e x p = .error err → err = .domain ∨ err = .missing) ∧
    (routeFCAL realNum e x p = .error err → err = .domain ∨ err = .missing) ∧
    (routeFATL realNum e x p = .error err → err = .domain ∨ err = .missing) ∧
    (routeLD realNum e x p = .error err → err = .domain ∨ err = .missing) ∧
    (routeDL realNum e p = .error err → err = .domain ∨ err = .missing ∨ err = .usage) :=
  wfd_late_routes_error hwf

/-- all thirteen at once (`numericRoutes`, Proofs/WFRoutes.lean, is the list
`[routePL, routePE, routePA, routeDL, routeDE, routeDA, routeFCL, routeFCE, routeFCAL, routeFCAE,
routeFATL, routeFATE, routeLD]` as functions of `(e, x, p)`; the `Derivative` routes ignore `x`) -/
theorem numericRoutes_error_kinds (e : Expr ℝ) (x : String) (p : Point ℝ) (hwf : WF e) (err : Err) :
    ∀ route ∈ numericRoutes, route e x p = .error err →
      err = .domain ∨ err = .missing ∨ err = .fuel ∨ err = .usage :=
  wfd_numericRoutes_error hwf

/-- the list really is the thirteen routes -/
theorem numericRoutes_eq : numericRoutes =
    [routePL realNum, routePE realNum, routePA realNum,
      fun e _ p => routeDL realNum e p, fun e _ p => routeDE realNum e p,
      fun e _ p => routeDA realNum e p,
      routeFCL realNum, routeFCE realNum, routeFCAL realNum, routeFCAE realNum,
      routeFATL realNum, routeFATE realNum, routeLD realNum] := rfl

/-- **C17 for the object layer: no route ever produces a CPython-level error** (nor the
exact-rational instance's `unsupported`), at any point whatsoever — inside, outside or on the boundary
of the domain, with or without missing coordinates, K1 or not -/
theorem no_python_error_routes (e : Expr ℝ) (x : String) (p : Point ℝ) (hwf : WF e) :
    ∀ route ∈ numericRoutes, ∀ k ∈ [Err.zeroDiv, .valueErr, .complex, .unsupported],
      route e x p ≠ .error k :=
  wfd_numericRoutes_no_python_error hwf

/-- the same, route by route and error by error (nothing hidden in a list) -/
theorem no_python_error_routes_named (e : Expr ℝ) (x : String) (p : Point ℝ) (hwf : WF e)
    (k : Err) (hk : k = .zeroDiv ∨ k = .valueErr ∨ k = .complex ∨ k = .unsupported) :
    routePL realNum e x p ≠ .error k ∧ routePE realNum e x p ≠ .error k ∧
    routePA realNum e x p ≠ .error k ∧ routeDL realNum e p ≠ .error k ∧
    routeDE realNum e p ≠ .error k ∧ routeDA realNum e p ≠ .error k ∧
    routeFCL realNum e x p ≠ .error k ∧ routeFCE realNum e x p ≠ .error k ∧
    routeFCAL realNum e x p ≠ .error k ∧ routeFCAE realNum e x p ≠ .error k ∧
    routeFATL realNum e x p ≠ .error k ∧ routeFATE realNum e x p ≠ .error k ∧
    routeLD realNum e x p ≠ .error k :=
  wfd_numericRoutes_named hwf k hk

/-! ## 2b. the same as an invariant of the objects, method by method

The thirteen routes are compositions of the methods of Model/Objects.lean.  The statements below are
about the methods themselves, for ANY object that satisfies the invariant "the original is well formed
and so is every stored simplified expression" (`PartialObj.WFInv`, `DerivativeObj.WFInv`,
`DifferentialObj.WFInv`, Proofs/WFObjects.lean) — which every public constructor establishes and every
method keeps.  So the error kinds hold for every sequence of public calls, not only for the thirteen
compositions. -/

/-- the constructors: `Partial(e, x[, compute_early])`, `Derivative(e[, compute_early])`,
`Differential(e[, compute_early])`, `LocatedDifferential(e, p)` -/
theorem constructors_error_kinds_and_invariant (e : Expr ℝ) (x : String) (early : Bool)
    (hwf : WF e) :
    ((∀ err, PartialObj.new realNum e x early = .error err → err = .fuel) ∧
      ∀ P w, PartialObj.new realNum e x early = .ok (P, w) → P.WFInv) ∧
    ((∀ err, DerivativeObj.new realNum e early = .error err → err = .fuel ∨ err = .usage) ∧
      ∀ D w, DerivativeObj.new realNum e early = .ok (D, w) → D.WFInv) ∧
    ((∀ err, DifferentialObj.new realNum e early = .error err → err = .fuel) ∧
      ∀ D w, DifferentialObj.new realNum e early = .ok (D, w) → D.WFInv) ∧
    (∀ p err, LocatedObj.new realNum e p = .error err → err = .domain ∨ err = .missing) :=
  ⟨⟨(wfd_partialNew x early hwf).1, fun P w h => ((wfd_partialNew x early hwf).2 P w h).1⟩,
    wfd_derivativeNew early hwf,
    ⟨(wfd_differentialNew early hwf).1, fun D w h => ((wfd_differentialNew early hwf).2 D w h).1⟩,
    fun p err h => wfd_locatedNew hwf p err h⟩

/-- the methods of `Partial`: `.at(point)` raises `DomainError`/`CoordinateMissing` only;
`.as_expression()` can only run out of the model's fuel, returns a well-formed expression and keeps
the invariant -/
theorem partial_methods (P : PartialObj ℝ) (hP : P.WFInv) :
    (∀ p err, P.at realNum p = .error err → err = .domain ∨ err = .missing) ∧
    (∀ err, P.asExpression realNum = .error err → err = .fuel) ∧
    (∀ s P' w, P.asExpression realNum = .ok (s, P', w) → WF s ∧ P'.WFInv) :=
  ⟨fun p err h => wfd_partialAt hP p err h, (wfd_partialAsExpression hP).1,
    fun s P' w h => ⟨((wfd_partialAsExpression hP).2 s P' w h).1,
      ((wfd_partialAsExpression hP).2 s P' w h).2.1⟩⟩

/-- the methods of `Derivative`: `.at(point)`, `.at(number)`, `.as_expression()` -/
theorem derivative_methods (D : DerivativeObj ℝ) (hD : D.WFInv) :
    (∀ p err, D.at realNum p = .error err → err = .domain ∨ err = .missing) ∧
    (∀ t err, D.atNumber realNum t = .error err → err = .domain ∨ err = .missing) ∧
    (∀ err, D.asExpression realNum = .error err → err = .fuel) ∧
    (∀ s D' w, D.asExpression realNum = .ok (s, D', w) → WF s ∧ D'.WFInv) :=
  ⟨fun p err h => (wfd_derivativeAt hD err).1 p h, fun t err h => (wfd_derivativeAt hD err).2 t h,
    (wfd_derivativeAsExpression hD).1, (wfd_derivativeAsExpression hD).2⟩

/-- the methods of `Differential`: `.component(variable)` never fails and yields a `Partial` with the
invariant; `.component_at(variable, point)` and `.at(point)` raise `DomainError`/`CoordinateMissing`
only (`LocatedDifferential.component` is total) -/
theorem differential_methods (D : DifferentialObj ℝ) (hD : D.WFInv) :
    (∀ x, ∃ P w, D.component realNum x = .ok (P, w) ∧ P.WFInv) ∧
    (∀ x p err, D.componentAt realNum x p = .error err → err = .domain ∨ err = .missing) ∧
    (∀ p err, D.at realNum p = .error err → err = .domain ∨ err = .missing) :=
  ⟨wfd_differentialComponent hD, fun x p err h => wfd_differentialComponentAt hD x p err h,
    fun p err h => wfd_differentialAt hD p err h⟩

/-! ## 3. error kinds of the six expression routes (nothing is evaluated)

These hold for every number instance and every expression, well formed or not. -/

/-- `Partial(e, x).as_expression()`, `Partial(e, x, compute_early=True).as_expression()`,
`Differential(e[, compute_early=True]).component(x).as_expression()` can only run out of the model's
fuel; the two `Derivative` routes can also raise the documented generic exception -/
theorem exprRoutes_error_kinds {α : Type} (N : Num α) (e : Expr α) (x : String) (err : Err) :
    (routeExprP N e x = .error err → err = .fuel) ∧
    (routeExprPE N e x = .error err → err = .fuel) ∧
    (routeExprD N e = .error err → err = .fuel ∨ err = .usage) ∧
    (routeExprDE N e = .error err → err = .fuel ∨ err = .usage) ∧
    (routeExprFE N e x = .error err → err = .fuel) ∧
    (routeExprFL N e x = .error err → err = .fuel) :=
  ⟨wfd_routeExprP_error N, wfd_routeExprPE_error N, wfd_routeExprD_error N,
    wfd_routeExprDE_error N, wfd_routeExprFE_error N, wfd_routeExprFL_error N⟩

/-- the `usage` outcome of the `Derivative` routes is exactly "not a single variable": it is the
error of `get_the_single_variable_name`, raised at construction -/
theorem derivative_usage_iff {α : Type} (N : Num α) (e : Expr α) :
    (routeExprD N e = .error .usage ↔ 2 ≤ e.vars.length) ∧
    (routeExprDE N e = .error .usage ↔ 2 ≤ e.vars.length) :=
  ⟨wfd_routeExprD_usage_iff N e, wfd_routeExprDE_usage_iff N e⟩

/-! ## 4. `.fuel` is a model artefact

`normalizeF`/`normReducedF` are fuel-indexed only because the Python recursion
(`Add/Multiply._normalize_fully_reduced` calls the full `_normalize()` of every term) is not
structural.  How the fuel is consumed: one unit per `_normalize` call and one per level of the
normal-form pass, i.e. at most two per level of the fully reduced tree, because after a
`_fully_reduce` that ended without the warning every node is flagged and every nested `_fully_reduce`
returns at once.  `wfdDepth` is the height of the tree (a leaf has depth 1).

NOT covered (stated, not proved): runs in which `_fully_reduce` exhausts its budget of 1000 steps and
warns.  Then the nested `_fully_reduce` calls do real work again with fresh budgets, and the only
bound on the total is the non-explicit lexicographic termination measure of Proofs/Measure (C11); an
explicit fuel bound in terms of the depth alone does not follow.  Also not covered: expressions whose
memo flags lie (`Settled` fails) — no public constructor or operation produces such a tree (C11). -/

/-- every rule, and hence every reduction step, raises the depth of the tree by at most one; so
`_fully_reduce` with budget `bound` returns a tree at most `bound` levels deeper (any number instance)
-/
theorem fullyReduce_depth {α : Type} (N : Num α) (bound : Nat) (e : Expr α) :
    (∀ (r : RuleId) (e' : Expr α), r.apply N e = some e' → wfdDepth e' ≤ wfdDepth e + 1) ∧
    wfdDepth (stepF N e).1 ≤ wfdDepth e + 1 ∧
    wfdDepth (fullyReduceWith N bound e).expr ≤ wfdDepth e + bound :=
  ⟨fun r _ h => wfd_rule_depth N r h, wfd_stepF_depth N e, wfd_fullyReduceWith_depth N bound e⟩

/-- the normal-form pass on a tree all of whose nodes are flagged: `2 · depth` units suffice, for
every budget -/
theorem normReduced_enough_fuel {α : Type} (N : Num α) (bound fuel : Nat) (e : Expr α)
    (hred : wfdAllRed e) (hd : 2 * wfdDepth e ≤ fuel) :
    ∃ r, normReducedF N bound fuel e = some r :=
  wfd_normReducedF_some N bound fuel hred hd

/-- **`_normalize()` does not run out of fuel**: honest flags (`Settled`; in particular no flag at
all), no warning, and `2 · (depth + budget) + 1 ≤ fuel` -/
theorem normalize_enough_fuel {α : Type} (N : Num α) (bound fuel : Nat) (e : Expr α)
    (hs : Settled N e) (hw : (fullyReduceWith N bound e).warned = false)
    (hd : 2 * (wfdDepth e + bound) + 1 ≤ fuel) : ∃ r, normalizeF N bound fuel e = some r :=
  wfd_normalizeF_some N bound fuel hs hw hd

/-- with the constants of the implementation (`REDUCTION_STEPS_BOUND = 1000`,
`NORMALIZE_FUEL = 100000`): every expression of depth at most 48999 -/
theorem normalize_enough_fuel_default {α : Type} (N : Num α) (e : Expr α) (hs : Settled N e)
    (hw : (fullyReduce N e).warned = false) (hd : wfdDepth e ≤ 48999) :
    ∃ r, normalize N e = some r :=
  wfd_normalize_some N hs hw hd

/-- symbolic differentiation keeps the flags honest (fresh nodes around sub-trees of the original),
so the hypothesis `Settled` is about the user's expression only; an expression without any flag — as
every constructor builds it — is settled -/
theorem symbolic_keeps_settled {α : Type} (N : Num α) (e : Expr α) (hs : Settled N e) :
    (∀ x, Settled N (symFwd N x e)) ∧
    (∀ y s, SAcc.get? (syntheticPartials N e) y = some s → Settled N s) ∧
    Settled N e.fresh :=
  ⟨fun x => wfd_settled_symFwd N x e hs, fun _ _ h => wfd_settled_syntheticPartials N hs h,
    settled_fresh N e⟩

/-- **`_retrieve_synthetic_partial` does not answer `.fuel`** (it succeeds): honest flags, the
rewriter's run on the raw symbolic partial ends without the warning, depth of the raw partial ≤ 48999
-/
theorem retrieveSyntheticPartial_no_fuel {α : Type} (N : Num α) (e : Expr α) (x : String)
    (hs : Settled N e) (hw : (fullyReduce N (symFwd N x e)).warned = false)
    (hd : wfdDepth (symFwd N x e) ≤ 48999) :
    (∃ s w, retrieveSyntheticPartial N e x = .ok (s, w)) ∧
      retrieveSyntheticPartial N e x ≠ .error .fuel := by
  obtain ⟨s, w, h⟩ := wfd_retrieve_ok N x hs hw hd
  exact ⟨⟨s, w, h⟩, by rw [h]; intro h'; cases h'⟩

/-- the same for the construction of `Differential(e, compute_early=True)` -/
theorem differentialNew_no_fuel {α : Type} (N : Num α) (e : Expr α) (hs : Settled N e)
    (hw : ∀ y s, SAcc.get? (syntheticPartials N e) y = some s →
      (fullyReduce N s).warned = false ∧ wfdDepth s ≤ 48999) :
    ∃ D w, DifferentialObj.new N e true = .ok (D, w) := by
  obtain ⟨d, w, h⟩ := wfd_normalizeAll_ok N hs hw
  exact ⟨⟨e, some d⟩, w, by simp [DifferentialObj.new, h, bind, Except.bind, pure, Except.pure]⟩

/-- **consequently the routes through the simplified forward partial raise only the library's own
errors** — `.fuel` is gone from the list of section 2 -/
theorem forward_early_routes_error_kinds_enough_fuel (e : Expr ℝ) (x : String) (p : Point ℝ)
    (hwf : WF e) (hs : Settled realNum e)
    (hw : (fullyReduce realNum (symFwd realNum x e)).warned = false)
    (hd : wfdDepth (symFwd realNum x e) ≤ 48999) (err : Err) :
    (routePE realNum e x p = .error err → err = .domain ∨ err = .missing) ∧
    (routePA realNum e x p = .error err → err = .domain ∨ err = .missing) :=
  ⟨wfd_routePE_error_dm hwf (wfd_retrieve_ok realNum x hs hw hd),
    wfd_routePA_error_dm hwf (wfd_retrieve_ok realNum x hs hw hd)⟩

/-- … and the routes through the table of an early `Differential` -/
theorem differential_early_routes_error_kinds_enough_fuel (e : Expr ℝ) (x : String) (p : Point ℝ)
    (hwf : WF e) (hs : Settled realNum e)
    (hw : ∀ y s, SAcc.get? (syntheticPartials realNum e) y = some s →
      (fullyReduce realNum s).warned = false ∧ wfdDepth s ≤ 48999) (err : Err) :
    (routeFCE realNum e x p = .error err → err = .domain ∨ err = .missing) ∧
    (routeFCAE realNum e x p = .error err → err = .domain ∨ err = .missing) ∧
    (routeFATE realNum e x p = .error err → err = .domain ∨ err = .missing) :=
  ⟨wfd_routeFCE_error_dm hwf (wfd_normalizeAll_ok realNum hs hw),
    wfd_routeFCAE_error_dm hwf (wfd_normalizeAll_ok realNum hs hw),
    wfd_routeFATE_error_dm hwf (wfd_normalizeAll_ok realNum hs hw)⟩

/-! ## 5. non-vacuity -/

/-- `Divide(x, y)`: two variables, a genuine domain restriction -/
abbrev c17DivXY : Expr ℝ := mkDiv (mkVar "x") (mkVar "y")

example : WF c17DivXY := by simp [WF]

/-- at `y = 0` (outside the domain) the late routes raise `DomainError`; at `y = 2` they return a
number; with the coordinate `y` missing they raise `CoordinateMissing`; and `Derivative` of this
two-variable expression raises the generic exception — all four of the allowed outcomes occur -/
example :
    routePL realNum c17DivXY "x" [("x", 1), ("y", 0)] = .error .domain ∧
    routeLD realNum c17DivXY "x" [("x", 1), ("y", 0)] = .error .domain ∧
    routeFATL realNum c17DivXY "y" [("x", 1), ("y", 0)] = .error .domain ∧
    (∃ v, routePL realNum c17DivXY "x" [("x", 1), ("y", 2)] = .ok v) ∧
    (∃ v, routeLD realNum c17DivXY "y" [("x", 1), ("y", 2)] = .ok v) ∧
    routePL realNum c17DivXY "x" [("x", 1)] = .error .missing ∧
    routeDL realNum c17DivXY [("x", 1), ("y", 2)] = .error .usage ∧
    routeExprD realNum c17DivXY = .error .usage := by
  have hwf : WF c17DivXY := by simp [WF]
  have hs0 : Supp [("x", (1 : ℝ)), ("y", 0)] c17DivXY := by simp [Supp, Point.get?]
  have hs2 : Supp [("x", (1 : ℝ)), ("y", 2)] c17DivXY := by simp [Supp, Point.get?]
  have hnd : ¬ Dom (valOf [("x", (1 : ℝ)), ("y", 0)]) c17DivXY := by
    simp [Dom, den, valOf, Point.get?]
  have hd : Dom (valOf [("x", (1 : ℝ)), ("y", 2)]) c17DivXY := by
    simp [Dom, den, valOf, Point.get?]
  have hvars : c17DivXY.vars = ["x", "y"] := by decide
  refine ⟨routes_PL_off "x" hwf hs0 hnd, routes_LD_off "x" hwf hs0 hnd,
    routes_FATL_off "y" hwf hs0 hnd, ⟨_, routes_PL_on "x" hwf hs2 hd⟩,
    ⟨_, routes_LD_on "y" hwf hs2 hd⟩, ?_, ?_, ?_⟩
  · simp [routePL_eq, fwdG, evalG, Point.get?, bind, Except.bind, pure, Except.pure, throw,
      throwThe, MonadExceptOf.throw]
  · rw [routeDL_eq]; simp [singleVarName, hvars, bind, Except.bind, throw, throwThe,
      MonadExceptOf.throw]
  · exact (derivative_usage_iff realNum c17DivXY).1.mpr (by rw [hvars]; decide)

/-- a route THROUGH the simplifier (`compute_early=True`, and after `as_expression()`), on
`Reciprocal(y)` whose simplification run is replayed in Proofs/RoutesRun.lean: `DomainError` at
`y = 0`, a number at `y = 2`; and the expression handed out is well formed -/
example :
    routePE realNum runRcExpr "y" [("y", 0)] = .error .domain ∧
    routePA realNum runRcExpr "y" [("y", 0)] = .error .domain ∧
    routeFATE realNum runRcExpr "y" [("y", 0)] = .error .domain ∧
    (∃ v, routePE realNum runRcExpr "y" [("y", 2)] = .ok v) ∧
    (∃ v, routeFATE realNum runRcExpr "y" [("y", 2)] = .ok v) ∧
    (∃ s w, routeExprP realNum runRcExpr "y" = .ok (s, w) ∧ WF s) := by
  have hwf : WF runRcExpr := by simp [WF]
  have hs0 : Supp [("y", (0 : ℝ))] runRcExpr := by simp [Supp, Point.get?]
  have hs2 : Supp [("y", (2 : ℝ))] runRcExpr := by simp [Supp, Point.get?]
  have hnd : ¬ Dom (valOf [("y", (0 : ℝ))]) runRcExpr := by simp [Dom, den, valOf, Point.get?]
  have hd : Dom (valOf [("y", (2 : ℝ))]) runRcExpr := by simp [Dom, den, valOf, Point.get?]
  obtain ⟨s, w, hret⟩ := routes_retrieve_ok "y" runRc_fuelFwd
  refine ⟨routes_PE_off "y" hwf hs0 hnd runRc_fuelFwd, routes_PA_off "y" hwf hs0 hnd runRc_fuelFwd,
    routes_FATE_off "y" hwf hs0 hnd runRc_fuelRev,
    ⟨_, routes_PE_on "y" hwf hs2 hd runRc_K1Fwd runRc_fuelFwd⟩,
    ⟨_, routes_FATE_on "y" hwf hs2 hd runRc_K1Rev runRc_fuelRev⟩, s, w, ?_, ?_⟩
  · rw [routeExprP_eq]; exact hret
  · exact retrieveSyntheticPartial_WF _ _ _ _ hret hwf

/-- **K1**: `NthRoot(NthPower(x, 2), 2)` (= |x|).  Its simplified partial `Divide(x, x)` is handed
out by `as_expression()`; the run that produces it uses the unsound rule `nrootPow`; the result is
WELL FORMED (`exprRoutes_WF` applies, no K1 hypothesis), although its meaning changed: at `x = -3`
the late route answers the true partial `-1`, the routes through the simplified tree answer `+1` —
a wrong number, but a number: no CPython-level error, as `routePE_error_kinds` promises -/
example :
    routeExprP realNum (mkNRoot (mkNPow (mkVar "x") 2) 2) "x" =
        .ok (mkDiv (mkVar "x") (mkVar "x"), false) ∧
      StepEvent.rule .nrootPow ∈
        (fullyReduce realNum (symFwd realNum "x" (mkNRoot (mkNPow (mkVar "x") 2) 2))).trace ∧
      WF (mkDiv (mkVar "x") (mkVar "x") : Expr ℝ) ∧
      routePL realNum (mkNRoot (mkNPow (mkVar "x") 2) 2) "x" [("x", (-3 : ℝ))] = .ok (-1) ∧
      routePE realNum (mkNRoot (mkNPow (mkVar "x") 2) 2) "x" [("x", (-3 : ℝ))] = .ok 1 := by
  have hexpr : routeExprP realNum (mkNRoot (mkNPow (mkVar "x") 2) 2 : Expr ℝ) "x" =
      .ok (mkDiv (mkVar "x") (mkVar "x"), false) := by
    rw [routeExprP_eq]
    simp only [retrieveSyntheticPartial, runK1_symFwd, runK1_normalize, liftFuel]
    rfl
  refine ⟨hexpr, ?_, ?_, runK1_routes_disagree.1, runK1_routes_disagree.2.1⟩
  · rw [runK1_symFwd]; exact runK1_run_uses_nrootPow
  · exact (exprRoutes_WF _ "x" _ false (by simp [WF])).1 hexpr

/-- the K1 rule itself, on its smallest redex: well-formedness is kept (the theorem of section 1
applies), the meaning is not (`rule_soundness_fails_at_K1` in Properties/C08.lean) -/
example :
    RuleId.nrootPow.apply realNum (mkNRoot (mkNPow (mkVar "x") 2) 2 : Expr ℝ) =
        some (mkNPow (mkNRoot (mkVar "x") 2) 2) ∧
      WF (mkNPow (mkNRoot (mkVar "x") 2) 2 : Expr ℝ) ∧
      ¬ Refines (mkNRoot (mkNPow (mkVar "x") 2) 2 : Expr ℝ) (mkNPow (mkNRoot (mkVar "x") 2) 2) :=
  ⟨rfl, rule_keeps_WF .nrootPow (mkNRoot (mkNPow (mkVar "x") 2) 2) _ rfl (by simp [WF]),
    nrootPow_unsound⟩

/-- the hypotheses of section 4 on `Reciprocal(y)`: no flag set, the replayed run of the rewriter on
the raw partial ends without the warning, and the raw partial is 6 levels deep -/
example :
    Settled realNum runRcExpr ∧
      (fullyReduce realNum (symFwd realNum "y" runRcExpr)).warned = false ∧
      wfdDepth (symFwd realNum "y" runRcExpr) ≤ 48999 ∧
      retrieveSyntheticPartial realNum runRcExpr "y" ≠ .error .fuel := by
  have h1 : Settled realNum runRcExpr := settled_fresh realNum runRcExpr
  have h2 : (fullyReduce realNum (symFwd realNum "y" runRcExpr)).warned = false := by
    rw [runRc_symFwd, fullyReduce, runRc_fullyReduce]
  have h3 : wfdDepth (symFwd realNum "y" runRcExpr) ≤ 48999 := by
    rw [runRc_symFwd]; simp [runRcE0, wfdDepth]
  exact ⟨h1, h2, h3, (retrieveSyntheticPartial_no_fuel realNum _ "y" h1 h2 h3).2⟩

/-- fuel CAN run out in the model when it is set absurdly low: that is all `.fuel` means -/
example : normalizeF realNum REDUCTION_STEPS_BOUND 1 (mkVar "x" : Expr ℝ) = none := by
  simp [normalizeF, normReducedF]

end Smooth
