/-
Model/Routes — every public differentiation route of the object layer (`Partial`, `Derivative`,
`Differential`, `LocatedDifferential`; computed early or late; `.at`, `.component(..).at`,
`.component_at`, `.at(..).component`, after `as_expression()` or before) as one function each.  The
native driver (Main.lean, requests `route` and `asexpr`) executes exactly these definitions against
the Python implementation; Proofs/Routes.lean and Properties/C06.lean prove that they agree.
-/
import Smooth.Model.Objects

namespace Smooth

/-! ### the thirteen routes -/

section defs
variable {α : Type} (N : Num α)

/-- `Partial(e, x).at(p)` -/
def routePL (e : Expr α) (x : String) (p : Point α) : R α := do
  let (P, _) ← PartialObj.new N e x false
  P.at N p

/-- `Partial(e, x, compute_early=True).at(p)` -/
def routePE (e : Expr α) (x : String) (p : Point α) : R α := do
  let (P, _) ← PartialObj.new N e x true
  P.at N p

/-- `P = Partial(e, x); P.as_expression(); P.at(p)` -/
def routePA (e : Expr α) (x : String) (p : Point α) : R α := do
  let (P, _) ← PartialObj.new N e x false
  let (_, P', _) ← P.asExpression N
  P'.at N p

/-- `Derivative(e).at(p)` -/
def routeDL (e : Expr α) (p : Point α) : R α := do
  let (D, _) ← DerivativeObj.new N e false
  D.at N p

/-- `Derivative(e, compute_early=True).at(p)` -/
def routeDE (e : Expr α) (p : Point α) : R α := do
  let (D, _) ← DerivativeObj.new N e true
  D.at N p

/-- `D = Derivative(e); D.as_expression(); D.at(p)` -/
def routeDA (e : Expr α) (p : Point α) : R α := do
  let (D, _) ← DerivativeObj.new N e false
  let (_, D', _) ← D.asExpression N
  D'.at N p

/-- `Differential(e).component(x).at(p)` -/
def routeFCL (e : Expr α) (x : String) (p : Point α) : R α := do
  let (D, _) ← DifferentialObj.new N e false
  let (P, _) ← D.component N x
  P.at N p

/-- `Differential(e, compute_early=True).component(x).at(p)` -/
def routeFCE (e : Expr α) (x : String) (p : Point α) : R α := do
  let (D, _) ← DifferentialObj.new N e true
  let (P, _) ← D.component N x
  P.at N p

/-- `Differential(e).component_at(x, p)` -/
def routeFCAL (e : Expr α) (x : String) (p : Point α) : R α := do
  let (D, _) ← DifferentialObj.new N e false
  D.componentAt N x p

/-- `Differential(e, compute_early=True).component_at(x, p)` -/
def routeFCAE (e : Expr α) (x : String) (p : Point α) : R α := do
  let (D, _) ← DifferentialObj.new N e true
  D.componentAt N x p

/-- `Differential(e).at(p).component(x)` -/
def routeFATL (e : Expr α) (x : String) (p : Point α) : R α := do
  let (D, _) ← DifferentialObj.new N e false
  let L ← D.at N p
  pure (L.component N x)

/-- `Differential(e, compute_early=True).at(p).component(x)` -/
def routeFATE (e : Expr α) (x : String) (p : Point α) : R α := do
  let (D, _) ← DifferentialObj.new N e true
  let L ← D.at N p
  pure (L.component N x)

/-- `LocatedDifferential(e, p).component(x)` -/
def routeLD (e : Expr α) (x : String) (p : Point α) : R α := do
  let L ← LocatedObj.new N e p
  pure (L.component N x)

/-! the four `as_expression()` routes (the driver's `asExpr`): the expression and "a warning was
logged" -/

/-- `Partial(e, x).as_expression()` -/
def routeExprP (e : Expr α) (x : String) : R (Expr α × Bool) := do
  let (P, _) ← PartialObj.new N e x false
  let (s, _, w) ← P.asExpression N
  pure (s, w)

/-- `Partial(e, x, compute_early=True).as_expression()` -/
def routeExprPE (e : Expr α) (x : String) : R (Expr α × Bool) := do
  let (P, w) ← PartialObj.new N e x true
  let (s, _, _) ← P.asExpression N
  pure (s, w)

/-- `Derivative(e).as_expression()` -/
def routeExprD (e : Expr α) : R (Expr α × Bool) := do
  let (D, _) ← DerivativeObj.new N e false
  let (s, _, w) ← D.asExpression N
  pure (s, w)

/-- `Derivative(e, compute_early=True).as_expression()` -/
def routeExprDE (e : Expr α) : R (Expr α × Bool) := do
  let (D, w) ← DerivativeObj.new N e true
  let (s, _, _) ← D.asExpression N
  pure (s, w)

/-- `Differential(e, compute_early=True).component(x).as_expression()` -/
def routeExprFE (e : Expr α) (x : String) : R (Expr α × Bool) := do
  let (D, w) ← DifferentialObj.new N e true
  let (P, _) ← D.component N x
  let (s, _, w') ← P.asExpression N
  pure (s, w || w')

/-- `Differential(e).component(x).as_expression()` -/
def routeExprFL (e : Expr α) (x : String) : R (Expr α × Bool) := do
  let (D, _) ← DifferentialObj.new N e false
  let (P, _) ← D.component N x
  let (s, _, w) ← P.asExpression N
  pure (s, w)

end defs

end Smooth
