/-
Model/Symbolic — `_synthetic_partial` (symbolic forward mode) and `_compute_synthetic_partials`
(symbolic reverse mode with `SyntheticPartialsAccumulator`) of every class.  The builders share the
operand objects of the original: in the model the operand sub-trees are copied *with their flags*.
-/
import Smooth.Model.Numeric

namespace Smooth
variable {α : Type}
open Expr

/-- `_synthetic_partial_formula(multiplier)` of the unary classes; `e` is the node itself. -/
def unarySymFormula (N : Num α) (e : Expr α) (m : Expr α) : Expr α :=
  match e with
  | .neg _ _ => mkNeg m
  | .recip _ u => mkNeg (mkDiv m (mkNPow u 2))
  | .npow _ u n =>
      if n = 1 then m else mkMul [mkConst (N.ofNat n), mkNPow u (n - 1), m]
  | .nroot _ _ n =>
      if n = 1 then m else mkDiv m (mkMul [mkConst (N.ofNat n), mkNPow e (n - 1)])
  | .exp _ _ b =>
      if N.eq b N.one then mkConst N.zero
      else if N.eq b N.e then mkMul [e, m]
      else mkMul [mkLog (mkConst b) N.e, e, m]
  | .log _ u b =>
      if N.eq b N.e then mkDiv m u
      else mkDiv m (mkMul [mkLog (mkConst b) N.e, u])
  | .cos _ u => mkMul [mkNeg (mkSin u), m]
  | .sin _ u => mkMul [mkCos u, m]
  | _ => m

def divSymLeft (_l r m : Expr α) : Expr α := mkDiv m r
def divSymRight (l r m : Expr α) : Expr α := mkMul [mkNeg (mkDiv l (mkNPow r 2)), m]
def powSymLeft (N : Num α) (l r m : Expr α) : Expr α :=
  mkMul [r, mkPow l (mkMinus r (mkConst N.one)), m]
def powSymRight (N : Num α) (self l m : Expr α) : Expr α :=
  mkMul [mkLog l N.e, self, m]

/-- the summands of the symbolic product rule: `Multiply(d_i, *inners_without_i)` -/
def symMulTermsGo (as : List (Expr α)) : Nat → List (Expr α) → List (Expr α)
  | _, [] => []
  | i, d :: ds => mkMul (d :: as.eraseIdx i) :: symMulTermsGo as (i + 1) ds

def symMulTerms (ds as : List (Expr α)) : List (Expr α) := symMulTermsGo as 0 ds

mutual
/-- `_synthetic_partial(variable_name)` -/
def symFwd (N : Num α) (x : String) : Expr α → Expr α
  | .const _ _ => mkConst N.zero
  | .var _ y => if y == x then mkConst N.one else mkConst N.zero
  | .add _ as => mkAdd (symFwdList N x as)
  | .minus _ l r => mkMinus (symFwd N x l) (symFwd N x r)
  | .mul _ as => mkAdd (symMulTerms (symFwdList N x as) as)
  | .div _ l r =>
      mkAdd [divSymLeft l r (symFwd N x l), divSymRight l r (symFwd N x r)]
  | .pow f l r =>
      mkAdd [powSymLeft N l r (symFwd N x l), powSymRight N (.pow f l r) l (symFwd N x r)]
  | .neg f u => unarySymFormula N (.neg f u) (symFwd N x u)
  | .recip f u => unarySymFormula N (.recip f u) (symFwd N x u)
  | .npow f u n => unarySymFormula N (.npow f u n) (symFwd N x u)
  | .nroot f u n => unarySymFormula N (.nroot f u n) (symFwd N x u)
  | .exp f u b => unarySymFormula N (.exp f u b) (symFwd N x u)
  | .log f u b => unarySymFormula N (.log f u b) (symFwd N x u)
  | .cos f u => unarySymFormula N (.cos f u) (symFwd N x u)
  | .sin f u => unarySymFormula N (.sin f u) (symFwd N x u)
def symFwdList (N : Num α) (x : String) : List (Expr α) → List (Expr α)
  | [] => []
  | e :: es => symFwd N x e :: symFwdList N x es
end

/-- `SyntheticPartialsAccumulator._synthetic_partials` -/
abbrev SAcc (α : Type) := List (String × Expr α)

def SAcc.get? (acc : SAcc α) (x : String) : Option (Expr α) :=
  match acc with
  | [] => none
  | (y, v) :: rest => if y == x then some v else SAcc.get? rest x

def SAcc.set (acc : SAcc α) (x : String) (v : Expr α) : SAcc α :=
  match acc with
  | [] => [(x, v)]
  | (y, w) :: rest => if y == x then (y, v) :: rest else (y, w) :: SAcc.set rest x v

/-- `add_to` : `existing + contribution` is the binary `Add(existing, contribution)`. -/
def SAcc.addTo (acc : SAcc α) (x : String) (c : Expr α) : SAcc α :=
  match acc.get? x with
  | none => acc.set x c
  | some ex => acc.set x (mkAdd [ex, c])

mutual
/-- `_compute_synthetic_partials(accumulator, multiplier)` -/
def symRev (N : Num α) : Expr α → Expr α → SAcc α → SAcc α
  | .const _ _, _, acc => acc
  | .var _ y, m, acc => acc.addTo y m
  | .add _ as, m, acc => symRevList N as m acc
  | .minus _ l r, m, acc => symRev N r (mkNeg m) (symRev N l m acc)
  | .mul _ as, m, acc => symRevMul N as m 0 as acc
  | .div _ l r, m, acc =>
      symRev N r (divSymRight l r m) (symRev N l (divSymLeft l r m) acc)
  | .pow f l r, m, acc =>
      symRev N r (powSymRight N (.pow f l r) l m) (symRev N l (powSymLeft N l r m) acc)
  | .neg f u, m, acc => symRev N u (unarySymFormula N (.neg f u) m) acc
  | .recip f u, m, acc => symRev N u (unarySymFormula N (.recip f u) m) acc
  | .npow f u n, m, acc => symRev N u (unarySymFormula N (.npow f u n) m) acc
  | .nroot f u n, m, acc => symRev N u (unarySymFormula N (.nroot f u n) m) acc
  | .exp f u b, m, acc => symRev N u (unarySymFormula N (.exp f u b) m) acc
  | .log f u b, m, acc => symRev N u (unarySymFormula N (.log f u b) m) acc
  | .cos f u, m, acc => symRev N u (unarySymFormula N (.cos f u) m) acc
  | .sin f u, m, acc => symRev N u (unarySymFormula N (.sin f u) m) acc
def symRevList (N : Num α) : List (Expr α) → Expr α → SAcc α → SAcc α
  | [], _, acc => acc
  | e :: es, m, acc => symRevList N es m (symRev N e m acc)
/-- `Multiply` loop: `all` are all factors, `i` the index of the head of the remaining list. -/
def symRevMul (N : Num α) (all : List (Expr α)) (m : Expr α) (i : Nat) :
    List (Expr α) → SAcc α → SAcc α
  | [], acc => acc
  | e :: es, acc =>
      symRevMul N all m (i + 1) es (symRev N e (mkMul (m :: all.eraseIdx i)) acc)
end

/-- `_synthetic_partials()` : multiplier `Constant(1)`, read back per variable (default
`Constant(0)`). -/
def syntheticPartials (N : Num α) (e : Expr α) : SAcc α :=
  let acc := symRev N e (mkConst N.one) []
  e.vars.map fun x => (x, (acc.get? x).getD (mkConst N.zero))

end Smooth
