/-
Model/Surface — what is observable of the objects themselves: `__eq__`, `__hash__` (as the key the
Python code hands to `hash`), `__repr__`/`__str__` (as a token stream) with a parser for it,
constructor validation, operator dunders, `Point`.
-/
import Smooth.Model.Objects

namespace Smooth
variable {α : Type}
open Expr

/-! ### `__eq__` -/

mutual
/-- `a == b` for expressions: same class, children pairwise equal in order, parameter `==`. -/
def beq (N : Num α) : Expr α → Expr α → Bool
  | .const _ v, .const _ w => N.eq w v
  | .var _ x, .var _ y => x == y
  | .add _ as, .add _ bs => beqList N as bs
  | .mul _ as, .mul _ bs => beqList N as bs
  | .minus _ a b, .minus _ c d => beq N a c && beq N b d
  | .div _ a b, .div _ c d => beq N a c && beq N b d
  | .pow _ a b, .pow _ c d => beq N a c && beq N b d
  | .neg _ a, .neg _ b => beq N a b
  | .recip _ a, .recip _ b => beq N a b
  | .cos _ a, .cos _ b => beq N a b
  | .sin _ a, .sin _ b => beq N a b
  | .npow _ a n, .npow _ b m => beq N a b && n == m
  | .nroot _ a n, .nroot _ b m => beq N a b && n == m
  | .exp _ a x, .exp _ b y => beq N a b && N.eq y x
  | .log _ a x, .log _ b y => beq N a b && N.eq y x
  | _, _ => false
def beqList (N : Num α) : List (Expr α) → List (Expr α) → Bool
  | [], [] => true
  | a :: as, b :: bs => beq N a b && beqList N as bs
  | _, _ => false
end

/-- `Point.__eq__` : dictionary equality — same key set, equal values, order irrelevant. -/
def pointBeq (N : Num α) (p q : Point α) : Bool :=
  p.length == q.length &&
  p.all fun (x, v) => match Point.get? q x with
    | some w => N.eq v w
    | none => false

/-! ### `__hash__` : the structure handed to Python's `hash` -/

inductive HKey (α : Type) where
  | str (s : String)
  | nat (n : Nat)
  | num (v : α)
  | tup (items : List (HKey α))

mutual
def hashKey : Expr α → HKey α
  | .const _ v => .tup [.str "Constant", .num v]
  | .var _ x => .tup [.str "Variable", .str x]
  | .add _ as => .tup [.str "Add", .nat as.length, .tup (hashKeyList as)]
  | .mul _ as => .tup [.str "Multiply", .nat as.length, .tup (hashKeyList as)]
  | .minus _ a b => .tup [.str "Minus", hashKey a, hashKey b]
  | .div _ a b => .tup [.str "Divide", hashKey a, hashKey b]
  | .pow _ a b => .tup [.str "Power", hashKey a, hashKey b]
  | .neg _ a => .tup [.str "Negation", hashKey a]
  | .recip _ a => .tup [.str "Reciprocal", hashKey a]
  | .cos _ a => .tup [.str "Cosine", hashKey a]
  | .sin _ a => .tup [.str "Sine", hashKey a]
  | .npow _ a n => .tup [.str "NthPower", hashKey a, .nat n]
  | .nroot _ a n => .tup [.str "NthRoot", hashKey a, .nat n]
  | .exp _ a b => .tup [.str "Exponential", hashKey a, .num b]
  | .log _ a b => .tup [.str "Logarithm", hashKey a, .num b]
def hashKeyList : List (Expr α) → List (HKey α)
  | [] => []
  | e :: es => hashKey e :: hashKeyList es
end

mutual
/-- equality of hash keys up to `==` on numbers (what CPython's `hash` is trusted to respect) -/
def HKey.same (N : Num α) : HKey α → HKey α → Bool
  | .str a, .str b => a == b
  | .nat a, .nat b => a == b
  | .num a, .num b => N.eq a b
  | .tup as, .tup bs => HKey.sameList N as bs
  | _, _ => false
def HKey.sameList (N : Num α) : List (HKey α) → List (HKey α) → Bool
  | [], [] => true
  | a :: as, b :: bs => HKey.same N a b && HKey.sameList N as bs
  | _, _ => false
end

/-! ### the derivative objects and points as values: `__eq__` and `__hash__` -/

/-- what `==`/`hash` look at in each public object (`Partial` : original expression and variable
name; `Derivative`/`Differential` : original expression; `LocatedDifferential` : original expression
and point) — the memoised symbolic partials and the numeric partials play no role -/
inductive Obj (α : Type) where
  | expr (e : Expr α)
  | point (p : Point α)
  | partial_ (e : Expr α) (x : String)
  | derivative (e : Expr α)
  | differential (e : Expr α)
  | located (e : Expr α) (p : Point α)

/-- `__eq__` of the five public classes and of expressions: first the classes must be the same -/
def Obj.beq (N : Num α) : Obj α → Obj α → Bool
  | .expr a, .expr b => Smooth.beq N a b
  | .point p, .point q => pointBeq N q p          -- `other._coordinates == self._coordinates`
  | .partial_ a x, .partial_ b y => Smooth.beq N a b && x == y
  | .derivative a, .derivative b => Smooth.beq N a b
  | .differential a, .differential b => Smooth.beq N a b
  | .located a p, .located b q => Smooth.beq N a b && pointBeq N p q
  | _, _ => false

/-- `tuple(sorted(self._coordinates.items()))` : names are distinct, so the order is by name -/
def sortedItems (p : Point α) : List (String × α) :=
  p.mergeSort fun a b => decide (a.1 ≤ b.1)

def pointHashKey (p : Point α) : HKey α :=
  .tup [.str "Point", .tup ((sortedItems p).map fun (x, v) => .tup [.str x, .num v])]

/-- the tuple handed to `hash` (`Partial` leaves the variable out) -/
def Obj.hashKey : Obj α → HKey α
  | .expr e => Smooth.hashKey e
  | .point p => pointHashKey p
  | .partial_ e _ => .tup [.str "Partial", Smooth.hashKey e]
  | .derivative e => .tup [.str "Derivative", Smooth.hashKey e]
  | .differential e => .tup [.str "Differential", Smooth.hashKey e]
  | .located e p => .tup [.str "LocatedDifferential", Smooth.hashKey e, pointHashKey p]

/-! ### `__repr__` as tokens, and a parser -/

inductive Tok (α : Type) where
  | ident (s : String) | lp | rp | comma | eqs | str (s : String) | num (v : α) | nat (n : Nat)

/-- separate rendered items by `,` -/
def joinComma : List (List (Tok α)) → List (Tok α)
  | [] => []
  | [x] => x
  | x :: xs => x ++ [.comma] ++ joinComma xs

mutual
def render : Expr α → List (Tok α)
  | .const _ v => [.ident "Constant", .lp, .num v, .rp]
  | .var _ x => [.ident "Variable", .lp, .str x, .rp]
  | .add _ as => [.ident "Add", .lp] ++ joinComma (renderList as) ++ [.rp]
  | .mul _ as => [.ident "Multiply", .lp] ++ joinComma (renderList as) ++ [.rp]
  | .minus _ a b => [.ident "Minus", .lp] ++ render a ++ [.comma] ++ render b ++ [.rp]
  | .div _ a b => [.ident "Divide", .lp] ++ render a ++ [.comma] ++ render b ++ [.rp]
  | .pow _ a b => [.ident "Power", .lp] ++ render a ++ [.comma] ++ render b ++ [.rp]
  | .neg _ a => [.ident "Negation", .lp] ++ render a ++ [.rp]
  | .recip _ a => [.ident "Reciprocal", .lp] ++ render a ++ [.rp]
  | .cos _ a => [.ident "Cosine", .lp] ++ render a ++ [.rp]
  | .sin _ a => [.ident "Sine", .lp] ++ render a ++ [.rp]
  | .npow _ a n => [.ident "NthPower", .lp] ++ render a ++ [.comma, .ident "n", .eqs, .nat n, .rp]
  | .nroot _ a n => [.ident "NthRoot", .lp] ++ render a ++ [.comma, .ident "n", .eqs, .nat n, .rp]
  | .exp _ a b =>
      [.ident "Exponential", .lp] ++ render a ++ [.comma, .ident "base", .eqs, .num b, .rp]
  | .log _ a b =>
      [.ident "Logarithm", .lp] ++ render a ++ [.comma, .ident "base", .eqs, .num b, .rp]
def renderList : List (Expr α) → List (List (Tok α))
  | [] => []
  | e :: es => render e :: renderList es
end

/-- `Point.__repr__` -/
def renderPoint (p : Point α) : List (Tok α) :=
  [.ident "Point", .lp] ++ joinComma (p.map fun (x, v) => [.ident x, .eqs, .num v]) ++ [.rp]

/-- tokens of a printed point: those of expressions plus what the dictionary form needs -/
inductive PTok (α : Type) where
  | tok (t : Tok α) | star2 | lb | rb | colon

/-- `Point._to_string` after fix F4: `kw name` says that keyword-argument syntax can express the name
(an identifier, not a reserved word, unchanged by NFKC normalisation — `_can_be_written_as_keyword`).
If every name can be written as a keyword the point prints as `Point(x=1, y=2)`, otherwise as
`Point(**{"x": 1, "1y": 2})`. -/
def renderPointWith (kw : String → Bool) (p : Point α) : List (PTok α) :=
  if p.all (fun xv => kw xv.1) then (renderPoint p).map .tok
  else
    [.tok (.ident "Point"), .tok .lp, .star2, .lb]
      ++ (joinComma (p.map fun (x, v) => [Tok.str x, Tok.eqs, Tok.num v])).map
          (fun t => match t with | .eqs => PTok.colon | t => .tok t)
      ++ [.rb, .tok .rp]

def renderPartial (e : Expr α) (x : String) : List (Tok α) :=
  [.ident "Partial", .lp] ++ render e ++ [.comma, .ident "Variable", .lp, .str x, .rp, .rp]
def renderDerivative (e : Expr α) : List (Tok α) := [.ident "Derivative", .lp] ++ render e ++ [.rp]
def renderDifferential (e : Expr α) : List (Tok α) :=
  [.ident "Differential", .lp] ++ render e ++ [.rp]
def renderLocated (e : Expr α) (p : Point α) : List (Tok α) :=
  [.ident "LocatedDifferential", .lp] ++ render e ++ [.comma] ++ renderPoint p ++ [.rp]

/-- `__repr__`/`__str__` of every public object -/
def Obj.render : Obj α → List (Tok α)
  | .expr e => Smooth.render e
  | .point p => renderPoint p
  | .partial_ e x => renderPartial e x
  | .derivative e => renderDerivative e
  | .differential e => renderDifferential e
  | .located e p => renderLocated e p

/-- Recursive-descent reader of the constructor-call syntax (`eval` restricted to the public
constructors).  Fuel bounds the nesting depth; `render` output of size `k` parses with fuel `k`. -/
def parseExpr (N : Num α) : Nat → List (Tok α) → Option (Expr α × List (Tok α))
  | 0, _ => none
  | fuel + 1, toks =>
    let sub := parseExpr N fuel
    -- arguments of an n-ary call, after the opening parenthesis
    let rec args (k : Nat) (ts : List (Tok α)) (acc : List (Expr α)) :
        Option (List (Expr α) × List (Tok α)) :=
      match k with
      | 0 => none
      | k + 1 =>
        match ts with
        | .rp :: rest => if acc.isEmpty then some ([], rest) else none
        | _ =>
          match sub ts with
          | some (e, .comma :: rest) => args k rest (acc ++ [e])
          | some (e, .rp :: rest) => some (acc ++ [e], rest)
          | _ => none
    let unary (mk : Expr α → Expr α) (ts : List (Tok α)) :=
      match sub ts with
      | some (e, .rp :: rest) => some (mk e, rest)
      | _ => none
    let binary (mk : Expr α → Expr α → Expr α) (ts : List (Tok α)) :=
      match sub ts with
      | some (a, .comma :: rest) =>
        match sub rest with
        | some (b, .rp :: rest') => some (mk a b, rest')
        | _ => none
      | _ => none
    match toks with
    | .ident "Constant" :: .lp :: .num v :: .rp :: rest => some (mkConst v, rest)
    | .ident "Variable" :: .lp :: .str x :: .rp :: rest => some (mkVar x, rest)
    | .ident "Add" :: .lp :: rest => (args (rest.length + 1) rest []).map fun (as, r) => (mkAdd as, r)
    | .ident "Multiply" :: .lp :: rest =>
        (args (rest.length + 1) rest []).map fun (as, r) => (mkMul as, r)
    | .ident "Minus" :: .lp :: rest => binary mkMinus rest
    | .ident "Divide" :: .lp :: rest => binary mkDiv rest
    | .ident "Power" :: .lp :: rest => binary mkPow rest
    | .ident "Negation" :: .lp :: rest => unary mkNeg rest
    | .ident "Reciprocal" :: .lp :: rest => unary mkRecip rest
    | .ident "Cosine" :: .lp :: rest => unary mkCos rest
    | .ident "Sine" :: .lp :: rest => unary mkSin rest
    | .ident "NthPower" :: .lp :: rest =>
      match sub rest with
      | some (e, .comma :: .ident "n" :: .eqs :: .nat n :: .rp :: rest') => some (mkNPow e n, rest')
      | _ => none
    | .ident "NthRoot" :: .lp :: rest =>
      match sub rest with
      | some (e, .comma :: .ident "n" :: .eqs :: .nat n :: .rp :: rest') => some (mkNRoot e n, rest')
      | _ => none
    | .ident "Exponential" :: .lp :: rest =>
      match sub rest with
      | some (e, .comma :: .ident "base" :: .eqs :: .num b :: .rp :: rest') => some (mkExp e b, rest')
      | some (e, .rp :: rest') => some (mkExp e N.e, rest')
      | _ => none
    | .ident "Logarithm" :: .lp :: rest =>
      match sub rest with
      | some (e, .comma :: .ident "base" :: .eqs :: .num b :: .rp :: rest') => some (mkLog e b, rest')
      | some (e, .rp :: rest') => some (mkLog e N.e, rest')
      | _ => none
    | _ => none

/-! ### constructor validation and operators -/

/-- a Python value as far as the constructors distinguish them -/
inductive PyVal (α : Type) where
  | expr (e : Expr α)
  | num (v : α)          -- `int` or `float`
  | str (s : String)
  | other                -- anything else (`None`, lists, foreign objects, …)

def asExprArg : PyVal α → R (Expr α)
  | .expr e => pure e
  | _ => throw .usage

def asExprArgs : List (PyVal α) → R (List (Expr α))
  | [] => pure []
  | a :: as => do
    let e ← asExprArg a
    let es ← asExprArgs as
    pure (e :: es)

/-- `NthPower(inner, n)` / `NthRoot(inner, n)` : `n` must be an integral number ≥ 1
(`DomainError` otherwise); the operand check comes afterwards (in `super().__init__`). -/
def checkN (N : Num α) : PyVal α → R Nat
  | .num v => match N.toInt v with
    | some k => if k ≤ 0 then throw .domain else pure k.toNat
    | none => throw .domain
  | _ => throw .domain

def mkNthPowerChecked (N : Num α) (inner n : PyVal α) : R (Expr α) := do
  let k ← checkN N n
  let e ← asExprArg inner
  pure (mkNPow e k)

def mkNthRootChecked (N : Num α) (inner n : PyVal α) : R (Expr α) := do
  let k ← checkN N n
  let e ← asExprArg inner
  pure (mkNRoot e k)

/-- `Exponential(inner, base)` : operand check first (in `super().__init__`), then `base <= 0`. -/
def mkExponentialChecked (N : Num α) (inner : PyVal α) (base : α) : R (Expr α) := do
  let e ← asExprArg inner
  if N.isZero base || N.isNeg base then throw .domain
  pure (mkExp e base)

def mkLogarithmChecked (N : Num α) (inner : PyVal α) (base : α) : R (Expr α) := do
  let e ← asExprArg inner
  if N.isZero base || N.isNeg base then throw .domain
  if N.eq base N.one then throw .domain
  pure (mkLog e base)

/-- `Variable(name)` : non-empty and `\A\w*\Z` ; `isWord` is the character class `\w`. -/
def mkVariableChecked (isWord : Char → Bool) (name : String) : R (Expr α) :=
  if name.isEmpty || !(name.toList.all isWord) then throw .usage else pure (mkVar name)

def mkUnaryChecked (mk : Expr α → Expr α) (inner : PyVal α) : R (Expr α) := do
  let e ← asExprArg inner
  pure (mk e)

def mkBinaryChecked (mk : Expr α → Expr α → Expr α) (l r : PyVal α) : R (Expr α) := do
  let a ← asExprArg l
  let b ← asExprArg r
  pure (mk a b)

def mkNaryChecked (mk : List (Expr α) → Expr α) (args : List (PyVal α)) : R (Expr α) := do
  let es ← asExprArgs args
  pure (mk es)

/-- `a ** exponent` -/
def opPow (N : Num α) (a : Expr α) : PyVal α → R (Expr α)
  | .expr b => pure (mkPow a b)
  | .num v => match N.toInt v with
    | some k => if k ≤ 0 then throw .domain else pure (mkNPow a k.toNat)
    | none => throw .usage
  | _ => throw .usage

def opNeg (a : Expr α) : Expr α := mkNeg a
def opAdd (a : Expr α) (b : PyVal α) : R (Expr α) := mkBinaryChecked (fun x y => mkAdd [x, y]) (.expr a) b
def opSub (a : Expr α) (b : PyVal α) : R (Expr α) := mkBinaryChecked mkMinus (.expr a) b
def opMul (a : Expr α) (b : PyVal α) : R (Expr α) := mkBinaryChecked (fun x y => mkMul [x, y]) (.expr a) b
def opDiv (a : Expr α) (b : PyVal α) : R (Expr α) := mkBinaryChecked mkDiv (.expr a) b

/-- well-formedness: what every constructible expression satisfies (C16) -/
def wfNode (N : Num α) (isWord : Char → Bool) : Expr α → Bool
  | .var _ x => !x.isEmpty && x.toList.all isWord
  | .npow _ _ n | .nroot _ _ n => n ≥ 1
  | .exp _ _ b => N.isPos b
  | .log _ _ b => N.isPos b && !N.eq b N.one
  | _ => true

end Smooth
