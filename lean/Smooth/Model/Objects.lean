/-
Model/Objects — `Partial`, `Derivative`, `Differential`, `LocatedDifferential` : construction, state
(the lazily memoised symbolic partial) and every public query.
-/
import Smooth.Model.Driver

namespace Smooth
variable {α : Type}
open Expr

def liftFuel {β : Type} : Option β → R β
  | some b => pure b
  | none => throw .fuel

/-- `_retrieve_synthetic_partial` : `original._synthetic_partial(x)._normalize()` -/
def retrieveSyntheticPartial (N : Num α) (e : Expr α) (x : String) : R (Expr α × Bool) :=
  liftFuel (normalize N (symFwd N x e))

/-- A `Partial` object: original expression, variable name, `_synthetic_partial`. -/
structure PartialObj (α : Type) where
  orig : Expr α
  x : String
  syn : Option (Expr α)

/-- `Partial(e, x, compute_early, _private)` ; the second component is "a warning was logged". -/
def PartialObj.new (N : Num α) (e : Expr α) (x : String) (early : Bool)
    (priv : Option (Expr α) := none) : R (PartialObj α × Bool) :=
  match priv with
  | some s => pure (⟨e, x, some s⟩, false)
  | none =>
    if early then do
      let (s, w) ← retrieveSyntheticPartial N e x
      pure (⟨e, x, some s⟩, w)
    else pure (⟨e, x, none⟩, false)

/-- `Partial.at(point)` -/
def PartialObj.at (N : Num α) (P : PartialObj α) (p : Point α) : R α :=
  match P.syn with
  | none => fwdG N p P.x P.orig
  | some s => do
    let _ ← evalG N p P.orig
    evalG N p s

/-- `Partial.as_expression()` : returns the expression and the object's next state. -/
def PartialObj.asExpression (N : Num α) (P : PartialObj α) : R (Expr α × PartialObj α × Bool) :=
  match P.syn with
  | some s => pure (s, P, false)
  | none => do
    let (s, w) ← retrieveSyntheticPartial N P.orig P.x
    pure (s, { P with syn := some s }, w)

/-- A `Derivative` object wraps a `Partial` in the single variable. -/
structure DerivativeObj (α : Type) where
  orig : Expr α
  x : String
  partial_ : PartialObj α

def DerivativeObj.new (N : Num α) (e : Expr α) (early : Bool) : R (DerivativeObj α × Bool) := do
  let x ← singleVarName e
  let (P, w) ← PartialObj.new N e x early
  pure (⟨e, x, P⟩, w)

def DerivativeObj.at (N : Num α) (D : DerivativeObj α) (p : Point α) : R α := D.partial_.at N p

def DerivativeObj.atNumber (N : Num α) (D : DerivativeObj α) (t : α) : R α :=
  D.partial_.at N [(D.x, t)]

def DerivativeObj.asExpression (N : Num α) (D : DerivativeObj α) :
    R (Expr α × DerivativeObj α × Bool) := do
  let (s, P, w) ← D.partial_.asExpression N
  pure (s, { D with partial_ := P }, w)

/-- `LocatedDifferential` : expression, point, the dictionary of numeric partials. -/
structure LocatedObj (α : Type) where
  orig : Expr α
  point : Point α
  partials : Acc α

def LocatedObj.new (N : Num α) (e : Expr α) (p : Point α) (priv : Option (Acc α) := none) :
    R (LocatedObj α) :=
  match priv with
  | some d => pure ⟨e, p, d⟩
  | none => do
    let d ← numericPartials N p e
    pure ⟨e, p, d⟩

/-- `LocatedDifferential.component(variable)` : default `0` -/
def LocatedObj.component (N : Num α) (L : LocatedObj α) (x : String) : α :=
  (Acc.get? L.partials x).getD N.zero

/-- `Differential` : expression and, when computed early, the normalised reverse-mode symbolic
partials per variable. -/
structure DifferentialObj (α : Type) where
  orig : Expr α
  syn : Option (SAcc α)

def normalizeAll (N : Num α) : SAcc α → R (SAcc α × Bool)
  | [] => pure ([], false)
  | (x, s) :: rest => do
    let (s', w) ← liftFuel (normalize N s)
    let (rest', w') ← normalizeAll N rest
    pure ((x, s') :: rest', w || w')

def DifferentialObj.new (N : Num α) (e : Expr α) (early : Bool) : R (DifferentialObj α × Bool) :=
  if early then do
    let (d, w) ← normalizeAll N (syntheticPartials N e)
    pure (⟨e, some d⟩, w)
  else pure (⟨e, none⟩, false)

/-- `Differential.component(variable)` -/
def DifferentialObj.component (N : Num α) (D : DifferentialObj α) (x : String) :
    R (PartialObj α × Bool) :=
  match D.syn with
  | none => PartialObj.new N D.orig x false
  | some d =>
    match SAcc.get? d x with
    | none => PartialObj.new N D.orig x false
    | some s => PartialObj.new N D.orig x false (some s)

def evalAll (N : Num α) (p : Point α) : SAcc α → R (Acc α)
  | [] => pure []
  | (x, s) :: rest => do
    let v ← evalG N p s
    let vs ← evalAll N p rest
    pure ((x, v) :: vs)

/-- `Differential.at(point)` -/
def DifferentialObj.at (N : Num α) (D : DifferentialObj α) (p : Point α) : R (LocatedObj α) := do
  let _ ← evalG N p D.orig
  match D.syn with
  | none => LocatedObj.new N D.orig p
  | some d => do
    let vals ← evalAll N p d
    LocatedObj.new N D.orig p (some vals)

/-- `Differential.component_at(variable, point)` -/
def DifferentialObj.componentAt (N : Num α) (D : DifferentialObj α) (x : String) (p : Point α) :
    R α := do
  let (P, _) ← D.component N x
  P.at N p

end Smooth
