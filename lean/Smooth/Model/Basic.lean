/-
Model/Basic — numbers, errors, expressions.

Mathlib-free.  Everything the Python package computes with numbers goes through the record `Num α`,
so that one generic model is instantiated with exact rationals and IEEE doubles (executable; used
by the correspondence driver) and with Mathlib's real numbers (used by every theorem).
-/

namespace Smooth

/-- Outcomes that are not a value.  `domain`, `missing` and `usage` are the library's own errors
(`DomainError`, `CoordinateMissing`, the generic `Exception` of the bare-number entry points and of
constructors).  `zeroDiv`, `valueErr`, `complex` stand for what CPython itself would raise or
return (`ZeroDivisionError`, `ValueError` from `math.*`, a complex result of `**`) if a guard were
missing; property C17 is the theorem that they never occur.  `unsupported` is produced only by the
exact-rational instance (irrational result); `fuel` only by fuel-indexed recursion. -/
inductive Err where
  | domain | missing | usage | zeroDiv | valueErr | complex | unsupported | fuel
  deriving DecidableEq, Repr, Inhabited

def Err.tag : Err → String
  | .domain => "domain" | .missing => "missing" | .usage => "usage" | .zeroDiv => "zerodiv"
  | .valueErr => "valueerr" | .complex => "complex" | .unsupported => "unsupported" | .fuel => "fuel"

abbrev R (α : Type) := Except Err α

/-- The arithmetic the Python code performs, as a record.  The four field operations and `powNat`
are total; the operations that CPython delegates to libm return `Except` so that the exact-rational
instance can answer `unsupported`.  Callers guarantee the side conditions in the comments; the
Python-level wrappers in `Model/MathFunctions` check them and produce `zeroDiv`/`valueErr`/`complex`
when they are violated. -/
structure Num (α : Type) where
  ofNat : Nat → α
  e : α                          -- `math.e`
  add : α → α → α
  sub : α → α → α
  neg : α → α
  mul : α → α → α
  div : α → α → α                -- `x / y`, y ≠ 0
  powNat : α → Nat → α           -- `x ** n`
  rpow : α → α → R α             -- `x ** y`, x > 0
  sqrt : α → R α                 -- `math.sqrt`, x ≥ 0
  cbrt : α → R α                 -- `math.cbrt`
  logb : α → α → R α             -- `math.log(x, base)` = log x / log base; x, base > 0, base ≠ 1
  sin : α → R α
  cos : α → R α
  isZero : α → Bool              -- `x == 0`
  isNeg : α → Bool               -- `x < 0`
  eq : α → α → Bool              -- `x == y`
  toInt : α → Option Int         -- the integer `x` is, if it is integral (`integer_from_integral_float`)

variable {α : Type}

def Num.zero (N : Num α) : α := N.ofNat 0
def Num.one (N : Num α) : α := N.ofNat 1
def Num.negOne (N : Num α) : α := N.neg (N.ofNat 1)
def Num.isPos (N : Num α) (x : α) : Bool := !N.isZero x && !N.isNeg x

/-- Per-object data that is not part of what a node denotes: the two memo flags every Python node
carries (`_is_fully_reduced`, `_evaluation_failed`) and the object's identity (`id`), which the
`_value` memo is keyed by in Model/Heap; two occurrences with the same `id` are the same Python
object (sharing).  All semantic functions ignore all three. -/
structure Flags where
  red : Bool := false
  failed : Bool := false
  id : Nat := 0
  deriving DecidableEq, Repr, Inhabited

def Flags.fresh : Flags := {}

/-- The 15 constructors.  `n` of `npow`/`nroot` is the stored Python `int`, `base` the stored
number.  Every node carries its two reduction memo flags; all semantic functions ignore them. -/
inductive Expr (α : Type) where
  | const (f : Flags) (v : α)
  | var (f : Flags) (name : String)
  | add (f : Flags) (args : List (Expr α))
  | minus (f : Flags) (l r : Expr α)
  | neg (f : Flags) (u : Expr α)
  | mul (f : Flags) (args : List (Expr α))
  | div (f : Flags) (l r : Expr α)
  | recip (f : Flags) (u : Expr α)
  | pow (f : Flags) (l r : Expr α)
  | npow (f : Flags) (u : Expr α) (n : Nat)
  | nroot (f : Flags) (u : Expr α) (n : Nat)
  | exp (f : Flags) (u : Expr α) (base : α)
  | log (f : Flags) (u : Expr α) (base : α)
  | cos (f : Flags) (u : Expr α)
  | sin (f : Flags) (u : Expr α)
  deriving Inhabited

namespace Expr

/-- Fresh nodes, as built by the Python constructors (both flags `False`). -/
@[reducible] def mkConst (v : α) : Expr α := .const {} v
@[reducible] def mkVar (x : String) : Expr α := .var {} x
@[reducible] def mkAdd (as : List (Expr α)) : Expr α := .add {} as
@[reducible] def mkMinus (l r : Expr α) : Expr α := .minus {} l r
@[reducible] def mkNeg (u : Expr α) : Expr α := .neg {} u
@[reducible] def mkMul (as : List (Expr α)) : Expr α := .mul {} as
@[reducible] def mkDiv (l r : Expr α) : Expr α := .div {} l r
@[reducible] def mkRecip (u : Expr α) : Expr α := .recip {} u
@[reducible] def mkPow (l r : Expr α) : Expr α := .pow {} l r
@[reducible] def mkNPow (u : Expr α) (n : Nat) : Expr α := .npow {} u n
@[reducible] def mkNRoot (u : Expr α) (n : Nat) : Expr α := .nroot {} u n
@[reducible] def mkExp (u : Expr α) (b : α) : Expr α := .exp {} u b
@[reducible] def mkLog (u : Expr α) (b : α) : Expr α := .log {} u b
@[reducible] def mkCos (u : Expr α) : Expr α := .cos {} u
@[reducible] def mkSin (u : Expr α) : Expr α := .sin {} u

def flags : Expr α → Flags
  | const f _ | var f _ | add f _ | minus f _ _ | neg f _ | mul f _ | div f _ _ | recip f _
  | pow f _ _ | npow f _ _ | nroot f _ _ | exp f _ _ | log f _ _ | cos f _ | sin f _ => f

def setFlags (g : Flags) : Expr α → Expr α
  | const _ v => const g v | var _ x => var g x | add _ as => add g as
  | minus _ l r => minus g l r | neg _ u => neg g u | mul _ as => mul g as
  | div _ l r => div g l r | recip _ u => recip g u | pow _ l r => pow g l r
  | npow _ u n => npow g u n | nroot _ u n => nroot g u n | exp _ u b => exp g u b
  | log _ u b => log g u b | cos _ u => cos g u | sin _ u => sin g u

def isRed (e : Expr α) : Bool := e.flags.red
def markRed (e : Expr α) : Expr α := e.setFlags { e.flags with red := true }
def markFailed (e : Expr α) : Expr α := e.setFlags { e.flags with failed := true }

mutual
/-- Number of nodes. -/
def size : Expr α → Nat
  | const _ _ | var _ _ => 1
  | add _ as | mul _ as => 1 + sizeList as
  | minus _ l r | div _ l r | pow _ l r => 1 + size l + size r
  | neg _ u | recip _ u | npow _ u _ | nroot _ u _ | exp _ u _ | log _ u _ | cos _ u | sin _ u =>
      1 + size u
def sizeList : List (Expr α) → Nat
  | [] => 0
  | e :: es => size e + sizeList es
end

mutual
/-- Variable names in first-occurrence order (Python keeps a `set`; every use is membership,
cardinality or per-name lookup, cf. C18). -/
def varsAux : Expr α → List String → List String
  | const _ _, acc => acc
  | var _ x, acc => if acc.contains x then acc else acc ++ [x]
  | add _ as, acc | mul _ as, acc => varsAuxList as acc
  | minus _ l r, acc | div _ l r, acc | pow _ l r, acc => varsAux r (varsAux l acc)
  | neg _ u, acc | recip _ u, acc | npow _ u _, acc | nroot _ u _, acc | exp _ u _, acc
  | log _ u _, acc | cos _ u, acc | sin _ u, acc => varsAux u acc
def varsAuxList : List (Expr α) → List String → List String
  | [], acc => acc
  | e :: es, acc => varsAuxList es (varsAux e acc)
end

def vars (e : Expr α) : List String := varsAux e []

mutual
/-- All flags reset: a freshly built copy. -/
def fresh : Expr α → Expr α
  | const _ v => mkConst v | var _ x => mkVar x
  | add _ as => mkAdd (freshList as) | mul _ as => mkMul (freshList as)
  | minus _ l r => mkMinus (fresh l) (fresh r) | div _ l r => mkDiv (fresh l) (fresh r)
  | pow _ l r => mkPow (fresh l) (fresh r)
  | neg _ u => mkNeg (fresh u) | recip _ u => mkRecip (fresh u)
  | npow _ u n => mkNPow (fresh u) n | nroot _ u n => mkNRoot (fresh u) n
  | exp _ u b => mkExp (fresh u) b | log _ u b => mkLog (fresh u) b
  | cos _ u => mkCos (fresh u) | sin _ u => mkSin (fresh u)
def freshList : List (Expr α) → List (Expr α)
  | [] => []
  | e :: es => fresh e :: freshList es
end

end Expr

/-- A `Point`: the keyword dictionary, in insertion order; names are unique (keyword arguments). -/
abbrev Point (α : Type) := List (String × α)

def Point.get? (p : Point α) (x : String) : Option α :=
  match p with
  | [] => none
  | (y, v) :: rest => if y == x then some v else Point.get? rest x

end Smooth
