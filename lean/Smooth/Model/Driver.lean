/-
Model/Driver — `_take_reduction_step`, `_consolidate_expression_lacking_variables`, `_fully_reduce`
(budget `REDUCTION_STEPS_BOUND = 1000` and warning fallback), `_normalize_fully_reduced`, `_normalize`.
-/
import Smooth.Model.Rules

namespace Smooth
variable {α : Type}
open Expr

def REDUCTION_STEPS_BOUND : Nat := 1000

/-- what one call of `_take_reduction_step` did (for the trace) -/
inductive StepEvent where
  | already            -- node was flagged: returned unchanged
  | fold               -- constant folding replaced a variable-free node by a `Constant`
  | rule (r : RuleId)  -- a rewrite rule fired (somewhere: at the node or in a descendant)
  | flag               -- nothing applied: the node (or a descendant) was flagged fully reduced
  deriving DecidableEq, Repr, Inhabited

def StepEvent.name : StepEvent → String
  | .already => "already" | .fold => "fold" | .rule r => r.name | .flag => "flag"

def isConstNode : Expr α → Bool | .const _ _ => true | _ => false

/-- `_consolidate_expression_lacking_variables` : `some (inl c)` = folded to the constant `c`,
`some (inr ())` = evaluation raised `DomainError` (the node gets `_evaluation_failed`), `none` = not
attempted.  Errors other than `DomainError` cannot occur on variable-free trees (C17); they are
treated like "not attempted" here and excluded by theorem. -/
def foldAttempt (N : Num α) (e : Expr α) : Option (Sum α Unit) :=
  if !e.vars.isEmpty then none
  else if isConstNode e then none
  else if e.flags.failed then none
  else match evalG N [] e with
    | .ok v => some (.inl v)
    | .error .domain => some (.inr ())
    | .error _ => none

/-- first child (left to right) whose flag is not set: `(before, child, after)` -/
def splitUnreduced : List (Expr α) → Option (List (Expr α) × Expr α × List (Expr α))
  | [] => none
  | e :: es =>
    if !e.isRed then some ([], e, es)
    else (splitUnreduced es).map fun (b, c, a) => (e :: b, c, a)

/-- the part of `_take_reduction_step` after the children are known to be flagged: reducers in
order, else flag the node. -/
def stepTop (N : Num α) (e : Expr α) : Expr α × StepEvent :=
  match firstRule N e (reducers e) with
  | some (r, e') => (e', .rule r)
  | none => (e.markRed, .flag)

/-- shared body of `_take_reduction_step` for the compound classes.  `self` is the node,
`stepChild ()` steps the first unflagged child and rebuilds the node around it (`none` when every
child is flagged). -/
def stepNode (N : Num α) (self : Expr α) (stepChild : Unit → Option (Expr α × StepEvent)) :
    Expr α × StepEvent :=
  if self.isRed then (self, .already)
  else match foldAttempt N self with
    | some (.inl v) => (mkConst v, .fold)
    | fa =>
      let self' := if fa.isSome then self.markFailed else self
      match stepChild () with
      | some r => r
      | none => stepTop N self'

mutual
/-- `_take_reduction_step` -/
def stepF (N : Num α) : Expr α → Expr α × StepEvent
  | .const f v => (.const { f with red := true } v, if f.red then .already else .flag)
  | .var f x => (.var { f with red := true } x, if f.red then .already else .flag)
  | .add f as => stepNode N (.add f as) fun _ =>
      (stepFirstUnreduced N as).map fun (as', ev) => (mkAdd as', ev)
  | .mul f as => stepNode N (.mul f as) fun _ =>
      (stepFirstUnreduced N as).map fun (as', ev) => (mkMul as', ev)
  | .minus f l r => stepNode N (.minus f l r) fun _ =>
      if !l.isRed then let (l', ev) := stepF N l; some (mkMinus l' r, ev)
      else if !r.isRed then let (r', ev) := stepF N r; some (mkMinus l r', ev)
      else none
  | .div f l r => stepNode N (.div f l r) fun _ =>
      if !l.isRed then let (l', ev) := stepF N l; some (mkDiv l' r, ev)
      else if !r.isRed then let (r', ev) := stepF N r; some (mkDiv l r', ev)
      else none
  | .pow f l r => stepNode N (.pow f l r) fun _ =>
      if !l.isRed then let (l', ev) := stepF N l; some (mkPow l' r, ev)
      else if !r.isRed then let (r', ev) := stepF N r; some (mkPow l r', ev)
      else none
  | .neg f u => stepNode N (.neg f u) fun _ =>
      if !u.isRed then let (u', ev) := stepF N u; some (mkNeg u', ev) else none
  | .recip f u => stepNode N (.recip f u) fun _ =>
      if !u.isRed then let (u', ev) := stepF N u; some (mkRecip u', ev) else none
  | .npow f u n => stepNode N (.npow f u n) fun _ =>
      if !u.isRed then let (u', ev) := stepF N u; some (mkNPow u' n, ev) else none
  | .nroot f u n => stepNode N (.nroot f u n) fun _ =>
      if !u.isRed then let (u', ev) := stepF N u; some (mkNRoot u' n, ev) else none
  | .exp f u b => stepNode N (.exp f u b) fun _ =>
      if !u.isRed then let (u', ev) := stepF N u; some (mkExp u' b, ev) else none
  | .log f u b => stepNode N (.log f u b) fun _ =>
      if !u.isRed then let (u', ev) := stepF N u; some (mkLog u' b, ev) else none
  | .cos f u => stepNode N (.cos f u) fun _ =>
      if !u.isRed then let (u', ev) := stepF N u; some (mkCos u', ev) else none
  | .sin f u => stepNode N (.sin f u) fun _ =>
      if !u.isRed then let (u', ev) := stepF N u; some (mkSin u', ev) else none
/-- step the first unflagged entry of a child list -/
def stepFirstUnreduced (N : Num α) : List (Expr α) → Option (List (Expr α) × StepEvent)
  | [] => none
  | e :: es =>
    if !e.isRed then
      let (e', ev) := stepF N e
      some (e' :: es, ev)
    else (stepFirstUnreduced N es).map fun (es', ev) => (e :: es', ev)
end

/-- result of `_fully_reduce` : the expression, whether the budget ran out (a warning was logged),
how many steps were taken, and the events of the steps in order. -/
structure ReduceResult (α : Type) where
  expr : Expr α
  warned : Bool
  steps : Nat
  trace : List StepEvent

/-- the `for _ in range(bound)` loop -/
def fullyReduceLoop (N : Num α) : Nat → Expr α → Nat → List StepEvent → ReduceResult α
  | 0, e, k, tr => ⟨e.markRed, true, k, tr.reverse⟩
  | fuel + 1, e, k, tr =>
    if e.isRed then ⟨e, false, k, tr.reverse⟩
    else
      let (e', ev) := stepF N e
      fullyReduceLoop N fuel e' (k + 1) (ev :: tr)

def fullyReduceWith (N : Num α) (bound : Nat) (e : Expr α) : ReduceResult α :=
  fullyReduceLoop N bound e 0 []

def fullyReduce (N : Num α) (e : Expr α) : ReduceResult α :=
  fullyReduceWith N REDUCTION_STEPS_BOUND e

/-- `_simplified_Add` / `_simplified_Multiply` -/
def simplifiedAdd (N : Num α) : List (Expr α) → Expr α
  | [] => mkConst N.zero
  | [t] => t
  | ts => mkAdd ts

def simplifiedMul (N : Num α) : List (Expr α) → Expr α
  | [] => mkConst N.one
  | [t] => t
  | ts => mkMul ts

/-- all-or-nothing map for the fuel-indexed recursion -/
def mapM? {β γ : Type} (f : β → Option γ) : List β → Option (List γ)
  | [] => some []
  | b :: bs => match f b, mapM? f bs with
    | some c, some cs => some (c :: cs)
    | _, _ => none

mutual
/-- `_normalize()` = `_fully_reduce()._normalize_fully_reduced()`.  The Python recursion
(`Add/Multiply._normalize_fully_reduced` call the full `_normalize()` of every term) is not
structural, so the model is indexed by fuel; `none` means the fuel ran out, which the driver never
observes (it passes a fuel far above any reachable depth) and which every theorem covers by
hypothesis `= some _`.  The Boolean is "some `_fully_reduce` logged the warning". -/
def normalizeF (N : Num α) (bound : Nat) : Nat → Expr α → Option (Expr α × Bool)
  | 0, _ => none
  | fuel + 1, e =>
    let r := fullyReduceWith N bound e
    match normReducedF N bound fuel r.expr with
    | some (e', w) => some (e', w || r.warned)
    | none => none
/-- `_normalize_fully_reduced()` -/
def normReducedF (N : Num α) (bound : Nat) : Nat → Expr α → Option (Expr α × Bool)
  | 0, _ => none
  | fuel + 1, e =>
    let sub := normReducedF N bound fuel
    let full := normalizeF N bound fuel
    match e with
    | .const _ v => some (mkConst v, false)
    | .var _ x => some (mkVar x, false)
    | .add _ as =>
      let negs := as.filterMap asNeg
      let others := as.filter fun t => (asNeg t).isNone
      match mapM? full others, mapM? full negs with
      | some t1, some t2 =>
        let w := (t1.any (·.2)) || (t2.any (·.2))
        let t1 := t1.map (·.1)
        let t2 := t2.map (·.1)
        let out :=
          if t1.length ≥ 1 && t2.length ≥ 1 then mkMinus (simplifiedAdd N t1) (simplifiedAdd N t2)
          else if t1.length ≥ 1 then simplifiedAdd N t1
          else if t2.length ≥ 1 then mkNeg (simplifiedAdd N t2)
          else mkConst N.zero
        some (out, w)
      | _, _ => none
    | .mul _ as =>
      let recips := as.filterMap asRecip
      let others := as.filter fun t => (asRecip t).isNone
      match mapM? full others, mapM? full recips with
      | some t1, some t2 =>
        let w := (t1.any (·.2)) || (t2.any (·.2))
        let t1 := t1.map (·.1)
        let t2 := t2.map (·.1)
        let out :=
          if t1.length ≥ 1 && t2.length ≥ 1 then mkDiv (simplifiedMul N t1) (simplifiedMul N t2)
          else if t1.length ≥ 1 then simplifiedMul N t1
          else if t2.length ≥ 1 then mkRecip (simplifiedMul N t2)
          else mkConst N.one
        some (out, w)
      | _, _ => none
    | .minus _ l r => match sub l, sub r with
      | some (a, w1), some (b, w2) => some (mkMinus a b, w1 || w2) | _, _ => none
    | .div _ l r => match sub l, sub r with
      | some (a, w1), some (b, w2) => some (mkDiv a b, w1 || w2) | _, _ => none
    | .pow _ l r => match sub l, sub r with
      | some (a, w1), some (b, w2) => some (mkPow a b, w1 || w2) | _, _ => none
    | .neg _ u => (sub u).map fun (a, w) => (mkNeg a, w)
    | .recip _ u => (sub u).map fun (a, w) => (mkRecip a, w)
    | .npow _ u n => (sub u).map fun (a, w) => (mkNPow a n, w)
    | .nroot _ u n => (sub u).map fun (a, w) => (mkNRoot a n, w)
    | .exp _ u b => (sub u).map fun (a, w) => (mkExp a b, w)
    | .log _ u b => (sub u).map fun (a, w) => (mkLog a b, w)
    | .cos _ u => (sub u).map fun (a, w) => (mkCos a, w)
    | .sin _ u => (sub u).map fun (a, w) => (mkSin a, w)
end

/-- fuel used by the executable driver and the object model: far above any reachable depth -/
def NORMALIZE_FUEL : Nat := 100000

def normalize (N : Num α) (e : Expr α) : Option (Expr α × Bool) :=
  normalizeF N REDUCTION_STEPS_BOUND NORMALIZE_FUEL e

end Smooth
