/-
Model/Heap — the per-node `_value` memo.

Object identity is the `id` carried by every node (`Flags.id`); a DAG is a tree in which the shared
object occurs several times with the same `id`.  The memo fields of all objects form a store
`id ↦ value`.  `evalS`/`fwdS`/`revS` are `_evaluate`/`_numeric_partial`/`_compute_numeric_partials`
exactly as written in Python (memo hit first, memo written after the formula), threading the store;
`atS`/`partialAtS`/`numericPartialsS` are the public entry points, which clear the memos reachable
from the entry object first (`_reset_evaluation_cache`).

The refinement theorems (Proofs/Heap) say: from *any* store whatsoever the entry points return what
the pure functions of Model/Eval and Model/Numeric return on the tree — which is history independence
of the `_value` memo (C09) — and they only ever write memos (C10).
-/
import Smooth.Model.Numeric

namespace Smooth
variable {α : Type}

/-- the `_value` fields of all objects: `id ↦ memoised value` (absent = `None`) -/
abbrev Store (α : Type) := List (Nat × α)

def Store.get? (st : Store α) (i : Nat) : Option α :=
  match st with
  | [] => none
  | (j, v) :: rest => if j == i then some v else Store.get? rest i

abbrev SM (α β : Type) := StateT (Store α) (Except Err) β

def memoGet (i : Nat) : SM α (Option α) := do return (← get).get? i
def memoSet (i : Nat) (v : α) : SM α Unit := modify fun st => (i, v) :: st
def liftR {β : Type} (r : R β) : SM α β := fun st => r.map fun b => (b, st)

mutual
/-- ids of the objects that have a `_value` field (every class but `Constant` and `Variable`) -/
def memoIds : Expr α → List Nat
  | .const _ _ | .var _ _ => []
  | .add f as | .mul f as => f.id :: memoIdsList as
  | .minus f l r | .div f l r | .pow f l r => f.id :: (memoIds l ++ memoIds r)
  | .neg f u | .recip f u | .npow f u _ | .nroot f u _ | .exp f u _ | .log f u _ | .cos f u
  | .sin f u => f.id :: memoIds u
def memoIdsList : List (Expr α) → List Nat
  | [] => []
  | e :: es => memoIds e ++ memoIdsList es
end

/-- `_reset_evaluation_cache()` : `_value = None` on every object reachable from `e` -/
def resetS (e : Expr α) (st : Store α) : Store α :=
  st.filter fun (i, _) => !(memoIds e).contains i

mutual
/-- `_evaluate(point)` with the memo -/
def evalS (N : Num α) (p : Point α) : Expr α → SM α α
  | .const _ v => pure v
  | .var _ x => match p.get? x with
      | some v => pure v
      | none => throw .missing
  | .add f as => do
      if let some v ← memoGet f.id then return v
      let vs ← evalListS N p as
      let v := mfAdd N vs
      memoSet f.id v; pure v
  | .minus f l r => do
      if let some v ← memoGet f.id then return v
      let a ← evalS N p l
      let b ← evalS N p r
      let v := mfMinus N a b
      memoSet f.id v; pure v
  | .neg f u => do
      if let some v ← memoGet f.id then return v
      let a ← evalS N p u
      let v := mfNegation N a
      memoSet f.id v; pure v
  | .mul f as => do
      if let some v ← memoGet f.id then return v
      let vs ← evalListS N p as
      let v := mfMultiply N vs
      memoSet f.id v; pure v
  | .div f l r => do
      if let some v ← memoGet f.id then return v
      let a ← evalS N p l
      let b ← evalS N p r
      liftR (verifyDivide N a b)
      let v ← liftR (mfDivide N a b)
      memoSet f.id v; pure v
  | .recip f u => do
      if let some v ← memoGet f.id then return v
      let a ← evalS N p u
      liftR (verifyReciprocal N a)
      let v ← liftR (mfReciprocal N a)
      memoSet f.id v; pure v
  | .pow f l r => do
      if let some v ← memoGet f.id then return v
      let a ← evalS N p l
      let b ← evalS N p r
      liftR (verifyPower N a b)
      let v ← liftR (mfPower N a b)
      memoSet f.id v; pure v
  | .npow f u n => do
      if let some v ← memoGet f.id then return v
      let a ← evalS N p u
      let v ← liftR (mfNthPower N a n)
      memoSet f.id v; pure v
  | .nroot f u n => do
      if let some v ← memoGet f.id then return v
      let a ← evalS N p u
      liftR (verifyNthRoot N n a)
      let v ← liftR (mfNthRoot N a n)
      memoSet f.id v; pure v
  | .exp f u b => do
      if let some v ← memoGet f.id then return v
      let a ← evalS N p u
      let v ← liftR (mfExponential N a b)
      memoSet f.id v; pure v
  | .log f u b => do
      if let some v ← memoGet f.id then return v
      let a ← evalS N p u
      liftR (verifyLogarithm N a)
      let v ← liftR (mfLogarithm N a b)
      memoSet f.id v; pure v
  | .cos f u => do
      if let some v ← memoGet f.id then return v
      let a ← evalS N p u
      let v ← liftR (mfCosine N a)
      memoSet f.id v; pure v
  | .sin f u => do
      if let some v ← memoGet f.id then return v
      let a ← evalS N p u
      let v ← liftR (mfSine N a)
      memoSet f.id v; pure v
def evalListS (N : Num α) (p : Point α) : List (Expr α) → SM α (List α)
  | [] => pure []
  | e :: es => do
      let v ← evalS N p e
      let vs ← evalListS N p es
      pure (v :: vs)
end

/-- `Expression.at(point)` : reset, then evaluate -/
def atS (N : Num α) (p : Point α) (e : Expr α) (st : Store α) : R α :=
  (evalS N p e (resetS e st)).map (·.1)

/-! ### forward and reverse mode with the memo -/

def unaryFormulaS (N : Num α) (p : Point α) (e : Expr α) (m : α) : SM α α :=
  match e with
  | .neg _ _ => pure (mfNegation N m)
  | .recip _ u => do
      let a ← evalS N p u
      let sq ← liftR (mfNthPower N a 2)
      let q ← liftR (mfDivide N m sq)
      pure (mfNegation N q)
  | .npow _ u n =>
      if n = 1 then pure m
      else do
        let a ← evalS N p u
        let pw ← liftR (mfNthPower N a (n - 1))
        pure (mfMultiply N [N.ofNat n, pw, m])
  | .nroot _ _ n =>
      if n = 1 then pure m
      else do
        let s ← evalS N p e
        let pw ← liftR (mfNthPower N s (n - 1))
        liftR (mfDivide N m (mfMultiply N [N.ofNat n, pw]))
  | .exp _ _ b =>
      if N.eq b N.one then pure N.zero
      else do
        let s ← evalS N p e
        if N.eq b N.e then pure (mfMultiply N [s, m])
        else do
          let lb ← liftR (mfLogarithm N b N.e)
          pure (mfMultiply N [lb, s, m])
  | .log _ u b => do
      let a ← evalS N p u
      if N.eq b N.e then liftR (mfDivide N m a)
      else do
        let lb ← liftR (mfLogarithm N b N.e)
        liftR (mfDivide N m (mfMultiply N [lb, a]))
  | .cos _ u => do
      let a ← evalS N p u
      let s ← liftR (mfSine N a)
      pure (mfMultiply N [mfNegation N s, m])
  | .sin _ u => do
      let a ← evalS N p u
      let c ← liftR (mfCosine N a)
      pure (mfMultiply N [c, m])
  | _ => pure m

def divFormulaLeftS (N : Num α) (p : Point α) (_l r : Expr α) (m : α) : SM α α := do
  let b ← evalS N p r
  liftR (mfDivide N m b)

def divFormulaRightS (N : Num α) (p : Point α) (l r : Expr α) (m : α) : SM α α := do
  let a ← evalS N p l
  let b ← evalS N p r
  let sq ← liftR (mfNthPower N b 2)
  let q ← liftR (mfDivide N a sq)
  pure (mfMultiply N [mfNegation N q, m])

def powFormulaLeftS (N : Num α) (p : Point α) (l r : Expr α) (m : α) : SM α α := do
  let a ← evalS N p l
  let b ← evalS N p r
  let pw ← liftR (mfPower N a (mfMinus N b N.one))
  pure (mfMultiply N [b, pw, m])

def powFormulaRightS (N : Num α) (p : Point α) (self l : Expr α) (m : α) : SM α α := do
  let a ← evalS N p l
  let s ← evalS N p self
  let lg ← liftR (mfLogarithm N a N.e)
  pure (mfMultiply N [lg, s, m])

def powShortcutS (N : Num α) (p : Point α) (l : Expr α) : SM α Bool :=
  if l.vars.isEmpty then do
    let a ← evalS N p l
    pure (N.eq a N.one)
  else pure false

mutual
def fwdS (N : Num α) (p : Point α) (x : String) : Expr α → SM α α
  | .const _ _ => pure N.zero
  | .var _ y => if y == x then pure N.one else pure N.zero
  | .add _ as => do
      let ds ← fwdListS N p x as
      pure (mfAdd N ds)
  | .minus _ l r => do
      let a ← fwdS N p x l
      let b ← fwdS N p x r
      pure (mfMinus N a b)
  | .mul _ as => do
      let vs ← evalListS N p as
      let ds ← fwdListS N p x as
      pure (mfAdd N (mulTerms N ds vs))
  | .div _ l r => do
      let a ← evalS N p l
      let b ← evalS N p r
      liftR (verifyDivide N a b)
      let dl ← fwdS N p x l
      let dr ← fwdS N p x r
      let t1 ← divFormulaLeftS N p l r dl
      let t2 ← divFormulaRightS N p l r dr
      pure (mfAdd N [t1, t2])
  | .pow f l r => do
      if ← powShortcutS N p l then
        let _ ← evalS N p (.pow f l r)
        pure N.zero
      else
        let a ← evalS N p l
        let b ← evalS N p r
        liftR (verifyPower N a b)
        let dl ← fwdS N p x l
        let dr ← fwdS N p x r
        let t1 ← powFormulaLeftS N p l r dl
        let t2 ← powFormulaRightS N p (.pow f l r) l dr
        pure (N.add t1 t2)
  | .neg f u => do
      let a ← evalS N p u
      liftR (unaryVerify N (.neg f u) a)
      let d ← fwdS N p x u
      unaryFormulaS N p (.neg f u) d
  | .recip f u => do
      let a ← evalS N p u
      liftR (unaryVerify N (.recip f u) a)
      let d ← fwdS N p x u
      unaryFormulaS N p (.recip f u) d
  | .npow f u n => do
      let a ← evalS N p u
      liftR (unaryVerify N (.npow f u n) a)
      let d ← fwdS N p x u
      unaryFormulaS N p (.npow f u n) d
  | .nroot f u n => do
      let a ← evalS N p u
      liftR (unaryVerify N (.nroot f u n) a)
      let d ← fwdS N p x u
      unaryFormulaS N p (.nroot f u n) d
  | .exp f u b => do
      let a ← evalS N p u
      liftR (unaryVerify N (.exp f u b) a)
      let d ← fwdS N p x u
      unaryFormulaS N p (.exp f u b) d
  | .log f u b => do
      let a ← evalS N p u
      liftR (unaryVerify N (.log f u b) a)
      let d ← fwdS N p x u
      unaryFormulaS N p (.log f u b) d
  | .cos f u => do
      let a ← evalS N p u
      liftR (unaryVerify N (.cos f u) a)
      let d ← fwdS N p x u
      unaryFormulaS N p (.cos f u) d
  | .sin f u => do
      let a ← evalS N p u
      liftR (unaryVerify N (.sin f u) a)
      let d ← fwdS N p x u
      unaryFormulaS N p (.sin f u) d
def fwdListS (N : Num α) (p : Point α) (x : String) : List (Expr α) → SM α (List α)
  | [] => pure []
  | e :: es => do
      let d ← fwdS N p x e
      let ds ← fwdListS N p x es
      pure (d :: ds)
end

/-- `Partial.at(point)` on the numeric path : reset, then forward mode -/
def partialAtS (N : Num α) (p : Point α) (x : String) (e : Expr α) (st : Store α) : R α :=
  (fwdS N p x e (resetS e st)).map (·.1)

mutual
def revS (N : Num α) (p : Point α) : Expr α → α → Acc α → SM α (Acc α)
  | .const _ _, _, acc => pure acc
  | .var _ y, m, acc => pure (acc.addTo N y m)
  | .add _ as, m, acc => revListS N p as m acc
  | .minus _ l r, m, acc => do
      let acc ← revS N p l m acc
      revS N p r (mfNegation N m) acc
  | .mul _ as, m, acc => do
      let vs ← evalListS N p as
      revMulS N p vs m 0 as acc
  | .div _ l r, m, acc => do
      let a ← evalS N p l
      let b ← evalS N p r
      liftR (verifyDivide N a b)
      let ml ← divFormulaLeftS N p l r m
      let mr ← divFormulaRightS N p l r m
      let acc ← revS N p l ml acc
      revS N p r mr acc
  | .pow f l r, m, acc => do
      if ← powShortcutS N p l then
        let _ ← evalS N p (.pow f l r)
        pure acc
      else
        let a ← evalS N p l
        let b ← evalS N p r
        liftR (verifyPower N a b)
        let ml ← powFormulaLeftS N p l r m
        let mr ← powFormulaRightS N p (.pow f l r) l m
        let acc ← revS N p l ml acc
        revS N p r mr acc
  | .neg f u, m, acc => do
      let a ← evalS N p u
      liftR (unaryVerify N (.neg f u) a)
      let m' ← unaryFormulaS N p (.neg f u) m
      revS N p u m' acc
  | .recip f u, m, acc => do
      let a ← evalS N p u
      liftR (unaryVerify N (.recip f u) a)
      let m' ← unaryFormulaS N p (.recip f u) m
      revS N p u m' acc
  | .npow f u n, m, acc => do
      let a ← evalS N p u
      liftR (unaryVerify N (.npow f u n) a)
      let m' ← unaryFormulaS N p (.npow f u n) m
      revS N p u m' acc
  | .nroot f u n, m, acc => do
      let a ← evalS N p u
      liftR (unaryVerify N (.nroot f u n) a)
      let m' ← unaryFormulaS N p (.nroot f u n) m
      revS N p u m' acc
  | .exp f u b, m, acc => do
      let a ← evalS N p u
      liftR (unaryVerify N (.exp f u b) a)
      let m' ← unaryFormulaS N p (.exp f u b) m
      revS N p u m' acc
  | .log f u b, m, acc => do
      let a ← evalS N p u
      liftR (unaryVerify N (.log f u b) a)
      let m' ← unaryFormulaS N p (.log f u b) m
      revS N p u m' acc
  | .cos f u, m, acc => do
      let a ← evalS N p u
      liftR (unaryVerify N (.cos f u) a)
      let m' ← unaryFormulaS N p (.cos f u) m
      revS N p u m' acc
  | .sin f u, m, acc => do
      let a ← evalS N p u
      liftR (unaryVerify N (.sin f u) a)
      let m' ← unaryFormulaS N p (.sin f u) m
      revS N p u m' acc
def revListS (N : Num α) (p : Point α) : List (Expr α) → α → Acc α → SM α (Acc α)
  | [], _, acc => pure acc
  | e :: es, m, acc => do
      let acc ← revS N p e m acc
      revListS N p es m acc
def revMulS (N : Num α) (p : Point α) (vs : List α) (m : α) (i : Nat) :
    List (Expr α) → Acc α → SM α (Acc α)
  | [], acc => pure acc
  | e :: es, acc => do
      let acc ← revS N p e (mfMultiply N (m :: vs.eraseIdx i)) acc
      revMulS N p vs m (i + 1) es acc
end

/-- `_numeric_partials(point)` : reset, reverse mode from multiplier `1`, read back -/
def numericPartialsS (N : Num α) (p : Point α) (e : Expr α) (st : Store α) : R (Acc α) :=
  (revS N p e N.one [] (resetS e st)).map fun (acc, _) =>
    e.vars.map fun x => (x, (acc.get? x).getD N.zero)

end Smooth
