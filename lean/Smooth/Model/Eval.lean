/-
Model/Eval — `_evaluate` (+ `_verify_domain_constraints`, `_value_formula`) of every class and the
public `Expression.at`.  The `_value` memo is modelled separately (Model/Heap); on trees `_evaluate`
is this pure function.
-/
import Smooth.Model.MathFunctions

namespace Smooth
variable {α : Type}

/-! ### `_verify_domain_constraints` per class -/

def verifyDivide (N : Num α) (_l r : α) : R Unit :=
  if N.isZero r then throw .domain else pure ()

def verifyReciprocal (N : Num α) (x : α) : R Unit :=
  if N.isZero x then throw .domain else pure ()

def verifyPower (N : Num α) (l _r : α) : R Unit :=
  if N.isZero l then throw .domain
  else if N.isNeg l then throw .domain
  else pure ()

def verifyNthRoot (N : Num α) (n : Nat) (x : α) : R Unit :=
  if n ≥ 2 && N.isZero x then throw .domain
  else if n % 2 = 0 && N.isNeg x then throw .domain
  else pure ()

def verifyLogarithm (N : Num α) (x : α) : R Unit :=
  if N.isZero x then throw .domain
  else if N.isNeg x then throw .domain
  else pure ()

mutual
/-- `_evaluate(point)` : children left to right, then the domain check, then the value formula. -/
def evalG (N : Num α) (p : Point α) : Expr α → R α
  | .const _ v => pure v
  | .var _ x => match p.get? x with
      | some v => pure v
      | none => throw .missing
  | .add _ as => do
      let vs ← evalListG N p as
      pure (mfAdd N vs)
  | .minus _ l r => do
      let a ← evalG N p l
      let b ← evalG N p r
      pure (mfMinus N a b)
  | .neg _ u => do
      let a ← evalG N p u
      pure (mfNegation N a)
  | .mul _ as => do
      let vs ← evalListG N p as
      pure (mfMultiply N vs)
  | .div _ l r => do
      let a ← evalG N p l
      let b ← evalG N p r
      verifyDivide N a b
      mfDivide N a b
  | .recip _ u => do
      let a ← evalG N p u
      verifyReciprocal N a
      mfReciprocal N a
  | .pow _ l r => do
      let a ← evalG N p l
      let b ← evalG N p r
      verifyPower N a b
      mfPower N a b
  | .npow _ u n => do
      let a ← evalG N p u
      mfNthPower N a n
  | .nroot _ u n => do
      let a ← evalG N p u
      verifyNthRoot N n a
      mfNthRoot N a n
  | .exp _ u b => do
      let a ← evalG N p u
      mfExponential N a b
  | .log _ u b => do
      let a ← evalG N p u
      verifyLogarithm N a
      mfLogarithm N a b
  | .cos _ u => do
      let a ← evalG N p u
      mfCosine N a
  | .sin _ u => do
      let a ← evalG N p u
      mfSine N a
def evalListG (N : Num α) (p : Point α) : List (Expr α) → R (List α)
  | [] => pure []
  | e :: es => do
      let v ← evalG N p e
      let vs ← evalListG N p es
      pure (v :: vs)
end

/-- `get_the_single_variable_name`. -/
def singleVarName (e : Expr α) : R String :=
  match e.vars with
  | [] => pure "whatever"
  | [x] => pure x
  | _ => throw .usage

/-- `Expression.at(number)` : evaluation at the one-coordinate point of the single variable. -/
def atNumber (N : Num α) (e : Expr α) (t : α) : R α := do
  let x ← singleVarName e
  evalG N [(x, t)] e

end Smooth
