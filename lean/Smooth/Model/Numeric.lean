/-
Model/Numeric — forward mode (`_numeric_partial`), reverse mode (`_compute_numeric_partials`,
`NumericPartialsAccumulator`, `_numeric_partials`) of every class.
-/
import Smooth.Model.Eval

namespace Smooth
variable {α : Type}

/-- `_numeric_partial_formula(point, multiplier)` of the unary classes (chain-rule factor times the
multiplier).  `e` is the unary node itself. -/
def unaryFormula (N : Num α) (p : Point α) (e : Expr α) (m : α) : R α :=
  match e with
  | .neg _ _ => pure (mfNegation N m)
  | .recip _ u => do
      let a ← evalG N p u
      let sq ← mfNthPower N a 2
      let q ← mfDivide N m sq
      pure (mfNegation N q)
  | .npow _ u n =>
      if n = 1 then pure m
      else do
        let a ← evalG N p u
        let pw ← mfNthPower N a (n - 1)
        pure (mfMultiply N [N.ofNat n, pw, m])
  | .nroot _ _ n =>
      if n = 1 then pure m
      else do
        let s ← evalG N p e
        let pw ← mfNthPower N s (n - 1)
        mfDivide N m (mfMultiply N [N.ofNat n, pw])
  | .exp _ _ b =>
      if N.eq b N.one then pure N.zero
      else do
        let s ← evalG N p e
        if N.eq b N.e then pure (mfMultiply N [s, m])
        else do
          let lb ← mfLogarithm N b N.e
          pure (mfMultiply N [lb, s, m])
  | .log _ u b => do
      let a ← evalG N p u
      if N.eq b N.e then mfDivide N m a
      else do
        let lb ← mfLogarithm N b N.e
        mfDivide N m (mfMultiply N [lb, a])
  | .cos _ u => do
      let a ← evalG N p u
      let s ← mfSine N a
      pure (mfMultiply N [mfNegation N s, m])
  | .sin _ u => do
      let a ← evalG N p u
      let c ← mfCosine N a
      pure (mfMultiply N [c, m])
  | _ => pure m

/-- the inner operand and the domain check of a unary node -/
def unaryVerify (N : Num α) (e : Expr α) (a : α) : R Unit :=
  match e with
  | .recip _ _ => verifyReciprocal N a
  | .nroot _ _ n => verifyNthRoot N n a
  | .log _ _ _ => verifyLogarithm N a
  | _ => pure ()

/-- `Divide._numeric_partial_formula_left/right` -/
def divFormulaLeft (N : Num α) (p : Point α) (_l r : Expr α) (m : α) : R α := do
  let b ← evalG N p r
  mfDivide N m b

def divFormulaRight (N : Num α) (p : Point α) (l r : Expr α) (m : α) : R α := do
  let a ← evalG N p l
  let b ← evalG N p r
  let sq ← mfNthPower N b 2
  let q ← mfDivide N a sq
  pure (mfMultiply N [mfNegation N q, m])

/-- `Power._numeric_partial_formula_left/right` ; `self` is the `Power` node. -/
def powFormulaLeft (N : Num α) (p : Point α) (l r : Expr α) (m : α) : R α := do
  let a ← evalG N p l
  let b ← evalG N p r
  let pw ← mfPower N a (mfMinus N b N.one)
  pure (mfMultiply N [b, pw, m])

def powFormulaRight (N : Num α) (p : Point α) (self l : Expr α) (m : α) : R α := do
  let a ← evalG N p l
  let s ← evalG N p self
  let lg ← mfLogarithm N a N.e
  pure (mfMultiply N [lg, s, m])

/-- `Power`'s short-cut test: the base has no variables and evaluates to one. -/
def powShortcut (N : Num α) (p : Point α) (l : Expr α) : R Bool :=
  if l.vars.isEmpty then do
    let a ← evalG N p l
    pure (N.eq a N.one)
  else pure false

/-- the i-th summand of the product rule: `multiply(d_i, *values_without_i)` -/
def mulTermsGo (N : Num α) (vs : List α) : Nat → List α → List α
  | _, [] => []
  | i, d :: ds => mfMultiply N (d :: vs.eraseIdx i) :: mulTermsGo N vs (i + 1) ds

def mulTerms (N : Num α) (ds vs : List α) : List α := mulTermsGo N vs 0 ds

mutual
/-- `_numeric_partial(variable_name, point)` -/
def fwdG (N : Num α) (p : Point α) (x : String) : Expr α → R α
  | .const _ _ => pure N.zero
  | .var _ y => if y == x then pure N.one else pure N.zero
  | .add _ as => do
      let ds ← fwdListG N p x as
      pure (mfAdd N ds)
  | .minus _ l r => do
      let a ← fwdG N p x l
      let b ← fwdG N p x r
      pure (mfMinus N a b)
  | .mul _ as => do
      let vs ← evalListG N p as
      let ds ← fwdListG N p x as
      pure (mfAdd N (mulTerms N ds vs))
  | .div _ l r => do
      let a ← evalG N p l
      let b ← evalG N p r
      verifyDivide N a b
      let dl ← fwdG N p x l
      let dr ← fwdG N p x r
      let t1 ← divFormulaLeft N p l r dl
      let t2 ← divFormulaRight N p l r dr
      pure (mfAdd N [t1, t2])
  | .pow f l r => do
      if ← powShortcut N p l then
        let _ ← evalG N p (.pow f l r)
        pure N.zero
      else
        let a ← evalG N p l
        let b ← evalG N p r
        verifyPower N a b
        let dl ← fwdG N p x l
        let dr ← fwdG N p x r
        let t1 ← powFormulaLeft N p l r dl
        let t2 ← powFormulaRight N p (.pow f l r) l dr
        pure (N.add t1 t2)
  | .neg f u => do
      let a ← evalG N p u
      unaryVerify N (.neg f u) a
      let d ← fwdG N p x u
      unaryFormula N p (.neg f u) d
  | .recip f u => do
      let a ← evalG N p u
      unaryVerify N (.recip f u) a
      let d ← fwdG N p x u
      unaryFormula N p (.recip f u) d
  | .npow f u n => do
      let a ← evalG N p u
      unaryVerify N (.npow f u n) a
      let d ← fwdG N p x u
      unaryFormula N p (.npow f u n) d
  | .nroot f u n => do
      let a ← evalG N p u
      unaryVerify N (.nroot f u n) a
      let d ← fwdG N p x u
      unaryFormula N p (.nroot f u n) d
  | .exp f u b => do
      let a ← evalG N p u
      unaryVerify N (.exp f u b) a
      let d ← fwdG N p x u
      unaryFormula N p (.exp f u b) d
  | .log f u b => do
      let a ← evalG N p u
      unaryVerify N (.log f u b) a
      let d ← fwdG N p x u
      unaryFormula N p (.log f u b) d
  | .cos f u => do
      let a ← evalG N p u
      unaryVerify N (.cos f u) a
      let d ← fwdG N p x u
      unaryFormula N p (.cos f u) d
  | .sin f u => do
      let a ← evalG N p u
      unaryVerify N (.sin f u) a
      let d ← fwdG N p x u
      unaryFormula N p (.sin f u) d
def fwdListG (N : Num α) (p : Point α) (x : String) : List (Expr α) → R (List α)
  | [] => pure []
  | e :: es => do
      let d ← fwdG N p x e
      let ds ← fwdListG N p x es
      pure (d :: ds)
end

/-! ### reverse mode -/

/-- `NumericPartialsAccumulator._numeric_partials` : insertion-ordered dictionary. -/
abbrev Acc (α : Type) := List (String × α)

def Acc.get? (acc : Acc α) (x : String) : Option α := Point.get? acc x

def Acc.set (acc : Acc α) (x : String) (v : α) : Acc α :=
  match acc with
  | [] => [(x, v)]
  | (y, w) :: rest => if y == x then (y, v) :: rest else (y, w) :: Acc.set rest x v

/-- `add_to(variable, contribution)` : `existing + contribution`, `existing` defaulting to `0`. -/
def Acc.addTo (N : Num α) (acc : Acc α) (x : String) (c : α) : Acc α :=
  acc.set x (N.add ((acc.get? x).getD N.zero) c)

mutual
/-- `_compute_numeric_partials(accumulator, multiplier, point)` -/
def revG (N : Num α) (p : Point α) : Expr α → α → Acc α → R (Acc α)
  | .const _ _, _, acc => pure acc
  | .var _ y, m, acc => pure (acc.addTo N y m)
  | .add _ as, m, acc => revListG N p as m acc
  | .minus _ l r, m, acc => do
      let acc ← revG N p l m acc
      revG N p r (mfNegation N m) acc
  | .mul _ as, m, acc => do
      let vs ← evalListG N p as
      revMulG N p vs m 0 as acc
  | .div _ l r, m, acc => do
      let a ← evalG N p l
      let b ← evalG N p r
      verifyDivide N a b
      let ml ← divFormulaLeft N p l r m
      let mr ← divFormulaRight N p l r m
      let acc ← revG N p l ml acc
      revG N p r mr acc
  | .pow f l r, m, acc => do
      if ← powShortcut N p l then
        let _ ← evalG N p (.pow f l r)
        pure acc
      else
        let a ← evalG N p l
        let b ← evalG N p r
        verifyPower N a b
        let ml ← powFormulaLeft N p l r m
        let mr ← powFormulaRight N p (.pow f l r) l m
        let acc ← revG N p l ml acc
        revG N p r mr acc
  | .neg f u, m, acc => do
      let a ← evalG N p u
      unaryVerify N (.neg f u) a
      let m' ← unaryFormula N p (.neg f u) m
      revG N p u m' acc
  | .recip f u, m, acc => do
      let a ← evalG N p u
      unaryVerify N (.recip f u) a
      let m' ← unaryFormula N p (.recip f u) m
      revG N p u m' acc
  | .npow f u n, m, acc => do
      let a ← evalG N p u
      unaryVerify N (.npow f u n) a
      let m' ← unaryFormula N p (.npow f u n) m
      revG N p u m' acc
  | .nroot f u n, m, acc => do
      let a ← evalG N p u
      unaryVerify N (.nroot f u n) a
      let m' ← unaryFormula N p (.nroot f u n) m
      revG N p u m' acc
  | .exp f u b, m, acc => do
      let a ← evalG N p u
      unaryVerify N (.exp f u b) a
      let m' ← unaryFormula N p (.exp f u b) m
      revG N p u m' acc
  | .log f u b, m, acc => do
      let a ← evalG N p u
      unaryVerify N (.log f u b) a
      let m' ← unaryFormula N p (.log f u b) m
      revG N p u m' acc
  | .cos f u, m, acc => do
      let a ← evalG N p u
      unaryVerify N (.cos f u) a
      let m' ← unaryFormula N p (.cos f u) m
      revG N p u m' acc
  | .sin f u, m, acc => do
      let a ← evalG N p u
      unaryVerify N (.sin f u) a
      let m' ← unaryFormula N p (.sin f u) m
      revG N p u m' acc
def revListG (N : Num α) (p : Point α) : List (Expr α) → α → Acc α → R (Acc α)
  | [], _, acc => pure acc
  | e :: es, m, acc => do
      let acc ← revG N p e m acc
      revListG N p es m acc
/-- the `Multiply` loop: `vs` are the values of *all* factors, `i` the index of the head of the
remaining list -/
def revMulG (N : Num α) (p : Point α) (vs : List α) (m : α) (i : Nat) :
    List (Expr α) → Acc α → R (Acc α)
  | [], acc => pure acc
  | e :: es, acc => do
      let acc ← revG N p e (mfMultiply N (m :: vs.eraseIdx i)) acc
      revMulG N p vs m (i + 1) es acc
end

/-- `_numeric_partials(point)` : seed multiplier `1`, read back every variable of `e` (default `0`). -/
def numericPartials (N : Num α) (p : Point α) (e : Expr α) : R (Acc α) := do
  let acc ← revG N p e N.one []
  pure (e.vars.map fun x => (x, (acc.get? x).getD N.zero))

end Smooth
