/-
Model/MathFunctions — `smoothmath/_private/math_functions.py`, function by function, on top of the
CPython-level primitives (`/`, `**`, `math.sqrt`, `math.cbrt`, `math.log`) whose own error behaviour
is made explicit (`py*`).
-/
import Smooth.Model.Basic

namespace Smooth
variable {α : Type}

/-! ### CPython primitives: what the interpreter itself does when a guard is missing -/

/-- `x / y` : `ZeroDivisionError` on `y == 0`. -/
def pyTrueDiv (N : Num α) (x y : α) : R α :=
  if N.isZero y then throw .zeroDiv else pure (N.div x y)

/-- `x ** y` for numbers: `0 ** negative` raises `ZeroDivisionError`, `negative ** non-integral`
returns a complex number. -/
def pyPow (N : Num α) (x y : α) : R α :=
  if N.isZero x then
    if N.isNeg y then throw .zeroDiv
    else if N.isZero y then pure N.one else pure N.zero
  else if N.isNeg x then
    match N.toInt y with
    | none => throw .complex
    | some k =>
      if k ≥ 0 then pure (N.powNat x k.toNat)
      else pure (N.div N.one (N.powNat x (-k).toNat))
  else N.rpow x y

/-- `math.sqrt(x)` : `ValueError` for negative `x`. -/
def pySqrt (N : Num α) (x : α) : R α :=
  if N.isNeg x then throw .valueErr else N.sqrt x

/-- `math.log(x, base)` = `log(x) / log(base)` : `ValueError` for non-positive arguments,
`ZeroDivisionError` for `base == 1` (whose logarithm is `0.0`). -/
def pyLog (N : Num α) (x base : α) : R α :=
  if N.isZero x || N.isNeg x then throw .valueErr
  else if N.isZero base || N.isNeg base then throw .valueErr
  else if N.eq base N.one then throw .zeroDiv
  else N.logb x base

/-! ### math_functions.py -/

/-- `sum(args)` : left fold from `0`. -/
def sumL (N : Num α) (xs : List α) : α := xs.foldl N.add N.zero

def mfAdd (N : Num α) (xs : List α) : α := sumL N xs
def mfMinus (N : Num α) (x y : α) : α := N.sub x y
def mfNegation (N : Num α) (x : α) : α := N.neg x

/-- `multiply(*args)`: running product from `1.0`, returns `0` at the first zero factor. -/
def mulGo (N : Num α) : α → List α → α
  | acc, [] => acc
  | acc, x :: xs => if N.isZero x then N.zero else mulGo N (N.mul acc x) xs

def mfMultiply (N : Num α) (xs : List α) : α := mulGo N N.one xs

def mfDivide (N : Num α) (x y : α) : R α :=
  if N.isZero y then throw .domain else pyTrueDiv N x y

def mfReciprocal (N : Num α) (x : α) : R α :=
  if N.isZero x then throw .domain else pyTrueDiv N N.one x

def mfPower (N : Num α) (x y : α) : R α :=
  if N.isZero x then throw .domain
  else if N.isNeg x then throw .domain
  else pyPow N x y

def mfNthPower (N : Num α) (x : α) (n : Nat) : R α :=
  if n = 0 then throw .domain else pure (N.powNat x n)

/-- `1 / n` as computed for `x ** (1 / n)`. -/
def invNat (N : Num α) (n : Nat) : α := N.div N.one (N.ofNat n)

def mfNthRoot (N : Num α) (x : α) (n : Nat) : R α :=
  if n = 0 then throw .domain
  else if n = 1 then pure x
  else if n = 2 then
    if N.isPos x then pySqrt N x else throw .domain
  else if n = 3 then
    if N.isPos x then N.cbrt x
    else if N.isZero x then throw .domain
    else do let r ← N.cbrt (N.neg x); pure (N.neg r)
  else if n % 2 = 0 then
    if N.isPos x then pyPow N x (invNat N n) else throw .domain
  else
    if N.isPos x then pyPow N x (invNat N n)
    else if N.isZero x then throw .domain
    else do let r ← pyPow N (N.neg x) (invNat N n); pure (N.neg r)

def mfExponential (N : Num α) (x base : α) : R α :=
  if N.isZero base || N.isNeg base then throw .domain else pyPow N base x

def mfLogarithm (N : Num α) (x base : α) : R α :=
  if N.isZero base || N.isNeg base then throw .domain
  else if N.eq base N.one then throw .domain
  else pyLog N x base

def mfCosine (N : Num α) (x : α) : R α := N.cos x
def mfSine (N : Num α) (x : α) : R α := N.sin x

end Smooth
