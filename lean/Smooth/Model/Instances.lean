/-
Model/Instances — the two executable number instances used by the correspondence driver.

* `qeNum` : exact rationals, with a sticky flag "every intermediate so far is representable as an IEEE
  double" (the executable content of C01's exactness sentence).  libm-backed operations answer
  `unsupported` except at the few points where CPython's result is exact.
* `fbNum mode` : IEEE doubles (Lean's `Float`, the same libm as CPython here) together with a
  first-order running bound on the absolute rounding error of the value.  `mode` selects how a guard
  (`== 0`, `< 0`) is decided for a value that is within its own error bound of zero: 0 = as computed,
  1 = "zero", 2 = "negative", 3 = "positive"; the harness uses the variants to recognise decisions
  that rounding alone could flip.
-/
import Smooth.Model.Basic

namespace Smooth

/-! ### exact rationals -/

structure QE where
  q : Rat
  rep : Bool := true
  deriving Inhabited

/-- strip factors of two -/
def oddPart : Nat → Nat → Nat
  | 0, m => m
  | fuel + 1, m => if m != 0 && m % 2 == 0 then oddPart fuel (m / 2) else m

def isPow2 (d : Nat) : Bool := d != 0 && oddPart (d.log2 + 1) d == 1

/-- `q` is (the value of) a finite IEEE double of ordinary magnitude -/
def representable (q : Rat) : Bool :=
  let m := oddPart (q.num.natAbs.log2 + 1) q.num.natAbs
  isPow2 q.den && m < 2 ^ 53 && q.den ≤ 2 ^ 900 && q.num.natAbs < 2 ^ 900

def QE.mk' (q : Rat) (r : Bool) : QE := ⟨q, r && representable q⟩

def ratPowNat (x : Rat) (n : Nat) : Rat := x ^ n

def isSquareNat (n : Nat) : Option Nat :=
  let r := n.sqrt
  if r * r == n then some r else none

/-- exact integer `n`-th root, if there is one -/
def iroot (n : Nat) (m : Nat) : Option Nat :=
  if n == 0 then none
  else
    -- binary search on [0, m]
    let rec go (fuel lo hi : Nat) : Nat :=
      match fuel with
      | 0 => lo
      | fuel + 1 =>
        if lo ≥ hi then lo
        else
          let mid := (lo + hi + 1) / 2
          if mid ^ n ≤ m then go fuel mid hi else go fuel lo (mid - 1)
    let r := go (m.log2 + 2) 0 m
    if r ^ n == m then some r else none

/-- the integer `k` (|k| ≤ 64) with `b ^ k = x`, if there is one -/
def ilog (b x : Rat) : Option Int :=
  if b ≤ 0 || b == 1 then none
  else
    let rec go (fuel : Nat) (k : Nat) (pw : Rat) : Option Int :=
      match fuel with
      | 0 => none
      | fuel + 1 =>
        if pw == x then some (k : Int)
        else if 1 / pw == x then some (-(k : Int))
        else go fuel (k + 1) (pw * b)
    go 65 0 1

/-- the double `math.e` as a rational -/
def eRat : Rat := mkRat 0x15bf0a8b145769 (2 ^ 51)

def qeNum : Num QE where
  ofNat n := ⟨(n : Rat), representable (n : Rat)⟩
  e := ⟨eRat, true⟩
  add a b := QE.mk' (a.q + b.q) (a.rep && b.rep)
  sub a b := QE.mk' (a.q - b.q) (a.rep && b.rep)
  neg a := ⟨-a.q, a.rep⟩
  mul a b := QE.mk' (a.q * b.q) (a.rep && b.rep)
  div a b := QE.mk' (a.q / b.q) (a.rep && b.rep)
  powNat a n :=
    -- astronomically large exact powers are not computed: the value is marked "not representable"
    -- (only representable values are ever compared exactly)
    if (a.q.num.natAbs.log2 + a.q.den.log2 + 2) * n > 300000 then ⟨0, false⟩
    else QE.mk' (ratPowNat a.q n) a.rep
  rpow x y :=
    if y.q == 0 then pure ⟨1, x.rep && y.rep⟩
    else if x.q == eRat then throw .unsupported        -- `math.e ** y` is libm's exp, never exact
    else if y.q.den == 1 then
      let k := y.q.num
      if (x.q.num.natAbs.log2 + x.q.den.log2 + 2) * k.natAbs > 200000 then throw .unsupported
      else if k ≥ 0 then pure (QE.mk' (ratPowNat x.q k.toNat) (x.rep && y.rep))
      else pure (QE.mk' (1 / ratPowNat x.q (-k).toNat) (x.rep && y.rep))
    else if x.q == 1 then pure ⟨1, x.rep && y.rep⟩
    else if y.q.num == 1 && y.q.den ≤ 64 && x.q > 0 && x.q != eRat then
      -- x ** (1/n) at an exact n-th power
      match iroot y.q.den x.q.num.natAbs, iroot y.q.den x.q.den with
      | some a, some b => pure (QE.mk' (mkRat a b) x.rep)
      | _, _ => throw .unsupported
    else throw .unsupported
  sqrt x :=
    if x.q < 0 then throw .unsupported
    else match isSquareNat x.q.num.natAbs, isSquareNat x.q.den with
      | some a, some b => pure (QE.mk' (mkRat a b) x.rep)
      | _, _ => throw .unsupported
  cbrt x :=
    match iroot 3 x.q.num.natAbs, iroot 3 x.q.den with
    | some a, some b => pure (QE.mk' (if x.q < 0 then -(mkRat a b) else mkRat a b) x.rep)
    | _, _ => throw .unsupported
  logb x b :=
    if x.q == 1 then pure ⟨0, x.rep && b.rep⟩
    else if b.q == eRat then throw .unsupported
    else match ilog b.q x.q with
      | some k => pure ⟨(k : Rat), x.rep && b.rep⟩
      | none => throw .unsupported
  sin x := if x.q == 0 then pure ⟨0, x.rep⟩ else throw .unsupported
  cos x := if x.q == 0 then pure ⟨1, x.rep⟩ else throw .unsupported
  isZero x := x.q == 0
  isNeg x := x.q < 0
  eq a b := a.q == b.q
  toInt x := if x.q.den == 1 then some x.q.num else none

/-! ### doubles with a running error bound -/

/-- `v` the double; `err` a first-order bound on its absolute rounding error; `mx`/`mn` the largest
and the smallest non-zero magnitude among `v` and everything it was computed from (so that the
harness can recognise runs that leave "ordinary floating-point range", which every property
excludes). -/
structure FB where
  v : Float
  err : Float := 0.0
  mx : Float := 0.0
  mn : Float := 1.0
  deriving Inhabited

/-- unit roundoff 2⁻⁵³ -/
def uRound : Float := Float.ofBits 0x3CA0000000000000

def fInf : Float := Float.ofBits 0x7FF0000000000000

/-- absolute error of a result that may have underflowed (products, quotients, powers): a computed
`0.0` of such an operation is then "within its own error bound of zero", i.e. a guard on it is one
that rounding alone can flip -/
def fTiny : Float := Float.ofBits 0x0000000000000400

/-- "this value's sign / zero-ness could be flipped by rounding" -/
def FB.ambiguous (x : FB) : Bool := x.err.isNaN || (x.err > 0.0 && x.v.abs ≤ 8.0 * x.err)

def fmax (a b : Float) : Float := if a ≥ b then a else b
def fmin (a b : Float) : Float := if a ≤ b then a else b

def FB.lit (v : Float) : FB := ⟨v, 0.0, v.abs, if v == 0.0 then 1.0 else fmin 1.0 v.abs⟩

/-- result `v` with propagated error `err`, computed from `srcs` -/
def FB.round (v err : Float) (srcs : List FB) : FB :=
  let mx := srcs.foldl (fun m s => fmax m s.mx) (if v.isNaN then fInf else v.abs)
  let mn := srcs.foldl (fun m s => fmin m s.mn) (if v == 0.0 then 1.0 else fmin 1.0 v.abs)
  ⟨v, err + 2.0 * uRound * v.abs, mx, mn⟩

/-- the integer a finite integral double is (`round(x)` in Python, for any magnitude) -/
def floatToInt (v : Float) : Option Int :=
  if !(v.isFinite && v.floor == v) then none
  else if v.abs < 9.0e18 then some v.toInt64.toInt
  else
    -- |v| ≥ 2^53 : v = m · 2^e with m ∈ [0.5, 1), and m · 2^53 is an integer
    let (m, e) := v.frExp
    let mi : Int := (m * 9007199254740992.0).toInt64.toInt
    some (mi * (2 : Int) ^ (e - 53).toNat)

def fbNum (mode : Nat) : Num FB where
  ofNat n := FB.lit (Float.ofNat n)
  e := FB.lit (Float.ofBits 0x4005bf0a8b145769)
  add a b := FB.round (a.v + b.v) (a.err + b.err) [a, b]
  sub a b := FB.round (a.v - b.v) (a.err + b.err) [a, b]
  neg a := { a with v := -a.v }
  mul a b := FB.round (a.v * b.v) (a.v.abs * b.err + b.v.abs * a.err + a.err * b.err + fTiny) [a, b]
  div a b :=
    let v := a.v / b.v
    let d := b.v.abs - b.err
    FB.round v ((if b.err == 0.0 then a.err / b.v.abs
      else if d > 0.0 then (a.err + v.abs * b.err) / d else fInf) + fTiny) [a, b]
  powNat a n :=
    let nf := Float.ofNat n
    let v := Float.pow a.v nf
    -- the bound is first order: it means something only while the relative perturbation of the result is small
    let e1 := if a.err == 0.0 then 0.0
      else if nf * a.err > 0.5 * a.v.abs then fInf
      else 2.0 * nf * Float.pow a.v.abs (nf - 1.0) * a.err + Float.pow a.err nf
    FB.round v (e1 + fTiny) [a]
  rpow x y :=
    let v := Float.pow x.v y.v
    let d := x.v - x.err
    let rel := if d > 0.0 then y.v.abs * x.err / d + (Float.log x.v).abs * y.err else fInf
    let e1 := if x.err == 0.0 && y.err == 0.0 then 0.0
      else if d > 0.0 && rel ≤ 0.5 then 2.0 * v.abs * rel
      else fInf      -- the exponent (or the base) is known so badly that the result may be off by a factor: no first-order bound
    pure (FB.round v (e1 + 2.0 * uRound * v.abs + fTiny) [x, y])
  sqrt x :=
    let v := Float.sqrt x.v
    let d := x.v - x.err
    let e1 := if x.err == 0.0 then 0.0
      else if d > 0.0 && x.err ≤ 0.5 * x.v then x.err / (2.0 * Float.sqrt d) else fInf
    pure (FB.round v e1 [x])
  cbrt x :=
    let v := Float.cbrt x.v
    let d := x.v.abs - x.err
    let e1 := if x.err == 0.0 then 0.0
      else if d > 0.0 && x.err ≤ 0.5 * x.v.abs then x.err / (3.0 * Float.cbrt (d * d)) else fInf
    pure (FB.round v (e1 + 2.0 * uRound * v.abs) [x])
  logb x b :=
    let lx := Float.log x.v
    let lb := Float.log b.v
    let dx := x.v - x.err
    let db := b.v - b.err
    let elx := (if x.err == 0.0 then 0.0 else if dx > 0.0 && x.err ≤ 0.5 * x.v then x.err / dx else fInf)
      + 2.0 * uRound * lx.abs + uRound
    let elb := (if b.err == 0.0 then 0.0 else if db > 0.0 && b.err ≤ 0.5 * b.v then b.err / db else fInf)
      + 2.0 * uRound * lb.abs + uRound
    let v := lx / lb
    let d := lb.abs - elb
    pure (FB.round v (if d > 0.0 then (elx + v.abs * elb) / d else fInf) [x, b])
  sin x := pure (FB.round (Float.sin x.v) (x.err + 2.0 * uRound + uRound * x.v.abs) [x])
  cos x := pure (FB.round (Float.cos x.v) (x.err + 2.0 * uRound + uRound * x.v.abs) [x])
  isZero x :=
    match mode with
    | 1 => x.v == 0.0 || x.ambiguous
    | 2 | 3 => x.v == 0.0 && !x.ambiguous
    | _ => x.v == 0.0
  isNeg x :=
    match mode with
    | 1 => x.v < 0.0 && !x.ambiguous
    | 2 => x.v < 0.0 || x.ambiguous
    | 3 => x.v < 0.0 && !x.ambiguous
    | _ => x.v < 0.0
  eq a b :=
    let es := a.err + b.err
    let near := es > 0.0 && (a.v - b.v).abs ≤ 8.0 * es
    match mode with
    | 1 => a.v == b.v || near
    | 2 | 3 => a.v == b.v && !near
    | _ => a.v == b.v
  toInt x := floatToInt x.v

end Smooth
