/-
Model/Rules — the 46 rewrite rules (`_reduce_*`), one function each, in the order of the per-class
`_reducers` lists.
-/
import Smooth.Model.Symbolic

namespace Smooth
variable {α : Type}
open Expr

inductive RuleId where
  -- Add
  | addFlatten | addZeros | addLogs | addConsts
  -- Minus
  | minusToSum
  -- Negation
  | negNeg | negSum
  -- Multiply
  | mulFlatten | mulZero | mulOnes | mulNegs | mulNPows | mulNRoots | mulExps | mulConsts
  -- Divide
  | divToMul
  -- Reciprocal
  | recipRecip | recipNeg | recipProd
  -- Power
  | powOne | powZero | onePow | powNat | powNegOne | powConstBase | powPow | powNegExp | powRecipBase
  -- NthPower
  | npowOne | npowRoot | npowPow | npowNeg | npowRecip | npowExp
  -- NthRoot
  | nrootOne | nrootPow | nrootRoot | nrootNeg | nrootRecip
  -- Exponential
  | expLog | expNeg
  -- Logarithm
  | logExp | logRecip | logNPow
  -- Cosine / Sine
  | cosNeg | sinNeg
  deriving DecidableEq, Repr, Inhabited

def RuleId.name : RuleId → String
  | .addFlatten => "addFlatten" | .addZeros => "addZeros" | .addLogs => "addLogs"
  | .addConsts => "addConsts" | .minusToSum => "minusToSum" | .negNeg => "negNeg"
  | .negSum => "negSum" | .mulFlatten => "mulFlatten" | .mulZero => "mulZero"
  | .mulOnes => "mulOnes" | .mulNegs => "mulNegs" | .mulNPows => "mulNPows"
  | .mulNRoots => "mulNRoots" | .mulExps => "mulExps" | .mulConsts => "mulConsts"
  | .divToMul => "divToMul" | .recipRecip => "recipRecip" | .recipNeg => "recipNeg"
  | .recipProd => "recipProd" | .powOne => "powOne" | .powZero => "powZero" | .onePow => "onePow"
  | .powNat => "powNat" | .powNegOne => "powNegOne" | .powConstBase => "powConstBase"
  | .powPow => "powPow" | .powNegExp => "powNegExp" | .powRecipBase => "powRecipBase"
  | .npowOne => "npowOne" | .npowRoot => "npowRoot" | .npowPow => "npowPow" | .npowNeg => "npowNeg"
  | .npowRecip => "npowRecip" | .npowExp => "npowExp" | .nrootOne => "nrootOne"
  | .nrootPow => "nrootPow" | .nrootRoot => "nrootRoot" | .nrootNeg => "nrootNeg"
  | .nrootRecip => "nrootRecip" | .expLog => "expLog" | .expNeg => "expNeg" | .logExp => "logExp"
  | .logRecip => "logRecip" | .logNPow => "logNPow" | .cosNeg => "cosNeg" | .sinNeg => "sinNeg"

/-! ### recognisers (`isinstance` tests) -/

def asConst : Expr α → Option α | .const _ v => some v | _ => none
def asAdd : Expr α → Option (List (Expr α)) | .add _ as => some as | _ => none
def asMul : Expr α → Option (List (Expr α)) | .mul _ as => some as | _ => none
def asNeg : Expr α → Option (Expr α) | .neg _ u => some u | _ => none
def asRecip : Expr α → Option (Expr α) | .recip _ u => some u | _ => none
def asLog : Expr α → Option (α × Expr α) | .log _ u b => some (b, u) | _ => none
def asExp : Expr α → Option (α × Expr α) | .exp _ u b => some (b, u) | _ => none
def asNPow : Expr α → Option (Nat × Expr α) | .npow _ u n => some (n, u) | _ => none
def asNRoot : Expr α → Option (Nat × Expr α) | .nroot _ u n => some (n, u) | _ => none

/-- `isinstance(e, Constant) and pred(e.value)` -/
def isConstSuch (pred : α → Bool) (e : Expr α) : Bool :=
  match asConst e with | some v => pred v | none => false

/-- `first_of_given_type` followed by splicing the nested arguments in place. -/
def spliceFirst (sel : Expr α → Option (List (Expr α))) : List (Expr α) → Option (List (Expr α))
  | [] => none
  | e :: es =>
    match sel e with
    | some inner => some (inner ++ es)
    | none => (spliceFirst sel es).map (e :: ·)

/-- `group_by_key` on an insertion-ordered dictionary (keys compared with `==`). -/
def groupInsert {κ β : Type} (eq : κ → κ → Bool) (k : κ) (v : β) :
    List (κ × List β) → List (κ × List β)
  | [] => [(k, [v])]
  | (k', vs) :: rest =>
    if eq k' k then (k', vs ++ [v]) :: rest else (k', vs) :: groupInsert eq k v rest

def groupByKey {κ β : Type} (eq : κ → κ → Bool) (items : List (κ × β)) : List (κ × List β) :=
  items.foldl (fun g kv => groupInsert eq kv.1 kv.2 g) []

/-- the common shape of the four consolidation rules of `Add`/`Multiply`: partition by class, give up
unless some key occurs twice, rebuild each group (singleton groups included), append after the
non-members. -/
def consolidate {κ : Type} (sel : Expr α → Option (κ × Expr α)) (eq : κ → κ → Bool)
    (build : κ → List (Expr α) → Expr α) (as : List (Expr α)) : Option (List (Expr α)) :=
  let members := as.filterMap sel
  let others := as.filter fun e => (sel e).isNone
  if members.length ≤ 1 then none
  else
    let groups := groupByKey eq members
    if groups.all fun g => g.2.length ≤ 1 then none
    else some (others ++ groups.map fun g => build g.1 g.2)

/-! ### Add -/

def ruleAddFlatten : Expr α → Option (Expr α)
  | .add _ as => (spliceFirst asAdd as).map mkAdd
  | _ => none

def ruleAddZeros (N : Num α) : Expr α → Option (Expr α)
  | .add _ as =>
    let nz := as.filter fun e => !isConstSuch N.isZero e
    if nz.length = as.length then none else some (mkAdd nz)
  | _ => none

def ruleAddLogs (N : Num α) : Expr α → Option (Expr α)
  | .add _ as =>
    (consolidate asLog N.eq (fun b inners => mkLog (mkMul inners) b) as).map mkAdd
  | _ => none

def ruleAddConsts (N : Num α) : Expr α → Option (Expr α)
  | .add _ as =>
    let cs := as.filterMap asConst
    let others := as.filter fun e => (asConst e).isNone
    if cs.length ≤ 1 then none else some (mkAdd (others ++ [mkConst (mfAdd N cs)]))
  | _ => none

/-! ### Minus, Negation -/

def ruleMinusToSum : Expr α → Option (Expr α)
  | .minus _ l r => some (mkAdd [l, mkNeg r])
  | _ => none

def ruleNegNeg : Expr α → Option (Expr α)
  | .neg _ (.neg _ u) => some u
  | _ => none

def ruleNegSum : Expr α → Option (Expr α)
  | .neg _ (.add _ as) => some (mkAdd (as.map mkNeg))
  | _ => none

/-! ### Multiply -/

def ruleMulFlatten : Expr α → Option (Expr α)
  | .mul _ as => (spliceFirst asMul as).map mkMul
  | _ => none

def ruleMulZero (N : Num α) : Expr α → Option (Expr α)
  | .mul _ as => if as.any (isConstSuch N.isZero) then some (mkConst N.zero) else none
  | _ => none

def ruleMulOnes (N : Num α) : Expr α → Option (Expr α)
  | .mul _ as =>
    let no := as.filter fun e => !isConstSuch (fun v => N.eq v N.one) e
    if no.length = as.length then none else some (mkMul no)
  | _ => none

def ruleMulNegs (N : Num α) : Expr α → Option (Expr α)
  | .mul _ as =>
    let negs := as.filterMap asNeg
    let others := as.filter fun e => (asNeg e).isNone
    if negs.length = 0 then none
    else if negs.length % 2 = 0 then some (mkMul (others ++ negs))
    else some (mkMul (others ++ negs ++ [mkConst N.negOne]))
  | _ => none

def ruleMulNPows : Expr α → Option (Expr α)
  | .mul _ as =>
    (consolidate asNPow (fun a b => a == b) (fun n inners => mkNPow (mkMul inners) n) as).map mkMul
  | _ => none

def ruleMulNRoots : Expr α → Option (Expr α)
  | .mul _ as =>
    (consolidate asNRoot (fun a b => a == b) (fun n inners => mkNRoot (mkMul inners) n) as).map mkMul
  | _ => none

def ruleMulExps (N : Num α) : Expr α → Option (Expr α)
  | .mul _ as =>
    (consolidate asExp N.eq (fun b inners => mkExp (mkAdd inners) b) as).map mkMul
  | _ => none

def ruleMulConsts (N : Num α) : Expr α → Option (Expr α)
  | .mul _ as =>
    let cs := as.filterMap asConst
    let others := as.filter fun e => (asConst e).isNone
    if cs.length ≤ 1 then none else some (mkMul (others ++ [mkConst (mfMultiply N cs)]))
  | _ => none

/-! ### Divide, Reciprocal -/

def ruleDivToMul : Expr α → Option (Expr α)
  | .div _ l r => some (mkMul [l, mkRecip r])
  | _ => none

def ruleRecipRecip : Expr α → Option (Expr α)
  | .recip _ (.recip _ u) => some u
  | _ => none

def ruleRecipNeg : Expr α → Option (Expr α)
  | .recip _ (.neg _ u) => some (mkNeg (mkRecip u))
  | _ => none

def ruleRecipProd : Expr α → Option (Expr α)
  | .recip _ (.mul _ as) => some (mkMul (as.map mkRecip))
  | _ => none

/-! ### Power -/

def rulePowOne (N : Num α) : Expr α → Option (Expr α)
  | .pow _ l r => if isConstSuch (fun v => N.eq v N.one) r then some l else none
  | _ => none

def rulePowZero (N : Num α) : Expr α → Option (Expr α)
  | .pow _ _ r => if isConstSuch N.isZero r then some (mkConst N.one) else none
  | _ => none

def ruleOnePow (N : Num α) : Expr α → Option (Expr α)
  | .pow _ l _ => if isConstSuch (fun v => N.eq v N.one) l then some (mkConst N.one) else none
  | _ => none

def rulePowNat (N : Num α) : Expr α → Option (Expr α)
  | .pow _ l (.const _ v) =>
    match N.toInt v with
    | some k => if k ≥ 2 then some (mkNPow l k.toNat) else none
    | none => none
  | _ => none

def rulePowNegOne (N : Num α) : Expr α → Option (Expr α)
  | .pow _ l r => if isConstSuch (fun v => N.eq v N.negOne) r then some (mkRecip l) else none
  | _ => none

def rulePowConstBase (N : Num α) : Expr α → Option (Expr α)
  | .pow _ (.const _ v) r =>
    if N.isPos v && !N.eq v N.one then some (mkExp r v) else none
  | _ => none

def rulePowPow : Expr α → Option (Expr α)
  | .pow _ (.pow _ u v) w => some (mkPow u (mkMul [v, w]))
  | _ => none

def rulePowNegExp : Expr α → Option (Expr α)
  | .pow _ l (.neg _ v) => some (mkRecip (mkPow l v))
  | _ => none

def rulePowRecipBase : Expr α → Option (Expr α)
  | .pow _ (.recip _ u) r => some (mkRecip (mkPow u r))
  | _ => none

/-! ### NthPower -/

def ruleNPowOne : Expr α → Option (Expr α)
  | .npow _ u n => if n = 1 then some u else none
  | _ => none

def ruleNPowRoot : Expr α → Option (Expr α)
  | .npow _ (.nroot _ u m) n =>
    if m = n then some u
    else
      let g := Nat.gcd m n
      if g ≠ 1 then some (mkNPow (mkNRoot u (m / g)) (n / g)) else none
  | _ => none

def ruleNPowPow : Expr α → Option (Expr α)
  | .npow _ (.npow _ u m) n => some (mkNPow u (n * m))
  | _ => none

def ruleNPowNeg : Expr α → Option (Expr α)
  | .npow _ (.neg _ u) n =>
    if n % 2 = 0 then some (mkNPow u n) else some (mkNeg (mkNPow u n))
  | _ => none

def ruleNPowRecip : Expr α → Option (Expr α)
  | .npow _ (.recip _ u) n => some (mkRecip (mkNPow u n))
  | _ => none

def ruleNPowExp (N : Num α) : Expr α → Option (Expr α)
  | .npow _ (.exp _ u b) n => some (mkExp (mkMul [mkConst (N.ofNat n), u]) b)
  | _ => none

/-! ### NthRoot -/

def ruleNRootOne : Expr α → Option (Expr α)
  | .nroot _ u n => if n = 1 then some u else none
  | _ => none

/-- `NthRoot(NthPower(u, m), n) => NthPower(NthRoot(u, n), m)` — unsound for even/even (K1). -/
def ruleNRootPow : Expr α → Option (Expr α)
  | .nroot _ (.npow _ u m) n => some (mkNPow (mkNRoot u n) m)
  | _ => none

def ruleNRootRoot : Expr α → Option (Expr α)
  | .nroot _ (.nroot _ u m) n => some (mkNRoot u (n * m))
  | _ => none

def ruleNRootNeg : Expr α → Option (Expr α)
  | .nroot _ (.neg _ u) n => if n % 2 = 1 then some (mkNeg (mkNRoot u n)) else none
  | _ => none

def ruleNRootRecip : Expr α → Option (Expr α)
  | .nroot _ (.recip _ u) n => some (mkRecip (mkNRoot u n))
  | _ => none

/-! ### Exponential, Logarithm, Cosine, Sine -/

def ruleExpLog (N : Num α) : Expr α → Option (Expr α)
  | .exp _ (.log _ u b') b => if N.eq b b' then some u else none
  | _ => none

def ruleExpNeg : Expr α → Option (Expr α)
  | .exp _ (.neg _ u) b => some (mkRecip (mkExp u b))
  | _ => none

def ruleLogExp (N : Num α) : Expr α → Option (Expr α)
  | .log _ (.exp _ u b') b => if N.eq b b' then some u else none
  | _ => none

def ruleLogRecip : Expr α → Option (Expr α)
  | .log _ (.recip _ u) b => some (mkNeg (mkLog u b))
  | _ => none

def ruleLogNPow (N : Num α) : Expr α → Option (Expr α)
  | .log _ (.npow _ u n) b =>
    if n % 2 = 1 then some (mkMul [mkConst (N.ofNat n), mkLog u b]) else none
  | _ => none

def ruleCosNeg : Expr α → Option (Expr α)
  | .cos _ (.neg _ u) => some (mkCos u)
  | _ => none

def ruleSinNeg : Expr α → Option (Expr α)
  | .sin _ (.neg _ u) => some (mkNeg (mkSin u))
  | _ => none

/-- the rule a `RuleId` names -/
def RuleId.apply (N : Num α) : RuleId → Expr α → Option (Expr α)
  | .addFlatten => ruleAddFlatten | .addZeros => ruleAddZeros N | .addLogs => ruleAddLogs N
  | .addConsts => ruleAddConsts N | .minusToSum => ruleMinusToSum | .negNeg => ruleNegNeg
  | .negSum => ruleNegSum | .mulFlatten => ruleMulFlatten | .mulZero => ruleMulZero N
  | .mulOnes => ruleMulOnes N | .mulNegs => ruleMulNegs N | .mulNPows => ruleMulNPows
  | .mulNRoots => ruleMulNRoots | .mulExps => ruleMulExps N | .mulConsts => ruleMulConsts N
  | .divToMul => ruleDivToMul | .recipRecip => ruleRecipRecip | .recipNeg => ruleRecipNeg
  | .recipProd => ruleRecipProd | .powOne => rulePowOne N | .powZero => rulePowZero N
  | .onePow => ruleOnePow N | .powNat => rulePowNat N | .powNegOne => rulePowNegOne N
  | .powConstBase => rulePowConstBase N | .powPow => rulePowPow | .powNegExp => rulePowNegExp
  | .powRecipBase => rulePowRecipBase | .npowOne => ruleNPowOne | .npowRoot => ruleNPowRoot
  | .npowPow => ruleNPowPow | .npowNeg => ruleNPowNeg | .npowRecip => ruleNPowRecip
  | .npowExp => ruleNPowExp N | .nrootOne => ruleNRootOne | .nrootPow => ruleNRootPow
  | .nrootRoot => ruleNRootRoot | .nrootNeg => ruleNRootNeg | .nrootRecip => ruleNRootRecip
  | .expLog => ruleExpLog N | .expNeg => ruleExpNeg | .logExp => ruleLogExp N
  | .logRecip => ruleLogRecip | .logNPow => ruleLogNPow N | .cosNeg => ruleCosNeg
  | .sinNeg => ruleSinNeg

/-- the ordered `_reducers` list of the class of `e` -/
def reducers : Expr α → List RuleId
  | .const _ _ | .var _ _ => []
  | .add _ _ => [.addFlatten, .addZeros, .addLogs, .addConsts]
  | .minus _ _ _ => [.minusToSum]
  | .neg _ _ => [.negNeg, .negSum]
  | .mul _ _ => [.mulFlatten, .mulZero, .mulOnes, .mulNegs, .mulNPows, .mulNRoots, .mulExps,
      .mulConsts]
  | .div _ _ _ => [.divToMul]
  | .recip _ _ => [.recipRecip, .recipNeg, .recipProd]
  | .pow _ _ _ => [.powOne, .powZero, .onePow, .powNat, .powNegOne, .powConstBase, .powPow,
      .powNegExp, .powRecipBase]
  | .npow _ _ _ => [.npowOne, .npowRoot, .npowPow, .npowNeg, .npowRecip, .npowExp]
  | .nroot _ _ _ => [.nrootOne, .nrootPow, .nrootRoot, .nrootNeg, .nrootRecip]
  | .exp _ _ _ => [.expLog, .expNeg]
  | .log _ _ _ => [.logExp, .logRecip, .logNPow]
  | .cos _ _ => [.cosNeg]
  | .sin _ _ => [.sinNeg]

/-- first reducer of the list that applies -/
def firstRule (N : Num α) (e : Expr α) : List RuleId → Option (RuleId × Expr α)
  | [] => none
  | r :: rs => match r.apply N e with
    | some e' => some (r, e')
    | none => firstRule N e rs

end Smooth
