/-
Proofs/WFFuelSym — symbolic differentiation keeps the flags honest (`Settled`, Proofs/Settled): the
trees built by `symFwd` and `symRev`/`syntheticPartials` consist of fresh (unflagged) nodes around
sub-trees of the original, so if every flag of the original keeps its promise, so does every flag of
the derivative.  In particular the derivative of an expression without any flag (as the constructors
build it) is settled.  With Proofs/WFFuel this gives: `_retrieve_synthetic_partial` and the table of an
early `Differential` do not run out of the model's fuel (no warning, depth ≤ 48999).
Same architecture as Proofs/NoEvenRootSym.  Generic in the number record `N`.
-/
import Smooth.Proofs.WFFuel
import Smooth.Proofs.NoEvenRootSym
import Smooth.Proofs.Routes
import Smooth.Proofs.WFRoutes

namespace Smooth
open Expr
variable {α : Type} {N : Num α}

/-! ### the local derivative formulas -/

theorem wfd_settled_unarySymFormula (N : Num α) {e m : Expr α} (he : Settled N e)
    (hm : Settled N m) : Settled N (unarySymFormula N e m) := by
  cases e with
  | const f v => exact hm
  | var f x => exact hm
  | add f as => exact hm
  | minus f l r => exact hm
  | mul f as => exact hm
  | div f l r => exact hm
  | pow f l r => exact hm
  | neg f u => simpa [unarySymFormula] using hm
  | recip f u => simpa [unarySymFormula] using ⟨hm, he.recip_inv⟩
  | npow f u n =>
    simp only [unarySymFormula]
    split
    · exact hm
    · simpa using ⟨he.npow_inv, hm⟩
  | nroot f u n =>
    simp only [unarySymFormula]
    split
    · exact hm
    · -- `Divide(m, Multiply(Constant(n), NthPower(<the node itself>, n - 1)))`
      simpa using ⟨hm, he⟩
  | exp f u b =>
    simp only [unarySymFormula]
    split
    · simp
    · split
      · simpa using ⟨he, hm⟩
      · simpa using ⟨he, hm⟩
  | log f u b =>
    simp only [unarySymFormula]
    split
    · simpa using ⟨hm, he.log_inv⟩
    · simpa using ⟨hm, he.log_inv⟩
  | cos f u => simpa [unarySymFormula] using ⟨he.cos_inv, hm⟩
  | sin f u => simpa [unarySymFormula] using ⟨he.sin_inv, hm⟩

theorem wfd_settled_divSymLeft {l r m : Expr α} (hr : Settled N r) (hm : Settled N m) :
    Settled N (divSymLeft l r m) := by
  simpa [divSymLeft] using ⟨hm, hr⟩

theorem wfd_settled_divSymRight {l r m : Expr α} (hl : Settled N l) (hr : Settled N r)
    (hm : Settled N m) : Settled N (divSymRight l r m) := by
  simpa [divSymRight] using ⟨⟨hl, hr⟩, hm⟩

theorem wfd_settled_powSymLeft (N : Num α) {l r m : Expr α} (hl : Settled N l) (hr : Settled N r)
    (hm : Settled N m) : Settled N (powSymLeft N l r m) := by
  simpa [powSymLeft] using ⟨hr, ⟨hl, hr⟩, hm⟩

theorem wfd_settled_powSymRight (N : Num α) {self l m : Expr α} (hs : Settled N self) (hl : Settled N l)
    (hm : Settled N m) : Settled N (powSymRight N self l m) := by
  simpa [powSymRight] using ⟨hl, hs, hm⟩

theorem wfd_settled_eraseIdx {as : List (Expr α)} (h : ∀ a ∈ as, Settled N a) (i : Nat) :
    ∀ a ∈ as.eraseIdx i, Settled N a :=
  fun a ha => h a (List.mem_of_mem_eraseIdx ha)

theorem wfd_settled_symMulTermsGo {as : List (Expr α)} (has : ∀ a ∈ as, Settled N a) :
    ∀ (i : Nat) (ds : List (Expr α)), (∀ d ∈ ds, Settled N d) →
      ∀ t ∈ symMulTermsGo as i ds, Settled N t
  | _, [], _ => by simp [symMulTermsGo]
  | i, d :: ds, hds => by
    intro t ht
    simp only [symMulTermsGo, List.mem_cons] at ht
    rcases ht with rfl | ht
    · rw [settled_mkMul]
      intro a ha
      rcases List.mem_cons.mp ha with rfl | ha
      · exact hds _ List.mem_cons_self
      · exact wfd_settled_eraseIdx has i a ha
    · exact wfd_settled_symMulTermsGo has (i + 1) ds (fun x hx => hds x (List.mem_cons_of_mem _ hx)) t ht

/-! ### forward symbolic mode -/

mutual
/-- **`_synthetic_partial` of an expression with honest flags has honest flags** -/
theorem wfd_settled_symFwd (N : Num α) (x : String) : ∀ e : Expr α, Settled N e → Settled N (symFwd N x e)
  | .const _ _, _ => by simp [symFwd]
  | .var _ y, _ => by
    simp only [symFwd]
    split <;> simp
  | .add _ as, h => by
    simp only [symFwd, settled_mkAdd]; exact wfd_settled_symFwdList N x as h.add_inv
  | .minus _ l r, h => by
    simp only [symFwd, settled_mkMinus]
    exact ⟨wfd_settled_symFwd N x l h.minus_inv.1, wfd_settled_symFwd N x r h.minus_inv.2⟩
  | .mul _ as, h => by
    simp only [symFwd, settled_mkAdd, symMulTerms]
    exact wfd_settled_symMulTermsGo h.mul_inv 0 _ (wfd_settled_symFwdList N x as h.mul_inv)
  | .div _ l r, h => by
    simp only [symFwd, settled_mkAdd, List.forall_mem_cons]
    exact ⟨wfd_settled_divSymLeft h.div_inv.2 (wfd_settled_symFwd N x l h.div_inv.1),
      wfd_settled_divSymRight h.div_inv.1 h.div_inv.2 (wfd_settled_symFwd N x r h.div_inv.2), by simp⟩
  | .pow _ l r, h => by
    simp only [symFwd, settled_mkAdd, List.forall_mem_cons]
    exact ⟨wfd_settled_powSymLeft N h.pow_inv.1 h.pow_inv.2 (wfd_settled_symFwd N x l h.pow_inv.1),
      wfd_settled_powSymRight N h h.pow_inv.1 (wfd_settled_symFwd N x r h.pow_inv.2), by simp⟩
  | .neg _ u, h => by simp only [symFwd]; exact wfd_settled_unarySymFormula N h (wfd_settled_symFwd N x u h.neg_inv)
  | .recip _ u, h => by
    simp only [symFwd]; exact wfd_settled_unarySymFormula N h (wfd_settled_symFwd N x u h.recip_inv)
  | .npow _ u _, h => by
    simp only [symFwd]; exact wfd_settled_unarySymFormula N h (wfd_settled_symFwd N x u h.npow_inv)
  | .nroot _ u _, h => by
    simp only [symFwd]; exact wfd_settled_unarySymFormula N h (wfd_settled_symFwd N x u h.nroot_inv)
  | .exp _ u _, h => by
    simp only [symFwd]; exact wfd_settled_unarySymFormula N h (wfd_settled_symFwd N x u h.exp_inv)
  | .log _ u _, h => by
    simp only [symFwd]; exact wfd_settled_unarySymFormula N h (wfd_settled_symFwd N x u h.log_inv)
  | .cos _ u, h => by simp only [symFwd]; exact wfd_settled_unarySymFormula N h (wfd_settled_symFwd N x u h.cos_inv)
  | .sin _ u, h => by simp only [symFwd]; exact wfd_settled_unarySymFormula N h (wfd_settled_symFwd N x u h.sin_inv)
theorem wfd_settled_symFwdList (N : Num α) (x : String) : ∀ es : List (Expr α),
    (∀ a ∈ es, Settled N a) → ∀ d ∈ symFwdList N x es, Settled N d
  | [], _ => by simp [symFwdList]
  | e :: es, h => by
    simp only [symFwdList, List.forall_mem_cons]
    exact ⟨wfd_settled_symFwd N x e (h e List.mem_cons_self),
      wfd_settled_symFwdList N x es fun a ha => h a (List.mem_cons_of_mem _ ha)⟩
end

/-! ### reverse symbolic mode -/

/-- every accumulated expression is settled -/
def wfdSettledA (N : Num α) (acc : SAcc α) : Prop := ∀ y s, SAcc.get? acc y = some s → Settled N s

theorem wfdSettledA_nil : wfdSettledA N ([] : SAcc α) := fun _ _ h => by simp [SAcc.get?] at h

theorem wfdSettledA_addTo {acc : SAcc α} (h : wfdSettledA N acc) (x : String) {c : Expr α} (hc : Settled N c) :
    wfdSettledA N (SAcc.addTo acc x c) := by
  intro z s hz
  rw [SAcc.get?_addTo] at hz
  by_cases hzx : z = x
  · simp only [hzx, if_true, Option.some.injEq] at hz
    subst hz
    cases hex : SAcc.get? acc x with
    | none => exact hc
    | some ex => simpa [SAcc.merged] using ⟨h x ex hex, hc⟩
  · simp only [hzx, if_false] at hz
    exact h z s hz

mutual
/-- **`_compute_synthetic_partials` keeps the accumulator settled** -/
theorem wfdSettledA_symRev (N : Num α) : ∀ (e m : Expr α) (acc : SAcc α), Settled N e → Settled N m →
    wfdSettledA N acc → wfdSettledA N (symRev N e m acc)
  | .const _ _, _, _, _, _, ha => by simp only [symRev]; exact ha
  | .var _ y, _, _, _, hm, ha => by simp only [symRev]; exact wfdSettledA_addTo ha y hm
  | .add _ as, m, acc, h, hm, ha => by
    simp only [symRev]; exact wfdSettledA_symRevList N as m acc h.add_inv hm ha
  | .minus _ l r, m, acc, h, hm, ha => by
    simp only [symRev]
    exact wfdSettledA_symRev N r _ _ h.minus_inv.2 ((settled_mkNeg N _).mpr hm)
      (wfdSettledA_symRev N l m acc h.minus_inv.1 hm ha)
  | .mul _ as, m, acc, h, hm, ha => by
    simp only [symRev]; exact wfdSettledA_symRevMul N as m 0 as acc h.mul_inv hm h.mul_inv ha
  | .div _ l r, m, acc, h, hm, ha => by
    simp only [symRev]
    exact wfdSettledA_symRev N r _ _ h.div_inv.2 (wfd_settled_divSymRight h.div_inv.1 h.div_inv.2 hm)
      (wfdSettledA_symRev N l _ acc h.div_inv.1 (wfd_settled_divSymLeft h.div_inv.2 hm) ha)
  | .pow _ l r, m, acc, h, hm, ha => by
    simp only [symRev]
    exact wfdSettledA_symRev N r _ _ h.pow_inv.2 (wfd_settled_powSymRight N h h.pow_inv.1 hm)
      (wfdSettledA_symRev N l _ acc h.pow_inv.1 (wfd_settled_powSymLeft N h.pow_inv.1 h.pow_inv.2 hm) ha)
  | .neg _ u, _, acc, h, hm, ha => by
    simp only [symRev]; exact wfdSettledA_symRev N u _ acc h.neg_inv (wfd_settled_unarySymFormula N h hm) ha
  | .recip _ u, _, acc, h, hm, ha => by
    simp only [symRev]; exact wfdSettledA_symRev N u _ acc h.recip_inv (wfd_settled_unarySymFormula N h hm) ha
  | .npow _ u _, _, acc, h, hm, ha => by
    simp only [symRev]; exact wfdSettledA_symRev N u _ acc h.npow_inv (wfd_settled_unarySymFormula N h hm) ha
  | .nroot _ u _, _, acc, h, hm, ha => by
    simp only [symRev]; exact wfdSettledA_symRev N u _ acc h.nroot_inv (wfd_settled_unarySymFormula N h hm) ha
  | .exp _ u _, _, acc, h, hm, ha => by
    simp only [symRev]; exact wfdSettledA_symRev N u _ acc h.exp_inv (wfd_settled_unarySymFormula N h hm) ha
  | .log _ u _, _, acc, h, hm, ha => by
    simp only [symRev]; exact wfdSettledA_symRev N u _ acc h.log_inv (wfd_settled_unarySymFormula N h hm) ha
  | .cos _ u, _, acc, h, hm, ha => by
    simp only [symRev]; exact wfdSettledA_symRev N u _ acc h.cos_inv (wfd_settled_unarySymFormula N h hm) ha
  | .sin _ u, _, acc, h, hm, ha => by
    simp only [symRev]; exact wfdSettledA_symRev N u _ acc h.sin_inv (wfd_settled_unarySymFormula N h hm) ha
theorem wfdSettledA_symRevList (N : Num α) : ∀ (es : List (Expr α)) (m : Expr α) (acc : SAcc α),
    (∀ a ∈ es, Settled N a) → Settled N m → wfdSettledA N acc → wfdSettledA N (symRevList N es m acc)
  | [], _, _, _, _, ha => by simp only [symRevList]; exact ha
  | e :: es, m, acc, h, hm, ha => by
    simp only [symRevList]
    exact wfdSettledA_symRevList N es m _ (fun a ha => h a (List.mem_cons_of_mem _ ha)) hm
      (wfdSettledA_symRev N e m acc (h e List.mem_cons_self) hm ha)
theorem wfdSettledA_symRevMul (N : Num α) (all : List (Expr α)) (m : Expr α) : ∀ (i : Nat)
    (es : List (Expr α)) (acc : SAcc α), (∀ a ∈ all, Settled N a) → Settled N m →
    (∀ a ∈ es, Settled N a) → wfdSettledA N acc → wfdSettledA N (symRevMul N all m i es acc)
  | _, [], _, _, _, _, ha => by simp only [symRevMul]; exact ha
  | i, e :: es, acc, hall, hm, h, ha => by
    simp only [symRevMul]
    refine wfdSettledA_symRevMul N all m (i + 1) es _ hall hm (fun a ha => h a (List.mem_cons_of_mem _ ha))
      (wfdSettledA_symRev N e _ acc (h e List.mem_cons_self) ?_ ha)
    rw [settled_mkMul]
    intro a ha
    rcases List.mem_cons.mp ha with rfl | ha
    · exact hm
    · exact wfd_settled_eraseIdx hall i a ha
end

/-- **every entry of `_synthetic_partials()` of a settled expression is settled** -/
theorem wfd_settled_syntheticPartials (N : Num α) {e : Expr α} (h : Settled N e) {y : String} {s : Expr α}
    (hget : SAcc.get? (syntheticPartials N e) y = some s) : Settled N s := by
  rw [syntheticPartials_get?] at hget
  split at hget
  · injection hget with hget
    have hacc : wfdSettledA N (symRev N e (mkConst N.one) []) :=
      wfdSettledA_symRev N e _ [] h (by simp) wfdSettledA_nil
    cases hg : SAcc.get? (symRev N e (mkConst N.one) []) y with
    | none =>
      rw [hg] at hget
      simp only [Option.getD_none] at hget
      subst hget; simp
    | some s' =>
      rw [hg] at hget
      simp only [Option.getD_some] at hget
      subst hget
      exact hacc y _ hg
  · cases hget

/-! ### the object layer does not run out of fuel -/

/-- **`_retrieve_synthetic_partial` succeeds** (so `.fuel` is not its outcome) when the flags of the
expression are honest, the rewriter finishes within its budget, and the raw symbolic partial is at
most 48999 levels deep -/
theorem wfd_retrieve_ok (N : Num α) {e : Expr α} (x : String) (hs : Settled N e)
    (hw : (fullyReduce N (symFwd N x e)).warned = false) (hd : wfdDepth (symFwd N x e) ≤ 48999) :
    ∃ s w, retrieveSyntheticPartial N e x = .ok (s, w) := by
  obtain ⟨⟨s, w⟩, h⟩ := wfd_normalize_some N (wfd_settled_symFwd N x e hs) hw hd
  exact ⟨s, w, by simp [retrieveSyntheticPartial, h, liftFuel, pure, Except.pure]⟩

/-- the same for the table of `Differential(e, compute_early=True)` -/
theorem wfd_normalizeAll_ok (N : Num α) {e : Expr α} (hs : Settled N e)
    (hw : ∀ y s, SAcc.get? (syntheticPartials N e) y = some s →
      (fullyReduce N s).warned = false ∧ wfdDepth s ≤ 48999) :
    ∃ d w, normalizeAll N (syntheticPartials N e) = .ok (d, w) :=
  routes_normalizeAll_ok N _ fun a ha => by
    have hget := routes_syntheticPartials_mem N e ha
    obtain ⟨h1, h2⟩ := hw a.1 a.2 hget
    exact wfd_normalize_some N (wfd_settled_syntheticPartials N hs hget) h1 h2

/-! ### error kinds when the fuel suffices: the library's own errors only -/

section noFuel
variable {e : Expr ℝ} {x : String} {p : Point ℝ} {err : Err}

theorem wfd_viaStored_error_dm (hwf : WF e) (hret : ∃ s w, retrieveSyntheticPartial realNum e x = .ok (s, w))
    (h : routeViaStored realNum e x p = .error err) : err = .domain ∨ err = .missing := by
  obtain ⟨s, w, hret⟩ := hret
  simp only [routeViaStored, hret, bind, Except.bind] at h
  cases he : evalG realNum p e with
  | error e1 =>
    simp only [he] at h
    injection h with h; subst h
    exact wfd_evalG_error hwf he
  | ok v =>
    simp only [he] at h
    exact wfd_evalG_error (wfd_retrieve hret hwf) h

theorem wfd_routePE_error_dm (hwf : WF e) (hret : ∃ s w, retrieveSyntheticPartial realNum e x = .ok (s, w))
    (h : routePE realNum e x p = .error err) : err = .domain ∨ err = .missing := by
  rw [routePE_eq] at h; exact wfd_viaStored_error_dm hwf hret h

theorem wfd_routePA_error_dm (hwf : WF e) (hret : ∃ s w, retrieveSyntheticPartial realNum e x = .ok (s, w))
    (h : routePA realNum e x p = .error err) : err = .domain ∨ err = .missing := by
  rw [routePA_eq] at h; exact wfd_viaStored_error_dm hwf hret h

theorem wfd_routeFCAE_error_dm (hwf : WF e)
    (hn : ∃ d w, normalizeAll realNum (syntheticPartials realNum e) = .ok (d, w))
    (h : routeFCAE realNum e x p = .error err) : err = .domain ∨ err = .missing := by
  rcases wfd_routeFCAE_error hwf h with h1 | h1 | h1
  · exact Or.inl h1
  · exact Or.inr h1
  · exfalso
    subst h1
    obtain ⟨d, w, hn⟩ := hn
    rw [routeFCAE_eq] at h
    simp only [routeViaComponent, hn, bind, Except.bind] at h
    cases hg : SAcc.get? d x with
    | none =>
      simp only [hg] at h
      rcases wfd_fwdG_error hwf h with h | h <;> cases h
    | some s =>
      simp only [hg] at h
      cases he : evalG realNum p e with
      | error e1 =>
        simp only [he] at h
        injection h with h; subst h
        rcases wfd_evalG_error hwf he with h | h <;> cases h
      | ok v =>
        simp only [he] at h
        rcases wfd_evalG_error (SAccWF_get? (wfd_differential_table hn hwf) hg) h with h | h <;>
          cases h

theorem wfd_routeFCE_error_dm (hwf : WF e)
    (hn : ∃ d w, normalizeAll realNum (syntheticPartials realNum e) = .ok (d, w))
    (h : routeFCE realNum e x p = .error err) : err = .domain ∨ err = .missing :=
  wfd_routeFCAE_error_dm hwf hn h

theorem wfd_routeFATE_error_dm (hwf : WF e)
    (hn : ∃ d w, normalizeAll realNum (syntheticPartials realNum e) = .ok (d, w))
    (h : routeFATE realNum e x p = .error err) : err = .domain ∨ err = .missing := by
  rcases wfd_routeFATE_error hwf h with h1 | h1 | h1
  · exact Or.inl h1
  · exact Or.inr h1
  · exfalso
    subst h1
    obtain ⟨d, w, hn⟩ := hn
    rw [routeFATE_eq] at h
    simp only [hn, bind, Except.bind] at h
    cases he : evalG realNum p e with
    | error e1 =>
      simp only [he] at h
      injection h with h; subst h
      rcases wfd_evalG_error hwf he with h | h <;> cases h
    | ok v =>
      simp only [he] at h
      cases hv : evalAll realNum p d with
      | error e1 =>
        simp only [hv] at h
        injection h with h; subst h
        rcases wfd_evalAll_error (wfd_differential_table hn hwf) hv with h | h <;> cases h
      | ok vals => simp [hv, pure, Except.pure] at h

end noFuel

end Smooth
