/-
Proofs/FlagIndep — the reduction memo flags (`_is_fully_reduced`, `_evaluation_failed`) never change
the result of `_fully_reduce` (property C09, second memo mechanism).

`pstep N` is the *pure* rewrite step on trees, blind to flags: constant folding at the outermost
foldable position, else the step inside the first operand that can be stepped, else the first
applicable reducer of the node's class.  From a sound flagging (`FlagsSound`, Proofs/FlagSound) one
call of `stepF` either only changes flags (the tree with all flags erased is unchanged) or performs
exactly the `pstep` of the erased tree; in both cases the flagging stays sound.  A flagged root in a
sound flagging is a `pstep`-normal form.  As `pstep` is a function, the erased result of the loop
does not depend on the flagging.  Generic in the number record `N`.
-/
import Smooth.Proofs.FlagSound

namespace Smooth
open Expr
variable {α : Type}

/-! ### the pure step -/

/-- constant folding, blind to flags: the value, if the tree is variable-free, not a `Constant`, and
evaluates -/
def pfold (N : Num α) (e : Expr α) : Option α :=
  if e.vars.isEmpty && !isConstNode e then
    match evalG N [] e with
    | .ok v => some v
    | .error _ => none
  else none

/-- the pure step at a node, given the pure step inside its operands -/
def pnode (N : Num α) (self : Expr α) (child : Option (Expr α)) : Option (Expr α) :=
  match pfold N self with
  | some v => some (mkConst v)
  | none =>
    match child with
    | some r => some r
    | none => (firstRule N self (reducers self)).map (·.2)

mutual
/-- **the pure rewrite step**: no flag is consulted -/
def pstep (N : Num α) : Expr α → Option (Expr α)
  | .const _ _ => none
  | .var _ _ => none
  | .add f as => pnode N (.add f as) ((pstepList N as).map mkAdd)
  | .mul f as => pnode N (.mul f as) ((pstepList N as).map mkMul)
  | .minus f l r => pnode N (.minus f l r)
      (match pstep N l with
        | some l' => some (mkMinus l' r)
        | none => (pstep N r).map (mkMinus l))
  | .div f l r => pnode N (.div f l r)
      (match pstep N l with
        | some l' => some (mkDiv l' r)
        | none => (pstep N r).map (mkDiv l))
  | .pow f l r => pnode N (.pow f l r)
      (match pstep N l with
        | some l' => some (mkPow l' r)
        | none => (pstep N r).map (mkPow l))
  | .neg f u => pnode N (.neg f u) ((pstep N u).map mkNeg)
  | .recip f u => pnode N (.recip f u) ((pstep N u).map mkRecip)
  | .npow f u n => pnode N (.npow f u n) ((pstep N u).map (mkNPow · n))
  | .nroot f u n => pnode N (.nroot f u n) ((pstep N u).map (mkNRoot · n))
  | .exp f u b => pnode N (.exp f u b) ((pstep N u).map (mkExp · b))
  | .log f u b => pnode N (.log f u b) ((pstep N u).map (mkLog · b))
  | .cos f u => pnode N (.cos f u) ((pstep N u).map mkCos)
  | .sin f u => pnode N (.sin f u) ((pstep N u).map mkSin)
/-- the pure step inside the first operand (left to right) that can be stepped -/
def pstepList (N : Num α) : List (Expr α) → Option (List (Expr α))
  | [] => none
  | e :: es =>
    match pstep N e with
    | some e' => some (e' :: es)
    | none => (pstepList N es).map (e :: ·)
end

/-! ### a uniform view of the 15 classes: operands and rebuilding -/

/-- filler for operand positions that do not exist (never reached) -/
def rebuildJunk : Expr α := mkVar ""

/-- a fresh node of the class (and exponent / base) of the first argument around the given operands -/
def rebuildNode : Expr α → List (Expr α) → Expr α
  | .const _ v, _ => mkConst v
  | .var _ x, _ => mkVar x
  | .add _ _, cs => mkAdd cs
  | .mul _ _, cs => mkMul cs
  | .minus _ _ _, cs => mkMinus (cs.getD 0 rebuildJunk) (cs.getD 1 rebuildJunk)
  | .div _ _ _, cs => mkDiv (cs.getD 0 rebuildJunk) (cs.getD 1 rebuildJunk)
  | .pow _ _ _, cs => mkPow (cs.getD 0 rebuildJunk) (cs.getD 1 rebuildJunk)
  | .neg _ _, cs => mkNeg (cs.getD 0 rebuildJunk)
  | .recip _ _, cs => mkRecip (cs.getD 0 rebuildJunk)
  | .npow _ _ n, cs => mkNPow (cs.getD 0 rebuildJunk) n
  | .nroot _ _ n, cs => mkNRoot (cs.getD 0 rebuildJunk) n
  | .exp _ _ b, cs => mkExp (cs.getD 0 rebuildJunk) b
  | .log _ _ b, cs => mkLog (cs.getD 0 rebuildJunk) b
  | .cos _ _, cs => mkCos (cs.getD 0 rebuildJunk)
  | .sin _ _, cs => mkSin (cs.getD 0 rebuildJunk)

mutual
theorem fi_children_induction {P : Expr α → Prop} (h : ∀ e, (∀ c ∈ children e, P c) → P e) :
    ∀ e, P e
  | .const f v => h _ (by simp [children])
  | .var f x => h _ (by simp [children])
  | .add f as => h _ (fi_children_induction_list h as)
  | .mul f as => h _ (fi_children_induction_list h as)
  | .minus f l r => h _ (by
      simp only [children, List.mem_cons, List.not_mem_nil, or_false]
      intro c hc
      rcases hc with hc | hc
      · rw [hc]; exact fi_children_induction h l
      · rw [hc]; exact fi_children_induction h r)
  | .div f l r => h _ (by
      simp only [children, List.mem_cons, List.not_mem_nil, or_false]
      intro c hc
      rcases hc with hc | hc
      · rw [hc]; exact fi_children_induction h l
      · rw [hc]; exact fi_children_induction h r)
  | .pow f l r => h _ (by
      simp only [children, List.mem_cons, List.not_mem_nil, or_false]
      intro c hc
      rcases hc with hc | hc
      · rw [hc]; exact fi_children_induction h l
      · rw [hc]; exact fi_children_induction h r)
  | .neg f u => h _ (by
      simp only [children, List.mem_singleton]; intro c hc; rw [hc]; exact fi_children_induction h u)
  | .recip f u => h _ (by
      simp only [children, List.mem_singleton]; intro c hc; rw [hc]; exact fi_children_induction h u)
  | .npow f u n => h _ (by
      simp only [children, List.mem_singleton]; intro c hc; rw [hc]; exact fi_children_induction h u)
  | .nroot f u n => h _ (by
      simp only [children, List.mem_singleton]; intro c hc; rw [hc]; exact fi_children_induction h u)
  | .exp f u b => h _ (by
      simp only [children, List.mem_singleton]; intro c hc; rw [hc]; exact fi_children_induction h u)
  | .log f u b => h _ (by
      simp only [children, List.mem_singleton]; intro c hc; rw [hc]; exact fi_children_induction h u)
  | .cos f u => h _ (by
      simp only [children, List.mem_singleton]; intro c hc; rw [hc]; exact fi_children_induction h u)
  | .sin f u => h _ (by
      simp only [children, List.mem_singleton]; intro c hc; rw [hc]; exact fi_children_induction h u)
theorem fi_children_induction_list {P : Expr α → Prop}
    (h : ∀ e, (∀ c ∈ children e, P c) → P e) : ∀ es : List (Expr α), ∀ c ∈ es, P c
  | [], _, hc => by simp at hc
  | e :: es, c, hc => by
    rcases List.mem_cons.mp hc with h1 | h1
    · rw [h1]; exact fi_children_induction h e
    · exact fi_children_induction_list h es c h1
end

/-! ### facts about `rebuildNode`, `children`, `fresh` -/

theorem fi_children_fresh (e : Expr α) : children e.fresh = freshList (children e) := by
  cases e <;> simp [fresh, children, freshList]

theorem fi_flags_fresh (e : Expr α) : e.fresh.flags = {} := by
  cases e <;> rfl

theorem fi_fresh_eq_rebuild (e : Expr α) : e.fresh = rebuildNode e (freshList (children e)) := by
  cases e <;> simp [fresh, children, freshList, rebuildNode]

theorem fi_rebuild_fresh_left (e : Expr α) (cs : List (Expr α)) :
    rebuildNode e.fresh cs = rebuildNode e cs := by
  cases e <;> rfl

theorem fi_getD_fresh (cs : List (Expr α)) (i : Nat) :
    (cs.getD i rebuildJunk).fresh = (freshList cs).getD i rebuildJunk := by
  rw [ff_freshList_eq_map]
  have : (rebuildJunk : Expr α) = (rebuildJunk : Expr α).fresh := rfl
  conv_rhs => rw [this]
  simp [List.getD_eq_getElem?_getD, List.getElem?_map]

theorem fi_fresh_rebuild (e : Expr α) (cs : List (Expr α)) :
    (rebuildNode e cs).fresh = rebuildNode e (freshList cs) := by
  cases e <;> simp only [rebuildNode, fresh, fi_getD_fresh]

theorem fi_flags_rebuild (e : Expr α) (cs : List (Expr α)) : (rebuildNode e cs).flags = {} := by
  cases e <;> rfl

theorem fi_children_rebuild (e : Expr α) (cs : List (Expr α))
    (h : cs.length = (children e).length) : children (rebuildNode e cs) = cs := by
  cases e <;> simp only [children, List.length_nil, List.length_cons] at h
  case const => simpa [rebuildNode, children] using (List.length_eq_zero_iff.mp h).symm
  case var => simpa [rebuildNode, children] using (List.length_eq_zero_iff.mp h).symm
  case add => rfl
  case mul => rfl
  case minus | div | pow =>
    rcases cs with _ | ⟨a, _ | ⟨b, _ | ⟨c, cs⟩⟩⟩ <;> simp at h
    simp [rebuildNode, children]
  all_goals
    rcases cs with _ | ⟨a, _ | ⟨b, cs⟩⟩ <;> simp at h
    simp [rebuildNode, children]

theorem fi_flagsSound_rebuild (N : Num α) (e : Expr α) (cs : List (Expr α))
    (h : cs.length = (children e).length) :
    FlagsSound N (rebuildNode e cs) ↔ ∀ c ∈ cs, FlagsSound N c := by
  rw [flagsSound_of_default N (fi_flags_rebuild e cs), fi_children_rebuild e cs h]

/-- an expression without any flag is soundly flagged -/
theorem flagsSound_fresh (N : Num α) : ∀ e : Expr α, FlagsSound N e.fresh := by
  refine fi_children_induction ?_
  intro e ih
  rw [flagsSound_of_default N (fi_flags_fresh e), fi_children_fresh, ff_freshList_eq_map]
  intro c hc
  obtain ⟨c0, hc0, rfl⟩ := List.mem_map.mp hc
  exact ih c0 hc0

/-! ### the uniform view of `stepF` and `pstep` -/

theorem fi_stepNode_congr (N : Num α) (self : Expr α) (sc sc' : Unit → Option (Expr α × StepEvent))
    (h : sc () = sc' ()) : stepNode N self sc = stepNode N self sc' := by
  unfold stepNode; rw [h]

/-- the step inside the operands, uniformly -/
def stepKids (N : Num α) (e : Expr α) : Option (Expr α × StepEvent) :=
  (stepFirstUnreduced N (children e)).map fun p => (rebuildNode e p.1, p.2)

theorem fi_stepKids_unary (N : Num α) (e u : Expr α) (mk : Expr α → Expr α)
    (hc : children e = [u]) (hr : ∀ c, rebuildNode e [c] = mk c) :
    (if !u.isRed then
        match stepF N u with
        | (u', ev) => some (mk u', ev)
      else none) = stepKids N e := by
  unfold stepKids
  rw [hc]
  simp only [stepFirstUnreduced]
  split <;> simp [hr]

theorem fi_stepKids_binary (N : Num α) (e l r : Expr α) (mk : Expr α → Expr α → Expr α)
    (hc : children e = [l, r]) (hr : ∀ a b, rebuildNode e [a, b] = mk a b) :
    (if !l.isRed then
        match stepF N l with
        | (l', ev) => some (mk l' r, ev)
      else if !r.isRed then
        match stepF N r with
        | (r', ev) => some (mk l r', ev)
      else none) = stepKids N e := by
  unfold stepKids
  rw [hc]
  simp only [stepFirstUnreduced]
  split
  · simp [hr]
  · split <;> simp [hr]

/-- `_take_reduction_step` of every class is the shared body around the uniform operand step -/
theorem fi_stepF_uniform (N : Num α) (e : Expr α) :
    stepF N e = stepNode N e (fun _ => stepKids N e) := by
  cases e
  case const f v =>
    have h1 : foldAttempt N (.const f v : Expr α) = none := by
      simp [foldAttempt, isConstNode, vars, varsAux]
    have h2 : stepKids N (.const f v : Expr α) = none := rfl
    have h3 : stepTop N (.const f v : Expr α) = (.const { f with red := true } v, .flag) := rfl
    rw [stepF]
    unfold stepNode
    cases hf : f.red
    · simp only [isRed, flags, hf, h1, h2]
      simp [h3]
    · have := flags_red_eta f hf
      simp only [isRed, flags, hf, this]
      simp
  case var f x =>
    have h1 : foldAttempt N (.var f x : Expr α) = none := by
      simp [foldAttempt, vars, varsAux]
    have h2 : stepKids N (.var f x : Expr α) = none := rfl
    have h3 : stepTop N (.var f x : Expr α) = (.var { f with red := true } x, .flag) := rfl
    rw [stepF]
    unfold stepNode
    cases hf : f.red
    · simp only [isRed, flags, hf, h1, h2]
      simp [h3]
    · have := flags_red_eta f hf
      simp only [isRed, flags, hf, this]
      simp
  case add f as =>
    rw [stepF]; exact fi_stepNode_congr N _ _ _ rfl
  case mul f as =>
    rw [stepF]; exact fi_stepNode_congr N _ _ _ rfl
  case minus f l r =>
    rw [stepF]
    exact fi_stepNode_congr N _ _ _ (fi_stepKids_binary N _ l r mkMinus rfl (fun _ _ => rfl))
  case div f l r =>
    rw [stepF]
    exact fi_stepNode_congr N _ _ _ (fi_stepKids_binary N _ l r mkDiv rfl (fun _ _ => rfl))
  case pow f l r =>
    rw [stepF]
    exact fi_stepNode_congr N _ _ _ (fi_stepKids_binary N _ l r mkPow rfl (fun _ _ => rfl))
  case neg f u =>
    rw [stepF]
    exact fi_stepNode_congr N _ _ _ (fi_stepKids_unary N _ u mkNeg rfl (fun _ => rfl))
  case recip f u =>
    rw [stepF]
    exact fi_stepNode_congr N _ _ _ (fi_stepKids_unary N _ u mkRecip rfl (fun _ => rfl))
  case npow f u n =>
    rw [stepF]
    exact fi_stepNode_congr N _ _ _ (fi_stepKids_unary N _ u (mkNPow · n) rfl (fun _ => rfl))
  case nroot f u n =>
    rw [stepF]
    exact fi_stepNode_congr N _ _ _ (fi_stepKids_unary N _ u (mkNRoot · n) rfl (fun _ => rfl))
  case exp f u b =>
    rw [stepF]
    exact fi_stepNode_congr N _ _ _ (fi_stepKids_unary N _ u (mkExp · b) rfl (fun _ => rfl))
  case log f u b =>
    rw [stepF]
    exact fi_stepNode_congr N _ _ _ (fi_stepKids_unary N _ u (mkLog · b) rfl (fun _ => rfl))
  case cos f u =>
    rw [stepF]
    exact fi_stepNode_congr N _ _ _ (fi_stepKids_unary N _ u mkCos rfl (fun _ => rfl))
  case sin f u =>
    rw [stepF]
    exact fi_stepNode_congr N _ _ _ (fi_stepKids_unary N _ u mkSin rfl (fun _ => rfl))

/-- the pure step inside the operands, uniformly -/
def pstepKids (N : Num α) (e : Expr α) : Option (Expr α) :=
  (pstepList N (children e)).map (rebuildNode e)

theorem fi_pstepKids_unary (N : Num α) (e u : Expr α) (mk : Expr α → Expr α)
    (hc : children e = [u]) (hr : ∀ c, rebuildNode e [c] = mk c) :
    (pstep N u).map mk = pstepKids N e := by
  unfold pstepKids
  rw [hc]
  simp only [pstepList]
  cases pstep N u <;> simp [hr]

theorem fi_pstepKids_binary (N : Num α) (e l r : Expr α) (mk : Expr α → Expr α → Expr α)
    (hc : children e = [l, r]) (hr : ∀ a b, rebuildNode e [a, b] = mk a b) :
    (match pstep N l with
      | some l' => some (mk l' r)
      | none => (pstep N r).map (mk l)) = pstepKids N e := by
  unfold pstepKids
  rw [hc]
  simp only [pstepList]
  cases pstep N l
  · cases pstep N r <;> simp [hr]
  · simp [hr]

theorem fi_pstep_uniform (N : Num α) (e : Expr α) : pstep N e = pnode N e (pstepKids N e) := by
  cases e
  case const f v =>
    simp [pstep, pnode, pfold, isConstNode, pstepKids, children, pstepList, reducers, firstRule]
  case var f x =>
    simp [pstep, pnode, pfold, vars, varsAux, pstepKids, children, pstepList, reducers, firstRule]
  case add f as => rw [pstep]; rfl
  case mul f as => rw [pstep]; rfl
  case minus f l r => rw [pstep, fi_pstepKids_binary N (.minus f l r) l r mkMinus rfl (fun _ _ => rfl)]
  case div f l r => rw [pstep, fi_pstepKids_binary N (.div f l r) l r mkDiv rfl (fun _ _ => rfl)]
  case pow f l r => rw [pstep, fi_pstepKids_binary N (.pow f l r) l r mkPow rfl (fun _ _ => rfl)]
  case neg f u => rw [pstep, fi_pstepKids_unary N (.neg f u) u mkNeg rfl (fun _ => rfl)]
  case recip f u => rw [pstep, fi_pstepKids_unary N (.recip f u) u mkRecip rfl (fun _ => rfl)]
  case npow f u n => rw [pstep, fi_pstepKids_unary N (.npow f u n) u (mkNPow · n) rfl (fun _ => rfl)]
  case nroot f u n => rw [pstep, fi_pstepKids_unary N (.nroot f u n) u (mkNRoot · n) rfl (fun _ => rfl)]
  case exp f u b => rw [pstep, fi_pstepKids_unary N (.exp f u b) u (mkExp · b) rfl (fun _ => rfl)]
  case log f u b => rw [pstep, fi_pstepKids_unary N (.log f u b) u (mkLog · b) rfl (fun _ => rfl)]
  case cos f u => rw [pstep, fi_pstepKids_unary N (.cos f u) u mkCos rfl (fun _ => rfl)]
  case sin f u => rw [pstep, fi_pstepKids_unary N (.sin f u) u mkSin rfl (fun _ => rfl)]

/-! ### constant folding is blind to flags -/

theorem fi_pfold_congr (N : Num α) {e e' : Expr α} (h : e.fresh = e'.fresh) :
    pfold N e = pfold N e' := by
  unfold pfold
  rw [← ff_vars_fresh e, ← ff_vars_fresh e', ← ff_isConstNode_fresh e, ← ff_isConstNode_fresh e',
    evalG_congr_fresh N [] h, h]

theorem fi_pfold_fresh (N : Num α) (e : Expr α) : pfold N e.fresh = pfold N e :=
  fi_pfold_congr N (ff_fresh_fresh e)

theorem fi_noFold_iff (N : Num α) (e : Expr α) : NoFold N e ↔ pfold N e = none := by
  unfold NoFold pfold
  constructor
  · intro h
    split
    · rename_i hc
      simp only [Bool.and_eq_true, Bool.not_eq_eq_eq_not, Bool.not_true] at hc
      split
      · rename_i v hv
        exact absurd hv (h hc.1 hc.2 v)
      · rfl
    · rfl
  · intro h hv hc v hev
    simp [hv, hc, hev] at h

/-- what `_consolidate_expression_lacking_variables` does at a node whose `failed` flag is sound -/
theorem fi_foldAttempt_cases (N : Num α) (e : Expr α)
    (hf : e.flags.failed = true → ReallyFails N e) :
    (∃ v, foldAttempt N e = some (.inl v) ∧ pfold N e = some v) ∨
      (pfold N e = none ∧ (∀ v, foldAttempt N e ≠ some (.inl v)) ∧
        (foldAttempt N e = some (.inr ()) → ReallyFails N e)) := by
  unfold foldAttempt pfold ReallyFails
  by_cases hv : e.vars.isEmpty = true
  · by_cases hc : isConstNode e = true
    · right; simp [hv, hc]
    · simp only [Bool.not_eq_true] at hc
      by_cases hfl : e.flags.failed = true
      · right
        have := (hf hfl).2
        simp [hv, hc, hfl, this]
      · cases hev : evalG N [] e with
        | ok v => left; exact ⟨v, by simp [hv, hc, hfl], by simp [hv, hc]⟩
        | error err =>
          right
          cases err <;> simp [hv, hc, hfl]
  · right; simp [hv]

/-! ### a flagged node of a sound flagging is a normal form of the pure step -/

theorem fi_pstepList_none (N : Num α) : ∀ cs : List (Expr α),
    (∀ c ∈ cs, pstep N c.fresh = none) → pstepList N (freshList cs) = none
  | [], _ => rfl
  | c :: cs, h => by
    simp only [freshList, pstepList, h c List.mem_cons_self,
      fi_pstepList_none N cs (fun x hx => h x (List.mem_cons_of_mem _ hx)), Option.map_none]

theorem fi_firstRule_none_fresh (N : Num α) {e e' : Expr α} (hfr : e'.fresh = e.fresh)
    (h : firstRule N e' (reducers e') = none) :
    firstRule N e.fresh (reducers e.fresh) = none := by
  rw [← hfr, ff_firstRule_fresh, h]; rfl

/-- **a flagged node in a sound flagging cannot be stepped** -/
theorem pstep_none_of_red (N : Num α) :
    ∀ e : Expr α, FlagsSound N e → e.isRed = true → pstep N e.fresh = none := by
  refine fi_children_induction ?_
  intro e ih hs hr
  obtain ⟨⟨hrule, hkids⟩, hnf⟩ := (hs e (Sub.refl e)).1 hr
  rw [fi_pstep_uniform]
  unfold pnode pstepKids
  rw [fi_pfold_fresh, (fi_noFold_iff N e).mp hnf, fi_children_fresh,
    fi_pstepList_none N (children e) (fun c hc => ih c hc (hs.child hc) (hkids c hc)),
    fi_firstRule_none_fresh N rfl hrule]
  rfl

/-! ### one step of the driver, seen on the erased tree -/

/-- `stepF` took `e` to `e'`: the flagging is still sound, and on the trees with all flags erased the
step is either invisible or exactly the pure step -/
def StepSim (N : Num α) (e e' : Expr α) : Prop :=
  FlagsSound N e' ∧ (e'.fresh = e.fresh ∨ pstep N e.fresh = some e'.fresh)

theorem fi_stepFirstUnreduced_length (N : Num α) :
    ∀ (as : List (Expr α)) (p : List (Expr α) × StepEvent),
      stepFirstUnreduced N as = some p → p.1.length = as.length
  | [], p, h => by simp [stepFirstUnreduced] at h
  | e :: es, p, h => by
    rw [stepFirstUnreduced] at h
    split at h
    · obtain rfl := Option.some.inj h; rfl
    · simp only [Option.map_eq_some_iff] at h
      obtain ⟨q, hq, rfl⟩ := h
      simp [fi_stepFirstUnreduced_length N es q hq]

theorem fi_stepFirstUnreduced_sim (N : Num α) :
    ∀ (as : List (Expr α)) (p : List (Expr α) × StepEvent),
      (∀ a ∈ as, FlagsSound N a) →
      (∀ a ∈ as, FlagsSound N a → a.isRed = false → StepSim N a (stepF N a).1) →
      stepFirstUnreduced N as = some p →
        (∀ a ∈ p.1, FlagsSound N a) ∧
          (freshList p.1 = freshList as ∨ pstepList N (freshList as) = some (freshList p.1))
  | [], p, _, _, h => by simp [stepFirstUnreduced] at h
  | e :: es, p, hs, ih, h => by
    rw [stepFirstUnreduced] at h
    split at h
    · rename_i he
      obtain rfl := Option.some.inj h
      obtain ⟨h1, h2⟩ := ih e List.mem_cons_self (hs e List.mem_cons_self) (by simpa using he)
      refine ⟨?_, ?_⟩
      · intro a ha
        rcases List.mem_cons.mp ha with rfl | ha
        · exact h1
        · exact hs a (List.mem_cons_of_mem _ ha)
      · rcases h2 with h2 | h2
        · left; simp only [freshList, h2]
        · right; simp only [freshList, pstepList, h2]
    · rename_i he
      simp only [Option.map_eq_some_iff] at h
      obtain ⟨q, hq, rfl⟩ := h
      obtain ⟨h1, h2⟩ := fi_stepFirstUnreduced_sim N es q
        (fun a ha => hs a (List.mem_cons_of_mem _ ha))
        (fun a ha => ih a (List.mem_cons_of_mem _ ha)) hq
      refine ⟨?_, ?_⟩
      · intro a ha
        rcases List.mem_cons.mp ha with rfl | ha
        · exact hs _ List.mem_cons_self
        · exact h1 a ha
      · have hred : pstep N e.fresh = none :=
          pstep_none_of_red N e (hs e List.mem_cons_self) (by simpa using he)
        rcases h2 with h2 | h2
        · left; simp only [freshList, h2]
        · right; simp only [freshList, pstepList, hred, h2, Option.map_some]

theorem fi_stepNode_cases (N : Num α) (self : Expr α) (sc : Unit → Option (Expr α × StepEvent))
    (hr : self.isRed = false) :
    (∃ v, foldAttempt N self = some (.inl v) ∧ stepNode N self sc = (mkConst v, .fold)) ∨
      ((∀ v, foldAttempt N self ≠ some (.inl v)) ∧
        ∃ self', (self' = self ∨ (self' = self.markFailed ∧ foldAttempt N self = some (.inr ()))) ∧
          stepNode N self sc = (sc ()).getD (stepTop N self')) := by
  unfold stepNode
  simp only [hr, Bool.false_eq_true, if_false]
  cases hfa : foldAttempt N self with
  | none => right; exact ⟨by simp, self, Or.inl rfl, by cases sc () <;> rfl⟩
  | some x =>
    cases x with
    | inl v => left; exact ⟨v, rfl, rfl⟩
    | inr u =>
      right; cases u
      exact ⟨by simp, self.markFailed, Or.inr ⟨rfl, rfl⟩, by cases sc () <;> rfl⟩

/-- **one call of `_take_reduction_step` from a sound flagging**: the flagging stays sound, and the
erased tree is unchanged or rewritten by exactly the pure step -/
theorem stepF_sim (N : Num α) :
    ∀ e : Expr α, FlagsSound N e → e.isRed = false → StepSim N e (stepF N e).1 := by
  refine fi_children_induction ?_
  intro e ih hs hr
  rw [fi_stepF_uniform]
  have hroot := hs e (Sub.refl e)
  rcases fi_stepNode_cases N e (fun _ => stepKids N e) hr with
    ⟨v, hv, hres⟩ | ⟨hnv, self', hself, hres⟩
  · rw [hres]
    rcases fi_foldAttempt_cases N e hroot.2 with ⟨v', hv', hp⟩ | ⟨_, hne, _⟩
    · rw [hv] at hv'
      cases hv'
      refine ⟨flagsSound_mkConst N v, Or.inr ?_⟩
      rw [fi_pstep_uniform]
      unfold pnode
      rw [fi_pfold_fresh, hp]
      rfl
    · exact absurd hv (hne v)
  · rw [hres]
    rcases fi_foldAttempt_cases N e hroot.2 with ⟨v', hv', _⟩ | ⟨hp, _, hfail⟩
    · exact absurd hv' (hnv v')
    · have hfr : self'.fresh = e.fresh := by
        rcases hself with rfl | ⟨rfl, _⟩
        · rfl
        · exact ff_fresh_markFailed e
      have hch : children self' = children e := by
        rcases hself with rfl | ⟨rfl, _⟩
        · rfl
        · exact children_markFailed e
      have hs' : FlagsSound N self' := by
        rcases hself with rfl | ⟨rfl, hfa⟩
        · exact hs
        · unfold markFailed
          rw [flagsSound_setFlags]
          refine ⟨⟨fun h => ?_, fun _ => hfail hfa⟩, fun c hc => hs.child hc⟩
          rw [isRed] at hr
          simp [hr] at h
      cases hk : stepKids N e with
      | some q =>
        simp only [Option.getD_some]
        unfold stepKids at hk
        simp only [Option.map_eq_some_iff] at hk
        obtain ⟨p, hp', rfl⟩ := hk
        have hlen := fi_stepFirstUnreduced_length N _ p hp'
        obtain ⟨h1, h2⟩ := fi_stepFirstUnreduced_sim N (children e) p
          (fun a ha => hs.child ha) (fun a ha => ih a ha) hp'
        refine ⟨(fi_flagsSound_rebuild N e p.1 hlen).mpr h1, ?_⟩
        rcases h2 with h2 | h2
        · left
          rw [fi_fresh_rebuild, h2, ← fi_fresh_eq_rebuild]
        · right
          rw [fi_pstep_uniform]
          unfold pnode pstepKids
          rw [fi_pfold_fresh, hp, fi_children_fresh, h2, fi_fresh_rebuild]
          simp only [Option.map_some, fi_rebuild_fresh_left]
      | none =>
        simp only [Option.getD_none]
        unfold stepKids at hk
        simp only [Option.map_eq_none_iff] at hk
        have hall := stepFirstUnreduced_none N (children e) hk
        unfold stepTop
        cases hfr' : firstRule N self' (reducers self') with
        | some q =>
          obtain ⟨r, e'⟩ := q
          simp only
          refine ⟨rule_flagsSound N r (firstRule_some_m N self' _ r e' hfr') hs', Or.inr ?_⟩
          rw [fi_pstep_uniform]
          unfold pnode pstepKids
          rw [fi_pfold_fresh, hp, fi_children_fresh,
            fi_pstepList_none N (children e)
              (fun c hc => pstep_none_of_red N c (hs.child hc) (hall c hc)),
            ← hfr, ff_firstRule_fresh, hfr']
          rfl
        | none =>
          simp only
          refine ⟨?_, Or.inl (by rw [ff_fresh_markRed, hfr])⟩
          unfold markRed
          rw [flagsSound_setFlags]
          refine ⟨⟨fun _ => ⟨⟨hfr', hch ▸ hall⟩, (fi_noFold_iff N self').mpr ?_⟩,
            fun hf => (hs' self' (Sub.refl _)).2 hf⟩, fun c hc => hs'.child hc⟩
          rw [fi_pfold_congr N hfr]
          exact hp

/-! ### runs: the erased forms lie on the one chain of pure steps -/

/-- `b` is reached from `a` by finitely many pure steps -/
inductive PReach (N : Num α) : Expr α → Expr α → Prop
  | refl (a : Expr α) : PReach N a a
  | step {a b c : Expr α} : pstep N a = some b → PReach N b c → PReach N a c

theorem PReach.trans {N : Num α} {a b c : Expr α} (h1 : PReach N a b) (h2 : PReach N b c) :
    PReach N a c := by
  induction h1 with
  | refl => exact h2
  | step h _ ih => exact PReach.step h (ih h2)

theorem PReach.snoc {N : Num α} {a b c : Expr α} (h1 : PReach N a b) (h2 : pstep N b = some c) :
    PReach N a c :=
  h1.trans (PReach.step h2 (PReach.refl c))

/-- the pure step is a function: a chain of pure steps ends in at most one normal form -/
theorem PReach.normal_unique {N : Num α} {a b c : Expr α} (h1 : PReach N a b)
    (hb : pstep N b = none) (h2 : PReach N a c) (hc : pstep N c = none) : b = c := by
  induction h1 with
  | refl =>
    cases h2 with
    | refl => rfl
    | step h _ => rw [hb] at h; cases h
  | step h _ ih =>
    cases h2 with
    | refl => rw [hc] at h; cases h
    | step h' t' =>
      rw [h] at h'
      cases h'
      exact ih hb t'

/-- … and two forms reached from the same tree lie on one chain -/
theorem PReach.linear {N : Num α} {a b c : Expr α} (h1 : PReach N a b) (h2 : PReach N a c) :
    PReach N b c ∨ PReach N c b := by
  induction h1 with
  | refl => exact Or.inl h2
  | step h t ih =>
    cases h2 with
    | refl => exact Or.inr (PReach.step h t)
    | step h' t' =>
      rw [h] at h'
      cases h'
      exact ih t'

theorem StepSim.reach {N : Num α} {e e' : Expr α} (h : StepSim N e e') :
    PReach N e.fresh e'.fresh := by
  rcases h.2 with h2 | h2
  · rw [h2]; exact PReach.refl _
  · exact PReach.step h2 (PReach.refl _)

/-- one call of `stepF`, flagged root or not -/
theorem stepE_sim (N : Num α) {e : Expr α} (hs : FlagsSound N e) : StepSim N e (stepE N e) := by
  cases hr : e.isRed
  · exact stepF_sim N e hs hr
  · simp only [stepE, stepF_of_isRed N e hr]
    exact ⟨hs, Or.inl rfl⟩

/-- every form of the run is soundly flagged, and its erased tree is reached from the erased start
by pure steps -/
theorem iterate_sim (N : Num α) {e : Expr α} (hs : FlagsSound N e) :
    ∀ k, FlagsSound N ((stepE N)^[k] e) ∧ PReach N e.fresh ((stepE N)^[k] e).fresh
  | 0 => ⟨hs, PReach.refl _⟩
  | k + 1 => by
    rw [Function.iterate_succ_apply']
    obtain ⟨h1, h2⟩ := iterate_sim N hs k
    have h3 := stepE_sim N h1
    exact ⟨h3.1, h2.trans h3.reach⟩

/-- **the flagged forms reached from two sound flaggings of the same tree are the same tree** -/
theorem iterate_flag_independent (N : Num α) {e₁ e₂ : Expr α} (h₁ : FlagsSound N e₁)
    (h₂ : FlagsSound N e₂) (heq : e₁.fresh = e₂.fresh) {k₁ k₂ : Nat}
    (r₁ : ((stepE N)^[k₁] e₁).isRed = true) (r₂ : ((stepE N)^[k₂] e₂).isRed = true) :
    ((stepE N)^[k₁] e₁).fresh = ((stepE N)^[k₂] e₂).fresh := by
  obtain ⟨s₁, p₁⟩ := iterate_sim N h₁ k₁
  obtain ⟨s₂, p₂⟩ := iterate_sim N h₂ k₂
  rw [heq] at p₁
  exact p₁.normal_unique (pstep_none_of_red N _ s₁ r₁) p₂ (pstep_none_of_red N _ s₂ r₂)

/-! ### `_fully_reduce` -/

/-- without the warning, the loop returns the first flagged iterate -/
theorem fi_fullyReduceLoop_iterate (N : Num α) :
    ∀ (fuel : Nat) (e : Expr α) (k : Nat) (tr : List StepEvent),
      (fullyReduceLoop N fuel e k tr).warned = false →
      ∃ n, (fullyReduceLoop N fuel e k tr).expr = (stepE N)^[n] e ∧
        ((stepE N)^[n] e).isRed = true
  | 0, e, k, tr, hw => by simp [fullyReduceLoop] at hw
  | fuel + 1, e, k, tr, hw => by
    unfold fullyReduceLoop at hw ⊢
    split
    · rename_i he
      exact ⟨0, rfl, he⟩
    · rename_i he
      simp only [he] at hw
      obtain ⟨n, h1, h2⟩ := fi_fullyReduceLoop_iterate N fuel _ _ _ hw
      exact ⟨n + 1, by rw [Function.iterate_succ_apply]; exact h1,
        by rw [Function.iterate_succ_apply]; exact h2⟩

/-- with or without the warning: the flagging the loop leaves is sound unless it warned, and the
erased result is reached from the erased argument by pure steps -/
theorem fi_fullyReduceLoop_reach (N : Num α) :
    ∀ (fuel : Nat) (e : Expr α) (k : Nat) (tr : List StepEvent), FlagsSound N e →
      PReach N e.fresh (fullyReduceLoop N fuel e k tr).expr.fresh ∧
        ((fullyReduceLoop N fuel e k tr).warned = false →
          FlagsSound N (fullyReduceLoop N fuel e k tr).expr)
  | 0, e, k, tr, _ => by
    simp only [fullyReduceLoop, ff_fresh_markRed]
    exact ⟨PReach.refl _, fun h => by cases h⟩
  | fuel + 1, e, k, tr, hs => by
    unfold fullyReduceLoop
    split
    · exact ⟨PReach.refl _, fun _ => hs⟩
    · rename_i he
      have h3 := stepF_sim N e hs (by simpa using he)
      obtain ⟨h1, h2⟩ := fi_fullyReduceLoop_reach N fuel (stepF N e).1 (k + 1)
        ((stepF N e).2 :: tr) h3.1
      exact ⟨h3.reach.trans h1, h2⟩

/-- **C09, reduction flags.**  Two sound flaggings of the same tree, any two budgets that suffice
(no warning): `_fully_reduce` returns the same tree up to flags. -/
theorem fullyReduceWith_flag_independent (N : Num α) {e₁ e₂ : Expr α} (h₁ : FlagsSound N e₁)
    (h₂ : FlagsSound N e₂) (heq : e₁.fresh = e₂.fresh) (b₁ b₂ : Nat)
    (w₁ : (fullyReduceWith N b₁ e₁).warned = false)
    (w₂ : (fullyReduceWith N b₂ e₂).warned = false) :
    (fullyReduceWith N b₁ e₁).expr.fresh = (fullyReduceWith N b₂ e₂).expr.fresh := by
  obtain ⟨n₁, q₁, r₁⟩ := fi_fullyReduceLoop_iterate N b₁ e₁ 0 [] w₁
  obtain ⟨n₂, q₂, r₂⟩ := fi_fullyReduceLoop_iterate N b₂ e₂ 0 [] w₂
  unfold fullyReduceWith
  rw [q₁, q₂]
  exact iterate_flag_independent N h₁ h₂ heq r₁ r₂

/-- budgets that suffice exist -/
theorem fullyReduceWith_flag_independent_large (N : Num α) {e₁ e₂ : Expr α}
    (h₁ : FlagsSound N e₁) (h₂ : FlagsSound N e₂) (heq : e₁.fresh = e₂.fresh) :
    ∃ K, ∀ b₁ b₂, K ≤ b₁ → K ≤ b₂ →
      (fullyReduceWith N b₁ e₁).warned = false ∧ (fullyReduceWith N b₂ e₂).warned = false ∧
      (fullyReduceWith N b₁ e₁).expr.fresh = (fullyReduceWith N b₂ e₂).expr.fresh := by
  obtain ⟨k₁, hk₁⟩ := exists_iterate_isRed N e₁
  obtain ⟨k₂, hk₂⟩ := exists_iterate_isRed N e₂
  refine ⟨max k₁ k₂ + 1, fun b₁ b₂ hb₁ hb₂ => ?_⟩
  have w₁ := (fullyReduceLoop_of_iterate N k₁ b₁ e₁ 0 [] hk₁ (by omega)).1
  have w₂ := (fullyReduceLoop_of_iterate N k₂ b₂ e₂ 0 [] hk₂ (by omega)).1
  exact ⟨w₁, w₂, fullyReduceWith_flag_independent N h₁ h₂ heq b₁ b₂ w₁ w₂⟩

end Smooth
