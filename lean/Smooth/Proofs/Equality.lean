/-
Proofs/Equality — `__eq__` (`beq`), `__hash__` (`hashKey`) and `Point.__eq__` (`pointBeq`).

* `EqLaws N` : the number comparison `N.eq` is an equivalence (true of `realNum`).
* `StructEq N a b` : the *specification* of expression equality — same constructor, children pairwise
  related in order, numeric parameters related by `N.eq`, `n` and names equal, flags ignored.
* `beq_iff_structEq` : the model's `beq` decides exactly `StructEq`.
* `beq` is an equivalence; `hashKey` respects it; `pointBeq` is dictionary equality.
-/
import Smooth.Real.Instance
import Smooth.Model.Instances
import Batteries.Data.List.Perm

namespace Smooth
variable {α : Type}
open Expr

/-! ### the laws of number comparison -/

/-- `N.eq` (Python's `==` on numbers) is an equivalence relation. -/
structure EqLaws (N : Num α) : Prop where
  refl : ∀ x, N.eq x x = true
  symm : ∀ x y, N.eq x y = true → N.eq y x = true
  trans : ∀ x y z, N.eq x y = true → N.eq y z = true → N.eq x z = true

theorem realNum_eqLaws : EqLaws realNum where
  refl x := by simp
  symm x y h := by simpa [eq_comm] using h
  trans x y z h₁ h₂ := by
    simp only [realNum_eq, decide_eq_true_eq] at *
    exact h₁.trans h₂

/-- The exact-rational instance (Model/Instances) compares the rational and ignores the "representable" flag, so
distinct elements of the carrier can be `eq` (as `2` and `2.0` are in Python); it is an equivalence. -/
theorem qeNum_eq (a b : QE) : qeNum.eq a b = (a.q == b.q) := rfl

theorem qeNum_eqLaws : EqLaws qeNum where
  refl x := by simp [qeNum_eq]
  symm x y h := by
    simp only [qeNum_eq, beq_iff_eq] at *
    exact h.symm
  trans x y z h₁ h₂ := by
    simp only [qeNum_eq, beq_iff_eq] at *
    exact h₁.trans h₂

/-! ### structural equality, as a specification -/

/-- The constructor of a node (the Python class). -/
inductive Ctor where
  | const | var | add | minus | neg | mul | div | recip | pow | npow | nroot | exp | log | cos | sin
  deriving DecidableEq, Repr

/-- the class of an expression object -/
def Expr.ctor : Expr α → Ctor
  | .const .. => .const | .var .. => .var | .add .. => .add | .minus .. => .minus | .neg .. => .neg
  | .mul .. => .mul | .div .. => .div | .recip .. => .recip | .pow .. => .pow | .npow .. => .npow
  | .nroot .. => .nroot | .exp .. => .exp | .log .. => .log | .cos .. => .cos | .sin .. => .sin

mutual
/-- `StructEq N a b` : `a` and `b` are the same constructor applied to pairwise `StructEq` arguments in
the same order; numeric parameters (value, base) are related by `N.eq` (left parameter first),
`n` and variable names are equal; the flags are not looked at. -/
inductive StructEq (N : Num α) : Expr α → Expr α → Prop
  | const {f g : Flags} {v w : α} : N.eq v w = true → StructEq N (.const f v) (.const g w)
  | var {f g : Flags} {x : String} : StructEq N (.var f x) (.var g x)
  | add {f g : Flags} {as bs : List (Expr α)} :
      StructEqList N as bs → StructEq N (.add f as) (.add g bs)
  | mul {f g : Flags} {as bs : List (Expr α)} :
      StructEqList N as bs → StructEq N (.mul f as) (.mul g bs)
  | minus {f g : Flags} {a b c d : Expr α} :
      StructEq N a c → StructEq N b d → StructEq N (.minus f a b) (.minus g c d)
  | div {f g : Flags} {a b c d : Expr α} :
      StructEq N a c → StructEq N b d → StructEq N (.div f a b) (.div g c d)
  | pow {f g : Flags} {a b c d : Expr α} :
      StructEq N a c → StructEq N b d → StructEq N (.pow f a b) (.pow g c d)
  | neg {f g : Flags} {a b : Expr α} : StructEq N a b → StructEq N (.neg f a) (.neg g b)
  | recip {f g : Flags} {a b : Expr α} : StructEq N a b → StructEq N (.recip f a) (.recip g b)
  | cos {f g : Flags} {a b : Expr α} : StructEq N a b → StructEq N (.cos f a) (.cos g b)
  | sin {f g : Flags} {a b : Expr α} : StructEq N a b → StructEq N (.sin f a) (.sin g b)
  | npow {f g : Flags} {a b : Expr α} {n : Nat} :
      StructEq N a b → StructEq N (.npow f a n) (.npow g b n)
  | nroot {f g : Flags} {a b : Expr α} {n : Nat} :
      StructEq N a b → StructEq N (.nroot f a n) (.nroot g b n)
  | exp {f g : Flags} {a b : Expr α} {x y : α} :
      StructEq N a b → N.eq x y = true → StructEq N (.exp f a x) (.exp g b y)
  | log {f g : Flags} {a b : Expr α} {x y : α} :
      StructEq N a b → N.eq x y = true → StructEq N (.log f a x) (.log g b y)
/-- lists: same length, related position by position -/
inductive StructEqList (N : Num α) : List (Expr α) → List (Expr α) → Prop
  | nil : StructEqList N [] []
  | cons {a b : Expr α} {as bs : List (Expr α)} :
      StructEq N a b → StructEqList N as bs → StructEqList N (a :: as) (b :: bs)
end

/-! ### `beq` decides `StructEq` -/

mutual
/-- `beq N a b` holds only if `StructEq N b a` (the model compares the parameters right-to-left) -/
theorem structEq_flip_of_beq (N : Num α) : ∀ a b : Expr α, beq N a b = true → StructEq N b a
  | .const _ v, b => by
      cases b <;> simp [beq]
      exact fun h => .const h
  | .var _ x, b => by
      cases b <;> simp [beq]
      rintro rfl; exact .var
  | .add _ as, b => by
      cases b <;> simp [beq]
      exact fun h => .add (structEqList_flip_of_beqList N as _ h)
  | .mul _ as, b => by
      cases b <;> simp [beq]
      exact fun h => .mul (structEqList_flip_of_beqList N as _ h)
  | .minus _ a₁ a₂, b => by
      cases b <;> simp [beq]
      exact fun h₁ h₂ => .minus (structEq_flip_of_beq N a₁ _ h₁) (structEq_flip_of_beq N a₂ _ h₂)
  | .div _ a₁ a₂, b => by
      cases b <;> simp [beq]
      exact fun h₁ h₂ => .div (structEq_flip_of_beq N a₁ _ h₁) (structEq_flip_of_beq N a₂ _ h₂)
  | .pow _ a₁ a₂, b => by
      cases b <;> simp [beq]
      exact fun h₁ h₂ => .pow (structEq_flip_of_beq N a₁ _ h₁) (structEq_flip_of_beq N a₂ _ h₂)
  | .neg _ a, b => by
      cases b <;> simp [beq]
      exact fun h => .neg (structEq_flip_of_beq N a _ h)
  | .recip _ a, b => by
      cases b <;> simp [beq]
      exact fun h => .recip (structEq_flip_of_beq N a _ h)
  | .cos _ a, b => by
      cases b <;> simp [beq]
      exact fun h => .cos (structEq_flip_of_beq N a _ h)
  | .sin _ a, b => by
      cases b <;> simp [beq]
      exact fun h => .sin (structEq_flip_of_beq N a _ h)
  | .npow _ a n, b => by
      cases b <;> simp [beq]
      rintro h rfl; exact .npow (structEq_flip_of_beq N a _ h)
  | .nroot _ a n, b => by
      cases b <;> simp [beq]
      rintro h rfl; exact .nroot (structEq_flip_of_beq N a _ h)
  | .exp _ a x, b => by
      cases b <;> simp [beq]
      exact fun h hx => .exp (structEq_flip_of_beq N a _ h) hx
  | .log _ a x, b => by
      cases b <;> simp [beq]
      exact fun h hx => .log (structEq_flip_of_beq N a _ h) hx
theorem structEqList_flip_of_beqList (N : Num α) :
    ∀ as bs : List (Expr α), beqList N as bs = true → StructEqList N bs as
  | [], bs => by
      cases bs <;> simp [beqList]
      exact .nil
  | a :: as, bs => by
      cases bs <;> simp [beqList]
      exact fun h₁ h₂ => .cons (structEq_flip_of_beq N a _ h₁) (structEqList_flip_of_beqList N as _ h₂)
end

mutual
theorem beq_of_structEq_flip (N : Num α) : ∀ a b : Expr α, StructEq N b a → beq N a b = true
  | .const _ v, _, h => by cases h with | const h => simpa [beq] using h
  | .var _ x, _, h => by cases h; simp [beq]
  | .add _ as, _, h => by
      cases h with | add h => simpa [beq] using beqList_of_structEqList_flip N as _ h
  | .mul _ as, _, h => by
      cases h with | mul h => simpa [beq] using beqList_of_structEqList_flip N as _ h
  | .minus _ a₁ a₂, _, h => by
      cases h with
      | minus h₁ h₂ => simp [beq, beq_of_structEq_flip N a₁ _ h₁, beq_of_structEq_flip N a₂ _ h₂]
  | .div _ a₁ a₂, _, h => by
      cases h with
      | div h₁ h₂ => simp [beq, beq_of_structEq_flip N a₁ _ h₁, beq_of_structEq_flip N a₂ _ h₂]
  | .pow _ a₁ a₂, _, h => by
      cases h with
      | pow h₁ h₂ => simp [beq, beq_of_structEq_flip N a₁ _ h₁, beq_of_structEq_flip N a₂ _ h₂]
  | .neg _ a, _, h => by cases h with | neg h => simp [beq, beq_of_structEq_flip N a _ h]
  | .recip _ a, _, h => by cases h with | recip h => simp [beq, beq_of_structEq_flip N a _ h]
  | .cos _ a, _, h => by cases h with | cos h => simp [beq, beq_of_structEq_flip N a _ h]
  | .sin _ a, _, h => by cases h with | sin h => simp [beq, beq_of_structEq_flip N a _ h]
  | .npow _ a n, _, h => by cases h with | npow h => simp [beq, beq_of_structEq_flip N a _ h]
  | .nroot _ a n, _, h => by cases h with | nroot h => simp [beq, beq_of_structEq_flip N a _ h]
  | .exp _ a x, _, h => by
      cases h with | exp h hx => simp [beq, beq_of_structEq_flip N a _ h, hx]
  | .log _ a x, _, h => by
      cases h with | log h hx => simp [beq, beq_of_structEq_flip N a _ h, hx]
theorem beqList_of_structEqList_flip (N : Num α) :
    ∀ as bs : List (Expr α), StructEqList N bs as → beqList N as bs = true
  | [], _, h => by cases h; simp [beqList]
  | a :: as, _, h => by
      cases h with
      | cons h₁ h₂ =>
        simp [beqList, beq_of_structEq_flip N a _ h₁, beqList_of_structEqList_flip N as _ h₂]
end

/-- Unconditionally, `beq N a b` decides `StructEq N b a`: the model hands the parameters to `N.eq`
right-to-left (`w == v`). -/
theorem beq_iff_structEq_flip (N : Num α) (a b : Expr α) : beq N a b = true ↔ StructEq N b a :=
  ⟨structEq_flip_of_beq N a b, beq_of_structEq_flip N a b⟩

theorem beqList_iff_structEqList_flip (N : Num α) (as bs : List (Expr α)) :
    beqList N as bs = true ↔ StructEqList N bs as :=
  ⟨structEqList_flip_of_beqList N as bs, beqList_of_structEqList_flip N as bs⟩

/-! ### `StructEq` is an equivalence when `N.eq` is -/

mutual
theorem StructEq.symm' {N : Num α} (hs : ∀ x y, N.eq x y = true → N.eq y x = true) :
    ∀ a b : Expr α, StructEq N a b → StructEq N b a
  | .const .., _, h => by cases h with | const h => exact .const (hs _ _ h)
  | .var .., _, h => by cases h; exact .var
  | .add _ as, _, h => by cases h with | add h => exact .add (StructEqList.symm' hs as _ h)
  | .mul _ as, _, h => by cases h with | mul h => exact .mul (StructEqList.symm' hs as _ h)
  | .minus _ a₁ a₂, _, h => by
      cases h with
      | minus h₁ h₂ => exact .minus (StructEq.symm' hs a₁ _ h₁) (StructEq.symm' hs a₂ _ h₂)
  | .div _ a₁ a₂, _, h => by
      cases h with
      | div h₁ h₂ => exact .div (StructEq.symm' hs a₁ _ h₁) (StructEq.symm' hs a₂ _ h₂)
  | .pow _ a₁ a₂, _, h => by
      cases h with
      | pow h₁ h₂ => exact .pow (StructEq.symm' hs a₁ _ h₁) (StructEq.symm' hs a₂ _ h₂)
  | .neg _ a, _, h => by cases h with | neg h => exact .neg (StructEq.symm' hs a _ h)
  | .recip _ a, _, h => by cases h with | recip h => exact .recip (StructEq.symm' hs a _ h)
  | .cos _ a, _, h => by cases h with | cos h => exact .cos (StructEq.symm' hs a _ h)
  | .sin _ a, _, h => by cases h with | sin h => exact .sin (StructEq.symm' hs a _ h)
  | .npow _ a _, _, h => by cases h with | npow h => exact .npow (StructEq.symm' hs a _ h)
  | .nroot _ a _, _, h => by cases h with | nroot h => exact .nroot (StructEq.symm' hs a _ h)
  | .exp _ a _, _, h => by cases h with | exp h hx => exact .exp (StructEq.symm' hs a _ h) (hs _ _ hx)
  | .log _ a _, _, h => by cases h with | log h hx => exact .log (StructEq.symm' hs a _ h) (hs _ _ hx)
theorem StructEqList.symm' {N : Num α} (hs : ∀ x y, N.eq x y = true → N.eq y x = true) :
    ∀ as bs : List (Expr α), StructEqList N as bs → StructEqList N bs as
  | [], _, h => by cases h; exact .nil
  | a :: as, _, h => by
      cases h with
      | cons h₁ h₂ => exact .cons (StructEq.symm' hs a _ h₁) (StructEqList.symm' hs as _ h₂)
end

mutual
theorem StructEq.refl' {N : Num α} (hr : ∀ x, N.eq x x = true) : ∀ a : Expr α, StructEq N a a
  | .const .. => .const (hr _)
  | .var .. => .var
  | .add _ as => .add (StructEqList.refl' hr as)
  | .mul _ as => .mul (StructEqList.refl' hr as)
  | .minus _ a b => .minus (StructEq.refl' hr a) (StructEq.refl' hr b)
  | .div _ a b => .div (StructEq.refl' hr a) (StructEq.refl' hr b)
  | .pow _ a b => .pow (StructEq.refl' hr a) (StructEq.refl' hr b)
  | .neg _ a => .neg (StructEq.refl' hr a)
  | .recip _ a => .recip (StructEq.refl' hr a)
  | .cos _ a => .cos (StructEq.refl' hr a)
  | .sin _ a => .sin (StructEq.refl' hr a)
  | .npow _ a _ => .npow (StructEq.refl' hr a)
  | .nroot _ a _ => .nroot (StructEq.refl' hr a)
  | .exp _ a _ => .exp (StructEq.refl' hr a) (hr _)
  | .log _ a _ => .log (StructEq.refl' hr a) (hr _)
theorem StructEqList.refl' {N : Num α} (hr : ∀ x, N.eq x x = true) :
    ∀ as : List (Expr α), StructEqList N as as
  | [] => .nil
  | a :: as => .cons (StructEq.refl' hr a) (StructEqList.refl' hr as)
end

mutual
theorem StructEq.trans' {N : Num α}
    (ht : ∀ x y z, N.eq x y = true → N.eq y z = true → N.eq x z = true) :
    ∀ a b c : Expr α, StructEq N a b → StructEq N b c → StructEq N a c
  | .const .., _, _, h, h' => by
      cases h with | const h => cases h' with | const h' => exact .const (ht _ _ _ h h')
  | .var .., _, _, h, h' => by cases h; cases h'; exact .var
  | .add _ as, _, _, h, h' => by
      cases h with | add h => cases h' with | add h' => exact .add (StructEqList.trans' ht as _ _ h h')
  | .mul _ as, _, _, h, h' => by
      cases h with | mul h => cases h' with | mul h' => exact .mul (StructEqList.trans' ht as _ _ h h')
  | .minus _ a₁ a₂, _, _, h, h' => by
      cases h with
      | minus h₁ h₂ =>
        cases h' with
        | minus h₁' h₂' =>
          exact .minus (StructEq.trans' ht a₁ _ _ h₁ h₁') (StructEq.trans' ht a₂ _ _ h₂ h₂')
  | .div _ a₁ a₂, _, _, h, h' => by
      cases h with
      | div h₁ h₂ =>
        cases h' with
        | div h₁' h₂' =>
          exact .div (StructEq.trans' ht a₁ _ _ h₁ h₁') (StructEq.trans' ht a₂ _ _ h₂ h₂')
  | .pow _ a₁ a₂, _, _, h, h' => by
      cases h with
      | pow h₁ h₂ =>
        cases h' with
        | pow h₁' h₂' =>
          exact .pow (StructEq.trans' ht a₁ _ _ h₁ h₁') (StructEq.trans' ht a₂ _ _ h₂ h₂')
  | .neg _ a, _, _, h, h' => by
      cases h with | neg h => cases h' with | neg h' => exact .neg (StructEq.trans' ht a _ _ h h')
  | .recip _ a, _, _, h, h' => by
      cases h with | recip h => cases h' with | recip h' => exact .recip (StructEq.trans' ht a _ _ h h')
  | .cos _ a, _, _, h, h' => by
      cases h with | cos h => cases h' with | cos h' => exact .cos (StructEq.trans' ht a _ _ h h')
  | .sin _ a, _, _, h, h' => by
      cases h with | sin h => cases h' with | sin h' => exact .sin (StructEq.trans' ht a _ _ h h')
  | .npow _ a _, _, _, h, h' => by
      cases h with | npow h => cases h' with | npow h' => exact .npow (StructEq.trans' ht a _ _ h h')
  | .nroot _ a _, _, _, h, h' => by
      cases h with | nroot h => cases h' with | nroot h' => exact .nroot (StructEq.trans' ht a _ _ h h')
  | .exp _ a _, _, _, h, h' => by
      cases h with
      | exp h hx =>
        cases h' with
        | exp h' hx' => exact .exp (StructEq.trans' ht a _ _ h h') (ht _ _ _ hx hx')
  | .log _ a _, _, _, h, h' => by
      cases h with
      | log h hx =>
        cases h' with
        | log h' hx' => exact .log (StructEq.trans' ht a _ _ h h') (ht _ _ _ hx hx')
theorem StructEqList.trans' {N : Num α}
    (ht : ∀ x y z, N.eq x y = true → N.eq y z = true → N.eq x z = true) :
    ∀ as bs cs : List (Expr α), StructEqList N as bs → StructEqList N bs cs → StructEqList N as cs
  | [], _, _, h, h' => by cases h; cases h'; exact .nil
  | a :: as, _, _, h, h' => by
      cases h with
      | cons h₁ h₂ =>
        cases h' with
        | cons h₁' h₂' =>
          exact .cons (StructEq.trans' ht a _ _ h₁ h₁') (StructEqList.trans' ht as _ _ h₂ h₂')
end

/-! ### the main characterisation, and `beq` as an equivalence -/

/-- **`beq` is structural equality.** -/
theorem beq_iff_structEq_of_symm {N : Num α} (hs : ∀ x y, N.eq x y = true → N.eq y x = true)
    (a b : Expr α) : beq N a b = true ↔ StructEq N a b :=
  (beq_iff_structEq_flip N a b).trans ⟨StructEq.symm' hs _ _, StructEq.symm' hs _ _⟩

theorem beqList_iff_structEqList_of_symm {N : Num α}
    (hs : ∀ x y, N.eq x y = true → N.eq y x = true) (as bs : List (Expr α)) :
    beqList N as bs = true ↔ StructEqList N as bs :=
  (beqList_iff_structEqList_flip N as bs).trans ⟨StructEqList.symm' hs _ _, StructEqList.symm' hs _ _⟩

theorem structEqList_iff_forall₂ (N : Num α) (as bs : List (Expr α)) :
    StructEqList N as bs ↔ List.Forall₂ (StructEq N) as bs := by
  constructor
  · intro h
    induction as generalizing bs with
    | nil => cases h; exact .nil
    | cons a as ih => cases h with | cons h₁ h₂ => exact .cons h₁ (ih _ h₂)
  · intro h
    induction h with
    | nil => exact .nil
    | cons h₁ _ ih => exact .cons h₁ ih

theorem StructEqList.length_eq {N : Num α} {as bs : List (Expr α)} (h : StructEqList N as bs) :
    as.length = bs.length :=
  ((structEqList_iff_forall₂ N as bs).mp h).length_eq

/-- `beqList` : same length and pairwise `beq`, position by position -/
theorem beqList_iff_forall₂ (N : Num α) (as bs : List (Expr α)) :
    beqList N as bs = true ↔ List.Forall₂ (fun a b => beq N a b = true) as bs := by
  induction as generalizing bs with
  | nil => cases bs <;> simp [beqList]
  | cons a as ih => cases bs <;> simp [beqList, ih]

theorem beqList_length_eq {N : Num α} {as bs : List (Expr α)} (h : beqList N as bs = true) :
    as.length = bs.length :=
  ((beqList_iff_forall₂ N as bs).mp h).length_eq

theorem beq_refl' {N : Num α} (h : EqLaws N) (a : Expr α) : beq N a a = true :=
  (beq_iff_structEq_flip N a a).mpr (StructEq.refl' h.refl a)

theorem beq_symm' {N : Num α} (h : EqLaws N) {a b : Expr α} (hab : beq N a b = true) :
    beq N b a = true :=
  (beq_iff_structEq_flip N b a).mpr ((beq_iff_structEq_of_symm h.symm a b).mp hab)

theorem beq_trans' {N : Num α} (h : EqLaws N) {a b c : Expr α} (hab : beq N a b = true)
    (hbc : beq N b c = true) : beq N a c = true :=
  (beq_iff_structEq_of_symm h.symm a c).mpr
    (StructEq.trans' h.trans a b c ((beq_iff_structEq_of_symm h.symm a b).mp hab)
      ((beq_iff_structEq_of_symm h.symm b c).mp hbc))

theorem beqList_refl' {N : Num α} (h : EqLaws N) (as : List (Expr α)) : beqList N as as = true :=
  (beqList_iff_structEqList_flip N as as).mpr (StructEqList.refl' h.refl as)

theorem beqList_symm' {N : Num α} (h : EqLaws N) {as bs : List (Expr α)}
    (hab : beqList N as bs = true) : beqList N bs as = true :=
  (beqList_iff_structEqList_flip N bs as).mpr ((beqList_iff_structEqList_of_symm h.symm as bs).mp hab)

theorem beqList_trans' {N : Num α} (h : EqLaws N) {as bs cs : List (Expr α)}
    (hab : beqList N as bs = true) (hbc : beqList N bs cs = true) : beqList N as cs = true :=
  (beqList_iff_structEqList_of_symm h.symm as cs).mpr
    (StructEqList.trans' h.trans as bs cs ((beqList_iff_structEqList_of_symm h.symm as bs).mp hab)
      ((beqList_iff_structEqList_of_symm h.symm bs cs).mp hbc))

/-! ### what `beq` tells apart -/

theorem StructEq.ctor_eq {N : Num α} {a b : Expr α} (h : StructEq N a b) : a.ctor = b.ctor := by
  cases h <;> rfl

theorem beq_ctor_eq {N : Num α} {a b : Expr α} (h : beq N a b = true) : a.ctor = b.ctor :=
  ((beq_iff_structEq_flip N a b).mp h).ctor_eq.symm

/-- the flags are not looked at -/
theorem beq_setFlags_left (N : Num α) (g : Flags) (a b : Expr α) :
    beq N (a.setFlags g) b = beq N a b := by
  cases a <;> cases b <;> simp [Expr.setFlags, beq]

theorem beq_setFlags_right (N : Num α) (g : Flags) (a b : Expr α) :
    beq N a (b.setFlags g) = beq N a b := by
  cases a <;> cases b <;> simp [Expr.setFlags, beq]

/-! ### hashing -/

mutual
/-- structurally equal expressions have hash keys that agree up to `N.eq` on the numbers in them -/
theorem hashKey_same_of_structEq (N : Num α) :
    ∀ a b : Expr α, StructEq N a b → HKey.same N (hashKey a) (hashKey b) = true
  | .const .., _, h => by
      cases h with | const h => simpa [hashKey, HKey.same, HKey.sameList] using h
  | .var .., _, h => by cases h; simp [hashKey, HKey.same, HKey.sameList]
  | .add _ as, _, h => by
      cases h with
      | add h =>
        simp [hashKey, HKey.same, HKey.sameList, h.length_eq, hashKeyList_same_of_structEqList N as _ h]
  | .mul _ as, _, h => by
      cases h with
      | mul h =>
        simp [hashKey, HKey.same, HKey.sameList, h.length_eq, hashKeyList_same_of_structEqList N as _ h]
  | .minus _ a₁ a₂, _, h => by
      cases h with
      | minus h₁ h₂ =>
        simp [hashKey, HKey.same, HKey.sameList, hashKey_same_of_structEq N a₁ _ h₁,
          hashKey_same_of_structEq N a₂ _ h₂]
  | .div _ a₁ a₂, _, h => by
      cases h with
      | div h₁ h₂ =>
        simp [hashKey, HKey.same, HKey.sameList, hashKey_same_of_structEq N a₁ _ h₁,
          hashKey_same_of_structEq N a₂ _ h₂]
  | .pow _ a₁ a₂, _, h => by
      cases h with
      | pow h₁ h₂ =>
        simp [hashKey, HKey.same, HKey.sameList, hashKey_same_of_structEq N a₁ _ h₁,
          hashKey_same_of_structEq N a₂ _ h₂]
  | .neg _ a, _, h => by
      cases h with
      | neg h => simp [hashKey, HKey.same, HKey.sameList, hashKey_same_of_structEq N a _ h]
  | .recip _ a, _, h => by
      cases h with
      | recip h => simp [hashKey, HKey.same, HKey.sameList, hashKey_same_of_structEq N a _ h]
  | .cos _ a, _, h => by
      cases h with
      | cos h => simp [hashKey, HKey.same, HKey.sameList, hashKey_same_of_structEq N a _ h]
  | .sin _ a, _, h => by
      cases h with
      | sin h => simp [hashKey, HKey.same, HKey.sameList, hashKey_same_of_structEq N a _ h]
  | .npow _ a _, _, h => by
      cases h with
      | npow h => simp [hashKey, HKey.same, HKey.sameList, hashKey_same_of_structEq N a _ h]
  | .nroot _ a _, _, h => by
      cases h with
      | nroot h => simp [hashKey, HKey.same, HKey.sameList, hashKey_same_of_structEq N a _ h]
  | .exp _ a _, _, h => by
      cases h with
      | exp h hx => simp [hashKey, HKey.same, HKey.sameList, hashKey_same_of_structEq N a _ h, hx]
  | .log _ a _, _, h => by
      cases h with
      | log h hx => simp [hashKey, HKey.same, HKey.sameList, hashKey_same_of_structEq N a _ h, hx]
theorem hashKeyList_same_of_structEqList (N : Num α) :
    ∀ as bs : List (Expr α), StructEqList N as bs →
      HKey.sameList N (hashKeyList as) (hashKeyList bs) = true
  | [], _, h => by cases h; simp [hashKeyList, HKey.sameList]
  | a :: as, _, h => by
      cases h with
      | cons h₁ h₂ =>
        simp [hashKeyList, HKey.sameList, hashKey_same_of_structEq N a _ h₁,
          hashKeyList_same_of_structEqList N as _ h₂]
end

theorem hashKey_same_of_beq {N : Num α} (h : EqLaws N) {a b : Expr α} (hab : beq N a b = true) :
    HKey.same N (hashKey a) (hashKey b) = true :=
  hashKey_same_of_structEq N a b ((beq_iff_structEq_of_symm h.symm a b).mp hab)

/-! ### points -/

theorem Point.get?_eq_none_iff (p : Point α) (x : String) :
    Point.get? p x = none ↔ x ∉ p.map Prod.fst := by
  induction p with
  | nil => simp [Point.get?]
  | cons yw rest ih =>
    obtain ⟨y, w⟩ := yw
    by_cases hyx : y = x
    · simp [Point.get?, hyx]
    · have hxy : ¬ x = y := fun h => hyx h.symm
      simp [Point.get?, hyx, hxy, ih]

theorem Point.mem_of_get?_eq_some {p : Point α} {x : String} {v : α}
    (h : Point.get? p x = some v) : (x, v) ∈ p := by
  induction p with
  | nil => simp [Point.get?] at h
  | cons yw rest ih =>
    obtain ⟨y, w⟩ := yw
    by_cases hyx : y = x
    · simp [Point.get?, hyx] at h
      simp [hyx, h]
    · simp [Point.get?, hyx] at h
      exact List.mem_cons_of_mem _ (ih h)

theorem Point.get?_eq_some_of_mem {p : Point α} {x : String} {v : α}
    (hnd : (p.map Prod.fst).Nodup) (h : (x, v) ∈ p) : Point.get? p x = some v := by
  induction p with
  | nil => cases h
  | cons yw rest ih =>
    obtain ⟨y, w⟩ := yw
    simp only [List.map_cons, List.nodup_cons] at hnd
    rcases List.mem_cons.mp h with h | h
    · cases h; simp [Point.get?]
    · have hx : x ∈ rest.map Prod.fst := List.mem_map.mpr ⟨(x, v), h, rfl⟩
      have hyx : ¬ y = x := fun e => hnd.1 (e ▸ hx)
      simp [Point.get?, hyx, ih hnd.2 h]

/-- `pointBeq` unfolded: same number of coordinates, and every coordinate of `p` is found in `q`
with an `N.eq` value -/
theorem pointBeq_iff_forall (N : Num α) (p q : Point α) :
    pointBeq N p q = true ↔
      p.length = q.length ∧
        ∀ x v, (x, v) ∈ p → ∃ w, Point.get? q x = some w ∧ N.eq v w = true := by
  unfold pointBeq
  simp only [Bool.and_eq_true, beq_iff_eq, List.all_eq_true, Prod.forall]
  refine and_congr_right fun _ => forall_congr' fun x => forall_congr' fun v =>
    imp_congr_right fun _ => ?_
  cases Point.get? q x <;> simp

/-- the two dictionaries answer a lookup of `x` alike: both miss, or both hit with `N.eq` values -/
def LookupAgree (N : Num α) (p q : Point α) (x : String) : Prop :=
  match Point.get? p x, Point.get? q x with
  | some v, some w => N.eq v w = true
  | none, none => True
  | _, _ => False

theorem LookupAgree.symm {N : Num α} (hs : ∀ x y, N.eq x y = true → N.eq y x = true)
    {p q : Point α} {x : String} (h : LookupAgree N p q x) : LookupAgree N q p x := by
  unfold LookupAgree at *
  cases hp : Point.get? p x <;> cases hq : Point.get? q x <;> simp_all

/-- equal points with distinct names in the first have the same names, up to order -/
theorem pointBeq_names_perm {N : Num α} {p q : Point α} (hp : (p.map Prod.fst).Nodup)
    (h : pointBeq N p q = true) : (p.map Prod.fst).Perm (q.map Prod.fst) := by
  obtain ⟨hlen, hall⟩ := (pointBeq_iff_forall N p q).mp h
  have hsub : p.map Prod.fst ⊆ q.map Prod.fst := by
    intro x hx
    obtain ⟨⟨x', v⟩, hm, rfl⟩ := List.mem_map.mp hx
    obtain ⟨w, hw, _⟩ := hall x' v hm
    by_contra hc
    rw [← Point.get?_eq_none_iff] at hc
    simp [hc] at hw
  exact (List.subperm_of_subset hp hsub).perm_of_length_le (by simp [hlen])

theorem pointBeq_nodup_right {N : Num α} {p q : Point α} (hp : (p.map Prod.fst).Nodup)
    (h : pointBeq N p q = true) : (q.map Prod.fst).Nodup :=
  (pointBeq_names_perm hp h).nodup_iff.mp hp

/-- **`Point.__eq__` is dictionary equality.** -/
theorem pointBeq_iff_lookup (N : Num α) {p : Point α} (q : Point α) (hp : (p.map Prod.fst).Nodup) :
    pointBeq N p q = true ↔ p.length = q.length ∧ ∀ x, LookupAgree N p q x := by
  constructor
  · intro h
    obtain ⟨hlen, hall⟩ := (pointBeq_iff_forall N p q).mp h
    refine ⟨hlen, fun x => ?_⟩
    unfold LookupAgree
    cases hpx : Point.get? p x with
    | none =>
      have : x ∉ q.map Prod.fst := fun hx =>
        (Point.get?_eq_none_iff p x).mp hpx ((pointBeq_names_perm hp h).mem_iff.mpr hx)
      simp [(Point.get?_eq_none_iff q x).mpr this]
    | some v =>
      obtain ⟨w, hw, hvw⟩ := hall x v (Point.mem_of_get?_eq_some hpx)
      simp [hw, hvw]
  · rintro ⟨hlen, hag⟩
    refine (pointBeq_iff_forall N p q).mpr ⟨hlen, fun x v hm => ?_⟩
    have h := hag x
    unfold LookupAgree at h
    rw [Point.get?_eq_some_of_mem hp hm] at h
    cases hq : Point.get? q x with
    | none => simp [hq] at h
    | some w => exact ⟨w, rfl, by simpa [hq] using h⟩

theorem pointBeq_refl' {N : Num α} (h : EqLaws N) {p : Point α} (hp : (p.map Prod.fst).Nodup) :
    pointBeq N p p = true :=
  (pointBeq_iff_forall N p p).mpr
    ⟨rfl, fun _ v hm => ⟨v, Point.get?_eq_some_of_mem hp hm, h.refl v⟩⟩

theorem pointBeq_symm' {N : Num α} (h : EqLaws N) {p q : Point α} (hp : (p.map Prod.fst).Nodup)
    (hpq : pointBeq N p q = true) : pointBeq N q p = true := by
  obtain ⟨hlen, hag⟩ := (pointBeq_iff_lookup N q hp).mp hpq
  exact (pointBeq_iff_lookup N p (pointBeq_nodup_right hp hpq)).mpr
    ⟨hlen.symm, fun x => (hag x).symm h.symm⟩

/-- transitivity needs no distinctness of names -/
theorem pointBeq_trans' {N : Num α} (h : EqLaws N) {p q r : Point α}
    (hpq : pointBeq N p q = true) (hqr : pointBeq N q r = true) : pointBeq N p r = true := by
  obtain ⟨hlen, hall⟩ := (pointBeq_iff_forall N p q).mp hpq
  obtain ⟨hlen', hall'⟩ := (pointBeq_iff_forall N q r).mp hqr
  refine (pointBeq_iff_forall N p r).mpr ⟨hlen.trans hlen', fun x v hm => ?_⟩
  obtain ⟨w, hw, hvw⟩ := hall x v hm
  obtain ⟨u, hu, hwu⟩ := hall' x w (Point.mem_of_get?_eq_some hw)
  exact ⟨u, hu, h.trans _ _ _ hvw hwu⟩

/-- the order of the coordinates is irrelevant -/
theorem pointBeq_of_perm {N : Num α} (h : EqLaws N) {p p' : Point α} (hp : (p.map Prod.fst).Nodup)
    (hperm : p.Perm p') : pointBeq N p p' = true := by
  have hp' : (p'.map Prod.fst).Nodup := (hperm.map Prod.fst).nodup_iff.mp hp
  exact (pointBeq_iff_forall N p p').mpr
    ⟨hperm.length_eq, fun _ v hm =>
      ⟨v, Point.get?_eq_some_of_mem hp' (hperm.mem_iff.mp hm), h.refl v⟩⟩

end Smooth
