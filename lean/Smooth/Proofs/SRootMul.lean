/-
Proofs/SRootMul — the sign-keeping real n-th root `sroot n` (Real/Spec.lean) is multiplicative for
every n ≥ 1 (on the whole line: `sroot n x = sign x * |x| ^ (1/n)`), hence distributes over the
product of a list; and the documented domain of the root (`RootOK`) is closed under products.
Needed by the rewrite rule `mulNRoots` (Proofs/RulesNary).
-/
import Smooth.Proofs.Eval

namespace Smooth

theorem sroot_of_nonneg_b {n : ℕ} {x : ℝ} (h : 0 ≤ x) : sroot n x = x ^ ((1 : ℝ) / n) := by
  simp [sroot, h]

theorem sroot_of_neg_b {n : ℕ} {x : ℝ} (h : x < 0) : sroot n x = -((-x) ^ ((1 : ℝ) / n)) := by
  simp [sroot, not_le.mpr h]

theorem sroot_zero_b {n : ℕ} (hn : 1 ≤ n) : sroot n 0 = 0 := by
  have hpos : (0 : ℝ) < 1 / n := by
    have : (0 : ℝ) < n := by exact_mod_cast hn
    positivity
  rw [sroot_of_nonneg_b le_rfl, Real.zero_rpow (ne_of_gt hpos)]

theorem sroot_one' (n : ℕ) : sroot n 1 = 1 := by
  rw [sroot_of_nonneg_b zero_le_one, Real.one_rpow]

/-- the sign-keeping root is multiplicative -/
theorem sroot_mul_b {n : ℕ} (hn : 1 ≤ n) (a b : ℝ) : sroot n (a * b) = sroot n a * sroot n b := by
  rcases lt_trichotomy a 0 with ha | ha | ha
  · rcases lt_trichotomy b 0 with hb | hb | hb
    · have hab : 0 ≤ a * b := (mul_pos_of_neg_of_neg ha hb).le
      rw [sroot_of_nonneg_b hab, sroot_of_neg_b ha, sroot_of_neg_b hb, neg_mul_neg,
        ← Real.mul_rpow (neg_nonneg.mpr ha.le) (neg_nonneg.mpr hb.le), neg_mul_neg]
    · subst hb; simp [sroot_zero_b hn]
    · have hab : a * b < 0 := mul_neg_of_neg_of_pos ha hb
      rw [sroot_of_neg_b hab, sroot_of_neg_b ha, sroot_of_nonneg_b hb.le, neg_mul,
        ← Real.mul_rpow (neg_nonneg.mpr ha.le) hb.le, neg_mul]
  · subst ha; simp [sroot_zero_b hn]
  · rcases lt_trichotomy b 0 with hb | hb | hb
    · have hab : a * b < 0 := mul_neg_of_pos_of_neg ha hb
      rw [sroot_of_neg_b hab, sroot_of_nonneg_b ha.le, sroot_of_neg_b hb, mul_neg,
        ← Real.mul_rpow ha.le (neg_nonneg.mpr hb.le), mul_neg]
    · subst hb; simp [sroot_zero_b hn]
    · rw [sroot_of_nonneg_b (mul_pos ha hb).le, sroot_of_nonneg_b ha.le, sroot_of_nonneg_b hb.le,
        Real.mul_rpow ha.le hb.le]

/-- … hence distributes over the product of a list -/
theorem sroot_list_prod {n : ℕ} (hn : 1 ≤ n) (l : List ℝ) :
    sroot n l.prod = (l.map (sroot n)).prod := by
  induction l with
  | nil => simp [sroot_one']
  | cons a l ih => simp [sroot_mul_b hn, ih]

/-- the documented domain of the n-th root is closed under products -/
theorem rootOK_list_prod {n : ℕ} (l : List ℝ) (h : ∀ a ∈ l, RootOK n a) : RootOK n l.prod := by
  refine ⟨fun h2 => ?_, fun hev => ?_⟩
  · apply List.prod_ne_zero
    intro h0
    exact (h 0 h0).1 h2 rfl
  · exact List.prod_nonneg fun a ha => (h a ha).2 hev

end Smooth
