/-
Proofs/NoEvenRootDriver — the driver keeps `NoEvenRoot` (Proofs/NoEvenRoot): constant folding, the
flag steps, one step of `_take_reduction_step` (`stepF`), the `_fully_reduce` loop for every budget
(exhaustion included), `_simplified_Add/_Multiply`, the normal-form pass and `_normalize` for every
budget and fuel.  Generic in the number record `N`.
-/
import Smooth.Proofs.NoEvenRoot

namespace Smooth
open Expr
variable {α : Type}

/-! ### one step -/

theorem ner_stepTop (N : Num α) {e : Expr α} (hs : NoEvenRoot e) : NoEvenRoot (stepTop N e).1 := by
  unfold stepTop
  split
  · rename_i r e' hr
    exact ner_rule N r (firstRule_some_m N e _ r e' hr) hs
  · simpa using hs

/-- the shared body of a step: unchanged / folded to a constant (no root at all) / a child stepped /
a rule or a flag at the node -/
theorem ner_stepNode (N : Num α) {self : Expr α} (sc : Unit → Option (Expr α × StepEvent))
    (hs : NoEvenRoot self) (hchild : ∀ r, sc () = some r → NoEvenRoot r.1) :
    NoEvenRoot (stepNode N self sc).1 := by
  unfold stepNode
  split
  · exact hs
  · split
    · simp
    · cases hsc : sc () with
      | some r => exact hchild r hsc
      | none =>
        simp only
        split
        · exact ner_stepTop N ((ner_markFailed self).mpr hs)
        · exact ner_stepTop N hs

mutual
/-- **one step of `_take_reduction_step` keeps the expression free of even roots** -/
theorem ner_stepF (N : Num α) : ∀ e : Expr α, NoEvenRoot e → NoEvenRoot (stepF N e).1
  | .const f v, _ => by rw [stepF]; simp
  | .var f x, _ => by rw [stepF]; simp
  | .add f as, hs => by
    rw [stepF]
    refine ner_stepNode N _ hs ?_
    intro q hq
    simp only [Option.map_eq_some_iff] at hq
    obtain ⟨p, hp, rfl⟩ := hq
    simpa using ner_stepFirstUnreduced N as p hp hs.add_inv
  | .mul f as, hs => by
    rw [stepF]
    refine ner_stepNode N _ hs ?_
    intro q hq
    simp only [Option.map_eq_some_iff] at hq
    obtain ⟨p, hp, rfl⟩ := hq
    simpa using ner_stepFirstUnreduced N as p hp hs.mul_inv
  | .minus f l r, hs => by
    rw [stepF]
    refine ner_stepNode N _ hs ?_
    intro q hq
    simp only at hq
    split at hq
    · obtain rfl := Option.some.inj hq
      simpa using ⟨ner_stepF N l hs.minus_inv.1, hs.minus_inv.2⟩
    · split at hq
      · obtain rfl := Option.some.inj hq
        simpa using ⟨hs.minus_inv.1, ner_stepF N r hs.minus_inv.2⟩
      · cases hq
  | .div f l r, hs => by
    rw [stepF]
    refine ner_stepNode N _ hs ?_
    intro q hq
    simp only at hq
    split at hq
    · obtain rfl := Option.some.inj hq
      simpa using ⟨ner_stepF N l hs.div_inv.1, hs.div_inv.2⟩
    · split at hq
      · obtain rfl := Option.some.inj hq
        simpa using ⟨hs.div_inv.1, ner_stepF N r hs.div_inv.2⟩
      · cases hq
  | .pow f l r, hs => by
    rw [stepF]
    refine ner_stepNode N _ hs ?_
    intro q hq
    simp only at hq
    split at hq
    · obtain rfl := Option.some.inj hq
      simpa using ⟨ner_stepF N l hs.pow_inv.1, hs.pow_inv.2⟩
    · split at hq
      · obtain rfl := Option.some.inj hq
        simpa using ⟨hs.pow_inv.1, ner_stepF N r hs.pow_inv.2⟩
      · cases hq
  | .neg f u, hs => by
    rw [stepF]
    refine ner_stepNode N _ hs ?_
    intro q hq
    simp only at hq
    split at hq
    · obtain rfl := Option.some.inj hq
      simpa using ner_stepF N u hs.neg_inv
    · cases hq
  | .recip f u, hs => by
    rw [stepF]
    refine ner_stepNode N _ hs ?_
    intro q hq
    simp only at hq
    split at hq
    · obtain rfl := Option.some.inj hq
      simpa using ner_stepF N u hs.recip_inv
    · cases hq
  | .npow f u n, hs => by
    rw [stepF]
    refine ner_stepNode N _ hs ?_
    intro q hq
    simp only at hq
    split at hq
    · obtain rfl := Option.some.inj hq
      simpa using ner_stepF N u hs.npow_inv
    · cases hq
  | .nroot f u n, hs => by
    rw [stepF]
    refine ner_stepNode N _ hs ?_
    intro q hq
    simp only at hq
    split at hq
    · obtain rfl := Option.some.inj hq
      -- the rebuilt node keeps its degree `n`
      exact (ner_nroot ..).mpr ⟨hs.nroot_odd, ner_stepF N u hs.nroot_inv⟩
    · cases hq
  | .exp f u b, hs => by
    rw [stepF]
    refine ner_stepNode N _ hs ?_
    intro q hq
    simp only at hq
    split at hq
    · obtain rfl := Option.some.inj hq
      simpa using ner_stepF N u hs.exp_inv
    · cases hq
  | .log f u b, hs => by
    rw [stepF]
    refine ner_stepNode N _ hs ?_
    intro q hq
    simp only at hq
    split at hq
    · obtain rfl := Option.some.inj hq
      simpa using ner_stepF N u hs.log_inv
    · cases hq
  | .cos f u, hs => by
    rw [stepF]
    refine ner_stepNode N _ hs ?_
    intro q hq
    simp only at hq
    split at hq
    · obtain rfl := Option.some.inj hq
      simpa using ner_stepF N u hs.cos_inv
    · cases hq
  | .sin f u, hs => by
    rw [stepF]
    refine ner_stepNode N _ hs ?_
    intro q hq
    simp only at hq
    split at hq
    · obtain rfl := Option.some.inj hq
      simpa using ner_stepF N u hs.sin_inv
    · cases hq
theorem ner_stepFirstUnreduced (N : Num α) :
    ∀ (as : List (Expr α)) (p : List (Expr α) × StepEvent), stepFirstUnreduced N as = some p →
      (∀ a ∈ as, NoEvenRoot a) → ∀ a ∈ p.1, NoEvenRoot a
  | [], p, h, _ => by simp [stepFirstUnreduced] at h
  | e :: es, p, h, hs => by
    rw [stepFirstUnreduced] at h
    split at h
    · obtain rfl := Option.some.inj h
      intro a ha
      rcases List.mem_cons.mp ha with rfl | ha
      · exact ner_stepF N e (hs e List.mem_cons_self)
      · exact hs a (List.mem_cons_of_mem _ ha)
    · simp only [Option.map_eq_some_iff] at h
      obtain ⟨q, hq, rfl⟩ := h
      intro a ha
      rcases List.mem_cons.mp ha with rfl | ha
      · exact hs _ List.mem_cons_self
      · exact ner_stepFirstUnreduced N es q hq
          (fun x hx => hs x (List.mem_cons_of_mem _ hx)) a ha
end

/-! ### the `_fully_reduce` loop -/

/-- **`_fully_reduce` keeps the expression free of even roots, for every budget** (also when the
budget runs out: only a flag is set then) -/
theorem ner_fullyReduceLoop (N : Num α) :
    ∀ (fuel : Nat) (e : Expr α) (k : Nat) (tr : List StepEvent), NoEvenRoot e →
      NoEvenRoot (fullyReduceLoop N fuel e k tr).expr
  | 0, e, k, tr, hs => by simpa [fullyReduceLoop] using hs
  | fuel + 1, e, k, tr, hs => by
    unfold fullyReduceLoop
    split
    · exact hs
    · exact ner_fullyReduceLoop N fuel _ _ _ (ner_stepF N e hs)

theorem ner_fullyReduceWith (N : Num α) (bound : Nat) {e : Expr α} (hs : NoEvenRoot e) :
    NoEvenRoot (fullyReduceWith N bound e).expr :=
  ner_fullyReduceLoop N bound e 0 [] hs

theorem ner_fullyReduce (N : Num α) {e : Expr α} (hs : NoEvenRoot e) :
    NoEvenRoot (fullyReduce N e).expr :=
  ner_fullyReduceWith N REDUCTION_STEPS_BOUND hs

/-! ### the normal-form pass -/

theorem ner_simplifiedAdd (N : Num α) {ts : List (Expr α)} (h : ∀ a ∈ ts, NoEvenRoot a) :
    NoEvenRoot (simplifiedAdd N ts) := by
  match ts, h with
  | [], _ => simp [simplifiedAdd]
  | [t], h => simpa [simplifiedAdd] using h
  | a :: b :: rest, h => simpa [simplifiedAdd] using h

theorem ner_simplifiedMul (N : Num α) {ts : List (Expr α)} (h : ∀ a ∈ ts, NoEvenRoot a) :
    NoEvenRoot (simplifiedMul N ts) := by
  match ts, h with
  | [], _ => simp [simplifiedMul]
  | [t], h => simpa [simplifiedMul] using h
  | a :: b :: rest, h => simpa [simplifiedMul] using h

/-- the four-way output of `Add._normalize_fully_reduced` -/
theorem ner_minusOut (N : Num α) {t1 t2 : List (Expr α)} (h1 : ∀ a ∈ t1, NoEvenRoot a)
    (h2 : ∀ a ∈ t2, NoEvenRoot a) :
    NoEvenRoot (if (decide (t1.length ≥ 1) && decide (t2.length ≥ 1)) = true then
        mkMinus (simplifiedAdd N t1) (simplifiedAdd N t2)
      else if t1.length ≥ 1 then simplifiedAdd N t1
      else if t2.length ≥ 1 then mkNeg (simplifiedAdd N t2)
      else mkConst N.zero) := by
  have a1 := ner_simplifiedAdd N h1
  have a2 := ner_simplifiedAdd N h2
  split
  · simp [a1, a2]
  · split
    · exact a1
    · split
      · simp [a2]
      · simp

/-- the four-way output of `Multiply._normalize_fully_reduced` -/
theorem ner_divOut (N : Num α) {t1 t2 : List (Expr α)} (h1 : ∀ a ∈ t1, NoEvenRoot a)
    (h2 : ∀ a ∈ t2, NoEvenRoot a) :
    NoEvenRoot (if (decide (t1.length ≥ 1) && decide (t2.length ≥ 1)) = true then
        mkDiv (simplifiedMul N t1) (simplifiedMul N t2)
      else if t1.length ≥ 1 then simplifiedMul N t1
      else if t2.length ≥ 1 then mkRecip (simplifiedMul N t2)
      else mkConst N.one) := by
  have a1 := ner_simplifiedMul N h1
  have a2 := ner_simplifiedMul N h2
  split
  · simp [a1, a2]
  · split
    · exact a1
    · split
      · simp [a2]
      · simp

theorem ner_mapM? {f : Expr α → Option (Expr α × Bool)} :
    ∀ {bs : List (Expr α)} {cs : List (Expr α × Bool)},
      (∀ b ∈ bs, ∀ c, f b = some c → NoEvenRoot c.1) → mapM? f bs = some cs →
      ∀ a ∈ cs.map (·.1), NoEvenRoot a
  | [], cs, _, h => by
    simp only [mapM?, Option.some.injEq] at h
    subst h; simp
  | b :: bs, cs, hf, h => by
    simp only [mapM?] at h
    split at h
    · next c cs' hc hcs =>
      simp only [Option.some.injEq] at h
      subst h
      intro a ha
      simp only [List.map_cons, List.mem_cons] at ha
      rcases ha with rfl | ha
      · exact hf b List.mem_cons_self c hc
      · exact ner_mapM? (fun b' hb' => hf b' (List.mem_cons_of_mem _ hb')) hcs a ha
    · cases h

theorem ner_map_unary {sub : Option (Expr α × Bool)} {mk : Expr α → Expr α} {e' : Expr α}
    {w : Bool} (h : sub.map (fun x => (mk x.1, x.2)) = some (e', w))
    (ih : ∀ a w', sub = some (a, w') → NoEvenRoot a) (hc : ∀ a, NoEvenRoot a → NoEvenRoot (mk a)) :
    NoEvenRoot e' := by
  cases sub with
  | none => simp at h
  | some aw =>
    simp only [Option.map_some, Option.some.injEq, Prod.mk.injEq] at h
    rw [← h.1]
    exact hc _ (ih aw.1 aw.2 rfl)

theorem ner_norm_aux (N : Num α) (bound : Nat) : ∀ fuel : Nat,
    (∀ e e' w, NoEvenRoot e → normalizeF N bound fuel e = some (e', w) → NoEvenRoot e') ∧
    (∀ e e' w, NoEvenRoot e → normReducedF N bound fuel e = some (e', w) → NoEvenRoot e')
  | 0 => ⟨fun e e' w _ h => by simp [normalizeF] at h, fun e e' w _ h => by simp [normReducedF] at h⟩
  | fuel + 1 => by
    have ih := ner_norm_aux N bound fuel
    refine ⟨?_, ?_⟩
    · intro e e' w hs h
      simp only [normalizeF] at h
      split at h
      · next e'' w'' hn =>
        simp only [Option.some.injEq, Prod.mk.injEq] at h
        rw [← h.1]
        exact ih.2 _ _ _ (ner_fullyReduceWith N bound hs) hn
      · cases h
    · intro e e' w hs h
      cases e with
      | const f v =>
        simp only [normReducedF, Option.some.injEq, Prod.mk.injEq] at h
        rw [← h.1]; simp
      | var f x =>
        simp only [normReducedF, Option.some.injEq, Prod.mk.injEq] at h
        rw [← h.1]; simp
      | add f as =>
        simp only [normReducedF] at h
        split at h
        · next t1 t2 ht1 ht2 =>
          injection h with h
          injection h with h1 h2
          rw [← h1]
          have has := hs.add_inv
          exact ner_minusOut N
            (ner_mapM? (fun b hb c hc => ih.1 b c.1 c.2 (has b (List.mem_filter.mp hb).1) hc) ht1)
            (ner_mapM? (fun b hb c hc =>
              ih.1 b c.1 c.2 (ner_mem_filterMap_asNeg has b hb) hc) ht2)
        · cases h
      | mul f as =>
        simp only [normReducedF] at h
        split at h
        · next t1 t2 ht1 ht2 =>
          injection h with h
          injection h with h1 h2
          rw [← h1]
          have has := hs.mul_inv
          exact ner_divOut N
            (ner_mapM? (fun b hb c hc => ih.1 b c.1 c.2 (has b (List.mem_filter.mp hb).1) hc) ht1)
            (ner_mapM? (fun b hb c hc =>
              ih.1 b c.1 c.2 (ner_mem_filterMap_asRecip has b hb) hc) ht2)
        · cases h
      | minus f l r =>
        simp only [normReducedF] at h
        split at h
        · next a w1 b w2 ha hb =>
          simp only [Option.some.injEq, Prod.mk.injEq] at h
          rw [← h.1]
          exact (ner_minus ..).mpr ⟨ih.2 _ _ _ hs.minus_inv.1 ha, ih.2 _ _ _ hs.minus_inv.2 hb⟩
        · cases h
      | div f l r =>
        simp only [normReducedF] at h
        split at h
        · next a w1 b w2 ha hb =>
          simp only [Option.some.injEq, Prod.mk.injEq] at h
          rw [← h.1]
          exact (ner_div ..).mpr ⟨ih.2 _ _ _ hs.div_inv.1 ha, ih.2 _ _ _ hs.div_inv.2 hb⟩
        · cases h
      | pow f l r =>
        simp only [normReducedF] at h
        split at h
        · next a w1 b w2 ha hb =>
          simp only [Option.some.injEq, Prod.mk.injEq] at h
          rw [← h.1]
          exact (ner_pow ..).mpr ⟨ih.2 _ _ _ hs.pow_inv.1 ha, ih.2 _ _ _ hs.pow_inv.2 hb⟩
        · cases h
      | neg f u =>
        simp only [normReducedF] at h
        exact ner_map_unary (mk := mkNeg) h (fun a w' ha => ih.2 _ _ _ hs.neg_inv ha)
          (fun a ha => (ner_neg ..).mpr ha)
      | recip f u =>
        simp only [normReducedF] at h
        exact ner_map_unary (mk := mkRecip) h (fun a w' ha => ih.2 _ _ _ hs.recip_inv ha)
          (fun a ha => (ner_recip ..).mpr ha)
      | npow f u n =>
        simp only [normReducedF] at h
        exact ner_map_unary (mk := (mkNPow · n)) h (fun a w' ha => ih.2 _ _ _ hs.npow_inv ha)
          (fun a ha => (ner_npow ..).mpr ha)
      | nroot f u n =>
        simp only [normReducedF] at h
        exact ner_map_unary (mk := (mkNRoot · n)) h (fun a w' ha => ih.2 _ _ _ hs.nroot_inv ha)
          (fun a ha => (ner_nroot ..).mpr ⟨hs.nroot_odd, ha⟩)
      | exp f u b =>
        simp only [normReducedF] at h
        exact ner_map_unary (mk := (mkExp · b)) h (fun a w' ha => ih.2 _ _ _ hs.exp_inv ha)
          (fun a ha => (ner_exp ..).mpr ha)
      | log f u b =>
        simp only [normReducedF] at h
        exact ner_map_unary (mk := (mkLog · b)) h (fun a w' ha => ih.2 _ _ _ hs.log_inv ha)
          (fun a ha => (ner_log ..).mpr ha)
      | cos f u =>
        simp only [normReducedF] at h
        exact ner_map_unary (mk := mkCos) h (fun a w' ha => ih.2 _ _ _ hs.cos_inv ha)
          (fun a ha => (ner_cos ..).mpr ha)
      | sin f u =>
        simp only [normReducedF] at h
        exact ner_map_unary (mk := mkSin) h (fun a w' ha => ih.2 _ _ _ hs.sin_inv ha)
          (fun a ha => (ner_sin ..).mpr ha)

/-- **`_normalize` keeps the expression free of even roots** (every budget, every fuel) -/
theorem ner_normalizeF (N : Num α) (bound fuel : Nat) {e e' : Expr α} {w : Bool}
    (hs : NoEvenRoot e) (h : normalizeF N bound fuel e = some (e', w)) : NoEvenRoot e' :=
  (ner_norm_aux N bound fuel).1 e e' w hs h

/-- **the normal-form pass keeps the expression free of even roots** -/
theorem ner_normReducedF (N : Num α) (bound fuel : Nat) {e e' : Expr α} {w : Bool}
    (hs : NoEvenRoot e) (h : normReducedF N bound fuel e = some (e', w)) : NoEvenRoot e' :=
  (ner_norm_aux N bound fuel).2 e e' w hs h

theorem ner_normalize (N : Num α) {e e' : Expr α} {w : Bool} (hs : NoEvenRoot e)
    (h : normalize N e = some (e', w)) : NoEvenRoot e' :=
  ner_normalizeF N _ _ hs h

end Smooth
