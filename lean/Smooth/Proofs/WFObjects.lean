/-
Proofs/WFObjects — C17 for the object layer as an INVARIANT of the objects, method by method (not
only for the thirteen compositions of Model/Routes.lean): every `Partial`, `Derivative`,
`Differential`, `LocatedDifferential` built by a public constructor from a well-formed expression
stores only well-formed expressions; every method keeps that; and every method can only fail with the
library's own errors (`.domain`, `.missing`, `.usage` for `Derivative` of ≥ 2 variables) or — at the
places where `_normalize` runs — with the model's `.fuel`.
-/
import Smooth.Proofs.WFRoutes

namespace Smooth
open Classical Expr

/-- a `Partial` object over a well-formed original, whose memoised symbolic partial (if any) is well
formed -/
def PartialObj.WFInv (P : PartialObj ℝ) : Prop := WF P.orig ∧ ∀ s, P.syn = some s → WF s

def DerivativeObj.WFInv (D : DerivativeObj ℝ) : Prop := D.partial_.WFInv

/-- a `Differential` over a well-formed original, whose table (if computed early) is well formed -/
def DifferentialObj.WFInv (D : DifferentialObj ℝ) : Prop :=
  WF D.orig ∧ ∀ d, D.syn = some d → SAccWF d

/-! ### `Partial` -/

/-- `Partial(e, x, compute_early)` : fails only for lack of fuel; the object satisfies the invariant
-/
theorem wfd_partialNew {e : Expr ℝ} (x : String) (early : Bool) (hwf : WF e) :
    (∀ err, PartialObj.new realNum e x early = .error err → err = .fuel) ∧
    (∀ P w, PartialObj.new realNum e x early = .ok (P, w) → P.WFInv ∧ P.orig = e ∧ P.x = x) := by
  cases early with
  | true =>
    refine ⟨fun err h => routes_partialNew_early_error realNum e x err h, fun P w h => ?_⟩
    simp only [PartialObj.new, if_true] at h
    cases hr : retrieveSyntheticPartial realNum e x with
    | error err => simp [hr, bind, Except.bind] at h
    | ok sw =>
      obtain ⟨s, w'⟩ := sw
      simp only [hr, bind, Except.bind, pure, Except.pure] at h
      injection h with h
      injection h with h1 _
      subst h1
      refine ⟨⟨hwf, fun s' hs' => ?_⟩, rfl, rfl⟩
      injection hs' with hs'; subst hs'
      exact wfd_retrieve hr hwf
  | false =>
    refine ⟨fun err h => by simp [PartialObj.new, pure, Except.pure] at h, fun P w h => ?_⟩
    simp only [PartialObj.new, Bool.false_eq_true, if_false, pure, Except.pure] at h
    injection h with h
    injection h with h1 _
    subst h1
    exact ⟨⟨hwf, fun s' hs' => by cases hs'⟩, rfl, rfl⟩

/-- the private constructor used by `Differential.component` -/
theorem wfd_partialNew_priv {e s : Expr ℝ} (x : String) (early : Bool) (hwf : WF e) (hs : WF s) :
    ∃ P, PartialObj.new realNum e x early (some s) = .ok (P, false) ∧ P.WFInv ∧ P.orig = e :=
  ⟨⟨e, x, some s⟩, rfl, ⟨hwf, fun s' hs' => by injection hs' with hs'; subst hs'; exact hs⟩, rfl⟩

/-- `Partial.at(point)` : `DomainError` or `CoordinateMissing` only -/
theorem wfd_partialAt {P : PartialObj ℝ} (hP : P.WFInv) (p : Point ℝ) (err : Err)
    (h : P.at realNum p = .error err) : err = .domain ∨ err = .missing := by
  unfold PartialObj.at at h
  cases hs : P.syn with
  | none =>
    simp only [hs] at h
    exact wfd_fwdG_error hP.1 h
  | some s =>
    simp only [hs] at h
    rcases wfd_bind_error h with h | ⟨v, _, h⟩
    · exact wfd_evalG_error hP.1 h
    · exact wfd_evalG_error (hP.2 s hs) h

/-- `Partial.as_expression()` : fails only for lack of fuel; returns a well-formed expression and
leaves the object in a state that satisfies the invariant -/
theorem wfd_partialAsExpression {P : PartialObj ℝ} (hP : P.WFInv) :
    (∀ err, P.asExpression realNum = .error err → err = .fuel) ∧
    (∀ s P' w, P.asExpression realNum = .ok (s, P', w) → WF s ∧ P'.WFInv ∧ P'.orig = P.orig) := by
  unfold PartialObj.asExpression
  cases hs : P.syn with
  | some s =>
    refine ⟨fun err h => by simp [pure, Except.pure] at h, fun s' P' w h => ?_⟩
    simp only [pure, Except.pure] at h
    injection h with h
    injection h with h1 h2
    injection h2 with h2 _
    subst h1; subst h2
    exact ⟨hP.2 s hs, hP, rfl⟩
  | none =>
    refine ⟨fun err h => ?_, fun s' P' w h => ?_⟩
    · rcases wfd_bind_error h with h | ⟨sw, _, h⟩
      · exact routes_retrieve_error realNum _ _ err h
      · cases h
    · cases hr : retrieveSyntheticPartial realNum P.orig P.x with
      | error err => simp [hr, bind, Except.bind] at h
      | ok sw =>
        obtain ⟨s, w'⟩ := sw
        simp only [hr, bind, Except.bind, pure, Except.pure] at h
        injection h with h
        injection h with h1 h2
        injection h2 with h2 _
        subst h1; subst h2
        have hws := wfd_retrieve hr hP.1
        exact ⟨hws, ⟨hP.1, fun s' hs' => by injection hs' with hs'; subst hs'; exact hws⟩, rfl⟩

/-! ### `Derivative` -/

/-- `Derivative(e, compute_early)` : the generic exception (two or more variables) or lack of fuel -/
theorem wfd_derivativeNew {e : Expr ℝ} (early : Bool) (hwf : WF e) :
    (∀ err, DerivativeObj.new realNum e early = .error err → err = .fuel ∨ err = .usage) ∧
    (∀ D w, DerivativeObj.new realNum e early = .ok (D, w) → D.WFInv) := by
  unfold DerivativeObj.new
  refine ⟨fun err h => ?_, fun D w h => ?_⟩
  · rcases wfd_bind_error h with h | ⟨x, _, h⟩
    · exact Or.inr (wfd_singleVarName_error h)
    · rcases wfd_bind_error h with h | ⟨Pw, _, h⟩
      · exact Or.inl ((wfd_partialNew x early hwf).1 err h)
      · cases h
  · cases hx : singleVarName e with
    | error err => simp [hx, bind, Except.bind] at h
    | ok x =>
      simp only [hx, bind, Except.bind] at h
      cases hP : PartialObj.new realNum e x early with
      | error err => simp [hP] at h
      | ok Pw =>
        obtain ⟨P, w'⟩ := Pw
        simp only [hP, pure, Except.pure] at h
        injection h with h
        injection h with h1 _
        subst h1
        exact ((wfd_partialNew x early hwf).2 P w' hP).1

/-- `Derivative.at(point)` and `Derivative.at(number)` -/
theorem wfd_derivativeAt {D : DerivativeObj ℝ} (hD : D.WFInv) (err : Err) :
    (∀ p, D.at realNum p = .error err → err = .domain ∨ err = .missing) ∧
    (∀ t, D.atNumber realNum t = .error err → err = .domain ∨ err = .missing) :=
  ⟨fun p h => wfd_partialAt hD p err h, fun _ h => wfd_partialAt hD _ err h⟩

/-- `Derivative.as_expression()` -/
theorem wfd_derivativeAsExpression {D : DerivativeObj ℝ} (hD : D.WFInv) :
    (∀ err, D.asExpression realNum = .error err → err = .fuel) ∧
    (∀ s D' w, D.asExpression realNum = .ok (s, D', w) → WF s ∧ D'.WFInv) := by
  unfold DerivativeObj.asExpression
  refine ⟨fun err h => ?_, fun s D' w h => ?_⟩
  · rcases wfd_bind_error h with h | ⟨r, _, h⟩
    · exact (wfd_partialAsExpression hD).1 err h
    · cases h
  · cases hr : D.partial_.asExpression realNum with
    | error err => simp [hr, bind, Except.bind] at h
    | ok r =>
      obtain ⟨s', P', w'⟩ := r
      simp only [hr, bind, Except.bind, pure, Except.pure] at h
      injection h with h
      injection h with h1 h2
      injection h2 with h2 _
      subst h1; subst h2
      obtain ⟨h1, h2, _⟩ := (wfd_partialAsExpression hD).2 s' P' w' hr
      exact ⟨h1, h2⟩

/-! ### `Differential`, `LocatedDifferential` -/

/-- `Differential(e, compute_early)` : fails only for lack of fuel -/
theorem wfd_differentialNew {e : Expr ℝ} (early : Bool) (hwf : WF e) :
    (∀ err, DifferentialObj.new realNum e early = .error err → err = .fuel) ∧
    (∀ D w, DifferentialObj.new realNum e early = .ok (D, w) → D.WFInv ∧ D.orig = e) := by
  cases early with
  | true =>
    refine ⟨fun err h => routes_differentialNew_early_error realNum e err h, fun D w h => ?_⟩
    obtain ⟨d, hn, rfl⟩ := differentialNew_early realNum e h
    refine ⟨⟨hwf, fun d' hd' => ?_⟩, rfl⟩
    injection hd' with hd'; subst hd'
    exact wfd_differential_table hn hwf
  | false =>
    refine ⟨fun err h => by simp [DifferentialObj.new, pure, Except.pure] at h, fun D w h => ?_⟩
    simp only [DifferentialObj.new, Bool.false_eq_true, if_false, pure, Except.pure] at h
    injection h with h
    injection h with h1 _
    subst h1
    exact ⟨⟨hwf, fun d' hd' => by cases hd'⟩, rfl⟩

/-- `Differential.component(variable)` never fails and returns a `Partial` that satisfies the
invariant -/
theorem wfd_differentialComponent {D : DifferentialObj ℝ} (hD : D.WFInv) (x : String) :
    ∃ P w, D.component realNum x = .ok (P, w) ∧ P.WFInv := by
  have late : ∃ P w, PartialObj.new realNum D.orig x false = .ok (P, w) ∧ P.WFInv :=
    ⟨⟨D.orig, x, none⟩, false, rfl, ⟨hD.1, fun s hs => by cases hs⟩⟩
  unfold DifferentialObj.component
  cases hs : D.syn with
  | none => exact late
  | some d =>
    simp only
    cases hg : SAcc.get? d x with
    | none => exact late
    | some s =>
      obtain ⟨P, hP, hinv, _⟩ := wfd_partialNew_priv x false hD.1 (SAccWF_get? (hD.2 d hs) hg)
      exact ⟨P, false, hP, hinv⟩

/-- `Differential.component_at(variable, point)` -/
theorem wfd_differentialComponentAt {D : DifferentialObj ℝ} (hD : D.WFInv) (x : String)
    (p : Point ℝ) (err : Err) (h : D.componentAt realNum x p = .error err) :
    err = .domain ∨ err = .missing := by
  obtain ⟨P, w, hc, hP⟩ := wfd_differentialComponent hD x
  simp only [DifferentialObj.componentAt, hc, bind, Except.bind] at h
  exact wfd_partialAt hP p err h

/-- `LocatedDifferential(e, p)` -/
theorem wfd_locatedNew {e : Expr ℝ} (hwf : WF e) (p : Point ℝ) (err : Err)
    (h : LocatedObj.new realNum e p = .error err) : err = .domain ∨ err = .missing := by
  simp only [LocatedObj.new] at h
  rcases wfd_bind_error h with h | ⟨d, _, h⟩
  · exact wfd_numericPartials_error hwf h
  · cases h

/-- `Differential.at(point)` -/
theorem wfd_differentialAt {D : DifferentialObj ℝ} (hD : D.WFInv) (p : Point ℝ) (err : Err)
    (h : D.at realNum p = .error err) : err = .domain ∨ err = .missing := by
  unfold DifferentialObj.at at h
  rcases wfd_bind_error h with h | ⟨v, _, h⟩
  · exact wfd_evalG_error hD.1 h
  · cases hs : D.syn with
    | none =>
      simp only [hs] at h
      exact wfd_locatedNew hD.1 p err h
    | some d =>
      simp only [hs] at h
      rcases wfd_bind_error h with h | ⟨vals, _, h⟩
      · exact wfd_evalAll_error (hD.2 d hs) h
      · cases h

end Smooth
