/-
Proofs/MeasureRules — each of the 46 rewrite rules strictly decreases the measure `mu`, whatever the
flags inside the expression are (so: in every context, by the congruence lemmas of Proofs/Measure).
-/
import Smooth.Proofs.MeasureDefs

namespace Smooth
open Expr
variable {α : Type}

/-! ### arithmetic used below -/

theorem cube_gt {y : Nat} (h : 3 ≤ y) : y * y + 2 * y < y ^ 3 := by
  have : y ^ 3 = y * y * y := by ring
  rw [this]
  nlinarith [Nat.mul_le_mul h h]

theorem four_le_two_pow {x : Nat} (h : 2 ≤ x) : 4 ≤ 2 ^ x :=
  calc 4 = 2 ^ 2 := rfl
    _ ≤ 2 ^ x := Nat.pow_le_pow_right (by omega) h

theorem sum_map_const {β : Type} (a : Nat) : ∀ l : List β, (l.map fun _ => a).sum = a * l.length
  | [] => rfl
  | x :: xs => by
    simp only [List.map_cons, List.sum_cons, List.length_cons, sum_map_const a xs, Nat.mul_succ]
    omega

theorem sum_map_mul {β : Type} (a : Nat) (f : β → Nat) :
    ∀ l : List β, (l.map fun x => a * f x).sum = a * (l.map f).sum
  | [] => rfl
  | x :: xs => by
    simp only [List.map_cons, List.sum_cons, sum_map_mul a f xs, Nat.mul_add]

theorem two_mul_length_le_sum_wt : ∀ l : List (Expr α), 2 * l.length ≤ (l.map wt).sum
  | [] => by simp
  | x :: xs => by
    have := two_le_wt x; have := two_mul_length_le_sum_wt xs
    simp only [List.map_cons, List.sum_cons, List.length_cons]; omega

theorem sum_filter_le (p : Expr α → Bool) (f : Expr α → Nat) :
    ∀ as : List (Expr α), ((as.filter p).map f).sum ≤ (as.map f).sum
  | [] => by simp
  | e :: es => by
    have := sum_filter_le p f es
    by_cases h : p e <;> simp [h] <;> omega

theorem sum_filter_lt (p : Expr α → Bool) (f : Expr α → Nat) (hpos : ∀ e, 0 < f e) :
    ∀ as : List (Expr α), (as.filter p).length ≠ as.length →
      ((as.filter p).map f).sum < (as.map f).sum
  | [], h => by simp at h
  | e :: es, h => by
    have hle := sum_filter_le p f es
    have := hpos e
    by_cases hp : p e
    · have := sum_filter_lt p f hpos es (by simpa [List.filter_cons, hp] using h)
      simp [hp]; omega
    · simp [hp]; omega

theorem sum_recip_le : ∀ l : List (Expr α),
    (l.map fun u => wt u * wt u + 2 * wt u).sum ≤
      (l.map wt).sum * (l.map wt).sum + 2 * (l.map wt).sum
  | [] => by simp
  | x :: xs => by
    have := sum_recip_le xs
    simp only [List.map_cons, List.sum_cons]
    nlinarith [Nat.zero_le (wt x * (xs.map wt).sum)]

/-! ### Add -/

theorem asAdd_total (c : Expr α → Nat) (hc : ∀ f as, c (.add f as) = 0) (e : Expr α)
    (inner : List (Expr α)) (h : asAdd e = some inner) :
    total c e = (inner.map (total c)).sum + 0 := by
  cases e <;> simp [asAdd] at h
  subst h
  simp [total, hc, totalList_eq_sum]

theorem asMul_total (c : Expr α → Nat) (hc : ∀ f as, c (.mul f as) = 0) (e : Expr α)
    (inner : List (Expr α)) (h : asMul e = some inner) :
    total c e = (inner.map (total c)).sum + 0 := by
  cases e <;> simp [asMul] at h
  subst h
  simp [total, hc, totalList_eq_sum]

theorem ruleAddFlatten_lt {e e' : Expr α} (h : ruleAddFlatten e = some e') : MuLt e' e := by
  unfold ruleAddFlatten at h
  split at h
  · simp only [Option.map_eq_some_iff] at h
    obtain ⟨as', h1, rfl⟩ := h
    have hA := spliceFirst_sum asAdd (total rootA) 0 (asAdd_total _ (by simp [rootA])) _ _ h1
    have hB := spliceFirst_sum asAdd (total rootB) 0 (asAdd_total _ (by simp [rootB])) _ _ h1
    have hW := spliceFirst_sum asAdd wt 3 (by
      intro e inner h
      cases e <;> simp [asAdd] at h
      subst h; simp [wt, wtList_eq_sum]) _ _ h1
    exact LexLt.ofW (by simp [total, rootA, totalList_eq_sum]; omega)
      (by simp [total, rootB, totalList_eq_sum]; omega)
      (by simp [wt, wtList_eq_sum]; omega)
  · cases h

theorem ruleAddZeros_lt (N : Num α) {e e' : Expr α} (h : ruleAddZeros N e = some e') :
    MuLt e' e := by
  unfold ruleAddZeros at h
  split at h
  · simp only at h
    split at h
    · cases h
    · rename_i hlen
      obtain rfl := Option.some.inj h
      exact LexLt.ofW
        (by simp only [total, rootA, totalList_eq_sum]; have := sum_filter_le (fun e => !isConstSuch N.isZero e) (total rootA) ‹_›; omega)
        (by simp only [total, rootB, totalList_eq_sum]; have := sum_filter_le (fun e => !isConstSuch N.isZero e) (total rootB) ‹_›; omega)
        (by
          simp only [wt, wtList_eq_sum]
          have := sum_filter_lt (fun e => !isConstSuch N.isZero e) wt
            (fun e => by have := two_le_wt e; omega) _ hlen
          omega)
  · cases h


/-- the shape shared by `addConsts` and `mulConsts` -/
theorem consts_sum (f : Expr α → Nat) (k : Nat) (hf : ∀ g v, f (.const g v) = k)
    (as : List (Expr α)) :
    (as.map f).sum = ((as.filter fun e => (asConst e).isNone).map f).sum +
      k * (as.filterMap asConst).length := by
  rw [sum_filter_filterMap asConst f (fun _ => k) (by
    intro e v h
    cases e <;> simp [asConst] at h
    exact hf _ _) as, sum_map_const]

theorem ruleAddConsts_lt (N : Num α) {e e' : Expr α} (h : ruleAddConsts N e = some e') :
    MuLt e' e := by
  unfold ruleAddConsts at h
  split at h
  · simp only at h
    split at h
    · cases h
    · rename_i f as hlen
      obtain rfl := Option.some.inj h
      have hA := consts_sum (total rootA) 0 (by simp [total, rootA]) as
      have hB := consts_sum (total rootB) 0 (by simp [total, rootB]) as
      have hW := consts_sum wt 2 (by simp [wt]) as
      exact LexLt.ofW (by simp [total, rootA, totalList_eq_sum]; omega)
        (by simp [total, rootB, totalList_eq_sum]; omega)
        (by simp [wt, wtList_eq_sum]; omega)
  · cases h

/-- the shape shared by the four consolidation rules -/
theorem consolidate_lt {κ : Type} (sel : Expr α → Option (κ × Expr α)) (eq : κ → κ → Bool)
    (build : κ → List (Expr α) → Expr α)
    (hselA : ∀ e k u, sel e = some (k, u) → cA e = 0 + cA u)
    (hbuildA : ∀ k vs, cA (build k vs) = 0 + (vs.map cA).sum)
    (hselB : ∀ e k u, sel e = some (k, u) → cB e = 1 + cB u)
    (hbuildB : ∀ k vs, cB (build k vs) = 1 + (vs.map cB).sum)
    (as as' : List (Expr α)) (h : consolidate sel eq build as = some as') :
    (as'.map cA).sum ≤ (as.map cA).sum ∧ (as'.map cB).sum < (as.map cB).sum := by
  obtain ⟨_, _, _, hA⟩ := consolidate_sum sel eq build cA 0 hselA hbuildA as as' h
  obtain ⟨_, _, _, hB⟩ := consolidate_sum sel eq build cB 1 hselB hbuildB as as' h
  constructor <;> omega

theorem ruleAddLogs_lt (N : Num α) {e e' : Expr α} (h : ruleAddLogs N e = some e') :
    MuLt e' e := by
  unfold ruleAddLogs at h
  split at h
  · simp only [Option.map_eq_some_iff] at h
    obtain ⟨as', h1, rfl⟩ := h
    obtain ⟨hA, hB⟩ := consolidate_lt asLog N.eq (fun b inners => mkLog (mkMul inners) b)
      (by intro e k u h; cases e <;> simp [asLog] at h; obtain ⟨rfl, rfl⟩ := h; simp [cA, total, rootA])
      (by intro k vs; simp [total, rootA, totalList_eq_sum])
      (by intro e k u h; cases e <;> simp [asLog] at h; obtain ⟨rfl, rfl⟩ := h; simp [cB, total, rootB])
      (by intro k vs; simp [total, rootB, totalList_eq_sum]) _ _ h1
    exact LexLt.ofB (by simpa [total, rootA, totalList_eq_sum] using hA)
      (by simpa [total, rootB, totalList_eq_sum] using hB)
  · cases h

/-! ### Minus, Negation -/

theorem ruleMinusToSum_lt {e e' : Expr α} (h : ruleMinusToSum e = some e') : MuLt e' e := by
  unfold ruleMinusToSum at h
  split at h
  · obtain rfl := Option.some.inj h
    exact LexLt.ofA (by simp [cA, total, totalList, rootA])
  · cases h

theorem ruleNegNeg_lt {e e' : Expr α} (h : ruleNegNeg e = some e') : MuLt e' e := by
  unfold ruleNegNeg at h
  split at h
  · rename_i f g u
    obtain rfl := Option.some.inj h
    have := two_le_wt u
    exact LexLt.ofW (by simp [cA, total, rootA]) (by simp [cB, total, rootB]) (by simp only [wt]; omega)
  · cases h

theorem ruleNegSum_lt {e e' : Expr α} (h : ruleNegSum e = some e') : MuLt e' e := by
  unfold ruleNegSum at h
  split at h
  · rename_i f g as
    obtain rfl := Option.some.inj h
    exact LexLt.ofW
      (by simp [total, rootA, totalList_eq_sum, Function.comp_def])
      (by simp [total, rootB, totalList_eq_sum, Function.comp_def])
      (by simp [wt, wtList_eq_sum, Function.comp_def, sum_map_mul]; omega)
  · cases h

/-! ### Multiply -/

theorem ruleMulFlatten_lt {e e' : Expr α} (h : ruleMulFlatten e = some e') : MuLt e' e := by
  unfold ruleMulFlatten at h
  split at h
  · simp only [Option.map_eq_some_iff] at h
    obtain ⟨as', h1, rfl⟩ := h
    have hA := spliceFirst_sum asMul (total rootA) 0 (asMul_total _ (by simp [rootA])) _ _ h1
    have hB := spliceFirst_sum asMul (total rootB) 0 (asMul_total _ (by simp [rootB])) _ _ h1
    have hW := spliceFirst_sum asMul wt 3 (by
      intro e inner h
      cases e <;> simp [asMul] at h
      subst h; simp [wt, wtList_eq_sum]) _ _ h1
    exact LexLt.ofW (by simp [total, rootA, totalList_eq_sum]; omega)
      (by simp [total, rootB, totalList_eq_sum]; omega)
      (by simp [wt, wtList_eq_sum]; omega)
  · cases h

theorem ruleMulZero_lt (N : Num α) {e e' : Expr α} (h : ruleMulZero N e = some e') :
    MuLt e' e := by
  unfold ruleMulZero at h
  split at h
  · split at h
    · obtain rfl := Option.some.inj h
      exact LexLt.ofW (by simp [cA, total, rootA]) (by simp [cB, total, rootB]) (by simp [wt])
    · cases h
  · cases h

theorem ruleMulOnes_lt (N : Num α) {e e' : Expr α} (h : ruleMulOnes N e = some e') :
    MuLt e' e := by
  unfold ruleMulOnes at h
  split at h
  · simp only at h
    split at h
    · cases h
    · rename_i f as hlen
      obtain rfl := Option.some.inj h
      exact LexLt.ofW
        (by simp only [total, rootA, totalList_eq_sum]
            have := sum_filter_le (fun e => !isConstSuch (fun v => N.eq v N.one) e) (total rootA) as
            omega)
        (by simp only [total, rootB, totalList_eq_sum]
            have := sum_filter_le (fun e => !isConstSuch (fun v => N.eq v N.one) e) (total rootB) as
            omega)
        (by
          simp only [wt, wtList_eq_sum]
          have := sum_filter_lt (fun e => !isConstSuch (fun v => N.eq v N.one) e) wt
            (fun e => by have := two_le_wt e; omega) _ hlen
          omega)
  · cases h

theorem negs_sum (f : Expr α → Nat) (g : Expr α → Nat) (hf : ∀ fl u, f (.neg fl u) = g u)
    (as : List (Expr α)) :
    (as.map f).sum = ((as.filter fun e => (asNeg e).isNone).map f).sum +
      ((as.filterMap asNeg).map g).sum :=
  sum_filter_filterMap asNeg f g (by
    intro e v h
    cases e <;> simp [asNeg] at h
    subst h; exact hf _ _) as

theorem ruleMulNegs_lt (N : Num α) {e e' : Expr α} (h : ruleMulNegs N e = some e') :
    MuLt e' e := by
  unfold ruleMulNegs at h
  split at h
  · rename_i f as
    simp only at h
    have hA := negs_sum (total rootA) (total rootA) (by simp [total, rootA]) as
    have hB := negs_sum (total rootB) (total rootB) (by simp [total, rootB]) as
    have hW := negs_sum wt (fun u => 3 * wt u) (by simp [wt]) as
    rw [sum_map_mul] at hW
    have h2 := two_mul_length_le_sum_wt (as.filterMap asNeg)
    split at h
    · cases h
    · rename_i hne
      split at h
      · obtain rfl := Option.some.inj h
        exact LexLt.ofW (by simp [total, rootA, totalList_eq_sum]; omega)
          (by simp [total, rootB, totalList_eq_sum]; omega)
          (by simp [wt, wtList_eq_sum]; omega)
      · obtain rfl := Option.some.inj h
        exact LexLt.ofW (by simp [total, rootA, totalList_eq_sum]; omega)
          (by simp [total, rootB, totalList_eq_sum]; omega)
          (by simp [wt, wtList_eq_sum]; omega)
  · cases h

theorem ruleMulNPows_lt {e e' : Expr α} (h : ruleMulNPows e = some e') : MuLt e' e := by
  unfold ruleMulNPows at h
  split at h
  · simp only [Option.map_eq_some_iff] at h
    obtain ⟨as', h1, rfl⟩ := h
    obtain ⟨hA, hB⟩ := consolidate_lt asNPow (fun a b => a == b)
      (fun n inners => mkNPow (mkMul inners) n)
      (by intro e k u h; cases e <;> simp [asNPow] at h; obtain ⟨rfl, rfl⟩ := h; simp [cA, total, rootA])
      (by intro k vs; simp [total, rootA, totalList_eq_sum])
      (by intro e k u h; cases e <;> simp [asNPow] at h; obtain ⟨rfl, rfl⟩ := h; simp [cB, total, rootB])
      (by intro k vs; simp [total, rootB, totalList_eq_sum]) _ _ h1
    exact LexLt.ofB (by simpa [total, rootA, totalList_eq_sum] using hA)
      (by simpa [total, rootB, totalList_eq_sum] using hB)
  · cases h

theorem ruleMulNRoots_lt {e e' : Expr α} (h : ruleMulNRoots e = some e') : MuLt e' e := by
  unfold ruleMulNRoots at h
  split at h
  · simp only [Option.map_eq_some_iff] at h
    obtain ⟨as', h1, rfl⟩ := h
    obtain ⟨hA, hB⟩ := consolidate_lt asNRoot (fun a b => a == b)
      (fun n inners => mkNRoot (mkMul inners) n)
      (by intro e k u h; cases e <;> simp [asNRoot] at h; obtain ⟨rfl, rfl⟩ := h; simp [cA, total, rootA])
      (by intro k vs; simp [total, rootA, totalList_eq_sum])
      (by intro e k u h; cases e <;> simp [asNRoot] at h; obtain ⟨rfl, rfl⟩ := h; simp [cB, total, rootB])
      (by intro k vs; simp [total, rootB, totalList_eq_sum]) _ _ h1
    exact LexLt.ofB (by simpa [total, rootA, totalList_eq_sum] using hA)
      (by simpa [total, rootB, totalList_eq_sum] using hB)
  · cases h

theorem ruleMulExps_lt (N : Num α) {e e' : Expr α} (h : ruleMulExps N e = some e') :
    MuLt e' e := by
  unfold ruleMulExps at h
  split at h
  · simp only [Option.map_eq_some_iff] at h
    obtain ⟨as', h1, rfl⟩ := h
    obtain ⟨hA, hB⟩ := consolidate_lt asExp N.eq (fun b inners => mkExp (mkAdd inners) b)
      (by intro e k u h; cases e <;> simp [asExp] at h; obtain ⟨rfl, rfl⟩ := h; simp [cA, total, rootA])
      (by intro k vs; simp [total, rootA, totalList_eq_sum])
      (by intro e k u h; cases e <;> simp [asExp] at h; obtain ⟨rfl, rfl⟩ := h; simp [cB, total, rootB])
      (by intro k vs; simp [total, rootB, totalList_eq_sum]) _ _ h1
    exact LexLt.ofB (by simpa [total, rootA, totalList_eq_sum] using hA)
      (by simpa [total, rootB, totalList_eq_sum] using hB)
  · cases h

theorem ruleMulConsts_lt (N : Num α) {e e' : Expr α} (h : ruleMulConsts N e = some e') :
    MuLt e' e := by
  unfold ruleMulConsts at h
  split at h
  · simp only at h
    split at h
    · cases h
    · rename_i f as hlen
      obtain rfl := Option.some.inj h
      have hA := consts_sum (total rootA) 0 (by simp [total, rootA]) as
      have hB := consts_sum (total rootB) 0 (by simp [total, rootB]) as
      have hW := consts_sum wt 2 (by simp [wt]) as
      exact LexLt.ofW (by simp [total, rootA, totalList_eq_sum]; omega)
        (by simp [total, rootB, totalList_eq_sum]; omega)
        (by simp [wt, wtList_eq_sum]; omega)
  · cases h


/-! ### Divide, Reciprocal -/

theorem ruleDivToMul_lt {e e' : Expr α} (h : ruleDivToMul e = some e') : MuLt e' e := by
  unfold ruleDivToMul at h
  split at h
  · obtain rfl := Option.some.inj h
    exact LexLt.ofA (by simp [cA, total, totalList, rootA])
  · cases h

theorem ruleRecipRecip_lt {e e' : Expr α} (h : ruleRecipRecip e = some e') : MuLt e' e := by
  unfold ruleRecipRecip at h
  split at h
  · rename_i f g u
    obtain rfl := Option.some.inj h
    have := two_le_wt u
    exact LexLt.ofW (by simp [cA, total, rootA]) (by simp [cB, total, rootB])
      (by simp only [wt]; nlinarith)
  · cases h

theorem ruleRecipNeg_lt {e e' : Expr α} (h : ruleRecipNeg e = some e') : MuLt e' e := by
  unfold ruleRecipNeg at h
  split at h
  · rename_i f g u
    obtain rfl := Option.some.inj h
    have := two_le_wt u
    exact LexLt.ofW (by simp [cA, total, rootA]) (by simp [cB, total, rootB])
      (by simp only [wt]; nlinarith)
  · cases h

theorem ruleRecipProd_lt {e e' : Expr α} (h : ruleRecipProd e = some e') : MuLt e' e := by
  unfold ruleRecipProd at h
  split at h
  · rename_i f g as
    obtain rfl := Option.some.inj h
    have := sum_recip_le as
    exact LexLt.ofW
      (by simp [total, rootA, totalList_eq_sum, Function.comp_def])
      (by simp [total, rootB, totalList_eq_sum, Function.comp_def])
      (by simp only [wt, wtList_eq_sum, List.map_map, Function.comp_def]; nlinarith)
  · cases h

/-! ### Power -/

theorem rulePowOne_lt (N : Num α) {e e' : Expr α} (h : rulePowOne N e = some e') :
    MuLt e' e := by
  unfold rulePowOne at h
  split at h
  · split at h
    · obtain rfl := Option.some.inj h
      exact LexLt.ofA (by simp [cA, total, rootA]; omega)
    · cases h
  · cases h

theorem rulePowZero_lt (N : Num α) {e e' : Expr α} (h : rulePowZero N e = some e') :
    MuLt e' e := by
  unfold rulePowZero at h
  split at h
  · split at h
    · obtain rfl := Option.some.inj h
      exact LexLt.ofA (by simp [cA, total, rootA])
    · cases h
  · cases h

theorem ruleOnePow_lt (N : Num α) {e e' : Expr α} (h : ruleOnePow N e = some e') :
    MuLt e' e := by
  unfold ruleOnePow at h
  split at h
  · split at h
    · obtain rfl := Option.some.inj h
      exact LexLt.ofA (by simp [cA, total, rootA])
    · cases h
  · cases h

theorem rulePowNat_lt (N : Num α) {e e' : Expr α} (h : rulePowNat N e = some e') :
    MuLt e' e := by
  unfold rulePowNat at h
  split at h
  · split at h
    · split at h
      · obtain rfl := Option.some.inj h
        exact LexLt.ofA (by simp [cA, total, rootA])
      · cases h
    · cases h
  · cases h

theorem rulePowNegOne_lt (N : Num α) {e e' : Expr α} (h : rulePowNegOne N e = some e') :
    MuLt e' e := by
  unfold rulePowNegOne at h
  split at h
  · split at h
    · obtain rfl := Option.some.inj h
      exact LexLt.ofA (by simp [cA, total, rootA]; omega)
    · cases h
  · cases h

theorem rulePowConstBase_lt (N : Num α) {e e' : Expr α} (h : rulePowConstBase N e = some e') :
    MuLt e' e := by
  unfold rulePowConstBase at h
  split at h
  · split at h
    · obtain rfl := Option.some.inj h
      exact LexLt.ofA (by simp [cA, total, rootA])
    · cases h
  · cases h

theorem rulePowPow_lt {e e' : Expr α} (h : rulePowPow e = some e') : MuLt e' e := by
  unfold rulePowPow at h
  split at h
  · obtain rfl := Option.some.inj h
    exact LexLt.ofA (by simp [cA, total, totalList, rootA]; omega)
  · cases h

theorem rulePowNegExp_lt {e e' : Expr α} (h : rulePowNegExp e = some e') : MuLt e' e := by
  unfold rulePowNegExp at h
  split at h
  · rename_i f l g v
    obtain rfl := Option.some.inj h
    have hl := two_le_wt l
    have hv := two_le_wt v
    exact LexLt.ofW (by simp [cA, total, rootA]) (by simp [cB, total, rootB]) (by
      simp only [wt]
      have h4 : 2 ≤ wt l * wt v := by nlinarith
      have e1 : wt l * (3 * wt v) = wt l * wt v * 3 := by ring
      calc _ < (2 ^ (wt l * wt v)) ^ 3 := cube_gt (y := 2 ^ (wt l * wt v)) (by
            have := four_le_two_pow h4; omega)
        _ = 2 ^ (wt l * wt v * 3) := (pow_mul _ _ _).symm
        _ = _ := by rw [e1])
  · cases h

theorem rulePowRecipBase_lt {e e' : Expr α} (h : rulePowRecipBase e = some e') : MuLt e' e := by
  unfold rulePowRecipBase at h
  split at h
  · rename_i f g u r
    obtain rfl := Option.some.inj h
    have hu := two_le_wt u
    have hr := two_le_wt r
    exact LexLt.ofW (by simp [cA, total, rootA]) (by simp [cB, total, rootB]) (by
      simp only [wt]
      have h4 : 2 ≤ wt u * wt r := by nlinarith
      have e1 : wt u * wt r * 3 ≤ (wt u * wt u + 2 * wt u) * wt r := by nlinarith
      calc _ < (2 ^ (wt u * wt r)) ^ 3 := cube_gt (y := 2 ^ (wt u * wt r)) (by have := four_le_two_pow h4; omega)
        _ = 2 ^ (wt u * wt r * 3) := (pow_mul _ _ _).symm
        _ ≤ _ := Nat.pow_le_pow_right (by omega) e1)
  · cases h

/-! ### NthPower -/

theorem ruleNPowOne_lt {e e' : Expr α} (h : ruleNPowOne e = some e') : MuLt e' e := by
  unfold ruleNPowOne at h
  split at h
  · split at h
    · obtain rfl := Option.some.inj h
      exact LexLt.ofB (by simp [cA, total, rootA]) (by simp [cB, total, rootB])
    · cases h
  · cases h

theorem div_gcd_lt {m n : Nat} (hmn : m ≠ n) (hg : Nat.gcd m n ≠ 1) :
    m / Nat.gcd m n + n / Nat.gcd m n < m + n := by
  have hg0 : Nat.gcd m n ≠ 0 := by
    intro h0
    have := Nat.gcd_eq_zero_iff.mp h0
    omega
  have hg2 : 1 < Nat.gcd m n := by omega
  have hm : m / Nat.gcd m n ≤ m := Nat.div_le_self _ _
  have hn : n / Nat.gcd m n ≤ n := Nat.div_le_self _ _
  rcases Nat.eq_zero_or_pos m with rfl | hm0
  · have : 0 < n := by omega
    have := Nat.div_lt_self this hg2
    omega
  · have := Nat.div_lt_self hm0 hg2
    omega

theorem ruleNPowRoot_lt {e e' : Expr α} (h : ruleNPowRoot e = some e') : MuLt e' e := by
  unfold ruleNPowRoot at h
  split at h
  · rename_i f g u m n
    split at h
    · obtain rfl := Option.some.inj h
      exact LexLt.ofB (by simp [cA, total, rootA]) (by simp [cB, total, rootB]; omega)
    · rename_i hmn
      simp only at h
      split at h
      · rename_i hg
        obtain rfl := Option.some.inj h
        have := div_gcd_lt hmn hg
        exact LexLt.ofP (by simp [cA, total, rootA]) (by simp [cB, total, rootB]) (by simp [wt])
          (by simp [cP, total, rootP]; omega)
      · cases h
  · cases h

theorem ruleNPowPow_lt {e e' : Expr α} (h : ruleNPowPow e = some e') : MuLt e' e := by
  unfold ruleNPowPow at h
  split at h
  · obtain rfl := Option.some.inj h
    exact LexLt.ofB (by simp [cA, total, rootA]) (by simp [cB, total, rootB])
  · cases h

theorem ruleNPowNeg_lt {e e' : Expr α} (h : ruleNPowNeg e = some e') : MuLt e' e := by
  unfold ruleNPowNeg at h
  split at h
  · rename_i f g u n
    have := two_le_wt u
    split at h
    · obtain rfl := Option.some.inj h
      exact LexLt.ofW (by simp [cA, total, rootA]) (by simp [cB, total, rootB])
        (by simp only [wt]; nlinarith)
    · obtain rfl := Option.some.inj h
      exact LexLt.ofW (by simp [cA, total, rootA]) (by simp [cB, total, rootB])
        (by simp only [wt]; nlinarith)
  · cases h

theorem ruleNPowRecip_lt {e e' : Expr α} (h : ruleNPowRecip e = some e') : MuLt e' e := by
  unfold ruleNPowRecip at h
  split at h
  · rename_i f g u n
    have := two_le_wt u
    obtain rfl := Option.some.inj h
    exact LexLt.ofW (by simp [cA, total, rootA]) (by simp [cB, total, rootB])
      (by simp only [wt]; nlinarith [Nat.zero_le (wt u * wt u * wt u)])
  · cases h

theorem ruleNPowExp_lt (N : Num α) {e e' : Expr α} (h : ruleNPowExp N e = some e') :
    MuLt e' e := by
  unfold ruleNPowExp at h
  split at h
  · obtain rfl := Option.some.inj h
    exact LexLt.ofB (by simp [cA, total, totalList, rootA]) (by simp [cB, total, totalList, rootB])
  · cases h

/-! ### NthRoot -/

theorem ruleNRootOne_lt {e e' : Expr α} (h : ruleNRootOne e = some e') : MuLt e' e := by
  unfold ruleNRootOne at h
  split at h
  · split at h
    · obtain rfl := Option.some.inj h
      exact LexLt.ofB (by simp [cA, total, rootA]) (by simp [cB, total, rootB])
    · cases h
  · cases h

theorem ruleNRootPow_lt {e e' : Expr α} (h : ruleNRootPow e = some e') : MuLt e' e := by
  unfold ruleNRootPow at h
  split at h
  · rename_i f g u m n
    have := two_le_wt u
    obtain rfl := Option.some.inj h
    exact LexLt.ofW (by simp [cA, total, rootA]) (by simp [cB, total, rootB])
      (by simp only [wt]; nlinarith [Nat.zero_le (wt u * wt u * wt u)])
  · cases h

theorem ruleNRootRoot_lt {e e' : Expr α} (h : ruleNRootRoot e = some e') : MuLt e' e := by
  unfold ruleNRootRoot at h
  split at h
  · obtain rfl := Option.some.inj h
    exact LexLt.ofB (by simp [cA, total, rootA]) (by simp [cB, total, rootB])
  · cases h

theorem ruleNRootNeg_lt {e e' : Expr α} (h : ruleNRootNeg e = some e') : MuLt e' e := by
  unfold ruleNRootNeg at h
  split at h
  · rename_i f g u n
    have := two_le_wt u
    split at h
    · obtain rfl := Option.some.inj h
      exact LexLt.ofW (by simp [cA, total, rootA]) (by simp [cB, total, rootB])
        (by simp only [wt]; nlinarith)
    · cases h
  · cases h

theorem ruleNRootRecip_lt {e e' : Expr α} (h : ruleNRootRecip e = some e') : MuLt e' e := by
  unfold ruleNRootRecip at h
  split at h
  · rename_i f g u n
    have := two_le_wt u
    obtain rfl := Option.some.inj h
    exact LexLt.ofW (by simp [cA, total, rootA]) (by simp [cB, total, rootB])
      (by simp only [wt]; nlinarith [Nat.zero_le (wt u * wt u * wt u)])
  · cases h

/-! ### Exponential, Logarithm, Cosine, Sine -/

theorem ruleExpLog_lt (N : Num α) {e e' : Expr α} (h : ruleExpLog N e = some e') :
    MuLt e' e := by
  unfold ruleExpLog at h
  split at h
  · split at h
    · obtain rfl := Option.some.inj h
      exact LexLt.ofB (by simp [cA, total, rootA]) (by simp [cB, total, rootB]; omega)
    · cases h
  · cases h

theorem ruleExpNeg_lt {e e' : Expr α} (h : ruleExpNeg e = some e') : MuLt e' e := by
  unfold ruleExpNeg at h
  split at h
  · rename_i f g u b
    have hu := two_le_wt u
    obtain rfl := Option.some.inj h
    exact LexLt.ofW (by simp [cA, total, rootA]) (by simp [cB, total, rootB]) (by
      simp only [wt]
      have e1 : 3 * wt u = wt u * 3 := by ring
      calc _ < (2 ^ wt u) ^ 3 := cube_gt (y := 2 ^ wt u) (by
            have := four_le_two_pow hu; omega)
        _ = 2 ^ (wt u * 3) := (pow_mul _ _ _).symm
        _ = _ := by rw [e1])
  · cases h

theorem ruleLogExp_lt (N : Num α) {e e' : Expr α} (h : ruleLogExp N e = some e') :
    MuLt e' e := by
  unfold ruleLogExp at h
  split at h
  · split at h
    · obtain rfl := Option.some.inj h
      exact LexLt.ofB (by simp [cA, total, rootA]) (by simp [cB, total, rootB]; omega)
    · cases h
  · cases h

theorem ruleLogRecip_lt {e e' : Expr α} (h : ruleLogRecip e = some e') : MuLt e' e := by
  unfold ruleLogRecip at h
  split at h
  · rename_i f g u b
    have := two_le_wt u
    obtain rfl := Option.some.inj h
    exact LexLt.ofW (by simp [cA, total, rootA]) (by simp [cB, total, rootB])
      (by simp only [wt]; nlinarith)
  · cases h

theorem ruleLogNPow_lt (N : Num α) {e e' : Expr α} (h : ruleLogNPow N e = some e') :
    MuLt e' e := by
  unfold ruleLogNPow at h
  split at h
  · split at h
    · obtain rfl := Option.some.inj h
      exact LexLt.ofB (by simp [cA, total, totalList, rootA]) (by simp [cB, total, totalList, rootB])
    · cases h
  · cases h

theorem ruleCosNeg_lt {e e' : Expr α} (h : ruleCosNeg e = some e') : MuLt e' e := by
  unfold ruleCosNeg at h
  split at h
  · rename_i f g u
    have := two_le_wt u
    obtain rfl := Option.some.inj h
    exact LexLt.ofW (by simp [cA, total, rootA]) (by simp [cB, total, rootB])
      (by simp only [wt]; omega)
  · cases h

theorem ruleSinNeg_lt {e e' : Expr α} (h : ruleSinNeg e = some e') : MuLt e' e := by
  unfold ruleSinNeg at h
  split at h
  · rename_i f g u
    have := two_le_wt u
    obtain rfl := Option.some.inj h
    exact LexLt.ofW (by simp [cA, total, rootA]) (by simp [cB, total, rootB])
      (by simp only [wt]; nlinarith)
  · cases h

/-! ### all 46 -/

/-- **every rule strictly decreases the measure**, whatever the flags and whatever the numbers -/
theorem rule_decreases (N : Num α) (r : RuleId) {e e' : Expr α} (h : r.apply N e = some e') :
    MuLt e' e := by
  cases r <;> simp only [RuleId.apply] at h
  · exact ruleAddFlatten_lt h
  · exact ruleAddZeros_lt N h
  · exact ruleAddLogs_lt N h
  · exact ruleAddConsts_lt N h
  · exact ruleMinusToSum_lt h
  · exact ruleNegNeg_lt h
  · exact ruleNegSum_lt h
  · exact ruleMulFlatten_lt h
  · exact ruleMulZero_lt N h
  · exact ruleMulOnes_lt N h
  · exact ruleMulNegs_lt N h
  · exact ruleMulNPows_lt h
  · exact ruleMulNRoots_lt h
  · exact ruleMulExps_lt N h
  · exact ruleMulConsts_lt N h
  · exact ruleDivToMul_lt h
  · exact ruleRecipRecip_lt h
  · exact ruleRecipNeg_lt h
  · exact ruleRecipProd_lt h
  · exact rulePowOne_lt N h
  · exact rulePowZero_lt N h
  · exact ruleOnePow_lt N h
  · exact rulePowNat_lt N h
  · exact rulePowNegOne_lt N h
  · exact rulePowConstBase_lt N h
  · exact rulePowPow_lt h
  · exact rulePowNegExp_lt h
  · exact rulePowRecipBase_lt h
  · exact ruleNPowOne_lt h
  · exact ruleNPowRoot_lt h
  · exact ruleNPowPow_lt h
  · exact ruleNPowNeg_lt h
  · exact ruleNPowRecip_lt h
  · exact ruleNPowExp_lt N h
  · exact ruleNRootOne_lt h
  · exact ruleNRootPow_lt h
  · exact ruleNRootRoot_lt h
  · exact ruleNRootNeg_lt h
  · exact ruleNRootRecip_lt h
  · exact ruleExpLog_lt N h
  · exact ruleExpNeg_lt h
  · exact ruleLogExp_lt N h
  · exact ruleLogRecip_lt h
  · exact ruleLogNPow_lt N h
  · exact ruleCosNeg_lt h
  · exact ruleSinNeg_lt h

end Smooth
