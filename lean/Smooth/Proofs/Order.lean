/-
Proofs/Order — nothing depends on the order in which a point's coordinates are written, nor on the
order in which the variable set or an accumulator is listed (C18).

In the model a point is an association list (`Point α`, lookup `Point.get?`), the variable set is the
list `e.vars`, accumulators are association lists (`Acc`, `SAcc`).  Generic in `N : Num α`.

* the point is read only through `Point.get?` : `evalG_congr_point`, `fwdG_congr_point`,
  `revG_congr_point`, `numericPartials_congr_point` (from the stronger statements of Proofs/Coords);
  `Point.get?_perm` : a permutation of a point with distinct names has the same lookups; hence
  `evalG_perm`, `fwdG_perm`, `revG_perm`, `numericPartials_perm`.
* `atNumber` : the single variable name does not depend on how the variable set is listed
  (`singleOf_perm`), and the answer is evaluation at *any* point that gives the variable that value
  (`atNumber_eq_evalG`).
* read-back : `get?_readBack`, `readBack_perm`, `numericPartialsOver_perm`; the accumulator itself is
  used only through its lookups: `revG_congr_acc`.  Same for `syntheticPartials`.
* `symFwd`, the rewrite rules, `stepF`, `normalizeF` take no point, no variable list and no
  accumulator at all: there is no order parameter they could depend on (nothing to prove).
  `occurs_symFwd` / `vars_symFwd_subset` : differentiating creates no variable.
-/
import Smooth.Proofs.Coords

namespace Smooth
open Expr
variable {α : Type}

/-! ### 1. the point is read only through its lookups -/

theorem evalG_congr_point (N : Num α) {p q : Point α} (h : ∀ x, p.get? x = q.get? x)
    (e : Expr α) : evalG N p e = evalG N q e :=
  evalG_congr_occurs N e fun x _ => h x

theorem fwdG_congr_point (N : Num α) {p q : Point α} (h : ∀ x, p.get? x = q.get? x)
    (x : String) (e : Expr α) : fwdG N p x e = fwdG N q x e :=
  fwdG_congr_occurs N x e fun y _ => h y

theorem revG_congr_point (N : Num α) {p q : Point α} (h : ∀ x, p.get? x = q.get? x)
    (e : Expr α) (m : α) (acc : Acc α) : revG N p e m acc = revG N q e m acc :=
  revG_congr_occurs N e (fun y _ => h y) m acc

theorem numericPartials_congr_point (N : Num α) {p q : Point α} (h : ∀ x, p.get? x = q.get? x)
    (e : Expr α) : numericPartials N p e = numericPartials N q e :=
  numericPartials_congr_occurs N e fun y _ => h y

/-- the names of a point's coordinates, in the order written -/
def Point.names (p : Point α) : List String := p.map Prod.fst

/-- Writing the coordinates of a point in another order does not change any lookup (names are
distinct: they are keyword arguments / dictionary keys). -/
theorem Point.get?_perm {p q : Point α} (h : p.Perm q) (hnd : p.names.Nodup) (x : String) :
    p.get? x = q.get? x := by
  induction h with
  | nil => rfl
  | cons a _ ih =>
    obtain ⟨y, v⟩ := a
    simp only [Point.names, List.map_cons, List.nodup_cons] at hnd
    simp only [Point.get?, ih hnd.2]
  | swap a b l =>
    obtain ⟨y, v⟩ := a
    obtain ⟨z, w⟩ := b
    simp only [Point.names, List.map_cons, List.nodup_cons, List.mem_cons, not_or] at hnd
    have hne : z ≠ y := hnd.1.1
    simp only [Point.get?]
    by_cases h1 : y = x
    · have h2 : ¬ z = x := fun h2 => hne (h2.trans h1.symm)
      simp [h1, h2]
    · simp [h1]
  | trans h1 _ ih1 ih2 =>
    rw [ih1 hnd]
    exact ih2 ((h1.map Prod.fst).nodup_iff.mp hnd)

theorem evalG_perm (N : Num α) {p q : Point α} (h : p.Perm q) (hnd : p.names.Nodup)
    (e : Expr α) : evalG N p e = evalG N q e :=
  evalG_congr_point N (Point.get?_perm h hnd) e

theorem fwdG_perm (N : Num α) {p q : Point α} (h : p.Perm q) (hnd : p.names.Nodup)
    (x : String) (e : Expr α) : fwdG N p x e = fwdG N q x e :=
  fwdG_congr_point N (Point.get?_perm h hnd) x e

theorem revG_perm (N : Num α) {p q : Point α} (h : p.Perm q) (hnd : p.names.Nodup)
    (e : Expr α) (m : α) (acc : Acc α) : revG N p e m acc = revG N q e m acc :=
  revG_congr_point N (Point.get?_perm h hnd) e m acc

theorem numericPartials_perm (N : Num α) {p q : Point α} (h : p.Perm q) (hnd : p.names.Nodup)
    (e : Expr α) : numericPartials N p e = numericPartials N q e :=
  numericPartials_congr_point N (Point.get?_perm h hnd) e

/-! ### `Expression.at(number)` -/

/-- `get_the_single_variable_name` as a function of the listed variable set -/
def singleOf (vs : List String) : R String :=
  match vs with
  | [] => pure "whatever"
  | [x] => pure x
  | _ => throw .usage

theorem singleVarName_eq_singleOf (e : Expr α) : singleVarName e = singleOf e.vars := rfl

/-- the single variable name does not depend on the order in which the variable set is listed -/
theorem singleOf_perm {vs vs' : List String} (h : vs'.Perm vs) : singleOf vs' = singleOf vs := by
  match vs, vs', h with
  | [], vs', h => rw [List.perm_nil.mp h]
  | [x], vs', h => rw [List.perm_singleton.mp h]
  | a :: b :: l, vs', h =>
    have hl := h.length_eq
    match vs', hl with
    | c :: d :: l', _ => rfl

/-- `at(number)` is evaluation at *any* point that gives the value to every occurring variable
(there is at most one); in particular it does not matter which other coordinates are there, nor
under which name the value is supplied when no variable occurs. -/
theorem atNumber_eq_evalG (N : Num α) (e : Expr α) (t : α) (p : Point α)
    (hlen : e.vars.length ≤ 1) (hp : ∀ x, Occurs x e → p.get? x = some t) :
    atNumber N e t = evalG N p e := by
  unfold atNumber singleVarName
  match hv : e.vars, hlen with
  | [], _ =>
    simp only [bind, Except.bind, pure, Except.pure]
    apply evalG_congr_occurs
    intro x hx
    have := (mem_vars x e).mpr hx
    rw [hv] at this
    cases this
  | [y], _ =>
    simp only [bind, Except.bind, pure, Except.pure]
    apply evalG_congr_occurs
    intro x hx
    have := (mem_vars x e).mpr hx
    rw [hv, List.mem_singleton] at this
    subst this
    rw [hp x hx]
    simp [Point.get?]

/-- with two or more variables `at(number)` is a usage error, whatever the order -/
theorem atNumber_usage (N : Num α) (e : Expr α) (t : α) (h : 2 ≤ e.vars.length) :
    atNumber N e t = .error .usage := by
  unfold atNumber singleVarName
  match hv : e.vars, h with
  | _ :: _ :: _, _ => rfl

/-! ### 2. read-back order -/

/-- the read-back of `_numeric_partials` over a list of names -/
def readBack (N : Num α) (acc : Acc α) (vs : List String) : Acc α :=
  vs.map fun x => (x, (acc.get? x).getD N.zero)

/-- `numericPartials` with the variable set listed as `vs` -/
def numericPartialsOver (N : Num α) (p : Point α) (e : Expr α) (vs : List String) : R (Acc α) := do
  let acc ← revG N p e N.one []
  pure (readBack N acc vs)

theorem numericPartials_eq_over (N : Num α) (p : Point α) (e : Expr α) :
    numericPartials N p e = numericPartialsOver N p e e.vars := rfl

/-- what is looked up in a read-back: the accumulated value (default `0`) for a listed name,
nothing for any other name — no trace of the position in the list -/
theorem get?_readBack (N : Num α) (acc : Acc α) (vs : List String) (x : String) :
    Acc.get? (readBack N acc vs) x =
      if x ∈ vs then some ((acc.get? x).getD N.zero) else none := by
  induction vs with
  | nil => simp [readBack, Acc.get?, Point.get?]
  | cons y vs ih =>
    have ih' : Point.get? (List.map (fun x => (x, (Acc.get? acc x).getD N.zero)) vs) x =
        if x ∈ vs then some ((acc.get? x).getD N.zero) else none := ih
    simp only [readBack, Acc.get?, List.map_cons, Point.get?, List.mem_cons]
    by_cases h : y = x
    · subst h; simp
    · have h' : ¬ x = y := fun h' => h h'.symm
      simp only [beq_iff_eq, h, if_false, h', false_or]
      exact ih'

theorem readBack_congr_mem (N : Num α) (acc : Acc α) {vs vs' : List String}
    (h : ∀ x, x ∈ vs' ↔ x ∈ vs) (x : String) :
    Acc.get? (readBack N acc vs') x = Acc.get? (readBack N acc vs) x := by
  simp only [get?_readBack, h x]

/-- listing the variable set in another order gives the same value for every name -/
theorem readBack_perm (N : Num α) (acc : Acc α) {vs vs' : List String} (h : vs'.Perm vs)
    (x : String) : Acc.get? (readBack N acc vs') x = Acc.get? (readBack N acc vs) x :=
  readBack_congr_mem N acc (fun _ => h.mem_iff) x

theorem map_bind_pure {β γ δ : Type} (r : R β) (f : β → γ) (g : γ → δ) :
    Except.map g (r >>= fun a => pure (f a)) = Except.map (fun a => g (f a)) r := by
  cases r <;> rfl

/-- **Read-back order.**  Whatever the order in which the variable set is listed, the outcome is
the same error or a dictionary with the same entry for every name. -/
theorem numericPartialsOver_perm (N : Num α) (p : Point α) (e : Expr α) {vs' : List String}
    (h : vs'.Perm e.vars) (x : String) :
    (numericPartialsOver N p e vs').map (fun d => Acc.get? d x) =
      (numericPartials N p e).map (fun d => Acc.get? d x) := by
  rw [numericPartials_eq_over]
  unfold numericPartialsOver
  rw [map_bind_pure, map_bind_pure]
  congr 1
  funext acc
  exact readBack_perm N acc h x

/-- the entries of the answer of `numericPartials` -/
theorem numericPartials_get? (N : Num α) (p : Point α) (e : Expr α) {acc d : Acc α}
    (hacc : revG N p e N.one [] = .ok acc) (hd : numericPartials N p e = .ok d) (x : String) :
    Acc.get? d x = if x ∈ e.vars then some ((acc.get? x).getD N.zero) else none := by
  simp only [numericPartials, hacc, bind, Except.bind, pure, Except.pure] at hd
  injection hd with hd
  subst hd
  exact get?_readBack N acc e.vars x

/-! #### the accumulator is used only through its lookups -/

/-- the two accumulators have the same entry for every name (they may list them in any order) -/
def AccEq (a b : Acc α) : Prop := ∀ x, Acc.get? a x = Acc.get? b x

/-- same error, or accumulators with the same entries -/
def AccRel : R (Acc α) → R (Acc α) → Prop
  | .ok a, .ok b => AccEq a b
  | .error e, .error e' => e = e'
  | _, _ => False

theorem AccRel.refl (r : R (Acc α)) : AccRel r r := by
  cases r with
  | error e => exact rfl
  | ok a => exact fun _ => rfl

theorem AccRel.bind {r s : R (Acc α)} {k l : Acc α → R (Acc α)} (h : AccRel r s)
    (hk : ∀ a b, AccEq a b → AccRel (k a) (l b)) : AccRel (r >>= k) (s >>= l) := by
  cases r with
  | error e =>
    cases s with
    | error e' => exact h
    | ok b => exact h.elim
  | ok a =>
    cases s with
    | error e' => exact h.elim
    | ok b => exact hk a b h

theorem AccRel.bind_same {β : Type} (r : R β) {k l : β → R (Acc α)}
    (hk : ∀ a, AccRel (k a) (l a)) : AccRel (r >>= k) (r >>= l) := by
  cases r with
  | error e => exact rfl
  | ok a => exact hk a

theorem Acc.get?_set (acc : Acc α) (x : String) (v : α) (y : String) :
    Acc.get? (acc.set x v) y = if x = y then some v else Acc.get? acc y := by
  induction acc with
  | nil =>
    by_cases h : x = y <;> simp [Acc.set, Acc.get?, Point.get?, h]
  | cons a rest ih =>
    obtain ⟨z, w⟩ := a
    have ih' : Point.get? (Acc.set rest x v) y = if x = y then some v else Point.get? rest y := ih
    simp only [Acc.set, Acc.get?]
    by_cases hzx : z = x
    · subst hzx
      by_cases hzy : z = y <;> simp [Point.get?, hzy]
    · by_cases hzy : z = y
      · subst hzy
        have hxy : ¬ x = z := fun h => hzx h.symm
        simp [Point.get?, hzx, hxy]
      · simp only [beq_iff_eq, hzx, if_false, Point.get?, hzy]
        exact ih'

theorem AccEq.addTo (N : Num α) {a b : Acc α} (h : AccEq a b) (x : String) (c : α) :
    AccEq (a.addTo N x c) (b.addTo N x c) := by
  intro y
  simp only [Acc.addTo, Acc.get?_set, h x, h y]

mutual
theorem revG_congr_acc (N : Num α) (p : Point α) : ∀ (e : Expr α) (m : α) (a b : Acc α),
    AccEq a b → AccRel (revG N p e m a) (revG N p e m b)
  | .const _ _, _, _, _, h => h
  | .var _ y, m, _, _, h => AccEq.addTo N h y m
  | .add _ as, m, a, b, h => by
    simp only [revG]; exact revListG_congr_acc N p as m a b h
  | .mul _ as, m, a, b, h => by
    simp only [revG]
    exact AccRel.bind_same _ fun vs => revMulG_congr_acc N p as vs m 0 a b h
  | .minus _ l r, m, a, b, h => by
    simp only [revG]
    exact AccRel.bind (revG_congr_acc N p l m a b h) fun a' b' h' =>
      revG_congr_acc N p r _ a' b' h'
  | .div _ l r, m, a, b, h => by
    simp only [revG]
    refine AccRel.bind_same _ fun _ => AccRel.bind_same _ fun _ => AccRel.bind_same _ fun _ =>
      AccRel.bind_same _ fun ml => AccRel.bind_same _ fun mr => ?_
    exact AccRel.bind (revG_congr_acc N p l ml a b h) fun a' b' h' =>
      revG_congr_acc N p r mr a' b' h'
  | .pow f l r, m, a, b, h => by
    simp only [revG]
    refine AccRel.bind_same _ fun c => ?_
    cases c with
    | true =>
      simp only [if_true]
      exact AccRel.bind_same _ fun _ => h
    | false =>
      simp only [Bool.false_eq_true, if_false]
      refine AccRel.bind_same _ fun _ => AccRel.bind_same _ fun _ => AccRel.bind_same _ fun _ =>
        AccRel.bind_same _ fun ml => AccRel.bind_same _ fun mr => ?_
      exact AccRel.bind (revG_congr_acc N p l ml a b h) fun a' b' h' =>
        revG_congr_acc N p r mr a' b' h'
  | .neg f u, m, a, b, h => by
    simp only [revG]
    exact AccRel.bind_same _ fun _ => AccRel.bind_same _ fun _ => AccRel.bind_same _ fun m' =>
      revG_congr_acc N p u m' a b h
  | .recip f u, m, a, b, h => by
    simp only [revG]
    exact AccRel.bind_same _ fun _ => AccRel.bind_same _ fun _ => AccRel.bind_same _ fun m' =>
      revG_congr_acc N p u m' a b h
  | .npow f u n, m, a, b, h => by
    simp only [revG]
    exact AccRel.bind_same _ fun _ => AccRel.bind_same _ fun _ => AccRel.bind_same _ fun m' =>
      revG_congr_acc N p u m' a b h
  | .nroot f u n, m, a, b, h => by
    simp only [revG]
    exact AccRel.bind_same _ fun _ => AccRel.bind_same _ fun _ => AccRel.bind_same _ fun m' =>
      revG_congr_acc N p u m' a b h
  | .exp f u c, m, a, b, h => by
    simp only [revG]
    exact AccRel.bind_same _ fun _ => AccRel.bind_same _ fun _ => AccRel.bind_same _ fun m' =>
      revG_congr_acc N p u m' a b h
  | .log f u c, m, a, b, h => by
    simp only [revG]
    exact AccRel.bind_same _ fun _ => AccRel.bind_same _ fun _ => AccRel.bind_same _ fun m' =>
      revG_congr_acc N p u m' a b h
  | .cos f u, m, a, b, h => by
    simp only [revG]
    exact AccRel.bind_same _ fun _ => AccRel.bind_same _ fun _ => AccRel.bind_same _ fun m' =>
      revG_congr_acc N p u m' a b h
  | .sin f u, m, a, b, h => by
    simp only [revG]
    exact AccRel.bind_same _ fun _ => AccRel.bind_same _ fun _ => AccRel.bind_same _ fun m' =>
      revG_congr_acc N p u m' a b h
theorem revListG_congr_acc (N : Num α) (p : Point α) : ∀ (es : List (Expr α)) (m : α)
    (a b : Acc α), AccEq a b → AccRel (revListG N p es m a) (revListG N p es m b)
  | [], _, _, _, h => h
  | e :: es, m, a, b, h => by
    simp only [revListG]
    exact AccRel.bind (revG_congr_acc N p e m a b h) fun a' b' h' =>
      revListG_congr_acc N p es m a' b' h'
theorem revMulG_congr_acc (N : Num α) (p : Point α) : ∀ (es : List (Expr α)) (vs : List α)
    (m : α) (i : Nat) (a b : Acc α), AccEq a b →
      AccRel (revMulG N p vs m i es a) (revMulG N p vs m i es b)
  | [], _, _, _, _, _, h => h
  | e :: es, vs, m, i, a, b, h => by
    simp only [revMulG]
    exact AccRel.bind (revG_congr_acc N p e _ a b h) fun a' b' h' =>
      revMulG_congr_acc N p es vs m (i + 1) a' b' h'
end

/-! #### symbolic reverse mode: the same read-back -/

/-- the read-back of `_synthetic_partials` over a list of names -/
def symReadBack (N : Num α) (acc : SAcc α) (vs : List String) : SAcc α :=
  vs.map fun x => (x, (acc.get? x).getD (mkConst N.zero))

/-- `syntheticPartials` with the variable set listed as `vs` -/
def syntheticPartialsOver (N : Num α) (e : Expr α) (vs : List String) : SAcc α :=
  symReadBack N (symRev N e (mkConst N.one) []) vs

theorem syntheticPartials_eq_over (N : Num α) (e : Expr α) :
    syntheticPartials N e = syntheticPartialsOver N e e.vars := rfl

theorem get?_symReadBack (N : Num α) (acc : SAcc α) (vs : List String) (x : String) :
    SAcc.get? (symReadBack N acc vs) x =
      if x ∈ vs then some ((acc.get? x).getD (mkConst N.zero)) else none := by
  induction vs with
  | nil => simp [symReadBack, SAcc.get?]
  | cons y vs ih =>
    have ih' : SAcc.get? (List.map (fun x => (x, (SAcc.get? acc x).getD (mkConst N.zero))) vs) x =
        if x ∈ vs then some ((acc.get? x).getD (mkConst N.zero)) else none := ih
    simp only [symReadBack, List.map_cons, SAcc.get?, List.mem_cons]
    by_cases h : y = x
    · subst h; simp
    · have h' : ¬ x = y := fun h' => h h'.symm
      simp only [beq_iff_eq, h, if_false, h', false_or]
      exact ih'

/-- **Read-back order, symbolic.**  Listing the variable set in another order gives the same
expression for every name. -/
theorem syntheticPartialsOver_perm (N : Num α) (e : Expr α) {vs' : List String}
    (h : vs'.Perm e.vars) (x : String) :
    SAcc.get? (syntheticPartialsOver N e vs') x = SAcc.get? (syntheticPartials N e) x := by
  rw [syntheticPartials_eq_over]
  simp only [syntheticPartialsOver, get?_symReadBack, h.mem_iff]

/-! ### 3. differentiating creates no variable -/

theorem occursList_iff (x : String) (es : List (Expr α)) :
    OccursList x es ↔ ∃ e ∈ es, Occurs x e := by
  induction es with
  | nil => simp [OccursList]
  | cons e es ih => simp [OccursList, ih]

theorem occursList_eraseIdx (x : String) (es : List (Expr α)) (i : Nat)
    (h : OccursList x (es.eraseIdx i)) : OccursList x es := by
  rw [occursList_iff] at h ⊢
  obtain ⟨e, he, hx⟩ := h
  exact ⟨e, List.mem_of_mem_eraseIdx he, hx⟩

theorem occurs_unarySymFormula (N : Num α) (x : String) (e m : Expr α)
    (h : Occurs x (unarySymFormula N e m)) : Occurs x m ∨ Occurs x e := by
  cases e with
  | neg f u => simp only [unarySymFormula, Occurs] at h; exact Or.inl h
  | recip f u => simp only [unarySymFormula, Occurs] at h ⊢; exact h
  | npow f u n =>
    simp only [unarySymFormula] at h
    split at h
    · exact Or.inl h
    · simp only [Occurs, OccursList] at h ⊢; tauto
  | nroot f u n =>
    simp only [unarySymFormula] at h
    split at h
    · exact Or.inl h
    · simp only [Occurs, OccursList] at h ⊢; tauto
  | exp f u b =>
    simp only [unarySymFormula] at h
    split at h
    · simp only [Occurs] at h
    · split at h
      · simp only [Occurs, OccursList] at h ⊢; tauto
      · simp only [Occurs, OccursList] at h ⊢; tauto
  | log f u b =>
    simp only [unarySymFormula] at h
    split at h
    · simp only [Occurs] at h ⊢; tauto
    · simp only [Occurs, OccursList] at h ⊢; tauto
  | cos f u => simp only [unarySymFormula, Occurs, OccursList] at h ⊢; tauto
  | sin f u => simp only [unarySymFormula, Occurs, OccursList] at h ⊢; tauto
  | _ => exact Or.inl h

theorem occursList_symMulTermsGo (x : String) (as : List (Expr α)) :
    ∀ (i : Nat) (ds : List (Expr α)), OccursList x (symMulTermsGo as i ds) →
      OccursList x ds ∨ OccursList x as
  | _, [], h => by simp [symMulTermsGo, OccursList] at h
  | i, d :: ds, h => by
    simp only [symMulTermsGo, OccursList, Occurs] at h ⊢
    rcases h with (h | h) | h
    · exact Or.inl (Or.inl h)
    · exact Or.inr (occursList_eraseIdx x as i h)
    · rcases occursList_symMulTermsGo x as (i + 1) ds h with h | h
      · exact Or.inl (Or.inr h)
      · exact Or.inr h

mutual
theorem occurs_symFwd (N : Num α) (x x' : String) : ∀ e : Expr α,
    Occurs x' (symFwd N x e) → Occurs x' e
  | .const _ _, h => by simp only [symFwd, Occurs] at h
  | .var _ y, h => by
    simp only [symFwd] at h
    split at h <;> simp only [Occurs] at h
  | .add _ as, h => by
    simp only [symFwd, Occurs] at h ⊢
    exact occursList_symFwdList N x x' as h
  | .mul _ as, h => by
    simp only [symFwd, Occurs, symMulTerms] at h ⊢
    rcases occursList_symMulTermsGo x' as 0 _ h with h | h
    · exact occursList_symFwdList N x x' as h
    · exact h
  | .minus _ l r, h => by
    simp only [symFwd, Occurs] at h ⊢
    exact h.imp (occurs_symFwd N x x' l) (occurs_symFwd N x x' r)
  | .div _ l r, h => by
    have h1 := occurs_symFwd N x x' l
    have h2 := occurs_symFwd N x x' r
    simp only [symFwd, divSymLeft, divSymRight, Occurs, OccursList] at h ⊢
    tauto
  | .pow f l r, h => by
    have h1 := occurs_symFwd N x x' l
    have h2 := occurs_symFwd N x x' r
    simp only [symFwd, powSymLeft, powSymRight, Occurs, OccursList] at h ⊢
    tauto
  | .neg f u, h => by
    simp only [symFwd] at h
    rcases occurs_unarySymFormula N x' _ _ h with h | h
    · simpa only [Occurs] using occurs_symFwd N x x' u h
    · exact h
  | .recip f u, h => by
    simp only [symFwd] at h
    rcases occurs_unarySymFormula N x' _ _ h with h | h
    · simpa only [Occurs] using occurs_symFwd N x x' u h
    · exact h
  | .npow f u n, h => by
    simp only [symFwd] at h
    rcases occurs_unarySymFormula N x' _ _ h with h | h
    · simpa only [Occurs] using occurs_symFwd N x x' u h
    · exact h
  | .nroot f u n, h => by
    simp only [symFwd] at h
    rcases occurs_unarySymFormula N x' _ _ h with h | h
    · simpa only [Occurs] using occurs_symFwd N x x' u h
    · exact h
  | .exp f u b, h => by
    simp only [symFwd] at h
    rcases occurs_unarySymFormula N x' _ _ h with h | h
    · simpa only [Occurs] using occurs_symFwd N x x' u h
    · exact h
  | .log f u b, h => by
    simp only [symFwd] at h
    rcases occurs_unarySymFormula N x' _ _ h with h | h
    · simpa only [Occurs] using occurs_symFwd N x x' u h
    · exact h
  | .cos f u, h => by
    simp only [symFwd] at h
    rcases occurs_unarySymFormula N x' _ _ h with h | h
    · simpa only [Occurs] using occurs_symFwd N x x' u h
    · exact h
  | .sin f u, h => by
    simp only [symFwd] at h
    rcases occurs_unarySymFormula N x' _ _ h with h | h
    · simpa only [Occurs] using occurs_symFwd N x x' u h
    · exact h
theorem occursList_symFwdList (N : Num α) (x x' : String) : ∀ es : List (Expr α),
    OccursList x' (symFwdList N x es) → OccursList x' es
  | [], h => by simp only [symFwdList, OccursList] at h
  | e :: es, h => by
    simp only [symFwdList, OccursList] at h ⊢
    exact h.imp (occurs_symFwd N x x' e) (occursList_symFwdList N x x' es)
end

/-- the symbolic partial derivative mentions only variables of the expression -/
theorem vars_symFwd_subset (N : Num α) (x : String) (e : Expr α) {x' : String}
    (h : x' ∈ (symFwd N x e).vars) : x' ∈ e.vars :=
  (mem_vars x' e).mpr (occurs_symFwd N x x' e ((mem_vars x' _).mp h))

end Smooth
