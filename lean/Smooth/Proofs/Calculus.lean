/-
Proofs/Calculus — the analysis behind forward and reverse mode: the denotation as a function of one
coordinate, derivatives of list sums and products in the shape the code computes them, and the
derivative of the sign-keeping root on both half-lines.
-/
import Mathlib.Analysis.SpecialFunctions.Pow.Deriv
import Mathlib.Analysis.SpecialFunctions.Trigonometric.Deriv
import Mathlib.Analysis.SpecialFunctions.Log.Deriv
import Mathlib.Analysis.Calculus.Deriv.Inverse
import Smooth.Proofs.Eval
import Smooth.Proofs.Vars
import Smooth.Proofs.SRoot

namespace Smooth
open Classical Filter Topology

/-- the valuation with coordinate `x` moved to `t` -/
noncomputable def upd (ρ : String → ℝ) (x : String) (t : ℝ) : String → ℝ := Function.update ρ x t

@[simp] theorem upd_self (ρ : String → ℝ) (x : String) : upd ρ x (ρ x) = ρ := by
  simp [upd]

theorem upd_same (ρ : String → ℝ) (x : String) (t : ℝ) : upd ρ x t x = t := by simp [upd]

theorem upd_other (ρ : String → ℝ) {x y : String} (t : ℝ) (h : y ≠ x) : upd ρ x t y = ρ y := by
  simp [upd, Function.update_of_ne h]

/-! ### the denotation reads only occurring variables -/

mutual
theorem den_congr {ρ ρ' : String → ℝ} : ∀ e : Expr ℝ, (∀ y, Occurs y e → ρ y = ρ' y) →
    den ρ e = den ρ' e
  | .const _ _, _ => rfl
  | .var _ y, h => by simpa [den] using h y (by simp [Occurs])
  | .add _ as, h => by simp only [den]; rw [denList_congr as (by simpa [Occurs] using h)]
  | .mul _ as, h => by simp only [den]; rw [denList_congr as (by simpa [Occurs] using h)]
  | .minus _ l r, h => by
    simp only [den]
    rw [den_congr l (fun y hy => h y (Or.inl hy)), den_congr r (fun y hy => h y (Or.inr hy))]
  | .div _ l r, h => by
    simp only [den]
    rw [den_congr l (fun y hy => h y (Or.inl hy)), den_congr r (fun y hy => h y (Or.inr hy))]
  | .pow _ l r, h => by
    simp only [den]
    rw [den_congr l (fun y hy => h y (Or.inl hy)), den_congr r (fun y hy => h y (Or.inr hy))]
  | .neg _ u, h => by simp only [den]; rw [den_congr u h]
  | .recip _ u, h => by simp only [den]; rw [den_congr u h]
  | .npow _ u _, h => by simp only [den]; rw [den_congr u h]
  | .nroot _ u _, h => by simp only [den]; rw [den_congr u h]
  | .exp _ u _, h => by simp only [den]; rw [den_congr u h]
  | .log _ u _, h => by simp only [den]; rw [den_congr u h]
  | .cos _ u, h => by simp only [den]; rw [den_congr u h]
  | .sin _ u, h => by simp only [den]; rw [den_congr u h]
theorem denList_congr {ρ ρ' : String → ℝ} : ∀ es : List (Expr ℝ),
    (∀ y, OccursList y es → ρ y = ρ' y) → denList ρ es = denList ρ' es
  | [], _ => rfl
  | e :: es, h => by
    simp only [denList]
    rw [den_congr e (fun y hy => h y (Or.inl hy)), denList_congr es (fun y hy => h y (Or.inr hy))]
end

/-- a variable that does not occur does not matter -/
theorem den_upd_of_not_occurs (ρ : String → ℝ) {x : String} (e : Expr ℝ) (h : ¬ Occurs x e) (t : ℝ) :
    den (upd ρ x t) e = den ρ e := by
  apply den_congr
  intro y hy
  have : y ≠ x := fun hyx => h (hyx ▸ hy)
  exact upd_other ρ t this

theorem den_upd_of_vars_nil (ρ : String → ℝ) (x : String) (e : Expr ℝ) (h : e.vars = []) (t : ℝ) :
    den (upd ρ x t) e = den ρ e := by
  apply den_upd_of_not_occurs
  intro hx
  have := (mem_vars x e).mpr hx
  rw [h] at this
  simp at this

theorem denList_eq_map (ρ : String → ℝ) (es : List (Expr ℝ)) : denList ρ es = es.map (den ρ) := by
  induction es with
  | nil => rfl
  | cons e es ih => simp [denList, ih]

/-! ### sums and products of lists -/

/-- `HasDerivAt` along two lists -/
def DerivL (fs : List (ℝ → ℝ)) (ds : List ℝ) (x : ℝ) : Prop :=
  List.Forall₂ (fun f d => HasDerivAt f d x) fs ds

theorem hasDerivAt_list_sum {fs : List (ℝ → ℝ)} {ds : List ℝ} {x : ℝ} (h : DerivL fs ds x) :
    HasDerivAt (fun t => (fs.map fun f => f t).sum) ds.sum x := by
  induction h with
  | nil => simpa using hasDerivAt_const x (0 : ℝ)
  | cons hf _ ih =>
    simp only [List.map_cons, List.sum_cons]
    exact hf.add ih

/-- the derivative of a product of a list, in the recursive shape `d·Πrest + v·(rest)'` -/
def prodDeriv : List ℝ → List ℝ → ℝ
  | d :: ds, v :: vs => d * vs.prod + v * prodDeriv ds vs
  | _, _ => 0

theorem hasDerivAt_list_prod {fs : List (ℝ → ℝ)} {ds : List ℝ} {x : ℝ} (h : DerivL fs ds x) :
    HasDerivAt (fun t => (fs.map fun f => f t).prod) (prodDeriv ds (fs.map fun f => f x)) x := by
  induction h with
  | nil => simpa [prodDeriv] using hasDerivAt_const x (1 : ℝ)
  | cons hf _ ih =>
    simp only [List.map_cons, List.prod_cons, prodDeriv]
    exact hf.mul ih

/-- the code's sum over `i` of `multiply(d_i, *values_without_i)` is that derivative -/
theorem mulTermsGo_sum (pre : List ℝ) : ∀ (ds vs : List ℝ), ds.length = vs.length →
    (mulTermsGo realNum (pre ++ vs) pre.length ds).sum = pre.prod * prodDeriv ds vs
  | [], [], _ => by simp [mulTermsGo, prodDeriv]
  | [], _ :: _, h => by simp at h
  | _ :: _, [], h => by simp at h
  | d :: ds, v :: vs, h => by
    have hlen : ds.length = vs.length := by simpa using h
    have ih := mulTermsGo_sum (pre ++ [v]) ds vs hlen
    simp only [List.append_assoc, List.singleton_append, List.length_append, List.length_singleton]
      at ih
    simp only [mulTermsGo, List.sum_cons, mfMultiply_real, List.prod_cons, prodDeriv]
    rw [ih]
    have : (pre ++ v :: vs).eraseIdx pre.length = pre ++ vs := by
      rw [List.eraseIdx_append_of_length_le (le_refl _)]
      simp
    rw [this]
    simp only [List.prod_append, List.prod_cons, List.prod_nil, mul_one]
    ring

theorem mulTerms_sum (ds vs : List ℝ) (h : ds.length = vs.length) :
    mfAdd realNum (mulTerms realNum ds vs) = prodDeriv ds vs := by
  have := mulTermsGo_sum [] ds vs h
  simpa [mulTerms] using this

/-! ### the sign-keeping root -/

theorem sroot_pow' {n : ℕ} (hn : 1 ≤ n) (x : ℝ) (h : 0 ≤ x ∨ n % 2 = 1) : sroot n x ^ n = x := by
  have hn0 : (n : ℝ) ≠ 0 := by exact_mod_cast (by omega : n ≠ 0)
  unfold sroot
  split
  · next hx =>
    rw [← Real.rpow_natCast, ← Real.rpow_mul hx]
    simp [hn0]
  · next hx =>
    have hodd : n % 2 = 1 := by
      rcases h with h | h
      · exact absurd h hx
      · exact h
    have hneg : 0 ≤ -x := by linarith [not_le.mp hx]
    have : Odd n := Nat.odd_iff.mpr hodd
    rw [Odd.neg_pow this, ← Real.rpow_natCast, ← Real.rpow_mul hneg]
    simp [hn0]

theorem continuousAt_sroot {n : ℕ} {a : ℝ} (ha : a ≠ 0) : ContinuousAt (sroot n) a := by
  rcases lt_or_gt_of_ne ha with h | h
  · have hev : sroot n =ᶠ[𝓝 a] fun x => -((-x) ^ ((1 : ℝ) / n)) := by
      filter_upwards [Iio_mem_nhds h] with x hx
      exact sroot_of_neg _ hx
    refine ContinuousAt.congr ?_ hev.symm
    have h1 : ContinuousAt (fun x : ℝ => -x) a := continuous_neg.continuousAt
    have h2 : ContinuousAt (fun y : ℝ => y ^ ((1 : ℝ) / n)) (-a) :=
      Real.continuousAt_rpow_const _ _ (Or.inl (by linarith [neg_pos.mpr h] : (-a) ≠ 0))
    exact (h2.comp (f := fun x : ℝ => -x) h1).neg
  · have hev : sroot n =ᶠ[𝓝 a] fun x => x ^ ((1 : ℝ) / n) := by
      filter_upwards [Ioi_mem_nhds h] with x hx
      exact sroot_of_nonneg _ (le_of_lt hx)
    exact ContinuousAt.congr (Real.continuousAt_rpow_const _ _ (Or.inl ha)) hev.symm

/-- derivative of the n-th root in the form the code uses: `1 / (n · (ⁿ√a)ⁿ⁻¹)`, on both half-lines -/
theorem hasDerivAt_sroot {n : ℕ} (hn : 1 ≤ n) {a : ℝ} (hok : RootOK n a) (ha : a ≠ 0) :
    HasDerivAt (sroot n) ((n * sroot n a ^ (n - 1))⁻¹) a := by
  have hf : HasDerivAt (fun y : ℝ => y ^ n) (n * sroot n a ^ (n - 1)) (sroot n a) := by
    simpa using hasDerivAt_pow n (sroot n a)
  have hne : (n : ℝ) * sroot n a ^ (n - 1) ≠ 0 := by
    have h1 : (n : ℝ) ≠ 0 := by exact_mod_cast (by omega : n ≠ 0)
    exact mul_ne_zero h1 (pow_ne_zero _ (sroot_ne_zero _ ha))
  refine HasDerivAt.of_local_left_inverse (continuousAt_sroot ha) hf hne ?_
  rcases lt_or_gt_of_ne ha with h | h
  · -- a < 0 : n is odd
    have hodd : n % 2 = 1 := by
      by_contra hne2
      have : n % 2 = 0 := by omega
      exact absurd (hok.2 this) (not_le.mpr h)
    exact Filter.Eventually.of_forall fun y => sroot_pow' hn y (Or.inr hodd)
  · filter_upwards [Ioi_mem_nhds h] with y hy
    exact sroot_pow' hn y (Or.inl (le_of_lt hy))

end Smooth
