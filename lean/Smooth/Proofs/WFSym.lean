/-
Proofs/WFSym — symbolic differentiation keeps well-formedness: the derivative expressions built by
`symFwd` (forward symbolic mode) and by `symRev`/`syntheticPartials` (reverse symbolic mode) of a
well-formed expression are well formed.
-/
import Smooth.Proofs.Eval
import Smooth.Proofs.Construct

namespace Smooth
open Classical Expr

/-- `math.e` is a legal logarithm base -/
theorem WF_log_e {u : Expr ℝ} (f : Flags) (hu : WF u) : WF (.log f u realNum.e) :=
  ⟨Real.exp_pos 1, exp_one_ne_one, hu⟩

theorem WFList_eraseIdx {as : List (Expr ℝ)} (h : WFList as) (i : ℕ) : WFList (as.eraseIdx i) :=
  WFList_iff_forall.mpr fun e he => WFList_iff_forall.mp h e (List.mem_of_mem_eraseIdx he)

/-! ### the local derivative formulas -/

theorem WF_unarySymFormula {e m : Expr ℝ} (he : WF e) (hm : WF m) :
    WF (unarySymFormula realNum e m) := by
  cases e with
  | const f v => exact hm
  | var f x => exact hm
  | add f as => exact hm
  | minus f l r => exact hm
  | mul f as => exact hm
  | div f l r => exact hm
  | pow f l r => exact hm
  | neg f u => exact hm
  | recip f u =>
    have hu : WF u := he
    exact ⟨hm, by decide, hu⟩
  | npow f u n =>
    obtain ⟨hn, hu⟩ := he
    simp only [unarySymFormula]
    split
    · exact hm
    · next h1 => exact ⟨trivial, ⟨by omega, hu⟩, hm, trivial⟩
  | nroot f u n =>
    have he' := he
    obtain ⟨hn, hu⟩ := he
    simp only [unarySymFormula]
    split
    · exact hm
    · next h1 => exact ⟨hm, trivial, ⟨by omega, he'⟩, trivial⟩
  | exp f u b =>
    have he' := he
    obtain ⟨hb, hu⟩ := he
    simp only [unarySymFormula]
    split
    · trivial
    · split
      · exact ⟨he', hm, trivial⟩
      · exact ⟨WF_log_e _ trivial, he', hm, trivial⟩
  | log f u b =>
    obtain ⟨hb, hb1, hu⟩ := he
    simp only [unarySymFormula]
    split
    · exact ⟨hm, hu⟩
    · exact ⟨hm, WF_log_e _ trivial, hu, trivial⟩
  | cos f u =>
    have hu : WF u := he
    exact ⟨hu, hm, trivial⟩
  | sin f u =>
    have hu : WF u := he
    exact ⟨hu, hm, trivial⟩

theorem WF_divSymLeft {l r m : Expr ℝ} (hr : WF r) (hm : WF m) : WF (divSymLeft l r m) :=
  ⟨hm, hr⟩

theorem WF_divSymRight {l r m : Expr ℝ} (hl : WF l) (hr : WF r) (hm : WF m) :
    WF (divSymRight l r m) :=
  ⟨⟨hl, by decide, hr⟩, hm, trivial⟩

theorem WF_powSymLeft {l r m : Expr ℝ} (hl : WF l) (hr : WF r) (hm : WF m) :
    WF (powSymLeft realNum l r m) :=
  ⟨hr, ⟨hl, hr, trivial⟩, hm, trivial⟩

theorem WF_powSymRight {self l m : Expr ℝ} (hs : WF self) (hl : WF l) (hm : WF m) :
    WF (powSymRight realNum self l m) :=
  ⟨WF_log_e _ hl, hs, hm, trivial⟩

theorem WFList_symMulTermsGo {as : List (Expr ℝ)} (has : WFList as) :
    ∀ (i : ℕ) (ds : List (Expr ℝ)), WFList ds → WFList (symMulTermsGo as i ds)
  | _, [], _ => trivial
  | i, _ :: ds, hds =>
    ⟨⟨hds.1, WFList_eraseIdx has i⟩, WFList_symMulTermsGo has (i + 1) ds hds.2⟩

/-! ### forward symbolic mode -/

mutual
/-- `_synthetic_partial` of a well-formed expression is well formed -/
theorem WF_symFwd (x : String) : ∀ e : Expr ℝ, WF e → WF (symFwd realNum x e)
  | .const _ _, _ => trivial
  | .var _ y, _ => by
    simp only [symFwd]
    split <;> trivial
  | .add _ as, h => WF_symFwdList x as h
  | .minus _ l r, h => ⟨WF_symFwd x l h.1, WF_symFwd x r h.2⟩
  | .mul _ as, h => WFList_symMulTermsGo h 0 _ (WF_symFwdList x as h)
  | .div _ l r, h =>
    ⟨WF_divSymLeft h.2 (WF_symFwd x l h.1), WF_divSymRight h.1 h.2 (WF_symFwd x r h.2), trivial⟩
  | .pow _ l r, h =>
    ⟨WF_powSymLeft h.1 h.2 (WF_symFwd x l h.1), WF_powSymRight h h.1 (WF_symFwd x r h.2), trivial⟩
  | .neg _ u, h => WF_unarySymFormula h (WF_symFwd x u h)
  | .recip _ u, h => WF_unarySymFormula h (WF_symFwd x u h)
  | .npow _ u _, h => WF_unarySymFormula h (WF_symFwd x u h.2)
  | .nroot _ u _, h => WF_unarySymFormula h (WF_symFwd x u h.2)
  | .exp _ u _, h => WF_unarySymFormula h (WF_symFwd x u h.2)
  | .log _ u _, h => WF_unarySymFormula h (WF_symFwd x u h.2.2)
  | .cos _ u, h => WF_unarySymFormula h (WF_symFwd x u h)
  | .sin _ u, h => WF_unarySymFormula h (WF_symFwd x u h)
theorem WF_symFwdList (x : String) : ∀ es : List (Expr ℝ), WFList es → WFList (symFwdList realNum x es)
  | [], _ => trivial
  | e :: es, h => ⟨WF_symFwd x e h.1, WF_symFwdList x es h.2⟩
end

/-! ### reverse symbolic mode -/

/-- every accumulated partial is well formed -/
def SAccWF (acc : SAcc ℝ) : Prop := ∀ p ∈ acc, WF p.2

theorem SAccWF_nil : SAccWF [] := fun _ h => by cases h

theorem SAccWF_get? {acc : SAcc ℝ} (h : SAccWF acc) {x : String} {v : Expr ℝ}
    (hv : acc.get? x = some v) : WF v := by
  induction acc with
  | nil => cases hv
  | cons p rest ih =>
    obtain ⟨y, w⟩ := p
    simp only [SAcc.get?] at hv
    split at hv
    · injection hv with hv; subst hv
      exact h (y, w) List.mem_cons_self
    · exact ih (fun q hq => h q (List.mem_cons_of_mem _ hq)) hv

theorem SAccWF_set {acc : SAcc ℝ} (h : SAccWF acc) (x : String) {v : Expr ℝ} (hv : WF v) :
    SAccWF (acc.set x v) := by
  induction acc with
  | nil =>
    intro p hp
    simp only [SAcc.set, List.mem_singleton] at hp
    subst hp; exact hv
  | cons q rest ih =>
    obtain ⟨y, w⟩ := q
    have hrest : SAccWF rest := fun q hq => h q (List.mem_cons_of_mem _ hq)
    simp only [SAcc.set]
    split
    · intro p hp
      rcases List.mem_cons.mp hp with rfl | hp
      · exact hv
      · exact hrest p hp
    · intro p hp
      rcases List.mem_cons.mp hp with rfl | hp
      · exact h (y, w) List.mem_cons_self
      · exact ih hrest p hp

theorem SAccWF_addTo {acc : SAcc ℝ} (h : SAccWF acc) (x : String) {c : Expr ℝ} (hc : WF c) :
    SAccWF (acc.addTo x c) := by
  unfold SAcc.addTo
  split
  · exact SAccWF_set h x hc
  · next ex hex => exact SAccWF_set h x ⟨SAccWF_get? h hex, hc, trivial⟩

mutual
/-- `_compute_synthetic_partials` keeps the accumulator well formed -/
theorem SAccWF_symRev : ∀ (e m : Expr ℝ) (acc : SAcc ℝ), WF e → WF m → SAccWF acc →
    SAccWF (symRev realNum e m acc)
  | .const _ _, _, _, _, _, ha => by simp only [symRev]; exact ha
  | .var _ y, _, _, _, hm, ha => by simp only [symRev]; exact SAccWF_addTo ha y hm
  | .add _ as, m, acc, h, hm, ha => by
    simp only [symRev]; exact SAccWF_symRevList as m acc h hm ha
  | .minus _ l r, m, acc, h, hm, ha => by
    simp only [symRev]
    exact SAccWF_symRev r _ _ h.2 (show WF (mkNeg m) from hm) (SAccWF_symRev l m acc h.1 hm ha)
  | .mul _ as, m, acc, h, hm, ha => by
    simp only [symRev]; exact SAccWF_symRevMul as m 0 as acc h hm h ha
  | .div _ l r, m, acc, h, hm, ha => by
    simp only [symRev]
    exact SAccWF_symRev r _ _ h.2 (WF_divSymRight h.1 h.2 hm)
      (SAccWF_symRev l _ acc h.1 (WF_divSymLeft h.2 hm) ha)
  | .pow _ l r, m, acc, h, hm, ha => by
    simp only [symRev]
    exact SAccWF_symRev r _ _ h.2 (WF_powSymRight h h.1 hm)
      (SAccWF_symRev l _ acc h.1 (WF_powSymLeft h.1 h.2 hm) ha)
  | .neg _ u, _, acc, h, hm, ha => by
    simp only [symRev]; exact SAccWF_symRev u _ acc h (WF_unarySymFormula h hm) ha
  | .recip _ u, _, acc, h, hm, ha => by
    simp only [symRev]; exact SAccWF_symRev u _ acc h (WF_unarySymFormula h hm) ha
  | .npow _ u _, _, acc, h, hm, ha => by
    simp only [symRev]; exact SAccWF_symRev u _ acc h.2 (WF_unarySymFormula h hm) ha
  | .nroot _ u _, _, acc, h, hm, ha => by
    simp only [symRev]; exact SAccWF_symRev u _ acc h.2 (WF_unarySymFormula h hm) ha
  | .exp _ u _, _, acc, h, hm, ha => by
    simp only [symRev]; exact SAccWF_symRev u _ acc h.2 (WF_unarySymFormula h hm) ha
  | .log _ u _, _, acc, h, hm, ha => by
    simp only [symRev]; exact SAccWF_symRev u _ acc h.2.2 (WF_unarySymFormula h hm) ha
  | .cos _ u, _, acc, h, hm, ha => by
    simp only [symRev]; exact SAccWF_symRev u _ acc h (WF_unarySymFormula h hm) ha
  | .sin _ u, _, acc, h, hm, ha => by
    simp only [symRev]; exact SAccWF_symRev u _ acc h (WF_unarySymFormula h hm) ha
theorem SAccWF_symRevList : ∀ (es : List (Expr ℝ)) (m : Expr ℝ) (acc : SAcc ℝ), WFList es → WF m →
    SAccWF acc → SAccWF (symRevList realNum es m acc)
  | [], _, _, _, _, ha => by simp only [symRevList]; exact ha
  | e :: es, m, acc, h, hm, ha => by
    simp only [symRevList]
    exact SAccWF_symRevList es m _ h.2 hm (SAccWF_symRev e m acc h.1 hm ha)
theorem SAccWF_symRevMul (all : List (Expr ℝ)) (m : Expr ℝ) : ∀ (i : ℕ) (es : List (Expr ℝ))
    (acc : SAcc ℝ), WFList all → WF m → WFList es → SAccWF acc →
    SAccWF (symRevMul realNum all m i es acc)
  | _, [], _, _, _, _, ha => by simp only [symRevMul]; exact ha
  | i, e :: es, acc, hall, hm, h, ha => by
    simp only [symRevMul]
    exact SAccWF_symRevMul all m (i + 1) es _ hall hm h.2
      (SAccWF_symRev e _ acc h.1 (show WF (mkMul (m :: all.eraseIdx i)) from
        ⟨hm, WFList_eraseIdx hall i⟩) ha)
end

/-- `_synthetic_partials()` : every reported partial of a well-formed expression is well formed -/
theorem WF_syntheticPartials (e : Expr ℝ) (h : WF e) :
    ∀ p ∈ syntheticPartials realNum e, WF p.2 := by
  intro p hp
  simp only [syntheticPartials, List.mem_map] at hp
  obtain ⟨x, _, rfl⟩ := hp
  have hacc : SAccWF (symRev realNum e (mkConst realNum.one) []) :=
    SAccWF_symRev e _ [] h trivial SAccWF_nil
  cases hg : (symRev realNum e (mkConst realNum.one) []).get? x with
  | none => simp [WF]
  | some v => simpa using SAccWF_get? hacc hg

end Smooth
