/-
Proofs/Routes — every public differentiation route of the object layer (`Partial`, `Derivative`,
`Differential`, `LocatedDifferential`; computed early or late; `.at`, `.component(..).at`,
`.component_at`, `.at(..).component`, after `as_expression()` or before) as a Lean function, what each
of them unfolds to (for EVERY number instance), and, over the reals, that all of them return the true
partial derivative on the domain and `DomainError` off the domain (C06).

The route functions live in Model/Routes.lean; the native driver (Main.lean) dispatches its `route`
and `asexpr` requests to exactly these definitions, which is how the differential tests drive the
Python implementation through the same thirteen compositions.
-/
import Smooth.Model.Routes
import Smooth.Proofs.TruePartial
import Smooth.Proofs.SymForward
import Smooth.Proofs.SymReverse

namespace Smooth
open Classical Expr

/-! the route functions `routePL … routeLD`, `routeExprP … routeExprFL` are defined in Model/Routes.lean
(Mathlib-free: the native driver runs the very same definitions) -/

/-! ### what the routes unfold to, for every number instance -/

section unfold
variable {α : Type} (N : Num α)

/-- the common body of the routes through the normalised forward symbolic partial: normalise, then
evaluate the original, then the stored expression -/
def routeViaStored (e : Expr α) (x : String) (p : Point α) : R α := do
  let (s, _) ← retrieveSyntheticPartial N e x
  let _ ← evalG N p e
  evalG N p s

theorem routePL_eq (e : Expr α) (x : String) (p : Point α) : routePL N e x p = fwdG N p x e := rfl

theorem routePE_eq (e : Expr α) (x : String) (p : Point α) :
    routePE N e x p = routeViaStored N e x p := by
  unfold routePE routeViaStored PartialObj.new
  cases h : retrieveSyntheticPartial N e x with
  | error err => rfl
  | ok sw => rfl

theorem routePA_eq (e : Expr α) (x : String) (p : Point α) :
    routePA N e x p = routeViaStored N e x p := by
  unfold routePA routeViaStored PartialObj.new PartialObj.asExpression
  simp only [Bool.false_eq_true, if_false, bind, Except.bind, pure, Except.pure]
  cases h : retrieveSyntheticPartial N e x with
  | error err => rfl
  | ok sw => rfl

/-- **early = late after `as_expression()`**, as functions, for every number instance, every
expression, variable and point (supplied or not, in the domain or not, fuel or not) -/
theorem routePA_eq_routePE (e : Expr α) (x : String) (p : Point α) :
    routePA N e x p = routePE N e x p := by rw [routePA_eq, routePE_eq]

theorem routeDL_eq (e : Expr α) (p : Point α) :
    routeDL N e p = (do let x ← singleVarName e; routePL N e x p) := by
  unfold routeDL DerivativeObj.new routePL
  cases h : singleVarName e with
  | error err => rfl
  | ok x => rfl

theorem routeDE_eq (e : Expr α) (p : Point α) :
    routeDE N e p = (do let x ← singleVarName e; routePE N e x p) := by
  unfold routeDE DerivativeObj.new routePE
  cases h : singleVarName e with
  | error err => rfl
  | ok x =>
    simp only [bind, Except.bind]
    cases h' : PartialObj.new N e x true with
    | error err => rfl
    | ok Pw => rfl

theorem routeDA_eq (e : Expr α) (p : Point α) :
    routeDA N e p = (do let x ← singleVarName e; routePA N e x p) := by
  unfold routeDA DerivativeObj.new routePA DerivativeObj.asExpression
  cases h : singleVarName e with
  | error err => rfl
  | ok x =>
    simp only [bind, Except.bind]
    cases h' : PartialObj.new N e x false with
    | error err => rfl
    | ok Pw =>
      simp only [pure, Except.pure]
      cases h'' : Pw.1.asExpression N with
      | error err => rfl
      | ok r => rfl

theorem routeFCL_eq (e : Expr α) (x : String) (p : Point α) : routeFCL N e x p = fwdG N p x e := rfl

theorem routeFCAL_eq (e : Expr α) (x : String) (p : Point α) : routeFCAL N e x p = fwdG N p x e := rfl

/-- `component(x).at(p)` IS `component_at(x, p)` -/
theorem routeFCE_eq_routeFCAE (e : Expr α) (x : String) (p : Point α) :
    routeFCE N e x p = routeFCAE N e x p := rfl

/-- the body of `component_at` on an early `Differential`: the stored component if the name is a
key, otherwise a late `Partial` -/
def routeViaComponent (e : Expr α) (x : String) (p : Point α) : R α := do
  let (d, _) ← normalizeAll N (syntheticPartials N e)
  match SAcc.get? d x with
  | none => fwdG N p x e
  | some s => do
    let _ ← evalG N p e
    evalG N p s

theorem routeFCAE_eq (e : Expr α) (x : String) (p : Point α) :
    routeFCAE N e x p = routeViaComponent N e x p := by
  unfold routeFCAE routeViaComponent DifferentialObj.new DifferentialObj.componentAt
    DifferentialObj.component
  simp only [if_true, bind, Except.bind, pure, Except.pure]
  cases h : normalizeAll N (syntheticPartials N e) with
  | error err => rfl
  | ok dw =>
    simp only
    cases h' : SAcc.get? dw.1 x with
    | none => rfl
    | some s => rfl

theorem routeLD_eq (e : Expr α) (x : String) (p : Point α) :
    routeLD N e x p = (do
      let d ← numericPartials N p e
      pure ((Acc.get? d x).getD N.zero)) := by
  unfold routeLD LocatedObj.new LocatedObj.component
  cases h : numericPartials N p e with
  | error err => rfl
  | ok d => rfl

theorem routeFATL_eq (e : Expr α) (x : String) (p : Point α) :
    routeFATL N e x p = (do let _ ← evalG N p e; routeLD N e x p) := by
  unfold routeFATL routeLD DifferentialObj.new DifferentialObj.at
  simp only [Bool.false_eq_true, if_false, bind, Except.bind, pure, Except.pure]
  cases h : evalG N p e with
  | error err => rfl
  | ok v => rfl

theorem routeFATE_eq (e : Expr α) (x : String) (p : Point α) :
    routeFATE N e x p = (do
      let (d, _) ← normalizeAll N (syntheticPartials N e)
      let _ ← evalG N p e
      let vals ← evalAll N p d
      pure ((Acc.get? vals x).getD N.zero)) := by
  unfold routeFATE DifferentialObj.new DifferentialObj.at LocatedObj.new LocatedObj.component
  simp only [if_true, bind, Except.bind, pure, Except.pure]
  cases h : normalizeAll N (syntheticPartials N e) with
  | error err => rfl
  | ok dw =>
    simp only
    cases h' : evalG N p e with
    | error err => rfl
    | ok v =>
      simp only
      cases h'' : evalAll N p dw.1 with
      | error err => rfl
      | ok vals => rfl

/-! ### the `as_expression()` routes, for every number instance -/

theorem routeExprP_eq (e : Expr α) (x : String) :
    routeExprP N e x = retrieveSyntheticPartial N e x := by
  unfold routeExprP PartialObj.new PartialObj.asExpression
  simp only [Bool.false_eq_true, if_false, bind, Except.bind, pure, Except.pure]
  cases h : retrieveSyntheticPartial N e x with
  | error err => rfl
  | ok sw => rfl

theorem routeExprPE_eq (e : Expr α) (x : String) :
    routeExprPE N e x = retrieveSyntheticPartial N e x := by
  unfold routeExprPE PartialObj.new PartialObj.asExpression
  simp only [if_true, bind, Except.bind, pure, Except.pure]
  cases h : retrieveSyntheticPartial N e x with
  | error err => rfl
  | ok sw => rfl

theorem routeExprD_eq (e : Expr α) :
    routeExprD N e = (do let x ← singleVarName e; retrieveSyntheticPartial N e x) := by
  unfold routeExprD DerivativeObj.new DerivativeObj.asExpression PartialObj.new
    PartialObj.asExpression
  simp only [Bool.false_eq_true, if_false, bind, Except.bind, pure, Except.pure]
  cases h : singleVarName e with
  | error err => rfl
  | ok x =>
    simp only
    cases h' : retrieveSyntheticPartial N e x with
    | error err => rfl
    | ok sw => rfl

theorem routeExprDE_eq (e : Expr α) :
    routeExprDE N e = (do let x ← singleVarName e; retrieveSyntheticPartial N e x) := by
  unfold routeExprDE DerivativeObj.new DerivativeObj.asExpression PartialObj.new
    PartialObj.asExpression
  simp only [if_true, bind, Except.bind, pure, Except.pure]
  cases h : singleVarName e with
  | error err => rfl
  | ok x =>
    simp only
    cases h' : retrieveSyntheticPartial N e x with
    | error err => rfl
    | ok sw => rfl

theorem routeExprFL_eq (e : Expr α) (x : String) :
    routeExprFL N e x = retrieveSyntheticPartial N e x := by
  unfold routeExprFL DifferentialObj.new DifferentialObj.component PartialObj.new
    PartialObj.asExpression
  simp only [Bool.false_eq_true, if_false, bind, Except.bind, pure, Except.pure]
  cases h : retrieveSyntheticPartial N e x with
  | error err => rfl
  | ok sw => rfl

/-- the early `Differential` answers `as_expression()` of a component with the stored (reverse
symbolic, normalised) expression when the name is a key, otherwise like a late `Partial` -/
theorem routeExprFE_eq (e : Expr α) (x : String) :
    routeExprFE N e x = (do
      let (d, w) ← normalizeAll N (syntheticPartials N e)
      match SAcc.get? d x with
      | none => do
        let (s, w') ← retrieveSyntheticPartial N e x
        pure (s, w || w')
      | some s => pure (s, w || false)) := by
  unfold routeExprFE DifferentialObj.new DifferentialObj.component PartialObj.new
    PartialObj.asExpression
  simp only [if_true, bind, Except.bind, pure, Except.pure]
  cases h : normalizeAll N (syntheticPartials N e) with
  | error err => rfl
  | ok dw =>
    simp only
    cases h' : SAcc.get? dw.1 x with
    | none =>
      simp only [Bool.false_eq_true, if_false]
      cases h'' : retrieveSyntheticPartial N e x with
      | error err => rfl
      | ok sw => rfl
    | some s => rfl

end unfold

/-! ### entrywise facts about `normalizeAll`, `evalAll`, and the read-backs -/

section entrywise
variable {α : Type} (N : Num α)

/-- `normalizeAll` works entry by entry: same names in the same order, each expression normalised -/
theorem routes_normalizeAll_forall₂ : ∀ {acc d : SAcc α} {w : Bool},
    normalizeAll N acc = .ok (d, w) →
      List.Forall₂ (fun a b => b.1 = a.1 ∧ ∃ w', normalize N a.2 = some (b.2, w')) acc d
  | [], d, w, h => by
    simp only [normalizeAll, pure, Except.pure] at h
    injection h with h
    injection h with h1 h2
    subst h1
    exact List.Forall₂.nil
  | (x, s) :: rest, d, w, h => by
    simp only [normalizeAll] at h
    cases hn : normalize N s with
    | none => simp [hn, liftFuel, bind, Except.bind, throw, throwThe, MonadExceptOf.throw] at h
    | some sw =>
      obtain ⟨s', w1⟩ := sw
      cases hr : normalizeAll N rest with
      | error err => simp [hn, hr, liftFuel, bind, Except.bind, pure, Except.pure] at h
      | ok dw =>
        obtain ⟨rest', w2⟩ := dw
        simp only [hn, hr, liftFuel, bind, Except.bind, pure, Except.pure] at h
        injection h with h
        injection h with h1 h2
        subst h1
        exact List.Forall₂.cons ⟨rfl, w1, hn⟩ (routes_normalizeAll_forall₂ hr)

/-- `normalizeAll` can only fail for lack of fuel: it succeeds when every entry normalises -/
theorem routes_normalizeAll_ok : ∀ (acc : SAcc α),
    (∀ a ∈ acc, ∃ r, normalize N a.2 = some r) → ∃ d w, normalizeAll N acc = .ok (d, w)
  | [], _ => ⟨[], false, rfl⟩
  | (x, s) :: rest, h => by
    obtain ⟨⟨s', w1⟩, hn⟩ := h (x, s) (List.mem_cons_self)
    obtain ⟨d, w, hr⟩ := routes_normalizeAll_ok rest fun a ha => h a (List.mem_cons_of_mem _ ha)
    exact ⟨(x, s') :: d, w1 || w, by
      simp [normalizeAll, hn, hr, liftFuel, bind, Except.bind, pure, Except.pure]⟩

/-- … and otherwise the error is `fuel` -/
theorem routes_normalizeAll_error : ∀ (acc : SAcc α) (err : Err),
    normalizeAll N acc = .error err → err = .fuel
  | [], err, h => by simp [normalizeAll, pure, Except.pure] at h
  | (x, s) :: rest, err, h => by
    simp only [normalizeAll] at h
    cases hn : normalize N s with
    | none =>
      simp only [hn, liftFuel, bind, Except.bind, throw, throwThe, MonadExceptOf.throw] at h
      injection h with h; exact h.symm
    | some sw =>
      cases hr : normalizeAll N rest with
      | error err' =>
        simp only [hn, hr, liftFuel, bind, Except.bind, pure, Except.pure] at h
        injection h with h; subst h
        exact routes_normalizeAll_error rest _ hr
      | ok dw => simp [hn, hr, liftFuel, bind, Except.bind, pure, Except.pure] at h

/-- `evalAll` when every stored expression has the value `g name` -/
theorem routes_evalAll_ok (p : Point α) (g : String → α) : ∀ d : SAcc α,
    (∀ b ∈ d, evalG N p b.2 = .ok (g b.1)) →
      evalAll N p d = .ok (d.map fun b => (b.1, g b.1))
  | [], _ => rfl
  | (x, s) :: rest, h => by
    have h1 := h (x, s) List.mem_cons_self
    have h2 := routes_evalAll_ok p g rest fun b hb => h b (List.mem_cons_of_mem _ hb)
    simp only at h1
    simp [evalAll, h1, h2, bind, Except.bind, pure, Except.pure]

/-- a dictionary `{y : g y  for y in vs}` -/
theorem routes_get?_map (g : String → α) (vs : List String) (x : String) :
    Acc.get? (vs.map fun y => (y, g y)) x = if x ∈ vs then some (g x) else none := by
  induction vs with
  | nil => simp [Acc.get?, Point.get?]
  | cons v vs ih =>
    simp only [Acc.get?, List.map_cons, Point.get?, List.mem_cons]
    by_cases hvx : v = x
    · subst hvx; simp
    · have hb : (v == x) = false := by simpa using hvx
      have hxv : ¬ x = v := fun h => hvx h.symm
      simp only [hb, Bool.false_eq_true, if_false, hxv, false_or]
      exact ih

/-- every entry of `_synthetic_partials()` is what the lookup of its name finds (the read-back is a
function of the name) -/
theorem routes_syntheticPartials_mem (e : Expr α) {a : String × Expr α}
    (ha : a ∈ syntheticPartials N e) : SAcc.get? (syntheticPartials N e) a.1 = some a.2 := by
  rw [syntheticPartials_get?]
  simp only [syntheticPartials, List.mem_map] at ha
  obtain ⟨y, hy, rfl⟩ := ha
  simp [hy]

theorem routes_syntheticPartials_keys (e : Expr α) :
    (syntheticPartials N e).map Prod.fst = e.vars := by
  simp [syntheticPartials, Function.comp_def]

end entrywise

/-! ### over the reals, ON the domain: every route returns the true partial derivative -/

section onDomain
variable {p : Point ℝ} {e : Expr ℝ} (x : String)

/-- the K1 side condition for the routes through `Differential(compute_early=True)`: the rewriter's
run on every raw reverse-symbolic component performs no K1 rule application -/
def RoutesK1Rev (e : Expr ℝ) : Prop :=
  ∀ y s, SAcc.get? (syntheticPartials realNum e) y = some s →
    NormOK K1FreeAt REDUCTION_STEPS_BOUND NORMALIZE_FUEL s

/-- enough fuel for the routes through `Differential(compute_early=True)` -/
def RoutesFuelRev (e : Expr ℝ) : Prop :=
  ∀ y s, SAcc.get? (syntheticPartials realNum e) y = some s → ∃ r, normalize realNum s = some r

/-- enough fuel for the routes through the forward symbolic partial -/
def RoutesFuelFwd (e : Expr ℝ) (x : String) : Prop :=
  ∃ r, normalize realNum (symFwd realNum x e) = some r

theorem routes_normalizeAll_ok_real (hfuel : RoutesFuelRev e) :
    ∃ d w, normalizeAll realNum (syntheticPartials realNum e) = .ok (d, w) :=
  routes_normalizeAll_ok realNum _ fun a ha =>
    hfuel a.1 a.2 (routes_syntheticPartials_mem realNum e ha)

theorem routes_retrieve_ok (hfuel : RoutesFuelFwd e x) :
    ∃ s w, retrieveSyntheticPartial realNum e x = .ok (s, w) := by
  obtain ⟨⟨s, w⟩, h⟩ := hfuel
  exact ⟨s, w, by simp [retrieveSyntheticPartial, h, liftFuel, pure, Except.pure]⟩

theorem routes_evalG_ok (hwf : WF e) (hs : Supp p e) (hd : Dom (valOf p) e) :
    evalG realNum p e = .ok (den (valOf p) e) :=
  (evalR_good p e hwf).ok_iff.mpr ⟨hs, hd, rfl⟩

theorem routes_PL_on (hwf : WF e) (hs : Supp p e) (hd : Dom (valOf p) e) :
    routePL realNum e x p = .ok (truePartial p x e) := by
  rw [routePL_eq]; exact tp_fwd_is_truePartial p x e hwf hs hd

theorem routes_viaStored_on (hwf : WF e) (hs : Supp p e) (hd : Dom (valOf p) e)
    (hK1 : NormOK K1FreeAt REDUCTION_STEPS_BOUND NORMALIZE_FUEL (symFwd realNum x e))
    (hfuel : RoutesFuelFwd e x) :
    routeViaStored realNum e x p = .ok (truePartial p x e) := by
  obtain ⟨s, w, hret⟩ := routes_retrieve_ok x hfuel
  have hr := retrieveSyntheticPartial_refines e x s w hK1 hret
  have hev := (refines_symFwd_facts hr hwf).2.2.2.2 p hs hd
  simp only [routeViaStored, hret, routes_evalG_ok hwf hs hd, bind, Except.bind, hev]
  exact tp_fwd_is_truePartial p x e hwf hs hd

theorem routes_PE_on (hwf : WF e) (hs : Supp p e) (hd : Dom (valOf p) e)
    (hK1 : NormOK K1FreeAt REDUCTION_STEPS_BOUND NORMALIZE_FUEL (symFwd realNum x e))
    (hfuel : RoutesFuelFwd e x) :
    routePE realNum e x p = .ok (truePartial p x e) := by
  rw [routePE_eq]; exact routes_viaStored_on x hwf hs hd hK1 hfuel

theorem routes_PA_on (hwf : WF e) (hs : Supp p e) (hd : Dom (valOf p) e)
    (hK1 : NormOK K1FreeAt REDUCTION_STEPS_BOUND NORMALIZE_FUEL (symFwd realNum x e))
    (hfuel : RoutesFuelFwd e x) :
    routePA realNum e x p = .ok (truePartial p x e) := by
  rw [routePA_eq]; exact routes_viaStored_on x hwf hs hd hK1 hfuel

theorem routes_DL_on (hwf : WF e) (hs : Supp p e) (hd : Dom (valOf p) e)
    (hx : singleVarName e = .ok x) : routeDL realNum e p = .ok (truePartial p x e) := by
  rw [routeDL_eq, hx]; exact routes_PL_on x hwf hs hd

theorem routes_DE_on (hwf : WF e) (hs : Supp p e) (hd : Dom (valOf p) e)
    (hx : singleVarName e = .ok x)
    (hK1 : NormOK K1FreeAt REDUCTION_STEPS_BOUND NORMALIZE_FUEL (symFwd realNum x e))
    (hfuel : RoutesFuelFwd e x) : routeDE realNum e p = .ok (truePartial p x e) := by
  rw [routeDE_eq, hx]; exact routes_PE_on x hwf hs hd hK1 hfuel

theorem routes_DA_on (hwf : WF e) (hs : Supp p e) (hd : Dom (valOf p) e)
    (hx : singleVarName e = .ok x)
    (hK1 : NormOK K1FreeAt REDUCTION_STEPS_BOUND NORMALIZE_FUEL (symFwd realNum x e))
    (hfuel : RoutesFuelFwd e x) : routeDA realNum e p = .ok (truePartial p x e) := by
  rw [routeDA_eq, hx]; exact routes_PA_on x hwf hs hd hK1 hfuel

theorem routes_FCL_on (hwf : WF e) (hs : Supp p e) (hd : Dom (valOf p) e) :
    routeFCL realNum e x p = .ok (truePartial p x e) := routes_PL_on x hwf hs hd

theorem routes_FCAL_on (hwf : WF e) (hs : Supp p e) (hd : Dom (valOf p) e) :
    routeFCAL realNum e x p = .ok (truePartial p x e) := routes_PL_on x hwf hs hd

theorem routes_FCAE_on (hwf : WF e) (hs : Supp p e) (hd : Dom (valOf p) e)
    (hK1 : RoutesK1Rev e) (hfuel : RoutesFuelRev e) :
    routeFCAE realNum e x p = .ok (truePartial p x e) := by
  obtain ⟨d, w, hn⟩ := routes_normalizeAll_ok_real hfuel
  rw [routeFCAE_eq]
  simp only [routeViaComponent, hn, bind, Except.bind]
  cases hg : SAcc.get? d x with
  | none => exact tp_fwd_is_truePartial p x e hwf hs hd
  | some s =>
    simp only [routes_evalG_ok hwf hs hd, normalizeAll_eval hwf hs hd hn hK1 hg]
    exact tp_fwd_is_truePartial p x e hwf hs hd

theorem routes_FCE_on (hwf : WF e) (hs : Supp p e) (hd : Dom (valOf p) e)
    (hK1 : RoutesK1Rev e) (hfuel : RoutesFuelRev e) :
    routeFCE realNum e x p = .ok (truePartial p x e) :=
  routes_FCAE_on x hwf hs hd hK1 hfuel

/-- `_numeric_partials(point)` on the domain, as a list: `{y : ∂e/∂y  for y in e.vars}` -/
theorem routes_numericPartials_on (hwf : WF e) (hs : Supp p e) (hd : Dom (valOf p) e) :
    numericPartials realNum p e = .ok (e.vars.map fun y => (y, truePartial p y e)) := by
  obtain ⟨acc', h, hacc⟩ := tp_rev_adds_true_partials p e hwf hs hd 1 []
  simp only [numericPartials, realNum_one, h, bind, Except.bind, pure, Except.pure, realNum_zero]
  congr 1
  apply List.map_congr_left
  intro y _
  have := hacc y
  simp only [getA, Acc.get?, Point.get?, Option.getD_none, zero_add, one_mul] at this
  rw [show (Acc.get? acc' y).getD 0 = truePartial p y e from this]

/-- reading `{y : ∂e/∂y  for y in e.vars}` with default `0` gives the true partial for EVERY name -/
theorem routes_read_truePartials (p : Point ℝ) (e : Expr ℝ) (x : String) :
    (Acc.get? (e.vars.map fun y => (y, truePartial p y e)) x).getD 0 = truePartial p x e := by
  rw [routes_get?_map (fun y => truePartial p y e)]
  split
  · rfl
  · next hx =>
    have : ¬ Occurs x e := fun h => hx ((mem_vars x e).mpr h)
    simp [tp_truePartial_not_occurring p x e this]

theorem routes_LD_on (hwf : WF e) (hs : Supp p e) (hd : Dom (valOf p) e) :
    routeLD realNum e x p = .ok (truePartial p x e) := by
  rw [routeLD_eq, routes_numericPartials_on hwf hs hd]
  simp only [bind, Except.bind, pure, Except.pure, realNum_zero, routes_read_truePartials]

theorem routes_FATL_on (hwf : WF e) (hs : Supp p e) (hd : Dom (valOf p) e) :
    routeFATL realNum e x p = .ok (truePartial p x e) := by
  rw [routeFATL_eq, routes_evalG_ok hwf hs hd]
  exact routes_LD_on x hwf hs hd

theorem routes_forall₂_mem_right {β γ : Type} {R : β → γ → Prop} {l₁ : List β} {l₂ : List γ}
    (h : List.Forall₂ R l₁ l₂) : ∀ b ∈ l₂, ∃ a ∈ l₁, R a b := by
  induction h with
  | nil => intro b hb; cases hb
  | cons hab _ ih =>
    intro b hb
    rcases List.mem_cons.mp hb with rfl | hb
    · exact ⟨_, List.mem_cons_self, hab⟩
    · obtain ⟨a, ha, hr⟩ := ih b hb
      exact ⟨a, List.mem_cons_of_mem _ ha, hr⟩

theorem routes_forall₂_keys {β γ : Type} {R : String × β → String × γ → Prop}
    {l₁ : List (String × β)} {l₂ : List (String × γ)} (h : List.Forall₂ R l₁ l₂)
    (hR : ∀ a b, R a b → b.1 = a.1) : l₂.map Prod.fst = l₁.map Prod.fst := by
  induction h with
  | nil => rfl
  | cons hab _ ih => simp [hR _ _ hab, ih]

/-- on the domain, outside K1, every normalised component stored by the early `Differential`
evaluates to the true partial of its name — for every ENTRY of the stored list -/
theorem routes_stored_entries_eval (hwf : WF e) (hs : Supp p e) (hd : Dom (valOf p) e)
    (hK1 : RoutesK1Rev e) {d : SAcc ℝ} {w : Bool}
    (hn : normalizeAll realNum (syntheticPartials realNum e) = .ok (d, w)) :
    ∀ b ∈ d, evalG realNum p b.2 = .ok (truePartial p b.1 e) := by
  intro b hb
  obtain ⟨a, ha, hba, w', hnorm⟩ :=
    routes_forall₂_mem_right (routes_normalizeAll_forall₂ realNum hn) b hb
  have hget := routes_syntheticPartials_mem realNum e ha
  have href : Refines a.2 b.2 := normalize_refines symrev_rulesSound _ _ _ b.2 w' (hK1 _ _ hget) hnorm
  have hwfa : WF a.2 := SAccWF_get? (WF_syntheticPartials e hwf) hget
  have hev := syntheticPartials_eval hwf hs hd hget
  rw [tp_fwd_is_truePartial p a.1 e hwf hs hd] at hev
  rw [hba]
  exact href.eval hwfa p _ hev

/-- the stored list has the variables of `e` as names, in order -/
theorem routes_stored_keys {d : SAcc ℝ} {w : Bool}
    (hn : normalizeAll realNum (syntheticPartials realNum e) = .ok (d, w)) :
    d.map Prod.fst = e.vars := by
  rw [routes_forall₂_keys (routes_normalizeAll_forall₂ realNum hn) fun a b h => h.1,
    routes_syntheticPartials_keys]

/-- on the domain, outside K1, `evalAll` of the stored components is the dictionary of true
partials — the very list `_numeric_partials` returns -/
theorem routes_evalAll_on (hwf : WF e) (hs : Supp p e) (hd : Dom (valOf p) e)
    (hK1 : RoutesK1Rev e) {d : SAcc ℝ} {w : Bool}
    (hn : normalizeAll realNum (syntheticPartials realNum e) = .ok (d, w)) :
    evalAll realNum p d = .ok (e.vars.map fun y => (y, truePartial p y e)) := by
  rw [routes_evalAll_ok realNum p (fun y => truePartial p y e) d
    (routes_stored_entries_eval hwf hs hd hK1 hn), ← routes_stored_keys hn, List.map_map]
  rfl

theorem routes_FATE_on (hwf : WF e) (hs : Supp p e) (hd : Dom (valOf p) e)
    (hK1 : RoutesK1Rev e) (hfuel : RoutesFuelRev e) :
    routeFATE realNum e x p = .ok (truePartial p x e) := by
  obtain ⟨d, w, hn⟩ := routes_normalizeAll_ok_real hfuel
  rw [routeFATE_eq]
  simp only [hn, routes_evalG_ok hwf hs hd, routes_evalAll_on hwf hs hd hK1 hn, bind, Except.bind,
    pure, Except.pure, realNum_zero, routes_read_truePartials]

/-- **`Differential(e, compute_early=True).at(p)` IS `LocatedDifferential(e, p)`** on the domain,
outside K1: the same object (expression, point, dictionary of partials) -/
theorem routes_differential_early_at (hwf : WF e) (hs : Supp p e) (hd : Dom (valOf p) e)
    (hK1 : RoutesK1Rev e) {D : DifferentialObj ℝ} {w : Bool}
    (hnew : DifferentialObj.new realNum e true = .ok (D, w)) :
    D.at realNum p = LocatedObj.new realNum e p := by
  obtain ⟨d, hn, rfl⟩ := differentialNew_early realNum e hnew
  simp only [DifferentialObj.at, LocatedObj.new, routes_evalG_ok hwf hs hd,
    routes_evalAll_on hwf hs hd hK1 hn, routes_numericPartials_on hwf hs hd, bind, Except.bind,
    pure, Except.pure]

end onDomain

/-! ### over the reals, OFF the domain: every route raises `DomainError`

No K1 hypothesis anywhere: the routes through a stored expression evaluate the ORIGINAL expression
first.  Constructing an early object runs the rewriter even off the domain; that can only fail for
lack of fuel (`routes_partialNew_early_error`, `routes_differentialNew_early_error`), hence the fuel
hypotheses. -/

section offDomain
variable {p : Point ℝ} {e : Expr ℝ} (x : String)

theorem routes_evalG_off (hwf : WF e) (hs : Supp p e) (hnd : ¬ Dom (valOf p) e) :
    evalG realNum p e = .error .domain :=
  ((evalR_good p e hwf).domain_iff hs).mpr hnd

theorem routes_fwdG_off (hwf : WF e) (hs : Supp p e) (hnd : ¬ Dom (valOf p) e) :
    fwdG realNum p x e = .error .domain :=
  (fwdR_spec p x e hwf).2.1 hs hnd

theorem routes_numericPartials_off (hwf : WF e) (hs : Supp p e) (hnd : ¬ Dom (valOf p) e) :
    numericPartials realNum p e = .error .domain := by
  have := (revR_spec p e hwf 1 []).2.1 hs hnd
  simp [numericPartials, this, bind, Except.bind]

theorem routes_PL_off (hwf : WF e) (hs : Supp p e) (hnd : ¬ Dom (valOf p) e) :
    routePL realNum e x p = .error .domain := by
  rw [routePL_eq]; exact routes_fwdG_off x hwf hs hnd

theorem routes_viaStored_off (hwf : WF e) (hs : Supp p e) (hnd : ¬ Dom (valOf p) e)
    (hfuel : RoutesFuelFwd e x) : routeViaStored realNum e x p = .error .domain := by
  obtain ⟨s, w, hret⟩ := routes_retrieve_ok x hfuel
  simp only [routeViaStored, hret, routes_evalG_off hwf hs hnd, bind, Except.bind]

theorem routes_PE_off (hwf : WF e) (hs : Supp p e) (hnd : ¬ Dom (valOf p) e)
    (hfuel : RoutesFuelFwd e x) : routePE realNum e x p = .error .domain := by
  rw [routePE_eq]; exact routes_viaStored_off x hwf hs hnd hfuel

theorem routes_PA_off (hwf : WF e) (hs : Supp p e) (hnd : ¬ Dom (valOf p) e)
    (hfuel : RoutesFuelFwd e x) : routePA realNum e x p = .error .domain := by
  rw [routePA_eq]; exact routes_viaStored_off x hwf hs hnd hfuel

theorem routes_DL_off (hwf : WF e) (hs : Supp p e) (hnd : ¬ Dom (valOf p) e)
    (hx : singleVarName e = .ok x) : routeDL realNum e p = .error .domain := by
  rw [routeDL_eq, hx]; exact routes_PL_off x hwf hs hnd

theorem routes_DE_off (hwf : WF e) (hs : Supp p e) (hnd : ¬ Dom (valOf p) e)
    (hx : singleVarName e = .ok x) (hfuel : RoutesFuelFwd e x) :
    routeDE realNum e p = .error .domain := by
  rw [routeDE_eq, hx]; exact routes_PE_off x hwf hs hnd hfuel

theorem routes_DA_off (hwf : WF e) (hs : Supp p e) (hnd : ¬ Dom (valOf p) e)
    (hx : singleVarName e = .ok x) (hfuel : RoutesFuelFwd e x) :
    routeDA realNum e p = .error .domain := by
  rw [routeDA_eq, hx]; exact routes_PA_off x hwf hs hnd hfuel

theorem routes_FCL_off (hwf : WF e) (hs : Supp p e) (hnd : ¬ Dom (valOf p) e) :
    routeFCL realNum e x p = .error .domain := routes_PL_off x hwf hs hnd

theorem routes_FCAL_off (hwf : WF e) (hs : Supp p e) (hnd : ¬ Dom (valOf p) e) :
    routeFCAL realNum e x p = .error .domain := routes_PL_off x hwf hs hnd

/-- whether the component exists (the original is evaluated first) or not (late `Partial`, forward
mode) -/
theorem routes_FCAE_off (hwf : WF e) (hs : Supp p e) (hnd : ¬ Dom (valOf p) e)
    (hfuel : RoutesFuelRev e) : routeFCAE realNum e x p = .error .domain := by
  obtain ⟨d, w, hn⟩ := routes_normalizeAll_ok_real hfuel
  rw [routeFCAE_eq]
  simp only [routeViaComponent, hn, bind, Except.bind]
  cases hg : SAcc.get? d x with
  | none => exact routes_fwdG_off x hwf hs hnd
  | some s => simp only [routes_evalG_off hwf hs hnd]

theorem routes_FCE_off (hwf : WF e) (hs : Supp p e) (hnd : ¬ Dom (valOf p) e)
    (hfuel : RoutesFuelRev e) : routeFCE realNum e x p = .error .domain :=
  routes_FCAE_off x hwf hs hnd hfuel

theorem routes_LD_off (hwf : WF e) (hs : Supp p e) (hnd : ¬ Dom (valOf p) e) :
    routeLD realNum e x p = .error .domain := by
  rw [routeLD_eq, routes_numericPartials_off hwf hs hnd]; rfl

theorem routes_FATL_off (hwf : WF e) (hs : Supp p e) (hnd : ¬ Dom (valOf p) e) :
    routeFATL realNum e x p = .error .domain := by
  rw [routeFATL_eq, routes_evalG_off hwf hs hnd]; rfl

theorem routes_FATE_off (hwf : WF e) (hs : Supp p e) (hnd : ¬ Dom (valOf p) e)
    (hfuel : RoutesFuelRev e) : routeFATE realNum e x p = .error .domain := by
  obtain ⟨d, w, hn⟩ := routes_normalizeAll_ok_real hfuel
  rw [routeFATE_eq]
  simp only [hn, routes_evalG_off hwf hs hnd, bind, Except.bind]

end offDomain

/-! ### constructing an early object can only fail for lack of fuel -/

theorem routes_retrieve_error {α : Type} (N : Num α) (e : Expr α) (x : String) (err : Err)
    (h : retrieveSyntheticPartial N e x = .error err) : err = .fuel := by
  unfold retrieveSyntheticPartial at h
  cases hn : normalize N (symFwd N x e) with
  | none =>
    simp only [hn, liftFuel, throw, throwThe, MonadExceptOf.throw] at h
    injection h with h; exact h.symm
  | some r => simp [hn, liftFuel, pure, Except.pure] at h

theorem routes_partialNew_early_error {α : Type} (N : Num α) (e : Expr α) (x : String) (err : Err)
    (h : PartialObj.new N e x true = .error err) : err = .fuel := by
  simp only [PartialObj.new, if_true] at h
  cases hr : retrieveSyntheticPartial N e x with
  | error err' =>
    simp only [hr, bind, Except.bind] at h
    injection h with h; subst h
    exact routes_retrieve_error N e x _ hr
  | ok sw => simp [hr, bind, Except.bind, pure, Except.pure] at h

theorem routes_differentialNew_early_error {α : Type} (N : Num α) (e : Expr α) (err : Err)
    (h : DifferentialObj.new N e true = .error err) : err = .fuel := by
  simp only [DifferentialObj.new, if_true] at h
  cases hr : normalizeAll N (syntheticPartials N e) with
  | error err' =>
    simp only [hr, bind, Except.bind] at h
    injection h with h; subst h
    exact routes_normalizeAll_error N _ _ hr
  | ok dw => simp [hr, bind, Except.bind, pure, Except.pure] at h

/-! ### all routes at once -/

/-- the ten routes that take a variable name all return `r` -/
structure AllPartialRoutes {α : Type} (N : Num α) (e : Expr α) (x : String) (p : Point α)
    (r : R α) : Prop where
  PL : routePL N e x p = r
  PE : routePE N e x p = r
  PA : routePA N e x p = r
  FCL : routeFCL N e x p = r
  FCE : routeFCE N e x p = r
  FCAL : routeFCAL N e x p = r
  FCAE : routeFCAE N e x p = r
  FATL : routeFATL N e x p = r
  FATE : routeFATE N e x p = r
  LD : routeLD N e x p = r

/-- the three `Derivative` routes all return `r` -/
structure AllDerivativeRoutes {α : Type} (N : Num α) (e : Expr α) (p : Point α) (r : R α) :
    Prop where
  DL : routeDL N e p = r
  DE : routeDE N e p = r
  DA : routeDA N e p = r

/-- **C06 on the domain** (outside K1, with enough fuel): all ten routes return the true partial -/
theorem routes_all_on {p : Point ℝ} {e : Expr ℝ} (x : String) (hwf : WF e) (hs : Supp p e)
    (hd : Dom (valOf p) e)
    (hK1f : NormOK K1FreeAt REDUCTION_STEPS_BOUND NORMALIZE_FUEL (symFwd realNum x e))
    (hfuelf : RoutesFuelFwd e x) (hK1r : RoutesK1Rev e) (hfuelr : RoutesFuelRev e) :
    AllPartialRoutes realNum e x p (.ok (truePartial p x e)) :=
  ⟨routes_PL_on x hwf hs hd, routes_PE_on x hwf hs hd hK1f hfuelf,
    routes_PA_on x hwf hs hd hK1f hfuelf, routes_FCL_on x hwf hs hd,
    routes_FCE_on x hwf hs hd hK1r hfuelr, routes_FCAL_on x hwf hs hd,
    routes_FCAE_on x hwf hs hd hK1r hfuelr, routes_FATL_on x hwf hs hd,
    routes_FATE_on x hwf hs hd hK1r hfuelr, routes_LD_on x hwf hs hd⟩

theorem routes_all_derivative_on {p : Point ℝ} {e : Expr ℝ} (x : String) (hwf : WF e)
    (hs : Supp p e) (hd : Dom (valOf p) e) (hx : singleVarName e = .ok x)
    (hK1f : NormOK K1FreeAt REDUCTION_STEPS_BOUND NORMALIZE_FUEL (symFwd realNum x e))
    (hfuelf : RoutesFuelFwd e x) :
    AllDerivativeRoutes realNum e p (.ok (truePartial p x e)) :=
  ⟨routes_DL_on x hwf hs hd hx, routes_DE_on x hwf hs hd hx hK1f hfuelf,
    routes_DA_on x hwf hs hd hx hK1f hfuelf⟩

/-- **C06 off the domain** (no K1 hypothesis; enough fuel): all ten routes raise `DomainError` -/
theorem routes_all_off {p : Point ℝ} {e : Expr ℝ} (x : String) (hwf : WF e) (hs : Supp p e)
    (hnd : ¬ Dom (valOf p) e) (hfuelf : RoutesFuelFwd e x) (hfuelr : RoutesFuelRev e) :
    AllPartialRoutes realNum e x p (.error .domain) :=
  ⟨routes_PL_off x hwf hs hnd, routes_PE_off x hwf hs hnd hfuelf,
    routes_PA_off x hwf hs hnd hfuelf, routes_FCL_off x hwf hs hnd,
    routes_FCE_off x hwf hs hnd hfuelr, routes_FCAL_off x hwf hs hnd,
    routes_FCAE_off x hwf hs hnd hfuelr, routes_FATL_off x hwf hs hnd,
    routes_FATE_off x hwf hs hnd hfuelr, routes_LD_off x hwf hs hnd⟩

theorem routes_all_derivative_off {p : Point ℝ} {e : Expr ℝ} (x : String) (hwf : WF e)
    (hs : Supp p e) (hnd : ¬ Dom (valOf p) e) (hx : singleVarName e = .ok x)
    (hfuelf : RoutesFuelFwd e x) : AllDerivativeRoutes realNum e p (.error .domain) :=
  ⟨routes_DL_off x hwf hs hnd hx, routes_DE_off x hwf hs hnd hx hfuelf,
    routes_DA_off x hwf hs hnd hx hfuelf⟩

/-- an expression with two or more variables has no `Derivative`: the three routes all raise the
usage error, at construction -/
theorem routes_all_derivative_usage {α : Type} (N : Num α) (e : Expr α) (p : Point α) (err : Err)
    (hx : singleVarName e = .error err) : AllDerivativeRoutes N e p (.error err) :=
  ⟨by rw [routeDL_eq, hx]; rfl, by rw [routeDE_eq, hx]; rfl, by rw [routeDA_eq, hx]; rfl⟩

/-- what `singleVarName e = .ok x` says -/
theorem routes_singleVarName_ok {α : Type} {e : Expr α} {x : String} (hx : singleVarName e = .ok x) :
    e.vars.length ≤ 1 ∧ ∀ y ∈ e.vars, y = x := by
  unfold singleVarName at hx
  split at hx
  · next h => simp [h]
  · next y h =>
    simp only [pure, Except.pure] at hx
    injection hx with hx
    simp [h, hx]
  · simp [throw, throwThe, MonadExceptOf.throw] at hx

/-! ### `as_expression()` : early and late return the same expression -/

section asExpr
variable {α : Type} (N : Num α)

/-- **`Partial`: early and late `as_expression()` are the same** expression, with the same warning
(logged at construction when early, at the call when late) and the same failure (fuel) — for every
number instance -/
theorem routes_partial_asExpression_early_eq_late (e : Expr α) (x : String) :
    routeExprPE N e x = routeExprP N e x := by rw [routeExprPE_eq, routeExprP_eq]

/-- the same for `Derivative` -/
theorem routes_derivative_asExpression_early_eq_late (e : Expr α) :
    routeExprDE N e = routeExprD N e := by rw [routeExprDE_eq, routeExprD_eq]

/-- on the objects: after `as_expression()` a late `Partial` is in exactly the state of the early
one (same stored expression), and both return that expression -/
theorem routes_partial_objects_early_late (e : Expr α) (x : String) :
    (do let (P, w) ← PartialObj.new N e x true
        let (s, P', _) ← P.asExpression N
        pure (s, P', w)) =
    (do let (P, _) ← PartialObj.new N e x false
        P.asExpression N) := by
  unfold PartialObj.new PartialObj.asExpression
  simp only [if_true, Bool.false_eq_true, if_false, bind, Except.bind, pure, Except.pure]
  cases h : retrieveSyntheticPartial N e x with
  | error err => rfl
  | ok sw => rfl

/-- `Differential(e).component(x)` (not computed early) is `Partial(e, x)` -/
theorem routes_component_late (e : Expr α) (x : String) :
    (DifferentialObj.mk e none).component N x = PartialObj.new N e x false := rfl

/-- hence its `as_expression()` is the late `Partial`'s -/
theorem routes_differential_late_asExpression (e : Expr α) (x : String) :
    routeExprFL N e x = routeExprP N e x := by rw [routeExprFL_eq, routeExprP_eq]

end asExpr

/-- **`Differential(e).at(p)` (not computed early) is `LocatedDifferential(e, p)`** at every point
that supplies the expression: the same object on the domain, the same `DomainError` off it -/
theorem routes_differential_late_at (p : Point ℝ) (e : Expr ℝ) (hwf : WF e) (hs : Supp p e) :
    (DifferentialObj.mk e none).at realNum p = LocatedObj.new realNum e p := by
  by_cases hd : Dom (valOf p) e
  · exact tp_differential_late_at p e hwf hs hd
  · simp [DifferentialObj.at, LocatedObj.new, routes_evalG_off hwf hs hd,
      routes_numericPartials_off hwf hs hd, bind, Except.bind]

/-! ### K2: early and late `Differential` components are different trees with the same meaning -/

/-- **the replacement for K2 that is true**: the expression an early `Differential` returns for a
component (reverse symbolic route) and the one a late `Differential` returns (forward symbolic route)
both evaluate, at every supplied point of the domain of the original, to the true partial
derivative — they denote the same function there — outside K1 -/
theorem routes_K2_same_meaning {e : Expr ℝ} (x : String) (hwf : WF e)
    (hK1f : NormOK K1FreeAt REDUCTION_STEPS_BOUND NORMALIZE_FUEL (symFwd realNum x e))
    (hK1r : RoutesK1Rev e) {s₁ s₂ : Expr ℝ} {w₁ w₂ : Bool}
    (h₁ : routeExprFE realNum e x = .ok (s₁, w₁)) (h₂ : routeExprFL realNum e x = .ok (s₂, w₂))
    (p : Point ℝ) (hs : Supp p e) (hd : Dom (valOf p) e) :
    evalG realNum p s₁ = .ok (truePartial p x e) ∧ evalG realNum p s₂ = .ok (truePartial p x e) := by
  have hfwd : ∀ s w, retrieveSyntheticPartial realNum e x = .ok (s, w) →
      evalG realNum p s = .ok (truePartial p x e) := by
    intro s w hret
    have hr := retrieveSyntheticPartial_refines e x s w hK1f hret
    rw [(refines_symFwd_facts hr hwf).2.2.2.2 p hs hd]
    exact tp_fwd_is_truePartial p x e hwf hs hd
  rw [routeExprFL_eq] at h₂
  refine ⟨?_, hfwd s₂ w₂ h₂⟩
  rw [routeExprFE_eq] at h₁
  cases hn : normalizeAll realNum (syntheticPartials realNum e) with
  | error err => simp [hn, bind, Except.bind] at h₁
  | ok dw =>
    obtain ⟨d, w⟩ := dw
    simp only [hn, bind, Except.bind] at h₁
    cases hg : SAcc.get? d x with
    | none =>
      simp only [hg] at h₁
      cases hret : retrieveSyntheticPartial realNum e x with
      | error err => simp [hret] at h₁
      | ok sw =>
        obtain ⟨s, w'⟩ := sw
        simp only [hret, pure, Except.pure] at h₁
        injection h₁ with h₁
        injection h₁ with h₁ _
        subst h₁
        exact hfwd s w' hret
    | some s =>
      simp only [hg, pure, Except.pure] at h₁
      injection h₁ with h₁
      injection h₁ with h₁ _
      subst h₁
      rw [normalizeAll_eval hwf hs hd hn hK1r hg]
      exact tp_fwd_is_truePartial p x e hwf hs hd

end Smooth
