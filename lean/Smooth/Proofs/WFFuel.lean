/-
Proofs/WFFuel — the outcome `.fuel` of the object layer is an artefact of the model's fuel-indexed
`normalizeF`/`normReducedF`, not a behaviour of the library: with the fuel `NORMALIZE_FUEL` the model
actually uses, it does not occur for expressions of any realistic depth.

How the fuel is consumed.  `normalizeF (f+1) e = normReducedF f (fullyReduce e)`; `normReducedF (f+1)`
descends one level: into the operands with `normReducedF f`, and — for `Add`/`Multiply` — into every
term (or the operand of a `Negation`/`Reciprocal` term) with `normalizeF f`, which runs `_fully_reduce`
again.  After a `_fully_reduce` that ended WITHOUT the warning, every node of the result is flagged
(`Settled.all_of_isRed`, property C11), so every nested `_fully_reduce` returns its argument at once and
each level of the tree costs at most two units of fuel:

  `wfd_normReducedF_some` : all nodes flagged, `2 · depth e ≤ fuel`  ⟹  `normReducedF … fuel e ≠ none`.

The depth of the reduct is bounded by the depth of the input plus the number of steps, because every
one of the 46 rules, constant folding and the flag steps raise the depth by at most one
(`wfd_rule_depth`, `wfd_stepF_depth`, `wfd_fullyReduceWith_depth`).  Together:

  `wfd_normalizeF_some` : flags honest (`Settled`, e.g. no flag set), no warning,
      `2 · (depth e + bound) + 1 ≤ fuel`  ⟹  `normalizeF … bound fuel e ≠ none`,

and with `bound = 1000`, `fuel = NORMALIZE_FUEL = 100000`: depth ≤ 48999 suffices.
`symFwd` keeps `Settled` (`wfd_settled_symFwd`), so this applies to `_retrieve_synthetic_partial`.

What is NOT proved: the case in which `_fully_reduce` gives up with the warning (budget exhausted).
Then the nested `_fully_reduce` calls of the normal-form pass do real work again, each with a fresh
budget, and the only bound on the total is the (non-explicit, lexicographic) termination measure of
Proofs/Measure.  Generic in the number record `N`.
-/
import Smooth.Proofs.Settled
import Smooth.Model.Routes

namespace Smooth
open Expr
variable {α : Type}

/-! ### depth -/

mutual
/-- height of the tree (a leaf has depth 1) -/
def wfdDepth : Expr α → Nat
  | .const _ _ | .var _ _ => 1
  | .add _ as | .mul _ as => 1 + wfdDepthList as
  | .minus _ l r | .div _ l r | .pow _ l r => 1 + max (wfdDepth l) (wfdDepth r)
  | .neg _ u | .recip _ u | .npow _ u _ | .nroot _ u _ | .exp _ u _ | .log _ u _ | .cos _ u
  | .sin _ u => 1 + wfdDepth u
def wfdDepthList : List (Expr α) → Nat
  | [] => 0
  | e :: es => max (wfdDepth e) (wfdDepthList es)
end

theorem wfd_depthList_le_iff : ∀ (as : List (Expr α)) (d : Nat),
    wfdDepthList as ≤ d ↔ ∀ a ∈ as, wfdDepth a ≤ d
  | [], d => by simp [wfdDepthList]
  | e :: es, d => by
    simp only [wfdDepthList, List.forall_mem_cons, ← wfd_depthList_le_iff es d]
    omega

theorem wfd_depth_mem {as : List (Expr α)} {a : Expr α} (h : a ∈ as) :
    wfdDepth a ≤ wfdDepthList as :=
  (wfd_depthList_le_iff as _).mp (Nat.le_refl _) a h

theorem wfd_depth_pos (e : Expr α) : 1 ≤ wfdDepth e := by
  cases e <;> simp only [wfdDepth] <;> omega

@[simp] theorem wfd_depth_setFlags (g : Flags) (e : Expr α) : wfdDepth (e.setFlags g) = wfdDepth e := by
  cases e <;> simp [setFlags, wfdDepth]

@[simp] theorem wfd_depth_markRed (e : Expr α) : wfdDepth e.markRed = wfdDepth e :=
  wfd_depth_setFlags _ e

@[simp] theorem wfd_depth_markFailed (e : Expr α) : wfdDepth e.markFailed = wfdDepth e :=
  wfd_depth_setFlags _ e

/-- a child is strictly less deep than its parent -/
theorem wfd_depth_child {e c : Expr α} (h : c ∈ children e) : wfdDepth c + 1 ≤ wfdDepth e := by
  cases e <;> simp only [children, List.mem_cons, List.not_mem_nil, or_false] at h
  case add f as => have := wfd_depth_mem h; simp only [wfdDepth]; omega
  case mul f as => have := wfd_depth_mem h; simp only [wfdDepth]; omega
  all_goals (rcases h with rfl | rfl) <;> simp only [wfdDepth] <;> omega

/-! ### trees in which every node is flagged -/

/-- every node of `e` carries the `_is_fully_reduced` flag -/
def wfdAllRed (e : Expr α) : Prop := ∀ s, Sub s e → s.isRed = true

theorem wfdAllRed.root {e : Expr α} (h : wfdAllRed e) : e.isRed = true := h e (Sub.refl e)

theorem wfdAllRed.child {e c : Expr α} (h : wfdAllRed e) (hc : c ∈ children e) : wfdAllRed c :=
  fun s hs => h s (Sub.child hc hs)

theorem wfdAllRed.markRed {e : Expr α} (h : wfdAllRed e) : wfdAllRed e.markRed := by
  intro s hs
  cases hs with
  | refl => cases e <;> rfl
  | child hc hs' =>
    rw [Expr.markRed, children_setFlags] at hc
    exact h s (Sub.child hc hs')

/-- in a settled expression (honest flags) a flagged root means: every node is flagged -/
theorem wfd_allRed_of_settled {N : Num α} {e : Expr α} (hs : Settled N e) (hr : e.isRed = true) :
    wfdAllRed e :=
  fun s hsub => (hs.all_of_isRed hr s hsub).1

/-- `_fully_reduce` on a flagged root does nothing (budget ≥ 1) or only sets the root flag again
(budget 0) -/
theorem wfd_fullyReduceWith_red (N : Num α) (bound : Nat) {e : Expr α} (h : e.isRed = true) :
    (fullyReduceWith N bound e).expr = e ∨ (fullyReduceWith N bound e).expr = e.markRed := by
  cases bound with
  | zero => exact Or.inr rfl
  | succ b => left; simp [fullyReduceWith, fullyReduceLoop, h]

theorem wfd_fullyReduceWith_allRed (N : Num α) (bound : Nat) {e : Expr α} (h : wfdAllRed e) :
    wfdAllRed (fullyReduceWith N bound e).expr ∧
      wfdDepth (fullyReduceWith N bound e).expr = wfdDepth e := by
  rcases wfd_fullyReduceWith_red N bound h.root with h1 | h1 <;> rw [h1]
  · exact ⟨h, rfl⟩
  · exact ⟨h.markRed, wfd_depth_markRed e⟩

/-! ### the normal-form pass on an all-flagged tree: two units of fuel per level -/

theorem wfd_mapM?_some {β γ : Type} {f : β → Option γ} : ∀ {bs : List β},
    (∀ b ∈ bs, ∃ c, f b = some c) → ∃ cs, mapM? f bs = some cs
  | [], _ => ⟨[], rfl⟩
  | b :: bs, h => by
    obtain ⟨c, hc⟩ := h b List.mem_cons_self
    obtain ⟨cs, hcs⟩ := wfd_mapM?_some (bs := bs) fun b' hb' => h b' (List.mem_cons_of_mem _ hb')
    exact ⟨c :: cs, by simp [mapM?, hc, hcs]⟩

theorem wfd_asNeg_some {a u : Expr α} (h : asNeg a = some u) : ∃ f, a = .neg f u := by
  cases a <;> simp [asNeg] at h
  subst h; exact ⟨_, rfl⟩

theorem wfd_asRecip_some {a u : Expr α} (h : asRecip a = some u) : ∃ f, a = .recip f u := by
  cases a <;> simp [asRecip] at h
  subst h; exact ⟨_, rfl⟩

theorem wfd_fuel_aux (N : Num α) (bound : Nat) : ∀ fuel : Nat,
    (∀ e : Expr α, wfdAllRed e → 2 * wfdDepth e + 1 ≤ fuel →
      ∃ r, normalizeF N bound fuel e = some r) ∧
    (∀ e : Expr α, wfdAllRed e → 2 * wfdDepth e ≤ fuel →
      ∃ r, normReducedF N bound fuel e = some r)
  | 0 => ⟨fun e _ h => by omega, fun e _ h => by have := wfd_depth_pos e; omega⟩
  | fuel + 1 => by
    have ih := wfd_fuel_aux N bound fuel
    refine ⟨?_, ?_⟩
    · intro e hr hd
      obtain ⟨hr', hd'⟩ := wfd_fullyReduceWith_allRed N bound hr
      obtain ⟨r, h⟩ := ih.2 _ hr' (by omega)
      exact ⟨(r.1, r.2 || (fullyReduceWith N bound e).warned), by simp [normalizeF, h]⟩
    · intro e hr hd
      -- the operands, by the induction hypothesis
      have sub : ∀ c ∈ children e, ∃ r, normReducedF N bound fuel c = some r := fun c hc =>
        ih.2 c (hr.child hc) (by have := wfd_depth_child hc; omega)
      cases e with
      | const f v => exact Option.isSome_iff_exists.mp (by simp [normReducedF])
      | var f x => exact Option.isSome_iff_exists.mp (by simp [normReducedF])
      | add f as =>
        have full : ∀ t ∈ as, ∃ r, normalizeF N bound fuel t = some r := fun t ht =>
          ih.1 t (hr.child ht) (by
            have := wfd_depth_child (e := .add f as) (c := t) ht; omega)
        obtain ⟨t1, h1⟩ := wfd_mapM?_some (f := normalizeF N bound fuel)
          (bs := as.filter fun t => (asNeg t).isNone) fun b hb => full b (List.mem_filter.mp hb).1
        obtain ⟨t2, h2⟩ := wfd_mapM?_some (f := normalizeF N bound fuel)
          (bs := as.filterMap asNeg) fun u hu => by
            obtain ⟨a, ha, hau⟩ := List.mem_filterMap.mp hu
            obtain ⟨g, rfl⟩ := wfd_asNeg_some hau
            have hca : (.neg g u : Expr α) ∈ children (.add f as) := ha
            have hcu : u ∈ children (.neg g u : Expr α) := by simp [children]
            exact ih.1 u ((hr.child hca).child hcu) (by
              have := wfd_depth_child hca; have := wfd_depth_child hcu; omega)
        exact Option.isSome_iff_exists.mp (by simp only [normReducedF, h1, h2, Option.isSome_some])
      | mul f as =>
        have full : ∀ t ∈ as, ∃ r, normalizeF N bound fuel t = some r := fun t ht =>
          ih.1 t (hr.child ht) (by
            have := wfd_depth_child (e := .mul f as) (c := t) ht; omega)
        obtain ⟨t1, h1⟩ := wfd_mapM?_some (f := normalizeF N bound fuel)
          (bs := as.filter fun t => (asRecip t).isNone) fun b hb => full b (List.mem_filter.mp hb).1
        obtain ⟨t2, h2⟩ := wfd_mapM?_some (f := normalizeF N bound fuel)
          (bs := as.filterMap asRecip) fun u hu => by
            obtain ⟨a, ha, hau⟩ := List.mem_filterMap.mp hu
            obtain ⟨g, rfl⟩ := wfd_asRecip_some hau
            have hca : (.recip g u : Expr α) ∈ children (.mul f as) := ha
            have hcu : u ∈ children (.recip g u : Expr α) := by simp [children]
            exact ih.1 u ((hr.child hca).child hcu) (by
              have := wfd_depth_child hca; have := wfd_depth_child hcu; omega)
        exact Option.isSome_iff_exists.mp (by simp only [normReducedF, h1, h2, Option.isSome_some])
      | minus f l r =>
        obtain ⟨a, ha⟩ := sub l (by simp [children])
        obtain ⟨b, hb⟩ := sub r (by simp [children])
        exact Option.isSome_iff_exists.mp (by simp only [normReducedF, ha, hb, Option.isSome_some])
      | div f l r =>
        obtain ⟨a, ha⟩ := sub l (by simp [children])
        obtain ⟨b, hb⟩ := sub r (by simp [children])
        exact Option.isSome_iff_exists.mp (by simp only [normReducedF, ha, hb, Option.isSome_some])
      | pow f l r =>
        obtain ⟨a, ha⟩ := sub l (by simp [children])
        obtain ⟨b, hb⟩ := sub r (by simp [children])
        exact Option.isSome_iff_exists.mp (by simp only [normReducedF, ha, hb, Option.isSome_some])
      | neg f u =>
        obtain ⟨a, ha⟩ := sub u (by simp [children])
        exact Option.isSome_iff_exists.mp (by simp only [normReducedF, ha, Option.map_some, Option.isSome_some])
      | recip f u =>
        obtain ⟨a, ha⟩ := sub u (by simp [children])
        exact Option.isSome_iff_exists.mp (by simp only [normReducedF, ha, Option.map_some, Option.isSome_some])
      | npow f u n =>
        obtain ⟨a, ha⟩ := sub u (by simp [children])
        exact Option.isSome_iff_exists.mp (by simp only [normReducedF, ha, Option.map_some, Option.isSome_some])
      | nroot f u n =>
        obtain ⟨a, ha⟩ := sub u (by simp [children])
        exact Option.isSome_iff_exists.mp (by simp only [normReducedF, ha, Option.map_some, Option.isSome_some])
      | exp f u b =>
        obtain ⟨a, ha⟩ := sub u (by simp [children])
        exact Option.isSome_iff_exists.mp (by simp only [normReducedF, ha, Option.map_some, Option.isSome_some])
      | log f u b =>
        obtain ⟨a, ha⟩ := sub u (by simp [children])
        exact Option.isSome_iff_exists.mp (by simp only [normReducedF, ha, Option.map_some, Option.isSome_some])
      | cos f u =>
        obtain ⟨a, ha⟩ := sub u (by simp [children])
        exact Option.isSome_iff_exists.mp (by simp only [normReducedF, ha, Option.map_some, Option.isSome_some])
      | sin f u =>
        obtain ⟨a, ha⟩ := sub u (by simp [children])
        exact Option.isSome_iff_exists.mp (by simp only [normReducedF, ha, Option.map_some, Option.isSome_some])

/-- **the normal-form pass never runs out of fuel on an all-flagged tree with `2 · depth ≤ fuel`** -/
theorem wfd_normReducedF_some (N : Num α) (bound fuel : Nat) {e : Expr α} (hr : wfdAllRed e)
    (hd : 2 * wfdDepth e ≤ fuel) : ∃ r, normReducedF N bound fuel e = some r :=
  (wfd_fuel_aux N bound fuel).2 e hr hd

/-! ### lists -/

theorem wfd_depthList_append : ∀ (as bs : List (Expr α)),
    wfdDepthList (as ++ bs) = max (wfdDepthList as) (wfdDepthList bs)
  | [], bs => by simp [wfdDepthList]
  | a :: as, bs => by
    simp only [List.cons_append, wfdDepthList, wfd_depthList_append as bs]; omega

theorem wfd_depthList_filter (p : Expr α → Bool) (as : List (Expr α)) :
    wfdDepthList (as.filter p) ≤ wfdDepthList as :=
  (wfd_depthList_le_iff _ _).mpr fun _ ha => wfd_depth_mem (List.mem_filter.mp ha).1

theorem wfd_depthList_filterMap (sel : Expr α → Option (Expr α))
    (hsel : ∀ a u, sel a = some u → wfdDepth u ≤ wfdDepth a) (as : List (Expr α)) :
    wfdDepthList (as.filterMap sel) ≤ wfdDepthList as :=
  (wfd_depthList_le_iff _ _).mpr fun u hu => by
    obtain ⟨a, ha, hau⟩ := List.mem_filterMap.mp hu
    exact Nat.le_trans (hsel a u hau) (wfd_depth_mem ha)

theorem wfd_depthList_map_succ (mk : Expr α → Expr α) (hmk : ∀ a, wfdDepth (mk a) = 1 + wfdDepth a)
    : ∀ as : List (Expr α), wfdDepthList (as.map mk) ≤ 1 + wfdDepthList as
  | [] => by simp [wfdDepthList]
  | a :: as => by
    have := wfd_depthList_map_succ mk hmk as
    simp only [List.map_cons, wfdDepthList, hmk]; omega

/-- the shape shared by the four consolidation rules: the rebuilt groups are one level deeper than
the members they replace -/
theorem wfd_consolidate_depth {κ : Type} (sel : Expr α → Option (κ × Expr α)) (eq : κ → κ → Bool)
    (build : κ → List (Expr α) → Expr α)
    (hsel : ∀ a k u, sel a = some (k, u) → wfdDepth u + 1 ≤ wfdDepth a)
    (hbuild : ∀ k vs, wfdDepth (build k vs) = 2 + wfdDepthList vs)
    (as as' : List (Expr α)) (h : consolidate sel eq build as = some as') :
    wfdDepthList as' ≤ wfdDepthList as + 1 := by
  unfold consolidate at h
  simp only at h
  split at h
  · cases h
  split at h
  · cases h
  rename_i hlen _
  obtain rfl := Option.some.inj h
  -- there is a member, so the list is not empty
  have hmem : ∀ kv ∈ as.filterMap sel, wfdDepth kv.2 + 1 ≤ wfdDepthList as := by
    intro kv hkv
    obtain ⟨a, ha, hau⟩ := List.mem_filterMap.mp hkv
    exact Nat.le_trans (hsel a kv.1 kv.2 hau) (wfd_depth_mem ha)
  have hpos : 1 ≤ wfdDepthList as := by
    cases hm : as.filterMap sel with
    | nil => simp [hm] at hlen
    | cons kv rest =>
      have := hmem kv (by simp [hm])
      omega
  rw [wfd_depthList_le_iff]
  intro a ha
  rcases List.mem_append.mp ha with ha | ha
  · exact Nat.le_trans (wfd_depth_mem (List.mem_filter.mp ha).1) (Nat.le_succ _)
  · obtain ⟨g, hg, rfl⟩ := List.mem_map.mp ha
    have hq := forall_groupByKey (fun w : Expr α => wfdDepth w + 1 ≤ wfdDepthList as) eq _
      (fun kv hkv => hmem kv hkv) g hg
    have : wfdDepthList g.2 ≤ wfdDepthList as - 1 :=
      (wfd_depthList_le_iff _ _).mpr fun w hw => by have := hq w hw; omega
    rw [hbuild]; omega

/-! ### every rule raises the depth by at most one -/

section RuleDepth
variable {N : Num α} {e e' : Expr α}

set_option hygiene false in
/-- the rules that do not work on lists: take the definition apart, compare the two depths -/
local macro "wfd_simple_rule" : tactic => `(tactic| (
  repeat' (split at h)
  all_goals first
    | (obtain rfl := Option.some.inj h; simp only [wfdDepth, wfdDepthList]; omega)
    | cases h))

theorem wfd_ruleAddFlatten_depth (h : ruleAddFlatten e = some e') :
    wfdDepth e' ≤ wfdDepth e + 1 := by
  unfold ruleAddFlatten at h
  split at h
  · rename_i f as
    simp only [Option.map_eq_some_iff] at h
    obtain ⟨as', h1, rfl⟩ := h
    have key := forall_spliceFirst (fun a => wfdDepth a ≤ wfdDepthList as) asAdd (by
      intro e inner he hP x hx
      cases e <;> simp [asAdd] at he
      subst he
      have := wfd_depth_mem hx; simp only [wfdDepth] at hP; omega) _ _ h1
      (fun a ha => wfd_depth_mem ha)
    have := (wfd_depthList_le_iff as' _).mpr key
    simp only [wfdDepth]; omega
  · cases h

theorem wfd_ruleMulFlatten_depth (h : ruleMulFlatten e = some e') :
    wfdDepth e' ≤ wfdDepth e + 1 := by
  unfold ruleMulFlatten at h
  split at h
  · rename_i f as
    simp only [Option.map_eq_some_iff] at h
    obtain ⟨as', h1, rfl⟩ := h
    have key := forall_spliceFirst (fun a => wfdDepth a ≤ wfdDepthList as) asMul (by
      intro e inner he hP x hx
      cases e <;> simp [asMul] at he
      subst he
      have := wfd_depth_mem hx; simp only [wfdDepth] at hP; omega) _ _ h1
      (fun a ha => wfd_depth_mem ha)
    have := (wfd_depthList_le_iff as' _).mpr key
    simp only [wfdDepth]; omega
  · cases h

theorem wfd_ruleAddZeros_depth (h : ruleAddZeros N e = some e') :
    wfdDepth e' ≤ wfdDepth e + 1 := by
  unfold ruleAddZeros at h
  split at h
  · rename_i f as
    simp only at h
    split at h
    · cases h
    · obtain rfl := Option.some.inj h
      have := wfd_depthList_filter (fun e => !isConstSuch N.isZero e) as
      simp only [wfdDepth]; omega
  · cases h

theorem wfd_ruleMulOnes_depth (h : ruleMulOnes N e = some e') :
    wfdDepth e' ≤ wfdDepth e + 1 := by
  unfold ruleMulOnes at h
  split at h
  · rename_i f as
    simp only at h
    split at h
    · cases h
    · obtain rfl := Option.some.inj h
      have := wfd_depthList_filter (fun e => !isConstSuch (fun v => N.eq v N.one) e) as
      simp only [wfdDepth]; omega
  · cases h

theorem wfd_ruleAddConsts_depth (h : ruleAddConsts N e = some e') :
    wfdDepth e' ≤ wfdDepth e + 1 := by
  unfold ruleAddConsts at h
  split at h
  · rename_i f as
    simp only at h
    split at h
    · cases h
    · obtain rfl := Option.some.inj h
      have := wfd_depthList_filter (fun e => (asConst e).isNone) as
      simp only [wfdDepth, wfd_depthList_append, wfdDepthList]; omega
  · cases h

theorem wfd_ruleMulConsts_depth (h : ruleMulConsts N e = some e') :
    wfdDepth e' ≤ wfdDepth e + 1 := by
  unfold ruleMulConsts at h
  split at h
  · rename_i f as
    simp only at h
    split at h
    · cases h
    · obtain rfl := Option.some.inj h
      have := wfd_depthList_filter (fun e => (asConst e).isNone) as
      simp only [wfdDepth, wfd_depthList_append, wfdDepthList]; omega
  · cases h

theorem wfd_ruleMulNegs_depth (h : ruleMulNegs N e = some e') :
    wfdDepth e' ≤ wfdDepth e + 1 := by
  unfold ruleMulNegs at h
  split at h
  · rename_i f as
    simp only at h
    have h1 := wfd_depthList_filter (fun e => (asNeg e).isNone) as
    have h2 := wfd_depthList_filterMap asNeg (fun a u hau => by
      obtain ⟨g, rfl⟩ := wfd_asNeg_some hau; simp only [wfdDepth]; omega) as
    split at h
    · cases h
    · split at h
      · obtain rfl := Option.some.inj h
        simp only [wfdDepth, wfd_depthList_append]; omega
      · obtain rfl := Option.some.inj h
        simp only [wfdDepth, wfd_depthList_append, wfdDepthList]; omega
  · cases h

theorem wfd_ruleAddLogs_depth (h : ruleAddLogs N e = some e') :
    wfdDepth e' ≤ wfdDepth e + 1 := by
  unfold ruleAddLogs at h
  split at h
  · simp only [Option.map_eq_some_iff] at h
    obtain ⟨as', h1, rfl⟩ := h
    have := wfd_consolidate_depth asLog N.eq _ (by
      intro a k u ha
      cases a <;> simp [asLog] at ha
      obtain ⟨rfl, rfl⟩ := ha; simp only [wfdDepth]; omega)
      (by intro k vs; simp only [wfdDepth]; omega) _ _ h1
    simp only [wfdDepth]; omega
  · cases h

theorem wfd_ruleMulNPows_depth (h : ruleMulNPows e = some e') :
    wfdDepth e' ≤ wfdDepth e + 1 := by
  unfold ruleMulNPows at h
  split at h
  · simp only [Option.map_eq_some_iff] at h
    obtain ⟨as', h1, rfl⟩ := h
    have := wfd_consolidate_depth asNPow _ _ (by
      intro a k u ha
      cases a <;> simp [asNPow] at ha
      obtain ⟨rfl, rfl⟩ := ha; simp only [wfdDepth]; omega)
      (by intro k vs; simp only [wfdDepth]; omega) _ _ h1
    simp only [wfdDepth]; omega
  · cases h

theorem wfd_ruleMulNRoots_depth (h : ruleMulNRoots e = some e') :
    wfdDepth e' ≤ wfdDepth e + 1 := by
  unfold ruleMulNRoots at h
  split at h
  · simp only [Option.map_eq_some_iff] at h
    obtain ⟨as', h1, rfl⟩ := h
    have := wfd_consolidate_depth asNRoot _ _ (by
      intro a k u ha
      cases a <;> simp [asNRoot] at ha
      obtain ⟨rfl, rfl⟩ := ha; simp only [wfdDepth]; omega)
      (by intro k vs; simp only [wfdDepth]; omega) _ _ h1
    simp only [wfdDepth]; omega
  · cases h

theorem wfd_ruleMulExps_depth (h : ruleMulExps N e = some e') :
    wfdDepth e' ≤ wfdDepth e + 1 := by
  unfold ruleMulExps at h
  split at h
  · simp only [Option.map_eq_some_iff] at h
    obtain ⟨as', h1, rfl⟩ := h
    have := wfd_consolidate_depth asExp N.eq _ (by
      intro a k u ha
      cases a <;> simp [asExp] at ha
      obtain ⟨rfl, rfl⟩ := ha; simp only [wfdDepth]; omega)
      (by intro k vs; simp only [wfdDepth]; omega) _ _ h1
    simp only [wfdDepth]; omega
  · cases h

theorem wfd_ruleNegSum_depth (h : ruleNegSum e = some e') : wfdDepth e' ≤ wfdDepth e + 1 := by
  unfold ruleNegSum at h
  split at h
  · rename_i f g as
    obtain rfl := Option.some.inj h
    have := wfd_depthList_map_succ mkNeg (fun a => by simp only [wfdDepth]) as
    simp only [wfdDepth]; omega
  · cases h

theorem wfd_ruleRecipProd_depth (h : ruleRecipProd e = some e') :
    wfdDepth e' ≤ wfdDepth e + 1 := by
  unfold ruleRecipProd at h
  split at h
  · rename_i f g as
    obtain rfl := Option.some.inj h
    have := wfd_depthList_map_succ mkRecip (fun a => by simp only [wfdDepth]) as
    simp only [wfdDepth]; omega
  · cases h

theorem wfd_ruleNPowRoot_depth (h : ruleNPowRoot e = some e') :
    wfdDepth e' ≤ wfdDepth e + 1 := by
  unfold ruleNPowRoot at h
  split at h
  · split at h
    · obtain rfl := Option.some.inj h; simp only [wfdDepth]; omega
    · simp only at h
      split at h
      · obtain rfl := Option.some.inj h; simp only [wfdDepth]; omega
      · cases h
  · cases h

theorem wfd_ruleMinusToSum_depth (h : ruleMinusToSum e = some e') :
    wfdDepth e' ≤ wfdDepth e + 1 := by unfold ruleMinusToSum at h; wfd_simple_rule
theorem wfd_ruleNegNeg_depth (h : ruleNegNeg e = some e') : wfdDepth e' ≤ wfdDepth e + 1 := by
  unfold ruleNegNeg at h; wfd_simple_rule
theorem wfd_ruleMulZero_depth (h : ruleMulZero N e = some e') : wfdDepth e' ≤ wfdDepth e + 1 := by
  unfold ruleMulZero at h; wfd_simple_rule
theorem wfd_ruleDivToMul_depth (h : ruleDivToMul e = some e') : wfdDepth e' ≤ wfdDepth e + 1 := by
  unfold ruleDivToMul at h; wfd_simple_rule
theorem wfd_ruleRecipRecip_depth (h : ruleRecipRecip e = some e') :
    wfdDepth e' ≤ wfdDepth e + 1 := by unfold ruleRecipRecip at h; wfd_simple_rule
theorem wfd_ruleRecipNeg_depth (h : ruleRecipNeg e = some e') : wfdDepth e' ≤ wfdDepth e + 1 := by
  unfold ruleRecipNeg at h; wfd_simple_rule
theorem wfd_rulePowOne_depth (h : rulePowOne N e = some e') : wfdDepth e' ≤ wfdDepth e + 1 := by
  unfold rulePowOne at h; wfd_simple_rule
theorem wfd_rulePowZero_depth (h : rulePowZero N e = some e') : wfdDepth e' ≤ wfdDepth e + 1 := by
  unfold rulePowZero at h; wfd_simple_rule
theorem wfd_ruleOnePow_depth (h : ruleOnePow N e = some e') : wfdDepth e' ≤ wfdDepth e + 1 := by
  unfold ruleOnePow at h; wfd_simple_rule
theorem wfd_rulePowNat_depth (h : rulePowNat N e = some e') : wfdDepth e' ≤ wfdDepth e + 1 := by
  unfold rulePowNat at h; wfd_simple_rule
theorem wfd_rulePowNegOne_depth (h : rulePowNegOne N e = some e') :
    wfdDepth e' ≤ wfdDepth e + 1 := by unfold rulePowNegOne at h; wfd_simple_rule
theorem wfd_rulePowConstBase_depth (h : rulePowConstBase N e = some e') :
    wfdDepth e' ≤ wfdDepth e + 1 := by unfold rulePowConstBase at h; wfd_simple_rule
theorem wfd_rulePowPow_depth (h : rulePowPow e = some e') : wfdDepth e' ≤ wfdDepth e + 1 := by
  unfold rulePowPow at h; wfd_simple_rule
theorem wfd_rulePowNegExp_depth (h : rulePowNegExp e = some e') :
    wfdDepth e' ≤ wfdDepth e + 1 := by unfold rulePowNegExp at h; wfd_simple_rule
theorem wfd_rulePowRecipBase_depth (h : rulePowRecipBase e = some e') :
    wfdDepth e' ≤ wfdDepth e + 1 := by unfold rulePowRecipBase at h; wfd_simple_rule
theorem wfd_ruleNPowOne_depth (h : ruleNPowOne e = some e') : wfdDepth e' ≤ wfdDepth e + 1 := by
  unfold ruleNPowOne at h; wfd_simple_rule
theorem wfd_ruleNPowPow_depth (h : ruleNPowPow e = some e') : wfdDepth e' ≤ wfdDepth e + 1 := by
  unfold ruleNPowPow at h; wfd_simple_rule
theorem wfd_ruleNPowNeg_depth (h : ruleNPowNeg e = some e') : wfdDepth e' ≤ wfdDepth e + 1 := by
  unfold ruleNPowNeg at h; wfd_simple_rule
theorem wfd_ruleNPowRecip_depth (h : ruleNPowRecip e = some e') :
    wfdDepth e' ≤ wfdDepth e + 1 := by unfold ruleNPowRecip at h; wfd_simple_rule
theorem wfd_ruleNPowExp_depth (h : ruleNPowExp N e = some e') : wfdDepth e' ≤ wfdDepth e + 1 := by
  unfold ruleNPowExp at h; wfd_simple_rule
theorem wfd_ruleNRootOne_depth (h : ruleNRootOne e = some e') : wfdDepth e' ≤ wfdDepth e + 1 := by
  unfold ruleNRootOne at h; wfd_simple_rule
theorem wfd_ruleNRootPow_depth (h : ruleNRootPow e = some e') : wfdDepth e' ≤ wfdDepth e + 1 := by
  unfold ruleNRootPow at h; wfd_simple_rule
theorem wfd_ruleNRootRoot_depth (h : ruleNRootRoot e = some e') :
    wfdDepth e' ≤ wfdDepth e + 1 := by unfold ruleNRootRoot at h; wfd_simple_rule
theorem wfd_ruleNRootNeg_depth (h : ruleNRootNeg e = some e') : wfdDepth e' ≤ wfdDepth e + 1 := by
  unfold ruleNRootNeg at h; wfd_simple_rule
theorem wfd_ruleNRootRecip_depth (h : ruleNRootRecip e = some e') :
    wfdDepth e' ≤ wfdDepth e + 1 := by unfold ruleNRootRecip at h; wfd_simple_rule
theorem wfd_ruleExpLog_depth (h : ruleExpLog N e = some e') : wfdDepth e' ≤ wfdDepth e + 1 := by
  unfold ruleExpLog at h; wfd_simple_rule
theorem wfd_ruleExpNeg_depth (h : ruleExpNeg e = some e') : wfdDepth e' ≤ wfdDepth e + 1 := by
  unfold ruleExpNeg at h; wfd_simple_rule
theorem wfd_ruleLogExp_depth (h : ruleLogExp N e = some e') : wfdDepth e' ≤ wfdDepth e + 1 := by
  unfold ruleLogExp at h; wfd_simple_rule
theorem wfd_ruleLogRecip_depth (h : ruleLogRecip e = some e') : wfdDepth e' ≤ wfdDepth e + 1 := by
  unfold ruleLogRecip at h; wfd_simple_rule
theorem wfd_ruleLogNPow_depth (h : ruleLogNPow N e = some e') : wfdDepth e' ≤ wfdDepth e + 1 := by
  unfold ruleLogNPow at h; wfd_simple_rule
theorem wfd_ruleCosNeg_depth (h : ruleCosNeg e = some e') : wfdDepth e' ≤ wfdDepth e + 1 := by
  unfold ruleCosNeg at h; wfd_simple_rule
theorem wfd_ruleSinNeg_depth (h : ruleSinNeg e = some e') : wfdDepth e' ≤ wfdDepth e + 1 := by
  unfold ruleSinNeg at h; wfd_simple_rule

end RuleDepth

/-- **every one of the 46 rules raises the depth by at most one** -/
theorem wfd_rule_depth (N : Num α) (r : RuleId) {e e' : Expr α} (h : r.apply N e = some e') :
    wfdDepth e' ≤ wfdDepth e + 1 := by
  cases r <;> simp only [RuleId.apply] at h
  · exact wfd_ruleAddFlatten_depth h
  · exact wfd_ruleAddZeros_depth h
  · exact wfd_ruleAddLogs_depth h
  · exact wfd_ruleAddConsts_depth h
  · exact wfd_ruleMinusToSum_depth h
  · exact wfd_ruleNegNeg_depth h
  · exact wfd_ruleNegSum_depth h
  · exact wfd_ruleMulFlatten_depth h
  · exact wfd_ruleMulZero_depth h
  · exact wfd_ruleMulOnes_depth h
  · exact wfd_ruleMulNegs_depth h
  · exact wfd_ruleMulNPows_depth h
  · exact wfd_ruleMulNRoots_depth h
  · exact wfd_ruleMulExps_depth h
  · exact wfd_ruleMulConsts_depth h
  · exact wfd_ruleDivToMul_depth h
  · exact wfd_ruleRecipRecip_depth h
  · exact wfd_ruleRecipNeg_depth h
  · exact wfd_ruleRecipProd_depth h
  · exact wfd_rulePowOne_depth h
  · exact wfd_rulePowZero_depth h
  · exact wfd_ruleOnePow_depth h
  · exact wfd_rulePowNat_depth h
  · exact wfd_rulePowNegOne_depth h
  · exact wfd_rulePowConstBase_depth h
  · exact wfd_rulePowPow_depth h
  · exact wfd_rulePowNegExp_depth h
  · exact wfd_rulePowRecipBase_depth h
  · exact wfd_ruleNPowOne_depth h
  · exact wfd_ruleNPowRoot_depth h
  · exact wfd_ruleNPowPow_depth h
  · exact wfd_ruleNPowNeg_depth h
  · exact wfd_ruleNPowRecip_depth h
  · exact wfd_ruleNPowExp_depth h
  · exact wfd_ruleNRootOne_depth h
  · exact wfd_ruleNRootPow_depth h
  · exact wfd_ruleNRootRoot_depth h
  · exact wfd_ruleNRootNeg_depth h
  · exact wfd_ruleNRootRecip_depth h
  · exact wfd_ruleExpLog_depth h
  · exact wfd_ruleExpNeg_depth h
  · exact wfd_ruleLogExp_depth h
  · exact wfd_ruleLogRecip_depth h
  · exact wfd_ruleLogNPow_depth h
  · exact wfd_ruleCosNeg_depth h
  · exact wfd_ruleSinNeg_depth h

/-! ### one step, and the `_fully_reduce` loop -/

theorem wfd_stepTop_depth (N : Num α) (e : Expr α) :
    wfdDepth (stepTop N e).1 ≤ wfdDepth e + 1 := by
  unfold stepTop
  split
  · rename_i r e' hr
    exact wfd_rule_depth N r (firstRule_some_m N e _ r e' hr)
  · simp

theorem wfd_stepNode_depth (N : Num α) {self : Expr α} (sc : Unit → Option (Expr α × StepEvent))
    (hchild : ∀ r, sc () = some r → wfdDepth r.1 ≤ wfdDepth self + 1) :
    wfdDepth (stepNode N self sc).1 ≤ wfdDepth self + 1 := by
  unfold stepNode
  split
  · exact Nat.le_succ _
  · split
    · have := wfd_depth_pos self
      simp only [wfdDepth]; omega
    · cases hsc : sc () with
      | some r => exact hchild r hsc
      | none =>
        simp only
        split
        · have := wfd_stepTop_depth N self.markFailed
          simpa using this
        · exact wfd_stepTop_depth N self

mutual
/-- **one call of `_take_reduction_step` raises the depth by at most one** -/
theorem wfd_stepF_depth (N : Num α) : ∀ e : Expr α, wfdDepth (stepF N e).1 ≤ wfdDepth e + 1
  | .const f v => by rw [stepF]; simp [wfdDepth]
  | .var f x => by rw [stepF]; simp [wfdDepth]
  | .add f as => by
    rw [stepF]
    refine wfd_stepNode_depth N _ ?_
    intro q hq
    simp only [Option.map_eq_some_iff] at hq
    obtain ⟨p, hp, rfl⟩ := hq
    have := wfd_stepFirstUnreduced_depth N as p hp
    simp only [wfdDepth]; omega
  | .mul f as => by
    rw [stepF]
    refine wfd_stepNode_depth N _ ?_
    intro q hq
    simp only [Option.map_eq_some_iff] at hq
    obtain ⟨p, hp, rfl⟩ := hq
    have := wfd_stepFirstUnreduced_depth N as p hp
    simp only [wfdDepth]; omega
  | .minus f l r => by
    rw [stepF]
    refine wfd_stepNode_depth N _ ?_
    intro q hq
    simp only at hq
    split at hq
    · obtain rfl := Option.some.inj hq
      have := wfd_stepF_depth N l
      simp only [wfdDepth]; omega
    · split at hq
      · obtain rfl := Option.some.inj hq
        have := wfd_stepF_depth N r
        simp only [wfdDepth]; omega
      · cases hq
  | .div f l r => by
    rw [stepF]
    refine wfd_stepNode_depth N _ ?_
    intro q hq
    simp only at hq
    split at hq
    · obtain rfl := Option.some.inj hq
      have := wfd_stepF_depth N l
      simp only [wfdDepth]; omega
    · split at hq
      · obtain rfl := Option.some.inj hq
        have := wfd_stepF_depth N r
        simp only [wfdDepth]; omega
      · cases hq
  | .pow f l r => by
    rw [stepF]
    refine wfd_stepNode_depth N _ ?_
    intro q hq
    simp only at hq
    split at hq
    · obtain rfl := Option.some.inj hq
      have := wfd_stepF_depth N l
      simp only [wfdDepth]; omega
    · split at hq
      · obtain rfl := Option.some.inj hq
        have := wfd_stepF_depth N r
        simp only [wfdDepth]; omega
      · cases hq
  | .neg f u => by
    rw [stepF]
    refine wfd_stepNode_depth N _ ?_
    intro q hq
    simp only at hq
    split at hq
    · obtain rfl := Option.some.inj hq
      have := wfd_stepF_depth N u
      simp only [wfdDepth]; omega
    · cases hq
  | .recip f u => by
    rw [stepF]
    refine wfd_stepNode_depth N _ ?_
    intro q hq
    simp only at hq
    split at hq
    · obtain rfl := Option.some.inj hq
      have := wfd_stepF_depth N u
      simp only [wfdDepth]; omega
    · cases hq
  | .npow f u n => by
    rw [stepF]
    refine wfd_stepNode_depth N _ ?_
    intro q hq
    simp only at hq
    split at hq
    · obtain rfl := Option.some.inj hq
      have := wfd_stepF_depth N u
      simp only [wfdDepth]; omega
    · cases hq
  | .nroot f u n => by
    rw [stepF]
    refine wfd_stepNode_depth N _ ?_
    intro q hq
    simp only at hq
    split at hq
    · obtain rfl := Option.some.inj hq
      have := wfd_stepF_depth N u
      simp only [wfdDepth]; omega
    · cases hq
  | .exp f u b => by
    rw [stepF]
    refine wfd_stepNode_depth N _ ?_
    intro q hq
    simp only at hq
    split at hq
    · obtain rfl := Option.some.inj hq
      have := wfd_stepF_depth N u
      simp only [wfdDepth]; omega
    · cases hq
  | .log f u b => by
    rw [stepF]
    refine wfd_stepNode_depth N _ ?_
    intro q hq
    simp only at hq
    split at hq
    · obtain rfl := Option.some.inj hq
      have := wfd_stepF_depth N u
      simp only [wfdDepth]; omega
    · cases hq
  | .cos f u => by
    rw [stepF]
    refine wfd_stepNode_depth N _ ?_
    intro q hq
    simp only at hq
    split at hq
    · obtain rfl := Option.some.inj hq
      have := wfd_stepF_depth N u
      simp only [wfdDepth]; omega
    · cases hq
  | .sin f u => by
    rw [stepF]
    refine wfd_stepNode_depth N _ ?_
    intro q hq
    simp only at hq
    split at hq
    · obtain rfl := Option.some.inj hq
      have := wfd_stepF_depth N u
      simp only [wfdDepth]; omega
    · cases hq
theorem wfd_stepFirstUnreduced_depth (N : Num α) :
    ∀ (as : List (Expr α)) (p : List (Expr α) × StepEvent), stepFirstUnreduced N as = some p →
      wfdDepthList p.1 ≤ wfdDepthList as + 1
  | [], p, h => by simp [stepFirstUnreduced] at h
  | e :: es, p, h => by
    rw [stepFirstUnreduced] at h
    split at h
    · obtain rfl := Option.some.inj h
      have := wfd_stepF_depth N e
      simp only [wfdDepthList]; omega
    · simp only [Option.map_eq_some_iff] at h
      obtain ⟨q, hq, rfl⟩ := h
      have := wfd_stepFirstUnreduced_depth N es q hq
      simp only [wfdDepthList]; omega
end

/-- the loop takes at most `fuel` steps, each of which adds at most one level -/
theorem wfd_fullyReduceLoop_depth (N : Num α) :
    ∀ (fuel : Nat) (e : Expr α) (k : Nat) (tr : List StepEvent),
      wfdDepth (fullyReduceLoop N fuel e k tr).expr ≤ wfdDepth e + fuel
  | 0, e, k, tr => by simp [fullyReduceLoop]
  | fuel + 1, e, k, tr => by
    unfold fullyReduceLoop
    split
    · exact Nat.le_add_right _ _
    · have h1 := wfd_fullyReduceLoop_depth N fuel (stepF N e).1 (k + 1) ((stepF N e).2 :: tr)
      have h2 := wfd_stepF_depth N e
      simp only at h1 ⊢
      omega

/-- **`_fully_reduce` with budget `bound` returns a tree at most `bound` levels deeper** -/
theorem wfd_fullyReduceWith_depth (N : Num α) (bound : Nat) (e : Expr α) :
    wfdDepth (fullyReduceWith N bound e).expr ≤ wfdDepth e + bound :=
  wfd_fullyReduceLoop_depth N bound e 0 []

/-- without the warning, the loop ended on a flagged root -/
theorem wfd_fullyReduceLoop_red (N : Num α) :
    ∀ (fuel : Nat) (e : Expr α) (k : Nat) (tr : List StepEvent),
      (fullyReduceLoop N fuel e k tr).warned = false →
        (fullyReduceLoop N fuel e k tr).expr.isRed = true
  | 0, e, k, tr, hw => by simp [fullyReduceLoop] at hw
  | fuel + 1, e, k, tr, hw => by
    unfold fullyReduceLoop at hw ⊢
    split
    · assumption
    · rename_i he
      simp only [he] at hw
      exact wfd_fullyReduceLoop_red N fuel _ _ _ hw

/-! ### `_normalize` does not run out of fuel -/

/-- **with honest flags and no warning, `_normalize` needs at most `2 · (depth + budget) + 1` units of
fuel** -/
theorem wfd_normalizeF_some (N : Num α) (bound fuel : Nat) {e : Expr α} (hs : Settled N e)
    (hw : (fullyReduceWith N bound e).warned = false)
    (hd : 2 * (wfdDepth e + bound) + 1 ≤ fuel) : ∃ r, normalizeF N bound fuel e = some r := by
  obtain ⟨f, rfl⟩ : ∃ f, fuel = f + 1 := ⟨fuel - 1, by omega⟩
  have hred : wfdAllRed (fullyReduceWith N bound e).expr :=
    wfd_allRed_of_settled (fullyReduceLoop_settled N bound e 0 [] hs hw)
      (wfd_fullyReduceLoop_red N bound e 0 [] hw)
  have hdep := wfd_fullyReduceWith_depth N bound e
  obtain ⟨r, hr⟩ := wfd_normReducedF_some N bound f hred (by omega)
  exact ⟨(r.1, r.2 || (fullyReduceWith N bound e).warned), by simp [normalizeF, hr]⟩

/-- the sharper form: in terms of the depth of the reduct itself -/
theorem wfd_normalizeF_some' (N : Num α) (bound fuel : Nat) {e : Expr α} (hs : Settled N e)
    (hw : (fullyReduceWith N bound e).warned = false)
    (hd : 2 * wfdDepth (fullyReduceWith N bound e).expr + 1 ≤ fuel) :
    ∃ r, normalizeF N bound fuel e = some r := by
  obtain ⟨f, rfl⟩ : ∃ f, fuel = f + 1 := ⟨fuel - 1, by omega⟩
  have hred : wfdAllRed (fullyReduceWith N bound e).expr :=
    wfd_allRed_of_settled (fullyReduceLoop_settled N bound e 0 [] hs hw)
      (wfd_fullyReduceLoop_red N bound e 0 [] hw)
  obtain ⟨r, hr⟩ := wfd_normReducedF_some N bound f hred (by omega)
  exact ⟨(r.1, r.2 || (fullyReduceWith N bound e).warned), by simp [normalizeF, hr]⟩

/-- with the constants of the implementation (`REDUCTION_STEPS_BOUND = 1000`,
`NORMALIZE_FUEL = 100000`): depth at most 48999 -/
theorem wfd_normalize_some (N : Num α) {e : Expr α} (hs : Settled N e)
    (hw : (fullyReduce N e).warned = false) (hd : wfdDepth e ≤ 48999) :
    ∃ r, normalize N e = some r :=
  wfd_normalizeF_some N REDUCTION_STEPS_BOUND NORMALIZE_FUEL hs hw (by
    simp only [REDUCTION_STEPS_BOUND, NORMALIZE_FUEL]; omega)

end Smooth
