/-
Proofs/Forward — forward mode (`fwdG`, the model of `_numeric_partial`) over the reals:
on supplied points of the domain it returns the derivative of the denotation along the coordinate;
on supplied points outside the domain it answers `DomainError`; it never answers anything but
`DomainError` / `CoordinateMissing`.
-/
import Smooth.Proofs.Calculus

namespace Smooth
open Classical

/-- specification of one forward-mode query -/
def FwdSpec (p : Point ℝ) (x : String) (e : Expr ℝ) (r : R ℝ) : Prop :=
  (Supp p e → Dom (valOf p) e →
      ∃ d, r = .ok d ∧ HasDerivAt (fun t => den (upd (valOf p) x t) e) d (valOf p x)) ∧
  (Supp p e → ¬ Dom (valOf p) e → r = .error .domain) ∧
  (∀ err, r = .error err → err = .domain ∨ err = .missing)

def FwdSpecL (p : Point ℝ) (x : String) (es : List (Expr ℝ)) (r : R (List ℝ)) : Prop :=
  (SuppList p es → DomList (valOf p) es →
      ∃ ds, r = .ok ds ∧
        DerivL (es.map fun e t => den (upd (valOf p) x t) e) ds (valOf p x)) ∧
  (SuppList p es → ¬ DomList (valOf p) es → r = .error .domain) ∧
  (∀ err, r = .error err → err = .domain ∨ err = .missing)

/-- an immediate error: the three clauses of `FwdSpec` for a query that failed with `err` -/
theorem fwdSpec_of_error {p : Point ℝ} {x : String} {e : Expr ℝ} {err : Err}
    (h1 : ¬ (Supp p e ∧ Dom (valOf p) e)) (h2 : Supp p e → err = .domain)
    (h3 : err = .domain ∨ err = .missing) : FwdSpec p x e (.error err) := by
  refine ⟨fun hs hd => absurd ⟨hs, hd⟩ h1, fun hs _ => by rw [h2 hs], ?_⟩
  intro err' h; injection h with h; subst h; exact h3

/-- the error outcomes of an evaluation, as needed above -/
theorem good_error_facts {β : Type} {S D : Prop} {r : R β} {v : β} (h : Good S D r v) {err : Err}
    (he : r = .error err) : ¬ (S ∧ D) ∧ (S → err = .domain) ∧ (err = .domain ∨ err = .missing) := by
  rcases h with ⟨_, _, hr⟩ | ⟨hs, hd, hr⟩ | ⟨hs, hr | hr⟩ <;> rw [hr] at he
  · cases he
  · injection he with he; subst he; exact ⟨fun h => hd h.2, fun _ => rfl, Or.inl rfl⟩
  · injection he with he; subst he; exact ⟨fun h => hs h.1, fun h => absurd h hs, Or.inr rfl⟩
  · injection he with he; subst he; exact ⟨fun h => hs h.1, fun _ => rfl, Or.inl rfl⟩

/-- the shared shape of the eight unary classes -/
theorem fwd_unary_spec {p : Point ℝ} {x : String} {e u : Expr ℝ} (G : ℝ → Prop) [DecidablePred G]
    (f c : ℝ → ℝ)
    (hgood : Good (Supp p u) (Dom (valOf p) u) (evalG realNum p u) (den (valOf p) u))
    (ih : FwdSpec p x u (fwdG realNum p x u))
    (hS : Supp p e ↔ Supp p u) (hD : Dom (valOf p) e ↔ Dom (valOf p) u ∧ G (den (valOf p) u))
    (hden : ∀ ρ', den ρ' e = f (den ρ' u))
    (hverify : ∀ a, unaryVerify realNum e a = if G a then .ok () else .error .domain)
    (hformula : Supp p u → Dom (valOf p) u → G (den (valOf p) u) →
      ∀ m, unaryFormula realNum p e m = .ok (c (den (valOf p) u) * m))
    (hderiv : ∀ a, G a → HasDerivAt f (c a) a) :
    FwdSpec p x e (do
      let a ← evalG realNum p u
      unaryVerify realNum e a
      let d ← fwdG realNum p x u
      unaryFormula realNum p e d) := by
  cases hev : evalG realNum p u with
  | error err =>
    obtain ⟨h1, h2, h3⟩ := good_error_facts hgood hev
    simp only [bind, Except.bind]
    exact fwdSpec_of_error (fun h => h1 ⟨hS.mp h.1, (hD.mp h.2).1⟩) (fun h => h2 (hS.mp h)) h3
  | ok a =>
    obtain ⟨hs, hd, ha⟩ := hgood.ok_iff.mp hev
    subst ha
    by_cases hg : G (den (valOf p) u)
    · obtain ⟨du, hdu, hder⟩ := ih.1 hs hd
      have hfm := hformula hs hd hg du
      simp only [bind, Except.bind, hverify, hg, if_true, hdu, hfm]
      refine ⟨fun _ _ => ⟨_, rfl, ?_⟩, fun _ hnd => absurd (hD.mpr ⟨hd, hg⟩) hnd, ?_⟩
      · have hfun : (fun t => den (upd (valOf p) x t) e) =
            f ∘ fun t => den (upd (valOf p) x t) u := by
          funext t; simp [hden]
        rw [hfun]
        have h0 : den (upd (valOf p) x (valOf p x)) u = den (valOf p) u := by simp
        have hc : HasDerivAt f (c (den (valOf p) u)) (den (upd (valOf p) x (valOf p x)) u) := by
          rw [h0]; exact hderiv _ hg
        exact HasDerivAt.comp (valOf p x) hc hder
      · intro err h; cases h
    · simp only [bind, Except.bind, hverify, hg, if_false]
      exact fwdSpec_of_error (fun h => hg (hD.mp h.2).2) (fun _ => rfl) (Or.inl rfl)

/-! ### per-class facts for the unary formulas -/

theorem mfDivide_real {x y : ℝ} (hy : y ≠ 0) : mfDivide realNum x y = .ok (x / y) := by
  simp [mfDivide, hy, pyTrueDiv_real hy]

theorem mfLogarithm_base_e {a : ℝ} (ha : 0 < a) :
    mfLogarithm realNum a (Real.exp 1) = .ok (Real.log a) := by
  have h1 : Real.exp 1 ≠ 0 := ne_of_gt (Real.exp_pos 1)
  have h2 : ¬ Real.exp 1 < 0 := not_lt.mpr (Real.exp_pos 1).le
  have h3 : a ≠ 0 := ne_of_gt ha
  have h4 : ¬ a < 0 := not_lt.mpr ha.le
  simp [mfLogarithm, pyLog, h1, h2, h3, h4, exp_one_ne_one]

section unary
variable {p : Point ℝ} {u : Expr ℝ} {g : Flags}

theorem neg_formula (m : ℝ) : unaryFormula realNum p (.neg g u) m = .ok ((-1) * m) := by
  simp [unaryFormula, pure, Except.pure]

theorem recip_formula (hs : Supp p u) (hd : Dom (valOf p) u) (hu : WF u)
    (ha : den (valOf p) u ≠ 0) (m : ℝ) :
    unaryFormula realNum p (.recip g u) m = .ok ((-(den (valOf p) u ^ 2)⁻¹) * m) := by
  have hev := (evalR_good p u hu).ok_iff.mpr ⟨hs, hd, rfl⟩
  have hsq : den (valOf p) u ^ 2 ≠ 0 := pow_ne_zero 2 ha
  simp only [unaryFormula, hev, bind, Except.bind, nthPower_local (by norm_num : 1 ≤ 2),
    mfDivide_real hsq, pure, Except.pure, mfNegation_real]
  congr 1
  field_simp

theorem npow_formula (hs : Supp p u) (hd : Dom (valOf p) u) (hu : WF u) {n : ℕ} (hn : 1 ≤ n)
    (m : ℝ) :
    unaryFormula realNum p (.npow g u n) m =
      .ok ((n * den (valOf p) u ^ (n - 1)) * m) := by
  have hev := (evalR_good p u hu).ok_iff.mpr ⟨hs, hd, rfl⟩
  by_cases h1 : n = 1
  · subst h1; simp [unaryFormula, pure, Except.pure]
  · have h2 : 1 ≤ n - 1 := by omega
    simp [unaryFormula, h1, hev, bind, Except.bind, nthPower_local h2, pure, Except.pure,
      mul_assoc]

theorem nroot_formula (hs : Supp p u) (hd : Dom (valOf p) u) (hu : WF u) {n : ℕ} (hn : 1 ≤ n)
    (hok : RootOK n (den (valOf p) u)) (m : ℝ) :
    unaryFormula realNum p (.nroot g u n) m =
      .ok ((if n = 1 then 1 else (n * sroot n (den (valOf p) u) ^ (n - 1))⁻¹) * m) := by
  by_cases h1 : n = 1
  · subst h1; simp [unaryFormula, pure, Except.pure]
  · have h2 : 2 ≤ n := by omega
    have ha : den (valOf p) u ≠ 0 := hok.1 h2
    have hwf : WF (.nroot g u n) := ⟨hn, hu⟩
    have hev : evalG realNum p (.nroot g u n) = .ok (sroot n (den (valOf p) u)) :=
      (evalR_good p _ hwf).ok_iff.mpr ⟨hs, ⟨hd, hok⟩, rfl⟩
    have hn1 : 1 ≤ n - 1 := by omega
    have hne : (n : ℝ) * sroot n (den (valOf p) u) ^ (n - 1) ≠ 0 := by
      have : (n : ℝ) ≠ 0 := by exact_mod_cast (by omega : n ≠ 0)
      exact mul_ne_zero this (pow_ne_zero _ (sroot_ne_zero _ ha))
    simp only [unaryFormula, h1, if_false, hev, bind, Except.bind, nthPower_local hn1,
      mfMultiply_real, List.prod_cons, List.prod_nil, mul_one, realNum_ofNat, mfDivide_real hne]
    congr 1
    rw [div_eq_mul_inv, mul_comm]

theorem exp_formula (hs : Supp p u) (hd : Dom (valOf p) u) (hu : WF u) {b : ℝ} (hb : 0 < b) (m : ℝ) :
    unaryFormula realNum p (.exp g u b) m =
      .ok ((Real.log b * Real.exp (den (valOf p) u * Real.log b)) * m) := by
  have hwf : WF (.exp g u b) := ⟨hb, hu⟩
  have hev : evalG realNum p (.exp g u b) = .ok (Real.exp (den (valOf p) u * Real.log b)) :=
    (evalR_good p _ hwf).ok_iff.mpr ⟨hs, hd, rfl⟩
  by_cases h1 : b = 1
  · subst h1; simp [unaryFormula, pure, Except.pure]
  by_cases he : b = Real.exp 1
  · subst he
    simp [unaryFormula, h1, hev, bind, Except.bind, pure, Except.pure]
  · simp [unaryFormula, h1, he, hev, bind, Except.bind, pure, Except.pure, mfLogarithm_base_e hb,
      mul_assoc]

theorem log_formula (hs : Supp p u) (hd : Dom (valOf p) u) (hu : WF u) {b : ℝ} (hb : 0 < b)
    (hb1 : b ≠ 1) (ha : 0 < den (valOf p) u) (m : ℝ) :
    unaryFormula realNum p (.log g u b) m =
      .ok ((den (valOf p) u * Real.log b)⁻¹ * m) := by
  have hev := (evalR_good p u hu).ok_iff.mpr ⟨hs, hd, rfl⟩
  have hane : den (valOf p) u ≠ 0 := ne_of_gt ha
  have hlb : Real.log b ≠ 0 := by
    intro h
    rcases Real.log_eq_zero.mp h with h | h | h
    · linarith
    · exact hb1 h
    · linarith
  by_cases he : b = Real.exp 1
  · subst he
    simp only [unaryFormula, hev, bind, Except.bind, realNum_eq, realNum_e, decide_true, if_true,
      mfDivide_real hane, Real.log_exp, mul_one]
    congr 1
    rw [div_eq_mul_inv, mul_comm]
  · have hne : Real.log b * den (valOf p) u ≠ 0 := mul_ne_zero hlb hane
    simp only [unaryFormula, hev, bind, Except.bind, realNum_eq, realNum_e, he, decide_false,
      Bool.false_eq_true, if_false, mfLogarithm_base_e hb, mfMultiply_real, List.prod_cons,
      List.prod_nil, mul_one, mfDivide_real hne]
    congr 1
    rw [div_eq_mul_inv, mul_comm, mul_comm (Real.log b)]

theorem cos_formula (hs : Supp p u) (hd : Dom (valOf p) u) (hu : WF u) (m : ℝ) :
    unaryFormula realNum p (.cos g u) m = .ok ((-Real.sin (den (valOf p) u)) * m) := by
  have hev := (evalR_good p u hu).ok_iff.mpr ⟨hs, hd, rfl⟩
  simp [unaryFormula, hev, bind, Except.bind, pure, Except.pure, mfSine]

theorem sin_formula (hs : Supp p u) (hd : Dom (valOf p) u) (hu : WF u) (m : ℝ) :
    unaryFormula realNum p (.sin g u) m = .ok (Real.cos (den (valOf p) u) * m) := by
  have hev := (evalR_good p u hu).ok_iff.mpr ⟨hs, hd, rfl⟩
  simp [unaryFormula, hev, bind, Except.bind, pure, Except.pure, mfCosine]

end unary

theorem verify_total (e : Expr ℝ) (h : ∀ a, unaryVerify realNum e a = pure ()) (a : ℝ) :
    unaryVerify realNum e a = if (fun _ : ℝ => True) a then .ok () else .error .domain := by
  simp [h a, pure, Except.pure]

theorem verifyReciprocal_real (a : ℝ) :
    verifyReciprocal realNum a = if a ≠ 0 then .ok () else .error .domain := by
  by_cases h : a = 0 <;> simp [verifyReciprocal, h, pure, Except.pure, throw, throwThe,
    MonadExceptOf.throw]

theorem verifyLogarithm_real (a : ℝ) :
    verifyLogarithm realNum a = if 0 < a then .ok () else .error .domain := by
  by_cases h : 0 < a
  · have h1 : a ≠ 0 := ne_of_gt h
    have h2 : ¬ a < 0 := not_lt.mpr h.le
    simp [verifyLogarithm, h, h1, h2, pure, Except.pure]
  · rcases lt_or_eq_of_le (not_lt.mp h) with h' | h'
    · have h1 : a ≠ 0 := ne_of_lt h'
      simp [verifyLogarithm, h, h1, h', throw, throwThe, MonadExceptOf.throw]
    · simp [verifyLogarithm, h', throw, throwThe, MonadExceptOf.throw]

theorem verifyNthRoot_real (n : ℕ) (a : ℝ) :
    verifyNthRoot realNum n a = if RootOK n a then .ok () else .error .domain := by
  unfold verifyNthRoot RootOK
  by_cases h2 : 2 ≤ n <;> by_cases hz : a = 0 <;> by_cases hev : n % 2 = 0 <;>
    by_cases hneg : a < 0 <;>
    simp [h2, hz, hev, hneg, not_lt.mp, pure, Except.pure, throw, throwThe, MonadExceptOf.throw]
  all_goals first | exact not_lt.mp hneg | linarith | omega

/-! ### `Power` -/

theorem mfPower_pos {a : ℝ} (ha : 0 < a) (y : ℝ) : mfPower realNum a y = .ok (a ^ y) := by
  have h1 : a ≠ 0 := ne_of_gt ha
  have h2 : ¬ a < 0 := not_lt.mpr ha.le
  simp [mfPower, h1, h2, pyPow_real_pos y ha]

/-- the part of `Power._numeric_partial` after the short-cut test -/
noncomputable def powGeneralBlock (p : Point ℝ) (x : String) (g : Flags) (l r : Expr ℝ) : R ℝ := do
  let a ← evalG realNum p l
  let b ← evalG realNum p r
  verifyPower realNum a b
  let dl ← fwdG realNum p x l
  let dr ← fwdG realNum p x r
  let t1 ← powFormulaLeft realNum p l r dl
  let t2 ← powFormulaRight realNum p (.pow g l r) l dr
  pure (realNum.add t1 t2)

theorem fwdG_pow_eq (p : Point ℝ) (x : String) (g : Flags) (l r : Expr ℝ) :
    fwdG realNum p x (.pow g l r) =
      (powShortcut realNum p l >>= fun b =>
        if b then (evalG realNum p (.pow g l r) >>= fun _ => pure realNum.zero)
        else powGeneralBlock p x g l r) := by
  simp only [fwdG, powGeneralBlock]

theorem pow_general (p : Point ℝ) (x : String) (g : Flags) (l r : Expr ℝ) (hwf : WF (.pow g l r))
    (ih1 : FwdSpec p x l (fwdG realNum p x l)) (ih2 : FwdSpec p x r (fwdG realNum p x r)) :
    FwdSpec p x (.pow g l r) (powGeneralBlock p x g l r) := by
  have g1 := evalR_good p l hwf.1
  have g2 := evalR_good p r hwf.2
  unfold powGeneralBlock
  cases he1 : evalG realNum p l with
  | error err =>
    obtain ⟨h1, h2, h3⟩ := good_error_facts g1 he1
    simp only [bind, Except.bind]
    exact fwdSpec_of_error (fun h => h1 ⟨h.1.1, h.2.1⟩) (fun h => h2 h.1) h3
  | ok a =>
    obtain ⟨hs1, hd1, ha⟩ := g1.ok_iff.mp he1
    subst ha
    cases he2 : evalG realNum p r with
    | error err =>
      obtain ⟨h1, h2, h3⟩ := good_error_facts g2 he2
      simp only [bind, Except.bind]
      exact fwdSpec_of_error (fun h => h1 ⟨h.1.2, h.2.2.1⟩) (fun h => h2 h.2) h3
    | ok b =>
      obtain ⟨hs2, hd2, hb⟩ := g2.ok_iff.mp he2
      subst hb
      by_cases hpos : 0 < den (valOf p) l
      · obtain ⟨dl, hdl, hderl⟩ := ih1.1 hs1 hd1
        obtain ⟨dr, hdr, hderr⟩ := ih2.1 hs2 hd2
        have hne : den (valOf p) l ≠ 0 := ne_of_gt hpos
        have hnn : ¬ den (valOf p) l < 0 := not_lt.mpr hpos.le
        have hself : evalG realNum p (.pow g l r) =
            .ok (Real.exp (den (valOf p) r * Real.log (den (valOf p) l))) :=
          (evalR_good p _ hwf).ok_iff.mpr ⟨⟨hs1, hs2⟩, ⟨hd1, hd2, hpos⟩, rfl⟩
        simp only [bind, Except.bind, verifyPower, realNum_isZero, hne, decide_false,
          Bool.false_eq_true, if_false, realNum_isNeg, hnn, pure, Except.pure, hdl, hdr,
          powFormulaLeft, powFormulaRight, he1, he2, hself, mfPower_pos hpos, mfMinus_real,
          realNum_one, mfLogarithm_base_e hpos, realNum_e, mfMultiply_real, List.prod_cons,
          List.prod_nil, mul_one, realNum_add]
        refine ⟨fun _ _ => ⟨_, rfl, ?_⟩, fun _ hnd => absurd ⟨hd1, hd2, hpos⟩ hnd,
          fun _ h => by cases h⟩
        have hlog := hderl.log (by simpa using hne)
        have hmul := hderr.fun_mul hlog
        have hexp := hmul.exp
        simp only [upd_self] at hexp
        have hpw : den (valOf p) l ^ (den (valOf p) r - 1) =
            Real.exp (den (valOf p) r * Real.log (den (valOf p) l)) / den (valOf p) l := by
          rw [Real.rpow_def_of_pos hpos, mul_sub, mul_one, Real.exp_sub, Real.exp_log hpos, mul_comm]
        have hfun : (fun t => den (upd (valOf p) x t) (.pow g l r)) = fun t =>
            Real.exp (den (upd (valOf p) x t) r * Real.log (den (upd (valOf p) x t) l)) := by
          funext t; simp [den]
        rw [hfun, hpw]
        exact hexp.congr_deriv (by field_simp; ring)
      · have : (if den (valOf p) l = 0 then (Except.error Err.domain : R Unit)
            else if den (valOf p) l < 0 then .error .domain else .ok ()) = .error .domain := by
          rcases lt_or_eq_of_le (not_lt.mp hpos) with h | h
          · simp [ne_of_lt h, h]
          · simp [h]
        simp only [bind, Except.bind, verifyPower, realNum_isZero, realNum_isNeg,
          decide_eq_true_eq, throw, throwThe, MonadExceptOf.throw, pure, Except.pure, this]
        exact fwdSpec_of_error (fun h => hpos h.2.2.2) (fun _ => rfl) (Or.inl rfl)

/-! ### the induction -/

mutual
theorem fwdR_spec (p : Point ℝ) (x : String) : ∀ e : Expr ℝ, WF e →
    FwdSpec p x e (fwdG realNum p x e)
  | .const _ v, _ => by
    simp only [fwdG, pure, Except.pure, realNum_zero]
    refine ⟨fun _ _ => ⟨0, rfl, ?_⟩, fun _ h => absurd trivial h, fun _ h => by cases h⟩
    simpa [den] using hasDerivAt_const (valOf p x) v
  | .var g y, _ => by
    simp only [fwdG]
    by_cases hy : y = x
    · subst hy
      simp only [beq_self_eq_true, if_true, pure, Except.pure, realNum_one]
      refine ⟨fun _ _ => ⟨1, rfl, ?_⟩, fun _ h => absurd trivial h, fun _ h => by cases h⟩
      have : (fun t => den (upd (valOf p) y t) (Expr.var g y)) = id := by
        funext t; simp [den, upd_same]
      rw [this]; exact hasDerivAt_id (valOf p y)
    · have : (y == x) = false := by simpa using hy
      simp only [this, Bool.false_eq_true, if_false, pure, Except.pure, realNum_zero]
      refine ⟨fun _ _ => ⟨0, rfl, ?_⟩, fun _ h => absurd trivial h, fun _ h => by cases h⟩
      have : (fun t => den (upd (valOf p) x t) (Expr.var g y)) = fun _ => valOf p y := by
        funext t; simp [den, upd_other _ t hy]
      rw [this]
      simpa using hasDerivAt_const (valOf p x) (valOf p y)
  | .add _ as, hwf => by
    have ih := fwdR_spec_list p x as hwf
    simp only [fwdG]
    cases hr : fwdListG realNum p x as with
    | error err =>
      simp only [bind, Except.bind]
      refine ⟨fun hs hd => ?_, fun hs hd => ?_, fun err' h => ?_⟩
      · obtain ⟨ds, h, _⟩ := ih.1 hs hd; rw [hr] at h; cases h
      · have := ih.2.1 hs hd; rw [hr] at this; injection this with this; rw [this]
      · injection h with h; subst h; exact ih.2.2 err hr
    | ok ds =>
      simp only [bind, Except.bind, pure, Except.pure, mfAdd_real]
      refine ⟨fun hs hd => ⟨_, rfl, ?_⟩, fun hs hd => ?_, fun _ h => by cases h⟩
      · obtain ⟨ds', h, hder⟩ := ih.1 hs hd
        rw [hr] at h; injection h with h; subst h
        have := hasDerivAt_list_sum hder
        simpa [den, denList_eq_map, Function.comp_def] using this
      · have := ih.2.1 hs hd; rw [hr] at this; cases this
  | .minus _ l r, hwf => by
    have ih1 := fwdR_spec p x l hwf.1
    have ih2 := fwdR_spec p x r hwf.2
    simp only [fwdG]
    cases h1 : fwdG realNum p x l with
    | error err =>
      simp only [bind, Except.bind]
      refine ⟨fun hs hd => ?_, fun hs hd => ?_, fun err' h => ?_⟩
      · obtain ⟨d, h, _⟩ := ih1.1 hs.1 hd.1; rw [h1] at h; cases h
      · by_cases hdl : Dom (valOf p) l
        · obtain ⟨d, h, _⟩ := ih1.1 hs.1 hdl; rw [h1] at h; cases h
        · have := ih1.2.1 hs.1 hdl; rw [h1] at this; exact this
      · injection h with h; subst h; exact ih1.2.2 err h1
    | ok a =>
      cases h2 : fwdG realNum p x r with
      | error err =>
        simp only [bind, Except.bind]
        refine ⟨fun hs hd => ?_, fun hs hd => ?_, fun err' h => ?_⟩
        · obtain ⟨d, h, _⟩ := ih2.1 hs.2 hd.2; rw [h2] at h; cases h
        · by_cases hdr : Dom (valOf p) r
          · obtain ⟨d, h, _⟩ := ih2.1 hs.2 hdr; rw [h2] at h; cases h
          · have := ih2.2.1 hs.2 hdr; rw [h2] at this; exact this
        · injection h with h; subst h; exact ih2.2.2 err h2
      | ok b =>
        simp only [bind, Except.bind, pure, Except.pure, mfMinus_real]
        refine ⟨fun hs hd => ⟨_, rfl, ?_⟩, fun hs hd => ?_, fun _ h => by cases h⟩
        · obtain ⟨d1, e1, hd1⟩ := ih1.1 hs.1 hd.1
          obtain ⟨d2, e2, hd2⟩ := ih2.1 hs.2 hd.2
          rw [h1] at e1; rw [h2] at e2
          injection e1 with e1; injection e2 with e2; subst e1; subst e2
          simp only [den]
          exact hd1.fun_sub hd2
        · by_cases hdl : Dom (valOf p) l
          · have hdr : ¬ Dom (valOf p) r := fun h => hd ⟨hdl, h⟩
            have := ih2.2.1 hs.2 hdr; rw [h2] at this; cases this
          · have := ih1.2.1 hs.1 hdl; rw [h1] at this; cases this
  | .neg g u, hwf => by
    simp only [fwdG]
    exact fwd_unary_spec (fun _ => True) (fun a => -a) (fun _ => -1) (evalR_good p u hwf)
      (fwdR_spec p x u hwf) Iff.rfl (by simp [Dom]) (fun ρ' => rfl)
      (verify_total _ (fun a => rfl)) (fun _ _ _ m => neg_formula m)
      (fun a _ => (hasDerivAt_id a).fun_neg)
  | .recip g u, hwf => by
    simp only [fwdG]
    exact fwd_unary_spec (fun a => a ≠ 0) (fun a => a⁻¹) (fun a => -(a ^ 2)⁻¹) (evalR_good p u hwf)
      (fwdR_spec p x u hwf) Iff.rfl Iff.rfl (fun ρ' => rfl)
      (fun a => verifyReciprocal_real a) (fun hs hd hg m => recip_formula hs hd hwf hg m)
      (fun a ha => hasDerivAt_inv ha)
  | .npow g u n, hwf => by
    simp only [fwdG]
    exact fwd_unary_spec (fun _ => True) (fun a => a ^ n) (fun a => n * a ^ (n - 1))
      (evalR_good p u hwf.2) (fwdR_spec p x u hwf.2) Iff.rfl (by simp [Dom]) (fun ρ' => rfl)
      (verify_total _ (fun a => rfl)) (fun hs hd _ m => npow_formula hs hd hwf.2 hwf.1 m)
      (fun a _ => by simpa using hasDerivAt_pow n a)
  | .nroot g u n, hwf => by
    simp only [fwdG]
    exact fwd_unary_spec (RootOK n) (sroot n)
      (fun a => if n = 1 then 1 else (n * sroot n a ^ (n - 1))⁻¹)
      (evalR_good p u hwf.2) (fwdR_spec p x u hwf.2) Iff.rfl Iff.rfl (fun ρ' => rfl)
      (fun a => verifyNthRoot_real n a) (fun hs hd hg m => nroot_formula hs hd hwf.2 hwf.1 hg m)
      (fun a hok => by
        by_cases h1 : n = 1
        · subst h1
          have : sroot 1 = id := by funext y; simp [sroot_one]
          simp only [if_true, this]
          exact hasDerivAt_id a
        · simp only [h1, if_false]
          have hn := hwf.1
          exact hasDerivAt_sroot hwf.1 hok (hok.1 (by omega)))
  | .exp g u b, hwf => by
    simp only [fwdG]
    exact fwd_unary_spec (fun _ => True) (fun a => Real.exp (a * Real.log b))
      (fun a => Real.log b * Real.exp (a * Real.log b))
      (evalR_good p u hwf.2) (fwdR_spec p x u hwf.2) Iff.rfl (by simp [Dom]) (fun ρ' => rfl)
      (verify_total _ (fun a => rfl)) (fun hs hd _ m => exp_formula hs hd hwf.2 hwf.1 m)
      (fun a _ => by
        have h1 : HasDerivAt (fun y : ℝ => y * Real.log b) (Real.log b) a := by
          simpa using (hasDerivAt_id a).mul_const (Real.log b)
        have := (Real.hasDerivAt_exp (a * Real.log b)).comp a h1
        simpa [Function.comp_def, mul_comm] using this)
  | .log g u b, hwf => by
    simp only [fwdG]
    exact fwd_unary_spec (fun a => 0 < a) (fun a => Real.log a / Real.log b)
      (fun a => (a * Real.log b)⁻¹)
      (evalR_good p u hwf.2.2) (fwdR_spec p x u hwf.2.2) Iff.rfl Iff.rfl (fun ρ' => rfl)
      (fun a => verifyLogarithm_real a)
      (fun hs hd hg m => log_formula hs hd hwf.2.2 hwf.1 hwf.2.1 hg m)
      (fun a ha => by
        have := (Real.hasDerivAt_log (ne_of_gt ha)).div_const (Real.log b)
        have e : (a * Real.log b)⁻¹ = a⁻¹ / Real.log b := by rw [mul_inv, div_eq_mul_inv]
        rw [e]; exact this)
  | .cos g u, hwf => by
    simp only [fwdG]
    exact fwd_unary_spec (fun _ => True) Real.cos (fun a => -Real.sin a)
      (evalR_good p u hwf) (fwdR_spec p x u hwf) Iff.rfl (by simp [Dom]) (fun ρ' => rfl)
      (verify_total _ (fun a => rfl)) (fun hs hd _ m => cos_formula hs hd hwf m)
      (fun a _ => Real.hasDerivAt_cos a)
  | .sin g u, hwf => by
    simp only [fwdG]
    exact fwd_unary_spec (fun _ => True) Real.sin (fun a => Real.cos a)
      (evalR_good p u hwf) (fwdR_spec p x u hwf) Iff.rfl (by simp [Dom]) (fun ρ' => rfl)
      (verify_total _ (fun a => rfl)) (fun hs hd _ m => sin_formula hs hd hwf m)
      (fun a _ => Real.hasDerivAt_sin a)
  | .mul _ as, hwf => by
    have ih := fwdR_spec_list p x as hwf
    have hgood := evalR_good_list p as hwf
    simp only [fwdG]
    cases hev : evalListG realNum p as with
    | error err =>
      obtain ⟨h1, h2, h3⟩ := good_error_facts hgood hev
      simp only [bind, Except.bind]
      exact fwdSpec_of_error h1 h2 h3
    | ok vs =>
      obtain ⟨hs, hd, hvs⟩ := hgood.ok_iff.mp hev
      subst hvs
      obtain ⟨ds, hds, hder⟩ := ih.1 hs hd
      simp only [bind, Except.bind, hds, pure, Except.pure]
      refine ⟨fun _ _ => ⟨_, rfl, ?_⟩, fun _ hnd => absurd hd hnd, fun _ h => by cases h⟩
      have hlen : ds.length = (denList (valOf p) as).length := by
        have := hder.length_eq
        simpa [denList_eq_map] using this.symm
      rw [mulTerms_sum ds _ hlen]
      have := hasDerivAt_list_prod hder
      simpa [den, denList_eq_map, Function.comp_def] using this
  | .div _ l r, hwf => by
    have ih1 := fwdR_spec p x l hwf.1
    have ih2 := fwdR_spec p x r hwf.2
    have g1 := evalR_good p l hwf.1
    have g2 := evalR_good p r hwf.2
    simp only [fwdG]
    cases he1 : evalG realNum p l with
    | error err =>
      obtain ⟨h1, h2, h3⟩ := good_error_facts g1 he1
      simp only [bind, Except.bind]
      exact fwdSpec_of_error (fun h => h1 ⟨h.1.1, h.2.1⟩) (fun h => h2 h.1) h3
    | ok a =>
      obtain ⟨hs1, hd1, ha⟩ := g1.ok_iff.mp he1
      subst ha
      cases he2 : evalG realNum p r with
      | error err =>
        obtain ⟨h1, h2, h3⟩ := good_error_facts g2 he2
        simp only [bind, Except.bind]
        exact fwdSpec_of_error (fun h => h1 ⟨h.1.2, h.2.2.1⟩) (fun h => h2 h.2) h3
      | ok b =>
        obtain ⟨hs2, hd2, hb⟩ := g2.ok_iff.mp he2
        subst hb
        by_cases hz : den (valOf p) r = 0
        · simp only [bind, Except.bind, verifyDivide, realNum_isZero, hz, decide_true, if_true,
            throw, throwThe, MonadExceptOf.throw]
          exact fwdSpec_of_error (fun h => h.2.2.2 hz) (fun _ => rfl) (Or.inl rfl)
        · obtain ⟨dl, hdl, hderl⟩ := ih1.1 hs1 hd1
          obtain ⟨dr, hdr, hderr⟩ := ih2.1 hs2 hd2
          have hsq : den (valOf p) r ^ 2 ≠ 0 := pow_ne_zero 2 hz
          simp only [bind, Except.bind, verifyDivide, realNum_isZero, hz, decide_false,
            Bool.false_eq_true, if_false, pure, Except.pure, hdl, hdr, divFormulaLeft,
            divFormulaRight, he1, he2, mfDivide_real hz, nthPower_local (by norm_num : 1 ≤ 2),
            mfDivide_real hsq, mfNegation_real, mfMultiply_real, mfAdd_real, List.prod_cons,
            List.prod_nil, List.sum_cons, List.sum_nil, mul_one, add_zero]
          refine ⟨fun _ _ => ⟨_, rfl, ?_⟩, fun _ hnd => absurd ⟨hd1, hd2, hz⟩ hnd,
            fun _ h => by cases h⟩
          have h := hderl.div hderr (by simpa using hz)
          simp only [upd_self] at h
          exact h.congr_deriv (by field_simp; ring)
  | .pow g l r, hwf => by
    have ih1 := fwdR_spec p x l hwf.1
    have ih2 := fwdR_spec p x r hwf.2
    have g1 := evalR_good p l hwf.1
    have gself := evalR_good p (.pow g l r) hwf
    rw [fwdG_pow_eq]
    unfold powShortcut
    by_cases hv : l.vars.isEmpty
    · -- the base has no variables: the short-cut test is evaluated
      simp only [hv, if_true]
      cases he1 : evalG realNum p l with
      | error err =>
        obtain ⟨h1, h2, h3⟩ := good_error_facts g1 he1
        simp only [bind, Except.bind]
        exact fwdSpec_of_error (fun h => h1 ⟨h.1.1, h.2.1⟩) (fun h => h2 h.1) h3
      | ok a =>
        obtain ⟨hs1, hd1, ha⟩ := g1.ok_iff.mp he1
        subst ha
        by_cases hone : den (valOf p) l = 1
        · -- short-cut: evaluate the node itself, answer 0
          simp only [bind, Except.bind, pure, Except.pure, realNum_eq, realNum_one, hone,
            decide_true, if_true]
          cases hes : evalG realNum p (.pow g l r) with
          | error err =>
            obtain ⟨h1, h2, h3⟩ := good_error_facts gself hes
            exact fwdSpec_of_error h1 h2 h3
          | ok s =>
            obtain ⟨hs, hd, _⟩ := gself.ok_iff.mp hes
            simp only [realNum_zero]
            refine ⟨fun _ _ => ⟨0, rfl, ?_⟩, fun _ hnd => absurd hd hnd, fun _ h => by cases h⟩
            have hvn : l.vars = [] := by simpa using hv
            have : (fun t => den (upd (valOf p) x t) (.pow g l r)) = fun _ => 1 := by
              funext t
              simp [den, den_upd_of_vars_nil (valOf p) x l hvn t, hone]
            rw [this]
            exact hasDerivAt_const _ _
        · simp only [bind, Except.bind, pure, Except.pure, realNum_eq, realNum_one, hone,
            decide_false, Bool.false_eq_true, if_false]
          exact pow_general p x g l r hwf ih1 ih2
    · simp only [hv, Bool.false_eq_true, if_false, bind, Except.bind, pure, Except.pure]
      exact pow_general p x g l r hwf ih1 ih2
theorem fwdR_spec_list (p : Point ℝ) (x : String) : ∀ es : List (Expr ℝ), WFList es →
    FwdSpecL p x es (fwdListG realNum p x es)
  | [], _ => ⟨fun _ _ => ⟨[], rfl, List.Forall₂.nil⟩, fun _ h => absurd trivial h,
      fun _ h => by cases h⟩
  | e :: es, hwf => by
    have ih1 := fwdR_spec p x e hwf.1
    have ih2 := fwdR_spec_list p x es hwf.2
    simp only [fwdListG]
    cases h1 : fwdG realNum p x e with
    | error err =>
      simp only [bind, Except.bind]
      refine ⟨fun hs hd => ?_, fun hs hd => ?_, fun err' h => ?_⟩
      · obtain ⟨d, h, _⟩ := ih1.1 hs.1 hd.1; rw [h1] at h; cases h
      · by_cases hde : Dom (valOf p) e
        · obtain ⟨d, h, _⟩ := ih1.1 hs.1 hde; rw [h1] at h; cases h
        · have := ih1.2.1 hs.1 hde; rw [h1] at this; injection this with this; rw [this]
      · injection h with h; subst h; exact ih1.2.2 err h1
    | ok d =>
      cases h2 : fwdListG realNum p x es with
      | error err =>
        simp only [bind, Except.bind]
        refine ⟨fun hs hd => ?_, fun hs hd => ?_, fun err' h => ?_⟩
        · obtain ⟨ds, h, _⟩ := ih2.1 hs.2 hd.2; rw [h2] at h; cases h
        · by_cases hdes : DomList (valOf p) es
          · obtain ⟨ds, h, _⟩ := ih2.1 hs.2 hdes; rw [h2] at h; cases h
          · have := ih2.2.1 hs.2 hdes; rw [h2] at this; injection this with this; rw [this]
        · injection h with h; subst h; exact ih2.2.2 err h2
      | ok ds =>
        simp only [bind, Except.bind, pure, Except.pure]
        refine ⟨fun hs hd => ⟨_, rfl, ?_⟩, fun hs hd => ?_, fun _ h => by cases h⟩
        · obtain ⟨d', e1, hd1⟩ := ih1.1 hs.1 hd.1
          obtain ⟨ds', e2, hd2⟩ := ih2.1 hs.2 hd.2
          rw [h1] at e1; rw [h2] at e2
          injection e1 with e1; injection e2 with e2; subst e1; subst e2
          exact List.Forall₂.cons hd1 hd2
        · by_cases hde : Dom (valOf p) e
          · have hdes : ¬ DomList (valOf p) es := fun h => hd ⟨hde, h⟩
            have := ih2.2.1 hs.2 hdes; rw [h2] at this; cases this
          · have := ih1.2.1 hs.1 hde; rw [h1] at this; cases this
end

end Smooth
