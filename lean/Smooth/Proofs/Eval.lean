/-
Proofs/Eval — the model's evaluator over the reals is characterised completely by the specification:
with S = "the point supplies the expression", D = "the point is in the documented domain",

  S ∧ D   ⇒ `.ok (den …)` ;   S ∧ ¬D ⇒ `.error .domain` ;   ¬S ⇒ `.error .missing` or `.error .domain`.
-/
import Smooth.Real.Spec

namespace Smooth
open Classical

/-- the three-way outcome specification -/
def Good {β : Type} (S D : Prop) (r : R β) (v : β) : Prop :=
  (S ∧ D ∧ r = .ok v) ∨ (S ∧ ¬D ∧ r = .error .domain) ∨
    (¬S ∧ (r = .error .missing ∨ r = .error .domain))

theorem Good.ok_iff {β : Type} {S D : Prop} {r : R β} {v w : β} (h : Good S D r v) :
    r = .ok w ↔ S ∧ D ∧ w = v := by
  rcases h with ⟨hs, hd, hr⟩ | ⟨hs, hd, hr⟩ | ⟨hs, hr | hr⟩
  · subst hr; constructor
    · intro h; injection h with h; exact ⟨hs, hd, h.symm⟩
    · rintro ⟨_, _, rfl⟩; rfl
  · subst hr; constructor
    · intro h; cases h
    · rintro ⟨_, h, _⟩; exact absurd h hd
  · subst hr; constructor
    · intro h; cases h
    · rintro ⟨h, _, _⟩; exact absurd h hs
  · subst hr; constructor
    · intro h; cases h
    · rintro ⟨h, _, _⟩; exact absurd h hs

theorem Good.domain_iff {β : Type} {S D : Prop} {r : R β} {v : β} (h : Good S D r v) (hs : S) :
    r = .error .domain ↔ ¬D := by
  rcases h with ⟨_, hd, hr⟩ | ⟨_, hd, hr⟩ | ⟨hns, _⟩
  · subst hr; constructor
    · intro h; cases h
    · intro h; exact absurd hd h
  · subst hr; exact ⟨fun _ => hd, fun _ => rfl⟩
  · exact absurd hs hns

theorem Good.error_cases {β : Type} {S D : Prop} {r : R β} {v : β} (h : Good S D r v) {err : Err}
    (he : r = .error err) : err = .domain ∨ err = .missing := by
  rcases h with ⟨_, _, hr⟩ | ⟨_, _, hr⟩ | ⟨_, hr | hr⟩ <;> rw [hr] at he
  · cases he
  · injection he with he; exact Or.inl he.symm
  · injection he with he; exact Or.inr he.symm
  · injection he with he; exact Or.inl he.symm

theorem Good.missing_not_supp {β : Type} {S D : Prop} {r : R β} {v : β} (h : Good S D r v)
    (he : r = .error .missing) : ¬S := by
  rcases h with ⟨_, _, hr⟩ | ⟨_, _, hr⟩ | ⟨hns, _⟩
  · rw [hr] at he; cases he
  · rw [hr] at he; cases he
  · exact hns

/-- a node without a domain condition of its own -/
theorem good_unary_total {S D : Prop} {r : R ℝ} {v : ℝ} (h : Good S D r v) (k : ℝ → R ℝ) (f : ℝ → ℝ)
    (hk : ∀ a, k a = .ok (f a)) : Good S D (r >>= k) (f v) := by
  rcases h with ⟨hs, hd, hr⟩ | ⟨hs, hd, hr⟩ | ⟨hs, hr | hr⟩ <;> subst hr
  · exact Or.inl ⟨hs, hd, by simp [bind, Except.bind, hk]⟩
  · exact Or.inr (Or.inl ⟨hs, hd, rfl⟩)
  · exact Or.inr (Or.inr ⟨hs, Or.inl rfl⟩)
  · exact Or.inr (Or.inr ⟨hs, Or.inr rfl⟩)

/-- a unary node with domain condition `G` on the operand's value -/
theorem good_unary {S D : Prop} {r : R ℝ} {v : ℝ} (h : Good S D r v) (k : ℝ → R ℝ) (G : ℝ → Prop)
    [DecidablePred G] (f : ℝ → ℝ) (hk : ∀ a, k a = if G a then .ok (f a) else .error .domain) :
    Good S (D ∧ G v) (r >>= k) (f v) := by
  rcases h with ⟨hs, hd, hr⟩ | ⟨hs, hd, hr⟩ | ⟨hs, hr | hr⟩ <;> subst hr
  · by_cases hg : G v
    · exact Or.inl ⟨hs, ⟨hd, hg⟩, by simp [bind, Except.bind, hk, hg]⟩
    · exact Or.inr (Or.inl ⟨hs, fun h => hg h.2, by simp [bind, Except.bind, hk, hg]⟩)
  · exact Or.inr (Or.inl ⟨hs, fun h => hd h.1, rfl⟩)
  · exact Or.inr (Or.inr ⟨hs, Or.inl rfl⟩)
  · exact Or.inr (Or.inr ⟨hs, Or.inr rfl⟩)

/-- a binary node with domain condition `G` on the operands' values -/
theorem good_binary {S1 D1 S2 D2 : Prop} {r1 r2 : R ℝ} {v1 v2 : ℝ} (h1 : Good S1 D1 r1 v1)
    (h2 : Good S2 D2 r2 v2) (k : ℝ → ℝ → R ℝ) (G : ℝ → ℝ → Prop) [∀ a b, Decidable (G a b)]
    (f : ℝ → ℝ → ℝ) (hk : ∀ a b, k a b = if G a b then .ok (f a b) else .error .domain) :
    Good (S1 ∧ S2) (D1 ∧ D2 ∧ G v1 v2) (r1 >>= fun a => r2 >>= fun b => k a b) (f v1 v2) := by
  rcases h1 with ⟨hs1, hd1, hr1⟩ | ⟨hs1, hd1, hr1⟩ | ⟨hs1, hr1 | hr1⟩ <;> subst hr1
  · rcases h2 with ⟨hs2, hd2, hr2⟩ | ⟨hs2, hd2, hr2⟩ | ⟨hs2, hr2 | hr2⟩ <;> subst hr2
    · by_cases hg : G v1 v2
      · exact Or.inl ⟨⟨hs1, hs2⟩, ⟨hd1, hd2, hg⟩, by simp [bind, Except.bind, hk, hg]⟩
      · exact Or.inr (Or.inl ⟨⟨hs1, hs2⟩, fun h => hg h.2.2, by simp [bind, Except.bind, hk, hg]⟩)
    · exact Or.inr (Or.inl ⟨⟨hs1, hs2⟩, fun h => hd2 h.2.1, rfl⟩)
    · exact Or.inr (Or.inr ⟨fun h => hs2 h.2, Or.inl rfl⟩)
    · exact Or.inr (Or.inr ⟨fun h => hs2 h.2, Or.inr rfl⟩)
  · by_cases hs2 : S2
    · exact Or.inr (Or.inl ⟨⟨hs1, hs2⟩, fun h => hd1 h.1, rfl⟩)
    · exact Or.inr (Or.inr ⟨fun h => hs2 h.2, Or.inr rfl⟩)
  · exact Or.inr (Or.inr ⟨fun h => hs1 h.1, Or.inl rfl⟩)
  · exact Or.inr (Or.inr ⟨fun h => hs1 h.1, Or.inr rfl⟩)

/-- a binary node without a domain condition of its own -/
theorem good_binary_total {S1 D1 S2 D2 : Prop} {r1 r2 : R ℝ} {v1 v2 : ℝ} (h1 : Good S1 D1 r1 v1)
    (h2 : Good S2 D2 r2 v2) (k : ℝ → ℝ → R ℝ) (f : ℝ → ℝ → ℝ) (hk : ∀ a b, k a b = .ok (f a b)) :
    Good (S1 ∧ S2) (D1 ∧ D2) (r1 >>= fun a => r2 >>= fun b => k a b) (f v1 v2) := by
  rcases h1 with ⟨hs1, hd1, hr1⟩ | ⟨hs1, hd1, hr1⟩ | ⟨hs1, hr1 | hr1⟩ <;> subst hr1
  · rcases h2 with ⟨hs2, hd2, hr2⟩ | ⟨hs2, hd2, hr2⟩ | ⟨hs2, hr2 | hr2⟩ <;> subst hr2
    · exact Or.inl ⟨⟨hs1, hs2⟩, ⟨hd1, hd2⟩, by simp [bind, Except.bind, hk]⟩
    · exact Or.inr (Or.inl ⟨⟨hs1, hs2⟩, fun h => hd2 h.2, rfl⟩)
    · exact Or.inr (Or.inr ⟨fun h => hs2 h.2, Or.inl rfl⟩)
    · exact Or.inr (Or.inr ⟨fun h => hs2 h.2, Or.inr rfl⟩)
  · by_cases hs2 : S2
    · exact Or.inr (Or.inl ⟨⟨hs1, hs2⟩, fun h => hd1 h.1, rfl⟩)
    · exact Or.inr (Or.inr ⟨fun h => hs2 h.2, Or.inr rfl⟩)
  · exact Or.inr (Or.inr ⟨fun h => hs1 h.1, Or.inl rfl⟩)
  · exact Or.inr (Or.inr ⟨fun h => hs1 h.1, Or.inr rfl⟩)

/-- lists of operands, evaluated left to right -/
theorem good_cons {S1 D1 S2 D2 : Prop} {r1 : R ℝ} {r2 : R (List ℝ)} {v : ℝ} {vs : List ℝ}
    (h1 : Good S1 D1 r1 v) (h2 : Good S2 D2 r2 vs) :
    Good (S1 ∧ S2) (D1 ∧ D2) (r1 >>= fun a => r2 >>= fun as => pure (a :: as)) (v :: vs) := by
  rcases h1 with ⟨hs1, hd1, hr1⟩ | ⟨hs1, hd1, hr1⟩ | ⟨hs1, hr1 | hr1⟩ <;> subst hr1
  · rcases h2 with ⟨hs2, hd2, hr2⟩ | ⟨hs2, hd2, hr2⟩ | ⟨hs2, hr2 | hr2⟩ <;> subst hr2
    · exact Or.inl ⟨⟨hs1, hs2⟩, ⟨hd1, hd2⟩, by simp [bind, Except.bind, pure, Except.pure]⟩
    · exact Or.inr (Or.inl ⟨⟨hs1, hs2⟩, fun h => hd2 h.2, rfl⟩)
    · exact Or.inr (Or.inr ⟨fun h => hs2 h.2, Or.inl rfl⟩)
    · exact Or.inr (Or.inr ⟨fun h => hs2 h.2, Or.inr rfl⟩)
  · by_cases hs2 : S2
    · exact Or.inr (Or.inl ⟨⟨hs1, hs2⟩, fun h => hd1 h.1, rfl⟩)
    · exact Or.inr (Or.inr ⟨fun h => hs2 h.2, Or.inr rfl⟩)
  · exact Or.inr (Or.inr ⟨fun h => hs1 h.1, Or.inl rfl⟩)
  · exact Or.inr (Or.inr ⟨fun h => hs1 h.1, Or.inr rfl⟩)

theorem good_map {β γ : Type} {S D : Prop} {r : R β} {v : β} (h : Good S D r v) (g : β → γ) :
    Good S D (r >>= fun a => pure (g a)) (g v) := by
  rcases h with ⟨hs, hd, hr⟩ | ⟨hs, hd, hr⟩ | ⟨hs, hr | hr⟩ <;> subst hr
  · exact Or.inl ⟨hs, hd, rfl⟩
  · exact Or.inr (Or.inl ⟨hs, hd, rfl⟩)
  · exact Or.inr (Or.inr ⟨hs, Or.inl rfl⟩)
  · exact Or.inr (Or.inr ⟨hs, Or.inr rfl⟩)

/-! ### `math_functions.py` over the reals -/

theorem mulGo_real (acc : ℝ) (xs : List ℝ) : mulGo realNum acc xs = acc * xs.prod := by
  induction xs generalizing acc with
  | nil => simp [mulGo]
  | cons x xs ih =>
    simp only [mulGo, realNum_isZero, decide_eq_true_eq, realNum_zero, realNum_mul, List.prod_cons]
    split
    · next h => simp [h]
    · rw [ih]; ring

@[simp] theorem mfMultiply_real (xs : List ℝ) : mfMultiply realNum xs = xs.prod := by
  simp [mfMultiply, mulGo_real]

theorem foldl_add_real (acc : ℝ) (xs : List ℝ) : xs.foldl realNum.add acc = acc + xs.sum := by
  induction xs generalizing acc with
  | nil => simp
  | cons x xs ih => simp only [List.foldl_cons, realNum_add, List.sum_cons]; rw [ih]; ring

@[simp] theorem mfAdd_real (xs : List ℝ) : mfAdd realNum xs = xs.sum := by
  simp [mfAdd, sumL, foldl_add_real]

@[simp] theorem mfMinus_real (x y : ℝ) : mfMinus realNum x y = x - y := rfl
@[simp] theorem mfNegation_real (x : ℝ) : mfNegation realNum x = -x := rfl

theorem pyTrueDiv_real {x y : ℝ} (hy : y ≠ 0) : pyTrueDiv realNum x y = .ok (x / y) := by
  simp [pyTrueDiv, hy, pure, Except.pure]

theorem pyPow_real_pos {x : ℝ} (y : ℝ) (hx : 0 < x) : pyPow realNum x y = .ok (x ^ y) := by
  have h1 : x ≠ 0 := ne_of_gt hx
  have h2 : ¬ x < 0 := not_lt.mpr hx.le
  simp [pyPow, h1, h2]

theorem divide_local (a b : ℝ) :
    (do verifyDivide realNum a b; mfDivide realNum a b) =
      if b ≠ 0 then .ok (a / b) else .error .domain := by
  by_cases hb : b = 0
  · simp [verifyDivide, hb, bind, Except.bind, throw, throwThe, MonadExceptOf.throw]
  · simp [verifyDivide, mfDivide, pyTrueDiv, hb, bind, Except.bind, pure, Except.pure]

theorem reciprocal_local (a : ℝ) :
    (do verifyReciprocal realNum a; mfReciprocal realNum a) =
      if a ≠ 0 then .ok a⁻¹ else .error .domain := by
  by_cases ha : a = 0
  · simp [verifyReciprocal, ha, bind, Except.bind, throw, throwThe, MonadExceptOf.throw]
  · simp [verifyReciprocal, mfReciprocal, pyTrueDiv, ha, bind, Except.bind, pure, Except.pure]

theorem power_local (a b : ℝ) :
    (do verifyPower realNum a b; mfPower realNum a b) =
      if 0 < a then .ok (Real.exp (b * Real.log a)) else .error .domain := by
  by_cases ha : 0 < a
  · have h1 : a ≠ 0 := ne_of_gt ha
    have h2 : ¬ a < 0 := not_lt.mpr ha.le
    simp [verifyPower, mfPower, pyPow_real_pos b ha, h1, h2, ha, bind, Except.bind, pure,
      Except.pure, Real.rpow_def_of_pos ha, mul_comm]
  · rcases lt_or_eq_of_le (not_lt.mp ha) with h | h
    · have h1 : a ≠ 0 := ne_of_lt h
      simp [verifyPower, h1, h, ha, bind, Except.bind, throw, throwThe, MonadExceptOf.throw]
    · simp [verifyPower, h, bind, Except.bind, throw, throwThe, MonadExceptOf.throw]

theorem nthPower_local {n : ℕ} (hn : 1 ≤ n) (a : ℝ) : mfNthPower realNum a n = .ok (a ^ n) := by
  have : n ≠ 0 := by omega
  simp [mfNthPower, this, pure, Except.pure]

theorem exponential_local {b : ℝ} (hb : 0 < b) (a : ℝ) :
    mfExponential realNum a b = .ok (Real.exp (a * Real.log b)) := by
  have h1 : b ≠ 0 := ne_of_gt hb
  have h2 : ¬ b < 0 := not_lt.mpr hb.le
  simp [mfExponential, h1, h2, pyPow_real_pos a hb, Real.rpow_def_of_pos hb, mul_comm]

theorem logarithm_local {b : ℝ} (hb : 0 < b) (hb1 : b ≠ 1) (a : ℝ) :
    (do verifyLogarithm realNum a; mfLogarithm realNum a b) =
      if 0 < a then .ok (Real.log a / Real.log b) else .error .domain := by
  have h1 : b ≠ 0 := ne_of_gt hb
  have h2 : ¬ b < 0 := not_lt.mpr hb.le
  by_cases ha : 0 < a
  · have h3 : a ≠ 0 := ne_of_gt ha
    have h4 : ¬ a < 0 := not_lt.mpr ha.le
    simp [verifyLogarithm, mfLogarithm, pyLog, h1, h2, h3, h4, hb1, ha, bind, Except.bind, pure,
      Except.pure]
  · rcases lt_or_eq_of_le (not_lt.mp ha) with h | h
    · have h3 : a ≠ 0 := ne_of_lt h
      simp [verifyLogarithm, h3, h, ha, bind, Except.bind, throw, throwThe, MonadExceptOf.throw]
    · simp [verifyLogarithm, h, bind, Except.bind, throw, throwThe, MonadExceptOf.throw]

/-- the documented domain of the n-th root, on the operand's value -/
def RootOK (n : ℕ) (a : ℝ) : Prop := (2 ≤ n → a ≠ 0) ∧ (n % 2 = 0 → 0 ≤ a)

theorem sroot_one (a : ℝ) : sroot 1 a = a := by
  unfold sroot
  split <;> simp

theorem nthRoot_local {n : ℕ} (hn : 1 ≤ n) (a : ℝ) :
    (do verifyNthRoot realNum n a; mfNthRoot realNum a n) =
      if RootOK n a then .ok (sroot n a) else .error .domain := by
  have hn0 : n ≠ 0 := by omega
  by_cases h1 : n = 1
  · subst h1
    simp [verifyNthRoot, mfNthRoot, RootOK, sroot_one, bind, Except.bind, pure, Except.pure]
  have h2 : 2 ≤ n := by omega
  by_cases hz : a = 0
  · subst hz
    have : ¬ RootOK n 0 := fun h => h.1 h2 rfl
    simp [verifyNthRoot, h2, this, bind, Except.bind, throw, throwThe, MonadExceptOf.throw]
  by_cases hpos : 0 < a
  · have hnn : ¬ a < 0 := not_lt.mpr hpos.le
    have hok : RootOK n a := ⟨fun _ => hz, fun _ => hpos.le⟩
    have hsr : sroot n a = a ^ ((1 : ℝ) / n) := by simp [sroot, hpos.le]
    by_cases h22 : n = 2
    · subst h22
      simp [verifyNthRoot, mfNthRoot, pySqrt, hz, hnn, hpos, hok, hsr, bind, Except.bind, pure,
        Except.pure, Real.sqrt_eq_rpow]
    by_cases h33 : n = 3
    · subst h33
      simp [verifyNthRoot, mfNthRoot, hz, hnn, hpos, hpos.le, hok, hsr, bind, Except.bind, pure,
        Except.pure]
    by_cases hev : n % 2 = 0
    · simp [verifyNthRoot, mfNthRoot, hn0, h1, h22, h33, hev, hz, hnn, hpos, hok, hsr, bind,
        Except.bind, pure, Except.pure, pyPow_real_pos _ hpos, invNat]
    · simp [verifyNthRoot, mfNthRoot, hn0, h1, h22, h33, hev, hz, hnn, hpos, hok, hsr, bind,
        Except.bind, pure, Except.pure, pyPow_real_pos _ hpos, invNat]
  · have hneg : a < 0 := lt_of_le_of_ne (not_lt.mp hpos) hz
    have hnle : ¬ 0 ≤ a := not_le.mpr hneg
    have hpos' : 0 < -a := neg_pos.mpr hneg
    by_cases hev : n % 2 = 0
    · have : ¬ RootOK n a := fun h => hnle (h.2 hev)
      simp [verifyNthRoot, h2, hz, hev, hneg, this, bind, Except.bind, throw, throwThe,
        MonadExceptOf.throw]
    · have hok : RootOK n a := ⟨fun _ => hz, fun h => absurd h hev⟩
      have hsr : sroot n a = -((-a) ^ ((1 : ℝ) / n)) := by simp [sroot, hnle]
      have h22 : n ≠ 2 := fun h => hev (by subst h; rfl)
      by_cases h33 : n = 3
      · subst h33
        simp [verifyNthRoot, mfNthRoot, hz, hneg, hpos, hok, hsr, hpos'.le, bind, Except.bind,
          pure, Except.pure]
      · simp [verifyNthRoot, mfNthRoot, hn0, h1, h22, h33, hev, hz, hneg, hpos, hok, hsr, bind,
          Except.bind, pure, Except.pure, pyPow_real_pos _ hpos', invNat]

/-- the default base `e` is a legal base for both `Exponential` and `Logarithm` -/
theorem exp_one_gt_one : (1 : ℝ) < Real.exp 1 := by
  have := Real.add_one_lt_exp (x := 1) one_ne_zero
  linarith

theorem exp_one_ne_one : Real.exp 1 ≠ 1 := ne_of_gt exp_one_gt_one

/-! ### the evaluator -/

theorem valOf_get {p : Point ℝ} {x : String} {v : ℝ} (h : p.get? x = some v) : valOf p x = v := by
  simp [valOf, h]

mutual
theorem evalR_good (p : Point ℝ) : ∀ e : Expr ℝ, WF e →
    Good (Supp p e) (Dom (valOf p) e) (evalG realNum p e) (den (valOf p) e)
  | .const _ v, _ => Or.inl ⟨trivial, trivial, rfl⟩
  | .var _ x, _ => by
    simp only [evalG, Supp, Dom, den]
    cases h : p.get? x with
    | none => exact Or.inr (Or.inr ⟨by simp, Or.inl rfl⟩)
    | some v => exact Or.inl ⟨by simp, trivial, by simp [valOf, h, pure, Except.pure]⟩
  | .add _ as, hwf => by
    have ih := evalR_good_list p as hwf
    simp only [evalG, Supp, Dom, den]
    simpa using good_map ih (fun vs => mfAdd realNum vs)
  | .mul _ as, hwf => by
    have ih := evalR_good_list p as hwf
    simp only [evalG, Supp, Dom, den]
    simpa using good_map ih (fun vs => mfMultiply realNum vs)
  | .minus _ l r, hwf => by
    have ih1 := evalR_good p l hwf.1
    have ih2 := evalR_good p r hwf.2
    simp only [evalG, Supp, Dom, den]
    exact good_binary_total ih1 ih2 (fun a b => pure (mfMinus realNum a b)) (fun a b => a - b)
      (fun a b => rfl)
  | .neg _ u, hwf => by
    have ih := evalR_good p u hwf
    simp only [evalG, Supp, Dom, den]
    exact good_unary_total ih (fun a => pure (mfNegation realNum a)) (fun a => -a) (fun a => rfl)
  | .div _ l r, hwf => by
    have ih1 := evalR_good p l hwf.1
    have ih2 := evalR_good p r hwf.2
    simp only [evalG, Supp, Dom, den]
    exact good_binary ih1 ih2 (fun a b => do verifyDivide realNum a b; mfDivide realNum a b)
      (fun _ b => b ≠ 0) (fun a b => a / b) (fun a b => divide_local a b)
  | .recip _ u, hwf => by
    have ih := evalR_good p u hwf
    simp only [evalG, Supp, Dom, den]
    exact good_unary ih (fun a => do verifyReciprocal realNum a; mfReciprocal realNum a)
      (fun a => a ≠ 0) (fun a => a⁻¹) (fun a => reciprocal_local a)
  | .pow _ l r, hwf => by
    have ih1 := evalR_good p l hwf.1
    have ih2 := evalR_good p r hwf.2
    simp only [evalG, Supp, Dom, den]
    exact good_binary ih1 ih2 (fun a b => do verifyPower realNum a b; mfPower realNum a b)
      (fun a _ => 0 < a) (fun a b => Real.exp (b * Real.log a)) (fun a b => power_local a b)
  | .npow _ u n, hwf => by
    have ih := evalR_good p u hwf.2
    simp only [evalG, Supp, Dom, den]
    exact good_unary_total ih (fun a => mfNthPower realNum a n) (fun a => a ^ n)
      (fun a => nthPower_local hwf.1 a)
  | .nroot _ u n, hwf => by
    have ih := evalR_good p u hwf.2
    simp only [evalG, Supp, Dom, den]
    exact good_unary ih (fun a => do verifyNthRoot realNum n a; mfNthRoot realNum a n)
      (RootOK n) (sroot n) (fun a => nthRoot_local hwf.1 a)
  | .exp _ u b, hwf => by
    have ih := evalR_good p u hwf.2
    simp only [evalG, Supp, Dom, den]
    exact good_unary_total ih (fun a => mfExponential realNum a b)
      (fun a => Real.exp (a * Real.log b)) (fun a => exponential_local hwf.1 a)
  | .log _ u b, hwf => by
    have ih := evalR_good p u hwf.2.2
    simp only [evalG, Supp, Dom, den]
    exact good_unary ih (fun a => do verifyLogarithm realNum a; mfLogarithm realNum a b)
      (fun a => 0 < a) (fun a => Real.log a / Real.log b)
      (fun a => logarithm_local hwf.1 hwf.2.1 a)
  | .cos _ u, hwf => by
    have ih := evalR_good p u hwf
    simp only [evalG, Supp, Dom, den]
    exact good_unary_total ih (fun a => mfCosine realNum a) Real.cos (fun a => rfl)
  | .sin _ u, hwf => by
    have ih := evalR_good p u hwf
    simp only [evalG, Supp, Dom, den]
    exact good_unary_total ih (fun a => mfSine realNum a) Real.sin (fun a => rfl)
theorem evalR_good_list (p : Point ℝ) : ∀ es : List (Expr ℝ), WFList es →
    Good (SuppList p es) (DomList (valOf p) es) (evalListG realNum p es) (denList (valOf p) es)
  | [], _ => Or.inl ⟨trivial, trivial, rfl⟩
  | e :: es, hwf => by
    have ih1 := evalR_good p e hwf.1
    have ih2 := evalR_good_list p es hwf.2
    simp only [evalListG, SuppList, DomList, denList]
    exact good_cons ih1 ih2
end

end Smooth
