/-
Proofs/TruePartial — `truePartial p y e` (the `deriv` of the denotation along coordinate `y`) and the
statements that forward mode, one reverse traversal, `_numeric_partials` and `LocatedDifferential`
compute it.  (Helper file: the property statements are in Properties/C04.lean.)
-/
import Smooth.Proofs.Reverse
import Smooth.Proofs.Order
import Smooth.Model.Objects

namespace Smooth
open Expr

/-- the true partial derivative of `e` with respect to `y` at the point -/
noncomputable def truePartial (p : Point ℝ) (y : String) (e : Expr ℝ) : ℝ :=
  deriv (fun t => den (upd (valOf p) y t) e) (valOf p y)

theorem tp_fwd_is_truePartial (p : Point ℝ) (y : String) (e : Expr ℝ) (hwf : WF e) (hs : Supp p e)
    (hd : Dom (valOf p) e) : fwdG realNum p y e = .ok (truePartial p y e) := by
  obtain ⟨d, h, hder⟩ := (fwdR_spec p y e hwf).1 hs hd
  rw [h, truePartial, hder.deriv]

/-- **C04 (one traversal).**  From any accumulator and with any multiplier `m`, one reverse-mode
traversal of an expression defined at the point adds `m ·` (true partial) to the entry of *every*
variable simultaneously — a variable occurring several times (in different arguments, or through a
shared sub-expression, which in the model is the same sub-tree occurring twice) receives the sum of
its contributions because that sum is what the true partial of the whole tree is. -/
theorem tp_rev_adds_true_partials (p : Point ℝ) (e : Expr ℝ) (hwf : WF e) (hs : Supp p e)
    (hd : Dom (valOf p) e) (m : ℝ) (acc : Acc ℝ) :
    ∃ acc', revG realNum p e m acc = .ok acc' ∧
      ∀ y, getA acc' y = getA acc y + m * truePartial p y e := by
  obtain ⟨acc', h, hacc⟩ := (revR_spec p e hwf m acc).1 hs hd
  exact ⟨acc', h, fun y => hacc y _ (tp_fwd_is_truePartial p y e hwf hs hd)⟩

/-- `_numeric_partials(point)` : every listed variable reads its true partial -/
theorem tp_numericPartials_true (p : Point ℝ) (e : Expr ℝ) (hwf : WF e) (hs : Supp p e)
    (hd : Dom (valOf p) e) :
    ∃ d, numericPartials realNum p e = .ok d ∧
      ∀ y, Acc.get? d y = if y ∈ e.vars then some (truePartial p y e) else none := by
  obtain ⟨acc', h, hacc⟩ := tp_rev_adds_true_partials p e hwf hs hd 1 []
  refine ⟨readBack realNum acc' e.vars, ?_, fun y => ?_⟩
  · rw [numericPartials_eq_over, numericPartialsOver]
    simp [h, bind, Except.bind, pure, Except.pure]
  · rw [get?_readBack]
    have := hacc y
    simp only [getA, Acc.get?, Point.get?, Option.getD_none, zero_add, one_mul] at this
    simp only [realNum_zero]
    split
    · rw [show (Acc.get? acc' y).getD 0 = truePartial p y e from this]
    · rfl

/-- a variable that does not occur has true partial 0 (so the default `0` of
`LocatedDifferential.component` is the true partial as well) -/
theorem tp_truePartial_not_occurring (p : Point ℝ) (y : String) (e : Expr ℝ) (hy : ¬ Occurs y e) :
    truePartial p y e = 0 := by
  unfold truePartial
  have : (fun t => den (upd (valOf p) y t) e) = fun _ => den (valOf p) e := by
    funext t; exact den_upd_of_not_occurs (valOf p) e hy t
  rw [this]; simp

/-- **C04 (public objects).**  `LocatedDifferential(e, p).component(y)` is the true partial for every
queried variable, occurring or not. -/
theorem tp_located_component_true (p : Point ℝ) (e : Expr ℝ) (hwf : WF e) (hs : Supp p e)
    (hd : Dom (valOf p) e) (y : String) :
    ∃ L, LocatedObj.new realNum e p = .ok L ∧ L.component realNum y = truePartial p y e := by
  obtain ⟨d, h, hget⟩ := tp_numericPartials_true p e hwf hs hd
  refine ⟨⟨e, p, d⟩, by simp [LocatedObj.new, h, bind, Except.bind, pure, Except.pure], ?_⟩
  simp only [LocatedObj.component, hget y, realNum_zero]
  split
  · rfl
  · next hy =>
    have : ¬ Occurs y e := fun h => hy ((mem_vars y e).mpr h)
    simp [tp_truePartial_not_occurring p y e this]

/-- `Differential(e).at(p)` (not computed early) is `LocatedDifferential(e, p)` after checking that
the expression is defined at the point -/
theorem tp_differential_late_at (p : Point ℝ) (e : Expr ℝ) (hwf : WF e) (hs : Supp p e)
    (hd : Dom (valOf p) e) :
    (DifferentialObj.mk e none).at realNum p = LocatedObj.new realNum e p := by
  have hev := (evalR_good p e hwf).ok_iff.mpr ⟨hs, hd, rfl⟩
  simp [DifferentialObj.at, hev, bind, Except.bind]


end Smooth
