/-
Proofs/Coords — which coordinates of a point the model reads (C14, and the basis of C18).

Generic in the number instance `N : Num α`.

* `evalG_congr_occurs`, `fwdG_congr_occurs`, `revG_congr_occurs`, `numericPartials_congr_occurs`:
  evaluation and both numeric differentiation modes read the point only at the variables that occur
  in the expression — extra coordinates are irrelevant.
* `evalG_ok_supp`: evaluation returns a number only at points that supply every occurring variable.
* `NoMissing N` (the primitive operations of `N` never answer `missing`) ⇒ at a point that supplies
  the expression, `evalG`, `fwdG`, `revG`, `numericPartials` never answer `missing`
  (`evalG_not_missing`, …); contrapositive `evalG_missing_not_supp`.  `noMissing_realNum`.
-/
import Smooth.Proofs.Vars

namespace Smooth
open Expr
variable {α : Type}

/-- the two points agree on every variable that occurs in `e` -/
def AgreeOn (p q : Point α) (e : Expr α) : Prop := ∀ x, Occurs x e → p.get? x = q.get? x

/-- the two points agree on every variable that occurs in one of `es` -/
def AgreeOnList (p q : Point α) (es : List (Expr α)) : Prop :=
  ∀ x, OccursList x es → p.get? x = q.get? x

section agree
variable {p q : Point α}

theorem AgreeOn.nary_add {f : Flags} {as : List (Expr α)} (h : AgreeOn p q (.add f as)) :
    AgreeOnList p q as := fun x hx => h x (by simpa only [Occurs] using hx)
theorem AgreeOn.nary_mul {f : Flags} {as : List (Expr α)} (h : AgreeOn p q (.mul f as)) :
    AgreeOnList p q as := fun x hx => h x (by simpa only [Occurs] using hx)
theorem AgreeOnList.head {e : Expr α} {es : List (Expr α)} (h : AgreeOnList p q (e :: es)) :
    AgreeOn p q e := fun x hx => h x (by simp only [OccursList]; exact Or.inl hx)
theorem AgreeOnList.tail {e : Expr α} {es : List (Expr α)} (h : AgreeOnList p q (e :: es)) :
    AgreeOnList p q es := fun x hx => h x (by simp only [OccursList]; exact Or.inr hx)

theorem AgreeOn.minus_l {f : Flags} {l r : Expr α} (h : AgreeOn p q (.minus f l r)) :
    AgreeOn p q l := fun x hx => h x (by simp only [Occurs]; exact Or.inl hx)
theorem AgreeOn.minus_r {f : Flags} {l r : Expr α} (h : AgreeOn p q (.minus f l r)) :
    AgreeOn p q r := fun x hx => h x (by simp only [Occurs]; exact Or.inr hx)
theorem AgreeOn.div_l {f : Flags} {l r : Expr α} (h : AgreeOn p q (.div f l r)) :
    AgreeOn p q l := fun x hx => h x (by simp only [Occurs]; exact Or.inl hx)
theorem AgreeOn.div_r {f : Flags} {l r : Expr α} (h : AgreeOn p q (.div f l r)) :
    AgreeOn p q r := fun x hx => h x (by simp only [Occurs]; exact Or.inr hx)
theorem AgreeOn.pow_l {f : Flags} {l r : Expr α} (h : AgreeOn p q (.pow f l r)) :
    AgreeOn p q l := fun x hx => h x (by simp only [Occurs]; exact Or.inl hx)
theorem AgreeOn.pow_r {f : Flags} {l r : Expr α} (h : AgreeOn p q (.pow f l r)) :
    AgreeOn p q r := fun x hx => h x (by simp only [Occurs]; exact Or.inr hx)

theorem AgreeOn.neg_u {f : Flags} {u : Expr α} (h : AgreeOn p q (.neg f u)) : AgreeOn p q u :=
  fun x hx => h x (by simpa only [Occurs] using hx)
theorem AgreeOn.recip_u {f : Flags} {u : Expr α} (h : AgreeOn p q (.recip f u)) : AgreeOn p q u :=
  fun x hx => h x (by simpa only [Occurs] using hx)
theorem AgreeOn.npow_u {f : Flags} {u : Expr α} {n : Nat} (h : AgreeOn p q (.npow f u n)) :
    AgreeOn p q u := fun x hx => h x (by simpa only [Occurs] using hx)
theorem AgreeOn.nroot_u {f : Flags} {u : Expr α} {n : Nat} (h : AgreeOn p q (.nroot f u n)) :
    AgreeOn p q u := fun x hx => h x (by simpa only [Occurs] using hx)
theorem AgreeOn.exp_u {f : Flags} {u : Expr α} {b : α} (h : AgreeOn p q (.exp f u b)) :
    AgreeOn p q u := fun x hx => h x (by simpa only [Occurs] using hx)
theorem AgreeOn.log_u {f : Flags} {u : Expr α} {b : α} (h : AgreeOn p q (.log f u b)) :
    AgreeOn p q u := fun x hx => h x (by simpa only [Occurs] using hx)
theorem AgreeOn.cos_u {f : Flags} {u : Expr α} (h : AgreeOn p q (.cos f u)) : AgreeOn p q u :=
  fun x hx => h x (by simpa only [Occurs] using hx)
theorem AgreeOn.sin_u {f : Flags} {u : Expr α} (h : AgreeOn p q (.sin f u)) : AgreeOn p q u :=
  fun x hx => h x (by simpa only [Occurs] using hx)

/-- points with the same lookups agree on everything -/
theorem AgreeOn.of_get (h : ∀ x, p.get? x = q.get? x) (e : Expr α) : AgreeOn p q e :=
  fun x _ => h x

end agree

/-! ### evaluation reads only occurring variables -/

mutual
theorem evalG_congr_agree (N : Num α) (p q : Point α) : ∀ e : Expr α, AgreeOn p q e →
    evalG N p e = evalG N q e
  | .const _ _, _ => rfl
  | .var _ y, h => by
    have := h y (by simp only [Occurs])
    simp only [evalG, this]
  | .add _ as, h => by
    simp only [evalG, evalListG_congr_agree N p q as h.nary_add]
  | .mul _ as, h => by
    simp only [evalG, evalListG_congr_agree N p q as h.nary_mul]
  | .minus _ l r, h => by
    simp only [evalG, evalG_congr_agree N p q l h.minus_l, evalG_congr_agree N p q r h.minus_r]
  | .div _ l r, h => by
    simp only [evalG, evalG_congr_agree N p q l h.div_l, evalG_congr_agree N p q r h.div_r]
  | .pow _ l r, h => by
    simp only [evalG, evalG_congr_agree N p q l h.pow_l, evalG_congr_agree N p q r h.pow_r]
  | .neg _ u, h => by simp only [evalG, evalG_congr_agree N p q u h.neg_u]
  | .recip _ u, h => by simp only [evalG, evalG_congr_agree N p q u h.recip_u]
  | .npow _ u _, h => by simp only [evalG, evalG_congr_agree N p q u h.npow_u]
  | .nroot _ u _, h => by simp only [evalG, evalG_congr_agree N p q u h.nroot_u]
  | .exp _ u _, h => by simp only [evalG, evalG_congr_agree N p q u h.exp_u]
  | .log _ u _, h => by simp only [evalG, evalG_congr_agree N p q u h.log_u]
  | .cos _ u, h => by simp only [evalG, evalG_congr_agree N p q u h.cos_u]
  | .sin _ u, h => by simp only [evalG, evalG_congr_agree N p q u h.sin_u]
theorem evalListG_congr_agree (N : Num α) (p q : Point α) : ∀ es : List (Expr α),
    AgreeOnList p q es → evalListG N p es = evalListG N q es
  | [], _ => rfl
  | e :: es, h => by
    simp only [evalListG, evalG_congr_agree N p q e h.head, evalListG_congr_agree N p q es h.tail]
end

/-- **Extra coordinates are irrelevant (evaluation).**  Evaluation reads the point only at the
variables that occur in the expression. -/
theorem evalG_congr_occurs (N : Num α) {p q : Point α} (e : Expr α)
    (h : ∀ x, Occurs x e → p.get? x = q.get? x) : evalG N p e = evalG N q e :=
  evalG_congr_agree N p q e h

/-! ### the formulas of the differentiation rules -/

theorem unaryFormula_congr (N : Num α) {p q : Point α} (e : Expr α) (h : AgreeOn p q e) :
    unaryFormula N p e = unaryFormula N q e := by
  funext m
  cases e with
  | recip f u => simp only [unaryFormula, evalG_congr_agree N p q u h.recip_u]
  | npow f u n => simp only [unaryFormula, evalG_congr_agree N p q u h.npow_u]
  | nroot f u n => simp only [unaryFormula, evalG_congr_agree N p q _ h]
  | exp f u b => simp only [unaryFormula, evalG_congr_agree N p q _ h]
  | log f u b => simp only [unaryFormula, evalG_congr_agree N p q u h.log_u]
  | cos f u => simp only [unaryFormula, evalG_congr_agree N p q u h.cos_u]
  | sin f u => simp only [unaryFormula, evalG_congr_agree N p q u h.sin_u]
  | _ => simp only [unaryFormula]

theorem divFormulaLeft_congr (N : Num α) {p q : Point α} (l r : Expr α) (hr : AgreeOn p q r) :
    divFormulaLeft N p l r = divFormulaLeft N q l r := by
  funext m; simp only [divFormulaLeft, evalG_congr_agree N p q r hr]

theorem divFormulaRight_congr (N : Num α) {p q : Point α} (l r : Expr α) (hl : AgreeOn p q l)
    (hr : AgreeOn p q r) : divFormulaRight N p l r = divFormulaRight N q l r := by
  funext m
  simp only [divFormulaRight, evalG_congr_agree N p q l hl, evalG_congr_agree N p q r hr]

theorem powFormulaLeft_congr (N : Num α) {p q : Point α} (l r : Expr α) (hl : AgreeOn p q l)
    (hr : AgreeOn p q r) : powFormulaLeft N p l r = powFormulaLeft N q l r := by
  funext m
  simp only [powFormulaLeft, evalG_congr_agree N p q l hl, evalG_congr_agree N p q r hr]

theorem powFormulaRight_congr (N : Num α) {p q : Point α} (self l : Expr α)
    (hs : AgreeOn p q self) (hl : AgreeOn p q l) :
    powFormulaRight N p self l = powFormulaRight N q self l := by
  funext m
  simp only [powFormulaRight, evalG_congr_agree N p q l hl, evalG_congr_agree N p q self hs]

theorem powShortcut_congr (N : Num α) {p q : Point α} (l : Expr α) (hl : AgreeOn p q l) :
    powShortcut N p l = powShortcut N q l := by
  simp only [powShortcut, evalG_congr_agree N p q l hl]

/-! ### forward mode reads only occurring variables -/

mutual
theorem fwdG_congr_agree (N : Num α) (p q : Point α) (x : String) : ∀ e : Expr α, AgreeOn p q e →
    fwdG N p x e = fwdG N q x e
  | .const _ _, _ => rfl
  | .var _ y, _ => by simp only [fwdG]
  | .add _ as, h => by simp only [fwdG, fwdListG_congr_agree N p q x as h.nary_add]
  | .mul _ as, h => by
    simp only [fwdG, fwdListG_congr_agree N p q x as h.nary_mul,
      evalListG_congr_agree N p q as h.nary_mul]
  | .minus _ l r, h => by
    simp only [fwdG, fwdG_congr_agree N p q x l h.minus_l, fwdG_congr_agree N p q x r h.minus_r]
  | .div _ l r, h => by
    simp only [fwdG, fwdG_congr_agree N p q x l h.div_l, fwdG_congr_agree N p q x r h.div_r,
      evalG_congr_agree N p q l h.div_l, evalG_congr_agree N p q r h.div_r,
      divFormulaLeft_congr N l r h.div_r, divFormulaRight_congr N l r h.div_l h.div_r]
  | .pow f l r, h => by
    simp only [fwdG, fwdG_congr_agree N p q x l h.pow_l, fwdG_congr_agree N p q x r h.pow_r,
      evalG_congr_agree N p q l h.pow_l, evalG_congr_agree N p q r h.pow_r,
      evalG_congr_agree N p q (.pow f l r) h,
      powShortcut_congr N l h.pow_l, powFormulaLeft_congr N l r h.pow_l h.pow_r,
      powFormulaRight_congr N (.pow f l r) l h h.pow_l]
  | .neg f u, h => by
    simp only [fwdG, fwdG_congr_agree N p q x u h.neg_u, evalG_congr_agree N p q u h.neg_u,
      unaryFormula_congr N (.neg f u) h]
  | .recip f u, h => by
    simp only [fwdG, fwdG_congr_agree N p q x u h.recip_u, evalG_congr_agree N p q u h.recip_u,
      unaryFormula_congr N (.recip f u) h]
  | .npow f u n, h => by
    simp only [fwdG, fwdG_congr_agree N p q x u h.npow_u, evalG_congr_agree N p q u h.npow_u,
      unaryFormula_congr N (.npow f u n) h]
  | .nroot f u n, h => by
    simp only [fwdG, fwdG_congr_agree N p q x u h.nroot_u, evalG_congr_agree N p q u h.nroot_u,
      unaryFormula_congr N (.nroot f u n) h]
  | .exp f u b, h => by
    simp only [fwdG, fwdG_congr_agree N p q x u h.exp_u, evalG_congr_agree N p q u h.exp_u,
      unaryFormula_congr N (.exp f u b) h]
  | .log f u b, h => by
    simp only [fwdG, fwdG_congr_agree N p q x u h.log_u, evalG_congr_agree N p q u h.log_u,
      unaryFormula_congr N (.log f u b) h]
  | .cos f u, h => by
    simp only [fwdG, fwdG_congr_agree N p q x u h.cos_u, evalG_congr_agree N p q u h.cos_u,
      unaryFormula_congr N (.cos f u) h]
  | .sin f u, h => by
    simp only [fwdG, fwdG_congr_agree N p q x u h.sin_u, evalG_congr_agree N p q u h.sin_u,
      unaryFormula_congr N (.sin f u) h]
theorem fwdListG_congr_agree (N : Num α) (p q : Point α) (x : String) : ∀ es : List (Expr α),
    AgreeOnList p q es → fwdListG N p x es = fwdListG N q x es
  | [], _ => rfl
  | e :: es, h => by
    simp only [fwdListG, fwdG_congr_agree N p q x e h.head,
      fwdListG_congr_agree N p q x es h.tail]
end

/-- **Extra coordinates are irrelevant (forward mode).**  `fwdG` also evaluates sub-expressions,
but still only the variables that occur are read. -/
theorem fwdG_congr_occurs (N : Num α) {p q : Point α} (x : String) (e : Expr α)
    (h : ∀ y, Occurs y e → p.get? y = q.get? y) : fwdG N p x e = fwdG N q x e :=
  fwdG_congr_agree N p q x e h

/-! ### reverse mode reads only occurring variables -/

mutual
theorem revG_congr_agree (N : Num α) (p q : Point α) : ∀ e : Expr α, AgreeOn p q e →
    ∀ (m : α) (acc : Acc α), revG N p e m acc = revG N q e m acc
  | .const _ _, _, _, _ => rfl
  | .var _ y, _, _, _ => by simp only [revG]
  | .add _ as, h, m, acc => by
    simp only [revG, revListG_congr_agree N p q as h.nary_add]
  | .mul _ as, h, m, acc => by
    simp only [revG, evalListG_congr_agree N p q as h.nary_mul,
      revMulG_congr_agree N p q as h.nary_mul]
  | .minus _ l r, h, m, acc => by
    simp only [revG, revG_congr_agree N p q l h.minus_l, revG_congr_agree N p q r h.minus_r]
  | .div _ l r, h, m, acc => by
    simp only [revG, revG_congr_agree N p q l h.div_l, revG_congr_agree N p q r h.div_r,
      evalG_congr_agree N p q l h.div_l, evalG_congr_agree N p q r h.div_r,
      divFormulaLeft_congr N l r h.div_r, divFormulaRight_congr N l r h.div_l h.div_r]
  | .pow f l r, h, m, acc => by
    simp only [revG, revG_congr_agree N p q l h.pow_l, revG_congr_agree N p q r h.pow_r,
      evalG_congr_agree N p q l h.pow_l, evalG_congr_agree N p q r h.pow_r,
      evalG_congr_agree N p q (.pow f l r) h,
      powShortcut_congr N l h.pow_l, powFormulaLeft_congr N l r h.pow_l h.pow_r,
      powFormulaRight_congr N (.pow f l r) l h h.pow_l]
  | .neg f u, h, m, acc => by
    simp only [revG, revG_congr_agree N p q u h.neg_u, evalG_congr_agree N p q u h.neg_u,
      unaryFormula_congr N (.neg f u) h]
  | .recip f u, h, m, acc => by
    simp only [revG, revG_congr_agree N p q u h.recip_u, evalG_congr_agree N p q u h.recip_u,
      unaryFormula_congr N (.recip f u) h]
  | .npow f u n, h, m, acc => by
    simp only [revG, revG_congr_agree N p q u h.npow_u, evalG_congr_agree N p q u h.npow_u,
      unaryFormula_congr N (.npow f u n) h]
  | .nroot f u n, h, m, acc => by
    simp only [revG, revG_congr_agree N p q u h.nroot_u, evalG_congr_agree N p q u h.nroot_u,
      unaryFormula_congr N (.nroot f u n) h]
  | .exp f u b, h, m, acc => by
    simp only [revG, revG_congr_agree N p q u h.exp_u, evalG_congr_agree N p q u h.exp_u,
      unaryFormula_congr N (.exp f u b) h]
  | .log f u b, h, m, acc => by
    simp only [revG, revG_congr_agree N p q u h.log_u, evalG_congr_agree N p q u h.log_u,
      unaryFormula_congr N (.log f u b) h]
  | .cos f u, h, m, acc => by
    simp only [revG, revG_congr_agree N p q u h.cos_u, evalG_congr_agree N p q u h.cos_u,
      unaryFormula_congr N (.cos f u) h]
  | .sin f u, h, m, acc => by
    simp only [revG, revG_congr_agree N p q u h.sin_u, evalG_congr_agree N p q u h.sin_u,
      unaryFormula_congr N (.sin f u) h]
theorem revListG_congr_agree (N : Num α) (p q : Point α) : ∀ es : List (Expr α),
    AgreeOnList p q es → ∀ (m : α) (acc : Acc α), revListG N p es m acc = revListG N q es m acc
  | [], _, _, _ => rfl
  | e :: es, h, m, acc => by
    simp only [revListG, revG_congr_agree N p q e h.head, revListG_congr_agree N p q es h.tail]
theorem revMulG_congr_agree (N : Num α) (p q : Point α) : ∀ es : List (Expr α),
    AgreeOnList p q es → ∀ (vs : List α) (m : α) (i : Nat) (acc : Acc α),
      revMulG N p vs m i es acc = revMulG N q vs m i es acc
  | [], _, _, _, _, _ => rfl
  | e :: es, h, vs, m, i, acc => by
    simp only [revMulG, revG_congr_agree N p q e h.head, revMulG_congr_agree N p q es h.tail]
end

/-- **Extra coordinates are irrelevant (reverse mode).** -/
theorem revG_congr_occurs (N : Num α) {p q : Point α} (e : Expr α)
    (h : ∀ y, Occurs y e → p.get? y = q.get? y) (m : α) (acc : Acc α) :
    revG N p e m acc = revG N q e m acc :=
  revG_congr_agree N p q e h m acc

theorem numericPartials_congr_occurs (N : Num α) {p q : Point α} (e : Expr α)
    (h : ∀ y, Occurs y e → p.get? y = q.get? y) :
    numericPartials N p e = numericPartials N q e := by
  simp only [numericPartials, revG_congr_occurs N e h]

/-! ### a number comes out only of a supplied point -/

theorem bind_eq_ok {β γ : Type} {r : R β} {k : β → R γ} {v : γ} (h : r >>= k = .ok v) :
    ∃ a, r = .ok a ∧ k a = .ok v := by
  cases r with
  | error e => cases h
  | ok a => exact ⟨a, rfl, h⟩

mutual
theorem evalG_ok_supp (N : Num α) (p : Point α) : ∀ (e : Expr α) (v : α),
    evalG N p e = .ok v → Supp p e
  | .const _ _, _, _ => trivial
  | .var _ y, v, h => by
    simp only [evalG] at h
    simp only [Supp]
    cases hg : p.get? y with
    | none => rw [hg] at h; cases h
    | some w => rfl
  | .add _ as, v, h => by
    simp only [evalG] at h
    obtain ⟨vs, h1, _⟩ := bind_eq_ok h
    simpa only [Supp] using evalListG_ok_supp N p as vs h1
  | .mul _ as, v, h => by
    simp only [evalG] at h
    obtain ⟨vs, h1, _⟩ := bind_eq_ok h
    simpa only [Supp] using evalListG_ok_supp N p as vs h1
  | .minus _ l r, v, h => by
    simp only [evalG] at h
    obtain ⟨a, h1, h⟩ := bind_eq_ok h
    obtain ⟨b, h2, _⟩ := bind_eq_ok h
    exact ⟨evalG_ok_supp N p l a h1, evalG_ok_supp N p r b h2⟩
  | .div _ l r, v, h => by
    simp only [evalG] at h
    obtain ⟨a, h1, h⟩ := bind_eq_ok h
    obtain ⟨b, h2, _⟩ := bind_eq_ok h
    exact ⟨evalG_ok_supp N p l a h1, evalG_ok_supp N p r b h2⟩
  | .pow _ l r, v, h => by
    simp only [evalG] at h
    obtain ⟨a, h1, h⟩ := bind_eq_ok h
    obtain ⟨b, h2, _⟩ := bind_eq_ok h
    exact ⟨evalG_ok_supp N p l a h1, evalG_ok_supp N p r b h2⟩
  | .neg _ u, v, h => by
    simp only [evalG] at h
    obtain ⟨a, h1, _⟩ := bind_eq_ok h
    simpa only [Supp] using evalG_ok_supp N p u a h1
  | .recip _ u, v, h => by
    simp only [evalG] at h
    obtain ⟨a, h1, _⟩ := bind_eq_ok h
    simpa only [Supp] using evalG_ok_supp N p u a h1
  | .npow _ u _, v, h => by
    simp only [evalG] at h
    obtain ⟨a, h1, _⟩ := bind_eq_ok h
    simpa only [Supp] using evalG_ok_supp N p u a h1
  | .nroot _ u _, v, h => by
    simp only [evalG] at h
    obtain ⟨a, h1, _⟩ := bind_eq_ok h
    simpa only [Supp] using evalG_ok_supp N p u a h1
  | .exp _ u _, v, h => by
    simp only [evalG] at h
    obtain ⟨a, h1, _⟩ := bind_eq_ok h
    simpa only [Supp] using evalG_ok_supp N p u a h1
  | .log _ u _, v, h => by
    simp only [evalG] at h
    obtain ⟨a, h1, _⟩ := bind_eq_ok h
    simpa only [Supp] using evalG_ok_supp N p u a h1
  | .cos _ u, v, h => by
    simp only [evalG] at h
    obtain ⟨a, h1, _⟩ := bind_eq_ok h
    simpa only [Supp] using evalG_ok_supp N p u a h1
  | .sin _ u, v, h => by
    simp only [evalG] at h
    obtain ⟨a, h1, _⟩ := bind_eq_ok h
    simpa only [Supp] using evalG_ok_supp N p u a h1
theorem evalListG_ok_supp (N : Num α) (p : Point α) : ∀ (es : List (Expr α)) (vs : List α),
    evalListG N p es = .ok vs → SuppList p es
  | [], _, _ => trivial
  | e :: es, vs, h => by
    simp only [evalListG] at h
    obtain ⟨a, h1, h⟩ := bind_eq_ok h
    obtain ⟨as, h2, _⟩ := bind_eq_ok h
    exact ⟨evalG_ok_supp N p e a h1, evalListG_ok_supp N p es as h2⟩
end

/-- **C14, second half (any number instance).**  Evaluation at a point lacking an occurring
variable never returns a number. -/
theorem evalG_not_ok_of_lacking (N : Num α) (p : Point α) (e : Expr α) (x : String)
    (hx : Occurs x e) (hp : p.get? x = none) (v : α) : evalG N p e ≠ .ok v := by
  intro h
  have := (supp_iff_occurs p e).mp (evalG_ok_supp N p e v h) x hx
  rw [hp] at this
  cases this

/-! ### `CoordinateMissing` comes only from a missing coordinate -/

/-- The primitive operations of the number instance never answer `missing` (they know nothing
about points). -/
structure NoMissing (N : Num α) : Prop where
  rpow : ∀ x y, N.rpow x y ≠ .error .missing
  sqrt : ∀ x, N.sqrt x ≠ .error .missing
  cbrt : ∀ x, N.cbrt x ≠ .error .missing
  logb : ∀ x b, N.logb x b ≠ .error .missing
  sin : ∀ x, N.sin x ≠ .error .missing
  cos : ∀ x, N.cos x ≠ .error .missing

/-- the outcome is not `CoordinateMissing` -/
def NM {β : Type} (r : R β) : Prop := r ≠ .error .missing

theorem NM.pure {β : Type} (a : β) : NM (pure a : R β) := fun h => by cases h
theorem NM.ok {β : Type} (a : β) : NM (.ok a : R β) := fun h => by cases h
theorem NM.throw {β : Type} {e : Err} (he : e ≠ .missing) : NM (throw e : R β) := fun h => by
  cases h; exact he rfl
theorem NM.bind {β γ : Type} {r : R β} {k : β → R γ} (h : NM r) (hk : ∀ a, NM (k a)) :
    NM (r >>= k) := by
  cases r with
  | error e =>
    intro h'
    apply h
    cases h'
    rfl
  | ok a => exact hk a
theorem NM.ite {β : Type} {c : Prop} [Decidable c] {a b : R β} (ha : NM a) (hb : NM b) :
    NM (if c then a else b) := by
  split
  · exact ha
  · exact hb

theorem NM.of_ne {β : Type} {r : R β} (h : r ≠ .error .missing) : NM r := h
theorem NM.ne {β : Type} {r : R β} (h : NM r) : r ≠ .error .missing := h

attribute [irreducible] NM

section nm
variable {N : Num α}

theorem pyTrueDiv_nm (x y : α) : NM (pyTrueDiv N x y) :=
  NM.ite (NM.throw (by decide)) (NM.pure _)

theorem pyPow_nm (hN : NoMissing N) (x y : α) : NM (pyPow N x y) := by
  unfold pyPow
  refine NM.ite (NM.ite (NM.throw (by decide)) (NM.ite (NM.pure _) (NM.pure _)))
    (NM.ite ?_ (NM.of_ne (hN.rpow x y)))
  split
  · exact NM.throw (by decide)
  · exact NM.ite (NM.pure _) (NM.pure _)

theorem pySqrt_nm (hN : NoMissing N) (x : α) : NM (pySqrt N x) :=
  NM.ite (NM.throw (by decide)) (NM.of_ne (hN.sqrt x))

theorem pyLog_nm (hN : NoMissing N) (x b : α) : NM (pyLog N x b) :=
  NM.ite (NM.throw (by decide)) (NM.ite (NM.throw (by decide))
    (NM.ite (NM.throw (by decide)) (NM.of_ne (hN.logb x b))))

theorem mfDivide_nm (x y : α) : NM (mfDivide N x y) :=
  NM.ite (NM.throw (by decide)) (pyTrueDiv_nm x y)

theorem mfReciprocal_nm (x : α) : NM (mfReciprocal N x) :=
  NM.ite (NM.throw (by decide)) (pyTrueDiv_nm _ x)

theorem mfPower_nm (hN : NoMissing N) (x y : α) : NM (mfPower N x y) :=
  NM.ite (NM.throw (by decide)) (NM.ite (NM.throw (by decide)) (pyPow_nm hN x y))

theorem mfNthPower_nm (x : α) (n : Nat) : NM (mfNthPower N x n) :=
  NM.ite (NM.throw (by decide)) (NM.pure _)

theorem mfNthRoot_nm (hN : NoMissing N) (x : α) (n : Nat) : NM (mfNthRoot N x n) := by
  unfold mfNthRoot
  refine NM.ite (NM.throw (by decide)) (NM.ite (NM.pure _) (NM.ite ?_ (NM.ite ?_ (NM.ite ?_ ?_))))
  · exact NM.ite (pySqrt_nm hN x) (NM.throw (by decide))
  · exact NM.ite (NM.of_ne (hN.cbrt x)) (NM.ite (NM.throw (by decide))
      (NM.bind (NM.of_ne (hN.cbrt _)) fun _ => NM.pure _))
  · exact NM.ite (pyPow_nm hN _ _) (NM.throw (by decide))
  · exact NM.ite (pyPow_nm hN _ _) (NM.ite (NM.throw (by decide))
      (NM.bind (pyPow_nm hN _ _) fun _ => NM.pure _))

theorem mfExponential_nm (hN : NoMissing N) (x b : α) : NM (mfExponential N x b) :=
  NM.ite (NM.throw (by decide)) (pyPow_nm hN b x)

theorem mfLogarithm_nm (hN : NoMissing N) (x b : α) : NM (mfLogarithm N x b) :=
  NM.ite (NM.throw (by decide)) (NM.ite (NM.throw (by decide)) (pyLog_nm hN x b))

theorem mfCosine_nm (hN : NoMissing N) (x : α) : NM (mfCosine N x) := NM.of_ne (hN.cos x)
theorem mfSine_nm (hN : NoMissing N) (x : α) : NM (mfSine N x) := NM.of_ne (hN.sin x)

theorem verifyDivide_nm (a b : α) : NM (verifyDivide N a b) :=
  NM.ite (NM.throw (by decide)) (NM.pure _)
theorem verifyReciprocal_nm (a : α) : NM (verifyReciprocal N a) :=
  NM.ite (NM.throw (by decide)) (NM.pure _)
theorem verifyPower_nm (a b : α) : NM (verifyPower N a b) :=
  NM.ite (NM.throw (by decide)) (NM.ite (NM.throw (by decide)) (NM.pure _))
theorem verifyNthRoot_nm (n : Nat) (a : α) : NM (verifyNthRoot N n a) :=
  NM.ite (NM.throw (by decide)) (NM.ite (NM.throw (by decide)) (NM.pure _))
theorem verifyLogarithm_nm (a : α) : NM (verifyLogarithm N a) :=
  NM.ite (NM.throw (by decide)) (NM.ite (NM.throw (by decide)) (NM.pure _))
theorem unaryVerify_nm (e : Expr α) (a : α) : NM (unaryVerify N e a) := by
  unfold unaryVerify
  split
  · exact verifyReciprocal_nm a
  · exact verifyNthRoot_nm _ a
  · exact verifyLogarithm_nm a
  · exact NM.pure _

mutual
theorem evalG_nm (hN : NoMissing N) (p : Point α) : ∀ e : Expr α, Supp p e → NM (evalG N p e)
  | .const _ _, _ => NM.pure _
  | .var _ y, h => by
    simp only [Supp] at h
    simp only [evalG]
    cases hg : p.get? y with
    | none => rw [hg] at h; cases h
    | some w => exact NM.pure _
  | .add _ as, h => by
    simp only [evalG]
    exact NM.bind (evalListG_nm hN p as h) fun _ => NM.pure _
  | .mul _ as, h => by
    simp only [evalG]
    exact NM.bind (evalListG_nm hN p as h) fun _ => NM.pure _
  | .minus _ l r, h => by
    simp only [evalG]
    exact NM.bind (evalG_nm hN p l h.1) fun _ => NM.bind (evalG_nm hN p r h.2) fun _ => NM.pure _
  | .div _ l r, h => by
    simp only [evalG]
    exact NM.bind (evalG_nm hN p l h.1) fun _ => NM.bind (evalG_nm hN p r h.2) fun _ =>
      NM.bind (verifyDivide_nm _ _) fun _ => mfDivide_nm _ _
  | .pow _ l r, h => by
    simp only [evalG]
    exact NM.bind (evalG_nm hN p l h.1) fun _ => NM.bind (evalG_nm hN p r h.2) fun _ =>
      NM.bind (verifyPower_nm _ _) fun _ => mfPower_nm hN _ _
  | .neg _ u, h => by
    simp only [evalG]
    exact NM.bind (evalG_nm hN p u h) fun _ => NM.pure _
  | .recip _ u, h => by
    simp only [evalG]
    exact NM.bind (evalG_nm hN p u h) fun _ => NM.bind (verifyReciprocal_nm _) fun _ =>
      mfReciprocal_nm _
  | .npow _ u n, h => by
    simp only [evalG]
    exact NM.bind (evalG_nm hN p u h) fun _ => mfNthPower_nm _ _
  | .nroot _ u n, h => by
    simp only [evalG]
    exact NM.bind (evalG_nm hN p u h) fun _ => NM.bind (verifyNthRoot_nm _ _) fun _ =>
      mfNthRoot_nm hN _ _
  | .exp _ u b, h => by
    simp only [evalG]
    exact NM.bind (evalG_nm hN p u h) fun _ => mfExponential_nm hN _ _
  | .log _ u b, h => by
    simp only [evalG]
    exact NM.bind (evalG_nm hN p u h) fun _ => NM.bind (verifyLogarithm_nm _) fun _ =>
      mfLogarithm_nm hN _ _
  | .cos _ u, h => by
    simp only [evalG]
    exact NM.bind (evalG_nm hN p u h) fun _ => mfCosine_nm hN _
  | .sin _ u, h => by
    simp only [evalG]
    exact NM.bind (evalG_nm hN p u h) fun _ => mfSine_nm hN _
theorem evalListG_nm (hN : NoMissing N) (p : Point α) : ∀ es : List (Expr α), SuppList p es →
    NM (evalListG N p es)
  | [], _ => NM.pure _
  | e :: es, h => by
    simp only [evalListG]
    exact NM.bind (evalG_nm hN p e h.1) fun _ =>
      NM.bind (evalListG_nm hN p es h.2) fun _ => NM.pure _
end

/-- closes `NM (…)` goals built from binds, conditionals and the functions above; facts about
sub-evaluations and `NoMissing N` are taken from the context -/
syntax "nm_auto" : tactic
macro_rules
  | `(tactic| nm_auto) => `(tactic|
    repeat' first
      | exact NM.pure _
      | exact NM.throw (by decide)
      | assumption
      | apply_assumption
      | intro _
      | apply mfDivide_nm | apply mfReciprocal_nm | apply mfNthPower_nm | apply mfPower_nm
      | apply mfNthRoot_nm | apply mfExponential_nm | apply mfLogarithm_nm | apply mfCosine_nm
      | apply mfSine_nm | apply verifyDivide_nm | apply verifyPower_nm | apply unaryVerify_nm
      | apply NM.bind
      | apply NM.ite)

theorem unaryFormula_nm (hN : NoMissing N) (p : Point α) (e : Expr α) (h : Supp p e) (m : α) :
    NM (unaryFormula N p e m) := by
  have he := evalG_nm hN p e h
  cases e with
  | recip f u => have hu := evalG_nm hN p u h; simp only [unaryFormula]; nm_auto
  | npow f u n => have hu := evalG_nm hN p u h; simp only [unaryFormula]; nm_auto
  | nroot f u n => simp only [unaryFormula]; nm_auto
  | exp f u b => simp only [unaryFormula]; nm_auto
  | log f u b => have hu := evalG_nm hN p u h; simp only [unaryFormula]; nm_auto
  | cos f u => have hu := evalG_nm hN p u h; simp only [unaryFormula]; nm_auto
  | sin f u => have hu := evalG_nm hN p u h; simp only [unaryFormula]; nm_auto
  | _ => simp only [unaryFormula]; nm_auto

theorem divFormulaLeft_nm (hN : NoMissing N) (p : Point α) (l r : Expr α) (hr : Supp p r) (m : α) :
    NM (divFormulaLeft N p l r m) := by
  have h2 := evalG_nm hN p r hr
  simp only [divFormulaLeft]; nm_auto

theorem divFormulaRight_nm (hN : NoMissing N) (p : Point α) (l r : Expr α) (hl : Supp p l)
    (hr : Supp p r) (m : α) : NM (divFormulaRight N p l r m) := by
  have h1 := evalG_nm hN p l hl
  have h2 := evalG_nm hN p r hr
  simp only [divFormulaRight]; nm_auto

theorem powFormulaLeft_nm (hN : NoMissing N) (p : Point α) (l r : Expr α) (hl : Supp p l)
    (hr : Supp p r) (m : α) : NM (powFormulaLeft N p l r m) := by
  have h1 := evalG_nm hN p l hl
  have h2 := evalG_nm hN p r hr
  simp only [powFormulaLeft]; nm_auto

theorem powFormulaRight_nm (hN : NoMissing N) (p : Point α) (self l : Expr α) (hs : Supp p self)
    (hl : Supp p l) (m : α) : NM (powFormulaRight N p self l m) := by
  have h1 := evalG_nm hN p l hl
  have h2 := evalG_nm hN p self hs
  simp only [powFormulaRight]; nm_auto

theorem powShortcut_nm (hN : NoMissing N) (p : Point α) (l : Expr α) (hl : Supp p l) :
    NM (powShortcut N p l) := by
  have h1 := evalG_nm hN p l hl
  simp only [powShortcut]; nm_auto

mutual
theorem fwdG_nm (hN : NoMissing N) (p : Point α) (x : String) : ∀ e : Expr α, Supp p e →
    NM (fwdG N p x e)
  | .const _ _, _ => NM.pure _
  | .var _ y, _ => by simp only [fwdG]; nm_auto
  | .add _ as, h => by
    have := fwdListG_nm hN p x as h
    simp only [fwdG]; nm_auto
  | .mul _ as, h => by
    have := fwdListG_nm hN p x as h
    have := evalListG_nm hN p as h
    simp only [fwdG]; nm_auto
  | .minus _ l r, h => by
    have := fwdG_nm hN p x l h.1
    have := fwdG_nm hN p x r h.2
    simp only [fwdG]; nm_auto
  | .div _ l r, h => by
    have := fwdG_nm hN p x l h.1
    have := fwdG_nm hN p x r h.2
    have := evalG_nm hN p l h.1
    have := evalG_nm hN p r h.2
    have := divFormulaLeft_nm hN p l r h.2
    have := divFormulaRight_nm hN p l r h.1 h.2
    simp only [fwdG]; nm_auto
  | .pow f l r, h => by
    have := fwdG_nm hN p x l h.1
    have := fwdG_nm hN p x r h.2
    have := evalG_nm hN p l h.1
    have := evalG_nm hN p r h.2
    have := evalG_nm hN p (.pow f l r) h
    have := powShortcut_nm hN p l h.1
    have := powFormulaLeft_nm hN p l r h.1 h.2
    have := powFormulaRight_nm hN p (.pow f l r) l h h.1
    simp only [fwdG]; nm_auto
  | .neg f u, h => by
    have := fwdG_nm hN p x u h
    have := evalG_nm hN p u h
    have := unaryFormula_nm hN p (.neg f u) h
    simp only [fwdG]; nm_auto
  | .recip f u, h => by
    have := fwdG_nm hN p x u h
    have := evalG_nm hN p u h
    have := unaryFormula_nm hN p (.recip f u) h
    simp only [fwdG]; nm_auto
  | .npow f u n, h => by
    have := fwdG_nm hN p x u h
    have := evalG_nm hN p u h
    have := unaryFormula_nm hN p (.npow f u n) h
    simp only [fwdG]; nm_auto
  | .nroot f u n, h => by
    have := fwdG_nm hN p x u h
    have := evalG_nm hN p u h
    have := unaryFormula_nm hN p (.nroot f u n) h
    simp only [fwdG]; nm_auto
  | .exp f u b, h => by
    have := fwdG_nm hN p x u h
    have := evalG_nm hN p u h
    have := unaryFormula_nm hN p (.exp f u b) h
    simp only [fwdG]; nm_auto
  | .log f u b, h => by
    have := fwdG_nm hN p x u h
    have := evalG_nm hN p u h
    have := unaryFormula_nm hN p (.log f u b) h
    simp only [fwdG]; nm_auto
  | .cos f u, h => by
    have := fwdG_nm hN p x u h
    have := evalG_nm hN p u h
    have := unaryFormula_nm hN p (.cos f u) h
    simp only [fwdG]; nm_auto
  | .sin f u, h => by
    have := fwdG_nm hN p x u h
    have := evalG_nm hN p u h
    have := unaryFormula_nm hN p (.sin f u) h
    simp only [fwdG]; nm_auto
theorem fwdListG_nm (hN : NoMissing N) (p : Point α) (x : String) : ∀ es : List (Expr α),
    SuppList p es → NM (fwdListG N p x es)
  | [], _ => NM.pure _
  | e :: es, h => by
    have := fwdG_nm hN p x e h.1
    have := fwdListG_nm hN p x es h.2
    simp only [fwdListG]; nm_auto
end

mutual
theorem revG_nm (hN : NoMissing N) (p : Point α) : ∀ e : Expr α, Supp p e →
    ∀ (m : α) (acc : Acc α), NM (revG N p e m acc)
  | .const _ _, _, _, _ => NM.pure _
  | .var _ y, _, _, _ => NM.pure _
  | .add _ as, h, m, acc => by
    simp only [revG]; exact revListG_nm hN p as h m acc
  | .mul _ as, h, m, acc => by
    have := revMulG_nm hN p as h
    have := evalListG_nm hN p as h
    simp only [revG]; nm_auto
  | .minus _ l r, h, m, acc => by
    have := revG_nm hN p l h.1
    have := revG_nm hN p r h.2
    simp only [revG]; nm_auto
  | .div _ l r, h, m, acc => by
    have := revG_nm hN p l h.1
    have := revG_nm hN p r h.2
    have := evalG_nm hN p l h.1
    have := evalG_nm hN p r h.2
    have := divFormulaLeft_nm hN p l r h.2
    have := divFormulaRight_nm hN p l r h.1 h.2
    simp only [revG]; nm_auto
  | .pow f l r, h, m, acc => by
    have := revG_nm hN p l h.1
    have := revG_nm hN p r h.2
    have := evalG_nm hN p l h.1
    have := evalG_nm hN p r h.2
    have := evalG_nm hN p (.pow f l r) h
    have := powShortcut_nm hN p l h.1
    have := powFormulaLeft_nm hN p l r h.1 h.2
    have := powFormulaRight_nm hN p (.pow f l r) l h h.1
    simp only [revG]; nm_auto
  | .neg f u, h, m, acc => by
    have := revG_nm hN p u h
    have := evalG_nm hN p u h
    have := unaryFormula_nm hN p (.neg f u) h
    simp only [revG]; nm_auto
  | .recip f u, h, m, acc => by
    have := revG_nm hN p u h
    have := evalG_nm hN p u h
    have := unaryFormula_nm hN p (.recip f u) h
    simp only [revG]; nm_auto
  | .npow f u n, h, m, acc => by
    have := revG_nm hN p u h
    have := evalG_nm hN p u h
    have := unaryFormula_nm hN p (.npow f u n) h
    simp only [revG]; nm_auto
  | .nroot f u n, h, m, acc => by
    have := revG_nm hN p u h
    have := evalG_nm hN p u h
    have := unaryFormula_nm hN p (.nroot f u n) h
    simp only [revG]; nm_auto
  | .exp f u b, h, m, acc => by
    have := revG_nm hN p u h
    have := evalG_nm hN p u h
    have := unaryFormula_nm hN p (.exp f u b) h
    simp only [revG]; nm_auto
  | .log f u b, h, m, acc => by
    have := revG_nm hN p u h
    have := evalG_nm hN p u h
    have := unaryFormula_nm hN p (.log f u b) h
    simp only [revG]; nm_auto
  | .cos f u, h, m, acc => by
    have := revG_nm hN p u h
    have := evalG_nm hN p u h
    have := unaryFormula_nm hN p (.cos f u) h
    simp only [revG]; nm_auto
  | .sin f u, h, m, acc => by
    have := revG_nm hN p u h
    have := evalG_nm hN p u h
    have := unaryFormula_nm hN p (.sin f u) h
    simp only [revG]; nm_auto
theorem revListG_nm (hN : NoMissing N) (p : Point α) : ∀ es : List (Expr α), SuppList p es →
    ∀ (m : α) (acc : Acc α), NM (revListG N p es m acc)
  | [], _, _, _ => NM.pure _
  | e :: es, h, m, acc => by
    have := revG_nm hN p e h.1
    have := revListG_nm hN p es h.2
    simp only [revListG]; nm_auto
theorem revMulG_nm (hN : NoMissing N) (p : Point α) : ∀ es : List (Expr α), SuppList p es →
    ∀ (vs : List α) (m : α) (i : Nat) (acc : Acc α), NM (revMulG N p vs m i es acc)
  | [], _, _, _, _, _ => NM.pure _
  | e :: es, h, vs, m, i, acc => by
    have := revG_nm hN p e h.1
    have := revMulG_nm hN p es h.2
    simp only [revMulG]; nm_auto
end

end nm

/-- **C14, first half (any number instance whose primitives know nothing about points).**
Evaluation at a point that supplies every occurring variable never answers `CoordinateMissing`,
whatever other coordinates the point has. -/
theorem evalG_not_missing {N : Num α} (hN : NoMissing N) (p : Point α) (e : Expr α)
    (h : Supp p e) : evalG N p e ≠ .error .missing := (evalG_nm hN p e h).ne

/-- contrapositive: `CoordinateMissing` means a coordinate is missing -/
theorem evalG_missing_not_supp {N : Num α} (hN : NoMissing N) (p : Point α) (e : Expr α)
    (h : evalG N p e = .error .missing) : ¬ Supp p e := fun hs => evalG_not_missing hN p e hs h

/-- … and then some occurring variable has no coordinate -/
theorem evalG_missing_lacks {N : Num α} (hN : NoMissing N) (p : Point α) (e : Expr α)
    (h : evalG N p e = .error .missing) : ∃ x, Occurs x e ∧ p.get? x = none := by
  have := evalG_missing_not_supp hN p e h
  rw [supp_iff_occurs] at this
  simp only [not_forall] at this
  obtain ⟨x, hx, hp⟩ := this
  refine ⟨x, hx, ?_⟩
  cases hg : p.get? x with
  | none => rfl
  | some v => rw [hg] at hp; exact absurd rfl hp

/-- forward-mode differentiation at a supplied point never answers `CoordinateMissing` -/
theorem fwdG_not_missing {N : Num α} (hN : NoMissing N) (p : Point α) (x : String) (e : Expr α)
    (h : Supp p e) : fwdG N p x e ≠ .error .missing := (fwdG_nm hN p x e h).ne

/-- reverse-mode differentiation at a supplied point never answers `CoordinateMissing` -/
theorem revG_not_missing {N : Num α} (hN : NoMissing N) (p : Point α) (e : Expr α)
    (h : Supp p e) (m : α) (acc : Acc α) : revG N p e m acc ≠ .error .missing :=
  (revG_nm hN p e h m acc).ne

theorem numericPartials_not_missing {N : Num α} (hN : NoMissing N) (p : Point α) (e : Expr α)
    (h : Supp p e) : numericPartials N p e ≠ .error .missing := by
  have := revG_nm hN p e h N.one []
  apply NM.ne
  simp only [numericPartials]
  exact NM.bind this fun _ => NM.pure _

/-- the real-number instance never answers `missing` (its primitives never fail at all) -/
theorem noMissing_realNum : NoMissing realNum where
  rpow _ _ := fun h => by cases h
  sqrt _ := fun h => by cases h
  cbrt _ := fun h => by cases h
  logb _ _ := fun h => by cases h
  sin _ := fun h => by cases h
  cos _ := fun h => by cases h

/-- Remark (not part of C14's text): *forward-mode differentiation* of a sum does not evaluate its
operands, so it can return a number at a point that lacks an occurring variable. -/
example : fwdG realNum [] "x" (mkAdd [mkVar "x", mkVar "y"]) = .ok ((0 + 1) + 0) := by
  simp [fwdG, fwdListG, mfAdd, sumL, bind, Except.bind, pure, Except.pure]

end Smooth
