/-
Proofs/Measure — one call of `stepF` on an unflagged expression strictly decreases the measure `mu`
of Proofs/MeasureDefs (property C11): congruence of `mu` under every constructor, constant folding,
flagging, the rules (Proofs/MeasureRules), and the driver `stepNode` / `stepTop` / `stepF`.
-/
import Smooth.Proofs.MeasureRules

namespace Smooth
open Expr
variable {α : Type}

/-! ### flags -/

theorem flags_setFlags (g : Flags) (e : Expr α) : (e.setFlags g).flags = g := by
  cases e <;> rfl

theorem wt_setFlags (g : Flags) (e : Expr α) : wt (e.setFlags g) = wt e := by
  cases e <;> simp [setFlags, wt]

theorem rootA_setFlags (g : Flags) (e : Expr α) : rootA (e.setFlags g) = rootA e := by
  cases e <;> rfl

theorem rootB_setFlags (g : Flags) (e : Expr α) : rootB (e.setFlags g) = rootB e := by
  cases e <;> rfl

theorem rootP_setFlags (g : Flags) (e : Expr α) : rootP (e.setFlags g) = rootP e := by
  cases e <;> rfl

/-- changing the root flags changes an additive component by the root's own contribution only -/
theorem total_setFlags (c : Expr α → Nat) (g : Flags) (e : Expr α) :
    total c (e.setFlags g) + c e = total c e + c (e.setFlags g) := by
  cases e <;> simp only [setFlags, total] <;> omega

theorem isRed_markFailed (e : Expr α) : e.markFailed.isRed = e.isRed := by
  simp [markFailed, isRed, flags_setFlags]

theorem MuLt_markFailed_right {x e : Expr α} (h : MuLt x e.markFailed) : MuLt x e := by
  have hA := total_setFlags rootA { e.flags with failed := true } e
  have hB := total_setFlags rootB { e.flags with failed := true } e
  have hP := total_setFlags rootP { e.flags with failed := true } e
  have hU := total_setFlags rootU { e.flags with failed := true } e
  simp only [rootA_setFlags, rootB_setFlags, rootP_setFlags, rootU, flags_setFlags] at hA hB hP hU
  unfold MuLt markFailed at h
  rw [wt_setFlags] at h
  unfold MuLt
  have e1 : cA (setFlags { e.flags with failed := true } e) = cA e := by simp only [cA]; omega
  have e2 : cB (setFlags { e.flags with failed := true } e) = cB e := by simp only [cB]; omega
  have e3 : cP (setFlags { e.flags with failed := true } e) = cP e := by simp only [cP]; omega
  have e4 : cU (setFlags { e.flags with failed := true } e) = cU e := by simp only [cU]; omega
  rwa [e1, e2, e3, e4] at h

/-- flagging an unflagged node decreases `U` and nothing else -/
theorem MuLt_markRed {e : Expr α} (h : e.isRed = false) : MuLt e.markRed e := by
  have hA := total_setFlags rootA { e.flags with red := true } e
  have hB := total_setFlags rootB { e.flags with red := true } e
  have hP := total_setFlags rootP { e.flags with red := true } e
  have hU := total_setFlags rootU { e.flags with red := true } e
  simp only [isRed] at h
  simp only [rootA_setFlags, rootB_setFlags, rootP_setFlags, rootU, flags_setFlags, h] at hA hB hP hU
  unfold MuLt markRed
  exact LexLt.ofU (by simp only [cA]; omega) (by simp only [cB]; omega)
    (by rw [wt_setFlags]) (by simp only [cP]; omega) (by simp only [cU]; simp at hU; omega)

/-! ### rules at the root -/

theorem firstRule_some_m (N : Num α) (e : Expr α) :
    ∀ (rs : List RuleId) (r : RuleId) (e' : Expr α),
      firstRule N e rs = some (r, e') → r.apply N e = some e'
  | [], r, e', h => by simp [firstRule] at h
  | r0 :: rs, r, e', h => by
    unfold firstRule at h
    split at h
    · rename_i e'' h0
      simp only [Option.some.injEq, Prod.mk.injEq] at h
      obtain ⟨rfl, rfl⟩ := h
      exact h0
    · exact firstRule_some_m N e rs r e' h

theorem stepTop_lt (N : Num α) {e : Expr α} (h : e.isRed = false) : MuLt (stepTop N e).1 e := by
  unfold stepTop
  split
  · rename_i r e' hr
    exact rule_decreases N r (firstRule_some_m N e _ r e' hr)
  · exact MuLt_markRed h

/-! ### constant folding -/

theorem foldAttempt_inl_m (N : Num α) {e : Expr α} {v : α} (h : foldAttempt N e = some (.inl v)) :
    e.vars.isEmpty = true ∧ isConstNode e = false := by
  unfold foldAttempt at h
  split at h
  · cases h
  split at h
  · cases h
  rename_i h1 h2
  exact ⟨by simpa using h1, by simpa using h2⟩

theorem foldAttempt_lt (N : Num α) {e : Expr α} {v : α} (h : foldAttempt N e = some (.inl v)) :
    MuLt (mkConst v) e := by
  obtain ⟨hv, hc⟩ := foldAttempt_inl_m N h
  cases e with
  | const f w => simp [isConstNode] at hc
  | var f x => simp [vars, varsAux] at hv
  | add f as => exact LexLt.ofW (by simp [total, rootA]) (by simp [total, rootB]) (by simp [wt])
  | mul f as => exact LexLt.ofW (by simp [total, rootA]) (by simp [total, rootB]) (by simp [wt])
  | minus f l r => exact LexLt.ofA (by simp [total, rootA])
  | div f l r => exact LexLt.ofA (by simp [total, rootA])
  | pow f l r => exact LexLt.ofA (by simp [total, rootA])
  | neg f u =>
    have := two_le_wt u
    exact LexLt.ofW (by simp [total, rootA]) (by simp [total, rootB]) (by simp only [wt]; omega)
  | recip f u =>
    have := two_le_wt u
    exact LexLt.ofW (by simp [total, rootA]) (by simp [total, rootB]) (by simp only [wt]; nlinarith)
  | cos f u =>
    have := two_le_wt u
    exact LexLt.ofW (by simp [total, rootA]) (by simp [total, rootB]) (by simp only [wt]; omega)
  | sin f u =>
    have := two_le_wt u
    exact LexLt.ofW (by simp [total, rootA]) (by simp [total, rootB]) (by simp only [wt]; nlinarith)
  | npow f u n => exact LexLt.ofB (by simp [total, rootA]) (by simp [total, rootB])
  | nroot f u n => exact LexLt.ofB (by simp [total, rootA]) (by simp [total, rootB])
  | exp f u b => exact LexLt.ofB (by simp [total, rootA]) (by simp [total, rootB])
  | log f u b => exact LexLt.ofB (by simp [total, rootA]) (by simp [total, rootB])


/-! ### congruence: a smaller operand makes a smaller node -/

theorem congr_neg {u' u : Expr α} {f : Flags} (h : MuLt u' u) (hf : f.red = false) :
    MuLt (mkNeg u') (.neg f u) :=
  LexLt.congr h (by simp only [cA, total, rootA]; omega) (by simp only [cB, total, rootB]; omega)
    (fun hw => by simp only [wt]; omega) (fun hw => by simp only [wt, hw])
    (by simp only [cP, total, rootP]; omega)
    (by simp only [cU, total, rootU, flags, hf]; simp; omega)

theorem congr_recip {u' u : Expr α} {f : Flags} (h : MuLt u' u) (hf : f.red = false) :
    MuLt (mkRecip u') (.recip f u) :=
  LexLt.congr h (by simp only [cA, total, rootA]; omega) (by simp only [cB, total, rootB]; omega)
    (fun hw => by simp only [wt]; nlinarith) (fun hw => by simp only [wt, hw])
    (by simp only [cP, total, rootP]; omega)
    (by simp only [cU, total, rootU, flags, hf]; simp; omega)

theorem congr_npow {u' u : Expr α} {f : Flags} {n : Nat} (h : MuLt u' u) (hf : f.red = false) :
    MuLt (mkNPow u' n) (.npow f u n) :=
  LexLt.congr h (by simp only [cA, total, rootA]; omega) (by simp only [cB, total, rootB]; omega)
    (fun hw => by simp only [wt]; nlinarith) (fun hw => by simp only [wt, hw])
    (by simp only [cP, total, rootP]; omega)
    (by simp only [cU, total, rootU, flags, hf]; simp; omega)

theorem congr_nroot {u' u : Expr α} {f : Flags} {n : Nat} (h : MuLt u' u) (hf : f.red = false) :
    MuLt (mkNRoot u' n) (.nroot f u n) :=
  LexLt.congr h (by simp only [cA, total, rootA]; omega) (by simp only [cB, total, rootB]; omega)
    (fun hw => by simp only [wt]; nlinarith) (fun hw => by simp only [wt, hw])
    (by simp only [cP, total, rootP]; omega)
    (by simp only [cU, total, rootU, flags, hf]; simp; omega)

theorem congr_exp {u' u : Expr α} {f : Flags} {b : α} (h : MuLt u' u) (hf : f.red = false) :
    MuLt (mkExp u' b) (.exp f u b) :=
  LexLt.congr h (by simp only [cA, total, rootA]; omega) (by simp only [cB, total, rootB]; omega)
    (fun hw => by simp only [wt]; exact Nat.pow_lt_pow_right (by omega) hw) (fun hw => by simp only [wt, hw])
    (by simp only [cP, total, rootP]; omega)
    (by simp only [cU, total, rootU, flags, hf]; simp; omega)

theorem congr_log {u' u : Expr α} {f : Flags} {b : α} (h : MuLt u' u) (hf : f.red = false) :
    MuLt (mkLog u' b) (.log f u b) :=
  LexLt.congr h (by simp only [cA, total, rootA]; omega) (by simp only [cB, total, rootB]; omega)
    (fun hw => by simp only [wt]; omega) (fun hw => by simp only [wt, hw])
    (by simp only [cP, total, rootP]; omega)
    (by simp only [cU, total, rootU, flags, hf]; simp; omega)

theorem congr_cos {u' u : Expr α} {f : Flags} (h : MuLt u' u) (hf : f.red = false) :
    MuLt (mkCos u') (.cos f u) :=
  LexLt.congr h (by simp only [cA, total, rootA]; omega) (by simp only [cB, total, rootB]; omega)
    (fun hw => by simp only [wt]; omega) (fun hw => by simp only [wt, hw])
    (by simp only [cP, total, rootP]; omega)
    (by simp only [cU, total, rootU, flags, hf]; simp; omega)

theorem congr_sin {u' u : Expr α} {f : Flags} (h : MuLt u' u) (hf : f.red = false) :
    MuLt (mkSin u') (.sin f u) :=
  LexLt.congr h (by simp only [cA, total, rootA]; omega) (by simp only [cB, total, rootB]; omega)
    (fun hw => by simp only [wt]; nlinarith) (fun hw => by simp only [wt, hw])
    (by simp only [cP, total, rootP]; omega)
    (by simp only [cU, total, rootU, flags, hf]; simp; omega)

theorem congr_minus_left {l' l r : Expr α} {f : Flags} (h : MuLt l' l) (hf : f.red = false) :
    MuLt (mkMinus l' r) (.minus f l r) :=
  LexLt.congr h (by simp only [cA, total, rootA]; omega) (by simp only [cB, total, rootB]; omega)
    (fun hw => by simp only [wt]; omega) (fun hw => by simp only [wt, hw])
    (by simp only [cP, total, rootP]; omega)
    (by simp only [cU, total, rootU, flags, hf]; simp; omega)

theorem congr_minus_right {l r' r : Expr α} {f : Flags} (h : MuLt r' r) (hf : f.red = false) :
    MuLt (mkMinus l r') (.minus f l r) :=
  LexLt.congr h (by simp only [cA, total, rootA]; omega) (by simp only [cB, total, rootB]; omega)
    (fun hw => by simp only [wt]; omega) (fun hw => by simp only [wt, hw])
    (by simp only [cP, total, rootP]; omega)
    (by simp only [cU, total, rootU, flags, hf]; simp; omega)

theorem congr_div_left {l' l r : Expr α} {f : Flags} (h : MuLt l' l) (hf : f.red = false) :
    MuLt (mkDiv l' r) (.div f l r) :=
  LexLt.congr h (by simp only [cA, total, rootA]; omega) (by simp only [cB, total, rootB]; omega)
    (fun hw => by simp only [wt]; omega) (fun hw => by simp only [wt, hw])
    (by simp only [cP, total, rootP]; omega)
    (by simp only [cU, total, rootU, flags, hf]; simp; omega)

theorem congr_div_right {l r' r : Expr α} {f : Flags} (h : MuLt r' r) (hf : f.red = false) :
    MuLt (mkDiv l r') (.div f l r) :=
  LexLt.congr h (by simp only [cA, total, rootA]; omega) (by simp only [cB, total, rootB]; omega)
    (fun hw => by simp only [wt]; omega) (fun hw => by simp only [wt, hw])
    (by simp only [cP, total, rootP]; omega)
    (by simp only [cU, total, rootU, flags, hf]; simp; omega)

theorem congr_pow_left {l' l r : Expr α} {f : Flags} (h : MuLt l' l) (hf : f.red = false) :
    MuLt (mkPow l' r) (.pow f l r) :=
  LexLt.congr h (by simp only [cA, total, rootA]; omega) (by simp only [cB, total, rootB]; omega)
    (fun hw => by simp only [wt]; exact Nat.pow_lt_pow_right (by omega) (Nat.mul_lt_mul_of_pos_right hw (by have := two_le_wt r; omega))) (fun hw => by simp only [wt, hw])
    (by simp only [cP, total, rootP]; omega)
    (by simp only [cU, total, rootU, flags, hf]; simp; omega)

theorem congr_pow_right {l r' r : Expr α} {f : Flags} (h : MuLt r' r) (hf : f.red = false) :
    MuLt (mkPow l r') (.pow f l r) :=
  LexLt.congr h (by simp only [cA, total, rootA]; omega) (by simp only [cB, total, rootB]; omega)
    (fun hw => by simp only [wt]; exact Nat.pow_lt_pow_right (by omega) (Nat.mul_lt_mul_of_pos_left hw (by have := two_le_wt l; omega))) (fun hw => by simp only [wt, hw])
    (by simp only [cP, total, rootP]; omega)
    (by simp only [cU, total, rootU, flags, hf]; simp; omega)

theorem congr_add {as' as : List (Expr α)} {f : Flags} (h : MuLtList as' as) (hf : f.red = false) :
    MuLt (mkAdd as') (.add f as) :=
  LexLt.congr h (by simp only [cA, total, rootA]; omega) (by simp only [cB, total, rootB]; omega)
    (fun hw => by simp only [wt]; omega) (fun hw => by simp only [wt, hw])
    (by simp only [cP, total, rootP]; omega)
    (by simp only [cU, total, rootU, flags, hf]; simp; omega)

theorem congr_mul {as' as : List (Expr α)} {f : Flags} (h : MuLtList as' as) (hf : f.red = false) :
    MuLt (mkMul as') (.mul f as) :=
  LexLt.congr h (by simp only [cA, total, rootA]; omega) (by simp only [cB, total, rootB]; omega)
    (fun hw => by simp only [wt]; omega) (fun hw => by simp only [wt, hw])
    (by simp only [cP, total, rootP]; omega)
    (by simp only [cU, total, rootU, flags, hf]; simp; omega)

theorem congr_head {e' e : Expr α} {es : List (Expr α)} (h : MuLt e' e) :
    MuLtList (e' :: es) (e :: es) :=
  LexLt.congr h (by simp only [cA, totalList]; omega) (by simp only [cB, totalList]; omega)
    (fun hw => by simp only [wtList]; omega) (fun hw => by simp only [wtList, hw])
    (by simp only [cP, totalList]; omega) (by simp only [cU, totalList]; omega)

theorem congr_tail {e : Expr α} {es' es : List (Expr α)} (h : MuLtList es' es) :
    MuLtList (e :: es') (e :: es) :=
  LexLt.congr h (by simp only [totalList]; omega) (by simp only [totalList]; omega)
    (fun hw => by simp only [wtList]; omega) (fun hw => by simp only [wtList, hw])
    (by simp only [totalList]; omega) (by simp only [totalList]; omega)


/-! ### the driver -/

/-- the shared body: folding, a step inside the first unflagged child, a rule at the node, or the
flag — each decreases the measure -/
theorem stepNode_lt (N : Num α) {self : Expr α} (sc : Unit → Option (Expr α × StepEvent))
    (hnr : self.isRed = false) (hchild : ∀ r, sc () = some r → MuLt r.1 self) :
    MuLt (stepNode N self sc).1 self := by
  unfold stepNode
  simp only [hnr, Bool.false_eq_true, if_false]
  split
  · rename_i v hv
    exact foldAttempt_lt N hv
  · split
    · rename_i r hr
      exact hchild r hr
    · split
      · exact MuLt_markFailed_right (stepTop_lt N (by rw [isRed_markFailed]; exact hnr))
      · exact stepTop_lt N hnr

theorem isRed_eq (e : Expr α) : e.isRed = e.flags.red := rfl

mutual
/-- **one step on an unflagged expression strictly decreases the measure** -/
theorem stepF_lt (N : Num α) : ∀ e : Expr α, e.isRed = false → MuLt (stepF N e).1 e
  | .const f v, h => by
    simp only [isRed, flags] at h
    rw [stepF]
    exact LexLt.ofU (by simp [total, rootA]) (by simp [total, rootB]) (by simp [wt])
      (by simp [total, rootP]) (by simp [cU, total, rootU, flags, h])
  | .var f x, h => by
    simp only [isRed, flags] at h
    rw [stepF]
    exact LexLt.ofU (by simp [total, rootA]) (by simp [total, rootB]) (by simp [wt])
      (by simp [total, rootP]) (by simp [cU, total, rootU, flags, h])
  | .add f as, h => by
    rw [stepF]
    refine stepNode_lt N _ h ?_
    intro r hr
    simp only [Option.map_eq_some_iff] at hr
    obtain ⟨p, hp, rfl⟩ := hr
    exact congr_add (stepFirstUnreduced_lt N as p hp) h
  | .mul f as, h => by
    rw [stepF]
    refine stepNode_lt N _ h ?_
    intro r hr
    simp only [Option.map_eq_some_iff] at hr
    obtain ⟨p, hp, rfl⟩ := hr
    exact congr_mul (stepFirstUnreduced_lt N as p hp) h
  | .minus f l r, h => by
    rw [stepF]
    refine stepNode_lt N _ h ?_
    intro q hq
    simp only at hq
    split at hq
    · rename_i hl
      obtain rfl := Option.some.inj hq
      exact congr_minus_left (stepF_lt N l (by simpa using hl)) h
    · split at hq
      · rename_i hr
        obtain rfl := Option.some.inj hq
        exact congr_minus_right (stepF_lt N r (by simpa using hr)) h
      · cases hq
  | .div f l r, h => by
    rw [stepF]
    refine stepNode_lt N _ h ?_
    intro q hq
    simp only at hq
    split at hq
    · rename_i hl
      obtain rfl := Option.some.inj hq
      exact congr_div_left (stepF_lt N l (by simpa using hl)) h
    · split at hq
      · rename_i hr
        obtain rfl := Option.some.inj hq
        exact congr_div_right (stepF_lt N r (by simpa using hr)) h
      · cases hq
  | .pow f l r, h => by
    rw [stepF]
    refine stepNode_lt N _ h ?_
    intro q hq
    simp only at hq
    split at hq
    · rename_i hl
      obtain rfl := Option.some.inj hq
      exact congr_pow_left (stepF_lt N l (by simpa using hl)) h
    · split at hq
      · rename_i hr
        obtain rfl := Option.some.inj hq
        exact congr_pow_right (stepF_lt N r (by simpa using hr)) h
      · cases hq
  | .neg f u, h => by
    rw [stepF]
    refine stepNode_lt N _ h ?_
    intro q hq
    simp only at hq
    split at hq
    · rename_i hu
      obtain rfl := Option.some.inj hq
      exact congr_neg (stepF_lt N u (by simpa using hu)) h
    · cases hq
  | .recip f u, h => by
    rw [stepF]
    refine stepNode_lt N _ h ?_
    intro q hq
    simp only at hq
    split at hq
    · rename_i hu
      obtain rfl := Option.some.inj hq
      exact congr_recip (stepF_lt N u (by simpa using hu)) h
    · cases hq
  | .npow f u n, h => by
    rw [stepF]
    refine stepNode_lt N _ h ?_
    intro q hq
    simp only at hq
    split at hq
    · rename_i hu
      obtain rfl := Option.some.inj hq
      exact congr_npow (stepF_lt N u (by simpa using hu)) h
    · cases hq
  | .nroot f u n, h => by
    rw [stepF]
    refine stepNode_lt N _ h ?_
    intro q hq
    simp only at hq
    split at hq
    · rename_i hu
      obtain rfl := Option.some.inj hq
      exact congr_nroot (stepF_lt N u (by simpa using hu)) h
    · cases hq
  | .exp f u b, h => by
    rw [stepF]
    refine stepNode_lt N _ h ?_
    intro q hq
    simp only at hq
    split at hq
    · rename_i hu
      obtain rfl := Option.some.inj hq
      exact congr_exp (stepF_lt N u (by simpa using hu)) h
    · cases hq
  | .log f u b, h => by
    rw [stepF]
    refine stepNode_lt N _ h ?_
    intro q hq
    simp only at hq
    split at hq
    · rename_i hu
      obtain rfl := Option.some.inj hq
      exact congr_log (stepF_lt N u (by simpa using hu)) h
    · cases hq
  | .cos f u, h => by
    rw [stepF]
    refine stepNode_lt N _ h ?_
    intro q hq
    simp only at hq
    split at hq
    · rename_i hu
      obtain rfl := Option.some.inj hq
      exact congr_cos (stepF_lt N u (by simpa using hu)) h
    · cases hq
  | .sin f u, h => by
    rw [stepF]
    refine stepNode_lt N _ h ?_
    intro q hq
    simp only at hq
    split at hq
    · rename_i hu
      obtain rfl := Option.some.inj hq
      exact congr_sin (stepF_lt N u (by simpa using hu)) h
    · cases hq
theorem stepFirstUnreduced_lt (N : Num α) : ∀ (as : List (Expr α)) (p : List (Expr α) × StepEvent),
    stepFirstUnreduced N as = some p → MuLtList p.1 as
  | [], p, h => by simp [stepFirstUnreduced] at h
  | e :: es, p, h => by
    rw [stepFirstUnreduced] at h
    split at h
    · rename_i he
      obtain rfl := Option.some.inj h
      exact congr_head (stepF_lt N e (by simpa using he))
    · simp only [Option.map_eq_some_iff] at h
      obtain ⟨q, hq, rfl⟩ := h
      exact congr_tail (stepFirstUnreduced_lt N es q hq)
end


/-! ### consequences: the literal order on `ℕ ×ₗ ℕ ×ₗ ℕ ×ₗ ℕ ×ₗ ℕ`, iteration -/

/-- the expression after one call of `_take_reduction_step` -/
def stepE (N : Num α) (e : Expr α) : Expr α := (stepF N e).1

theorem mu_stepE_lt (N : Num α) (e : Expr α) (h : e.isRed = false) : mu (stepE N e) < mu e :=
  (mu_lt_iff _ _).mpr (stepF_lt N e h)

theorem flags_red_eta (f : Flags) (h : f.red = true) : { f with red := true } = f := by
  cases f; simp only at h; subst h; rfl

/-- a flagged expression is returned unchanged -/
theorem stepF_of_isRed (N : Num α) (e : Expr α) (h : e.isRed = true) :
    stepF N e = (e, .already) := by
  cases e <;> simp only [isRed, flags] at h <;> rw [stepF]
  case const f v => simp [h, flags_red_eta]
  case var f x => simp [h, flags_red_eta]
  all_goals simp [stepNode, isRed, flags, h]

theorem mu_stepE_le (N : Num α) (e : Expr α) : mu (stepE N e) ≤ mu e := by
  cases h : e.isRed
  · exact (mu_stepE_lt N e h).le
  · simp [stepE, stepF_of_isRed N e h]

theorem mu_iterate_lt (N : Num α) (e : Expr α) (i : Nat) (hi : ((stepE N)^[i] e).isRed = false) :
    ∀ j, i < j → mu ((stepE N)^[j] e) < mu ((stepE N)^[i] e) := by
  intro j hij
  induction j with
  | zero => omega
  | succ j ih =>
    rw [Function.iterate_succ_apply']
    rcases Nat.lt_succ_iff_lt_or_eq.mp hij with hlt | rfl
    · exact lt_of_le_of_lt (mu_stepE_le N _) (ih hlt)
    · exact mu_stepE_lt N _ hi

theorem exists_iterate_isRed (N : Num α) (e : Expr α) : ∃ k, ((stepE N)^[k] e).isRed = true := by
  have key : ∀ m : ℕ ×ₗ ℕ ×ₗ ℕ ×ₗ ℕ ×ₗ ℕ, ∀ e : Expr α, mu e = m →
      ∃ k, ((stepE N)^[k] e).isRed = true := by
    intro m
    induction m using WellFoundedLT.induction with
    | ind m ih =>
      intro e hm
      cases h : e.isRed
      · obtain ⟨k, hk⟩ := ih (mu (stepE N e)) (hm ▸ mu_stepE_lt N e h) (stepE N e) rfl
        exact ⟨k + 1, by rwa [Function.iterate_succ_apply]⟩
      · exact ⟨0, h⟩
  exact key _ e rfl

/-- the `for _ in range(bound)` loop with a budget above the number of steps needed neither warns
nor stops early: it returns the first flagged iterate -/
theorem fullyReduceLoop_of_iterate (N : Num α) :
    ∀ (n fuel : Nat) (e : Expr α) (k : Nat) (tr : List StepEvent),
      ((stepE N)^[n] e).isRed = true → n < fuel →
      (fullyReduceLoop N fuel e k tr).warned = false ∧
        (fullyReduceLoop N fuel e k tr).expr.isRed = true
  | n, 0, e, k, tr, _, hf => by omega
  | 0, fuel + 1, e, k, tr, h, _ => by
    have h' : e.isRed = true := h
    simp [fullyReduceLoop, h']
  | n + 1, fuel + 1, e, k, tr, h, hf => by
    unfold fullyReduceLoop
    cases he : e.isRed
    · simp only [Bool.false_eq_true, if_false]
      rw [Function.iterate_succ_apply] at h
      exact fullyReduceLoop_of_iterate N n fuel (stepE N e) (k + 1) _ h (by omega)
    · simp [he]

/-! ### a flag event at the root certifies that no rule applies there -/

theorem apply_setFlags (N : Num α) (r : RuleId) (g : Flags) (e : Expr α) :
    r.apply N (e.setFlags g) = r.apply N e := by
  cases r <;> simp only [RuleId.apply] <;> cases e <;>
    first
    | rfl
    | (rename_i a; cases a <;> rfl)
    | (rename_i a b; cases a <;> rfl)

theorem reducers_setFlags (g : Flags) (e : Expr α) : reducers (e.setFlags g) = reducers e := by
  cases e <;> rfl

theorem firstRule_setFlags' (N : Num α) (g : Flags) (e : Expr α) :
    ∀ rs, firstRule N (e.setFlags g) rs = firstRule N e rs
  | [] => rfl
  | r :: rs => by
    simp only [firstRule, apply_setFlags, firstRule_setFlags' N g e rs]

theorem firstRule_setFlags (N : Num α) (g : Flags) (e : Expr α) :
    firstRule N (e.setFlags g) (reducers (e.setFlags g)) = firstRule N e (reducers e) := by
  rw [reducers_setFlags, firstRule_setFlags']

theorem stepNode_flag_red (N : Num α) {self : Expr α} (sc : Unit → Option (Expr α × StepEvent))
    (hsc : ∀ r, sc () = some r → r.1.isRed = false)
    (hnr : self.isRed = false) (hev : (stepNode N self sc).2 = .flag)
    (hred : (stepNode N self sc).1.isRed = true) :
    firstRule N (stepNode N self sc).1 (reducers (stepNode N self sc).1) = none := by
  generalize hres : stepNode N self sc = res at hev hred ⊢
  unfold stepNode at hres
  simp only [hnr, Bool.false_eq_true, if_false] at hres
  split at hres
  · subst hres; cases hev
  · split at hres
    · rename_i r hr
      subst hres
      rw [hsc _ hr] at hred; cases hred
    · unfold stepTop at hres
      split at hres
      · subst hres; cases hev
      · rename_i hnone
        subst hres
        unfold markRed
        rw [firstRule_setFlags]
        exact hnone

theorem stepF_flag_red (N : Num α) (e : Expr α) (hnr : e.isRed = false)
    (hev : (stepF N e).2 = .flag) (hred : (stepF N e).1.isRed = true) :
    firstRule N (stepF N e).1 (reducers (stepF N e).1) = none := by
  cases e
  case const f v => rw [stepF]; rfl
  case var f x => rw [stepF]; rfl
  case add f as =>
    rw [stepF] at hev hred ⊢
    refine stepNode_flag_red N _ ?_ hnr hev hred
    intro q hq
    simp only [Option.map_eq_some_iff] at hq
    obtain ⟨p, _, rfl⟩ := hq
    rfl
  case mul f as =>
    rw [stepF] at hev hred ⊢
    refine stepNode_flag_red N _ ?_ hnr hev hred
    intro q hq
    simp only [Option.map_eq_some_iff] at hq
    obtain ⟨p, _, rfl⟩ := hq
    rfl
  case minus f l r =>
    rw [stepF] at hev hred ⊢
    refine stepNode_flag_red N _ ?_ hnr hev hred
    intro q hq
    simp only at hq
    split at hq
    · obtain rfl := Option.some.inj hq; rfl
    · split at hq
      · obtain rfl := Option.some.inj hq; rfl
      · cases hq
  case div f l r =>
    rw [stepF] at hev hred ⊢
    refine stepNode_flag_red N _ ?_ hnr hev hred
    intro q hq
    simp only at hq
    split at hq
    · obtain rfl := Option.some.inj hq; rfl
    · split at hq
      · obtain rfl := Option.some.inj hq; rfl
      · cases hq
  case pow f l r =>
    rw [stepF] at hev hred ⊢
    refine stepNode_flag_red N _ ?_ hnr hev hred
    intro q hq
    simp only at hq
    split at hq
    · obtain rfl := Option.some.inj hq; rfl
    · split at hq
      · obtain rfl := Option.some.inj hq; rfl
      · cases hq
  all_goals
    rw [stepF] at hev hred ⊢
    refine stepNode_flag_red N _ ?_ hnr hev hred
    intro q hq
    simp only at hq
    split at hq
    · obtain rfl := Option.some.inj hq; rfl
    · cases hq


theorem firstRule_none (N : Num α) (e : Expr α) :
    ∀ rs, firstRule N e rs = none → ∀ r ∈ rs, r.apply N e = none
  | [], _, r, hr => by simp at hr
  | r0 :: rs, h, r, hr => by
    unfold firstRule at h
    split at h
    · cases h
    · rename_i h0
      rcases List.mem_cons.mp hr with rfl | hr
      · exact h0
      · exact firstRule_none N e rs h r hr


/-- after a flagged form is reached nothing changes any more -/
theorem iterate_const_of_isRed (N : Num α) (e : Expr α) (k : Nat)
    (hk : ((stepE N)^[k] e).isRed = true) : ∀ j, k ≤ j → (stepE N)^[j] e = (stepE N)^[k] e := by
  intro j hj
  induction j with
  | zero => have : k = 0 := by omega
            subst this; rfl
  | succ j ih =>
    rcases Nat.lt_succ_iff_lt_or_eq.mp (Nat.lt_succ_of_le hj) with hlt | rfl
    · rw [Function.iterate_succ_apply', ih (by omega)]
      simp [stepE, stepF_of_isRed N _ hk]
    · rfl

end Smooth
