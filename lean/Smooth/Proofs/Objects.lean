/-
Proofs/Objects — `__eq__`, `__hash__` and `__repr__` of the public objects as values (`Obj`):
expressions, `Point`, `Partial`, `Derivative`, `Differential`, `LocatedDifferential`.

* `Obj.cls`, `Obj.WF` (names of every point in the object pairwise distinct), `Obj.fresh`.
* `Obj.beq` is an equivalence on well-formed objects and never relates different classes.
* `sortedItems p` is a permutation of `p` ordered by name, and the only one when names are distinct.
* `Obj.hashKey` respects `Obj.beq`.
* `Obj.render` determines the object up to the (unprinted) flags of its expression.
-/
import Smooth.Proofs.Equality
import Smooth.Proofs.Print

namespace Smooth
variable {α : Type}
open Expr

/-! ### class, well-formedness -/

/-- the Python class of a public object (all expression classes lumped together: they are told apart
by `Expr.ctor`) -/
inductive ObjClass where
  | expr | point | partial_ | derivative | differential | located
  deriving DecidableEq, Repr

def Obj.cls : Obj α → ObjClass
  | .expr _ => .expr
  | .point _ => .point
  | .partial_ _ _ => .partial_
  | .derivative _ => .derivative
  | .differential _ => .differential
  | .located _ _ => .located

/-- every point occurring in the object has pairwise distinct names (keyword arguments / dictionary
keys are distinct) -/
def Obj.WF : Obj α → Prop
  | .point p => (p.map Prod.fst).Nodup
  | .located _ p => (p.map Prod.fst).Nodup
  | _ => True

/-- the object with the memo flags of its expression reset (nothing else changes) -/
def Obj.fresh : Obj α → Obj α
  | .expr e => .expr e.fresh
  | .point p => .point p
  | .partial_ e x => .partial_ e.fresh x
  | .derivative e => .derivative e.fresh
  | .differential e => .differential e.fresh
  | .located e p => .located e.fresh p

/-! ### `Obj.beq` is an equivalence -/

theorem obj_beq_refl {N : Num α} (h : EqLaws N) : ∀ a : Obj α, a.WF → Obj.beq N a a = true
  | .expr e, _ => beq_refl' h e
  | .point _, hw => pointBeq_refl' h hw
  | .partial_ e x, _ => by simp [Obj.beq, beq_refl' h e]
  | .derivative e, _ => beq_refl' h e
  | .differential e, _ => beq_refl' h e
  | .located e _, hw => by simp [Obj.beq, beq_refl' h e, pointBeq_refl' h hw]

/-- symmetry: for points the distinctness of the names of the *right* object is used (the model
compares `other` against `self`), for located differentials that of the *left* one -/
theorem obj_beq_symm {N : Num α} (h : EqLaws N) :
    ∀ a b : Obj α, a.WF → b.WF → Obj.beq N a b = true → Obj.beq N b a = true
  | .expr a, .expr b, _, _, hab => beq_symm' h hab
  | .point _, .point _, _, hb, hab => pointBeq_symm' h hb hab
  | .partial_ a x, .partial_ b y, _, _, hab => by
      simp only [Obj.beq, Bool.and_eq_true, beq_iff_eq] at hab ⊢
      exact ⟨beq_symm' h hab.1, hab.2.symm⟩
  | .derivative a, .derivative b, _, _, hab => beq_symm' h hab
  | .differential a, .differential b, _, _, hab => beq_symm' h hab
  | .located a p, .located b q, ha, _, hab => by
      simp only [Obj.beq, Bool.and_eq_true] at hab ⊢
      exact ⟨beq_symm' h hab.1, pointBeq_symm' h ha hab.2⟩
  | .expr _, .point _, _, _, hab | .expr _, .partial_ _ _, _, _, hab
  | .expr _, .derivative _, _, _, hab | .expr _, .differential _, _, _, hab
  | .expr _, .located _ _, _, _, hab
  | .point _, .expr _, _, _, hab | .point _, .partial_ _ _, _, _, hab
  | .point _, .derivative _, _, _, hab | .point _, .differential _, _, _, hab
  | .point _, .located _ _, _, _, hab
  | .partial_ _ _, .expr _, _, _, hab | .partial_ _ _, .point _, _, _, hab
  | .partial_ _ _, .derivative _, _, _, hab | .partial_ _ _, .differential _, _, _, hab
  | .partial_ _ _, .located _ _, _, _, hab
  | .derivative _, .expr _, _, _, hab | .derivative _, .point _, _, _, hab
  | .derivative _, .partial_ _ _, _, _, hab | .derivative _, .differential _, _, _, hab
  | .derivative _, .located _ _, _, _, hab
  | .differential _, .expr _, _, _, hab | .differential _, .point _, _, _, hab
  | .differential _, .partial_ _ _, _, _, hab | .differential _, .derivative _, _, _, hab
  | .differential _, .located _ _, _, _, hab
  | .located _ _, .expr _, _, _, hab | .located _ _, .point _, _, _, hab
  | .located _ _, .partial_ _ _, _, _, hab | .located _ _, .derivative _, _, _, hab
  | .located _ _, .differential _, _, _, hab => by simp [Obj.beq] at hab

/-- objects of different classes are never equal -/
theorem obj_beq_cls {N : Num α} {a b : Obj α} (h : Obj.beq N a b = true) : a.cls = b.cls := by
  cases a <;> cases b <;> first | rfl | (simp [Obj.beq] at h)

/-- transitivity needs no distinctness of names -/
theorem obj_beq_trans {N : Num α} (h : EqLaws N) {a b c : Obj α} (hab : Obj.beq N a b = true)
    (hbc : Obj.beq N b c = true) : Obj.beq N a c = true := by
  have h1 := obj_beq_cls hab
  have h2 := obj_beq_cls hbc
  cases a <;> cases b <;> simp [Obj.cls] at h1 <;> cases c <;> simp [Obj.cls] at h2
  · exact beq_trans' h hab hbc
  · exact pointBeq_trans' h hbc hab
  · simp only [Obj.beq, Bool.and_eq_true, beq_iff_eq] at hab hbc ⊢
    exact ⟨beq_trans' h hab.1 hbc.1, hab.2.trans hbc.2⟩
  · exact beq_trans' h hab hbc
  · exact beq_trans' h hab hbc
  · simp only [Obj.beq, Bool.and_eq_true] at hab hbc ⊢
    exact ⟨beq_trans' h hab.1 hbc.1, pointBeq_trans' h hab.2 hbc.2⟩

/-! ### `sortedItems` : the name-ordered permutation -/

theorem obj_sortedItems_perm (p : Point α) : (sortedItems p).Perm p :=
  List.mergeSort_perm _ _

theorem obj_sortedItems_pairwise (p : Point α) :
    (sortedItems p).Pairwise (fun a b => a.1 ≤ b.1) := by
  have h := List.pairwise_mergeSort (le := fun a b : String × α => decide (a.1 ≤ b.1))
    (fun a b c hab hbc => by
      simp only [decide_eq_true_eq] at hab hbc ⊢
      exact String.le_trans hab hbc)
    (fun a b => by
      simp only [Bool.or_eq_true, decide_eq_true_eq]
      exact String.le_total _ _) p
  simpa [sortedItems] using h

theorem obj_sortedItems_names_pairwise (p : Point α) :
    ((sortedItems p).map Prod.fst).Pairwise (· ≤ ·) := by
  rw [List.pairwise_map]
  exact obj_sortedItems_pairwise p

/-- two name-ordered lists with the same names up to order list the names in the same order -/
theorem obj_sorted_names_eq {l₁ l₂ : List String} (h₁ : l₁.Pairwise (· ≤ ·))
    (h₂ : l₂.Pairwise (· ≤ ·)) (h : l₁.Perm l₂) : l₁ = l₂ :=
  List.Perm.eq_of_pairwise (le := fun a b : String => a ≤ b)
    (fun _ _ _ _ hab hba => String.le_antisymm hab hba) h₁ h₂ h

theorem obj_sortedItems_names_eq {p q : Point α} (h : (p.map Prod.fst).Perm (q.map Prod.fst)) :
    (sortedItems p).map Prod.fst = (sortedItems q).map Prod.fst :=
  obj_sorted_names_eq (obj_sortedItems_names_pairwise p) (obj_sortedItems_names_pairwise q)
    ((((obj_sortedItems_perm p).map Prod.fst).trans h).trans ((obj_sortedItems_perm q).map Prod.fst).symm)

theorem obj_eq_of_mem_of_fst_eq {p : Point α} (hp : (p.map Prod.fst).Nodup) {a b : String × α}
    (ha : a ∈ p) (hb : b ∈ p) (hab : a.1 = b.1) : a = b := by
  obtain ⟨x, v⟩ := a
  obtain ⟨y, w⟩ := b
  simp only at hab
  subst hab
  have h1 := Point.get?_eq_some_of_mem hp ha
  have h2 := Point.get?_eq_some_of_mem hp hb
  rw [h1] at h2
  simpa using h2

/-- with distinct names, `sortedItems p` is the only name-ordered permutation of `p` -/
theorem obj_sortedItems_unique {p l : Point α} (hp : (p.map Prod.fst).Nodup) (hl : l.Perm p)
    (hs : l.Pairwise (fun a b => a.1 ≤ b.1)) : sortedItems p = l :=
  List.Perm.eq_of_pairwise (le := fun a b : String × α => a.1 ≤ b.1)
    (fun _ _ ha hb hab hba =>
      obj_eq_of_mem_of_fst_eq hp ((obj_sortedItems_perm p).mem_iff.mp ha) (hl.mem_iff.mp hb)
        (String.le_antisymm hab hba))
    (obj_sortedItems_pairwise p) hs ((obj_sortedItems_perm p).trans hl.symm)

/-! ### hashing -/

theorem obj_sameList_items {N : Num α} : ∀ (s t : List (String × α)),
    s.map Prod.fst = t.map Prod.fst →
    (∀ x v w, (x, v) ∈ s → (x, w) ∈ t → N.eq v w = true) →
    HKey.sameList N (s.map fun (x, v) => HKey.tup [.str x, .num v])
      (t.map fun (x, v) => HKey.tup [.str x, .num v]) = true
  | [], [], _, _ => by simp [HKey.sameList]
  | [], _ :: _, h, _ => by simp at h
  | _ :: _, [], h, _ => by simp at h
  | (x, v) :: s, (y, w) :: t, h, hv => by
    simp only [List.map_cons, List.cons.injEq] at h
    obtain ⟨hxy, h⟩ := h
    subst hxy
    have ih := obj_sameList_items s t h
      (fun x v w hs ht => hv x v w (List.mem_cons_of_mem _ hs) (List.mem_cons_of_mem _ ht))
    have hvw := hv x v w (by simp) (by simp)
    simp [HKey.sameList, HKey.same, ih, hvw]

/-- equal points (distinct names in the first) have hash keys that agree up to `N.eq` -/
theorem obj_pointHashKey_same {N : Num α} {p q : Point α} (hp : (p.map Prod.fst).Nodup)
    (h : pointBeq N p q = true) : HKey.same N (pointHashKey p) (pointHashKey q) = true := by
  have hq : (q.map Prod.fst).Nodup := pointBeq_nodup_right hp h
  have hnames := obj_sortedItems_names_eq (pointBeq_names_perm hp h)
  obtain ⟨_, hall⟩ := (pointBeq_iff_forall N p q).mp h
  have hitems := obj_sameList_items (N := N) (sortedItems p) (sortedItems q) hnames
    (fun x v w hs ht => by
      obtain ⟨w', hw', hvw'⟩ := hall x v ((obj_sortedItems_perm p).mem_iff.mp hs)
      rw [Point.get?_eq_some_of_mem hq ((obj_sortedItems_perm q).mem_iff.mp ht)] at hw'
      cases hw'
      exact hvw')
  simp [pointHashKey, HKey.same, HKey.sameList, hitems]

theorem obj_hashKey_same_of_beq {N : Num α} (h : EqLaws N) :
    ∀ a b : Obj α, a.WF → b.WF → Obj.beq N a b = true →
      HKey.same N a.hashKey b.hashKey = true
  | .expr a, .expr b, _, _, hab => hashKey_same_of_beq h hab
  | .point _, .point _, _, hb, hab =>
      obj_pointHashKey_same (pointBeq_nodup_right hb hab) (pointBeq_symm' h hb hab)
  | .partial_ a x, .partial_ b y, _, _, hab => by
      simp only [Obj.beq, Bool.and_eq_true] at hab
      simp [Obj.hashKey, HKey.same, HKey.sameList, hashKey_same_of_beq h hab.1]
  | .derivative a, .derivative b, _, _, hab => by
      simp only [Obj.beq] at hab
      simp [Obj.hashKey, HKey.same, HKey.sameList, hashKey_same_of_beq h hab]
  | .differential a, .differential b, _, _, hab => by
      simp only [Obj.beq] at hab
      simp [Obj.hashKey, HKey.same, HKey.sameList, hashKey_same_of_beq h hab]
  | .located a p, .located b q, ha, _, hab => by
      simp only [Obj.beq, Bool.and_eq_true] at hab
      have hp := obj_pointHashKey_same ha hab.2
      simp only [pointHashKey] at hp
      simp [Obj.hashKey, pointHashKey, HKey.same, HKey.sameList, hashKey_same_of_beq h hab.1]
      simpa [HKey.same, HKey.sameList] using hp
  | .expr _, .point _, _, _, hab | .expr _, .partial_ _ _, _, _, hab
  | .expr _, .derivative _, _, _, hab | .expr _, .differential _, _, _, hab
  | .expr _, .located _ _, _, _, hab
  | .point _, .expr _, _, _, hab | .point _, .partial_ _ _, _, _, hab
  | .point _, .derivative _, _, _, hab | .point _, .differential _, _, _, hab
  | .point _, .located _ _, _, _, hab
  | .partial_ _ _, .expr _, _, _, hab | .partial_ _ _, .point _, _, _, hab
  | .partial_ _ _, .derivative _, _, _, hab | .partial_ _ _, .differential _, _, _, hab
  | .partial_ _ _, .located _ _, _, _, hab
  | .derivative _, .expr _, _, _, hab | .derivative _, .point _, _, _, hab
  | .derivative _, .partial_ _ _, _, _, hab | .derivative _, .differential _, _, _, hab
  | .derivative _, .located _ _, _, _, hab
  | .differential _, .expr _, _, _, hab | .differential _, .point _, _, _, hab
  | .differential _, .partial_ _ _, _, _, hab | .differential _, .derivative _, _, _, hab
  | .differential _, .located _ _, _, _, hab
  | .located _ _, .expr _, _, _, hab | .located _ _, .point _, _, _, hab
  | .located _ _, .partial_ _ _, _, _, hab | .located _ _, .derivative _, _, _, hab
  | .located _ _, .differential _, _, _, hab => by simp [Obj.beq] at hab

/-! ### printing -/

/-- the 15 class names an expression can print as -/
def exprClassNames : List String :=
  ["Constant", "Variable", "Add", "Multiply", "Minus", "Divide", "Power", "Negation", "Reciprocal",
    "Cosine", "Sine", "NthPower", "NthRoot", "Exponential", "Logarithm"]

/-- the printed form of an expression starts with one of the 15 expression class names -/
theorem obj_render_head (e : Expr α) :
    ∃ c t, render e = Tok.ident c :: Tok.lp :: t ∧ c ∈ exprClassNames := by
  cases e <;> simp [render, exprClassNames]

theorem obj_render_head_ne (e : Expr α) {s : String} (hs : s ∉ exprClassNames) (t : List (Tok α)) :
    render e ≠ Tok.ident s :: t := by
  obtain ⟨c, t', hc, hm⟩ := obj_render_head e
  intro h
  rw [hc] at h
  simp only [List.cons.injEq, Tok.ident.injEq] at h
  exact hs (h.1 ▸ hm)

/-- the coordinates can be read off the printed items -/
theorem obj_joinComma_items_inj : ∀ p q : Point α,
    joinComma (p.map fun (x, v) => [Tok.ident x, Tok.eqs, Tok.num v])
      = joinComma (q.map fun (x, v) => [Tok.ident x, Tok.eqs, Tok.num v]) → p = q
  | [], [], _ => rfl
  | [], [_], h => by simp [joinComma] at h
  | [], _ :: _ :: _, h => by simp [joinComma] at h
  | [_], [], h => by simp [joinComma] at h
  | _ :: _ :: _, [], h => by simp [joinComma] at h
  | [(x, v)], [(y, w)], h => by simpa [joinComma] using h
  | [_], _ :: _ :: _, h => by simp [joinComma] at h
  | _ :: _ :: _, [_], h => by simp [joinComma] at h
  | (x, v) :: a :: p, (y, w) :: b :: q, h => by
    simp only [List.map_cons, joinComma, List.cons_append, List.nil_append, List.cons.injEq,
      Tok.ident.injEq, Tok.num.injEq, true_and] at h
    obtain ⟨hx, hv, h⟩ := h
    have ih := obj_joinComma_items_inj (a :: p) (b :: q) (by simpa using h)
    rw [hx, hv, ih]

/-- **`Point.__repr__` is injective** -/
theorem obj_renderPoint_inj {p q : Point α} (h : renderPoint p = renderPoint q) : p = q := by
  simp only [renderPoint, List.cons_append, List.nil_append, List.cons.injEq, true_and] at h
  exact obj_joinComma_items_inj p q (List.append_cancel_right h)

theorem obj_render_eq_of_fresh_eq : ∀ a b : Obj α, a.fresh = b.fresh → Obj.render a = Obj.render b := by
  intro a b h
  cases a <;> cases b <;> simp only [Obj.fresh, Obj.expr.injEq, Obj.point.injEq,
    Obj.partial_.injEq, Obj.derivative.injEq, Obj.differential.injEq, Obj.located.injEq,
    reduceCtorEq] at h
  · exact (render_eq_iff_fresh _ _).mpr h
  · rw [h]
  · simp only [Obj.render, renderPartial, (render_eq_iff_fresh _ _).mpr h.1, h.2]
  · simp only [Obj.render, renderDerivative, (render_eq_iff_fresh _ _).mpr h]
  · simp only [Obj.render, renderDifferential, (render_eq_iff_fresh _ _).mpr h]
  · simp only [Obj.render, renderLocated, (render_eq_iff_fresh _ _).mpr h.1, h.2]

/-- objects that print identically differ at most in the flags of their expression -/
theorem obj_fresh_eq_of_render_eq : ∀ a b : Obj α, Obj.render a = Obj.render b → a.fresh = b.fresh
  | .expr a, .expr b, h => by simp [Obj.fresh, render_injective_fresh a b h]
  | .point p, .point q, h => by simp [Obj.fresh, obj_renderPoint_inj h]
  | .partial_ a x, .partial_ b y, h => by
      simp only [Obj.render, renderPartial, List.cons_append, List.nil_append, List.cons.injEq,
        true_and] at h
      obtain ⟨h1, h2⟩ := render_prefix_free _ _ _ _ h
      simp only [List.cons.injEq, Tok.str.injEq, true_and, and_true] at h2
      simp [Obj.fresh, h1, h2]
  | .derivative a, .derivative b, h => by
      simp only [Obj.render, renderDerivative, List.cons_append, List.nil_append, List.cons.injEq,
        true_and] at h
      simp [Obj.fresh, (render_prefix_free _ _ _ _ h).1]
  | .differential a, .differential b, h => by
      simp only [Obj.render, renderDifferential, List.cons_append, List.nil_append,
        List.cons.injEq, true_and] at h
      simp [Obj.fresh, (render_prefix_free _ _ _ _ h).1]
  | .located a p, .located b q, h => by
      simp only [Obj.render, renderLocated, List.cons_append, List.nil_append, List.append_assoc,
        List.cons.injEq, true_and] at h
      obtain ⟨h1, h2⟩ := render_prefix_free _ _ _ _ h
      simp only [List.cons.injEq, true_and] at h2
      simp [Obj.fresh, h1, obj_renderPoint_inj (List.append_cancel_right h2)]
  | .expr a, .point _, h | .expr a, .partial_ _ _, h | .expr a, .derivative _, h
  | .expr a, .differential _, h | .expr a, .located _ _, h => by
      simp only [Obj.render, renderPoint, renderPartial, renderDerivative, renderDifferential,
        renderLocated, List.cons_append, List.nil_append, List.append_assoc] at h
      exact absurd h (obj_render_head_ne a (by simp [exprClassNames]) _)
  | .point _, .expr a, h | .partial_ _ _, .expr a, h | .derivative _, .expr a, h
  | .differential _, .expr a, h | .located _ _, .expr a, h => by
      simp only [Obj.render, renderPoint, renderPartial, renderDerivative, renderDifferential,
        renderLocated, List.cons_append, List.nil_append, List.append_assoc] at h
      exact absurd h.symm (obj_render_head_ne a (by simp [exprClassNames]) _)
  | .point _, .partial_ _ _, h | .point _, .derivative _, h | .point _, .differential _, h
  | .point _, .located _ _, h
  | .partial_ _ _, .point _, h | .partial_ _ _, .derivative _, h
  | .partial_ _ _, .differential _, h | .partial_ _ _, .located _ _, h
  | .derivative _, .point _, h | .derivative _, .partial_ _ _, h
  | .derivative _, .differential _, h | .derivative _, .located _ _, h
  | .differential _, .point _, h | .differential _, .partial_ _ _, h
  | .differential _, .derivative _, h | .differential _, .located _ _, h
  | .located _ _, .point _, h | .located _ _, .partial_ _ _, h
  | .located _ _, .derivative _, h | .located _ _, .differential _, h => by
      simp [Obj.render, renderPoint, renderPartial, renderDerivative, renderDifferential,
        renderLocated] at h

theorem obj_render_eq_iff_fresh (a b : Obj α) : Obj.render a = Obj.render b ↔ a.fresh = b.fresh :=
  ⟨obj_fresh_eq_of_render_eq a b, obj_render_eq_of_fresh_eq a b⟩

theorem obj_pointBeq_refl_of_refl {N : Num α} (hrefl : ∀ v, N.eq v v = true) {p : Point α}
    (hp : (p.map Prod.fst).Nodup) : pointBeq N p p = true :=
  (pointBeq_iff_forall N p p).mpr
    ⟨rfl, fun _ v hm => ⟨v, Point.get?_eq_some_of_mem hp hm, hrefl v⟩⟩

theorem obj_beq_of_expr_fresh_eq (N : Num α) (hrefl : ∀ v, N.eq v v = true) {a b : Expr α}
    (h : a.fresh = b.fresh) : beq N a b = true :=
  beq_of_render_eq N hrefl a b ((render_eq_iff_fresh a b).mpr h)

/-- objects that differ at most in flags are `==`, when `==` on numbers is reflexive and the names
of the points are distinct -/
theorem obj_beq_of_fresh_eq (N : Num α) (hrefl : ∀ v, N.eq v v = true) (a b : Obj α) (ha : a.WF)
    (h : a.fresh = b.fresh) : Obj.beq N a b = true := by
  cases a <;> cases b <;> simp only [Obj.fresh, Obj.expr.injEq, Obj.point.injEq,
    Obj.partial_.injEq, Obj.derivative.injEq, Obj.differential.injEq, Obj.located.injEq,
    reduceCtorEq] at h
  · exact obj_beq_of_expr_fresh_eq N hrefl h
  · subst h; exact obj_pointBeq_refl_of_refl hrefl ha
  · simp [Obj.beq, obj_beq_of_expr_fresh_eq N hrefl h.1, h.2]
  · exact obj_beq_of_expr_fresh_eq N hrefl h
  · exact obj_beq_of_expr_fresh_eq N hrefl h
  · obtain ⟨h1, h2⟩ := h
    subst h2
    simp [Obj.beq, obj_beq_of_expr_fresh_eq N hrefl h1, obj_pointBeq_refl_of_refl hrefl ha]

theorem obj_beq_of_render_eq (N : Num α) (hrefl : ∀ v, N.eq v v = true) (a b : Obj α) (ha : a.WF)
    (h : Obj.render a = Obj.render b) : Obj.beq N a b = true :=
  obj_beq_of_fresh_eq N hrefl a b ha (obj_fresh_eq_of_render_eq a b h)

end Smooth
