/-
Proofs/Vars — the model's variable list (`Expr.vars`, first-occurrence order, no duplicates) contains
exactly the variables that occur; a point supplies an expression iff it has every listed variable.
-/
import Smooth.Real.Spec

namespace Smooth
open Expr
variable {α : Type}

mutual
theorem mem_varsAux (x : String) : ∀ (e : Expr α) (acc : List String),
    x ∈ varsAux e acc ↔ x ∈ acc ∨ Occurs x e
  | .const _ _, acc => by simp [varsAux, Occurs]
  | .var _ y, acc => by
    simp only [varsAux, Occurs]
    by_cases h : acc.contains y
    · simp only [h, if_true]
      constructor
      · exact Or.inl
      · rintro (h1 | h1)
        · exact h1
        · subst h1; simpa using h
    · simp only [h, Bool.false_eq_true, if_false, List.mem_append, List.mem_singleton]
      constructor
      · rintro (h1 | h1)
        · exact Or.inl h1
        · exact Or.inr h1.symm
      · rintro (h1 | h1)
        · exact Or.inl h1
        · exact Or.inr h1.symm
  | .add _ as, acc => by simpa [varsAux, Occurs] using mem_varsAuxList x as acc
  | .mul _ as, acc => by simpa [varsAux, Occurs] using mem_varsAuxList x as acc
  | .minus _ l r, acc => by
    simp only [varsAux, Occurs, mem_varsAux x r, mem_varsAux x l]; tauto
  | .div _ l r, acc => by
    simp only [varsAux, Occurs, mem_varsAux x r, mem_varsAux x l]; tauto
  | .pow _ l r, acc => by
    simp only [varsAux, Occurs, mem_varsAux x r, mem_varsAux x l]; tauto
  | .neg _ u, acc => by simpa [varsAux, Occurs] using mem_varsAux x u acc
  | .recip _ u, acc => by simpa [varsAux, Occurs] using mem_varsAux x u acc
  | .npow _ u _, acc => by simpa [varsAux, Occurs] using mem_varsAux x u acc
  | .nroot _ u _, acc => by simpa [varsAux, Occurs] using mem_varsAux x u acc
  | .exp _ u _, acc => by simpa [varsAux, Occurs] using mem_varsAux x u acc
  | .log _ u _, acc => by simpa [varsAux, Occurs] using mem_varsAux x u acc
  | .cos _ u, acc => by simpa [varsAux, Occurs] using mem_varsAux x u acc
  | .sin _ u, acc => by simpa [varsAux, Occurs] using mem_varsAux x u acc
theorem mem_varsAuxList (x : String) : ∀ (es : List (Expr α)) (acc : List String),
    x ∈ varsAuxList es acc ↔ x ∈ acc ∨ OccursList x es
  | [], acc => by simp [varsAuxList, OccursList]
  | e :: es, acc => by
    simp only [varsAuxList, OccursList, mem_varsAuxList x es, mem_varsAux x e]; tauto
end

theorem mem_vars (x : String) (e : Expr α) : x ∈ e.vars ↔ Occurs x e := by
  simp [Expr.vars, mem_varsAux]

mutual
theorem nodup_varsAux : ∀ (e : Expr α) (acc : List String), acc.Nodup → (varsAux e acc).Nodup
  | .const _ _, acc, h => by simpa [varsAux] using h
  | .var _ y, acc, h => by
    simp only [varsAux]
    split
    · exact h
    · next hc =>
      have : y ∉ acc := by simpa using hc
      exact List.Nodup.append h (List.nodup_singleton y) (by
        intro a ha hb
        simp only [List.mem_singleton] at hb
        subst hb; exact this ha)
  | .add _ as, acc, h => by simpa [varsAux] using nodup_varsAuxList as acc h
  | .mul _ as, acc, h => by simpa [varsAux] using nodup_varsAuxList as acc h
  | .minus _ l r, acc, h => by simpa [varsAux] using nodup_varsAux r _ (nodup_varsAux l acc h)
  | .div _ l r, acc, h => by simpa [varsAux] using nodup_varsAux r _ (nodup_varsAux l acc h)
  | .pow _ l r, acc, h => by simpa [varsAux] using nodup_varsAux r _ (nodup_varsAux l acc h)
  | .neg _ u, acc, h => by simpa [varsAux] using nodup_varsAux u acc h
  | .recip _ u, acc, h => by simpa [varsAux] using nodup_varsAux u acc h
  | .npow _ u _, acc, h => by simpa [varsAux] using nodup_varsAux u acc h
  | .nroot _ u _, acc, h => by simpa [varsAux] using nodup_varsAux u acc h
  | .exp _ u _, acc, h => by simpa [varsAux] using nodup_varsAux u acc h
  | .log _ u _, acc, h => by simpa [varsAux] using nodup_varsAux u acc h
  | .cos _ u, acc, h => by simpa [varsAux] using nodup_varsAux u acc h
  | .sin _ u, acc, h => by simpa [varsAux] using nodup_varsAux u acc h
theorem nodup_varsAuxList : ∀ (es : List (Expr α)) (acc : List String), acc.Nodup →
    (varsAuxList es acc).Nodup
  | [], acc, h => by simpa [varsAuxList] using h
  | e :: es, acc, h => by
    simpa [varsAuxList] using nodup_varsAuxList es _ (nodup_varsAux e acc h)
end

theorem nodup_vars (e : Expr α) : e.vars.Nodup := nodup_varsAux e [] List.nodup_nil

mutual
theorem supp_iff_occurs (p : Point α) : ∀ e : Expr α,
    Supp p e ↔ ∀ x, Occurs x e → (p.get? x).isSome
  | .const _ _ => by simp [Supp, Occurs]
  | .var _ y => by simp [Supp, Occurs]
  | .add _ as => by simpa [Supp, Occurs] using suppList_iff_occurs p as
  | .mul _ as => by simpa [Supp, Occurs] using suppList_iff_occurs p as
  | .minus _ l r => by
    simp only [Supp, Occurs, supp_iff_occurs p l, supp_iff_occurs p r]
    constructor
    · rintro ⟨h1, h2⟩ x (h | h)
      · exact h1 x h
      · exact h2 x h
    · intro h; exact ⟨fun x hx => h x (Or.inl hx), fun x hx => h x (Or.inr hx)⟩
  | .div _ l r => by
    simp only [Supp, Occurs, supp_iff_occurs p l, supp_iff_occurs p r]
    constructor
    · rintro ⟨h1, h2⟩ x (h | h)
      · exact h1 x h
      · exact h2 x h
    · intro h; exact ⟨fun x hx => h x (Or.inl hx), fun x hx => h x (Or.inr hx)⟩
  | .pow _ l r => by
    simp only [Supp, Occurs, supp_iff_occurs p l, supp_iff_occurs p r]
    constructor
    · rintro ⟨h1, h2⟩ x (h | h)
      · exact h1 x h
      · exact h2 x h
    · intro h; exact ⟨fun x hx => h x (Or.inl hx), fun x hx => h x (Or.inr hx)⟩
  | .neg _ u => by simpa [Supp, Occurs] using supp_iff_occurs p u
  | .recip _ u => by simpa [Supp, Occurs] using supp_iff_occurs p u
  | .npow _ u _ => by simpa [Supp, Occurs] using supp_iff_occurs p u
  | .nroot _ u _ => by simpa [Supp, Occurs] using supp_iff_occurs p u
  | .exp _ u _ => by simpa [Supp, Occurs] using supp_iff_occurs p u
  | .log _ u _ => by simpa [Supp, Occurs] using supp_iff_occurs p u
  | .cos _ u => by simpa [Supp, Occurs] using supp_iff_occurs p u
  | .sin _ u => by simpa [Supp, Occurs] using supp_iff_occurs p u
theorem suppList_iff_occurs (p : Point α) : ∀ es : List (Expr α),
    SuppList p es ↔ ∀ x, OccursList x es → (p.get? x).isSome
  | [] => by simp [SuppList, OccursList]
  | e :: es => by
    simp only [SuppList, OccursList, supp_iff_occurs p e, suppList_iff_occurs p es]
    constructor
    · rintro ⟨h1, h2⟩ x (h | h)
      · exact h1 x h
      · exact h2 x h
    · intro h; exact ⟨fun x hx => h x (Or.inl hx), fun x hx => h x (Or.inr hx)⟩
end

/-- a point supplies an expression iff it has a coordinate for every listed variable -/
theorem supp_iff_vars (p : Point α) (e : Expr α) :
    Supp p e ↔ ∀ x ∈ e.vars, (p.get? x).isSome := by
  rw [supp_iff_occurs]
  constructor
  · intro h x hx; exact h x ((mem_vars x e).mp hx)
  · intro h x hx; exact h x ((mem_vars x e).mpr hx)

/-- `get_the_single_variable_name` accepts exactly the expressions with at most one variable -/
theorem singleVarName_ok_iff (e : Expr α) : (∃ x, singleVarName e = .ok x) ↔ e.vars.length ≤ 1 := by
  unfold singleVarName
  match h : e.vars with
  | [] => simp [pure, Except.pure]
  | [x] => simp [pure, Except.pure]
  | _ :: _ :: _ => simp [throw, throwThe, MonadExceptOf.throw]

theorem vars_length_le_one_iff (e : Expr α) :
    e.vars.length ≤ 1 ↔ ∀ x y, Occurs x e → Occurs y e → x = y := by
  have hnd := nodup_vars e
  constructor
  · intro h x y hx hy
    have hx' := (mem_vars x e).mpr hx
    have hy' := (mem_vars y e).mpr hy
    match hv : e.vars, h, hx', hy' with
    | [], _, hx', _ => simp at hx'
    | [z], _, hx', hy' =>
      simp only [List.mem_singleton] at hx' hy'
      rw [hx', hy']
    | _ :: _ :: _, h, _, _ => simp at h
  · intro h
    match hv : e.vars with
    | [] => simp
    | [z] => simp
    | a :: b :: rest =>
      exfalso
      rw [hv] at hnd
      have ha : Occurs a e := (mem_vars a e).mp (by rw [hv]; simp)
      have hb : Occurs b e := (mem_vars b e).mp (by rw [hv]; simp)
      have := h a b ha hb
      subst this
      simp at hnd

end Smooth
