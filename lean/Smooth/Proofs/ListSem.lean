/-
Proofs/ListSem — argument lists of `Add`/`Multiply` read element-wise: `denList` is a `map`,
`DomList`/`WFList`/`SuppList` are "for every member"; flags do not matter; list-level refinement
(`RefinesList`) and the congruence of `Refines` under every constructor.
Shared by Proofs/RulesNary (the n-ary rewrite rules) and Proofs/DriverSound (the step driver).
-/
import Smooth.Proofs.Refines
import Smooth.Proofs.Vars

namespace Smooth
open Expr

/-! ### lists, element-wise -/

theorem denList_eq_map_b (ρ : String → ℝ) : ∀ es : List (Expr ℝ), denList ρ es = es.map (den ρ)
  | [] => by simp [denList]
  | e :: es => by simp [denList, denList_eq_map_b ρ es]

theorem domList_iff (ρ : String → ℝ) : ∀ es : List (Expr ℝ), DomList ρ es ↔ ∀ e ∈ es, Dom ρ e
  | [] => by simp [DomList]
  | e :: es => by simp [DomList, domList_iff ρ es]

theorem wfList_iff : ∀ es : List (Expr ℝ), WFList es ↔ ∀ e ∈ es, WF e
  | [] => by simp [WFList]
  | e :: es => by simp [WFList, wfList_iff es]

theorem suppList_iff {α : Type} (p : Point α) : ∀ es : List (Expr α),
    SuppList p es ↔ ∀ e ∈ es, Supp p e
  | [] => by simp [SuppList]
  | e :: es => by simp [SuppList, suppList_iff p es]

theorem denList_append (ρ : String → ℝ) (as bs : List (Expr ℝ)) :
    denList ρ (as ++ bs) = denList ρ as ++ denList ρ bs := by
  simp [denList_eq_map_b]

theorem domList_append (ρ : String → ℝ) (as bs : List (Expr ℝ)) :
    DomList ρ (as ++ bs) ↔ DomList ρ as ∧ DomList ρ bs := by
  simp only [domList_iff, List.mem_append]
  exact ⟨fun h => ⟨fun e he => h e (Or.inl he), fun e he => h e (Or.inr he)⟩,
    fun h e he => he.elim (h.1 e) (h.2 e)⟩

theorem wfList_append (as bs : List (Expr ℝ)) : WFList (as ++ bs) ↔ WFList as ∧ WFList bs := by
  simp only [wfList_iff, List.mem_append]
  exact ⟨fun h => ⟨fun e he => h e (Or.inl he), fun e he => h e (Or.inr he)⟩,
    fun h e he => he.elim (h.1 e) (h.2 e)⟩

theorem suppList_append {α : Type} (p : Point α) (as bs : List (Expr α)) :
    SuppList p (as ++ bs) ↔ SuppList p as ∧ SuppList p bs := by
  simp only [suppList_iff, List.mem_append]
  exact ⟨fun h => ⟨fun e he => h e (Or.inl he), fun e he => h e (Or.inr he)⟩,
    fun h e he => he.elim (h.1 e) (h.2 e)⟩

/-! ### flags are not part of what an expression denotes -/

@[simp] theorem den_setFlags (ρ : String → ℝ) (g : Flags) (e : Expr ℝ) :
    den ρ (e.setFlags g) = den ρ e := by
  cases e <;> simp [setFlags, den]

@[simp] theorem dom_setFlags (ρ : String → ℝ) (g : Flags) (e : Expr ℝ) :
    Dom ρ (e.setFlags g) ↔ Dom ρ e := by
  cases e <;> simp [setFlags, Dom]

@[simp] theorem wf_setFlags (g : Flags) (e : Expr ℝ) : WF (e.setFlags g) ↔ WF e := by
  cases e <;> simp [setFlags, WF]

@[simp] theorem supp_setFlags {α : Type} (p : Point α) (g : Flags) (e : Expr α) :
    Supp p (e.setFlags g) ↔ Supp p e := by
  cases e <;> simp [setFlags, Supp]

@[simp] theorem vars_setFlags {α : Type} (g : Flags) (e : Expr α) :
    (e.setFlags g).vars = e.vars := by
  cases e <;> simp [setFlags, vars, varsAux]

@[simp] theorem den_markRed (ρ : String → ℝ) (e : Expr ℝ) : den ρ e.markRed = den ρ e :=
  den_setFlags ρ _ e
@[simp] theorem dom_markRed (ρ : String → ℝ) (e : Expr ℝ) : Dom ρ e.markRed ↔ Dom ρ e :=
  dom_setFlags ρ _ e
@[simp] theorem wf_markRed (e : Expr ℝ) : WF e.markRed ↔ WF e := wf_setFlags _ e
@[simp] theorem supp_markRed {α : Type} (p : Point α) (e : Expr α) : Supp p e.markRed ↔ Supp p e :=
  supp_setFlags p _ e
@[simp] theorem den_markFailed (ρ : String → ℝ) (e : Expr ℝ) : den ρ e.markFailed = den ρ e :=
  den_setFlags ρ _ e
@[simp] theorem dom_markFailed (ρ : String → ℝ) (e : Expr ℝ) : Dom ρ e.markFailed ↔ Dom ρ e :=
  dom_setFlags ρ _ e
@[simp] theorem wf_markFailed (e : Expr ℝ) : WF e.markFailed ↔ WF e := wf_setFlags _ e
@[simp] theorem supp_markFailed {α : Type} (p : Point α) (e : Expr α) :
    Supp p e.markFailed ↔ Supp p e :=
  supp_setFlags p _ e

/-- two expressions with the same reading: same well-formedness, same supplying points, same domain,
same value.  (What `setFlags` produces, and what a recogniser `as… e = some …` says about `e`.) -/
structure SameSem (e e' : Expr ℝ) : Prop where
  wf : WF e ↔ WF e'
  supp : ∀ p : Point ℝ, Supp p e ↔ Supp p e'
  dom : ∀ ρ, Dom ρ e ↔ Dom ρ e'
  den : ∀ ρ, den ρ e = den ρ e'

theorem SameSem.refl (e : Expr ℝ) : SameSem e e := ⟨Iff.rfl, fun _ => Iff.rfl, fun _ => Iff.rfl, fun _ => rfl⟩

theorem SameSem.symm {e e' : Expr ℝ} (h : SameSem e e') : SameSem e' e :=
  ⟨h.wf.symm, fun p => (h.supp p).symm, fun ρ => (h.dom ρ).symm, fun ρ => (h.den ρ).symm⟩

theorem SameSem.refines {e e' : Expr ℝ} (h : SameSem e e') : Refines e e' :=
  ⟨h.wf.mp, fun p => (h.supp p).mp, fun _ ρ hd => ⟨(h.dom ρ).mp hd, (h.den ρ).symm⟩⟩

theorem sameSem_setFlags (g : Flags) (e : Expr ℝ) : SameSem e (e.setFlags g) :=
  ⟨(wf_setFlags g e).symm, fun p => (supp_setFlags p g e).symm, fun ρ => (dom_setFlags ρ g e).symm,
    fun ρ => (den_setFlags ρ g e).symm⟩

theorem setFlags_refines (g : Flags) (e : Expr ℝ) : Refines e (e.setFlags g) :=
  (sameSem_setFlags g e).refines
theorem refines_setFlags (g : Flags) (e : Expr ℝ) : Refines (e.setFlags g) e :=
  (sameSem_setFlags g e).symm.refines
theorem markRed_refines (e : Expr ℝ) : Refines e e.markRed := setFlags_refines _ e
theorem markFailed_refines (e : Expr ℝ) : Refines e e.markFailed := setFlags_refines _ e

/-! ### list-level refinement -/

/-- `Refines`, for argument lists: element values are kept position by position -/
structure RefinesList (es es' : List (Expr ℝ)) : Prop where
  wf : WFList es → WFList es'
  supp : ∀ p : Point ℝ, SuppList p es → SuppList p es'
  sem : WFList es → ∀ ρ : String → ℝ, DomList ρ es → DomList ρ es' ∧ denList ρ es' = denList ρ es

theorem RefinesList.refl (es : List (Expr ℝ)) : RefinesList es es :=
  ⟨id, fun _ h => h, fun _ _ h => ⟨h, rfl⟩⟩

theorem RefinesList.cons {e e' : Expr ℝ} {es es' : List (Expr ℝ)} (h1 : Refines e e')
    (h2 : RefinesList es es') : RefinesList (e :: es) (e' :: es') where
  wf h := ⟨h1.wf h.1, h2.wf h.2⟩
  supp p h := ⟨h1.supp p h.1, h2.supp p h.2⟩
  sem hwf ρ hd := by
    obtain ⟨d1, e1⟩ := h1.sem hwf.1 ρ hd.1
    obtain ⟨d2, e2⟩ := h2.sem hwf.2 ρ hd.2
    exact ⟨⟨d1, d2⟩, by simp [denList, e1, e2]⟩

theorem RefinesList.append {as as' bs bs' : List (Expr ℝ)} (h1 : RefinesList as as')
    (h2 : RefinesList bs bs') : RefinesList (as ++ bs) (as' ++ bs') where
  wf h := (wfList_append _ _).mpr ⟨h1.wf ((wfList_append _ _).mp h).1, h2.wf ((wfList_append _ _).mp h).2⟩
  supp p h := (suppList_append p _ _).mpr
    ⟨h1.supp p ((suppList_append p _ _).mp h).1, h2.supp p ((suppList_append p _ _).mp h).2⟩
  sem hwf ρ hd := by
    obtain ⟨w1, w2⟩ := (wfList_append _ _).mp hwf
    obtain ⟨d1, d2⟩ := (domList_append ρ _ _).mp hd
    obtain ⟨d1', e1⟩ := h1.sem w1 ρ d1
    obtain ⟨d2', e2⟩ := h2.sem w2 ρ d2
    exact ⟨(domList_append ρ _ _).mpr ⟨d1', d2'⟩, by rw [denList_append, denList_append, e1, e2]⟩

/-- replacing one element of an argument list -/
theorem RefinesList.replace {e e' : Expr ℝ} (pre post : List (Expr ℝ)) (h : Refines e e') :
    RefinesList (pre ++ e :: post) (pre ++ e' :: post) :=
  (RefinesList.refl pre).append (RefinesList.cons h (RefinesList.refl post))

/-! ### congruence: `Refines` under every constructor -/

theorem Refines.add_congr (f g : Flags) {as as' : List (Expr ℝ)} (h : RefinesList as as') :
    Refines (.add f as) (.add g as') where
  wf := h.wf
  supp := h.supp
  sem hwf ρ hd := by
    obtain ⟨d, e⟩ := h.sem hwf ρ hd
    exact ⟨d, by simp only [den, e]⟩

theorem Refines.mul_congr (f g : Flags) {as as' : List (Expr ℝ)} (h : RefinesList as as') :
    Refines (.mul f as) (.mul g as') where
  wf := h.wf
  supp := h.supp
  sem hwf ρ hd := by
    obtain ⟨d, e⟩ := h.sem hwf ρ hd
    exact ⟨d, by simp only [den, e]⟩

/-- replacing one term of a sum -/
theorem Refines.add_replace (f g : Flags) (pre post : List (Expr ℝ)) {e e' : Expr ℝ}
    (h : Refines e e') : Refines (.add f (pre ++ e :: post)) (.add g (pre ++ e' :: post)) :=
  Refines.add_congr f g (RefinesList.replace pre post h)

/-- replacing one factor of a product -/
theorem Refines.mul_replace (f g : Flags) (pre post : List (Expr ℝ)) {e e' : Expr ℝ}
    (h : Refines e e') : Refines (.mul f (pre ++ e :: post)) (.mul g (pre ++ e' :: post)) :=
  Refines.mul_congr f g (RefinesList.replace pre post h)

theorem Refines.minus_congr (f g : Flags) {l l' r r' : Expr ℝ} (h1 : Refines l l')
    (h2 : Refines r r') : Refines (.minus f l r) (.minus g l' r') where
  wf h := ⟨h1.wf h.1, h2.wf h.2⟩
  supp p h := ⟨h1.supp p h.1, h2.supp p h.2⟩
  sem hwf ρ hd := by
    obtain ⟨d1, e1⟩ := h1.sem hwf.1 ρ hd.1
    obtain ⟨d2, e2⟩ := h2.sem hwf.2 ρ hd.2
    exact ⟨⟨d1, d2⟩, by simp only [den, e1, e2]⟩

theorem Refines.div_congr (f g : Flags) {l l' r r' : Expr ℝ} (h1 : Refines l l')
    (h2 : Refines r r') : Refines (.div f l r) (.div g l' r') where
  wf h := ⟨h1.wf h.1, h2.wf h.2⟩
  supp p h := ⟨h1.supp p h.1, h2.supp p h.2⟩
  sem hwf ρ hd := by
    obtain ⟨d1, e1⟩ := h1.sem hwf.1 ρ hd.1
    obtain ⟨d2, e2⟩ := h2.sem hwf.2 ρ hd.2.1
    exact ⟨⟨d1, d2, by rw [e2]; exact hd.2.2⟩, by simp only [den, e1, e2]⟩

theorem Refines.pow_congr (f g : Flags) {l l' r r' : Expr ℝ} (h1 : Refines l l')
    (h2 : Refines r r') : Refines (.pow f l r) (.pow g l' r') where
  wf h := ⟨h1.wf h.1, h2.wf h.2⟩
  supp p h := ⟨h1.supp p h.1, h2.supp p h.2⟩
  sem hwf ρ hd := by
    obtain ⟨d1, e1⟩ := h1.sem hwf.1 ρ hd.1
    obtain ⟨d2, e2⟩ := h2.sem hwf.2 ρ hd.2.1
    exact ⟨⟨d1, d2, by rw [e1]; exact hd.2.2⟩, by simp only [den, e1, e2]⟩

theorem Refines.neg_congr (f g : Flags) {u u' : Expr ℝ} (h : Refines u u') :
    Refines (.neg f u) (.neg g u') where
  wf := h.wf
  supp := h.supp
  sem hwf ρ hd := by
    obtain ⟨d, e⟩ := h.sem hwf ρ hd
    exact ⟨d, by simp only [den, e]⟩

theorem Refines.recip_congr (f g : Flags) {u u' : Expr ℝ} (h : Refines u u') :
    Refines (.recip f u) (.recip g u') where
  wf := h.wf
  supp := h.supp
  sem hwf ρ hd := by
    obtain ⟨d, e⟩ := h.sem hwf ρ hd.1
    exact ⟨⟨d, by rw [e]; exact hd.2⟩, by simp only [den, e]⟩

theorem Refines.npow_congr (f g : Flags) (n : ℕ) {u u' : Expr ℝ} (h : Refines u u') :
    Refines (.npow f u n) (.npow g u' n) where
  wf hw := ⟨hw.1, h.wf hw.2⟩
  supp := h.supp
  sem hwf ρ hd := by
    obtain ⟨d, e⟩ := h.sem hwf.2 ρ hd
    exact ⟨d, by simp only [den, e]⟩

theorem Refines.nroot_congr (f g : Flags) (n : ℕ) {u u' : Expr ℝ} (h : Refines u u') :
    Refines (.nroot f u n) (.nroot g u' n) where
  wf hw := ⟨hw.1, h.wf hw.2⟩
  supp := h.supp
  sem hwf ρ hd := by
    obtain ⟨d, e⟩ := h.sem hwf.2 ρ hd.1
    exact ⟨⟨d, by rw [e]; exact hd.2⟩, by simp only [den, e]⟩

theorem Refines.exp_congr (f g : Flags) (b : ℝ) {u u' : Expr ℝ} (h : Refines u u') :
    Refines (.exp f u b) (.exp g u' b) where
  wf hw := ⟨hw.1, h.wf hw.2⟩
  supp := h.supp
  sem hwf ρ hd := by
    obtain ⟨d, e⟩ := h.sem hwf.2 ρ hd
    exact ⟨d, by simp only [den, e]⟩

theorem Refines.log_congr (f g : Flags) (b : ℝ) {u u' : Expr ℝ} (h : Refines u u') :
    Refines (.log f u b) (.log g u' b) where
  wf hw := ⟨hw.1, hw.2.1, h.wf hw.2.2⟩
  supp := h.supp
  sem hwf ρ hd := by
    obtain ⟨d, e⟩ := h.sem hwf.2.2 ρ hd.1
    exact ⟨⟨d, by rw [e]; exact hd.2⟩, by simp only [den, e]⟩

theorem Refines.cos_congr (f g : Flags) {u u' : Expr ℝ} (h : Refines u u') :
    Refines (.cos f u) (.cos g u') where
  wf := h.wf
  supp := h.supp
  sem hwf ρ hd := by
    obtain ⟨d, e⟩ := h.sem hwf ρ hd
    exact ⟨d, by simp only [den, e]⟩

theorem Refines.sin_congr (f g : Flags) {u u' : Expr ℝ} (h : Refines u u') :
    Refines (.sin f u) (.sin g u') where
  wf := h.wf
  supp := h.supp
  sem hwf ρ hd := by
    obtain ⟨d, e⟩ := h.sem hwf ρ hd
    exact ⟨d, by simp only [den, e]⟩

/-! ### generic facts about products/sums over partitioned lists -/

section generic
variable {β γ M : Type} [CommMonoid M]

/-- splitting a list by a recogniser `sel` (members / non-members) keeps the product -/
@[to_additive]
theorem prod_map_partition (F : β → M) (sel : β → Option γ) (H : γ → M)
    (h : ∀ e m, sel e = some m → F e = H m) (as : List β) :
    (as.map F).prod =
      ((as.filter fun e => (sel e).isNone).map F).prod * ((as.filterMap sel).map H).prod := by
  induction as with
  | nil => simp
  | cons a as ih =>
    cases hs : sel a with
    | none => simp [hs, ih, mul_assoc]
    | some m => simp [hs, ih, h a m hs, mul_left_comm]

/-- dropping neutral elements keeps the product -/
@[to_additive]
theorem prod_map_filter_of_one (F : β → M) (p : β → Bool) (as : List β)
    (h : ∀ e ∈ as, p e = false → F e = 1) : ((as.filter p).map F).prod = (as.map F).prod := by
  induction as with
  | nil => simp
  | cons a as ih =>
    have ih' := ih fun e he => h e (List.mem_cons_of_mem _ he)
    cases hp : p a with
    | true => simp [hp, ih']
    | false => simp [hp, ih', h a (List.mem_cons_self ..) hp]

/-- product group by group = product over the flattened groups -/
@[to_additive]
theorem prod_map_groups {κ : Type} (F : κ × β → M) (groups : List (κ × List β)) :
    (groups.map fun g => (g.2.map fun v => F (g.1, v)).prod).prod =
      ((groups.flatMap fun g => g.2.map (Prod.mk g.1)).map F).prod := by
  induction groups with
  | nil => simp
  | cons g gs ih => simp [List.flatMap_cons, ih, Function.comp_def]

end generic

end Smooth
