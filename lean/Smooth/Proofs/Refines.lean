/-
Proofs/Refines — the relation every rewrite must establish between its input `e` and its output `e'`
(C08): well-formedness is kept, no new variable is needed, and wherever `e` is defined `e'` is defined
and has the same value (the domain may only grow).
-/
import Smooth.Proofs.Eval

namespace Smooth
open Expr

structure Refines (e e' : Expr ℝ) : Prop where
  wf : WF e → WF e'
  supp : ∀ p : Point ℝ, Supp p e → Supp p e'
  sem : WF e → ∀ ρ : String → ℝ, Dom ρ e → Dom ρ e' ∧ den ρ e' = den ρ e

theorem Refines.refl (e : Expr ℝ) : Refines e e :=
  ⟨id, fun _ h => h, fun _ _ h => ⟨h, rfl⟩⟩

theorem Refines.trans {a b c : Expr ℝ} (h1 : Refines a b) (h2 : Refines b c) : Refines a c :=
  ⟨fun h => h2.wf (h1.wf h), fun p h => h2.supp p (h1.supp p h), fun hwf ρ hd => by
    obtain ⟨hd1, e1⟩ := h1.sem hwf ρ hd
    obtain ⟨hd2, e2⟩ := h2.sem (h1.wf hwf) ρ hd1
    exact ⟨hd2, e2.trans e1⟩⟩

/-- what `Refines` means for the evaluator: a value of the input is a value of the output -/
theorem Refines.eval {e e' : Expr ℝ} (h : Refines e e') (hwf : WF e) (p : Point ℝ) (v : ℝ)
    (hv : evalG realNum p e = .ok v) : evalG realNum p e' = .ok v := by
  obtain ⟨hs, hd, rfl⟩ := (evalR_good p e hwf).ok_iff.mp hv
  obtain ⟨hd', he⟩ := h.sem hwf (valOf p) hd
  exact (evalR_good p e' (h.wf hwf)).ok_iff.mpr ⟨h.supp p hs, hd', he.symm⟩

/-- flags (and object ids) are not part of what an expression denotes -/
theorem Refines.of_eq_upto_flags {e e' : Expr ℝ}
    (hwf : WF e → WF e') (hsupp : ∀ p : Point ℝ, Supp p e → Supp p e')
    (hdom : ∀ ρ, Dom ρ e → Dom ρ e') (hden : ∀ ρ, den ρ e' = den ρ e) : Refines e e' :=
  ⟨hwf, hsupp, fun _ ρ hd => ⟨hdom ρ hd, hden ρ⟩⟩

end Smooth
