/-
Proofs/Heap — the `_value` memo (Model/Heap) never changes an answer.

`Ref U m g` : started in any store that is consistent with the pure evaluator on the memo-carrying
nodes `U`, the stateful computation `m` returns what the pure computation `g` returns (value or
error) and leaves a consistent store.  It is closed under `pure`, `>>=`, `liftR`, and the memo wrapper
`memo` (hit: return; miss: compute, write, return), hence holds of `evalS`/`fwdS`/`revS` against
`evalG`/`fwdG`/`revG`.  `Frame I m` : `m` only ever pushes entries whose id is in `I`.
Everything is generic in `N : Num α`.
-/
import Smooth.Model.Heap

namespace Smooth
open Expr
variable {α : Type}

/-! ### the sub-objects that carry a `_value` field -/

mutual
/-- the memo-carrying sub-nodes of `e` (every occurrence; `e` itself included) -/
def memoSubs : Expr α → List (Expr α)
  | .const _ _ => []
  | .var _ _ => []
  | .add f as => .add f as :: memoSubsList as
  | .mul f as => .mul f as :: memoSubsList as
  | .minus f l r => .minus f l r :: (memoSubs l ++ memoSubs r)
  | .div f l r => .div f l r :: (memoSubs l ++ memoSubs r)
  | .pow f l r => .pow f l r :: (memoSubs l ++ memoSubs r)
  | .neg f u => .neg f u :: memoSubs u
  | .recip f u => .recip f u :: memoSubs u
  | .npow f u n => .npow f u n :: memoSubs u
  | .nroot f u n => .nroot f u n :: memoSubs u
  | .exp f u b => .exp f u b :: memoSubs u
  | .log f u b => .log f u b :: memoSubs u
  | .cos f u => .cos f u :: memoSubs u
  | .sin f u => .sin f u :: memoSubs u
def memoSubsList : List (Expr α) → List (Expr α)
  | [] => []
  | e :: es => memoSubs e ++ memoSubsList es
end

mutual
theorem memoIds_eq_map : ∀ e : Expr α, memoIds e = (memoSubs e).map (·.flags.id)
  | .const _ _ => by simp [memoIds, memoSubs]
  | .var _ _ => by simp [memoIds, memoSubs]
  | .add f as => by simp [memoIds, memoSubs, memoIdsList_eq_map as, Expr.flags]
  | .mul f as => by simp [memoIds, memoSubs, memoIdsList_eq_map as, Expr.flags]
  | .minus f l r => by simp [memoIds, memoSubs, memoIds_eq_map l, memoIds_eq_map r, Expr.flags]
  | .div f l r => by simp [memoIds, memoSubs, memoIds_eq_map l, memoIds_eq_map r, Expr.flags]
  | .pow f l r => by simp [memoIds, memoSubs, memoIds_eq_map l, memoIds_eq_map r, Expr.flags]
  | .neg f u => by simp [memoIds, memoSubs, memoIds_eq_map u, Expr.flags]
  | .recip f u => by simp [memoIds, memoSubs, memoIds_eq_map u, Expr.flags]
  | .npow f u n => by simp [memoIds, memoSubs, memoIds_eq_map u, Expr.flags]
  | .nroot f u n => by simp [memoIds, memoSubs, memoIds_eq_map u, Expr.flags]
  | .exp f u b => by simp [memoIds, memoSubs, memoIds_eq_map u, Expr.flags]
  | .log f u b => by simp [memoIds, memoSubs, memoIds_eq_map u, Expr.flags]
  | .cos f u => by simp [memoIds, memoSubs, memoIds_eq_map u, Expr.flags]
  | .sin f u => by simp [memoIds, memoSubs, memoIds_eq_map u, Expr.flags]
theorem memoIdsList_eq_map : ∀ es : List (Expr α),
    memoIdsList es = (memoSubsList es).map (·.flags.id)
  | [] => by simp [memoIdsList, memoSubsList]
  | e :: es => by simp [memoIdsList, memoSubsList, memoIds_eq_map e, memoIdsList_eq_map es]
end

theorem id_mem_memoIds {e u : Expr α} (h : u ∈ memoSubs e) : u.flags.id ∈ memoIds e := by
  rw [memoIds_eq_map]; exact List.mem_map_of_mem h

/-! ### flags are ignored by evaluation -/

mutual
theorem evalG_fresh (N : Num α) (p : Point α) : ∀ e : Expr α, evalG N p e.fresh = evalG N p e
  | .const _ _ => by simp [Expr.fresh, evalG]
  | .var _ _ => by simp [Expr.fresh, evalG]
  | .add f as => by simp [Expr.fresh, evalG, evalListG_fresh N p as]
  | .mul f as => by simp [Expr.fresh, evalG, evalListG_fresh N p as]
  | .minus f l r => by simp [Expr.fresh, evalG, evalG_fresh N p l, evalG_fresh N p r]
  | .div f l r => by simp [Expr.fresh, evalG, evalG_fresh N p l, evalG_fresh N p r]
  | .pow f l r => by simp [Expr.fresh, evalG, evalG_fresh N p l, evalG_fresh N p r]
  | .neg f u => by simp [Expr.fresh, evalG, evalG_fresh N p u]
  | .recip f u => by simp [Expr.fresh, evalG, evalG_fresh N p u]
  | .npow f u n => by simp [Expr.fresh, evalG, evalG_fresh N p u]
  | .nroot f u n => by simp [Expr.fresh, evalG, evalG_fresh N p u]
  | .exp f u b => by simp [Expr.fresh, evalG, evalG_fresh N p u]
  | .log f u b => by simp [Expr.fresh, evalG, evalG_fresh N p u]
  | .cos f u => by simp [Expr.fresh, evalG, evalG_fresh N p u]
  | .sin f u => by simp [Expr.fresh, evalG, evalG_fresh N p u]
theorem evalListG_fresh (N : Num α) (p : Point α) : ∀ es : List (Expr α),
    evalListG N p (Expr.freshList es) = evalListG N p es
  | [] => by simp [Expr.freshList, evalListG]
  | e :: es => by simp [Expr.freshList, evalListG, evalG_fresh N p e, evalListG_fresh N p es]
end

/-- two trees that are equal up to flags (`red`, `failed`, `id`) evaluate alike -/
theorem evalG_congr_fresh (N : Num α) (p : Point α) {u w : Expr α} (h : u.fresh = w.fresh) :
    evalG N p u = evalG N p w := by
  rw [← evalG_fresh N p u, ← evalG_fresh N p w, h]

/-! ### well-formed sharing, consistent stores -/

/-- among the nodes `U`, one id names one tree (up to flags) -/
def OKs (U : List (Expr α)) : Prop :=
  ∀ u ∈ U, ∀ w ∈ U, u.flags.id = w.flags.id → u.fresh = w.fresh

/-- **well-formed sharing**: any two memo-carrying sub-nodes of `e` with the same `id` are the same
sub-tree up to flags (in Python: they are the same object) -/
def IdsOK (e : Expr α) : Prop := OKs (memoSubs e)

/-- every memo entry at the id of a node of `U` holds what the pure evaluator returns on that node;
entries at other ids are unconstrained -/
def ConsU (N : Num α) (p : Point α) (U : List (Expr α)) (st : Store α) : Prop :=
  ∀ u ∈ U, ∀ v, st.get? u.flags.id = some v → evalG N p u = .ok v

/-- **store consistency** w.r.t. the sub-objects of `e` at the point `p` -/
def Cons (N : Num α) (p : Point α) (e : Expr α) (st : Store α) : Prop :=
  ConsU N p (memoSubs e) st

/-- `st'` is `st` with entries pushed in front, all at ids from `I` -/
def Ext (I : List Nat) (st st' : Store α) : Prop :=
  ∃ added : Store α, st' = added ++ st ∧ ∀ i ∈ added.map Prod.fst, i ∈ I

theorem Ext.refl (I : List Nat) (st : Store α) : Ext I st st := ⟨[], rfl, by simp⟩

theorem Ext.trans {I : List Nat} {s1 s2 s3 : Store α} (h1 : Ext I s1 s2) (h2 : Ext I s2 s3) :
    Ext I s1 s3 := by
  obtain ⟨a1, rfl, m1⟩ := h1
  obtain ⟨a2, rfl, m2⟩ := h2
  refine ⟨a2 ++ a1, by simp, ?_⟩
  intro i hi
  simp only [List.map_append, List.mem_append] at hi
  rcases hi with hi | hi
  · exact m2 i hi
  · exact m1 i hi

theorem Ext.mono {I J : List Nat} {s1 s2 : Store α} (hIJ : ∀ i ∈ I, i ∈ J) (h : Ext I s1 s2) :
    Ext J s1 s2 := by
  obtain ⟨a, rfl, m⟩ := h
  exact ⟨a, rfl, fun i hi => hIJ i (m i hi)⟩

theorem Store.get?_cons (i : Nat) (v : α) (st : Store α) (j : Nat) :
    Store.get? ((i, v) :: st) j = if i == j then some v else Store.get? st j := rfl

/-- after `_reset_evaluation_cache` no id of `e` is in the store -/
theorem get?_resetS (e : Expr α) (st : Store α) {i : Nat} (hi : i ∈ memoIds e) :
    (resetS e st).get? i = none := by
  unfold resetS
  induction st with
  | nil => rfl
  | cons a st ih =>
    obtain ⟨j, v⟩ := a
    by_cases hj : j ∈ memoIds e
    · simpa [hj] using ih
    · have : j ≠ i := fun h => hj (h ▸ hi)
      simpa [hj, Store.get?_cons, this] using ih

/-- hence every store is consistent after the reset, whatever it contained (stale values of `e`'s
own objects, entries of other objects) -/
theorem cons_resetS (N : Num α) (p : Point α) (e : Expr α) (st : Store α) :
    Cons N p e (resetS e st) := by
  intro u hu v hv
  rw [get?_resetS e st (id_mem_memoIds hu)] at hv
  cases hv

/-! ### the refinement relation -/

/-- from a `U`-consistent store, `m` answers what `g` answers and leaves a `U`-consistent store -/
def Ref (N : Num α) (p : Point α) (U : List (Expr α)) {β : Type} (m : SM α β) (g : R β) : Prop :=
  ∀ st, ConsU N p U st →
    match m st with
    | .ok (b, st') => g = .ok b ∧ ConsU N p U st'
    | .error err => g = .error err

section Ref
variable {N : Num α} {p : Point α} {U : List (Expr α)} {β γ : Type}

theorem ref_pure (b : β) : Ref N p U (pure b : SM α β) (pure b) := by
  intro st hc
  exact ⟨rfl, hc⟩

theorem ref_throw (err : Err) : Ref N p U (throw err : SM α β) (throw err) := by
  intro st hc
  rfl

theorem ref_liftR (r : R β) : Ref N p U (liftR r : SM α β) r := by
  intro st hc
  cases r with
  | error err => rfl
  | ok b => exact ⟨rfl, hc⟩

theorem ref_bind {m : SM α β} {g : R β} {k : β → SM α γ} {kg : β → R γ}
    (h1 : Ref N p U m g) (h2 : ∀ b, Ref N p U (k b) (kg b)) :
    Ref N p U (m >>= k) (g >>= kg) := by
  intro st hc
  have h := h1 st hc
  show match (m >>= k) st with
    | .ok (b, st') => (g >>= kg) = .ok b ∧ ConsU N p U st'
    | .error err => (g >>= kg) = .error err
  have e : (m >>= k) st = (m st >>= fun x => k x.1 x.2) := rfl
  rw [e]
  cases hm : m st with
  | error err =>
    rw [hm] at h
    simp only at h
    subst h
    rfl
  | ok x =>
    obtain ⟨b, st1⟩ := x
    rw [hm] at h
    obtain ⟨hg, hc1⟩ := h
    subst hg
    exact h2 b st1 hc1

theorem ref_ite {c : Prop} [Decidable c] {m1 m2 : SM α β} {g1 g2 : R β}
    (h1 : Ref N p U m1 g1) (h2 : Ref N p U m2 g2) :
    Ref N p U (if c then m1 else m2) (if c then g1 else g2) := by
  split
  · exact h1
  · exact h2

end Ref

/-! ### the memo protocol -/

/-- the memo protocol of `_evaluate`: hit → return; miss → compute, write, return -/
def memo (i : Nat) (body : SM α α) : SM α α := do
  if let some v ← memoGet i then return v
  let v ← body
  memoSet i v; pure v

theorem memo_run (i : Nat) (body : SM α α) (st : Store α) :
    memo i body st =
      match st.get? i with
      | some v => .ok (v, st)
      | none => match body st with
        | .ok (v, st1) => .ok (v, (i, v) :: st1)
        | .error err => .error err := by
  have e : memo i body st = (match st.get? i with
      | some v => (pure v : SM α α) st
      | none => (body >>= fun v => memoSet i v >>= fun _ => pure v) st) := by
    cases h : st.get? i <;> simp [memo, memoGet, bind, StateT.bind, get, getThe, MonadStateOf.get, StateT.get, pure, StateT.pure, Except.bind, Except.pure, h]
  rw [e]
  cases h : st.get? i with
  | some v => rfl
  | none =>
    show (body st >>= fun x => _) = _
    cases body st with
    | error err => rfl
    | ok x => rfl

section
variable (N : Num α) (p : Point α)

theorem evalS_add (f as) : evalS N p (.add f as) =
    memo f.id (do let vs ← evalListS N p as; pure (mfAdd N vs)) := by
  simp only [evalS, memo, bind_assoc, pure_bind]; rfl
theorem evalS_mul (f as) : evalS N p (.mul f as) =
    memo f.id (do let vs ← evalListS N p as; pure (mfMultiply N vs)) := by
  simp only [evalS, memo, bind_assoc, pure_bind]; rfl
theorem evalS_minus (f l r) : evalS N p (.minus f l r) =
    memo f.id (do let a ← evalS N p l; let b ← evalS N p r; pure (mfMinus N a b)) := by
  simp only [evalS, memo, bind_assoc, pure_bind]; rfl
theorem evalS_neg (f u) : evalS N p (.neg f u) =
    memo f.id (do let a ← evalS N p u; pure (mfNegation N a)) := by
  simp only [evalS, memo, bind_assoc, pure_bind]; rfl
theorem evalS_div (f l r) : evalS N p (.div f l r) =
    memo f.id (do
      let a ← evalS N p l; let b ← evalS N p r
      liftR (verifyDivide N a b); liftR (mfDivide N a b)) := by
  simp only [evalS, memo, bind_assoc]; rfl
theorem evalS_recip (f u) : evalS N p (.recip f u) =
    memo f.id (do
      let a ← evalS N p u
      liftR (verifyReciprocal N a); liftR (mfReciprocal N a)) := by
  simp only [evalS, memo, bind_assoc]; rfl
theorem evalS_pow (f l r) : evalS N p (.pow f l r) =
    memo f.id (do
      let a ← evalS N p l; let b ← evalS N p r
      liftR (verifyPower N a b); liftR (mfPower N a b)) := by
  simp only [evalS, memo, bind_assoc]; rfl
theorem evalS_npow (f u n) : evalS N p (.npow f u n) =
    memo f.id (do let a ← evalS N p u; liftR (mfNthPower N a n)) := by
  simp only [evalS, memo, bind_assoc]; rfl
theorem evalS_nroot (f u n) : evalS N p (.nroot f u n) =
    memo f.id (do
      let a ← evalS N p u
      liftR (verifyNthRoot N n a); liftR (mfNthRoot N a n)) := by
  simp only [evalS, memo, bind_assoc]; rfl
theorem evalS_exp (f u b) : evalS N p (.exp f u b) =
    memo f.id (do let a ← evalS N p u; liftR (mfExponential N a b)) := by
  simp only [evalS, memo, bind_assoc]; rfl
theorem evalS_log (f u b) : evalS N p (.log f u b) =
    memo f.id (do
      let a ← evalS N p u
      liftR (verifyLogarithm N a); liftR (mfLogarithm N a b)) := by
  simp only [evalS, memo, bind_assoc]; rfl
theorem evalS_cos (f u) : evalS N p (.cos f u) =
    memo f.id (do let a ← evalS N p u; liftR (mfCosine N a)) := by
  simp only [evalS, memo, bind_assoc]; rfl
theorem evalS_sin (f u) : evalS N p (.sin f u) =
    memo f.id (do let a ← evalS N p u; liftR (mfSine N a)) := by
  simp only [evalS, memo, bind_assoc]; rfl
end

variable {N : Num α} {p : Point α} {U : List (Expr α)}

theorem ref_memo (hU : OKs U) {e : Expr α} (he : e ∈ U) {body : SM α α}
    (hb : Ref N p U body (evalG N p e)) : Ref N p U (memo e.flags.id body) (evalG N p e) := by
  intro st hc
  rw [memo_run]
  cases hget : st.get? e.flags.id with
  | some v => exact ⟨hc e he v hget, hc⟩
  | none =>
    have h := hb st hc
    cases hbody : body st with
    | error err => rw [hbody] at h; exact h
    | ok x =>
      obtain ⟨v, st1⟩ := x
      rw [hbody] at h
      obtain ⟨hv, hc1⟩ := h
      refine ⟨hv, ?_⟩
      intro w hw v' hv'
      rw [Store.get?_cons] at hv'
      split at hv'
      · next hid =>
        have hid' : e.flags.id = w.flags.id := by simpa using hid
        cases hv'
        rw [← evalG_congr_fresh N p (hU e he w hw hid')]; exact hv
      · exact hc1 w hw v' hv'


mutual
theorem evalS_ref (hU : OKs U) : ∀ e : Expr α, (∀ w ∈ memoSubs e, w ∈ U) →
    Ref N p U (evalS N p e) (evalG N p e)
  | .const _ v, _ => by simp only [evalS, evalG]; exact ref_pure v
  | .var _ x, _ => by
    simp only [evalS, evalG]
    cases p.get? x with
    | none => exact ref_throw _
    | some v => exact ref_pure v
  | .add f as, h => by
    rw [evalS_add]
    refine ref_memo (e := .add f as) hU (h _ (by simp [memoSubs])) ?_
    simp only [evalG]
    exact ref_bind (evalListS_ref hU as (fun w hw => h w (by simp [memoSubs, hw])))
      (fun _ => ref_pure _)
  | .mul f as, h => by
    rw [evalS_mul]
    refine ref_memo (e := .mul f as) hU (h _ (by simp [memoSubs])) ?_
    simp only [evalG]
    exact ref_bind (evalListS_ref hU as (fun w hw => h w (by simp [memoSubs, hw])))
      (fun _ => ref_pure _)
  | .minus f l r, h => by
    rw [evalS_minus]
    refine ref_memo (e := .minus f l r) hU (h _ (by simp [memoSubs])) ?_
    simp only [evalG]
    exact ref_bind (evalS_ref hU l (fun w hw => h w (by simp [memoSubs, hw])))
      (fun _ => ref_bind (evalS_ref hU r (fun w hw => h w (by simp [memoSubs, hw])))
        (fun _ => ref_pure _))
  | .div f l r, h => by
    rw [evalS_div]
    refine ref_memo (e := .div f l r) hU (h _ (by simp [memoSubs])) ?_
    simp only [evalG]
    exact ref_bind (evalS_ref hU l (fun w hw => h w (by simp [memoSubs, hw])))
      (fun _ => ref_bind (evalS_ref hU r (fun w hw => h w (by simp [memoSubs, hw])))
        (fun _ => ref_bind (ref_liftR _) (fun _ => ref_liftR _)))
  | .pow f l r, h => by
    rw [evalS_pow]
    refine ref_memo (e := .pow f l r) hU (h _ (by simp [memoSubs])) ?_
    simp only [evalG]
    exact ref_bind (evalS_ref hU l (fun w hw => h w (by simp [memoSubs, hw])))
      (fun _ => ref_bind (evalS_ref hU r (fun w hw => h w (by simp [memoSubs, hw])))
        (fun _ => ref_bind (ref_liftR _) (fun _ => ref_liftR _)))
  | .neg f u, h => by
    rw [evalS_neg]
    refine ref_memo (e := .neg f u) hU (h _ (by simp [memoSubs])) ?_
    simp only [evalG]
    exact ref_bind (evalS_ref hU u (fun w hw => h w (by simp [memoSubs, hw])))
      (fun _ => ref_pure _)
  | .recip f u, h => by
    rw [evalS_recip]
    refine ref_memo (e := .recip f u) hU (h _ (by simp [memoSubs])) ?_
    simp only [evalG]
    exact ref_bind (evalS_ref hU u (fun w hw => h w (by simp [memoSubs, hw])))
      (fun _ => ref_bind (ref_liftR _) (fun _ => ref_liftR _))
  | .npow f u n, h => by
    rw [evalS_npow]
    refine ref_memo (e := .npow f u n) hU (h _ (by simp [memoSubs])) ?_
    simp only [evalG]
    exact ref_bind (evalS_ref hU u (fun w hw => h w (by simp [memoSubs, hw])))
      (fun _ => ref_liftR _)
  | .nroot f u n, h => by
    rw [evalS_nroot]
    refine ref_memo (e := .nroot f u n) hU (h _ (by simp [memoSubs])) ?_
    simp only [evalG]
    exact ref_bind (evalS_ref hU u (fun w hw => h w (by simp [memoSubs, hw])))
      (fun _ => ref_bind (ref_liftR _) (fun _ => ref_liftR _))
  | .exp f u b, h => by
    rw [evalS_exp]
    refine ref_memo (e := .exp f u b) hU (h _ (by simp [memoSubs])) ?_
    simp only [evalG]
    exact ref_bind (evalS_ref hU u (fun w hw => h w (by simp [memoSubs, hw])))
      (fun _ => ref_liftR _)
  | .log f u b, h => by
    rw [evalS_log]
    refine ref_memo (e := .log f u b) hU (h _ (by simp [memoSubs])) ?_
    simp only [evalG]
    exact ref_bind (evalS_ref hU u (fun w hw => h w (by simp [memoSubs, hw])))
      (fun _ => ref_bind (ref_liftR _) (fun _ => ref_liftR _))
  | .cos f u, h => by
    rw [evalS_cos]
    refine ref_memo (e := .cos f u) hU (h _ (by simp [memoSubs])) ?_
    simp only [evalG]
    exact ref_bind (evalS_ref hU u (fun w hw => h w (by simp [memoSubs, hw])))
      (fun _ => ref_liftR _)
  | .sin f u, h => by
    rw [evalS_sin]
    refine ref_memo (e := .sin f u) hU (h _ (by simp [memoSubs])) ?_
    simp only [evalG]
    exact ref_bind (evalS_ref hU u (fun w hw => h w (by simp [memoSubs, hw])))
      (fun _ => ref_liftR _)
theorem evalListS_ref (hU : OKs U) : ∀ es : List (Expr α), (∀ w ∈ memoSubsList es, w ∈ U) →
    Ref N p U (evalListS N p es) (evalListG N p es)
  | [], _ => by simp only [evalListS, evalListG]; exact ref_pure _
  | e :: es, h => by
    simp only [evalListS, evalListG]
    exact ref_bind (evalS_ref hU e (fun w hw => h w (by simp [memoSubsList, hw])))
      (fun _ => ref_bind (evalListS_ref hU es (fun w hw => h w (by simp [memoSubsList, hw])))
        (fun _ => ref_pure _))
end


/-! ### forward mode -/

theorem unaryFormulaS_ref (hU : OKs U) (e : Expr α) (h : ∀ w ∈ memoSubs e, w ∈ U) (m : α) :
    Ref N p U (unaryFormulaS N p e m) (unaryFormula N p e m) := by
  have hself := evalS_ref (N := N) (p := p) hU e h
  cases e with
  | const _ _ | var _ _ | add _ _ | mul _ _ | minus _ _ _ | div _ _ _ | pow _ _ _ | neg _ _ =>
    simp only [unaryFormulaS, unaryFormula]; exact ref_pure _
  | recip f u =>
    simp only [unaryFormulaS, unaryFormula]
    exact ref_bind (evalS_ref hU u (fun w hw => h w (by simp [memoSubs, hw])))
      (fun _ => ref_bind (ref_liftR _) (fun _ => ref_bind (ref_liftR _) (fun _ => ref_pure _)))
  | npow f u n =>
    simp only [unaryFormulaS, unaryFormula]
    refine ref_ite (ref_pure _) ?_
    exact ref_bind (evalS_ref hU u (fun w hw => h w (by simp [memoSubs, hw])))
      (fun _ => ref_bind (ref_liftR _) (fun _ => ref_pure _))
  | nroot f u n =>
    simp only [unaryFormulaS, unaryFormula]
    refine ref_ite (ref_pure _) ?_
    exact ref_bind hself (fun _ => ref_bind (ref_liftR _) (fun _ => ref_liftR _))
  | exp f u b =>
    simp only [unaryFormulaS, unaryFormula]
    refine ref_ite (ref_pure _) ?_
    exact ref_bind hself (fun _ => ref_ite (ref_pure _)
      (ref_bind (ref_liftR _) (fun _ => ref_pure _)))
  | log f u b =>
    simp only [unaryFormulaS, unaryFormula]
    exact ref_bind (evalS_ref hU u (fun w hw => h w (by simp [memoSubs, hw])))
      (fun _ => ref_ite (ref_liftR _) (ref_bind (ref_liftR _) (fun _ => ref_liftR _)))
  | cos f u =>
    simp only [unaryFormulaS, unaryFormula]
    exact ref_bind (evalS_ref hU u (fun w hw => h w (by simp [memoSubs, hw])))
      (fun _ => ref_bind (ref_liftR _) (fun _ => ref_pure _))
  | sin f u =>
    simp only [unaryFormulaS, unaryFormula]
    exact ref_bind (evalS_ref hU u (fun w hw => h w (by simp [memoSubs, hw])))
      (fun _ => ref_bind (ref_liftR _) (fun _ => ref_pure _))

theorem divFormulaLeftS_ref (hU : OKs U) (l r : Expr α) (hr : ∀ w ∈ memoSubs r, w ∈ U) (m : α) :
    Ref N p U (divFormulaLeftS N p l r m) (divFormulaLeft N p l r m) := by
  simp only [divFormulaLeftS, divFormulaLeft]
  exact ref_bind (evalS_ref hU r hr) (fun _ => ref_liftR _)

theorem divFormulaRightS_ref (hU : OKs U) (l r : Expr α) (hl : ∀ w ∈ memoSubs l, w ∈ U)
    (hr : ∀ w ∈ memoSubs r, w ∈ U) (m : α) :
    Ref N p U (divFormulaRightS N p l r m) (divFormulaRight N p l r m) := by
  simp only [divFormulaRightS, divFormulaRight]
  exact ref_bind (evalS_ref hU l hl) (fun _ => ref_bind (evalS_ref hU r hr)
    (fun _ => ref_bind (ref_liftR _) (fun _ => ref_bind (ref_liftR _) (fun _ => ref_pure _))))

theorem powFormulaLeftS_ref (hU : OKs U) (l r : Expr α) (hl : ∀ w ∈ memoSubs l, w ∈ U)
    (hr : ∀ w ∈ memoSubs r, w ∈ U) (m : α) :
    Ref N p U (powFormulaLeftS N p l r m) (powFormulaLeft N p l r m) := by
  simp only [powFormulaLeftS, powFormulaLeft]
  exact ref_bind (evalS_ref hU l hl) (fun _ => ref_bind (evalS_ref hU r hr)
    (fun _ => ref_bind (ref_liftR _) (fun _ => ref_pure _)))

theorem powFormulaRightS_ref (hU : OKs U) (self l : Expr α) (hs : ∀ w ∈ memoSubs self, w ∈ U)
    (hl : ∀ w ∈ memoSubs l, w ∈ U) (m : α) :
    Ref N p U (powFormulaRightS N p self l m) (powFormulaRight N p self l m) := by
  simp only [powFormulaRightS, powFormulaRight]
  exact ref_bind (evalS_ref hU l hl) (fun _ => ref_bind (evalS_ref hU self hs)
    (fun _ => ref_bind (ref_liftR _) (fun _ => ref_pure _)))

theorem powShortcutS_ref (hU : OKs U) (l : Expr α) (hl : ∀ w ∈ memoSubs l, w ∈ U) :
    Ref N p U (powShortcutS N p l) (powShortcut N p l) := by
  simp only [powShortcutS, powShortcut]
  exact ref_ite (ref_bind (evalS_ref hU l hl) (fun _ => ref_pure _)) (ref_pure _)


local macro "sub% " h:ident : term =>
  `(fun w hw => $h w (by simp [memoSubs, memoSubsList, hw]))

mutual
theorem fwdS_ref (hU : OKs U) (x : String) : ∀ e : Expr α, (∀ w ∈ memoSubs e, w ∈ U) →
    Ref N p U (fwdS N p x e) (fwdG N p x e)
  | .const _ v, _ => by simp only [fwdS, fwdG]; exact ref_pure _
  | .var _ y, _ => by simp only [fwdS, fwdG]; exact ref_ite (ref_pure _) (ref_pure _)
  | .add f as, h => by
    simp only [fwdS, fwdG]
    exact ref_bind (fwdListS_ref hU x as (sub% h)) (fun _ => ref_pure _)
  | .minus f l r, h => by
    simp only [fwdS, fwdG]
    exact ref_bind (fwdS_ref hU x l (sub% h)) (fun _ => ref_bind (fwdS_ref hU x r (sub% h))
      (fun _ => ref_pure _))
  | .mul f as, h => by
    simp only [fwdS, fwdG]
    exact ref_bind (evalListS_ref hU as (sub% h)) (fun _ =>
      ref_bind (fwdListS_ref hU x as (sub% h)) (fun _ => ref_pure _))
  | .div f l r, h => by
    simp only [fwdS, fwdG]
    exact ref_bind (evalS_ref hU l (sub% h)) (fun _ => ref_bind (evalS_ref hU r (sub% h))
      (fun _ => ref_bind (ref_liftR _) (fun _ => ref_bind (fwdS_ref hU x l (sub% h))
      (fun _ => ref_bind (fwdS_ref hU x r (sub% h))
      (fun _ => ref_bind (divFormulaLeftS_ref hU l r (sub% h) _)
      (fun _ => ref_bind (divFormulaRightS_ref hU l r (sub% h) (sub% h) _)
      (fun _ => ref_pure _)))))))
  | .pow f l r, h => by
    simp only [fwdS, fwdG]
    refine ref_bind (powShortcutS_ref hU l (sub% h)) (fun b => ref_ite ?_ ?_)
    · exact ref_bind (evalS_ref hU _ h) (fun _ => ref_pure _)
    · exact ref_bind (evalS_ref hU l (sub% h)) (fun _ => ref_bind (evalS_ref hU r (sub% h))
        (fun _ => ref_bind (ref_liftR _) (fun _ => ref_bind (fwdS_ref hU x l (sub% h))
        (fun _ => ref_bind (fwdS_ref hU x r (sub% h))
        (fun _ => ref_bind (powFormulaLeftS_ref hU l r (sub% h) (sub% h) _)
        (fun _ => ref_bind (powFormulaRightS_ref hU _ l h (sub% h) _)
        (fun _ => ref_pure _)))))))
  | .neg f u, h => by
    simp only [fwdS, fwdG]
    exact ref_bind (evalS_ref hU u (sub% h)) (fun _ => ref_bind (ref_liftR _)
      (fun _ => ref_bind (fwdS_ref hU x u (sub% h)) (fun _ => unaryFormulaS_ref hU _ h _)))
  | .recip f u, h => by
    simp only [fwdS, fwdG]
    exact ref_bind (evalS_ref hU u (sub% h)) (fun _ => ref_bind (ref_liftR _)
      (fun _ => ref_bind (fwdS_ref hU x u (sub% h)) (fun _ => unaryFormulaS_ref hU _ h _)))
  | .npow f u n, h => by
    simp only [fwdS, fwdG]
    exact ref_bind (evalS_ref hU u (sub% h)) (fun _ => ref_bind (ref_liftR _)
      (fun _ => ref_bind (fwdS_ref hU x u (sub% h)) (fun _ => unaryFormulaS_ref hU _ h _)))
  | .nroot f u n, h => by
    simp only [fwdS, fwdG]
    exact ref_bind (evalS_ref hU u (sub% h)) (fun _ => ref_bind (ref_liftR _)
      (fun _ => ref_bind (fwdS_ref hU x u (sub% h)) (fun _ => unaryFormulaS_ref hU _ h _)))
  | .exp f u b, h => by
    simp only [fwdS, fwdG]
    exact ref_bind (evalS_ref hU u (sub% h)) (fun _ => ref_bind (ref_liftR _)
      (fun _ => ref_bind (fwdS_ref hU x u (sub% h)) (fun _ => unaryFormulaS_ref hU _ h _)))
  | .log f u b, h => by
    simp only [fwdS, fwdG]
    exact ref_bind (evalS_ref hU u (sub% h)) (fun _ => ref_bind (ref_liftR _)
      (fun _ => ref_bind (fwdS_ref hU x u (sub% h)) (fun _ => unaryFormulaS_ref hU _ h _)))
  | .cos f u, h => by
    simp only [fwdS, fwdG]
    exact ref_bind (evalS_ref hU u (sub% h)) (fun _ => ref_bind (ref_liftR _)
      (fun _ => ref_bind (fwdS_ref hU x u (sub% h)) (fun _ => unaryFormulaS_ref hU _ h _)))
  | .sin f u, h => by
    simp only [fwdS, fwdG]
    exact ref_bind (evalS_ref hU u (sub% h)) (fun _ => ref_bind (ref_liftR _)
      (fun _ => ref_bind (fwdS_ref hU x u (sub% h)) (fun _ => unaryFormulaS_ref hU _ h _)))
theorem fwdListS_ref (hU : OKs U) (x : String) : ∀ es : List (Expr α),
    (∀ w ∈ memoSubsList es, w ∈ U) → Ref N p U (fwdListS N p x es) (fwdListG N p x es)
  | [], _ => by simp only [fwdListS, fwdListG]; exact ref_pure _
  | e :: es, h => by
    simp only [fwdListS, fwdListG]
    exact ref_bind (fwdS_ref hU x e (sub% h)) (fun _ => ref_bind (fwdListS_ref hU x es (sub% h))
      (fun _ => ref_pure _))
end


/-! ### reverse mode -/

mutual
theorem revS_ref (hU : OKs U) : ∀ e : Expr α, (∀ w ∈ memoSubs e, w ∈ U) → ∀ (m : α) (acc : Acc α),
    Ref N p U (revS N p e m acc) (revG N p e m acc)
  | .const _ v, _, m, acc => by simp only [revS, revG]; exact ref_pure _
  | .var _ y, _, m, acc => by simp only [revS, revG]; exact ref_pure _
  | .add f as, h, m, acc => by
    simp only [revS, revG]
    exact revListS_ref hU as (sub% h) m acc
  | .minus f l r, h, m, acc => by
    simp only [revS, revG]
    exact ref_bind (revS_ref hU l (sub% h) _ _) (fun _ => revS_ref hU r (sub% h) _ _)
  | .mul f as, h, m, acc => by
    simp only [revS, revG]
    exact ref_bind (evalListS_ref hU as (sub% h)) (fun _ => revMulS_ref hU as (sub% h) _ _ _ _)
  | .div f l r, h, m, acc => by
    simp only [revS, revG]
    exact ref_bind (evalS_ref hU l (sub% h)) (fun _ => ref_bind (evalS_ref hU r (sub% h))
      (fun _ => ref_bind (ref_liftR _)
      (fun _ => ref_bind (divFormulaLeftS_ref hU l r (sub% h) _)
      (fun _ => ref_bind (divFormulaRightS_ref hU l r (sub% h) (sub% h) _)
      (fun _ => ref_bind (revS_ref hU l (sub% h) _ _)
      (fun _ => revS_ref hU r (sub% h) _ _))))))
  | .pow f l r, h, m, acc => by
    simp only [revS, revG]
    refine ref_bind (powShortcutS_ref hU l (sub% h)) (fun b => ref_ite ?_ ?_)
    · exact ref_bind (evalS_ref hU _ h) (fun _ => ref_pure _)
    · exact ref_bind (evalS_ref hU l (sub% h)) (fun _ => ref_bind (evalS_ref hU r (sub% h))
        (fun _ => ref_bind (ref_liftR _)
        (fun _ => ref_bind (powFormulaLeftS_ref hU l r (sub% h) (sub% h) _)
        (fun _ => ref_bind (powFormulaRightS_ref hU _ l h (sub% h) _)
        (fun _ => ref_bind (revS_ref hU l (sub% h) _ _)
        (fun _ => revS_ref hU r (sub% h) _ _))))))
  | .neg f u, h, m, acc => by
    simp only [revS, revG]
    exact ref_bind (evalS_ref hU u (sub% h)) (fun _ => ref_bind (ref_liftR _)
      (fun _ => ref_bind (unaryFormulaS_ref hU _ h _) (fun _ => revS_ref hU u (sub% h) _ _)))
  | .recip f u, h, m, acc => by
    simp only [revS, revG]
    exact ref_bind (evalS_ref hU u (sub% h)) (fun _ => ref_bind (ref_liftR _)
      (fun _ => ref_bind (unaryFormulaS_ref hU _ h _) (fun _ => revS_ref hU u (sub% h) _ _)))
  | .npow f u n, h, m, acc => by
    simp only [revS, revG]
    exact ref_bind (evalS_ref hU u (sub% h)) (fun _ => ref_bind (ref_liftR _)
      (fun _ => ref_bind (unaryFormulaS_ref hU _ h _) (fun _ => revS_ref hU u (sub% h) _ _)))
  | .nroot f u n, h, m, acc => by
    simp only [revS, revG]
    exact ref_bind (evalS_ref hU u (sub% h)) (fun _ => ref_bind (ref_liftR _)
      (fun _ => ref_bind (unaryFormulaS_ref hU _ h _) (fun _ => revS_ref hU u (sub% h) _ _)))
  | .exp f u b, h, m, acc => by
    simp only [revS, revG]
    exact ref_bind (evalS_ref hU u (sub% h)) (fun _ => ref_bind (ref_liftR _)
      (fun _ => ref_bind (unaryFormulaS_ref hU _ h _) (fun _ => revS_ref hU u (sub% h) _ _)))
  | .log f u b, h, m, acc => by
    simp only [revS, revG]
    exact ref_bind (evalS_ref hU u (sub% h)) (fun _ => ref_bind (ref_liftR _)
      (fun _ => ref_bind (unaryFormulaS_ref hU _ h _) (fun _ => revS_ref hU u (sub% h) _ _)))
  | .cos f u, h, m, acc => by
    simp only [revS, revG]
    exact ref_bind (evalS_ref hU u (sub% h)) (fun _ => ref_bind (ref_liftR _)
      (fun _ => ref_bind (unaryFormulaS_ref hU _ h _) (fun _ => revS_ref hU u (sub% h) _ _)))
  | .sin f u, h, m, acc => by
    simp only [revS, revG]
    exact ref_bind (evalS_ref hU u (sub% h)) (fun _ => ref_bind (ref_liftR _)
      (fun _ => ref_bind (unaryFormulaS_ref hU _ h _) (fun _ => revS_ref hU u (sub% h) _ _)))
theorem revListS_ref (hU : OKs U) : ∀ es : List (Expr α), (∀ w ∈ memoSubsList es, w ∈ U) →
    ∀ (m : α) (acc : Acc α), Ref N p U (revListS N p es m acc) (revListG N p es m acc)
  | [], _, m, acc => by simp only [revListS, revListG]; exact ref_pure _
  | e :: es, h, m, acc => by
    simp only [revListS, revListG]
    exact ref_bind (revS_ref hU e (sub% h) _ _) (fun _ => revListS_ref hU es (sub% h) _ _)
theorem revMulS_ref (hU : OKs U) : ∀ es : List (Expr α), (∀ w ∈ memoSubsList es, w ∈ U) →
    ∀ (vs : List α) (m : α) (i : Nat) (acc : Acc α),
      Ref N p U (revMulS N p vs m i es acc) (revMulG N p vs m i es acc)
  | [], _, vs, m, i, acc => by simp only [revMulS, revMulG]; exact ref_pure _
  | e :: es, h, vs, m, i, acc => by
    simp only [revMulS, revMulG]
    exact ref_bind (revS_ref hU e (sub% h) _ _) (fun _ => revMulS_ref hU es (sub% h) _ _ _ _)
end

/-! ### running a refinement from a consistent store -/

theorem Ref.run {β γ : Type} {m : SM α β} {g : R β} (h : Ref N p U m g) {st : Store α}
    (hc : ConsU N p U st) (f : β → γ) : (m st).map (fun x => f x.1) = g.map f := by
  have := h st hc
  cases hm : m st with
  | error err => rw [hm] at this; subst this; rfl
  | ok x => obtain ⟨b, st1⟩ := x; rw [hm] at this; rw [this.1]; rfl



/-! ### the frame: only memo entries of the expression's own objects are ever added -/

/-- whenever `m` returns, the store it leaves is the initial one plus entries at ids from `I` -/
def Frame (I : List Nat) {β : Type} (m : SM α β) : Prop :=
  ∀ st b st', m st = .ok (b, st') → Ext I st st'

section Frame
variable {N : Num α} {p : Point α} {I : List Nat} {β γ : Type}

theorem frame_pure (b : β) : Frame I (pure b : SM α β) := by
  intro st b' st' h
  cases h
  exact Ext.refl _ _

theorem frame_throw (err : Err) : Frame I (throw err : SM α β) := by
  intro st b' st' h
  cases h

theorem frame_liftR (r : R β) : Frame I (liftR r : SM α β) := by
  intro st b' st' h
  cases r with
  | error err => cases h
  | ok b => cases h; exact Ext.refl _ _

theorem frame_bind {m : SM α β} {k : β → SM α γ}
    (h1 : Frame I m) (h2 : ∀ b, Frame I (k b)) : Frame I (m >>= k) := by
  intro st c st' h
  have e : (m >>= k) st = (m st >>= fun x => k x.1 x.2) := rfl
  rw [e] at h
  cases hm : m st with
  | error err => rw [hm] at h; cases h
  | ok x =>
    obtain ⟨b, st1⟩ := x
    rw [hm] at h
    exact (h1 st b st1 hm).trans (h2 b st1 c st' h)

theorem frame_ite {c : Prop} [Decidable c] {m1 m2 : SM α β}
    (h1 : Frame I m1) (h2 : Frame I m2) : Frame I (if c then m1 else m2) := by
  split
  · exact h1
  · exact h2

theorem frame_memo {i : Nat} (hi : i ∈ I) {body : SM α α} (hb : Frame I body) :
    Frame I (memo i body) := by
  intro st v st' h
  rw [memo_run] at h
  cases hget : st.get? i with
  | some v0 => rw [hget] at h; cases h; exact Ext.refl _ _
  | none =>
    rw [hget] at h
    cases hbody : body st with
    | error err => rw [hbody] at h; cases h
    | ok x =>
      obtain ⟨v1, st1⟩ := x
      rw [hbody] at h
      cases h
      refine (hb st _ _ hbody).trans ⟨[(i, _)], rfl, ?_⟩
      intro j hj
      simp only [List.map_cons, List.map_nil, List.mem_singleton] at hj
      exact hj ▸ hi

mutual
theorem evalS_frame : ∀ e : Expr α, (∀ i ∈ memoIds e, i ∈ I) →
    Frame I (evalS N p e)
  | .const _ v, _ => by simp only [evalS]; exact frame_pure v
  | .var _ x, _ => by
    simp only [evalS]
    cases p.get? x with
    | none => exact frame_throw _
    | some v => exact frame_pure v
  | .add f as, h => by
    rw [evalS_add]
    refine frame_memo (h _ (by simp [memoIds])) ?_
    exact frame_bind (evalListS_frame as (fun w hw => h w (by simp [memoIds, hw])))
      (fun _ => frame_pure _)
  | .mul f as, h => by
    rw [evalS_mul]
    refine frame_memo (h _ (by simp [memoIds])) ?_
    exact frame_bind (evalListS_frame as (fun w hw => h w (by simp [memoIds, hw])))
      (fun _ => frame_pure _)
  | .minus f l r, h => by
    rw [evalS_minus]
    refine frame_memo (h _ (by simp [memoIds])) ?_
    exact frame_bind (evalS_frame l (fun w hw => h w (by simp [memoIds, hw])))
      (fun _ => frame_bind (evalS_frame r (fun w hw => h w (by simp [memoIds, hw])))
        (fun _ => frame_pure _))
  | .div f l r, h => by
    rw [evalS_div]
    refine frame_memo (h _ (by simp [memoIds])) ?_
    exact frame_bind (evalS_frame l (fun w hw => h w (by simp [memoIds, hw])))
      (fun _ => frame_bind (evalS_frame r (fun w hw => h w (by simp [memoIds, hw])))
        (fun _ => frame_bind (frame_liftR _) (fun _ => frame_liftR _)))
  | .pow f l r, h => by
    rw [evalS_pow]
    refine frame_memo (h _ (by simp [memoIds])) ?_
    exact frame_bind (evalS_frame l (fun w hw => h w (by simp [memoIds, hw])))
      (fun _ => frame_bind (evalS_frame r (fun w hw => h w (by simp [memoIds, hw])))
        (fun _ => frame_bind (frame_liftR _) (fun _ => frame_liftR _)))
  | .neg f u, h => by
    rw [evalS_neg]
    refine frame_memo (h _ (by simp [memoIds])) ?_
    exact frame_bind (evalS_frame u (fun w hw => h w (by simp [memoIds, hw])))
      (fun _ => frame_pure _)
  | .recip f u, h => by
    rw [evalS_recip]
    refine frame_memo (h _ (by simp [memoIds])) ?_
    exact frame_bind (evalS_frame u (fun w hw => h w (by simp [memoIds, hw])))
      (fun _ => frame_bind (frame_liftR _) (fun _ => frame_liftR _))
  | .npow f u n, h => by
    rw [evalS_npow]
    refine frame_memo (h _ (by simp [memoIds])) ?_
    exact frame_bind (evalS_frame u (fun w hw => h w (by simp [memoIds, hw])))
      (fun _ => frame_liftR _)
  | .nroot f u n, h => by
    rw [evalS_nroot]
    refine frame_memo (h _ (by simp [memoIds])) ?_
    exact frame_bind (evalS_frame u (fun w hw => h w (by simp [memoIds, hw])))
      (fun _ => frame_bind (frame_liftR _) (fun _ => frame_liftR _))
  | .exp f u b, h => by
    rw [evalS_exp]
    refine frame_memo (h _ (by simp [memoIds])) ?_
    exact frame_bind (evalS_frame u (fun w hw => h w (by simp [memoIds, hw])))
      (fun _ => frame_liftR _)
  | .log f u b, h => by
    rw [evalS_log]
    refine frame_memo (h _ (by simp [memoIds])) ?_
    exact frame_bind (evalS_frame u (fun w hw => h w (by simp [memoIds, hw])))
      (fun _ => frame_bind (frame_liftR _) (fun _ => frame_liftR _))
  | .cos f u, h => by
    rw [evalS_cos]
    refine frame_memo (h _ (by simp [memoIds])) ?_
    exact frame_bind (evalS_frame u (fun w hw => h w (by simp [memoIds, hw])))
      (fun _ => frame_liftR _)
  | .sin f u, h => by
    rw [evalS_sin]
    refine frame_memo (h _ (by simp [memoIds])) ?_
    exact frame_bind (evalS_frame u (fun w hw => h w (by simp [memoIds, hw])))
      (fun _ => frame_liftR _)
theorem evalListS_frame : ∀ es : List (Expr α), (∀ i ∈ memoIdsList es, i ∈ I) →
    Frame I (evalListS N p es)
  | [], _ => by simp only [evalListS]; exact frame_pure _
  | e :: es, h => by
    simp only [evalListS]
    exact frame_bind (evalS_frame e (fun w hw => h w (by simp [memoIdsList, hw])))
      (fun _ => frame_bind (evalListS_frame es (fun w hw => h w (by simp [memoIdsList, hw])))
        (fun _ => frame_pure _))
end




theorem unaryFormulaS_frame (e : Expr α) (h : ∀ i ∈ memoIds e, i ∈ I) (m : α) :
    Frame I (unaryFormulaS N p e m) := by
  have hself := evalS_frame (N := N) (p := p) (I := I) e h
  cases e with
  | const _ _ | var _ _ | add _ _ | mul _ _ | minus _ _ _ | div _ _ _ | pow _ _ _ | neg _ _ =>
    simp only [unaryFormulaS]; exact frame_pure _
  | recip f u =>
    simp only [unaryFormulaS]
    exact frame_bind (evalS_frame u (fun w hw => h w (by simp [memoIds, hw])))
      (fun _ => frame_bind (frame_liftR _) (fun _ => frame_bind (frame_liftR _) (fun _ => frame_pure _)))
  | npow f u n =>
    simp only [unaryFormulaS]
    refine frame_ite (frame_pure _) ?_
    exact frame_bind (evalS_frame u (fun w hw => h w (by simp [memoIds, hw])))
      (fun _ => frame_bind (frame_liftR _) (fun _ => frame_pure _))
  | nroot f u n =>
    simp only [unaryFormulaS]
    refine frame_ite (frame_pure _) ?_
    exact frame_bind hself (fun _ => frame_bind (frame_liftR _) (fun _ => frame_liftR _))
  | exp f u b =>
    simp only [unaryFormulaS]
    refine frame_ite (frame_pure _) ?_
    exact frame_bind hself (fun _ => frame_ite (frame_pure _)
      (frame_bind (frame_liftR _) (fun _ => frame_pure _)))
  | log f u b =>
    simp only [unaryFormulaS]
    exact frame_bind (evalS_frame u (fun w hw => h w (by simp [memoIds, hw])))
      (fun _ => frame_ite (frame_liftR _) (frame_bind (frame_liftR _) (fun _ => frame_liftR _)))
  | cos f u =>
    simp only [unaryFormulaS]
    exact frame_bind (evalS_frame u (fun w hw => h w (by simp [memoIds, hw])))
      (fun _ => frame_bind (frame_liftR _) (fun _ => frame_pure _))
  | sin f u =>
    simp only [unaryFormulaS]
    exact frame_bind (evalS_frame u (fun w hw => h w (by simp [memoIds, hw])))
      (fun _ => frame_bind (frame_liftR _) (fun _ => frame_pure _))

theorem divFormulaLeftS_frame (l r : Expr α) (hr : ∀ i ∈ memoIds r, i ∈ I) (m : α) :
    Frame I (divFormulaLeftS N p l r m) := by
  simp only [divFormulaLeftS]
  exact frame_bind (evalS_frame r hr) (fun _ => frame_liftR _)

theorem divFormulaRightS_frame (l r : Expr α) (hl : ∀ i ∈ memoIds l, i ∈ I)
    (hr : ∀ i ∈ memoIds r, i ∈ I) (m : α) :
    Frame I (divFormulaRightS N p l r m) := by
  simp only [divFormulaRightS]
  exact frame_bind (evalS_frame l hl) (fun _ => frame_bind (evalS_frame r hr)
    (fun _ => frame_bind (frame_liftR _) (fun _ => frame_bind (frame_liftR _) (fun _ => frame_pure _))))

theorem powFormulaLeftS_frame (l r : Expr α) (hl : ∀ i ∈ memoIds l, i ∈ I)
    (hr : ∀ i ∈ memoIds r, i ∈ I) (m : α) :
    Frame I (powFormulaLeftS N p l r m) := by
  simp only [powFormulaLeftS]
  exact frame_bind (evalS_frame l hl) (fun _ => frame_bind (evalS_frame r hr)
    (fun _ => frame_bind (frame_liftR _) (fun _ => frame_pure _)))

theorem powFormulaRightS_frame (self l : Expr α) (hs : ∀ i ∈ memoIds self, i ∈ I)
    (hl : ∀ i ∈ memoIds l, i ∈ I) (m : α) :
    Frame I (powFormulaRightS N p self l m) := by
  simp only [powFormulaRightS]
  exact frame_bind (evalS_frame l hl) (fun _ => frame_bind (evalS_frame self hs)
    (fun _ => frame_bind (frame_liftR _) (fun _ => frame_pure _)))

theorem powShortcutS_frame (l : Expr α) (hl : ∀ i ∈ memoIds l, i ∈ I) :
    Frame I (powShortcutS N p l) := by
  simp only [powShortcutS]
  exact frame_ite (frame_bind (evalS_frame l hl) (fun _ => frame_pure _)) (frame_pure _)


local macro "subI% " h:ident : term =>
  `(fun w hw => $h w (by simp [memoIds, memoIdsList, hw]))

mutual
theorem fwdS_frame (x : String) : ∀ e : Expr α, (∀ i ∈ memoIds e, i ∈ I) →
    Frame I (fwdS N p x e)
  | .const _ v, _ => by simp only [fwdS]; exact frame_pure _
  | .var _ y, _ => by simp only [fwdS]; exact frame_ite (frame_pure _) (frame_pure _)
  | .add f as, h => by
    simp only [fwdS]
    exact frame_bind (fwdListS_frame x as (subI% h)) (fun _ => frame_pure _)
  | .minus f l r, h => by
    simp only [fwdS]
    exact frame_bind (fwdS_frame x l (subI% h)) (fun _ => frame_bind (fwdS_frame x r (subI% h))
      (fun _ => frame_pure _))
  | .mul f as, h => by
    simp only [fwdS]
    exact frame_bind (evalListS_frame as (subI% h)) (fun _ =>
      frame_bind (fwdListS_frame x as (subI% h)) (fun _ => frame_pure _))
  | .div f l r, h => by
    simp only [fwdS]
    exact frame_bind (evalS_frame l (subI% h)) (fun _ => frame_bind (evalS_frame r (subI% h))
      (fun _ => frame_bind (frame_liftR _) (fun _ => frame_bind (fwdS_frame x l (subI% h))
      (fun _ => frame_bind (fwdS_frame x r (subI% h))
      (fun _ => frame_bind (divFormulaLeftS_frame l r (subI% h) _)
      (fun _ => frame_bind (divFormulaRightS_frame l r (subI% h) (subI% h) _)
      (fun _ => frame_pure _)))))))
  | .pow f l r, h => by
    simp only [fwdS]
    refine frame_bind (powShortcutS_frame l (subI% h)) (fun b => frame_ite ?_ ?_)
    · exact frame_bind (evalS_frame _ h) (fun _ => frame_pure _)
    · exact frame_bind (evalS_frame l (subI% h)) (fun _ => frame_bind (evalS_frame r (subI% h))
        (fun _ => frame_bind (frame_liftR _) (fun _ => frame_bind (fwdS_frame x l (subI% h))
        (fun _ => frame_bind (fwdS_frame x r (subI% h))
        (fun _ => frame_bind (powFormulaLeftS_frame l r (subI% h) (subI% h) _)
        (fun _ => frame_bind (powFormulaRightS_frame _ l h (subI% h) _)
        (fun _ => frame_pure _)))))))
  | .neg f u, h => by
    simp only [fwdS]
    exact frame_bind (evalS_frame u (subI% h)) (fun _ => frame_bind (frame_liftR _)
      (fun _ => frame_bind (fwdS_frame x u (subI% h)) (fun _ => unaryFormulaS_frame _ h _)))
  | .recip f u, h => by
    simp only [fwdS]
    exact frame_bind (evalS_frame u (subI% h)) (fun _ => frame_bind (frame_liftR _)
      (fun _ => frame_bind (fwdS_frame x u (subI% h)) (fun _ => unaryFormulaS_frame _ h _)))
  | .npow f u n, h => by
    simp only [fwdS]
    exact frame_bind (evalS_frame u (subI% h)) (fun _ => frame_bind (frame_liftR _)
      (fun _ => frame_bind (fwdS_frame x u (subI% h)) (fun _ => unaryFormulaS_frame _ h _)))
  | .nroot f u n, h => by
    simp only [fwdS]
    exact frame_bind (evalS_frame u (subI% h)) (fun _ => frame_bind (frame_liftR _)
      (fun _ => frame_bind (fwdS_frame x u (subI% h)) (fun _ => unaryFormulaS_frame _ h _)))
  | .exp f u b, h => by
    simp only [fwdS]
    exact frame_bind (evalS_frame u (subI% h)) (fun _ => frame_bind (frame_liftR _)
      (fun _ => frame_bind (fwdS_frame x u (subI% h)) (fun _ => unaryFormulaS_frame _ h _)))
  | .log f u b, h => by
    simp only [fwdS]
    exact frame_bind (evalS_frame u (subI% h)) (fun _ => frame_bind (frame_liftR _)
      (fun _ => frame_bind (fwdS_frame x u (subI% h)) (fun _ => unaryFormulaS_frame _ h _)))
  | .cos f u, h => by
    simp only [fwdS]
    exact frame_bind (evalS_frame u (subI% h)) (fun _ => frame_bind (frame_liftR _)
      (fun _ => frame_bind (fwdS_frame x u (subI% h)) (fun _ => unaryFormulaS_frame _ h _)))
  | .sin f u, h => by
    simp only [fwdS]
    exact frame_bind (evalS_frame u (subI% h)) (fun _ => frame_bind (frame_liftR _)
      (fun _ => frame_bind (fwdS_frame x u (subI% h)) (fun _ => unaryFormulaS_frame _ h _)))
theorem fwdListS_frame (x : String) : ∀ es : List (Expr α),
    (∀ i ∈ memoIdsList es, i ∈ I) → Frame I (fwdListS N p x es)
  | [], _ => by simp only [fwdListS]; exact frame_pure _
  | e :: es, h => by
    simp only [fwdListS]
    exact frame_bind (fwdS_frame x e (subI% h)) (fun _ => frame_bind (fwdListS_frame x es (subI% h))
      (fun _ => frame_pure _))
end




mutual
theorem revS_frame : ∀ e : Expr α, (∀ i ∈ memoIds e, i ∈ I) → ∀ (m : α) (acc : Acc α),
    Frame I (revS N p e m acc)
  | .const _ v, _, m, acc => by simp only [revS]; exact frame_pure _
  | .var _ y, _, m, acc => by simp only [revS]; exact frame_pure _
  | .add f as, h, m, acc => by
    simp only [revS]
    exact revListS_frame as (subI% h) m acc
  | .minus f l r, h, m, acc => by
    simp only [revS]
    exact frame_bind (revS_frame l (subI% h) _ _) (fun _ => revS_frame r (subI% h) _ _)
  | .mul f as, h, m, acc => by
    simp only [revS]
    exact frame_bind (evalListS_frame as (subI% h)) (fun _ => revMulS_frame as (subI% h) _ _ _ _)
  | .div f l r, h, m, acc => by
    simp only [revS]
    exact frame_bind (evalS_frame l (subI% h)) (fun _ => frame_bind (evalS_frame r (subI% h))
      (fun _ => frame_bind (frame_liftR _)
      (fun _ => frame_bind (divFormulaLeftS_frame l r (subI% h) _)
      (fun _ => frame_bind (divFormulaRightS_frame l r (subI% h) (subI% h) _)
      (fun _ => frame_bind (revS_frame l (subI% h) _ _)
      (fun _ => revS_frame r (subI% h) _ _))))))
  | .pow f l r, h, m, acc => by
    simp only [revS]
    refine frame_bind (powShortcutS_frame l (subI% h)) (fun b => frame_ite ?_ ?_)
    · exact frame_bind (evalS_frame _ h) (fun _ => frame_pure _)
    · exact frame_bind (evalS_frame l (subI% h)) (fun _ => frame_bind (evalS_frame r (subI% h))
        (fun _ => frame_bind (frame_liftR _)
        (fun _ => frame_bind (powFormulaLeftS_frame l r (subI% h) (subI% h) _)
        (fun _ => frame_bind (powFormulaRightS_frame _ l h (subI% h) _)
        (fun _ => frame_bind (revS_frame l (subI% h) _ _)
        (fun _ => revS_frame r (subI% h) _ _))))))
  | .neg f u, h, m, acc => by
    simp only [revS]
    exact frame_bind (evalS_frame u (subI% h)) (fun _ => frame_bind (frame_liftR _)
      (fun _ => frame_bind (unaryFormulaS_frame _ h _) (fun _ => revS_frame u (subI% h) _ _)))
  | .recip f u, h, m, acc => by
    simp only [revS]
    exact frame_bind (evalS_frame u (subI% h)) (fun _ => frame_bind (frame_liftR _)
      (fun _ => frame_bind (unaryFormulaS_frame _ h _) (fun _ => revS_frame u (subI% h) _ _)))
  | .npow f u n, h, m, acc => by
    simp only [revS]
    exact frame_bind (evalS_frame u (subI% h)) (fun _ => frame_bind (frame_liftR _)
      (fun _ => frame_bind (unaryFormulaS_frame _ h _) (fun _ => revS_frame u (subI% h) _ _)))
  | .nroot f u n, h, m, acc => by
    simp only [revS]
    exact frame_bind (evalS_frame u (subI% h)) (fun _ => frame_bind (frame_liftR _)
      (fun _ => frame_bind (unaryFormulaS_frame _ h _) (fun _ => revS_frame u (subI% h) _ _)))
  | .exp f u b, h, m, acc => by
    simp only [revS]
    exact frame_bind (evalS_frame u (subI% h)) (fun _ => frame_bind (frame_liftR _)
      (fun _ => frame_bind (unaryFormulaS_frame _ h _) (fun _ => revS_frame u (subI% h) _ _)))
  | .log f u b, h, m, acc => by
    simp only [revS]
    exact frame_bind (evalS_frame u (subI% h)) (fun _ => frame_bind (frame_liftR _)
      (fun _ => frame_bind (unaryFormulaS_frame _ h _) (fun _ => revS_frame u (subI% h) _ _)))
  | .cos f u, h, m, acc => by
    simp only [revS]
    exact frame_bind (evalS_frame u (subI% h)) (fun _ => frame_bind (frame_liftR _)
      (fun _ => frame_bind (unaryFormulaS_frame _ h _) (fun _ => revS_frame u (subI% h) _ _)))
  | .sin f u, h, m, acc => by
    simp only [revS]
    exact frame_bind (evalS_frame u (subI% h)) (fun _ => frame_bind (frame_liftR _)
      (fun _ => frame_bind (unaryFormulaS_frame _ h _) (fun _ => revS_frame u (subI% h) _ _)))
theorem revListS_frame : ∀ es : List (Expr α), (∀ i ∈ memoIdsList es, i ∈ I) →
    ∀ (m : α) (acc : Acc α), Frame I (revListS N p es m acc)
  | [], _, m, acc => by simp only [revListS]; exact frame_pure _
  | e :: es, h, m, acc => by
    simp only [revListS]
    exact frame_bind (revS_frame e (subI% h) _ _) (fun _ => revListS_frame es (subI% h) _ _)
theorem revMulS_frame : ∀ es : List (Expr α), (∀ i ∈ memoIdsList es, i ∈ I) →
    ∀ (vs : List α) (m : α) (i : Nat) (acc : Acc α),
      Frame I (revMulS N p vs m i es acc)
  | [], _, vs, m, i, acc => by simp only [revMulS]; exact frame_pure _
  | e :: es, h, vs, m, i, acc => by
    simp only [revMulS]
    exact frame_bind (revS_frame e (subI% h) _ _) (fun _ => revMulS_frame es (subI% h) _ _ _ _)
end


end Frame

/-! ### the public statements -/

section Public
variable (N : Num α) (p : Point α)

/-- `evalS` from a consistent store: the pure answer, a consistent store, only own entries added;
an error is the pure evaluator's error. -/
theorem evalS_refines {e : Expr α} (hid : IdsOK e) {st : Store α} (hc : Cons N p e st) :
    (∀ v st', evalS N p e st = .ok (v, st') →
        evalG N p e = .ok v ∧ Cons N p e st' ∧ Ext (memoIds e) st st') ∧
    (∀ err, evalS N p e st = .error err → evalG N p e = .error err) := by
  have h := evalS_ref (N := N) (p := p) hid e (fun _ hw => hw) st hc
  constructor
  · intro v st' hr
    rw [hr] at h
    exact ⟨h.1, h.2, evalS_frame e (fun _ hi => hi) st v st' hr⟩
  · intro err hr
    rw [hr] at h
    exact h

theorem fwdS_refines (x : String) {e : Expr α} (hid : IdsOK e) {st : Store α}
    (hc : Cons N p e st) :
    (∀ v st', fwdS N p x e st = .ok (v, st') →
        fwdG N p x e = .ok v ∧ Cons N p e st' ∧ Ext (memoIds e) st st') ∧
    (∀ err, fwdS N p x e st = .error err → fwdG N p x e = .error err) := by
  have h := fwdS_ref (N := N) (p := p) hid x e (fun _ hw => hw) st hc
  constructor
  · intro v st' hr
    rw [hr] at h
    exact ⟨h.1, h.2, fwdS_frame x e (fun _ hi => hi) st v st' hr⟩
  · intro err hr
    rw [hr] at h
    exact h

theorem revS_refines {e : Expr α} (hid : IdsOK e) (m : α) (acc : Acc α) {st : Store α}
    (hc : Cons N p e st) :
    (∀ acc' st', revS N p e m acc st = .ok (acc', st') →
        revG N p e m acc = .ok acc' ∧ Cons N p e st' ∧ Ext (memoIds e) st st') ∧
    (∀ err, revS N p e m acc st = .error err → revG N p e m acc = .error err) := by
  have h := revS_ref (N := N) (p := p) hid e (fun _ hw => hw) m acc st hc
  constructor
  · intro v st' hr
    rw [hr] at h
    exact ⟨h.1, h.2, revS_frame e (fun _ hi => hi) m acc st v st' hr⟩
  · intro err hr
    rw [hr] at h
    exact h

/-- `Expression.at` from an ARBITRARY store is the pure evaluator -/
theorem at_refines {e : Expr α} (hid : IdsOK e) (st : Store α) : atS N p e st = evalG N p e := by
  have h := (evalS_ref (N := N) (p := p) hid e (fun _ hw => hw)).run (cons_resetS N p e st) id
  unfold atS
  rw [show (fun x : α × Store α => x.1) = (fun x => id x.1) from rfl, h]
  cases evalG N p e <;> rfl

/-- the numeric `Partial.at` from an ARBITRARY store is pure forward mode -/
theorem partialAt_refines (x : String) {e : Expr α} (hid : IdsOK e) (st : Store α) :
    partialAtS N p x e st = fwdG N p x e := by
  have h := (fwdS_ref (N := N) (p := p) hid x e (fun _ hw => hw)).run (cons_resetS N p e st) id
  unfold partialAtS
  rw [show (fun x : α × Store α => x.1) = (fun x => id x.1) from rfl, h]
  cases fwdG N p x e <;> rfl

/-- `_numeric_partials` from an ARBITRARY store is pure reverse mode -/
theorem numericPartials_refines {e : Expr α} (hid : IdsOK e) (st : Store α) :
    numericPartialsS N p e st = numericPartials N p e := by
  have h := (revS_ref (N := N) (p := p) hid e (fun _ hw => hw) N.one []).run
    (cons_resetS N p e st) (fun acc => e.vars.map fun x => (x, (Acc.get? acc x).getD N.zero))
  unfold numericPartialsS numericPartials
  rw [show (fun x : Acc α × Store α => match x with
        | (acc, _) => e.vars.map fun x => (x, (Acc.get? acc x).getD N.zero)) =
      (fun x => (fun acc => e.vars.map fun x => (x, (Acc.get? acc x).getD N.zero)) x.1) from rfl, h]
  cases revG N p e N.one [] <;> rfl

/-- an `Ext` leaves every id outside `I` alone -/
theorem Ext.get?_of_not_mem {I : List Nat} {st st' : Store α} (h : Ext I st st') {j : Nat}
    (hj : j ∉ I) : st'.get? j = st.get? j := by
  obtain ⟨added, rfl, hm⟩ := h
  induction added with
  | nil => rfl
  | cons a as ih =>
    obtain ⟨i, v⟩ := a
    have hi : i ∈ I := hm i (by simp)
    have hne : i ≠ j := fun h => hj (h ▸ hi)
    have := ih (fun k hk => hm k (by simp only [List.map_cons, List.mem_cons]; exact Or.inr hk))
    simpa [Store.get?_cons, hne] using this

end Public

/-! ### a sufficient condition, and concrete objects for the examples -/

theorem inj_of_nodup_map {β : Type} (f : β → Nat) : ∀ l : List β, (l.map f).Nodup →
    ∀ a ∈ l, ∀ b ∈ l, f a = f b → a = b
  | [], _, a, ha, _, _, _ => by cases ha
  | c :: l, h, a, ha, b, hb, hab => by
    rw [List.map_cons, List.nodup_cons] at h
    rcases List.mem_cons.mp ha with rfl | ha' <;> rcases List.mem_cons.mp hb with rfl | hb'
    · rfl
    · exact absurd (hab ▸ List.mem_map_of_mem hb') h.1
    · exact absurd (hab ▸ List.mem_map_of_mem ha') h.1
    · exact inj_of_nodup_map f l h.2 a ha' b hb' hab

/-- a tree without sharing (all memo ids distinct) has well-formed sharing -/
theorem idsOK_of_nodup {e : Expr α} (h : (memoIds e).Nodup) : IdsOK e := by
  intro u hu w hw hid
  rw [memoIds_eq_map] at h
  rw [inj_of_nodup_map _ _ h u hu w hw hid]

/-- a toy exact instance (integers; the libm-backed operations unsupported), so that concrete
runs reduce by `rfl` -/
def intNum : Num Int where
  ofNat n := n
  e := 3
  add := (· + ·)
  sub := (· - ·)
  neg := (- ·)
  mul := (· * ·)
  div := (· / ·)
  powNat := (· ^ ·)
  rpow _ _ := .error .unsupported
  sqrt _ := .error .unsupported
  cbrt _ := .error .unsupported
  logb _ _ := .error .unsupported
  sin _ := .error .unsupported
  cos _ := .error .unsupported
  isZero x := x == 0
  isNeg x := x < 0
  eq a b := a == b
  toInt x := some x

/-- the shared object `s = x + 1` (id 1) -/
def exS (one : α) : Expr α := .add { id := 1 } [.var {} "x", .const {} one]
/-- the DAG `s * s` : one object (id 1) occurring twice under the product (id 2) -/
def exDag (one : α) : Expr α := .mul { id := 2 } [exS one, exS one]

theorem exDag_idsOK (one : α) : IdsOK (exDag one) := by
  intro u hu w hw h
  simp only [exDag, exS, memoSubs, memoSubsList, List.append_nil, List.cons_append, List.nil_append,
    List.mem_cons, List.not_mem_nil, or_false] at hu hw
  rcases hu with rfl | rfl | rfl <;> rcases hw with rfl | rfl | rfl <;>
    first | rfl | (simp [Expr.flags] at h)

/-- NOT well-formed: `-x` and `x ** 2` are different objects carrying the same id 1 -/
def exClash : Expr Int :=
  .add { id := 2 } [.neg { id := 1 } (.var {} "x"), .npow { id := 1 } (.var {} "x") 2]

end Smooth
