/-
Proofs/Construct — the checked constructors and the operator dunders (Model/Surface) accept exactly
the documented arguments, build exactly the named node, and every accepted result is well formed.
-/
import Smooth.Real.Spec

namespace Smooth
open Classical Expr

section generic
variable {α : Type}

/-- a Python value that is not an expression -/
def PyVal.NotExpr (v : PyVal α) : Prop := ∀ e : Expr α, v ≠ .expr e

theorem PyVal.notExpr_num (x : α) : (PyVal.num x).NotExpr := fun _ h => by cases h
theorem PyVal.notExpr_str (s : String) : (PyVal.str s : PyVal α).NotExpr := fun _ h => by cases h
theorem PyVal.notExpr_other : (PyVal.other : PyVal α).NotExpr := fun _ h => by cases h

theorem PyVal.expr_or_notExpr (v : PyVal α) : (∃ e, v = .expr e) ∨ v.NotExpr := by
  cases v with
  | expr e => exact Or.inl ⟨e, rfl⟩
  | num x => exact Or.inr (PyVal.notExpr_num x)
  | str s => exact Or.inr (PyVal.notExpr_str s)
  | other => exact Or.inr PyVal.notExpr_other

/-! ### operand check -/

theorem asExprArg_expr (e : Expr α) : asExprArg (.expr e) = .ok e := rfl

theorem asExprArg_notExpr {v : PyVal α} (h : v.NotExpr) : asExprArg v = .error .usage := by
  cases v with
  | expr e => exact absurd rfl (h e)
  | num x => rfl
  | str s => rfl
  | other => rfl

theorem asExprArg_ok_iff {v : PyVal α} {e : Expr α} : asExprArg v = .ok e ↔ v = .expr e := by
  constructor
  · intro h
    rcases PyVal.expr_or_notExpr v with ⟨u, rfl⟩ | hv
    · rw [asExprArg_expr] at h; injection h with h; rw [h]
    · rw [asExprArg_notExpr hv] at h; cases h
  · rintro rfl; rfl

theorem asExprArgs_map_expr (es : List (Expr α)) : asExprArgs (es.map PyVal.expr) = .ok es := by
  induction es with
  | nil => rfl
  | cons e es ih => simp [asExprArgs, asExprArg_expr, ih, bind, Except.bind, pure, Except.pure]

theorem asExprArgs_ok_iff {vs : List (PyVal α)} {es : List (Expr α)} :
    asExprArgs vs = .ok es ↔ vs = es.map PyVal.expr := by
  constructor
  · induction vs generalizing es with
    | nil =>
      intro h
      simp only [asExprArgs, pure, Except.pure] at h
      injection h with h; subst h; rfl
    | cons v vs ih =>
      intro h
      rcases PyVal.expr_or_notExpr v with ⟨u, rfl⟩ | hv
      · simp only [asExprArgs, asExprArg_expr, bind, Except.bind] at h
        cases h' : asExprArgs vs with
        | error x => rw [h'] at h; cases h
        | ok us =>
          rw [h'] at h
          simp only [pure, Except.pure] at h
          injection h with h; subst h
          rw [ih h']; rfl
      · simp only [asExprArgs, asExprArg_notExpr hv, bind, Except.bind] at h
        cases h
  · rintro rfl; exact asExprArgs_map_expr es

/-- the only failure of the operand check is the generic `Exception` -/
theorem asExprArgs_error {vs : List (PyVal α)} {x : Err} (h : asExprArgs vs = .error x) :
    x = .usage ∧ ∃ v ∈ vs, PyVal.NotExpr v := by
  induction vs with
  | nil => simp [asExprArgs, pure, Except.pure] at h
  | cons v vs ih =>
    rcases PyVal.expr_or_notExpr v with ⟨u, rfl⟩ | hv
    · simp only [asExprArgs, asExprArg_expr, bind, Except.bind] at h
      cases h' : asExprArgs vs with
      | error y =>
        rw [h'] at h
        injection h with h; subst h
        obtain ⟨h1, w, hw, hw'⟩ := ih h'
        exact ⟨h1, w, List.mem_cons_of_mem _ hw, hw'⟩
      | ok us => rw [h'] at h; simp [pure, Except.pure] at h
    · simp only [asExprArgs, asExprArg_notExpr hv, bind, Except.bind] at h
      injection h with h
      exact ⟨h.symm, v, List.mem_cons_self, hv⟩

/-! ### unary, binary, n-ary constructors -/

theorem mkUnaryChecked_ok_iff (mk : Expr α → Expr α) (v : PyVal α) (e : Expr α) :
    mkUnaryChecked mk v = .ok e ↔ ∃ u, v = .expr u ∧ e = mk u := by
  rcases PyVal.expr_or_notExpr v with ⟨u, rfl⟩ | hv
  · simp [mkUnaryChecked, asExprArg_expr, bind, Except.bind, pure, Except.pure, eq_comm]
  · simp only [mkUnaryChecked, asExprArg_notExpr hv, bind, Except.bind]
    constructor
    · intro h; cases h
    · rintro ⟨u, rfl, _⟩; exact absurd rfl (hv u)

theorem mkUnaryChecked_notExpr (mk : Expr α → Expr α) {v : PyVal α} (hv : v.NotExpr) :
    mkUnaryChecked mk v = .error .usage := by
  simp [mkUnaryChecked, asExprArg_notExpr hv, bind, Except.bind]

theorem mkBinaryChecked_expr (mk : Expr α → Expr α → Expr α) (a b : Expr α) :
    mkBinaryChecked mk (.expr a) (.expr b) = .ok (mk a b) := rfl

theorem mkBinaryChecked_notExpr_left (mk : Expr α → Expr α → Expr α) {l : PyVal α} (r : PyVal α)
    (hl : l.NotExpr) : mkBinaryChecked mk l r = .error .usage := by
  simp [mkBinaryChecked, asExprArg_notExpr hl, bind, Except.bind]

theorem mkBinaryChecked_notExpr_right (mk : Expr α → Expr α → Expr α) (a : Expr α) {r : PyVal α}
    (hr : r.NotExpr) : mkBinaryChecked mk (.expr a) r = .error .usage := by
  simp [mkBinaryChecked, asExprArg_expr, asExprArg_notExpr hr, bind, Except.bind]

theorem mkBinaryChecked_ok_iff (mk : Expr α → Expr α → Expr α) (l r : PyVal α) (e : Expr α) :
    mkBinaryChecked mk l r = .ok e ↔ ∃ a b, l = .expr a ∧ r = .expr b ∧ e = mk a b := by
  rcases PyVal.expr_or_notExpr l with ⟨a, rfl⟩ | hl
  · rcases PyVal.expr_or_notExpr r with ⟨b, rfl⟩ | hr
    · rw [mkBinaryChecked_expr]
      constructor
      · intro h; injection h with h; exact ⟨a, b, rfl, rfl, h.symm⟩
      · rintro ⟨a', b', h1, h2, rfl⟩
        injection h1 with h1; injection h2 with h2; subst h1; subst h2; rfl
    · rw [mkBinaryChecked_notExpr_right mk a hr]
      constructor
      · intro h; cases h
      · rintro ⟨_, b, _, rfl, _⟩; exact absurd rfl (hr b)
  · rw [mkBinaryChecked_notExpr_left mk r hl]
    constructor
    · intro h; cases h
    · rintro ⟨a, _, rfl, _, _⟩; exact absurd rfl (hl a)

theorem mkNaryChecked_ok_iff (mk : List (Expr α) → Expr α) (vs : List (PyVal α)) (e : Expr α) :
    mkNaryChecked mk vs = .ok e ↔ ∃ us, vs = us.map PyVal.expr ∧ e = mk us := by
  cases h : asExprArgs vs with
  | error x =>
    simp only [mkNaryChecked, h, bind, Except.bind]
    constructor
    · intro h'; cases h'
    · rintro ⟨us, rfl, _⟩; rw [asExprArgs_map_expr] at h; cases h
  | ok us =>
    simp only [mkNaryChecked, h, bind, Except.bind, pure, Except.pure]
    have hvs := asExprArgs_ok_iff.mp h
    constructor
    · intro h'; injection h' with h'; exact ⟨us, hvs, h'.symm⟩
    · rintro ⟨us', h1, rfl⟩
      rw [h1, asExprArgs_map_expr] at h
      injection h with h; rw [h]

theorem mkNaryChecked_notExpr (mk : List (Expr α) → Expr α) {vs : List (PyVal α)} {v : PyVal α}
    (hmem : v ∈ vs) (hv : v.NotExpr) : mkNaryChecked mk vs = .error .usage := by
  cases h : asExprArgs vs with
  | error x =>
    obtain ⟨rfl, _⟩ := asExprArgs_error h
    simp [mkNaryChecked, h, bind, Except.bind]
  | ok us =>
    have hvs := asExprArgs_ok_iff.mp h
    subst hvs
    obtain ⟨u, _, rfl⟩ := List.mem_map.mp hmem
    exact absurd rfl (hv u)

/-! ### `Variable(name)` -/

theorem mkVariableChecked_ok_iff (isWord : Char → Bool) (name : String) (e : Expr α) :
    mkVariableChecked isWord name = .ok e ↔
      name ≠ "" ∧ name.toList.all isWord = true ∧ e = mkVar name := by
  unfold mkVariableChecked
  by_cases h1 : name = ""
  · subst h1
    simp [throw, throwThe, MonadExceptOf.throw]
  · have h1' : name.isEmpty = false := by
      simpa [String.isEmpty_iff] using h1
    cases h2 : name.toList.all isWord
    · simp [h1', throw, throwThe, MonadExceptOf.throw]
    · simp [h1, h1', pure, Except.pure, eq_comm]

theorem mkVariableChecked_reject (isWord : Char → Bool) (name : String)
    (h : name = "" ∨ name.toList.all isWord = false) :
    (mkVariableChecked isWord name : R (Expr α)) = .error .usage := by
  unfold mkVariableChecked
  rcases h with rfl | h
  · simp [throw, throwThe, MonadExceptOf.throw]
  · simp [h, throw, throwThe, MonadExceptOf.throw]

/-! ### operators (generic part) -/

theorem opNeg_eq (a : Expr α) : opNeg a = mkNeg a := rfl

theorem opAdd_expr (a b : Expr α) : opAdd a (.expr b) = .ok (mkAdd [a, b]) := rfl
theorem opSub_expr (a b : Expr α) : opSub a (.expr b) = .ok (mkMinus a b) := rfl
theorem opMul_expr (a b : Expr α) : opMul a (.expr b) = .ok (mkMul [a, b]) := rfl
theorem opDiv_expr (a b : Expr α) : opDiv a (.expr b) = .ok (mkDiv a b) := rfl
theorem opPow_expr (N : Num α) (a b : Expr α) : opPow N a (.expr b) = .ok (mkPow a b) := rfl

theorem opAdd_notExpr (a : Expr α) {v : PyVal α} (hv : v.NotExpr) : opAdd a v = .error .usage :=
  mkBinaryChecked_notExpr_right _ a hv
theorem opSub_notExpr (a : Expr α) {v : PyVal α} (hv : v.NotExpr) : opSub a v = .error .usage :=
  mkBinaryChecked_notExpr_right _ a hv
theorem opMul_notExpr (a : Expr α) {v : PyVal α} (hv : v.NotExpr) : opMul a v = .error .usage :=
  mkBinaryChecked_notExpr_right _ a hv
theorem opDiv_notExpr (a : Expr α) {v : PyVal α} (hv : v.NotExpr) : opDiv a v = .error .usage :=
  mkBinaryChecked_notExpr_right _ a hv

theorem opPow_str (N : Num α) (a : Expr α) (s : String) : opPow N a (.str s) = .error .usage := rfl
theorem opPow_other (N : Num α) (a : Expr α) : opPow N a .other = .error .usage := rfl

end generic

/-! ### the integer a real number is -/

theorem realNum_toInt_eq_some_iff {x : ℝ} {k : ℤ} : realNum.toInt x = some k ↔ (k : ℝ) = x :=
  ⟨realNum_toInt_some, fun h => h ▸ realNum_toInt_intCast k⟩

theorem realNum_toInt_natCast (k : ℕ) : realNum.toInt (k : ℝ) = some (k : ℤ) := by
  have := realNum_toInt_intCast (k : ℤ)
  simpa using this

theorem realNum_toInt_eq_none_iff {x : ℝ} : realNum.toInt x = none ↔ ¬ ∃ k : ℤ, (k : ℝ) = x := by
  constructor
  · rintro h ⟨k, rfl⟩
    rw [realNum_toInt_intCast] at h; cases h
  · intro h
    cases h' : realNum.toInt x with
    | none => rfl
    | some k => exact absurd ⟨k, realNum_toInt_some h'⟩ h

/-- `x` is a positive integer (an `int`, or an integral `float`) -/
def IsPosInt (x : ℝ) : Prop := ∃ k : ℕ, 1 ≤ k ∧ x = (k : ℝ)

/-- the three ways a numeric argument can be read as the parameter `n` -/
theorem realNum_toInt_cases (x : ℝ) :
    (∃ k : ℕ, 1 ≤ k ∧ x = (k : ℝ) ∧ realNum.toInt x = some (k : ℤ)) ∨
    (∃ j : ℤ, j ≤ 0 ∧ x = (j : ℝ) ∧ realNum.toInt x = some j) ∨
    ((¬ ∃ j : ℤ, (j : ℝ) = x) ∧ realNum.toInt x = none) := by
  cases h : realNum.toInt x with
  | none => exact Or.inr (Or.inr ⟨realNum_toInt_eq_none_iff.mp h, rfl⟩)
  | some j =>
    have hj := realNum_toInt_some h
    by_cases hpos : j ≤ 0
    · exact Or.inr (Or.inl ⟨j, hpos, hj.symm, rfl⟩)
    · refine Or.inl ⟨j.toNat, by omega, ?_, ?_⟩
      · rw [← hj]
        have : ((j.toNat : ℤ) : ℝ) = (j : ℝ) := by
          congr 1; omega
        exact_mod_cast this.symm
      · congr 1; omega

theorem not_isPosInt_of_nonpos {j : ℤ} (hj : j ≤ 0) : ¬ IsPosInt (j : ℝ) := by
  rintro ⟨k, hk, h⟩
  have : j = (k : ℤ) := by exact_mod_cast h
  omega

theorem not_isPosInt_of_not_int {x : ℝ} (h : ¬ ∃ j : ℤ, (j : ℝ) = x) : ¬ IsPosInt x := by
  rintro ⟨k, _, rfl⟩
  exact h ⟨(k : ℤ), by simp⟩

/-! ### the parameter `n` -/

theorem checkN_natCast {k : ℕ} (hk : 1 ≤ k) : checkN realNum (.num (k : ℝ)) = .ok k := by
  have h0 : k ≠ 0 := by omega
  simp [checkN, realNum_toInt_natCast, h0, pure, Except.pure]

theorem checkN_num_reject {x : ℝ} (hx : ¬ IsPosInt x) :
    checkN realNum (.num x) = .error .domain := by
  rcases realNum_toInt_cases x with ⟨k, hk, rfl, _⟩ | ⟨j, hj, rfl, ht⟩ | ⟨_, ht⟩
  · exact absurd ⟨k, hk, rfl⟩ hx
  · simp [checkN, ht, hj, throw, throwThe, MonadExceptOf.throw]
  · simp [checkN, ht, throw, throwThe, MonadExceptOf.throw]

theorem checkN_ok_iff (n : PyVal ℝ) (k : ℕ) :
    checkN realNum n = .ok k ↔ n = .num (k : ℝ) ∧ 1 ≤ k := by
  constructor
  · intro h
    cases n with
    | num x =>
      by_cases hx : IsPosInt x
      · obtain ⟨j, hj, rfl⟩ := hx
        rw [checkN_natCast hj] at h
        injection h with h; subst h
        exact ⟨rfl, hj⟩
      · rw [checkN_num_reject hx] at h; cases h
    | expr e => cases h
    | str s => cases h
    | other => cases h
  · rintro ⟨rfl, hk⟩; exact checkN_natCast hk

/-- every failure of the `n` check is a `DomainError` -/
theorem checkN_error {n : PyVal ℝ} {x : Err} (h : checkN realNum n = .error x) : x = .domain := by
  cases n with
  | num v =>
    by_cases hv : IsPosInt v
    · obtain ⟨j, hj, rfl⟩ := hv
      rw [checkN_natCast hj] at h; cases h
    · rw [checkN_num_reject hv] at h; injection h with h; exact h.symm
  | expr e => injection h with h; exact h.symm
  | str s => injection h with h; exact h.symm
  | other => injection h with h; exact h.symm

/-- what `NthPower`/`NthRoot` accept as `n` -/
def GoodN (n : PyVal ℝ) : Prop := ∃ k : ℕ, 1 ≤ k ∧ n = .num (k : ℝ)

theorem checkN_reject {n : PyVal ℝ} (h : ¬ GoodN n) : checkN realNum n = .error .domain := by
  cases h' : checkN realNum n with
  | error x => rw [checkN_error h']
  | ok k =>
    obtain ⟨rfl, hk⟩ := (checkN_ok_iff n k).mp h'
    exact absurd ⟨k, hk, rfl⟩ h

/-! ### `NthPower`, `NthRoot` -/

theorem mkNthPowerChecked_ok_iff (inner n : PyVal ℝ) (e : Expr ℝ) :
    mkNthPowerChecked realNum inner n = .ok e ↔
      ∃ (u : Expr ℝ) (k : ℕ), inner = .expr u ∧ n = .num (k : ℝ) ∧ 1 ≤ k ∧ e = mkNPow u k := by
  constructor
  · intro h
    unfold mkNthPowerChecked at h
    cases hn : checkN realNum n with
    | error x => rw [hn] at h; cases h
    | ok k =>
      obtain ⟨rfl, hk⟩ := (checkN_ok_iff n k).mp hn
      rw [hn] at h
      rcases PyVal.expr_or_notExpr inner with ⟨u, rfl⟩ | hv
      · simp only [asExprArg_expr, bind, Except.bind, pure, Except.pure] at h
        injection h with h
        exact ⟨u, k, rfl, rfl, hk, h.symm⟩
      · simp only [asExprArg_notExpr hv, bind, Except.bind] at h
        cases h
  · rintro ⟨u, k, rfl, rfl, hk, rfl⟩
    simp [mkNthPowerChecked, checkN_natCast hk, asExprArg_expr, bind, Except.bind, pure,
      Except.pure]

theorem mkNthRootChecked_ok_iff (inner n : PyVal ℝ) (e : Expr ℝ) :
    mkNthRootChecked realNum inner n = .ok e ↔
      ∃ (u : Expr ℝ) (k : ℕ), inner = .expr u ∧ n = .num (k : ℝ) ∧ 1 ≤ k ∧ e = mkNRoot u k := by
  constructor
  · intro h
    unfold mkNthRootChecked at h
    cases hn : checkN realNum n with
    | error x => rw [hn] at h; cases h
    | ok k =>
      obtain ⟨rfl, hk⟩ := (checkN_ok_iff n k).mp hn
      rw [hn] at h
      rcases PyVal.expr_or_notExpr inner with ⟨u, rfl⟩ | hv
      · simp only [asExprArg_expr, bind, Except.bind, pure, Except.pure] at h
        injection h with h
        exact ⟨u, k, rfl, rfl, hk, h.symm⟩
      · simp only [asExprArg_notExpr hv, bind, Except.bind] at h
        cases h
  · rintro ⟨u, k, rfl, rfl, hk, rfl⟩
    simp [mkNthRootChecked, checkN_natCast hk, asExprArg_expr, bind, Except.bind, pure,
      Except.pure]

/-- a bad `n` is a `DomainError`, whatever the operand is (the `n` check comes first) -/
theorem mkNthPowerChecked_badN (inner : PyVal ℝ) {n : PyVal ℝ} (h : ¬ GoodN n) :
    mkNthPowerChecked realNum inner n = .error .domain := by
  simp [mkNthPowerChecked, checkN_reject h, bind, Except.bind]

theorem mkNthRootChecked_badN (inner : PyVal ℝ) {n : PyVal ℝ} (h : ¬ GoodN n) :
    mkNthRootChecked realNum inner n = .error .domain := by
  simp [mkNthRootChecked, checkN_reject h, bind, Except.bind]

/-- a good `n` with a non-expression operand is the generic `Exception` -/
theorem mkNthPowerChecked_notExpr {inner n : PyVal ℝ} (hn : GoodN n) (hv : inner.NotExpr) :
    mkNthPowerChecked realNum inner n = .error .usage := by
  obtain ⟨k, hk, rfl⟩ := hn
  simp [mkNthPowerChecked, checkN_natCast hk, asExprArg_notExpr hv, bind, Except.bind]

theorem mkNthRootChecked_notExpr {inner n : PyVal ℝ} (hn : GoodN n) (hv : inner.NotExpr) :
    mkNthRootChecked realNum inner n = .error .usage := by
  obtain ⟨k, hk, rfl⟩ := hn
  simp [mkNthRootChecked, checkN_natCast hk, asExprArg_notExpr hv, bind, Except.bind]

/-! ### `Exponential`, `Logarithm` -/

theorem realNum_nonpos_test (b : ℝ) : (realNum.isZero b || realNum.isNeg b) = decide (b ≤ 0) := by
  simp only [realNum_isZero, realNum_isNeg]
  by_cases h : b ≤ 0
  · rcases lt_or_eq_of_le h with h1 | h1
    · simp [h, h1]
    · simp [h1]
  · have h1 : b ≠ 0 := fun h' => h (le_of_eq h')
    have h2 : ¬ b < 0 := fun h' => h (le_of_lt h')
    simp [h, h1, h2]

theorem mkExponentialChecked_ok_iff (inner : PyVal ℝ) (b : ℝ) (e : Expr ℝ) :
    mkExponentialChecked realNum inner b = .ok e ↔
      ∃ u : Expr ℝ, inner = .expr u ∧ 0 < b ∧ e = mkExp u b := by
  unfold mkExponentialChecked
  rw [realNum_nonpos_test]
  rcases PyVal.expr_or_notExpr inner with ⟨u, rfl⟩ | hv
  · by_cases hb : b ≤ 0
    · have hb' : ¬ 0 < b := not_lt.mpr hb
      simp [asExprArg_expr, hb, hb', bind, Except.bind, throw, throwThe, MonadExceptOf.throw]
    · have hb' : 0 < b := not_le.mp hb
      simp [asExprArg_expr, hb, hb', bind, Except.bind, pure, Except.pure, eq_comm]
  · simp only [asExprArg_notExpr hv, bind, Except.bind]
    constructor
    · intro h; cases h
    · rintro ⟨u, rfl, _⟩; exact absurd rfl (hv u)

theorem mkExponentialChecked_notExpr {inner : PyVal ℝ} (b : ℝ) (hv : inner.NotExpr) :
    mkExponentialChecked realNum inner b = .error .usage := by
  simp [mkExponentialChecked, asExprArg_notExpr hv, bind, Except.bind]

theorem mkExponentialChecked_badBase (u : Expr ℝ) {b : ℝ} (hb : b ≤ 0) :
    mkExponentialChecked realNum (.expr u) b = .error .domain := by
  unfold mkExponentialChecked
  rw [realNum_nonpos_test]
  simp [asExprArg_expr, hb, bind, Except.bind, throw, throwThe, MonadExceptOf.throw]

theorem mkLogarithmChecked_ok_iff (inner : PyVal ℝ) (b : ℝ) (e : Expr ℝ) :
    mkLogarithmChecked realNum inner b = .ok e ↔
      ∃ u : Expr ℝ, inner = .expr u ∧ 0 < b ∧ b ≠ 1 ∧ e = mkLog u b := by
  unfold mkLogarithmChecked
  rw [realNum_nonpos_test]
  rcases PyVal.expr_or_notExpr inner with ⟨u, rfl⟩ | hv
  · by_cases hb : b ≤ 0
    · have hb' : ¬ 0 < b := not_lt.mpr hb
      simp [asExprArg_expr, hb, hb', bind, Except.bind, throw, throwThe, MonadExceptOf.throw]
    · have hb' : 0 < b := not_le.mp hb
      by_cases h1 : b = 1
      · simp [asExprArg_expr, h1, bind, Except.bind, throw, throwThe, MonadExceptOf.throw]
      · simp [asExprArg_expr, hb, hb', h1, bind, Except.bind, pure, Except.pure, eq_comm]
  · simp only [asExprArg_notExpr hv, bind, Except.bind]
    constructor
    · intro h; cases h
    · rintro ⟨u, rfl, _⟩; exact absurd rfl (hv u)

theorem mkLogarithmChecked_notExpr {inner : PyVal ℝ} (b : ℝ) (hv : inner.NotExpr) :
    mkLogarithmChecked realNum inner b = .error .usage := by
  simp [mkLogarithmChecked, asExprArg_notExpr hv, bind, Except.bind]

theorem mkLogarithmChecked_badBase (u : Expr ℝ) {b : ℝ} (hb : b ≤ 0 ∨ b = 1) :
    mkLogarithmChecked realNum (.expr u) b = .error .domain := by
  unfold mkLogarithmChecked
  rw [realNum_nonpos_test]
  by_cases h0 : b ≤ 0
  · simp [asExprArg_expr, h0, bind, Except.bind, throw, throwThe, MonadExceptOf.throw]
  · have h1 : b = 1 := hb.resolve_left h0
    simp [asExprArg_expr, h1, bind, Except.bind, throw, throwThe, MonadExceptOf.throw]

/-! ### `a ** exponent` with a numeric exponent -/

theorem opPow_natCast (a : Expr ℝ) {k : ℕ} (hk : 1 ≤ k) :
    opPow realNum a (.num (k : ℝ)) = .ok (mkNPow a k) := by
  have h0 : k ≠ 0 := by omega
  simp [opPow, realNum_toInt_natCast, h0, pure, Except.pure]

/-- an integral exponent `≤ 0` is a `DomainError` (raised by `NthPower`) -/
theorem opPow_nonpos_int (a : Expr ℝ) {j : ℤ} (hj : j ≤ 0) :
    opPow realNum a (.num (j : ℝ)) = .error .domain := by
  simp [opPow, realNum_toInt_intCast, hj, throw, throwThe, MonadExceptOf.throw]

/-- a non-integral numeric exponent is the generic `Exception` -/
theorem opPow_non_integral (a : Expr ℝ) {x : ℝ} (hx : ¬ ∃ j : ℤ, (j : ℝ) = x) :
    opPow realNum a (.num x) = .error .usage := by
  simp [opPow, realNum_toInt_eq_none_iff.mpr hx, throw, throwThe, MonadExceptOf.throw]

theorem opPow_num_ok_iff (a : Expr ℝ) (v : ℝ) (e : Expr ℝ) :
    opPow realNum a (.num v) = .ok e ↔ ∃ k : ℕ, 1 ≤ k ∧ v = (k : ℝ) ∧ e = mkNPow a k := by
  constructor
  · intro h
    rcases realNum_toInt_cases v with ⟨k, hk, rfl, _⟩ | ⟨j, hj, rfl, _⟩ | ⟨hx, _⟩
    · rw [opPow_natCast a hk] at h
      injection h with h
      exact ⟨k, hk, rfl, h.symm⟩
    · rw [opPow_nonpos_int a hj] at h; cases h
    · rw [opPow_non_integral a hx] at h; cases h
  · rintro ⟨k, hk, rfl, rfl⟩; exact opPow_natCast a hk

theorem opPow_num_reject (a : Expr ℝ) {v : ℝ} (hv : ¬ IsPosInt v) (e : Expr ℝ) :
    opPow realNum a (.num v) ≠ .ok e := by
  intro h
  obtain ⟨k, hk, rfl, _⟩ := (opPow_num_ok_iff a v e).mp h
  exact hv ⟨k, hk, rfl⟩

/-! ### well-formedness of everything the constructors accept -/

theorem WFList_iff_forall {es : List (Expr ℝ)} : WFList es ↔ ∀ e ∈ es, WF e := by
  induction es with
  | nil => simp [WFList]
  | cons e es ih => simp [WFList, ih]

/-- every leaf is well formed -/
theorem mkConst_WF (v : ℝ) : WF (mkConst v) := by simp [WF]

theorem mkVariableChecked_WF (isWord : Char → Bool) (name : String) (e : Expr ℝ)
    (h : mkVariableChecked isWord name = .ok e) : WF e := by
  obtain ⟨_, _, rfl⟩ := (mkVariableChecked_ok_iff isWord name e).mp h
  simp [WF]

/-- the variable node additionally satisfies the model's own node check -/
theorem mkVariableChecked_wfNode (N : Num ℝ) (isWord : Char → Bool) (name : String) (e : Expr ℝ)
    (h : mkVariableChecked isWord name = .ok e) : wfNode N isWord e = true := by
  obtain ⟨h1, h2, rfl⟩ := (mkVariableChecked_ok_iff isWord name e).mp h
  have h1' : name.isEmpty = false := by simpa [String.isEmpty_iff] using h1
  simp [wfNode, h1', h2]

/-- operands that are expressions are well formed -/
def PyVal.WFArg : PyVal ℝ → Prop
  | .expr e => WF e
  | _ => True

theorem mkNthPowerChecked_WF (inner n : PyVal ℝ) (e : Expr ℝ) (hw : inner.WFArg)
    (h : mkNthPowerChecked realNum inner n = .ok e) : WF e := by
  obtain ⟨u, k, rfl, rfl, hk, rfl⟩ := (mkNthPowerChecked_ok_iff inner n e).mp h
  exact ⟨hk, hw⟩

theorem mkNthRootChecked_WF (inner n : PyVal ℝ) (e : Expr ℝ) (hw : inner.WFArg)
    (h : mkNthRootChecked realNum inner n = .ok e) : WF e := by
  obtain ⟨u, k, rfl, rfl, hk, rfl⟩ := (mkNthRootChecked_ok_iff inner n e).mp h
  exact ⟨hk, hw⟩

theorem mkExponentialChecked_WF (inner : PyVal ℝ) (b : ℝ) (e : Expr ℝ) (hw : inner.WFArg)
    (h : mkExponentialChecked realNum inner b = .ok e) : WF e := by
  obtain ⟨u, rfl, hb, rfl⟩ := (mkExponentialChecked_ok_iff inner b e).mp h
  exact ⟨hb, hw⟩

theorem mkLogarithmChecked_WF (inner : PyVal ℝ) (b : ℝ) (e : Expr ℝ) (hw : inner.WFArg)
    (h : mkLogarithmChecked realNum inner b = .ok e) : WF e := by
  obtain ⟨u, rfl, hb, hb1, rfl⟩ := (mkLogarithmChecked_ok_iff inner b e).mp h
  exact ⟨hb, hb1, hw⟩

/-- the unary classes without a parameter -/
inductive UnaryClass | neg | recip | cos | sin

def UnaryClass.mk : UnaryClass → Expr ℝ → Expr ℝ
  | .neg => mkNeg | .recip => mkRecip | .cos => mkCos | .sin => mkSin

/-- the binary classes -/
inductive BinaryClass | minus | div | pow

def BinaryClass.mk : BinaryClass → Expr ℝ → Expr ℝ → Expr ℝ
  | .minus => mkMinus | .div => mkDiv | .pow => mkPow

/-- the n-ary classes -/
inductive NaryClass | add | mul

def NaryClass.mk : NaryClass → List (Expr ℝ) → Expr ℝ
  | .add => mkAdd | .mul => mkMul

theorem mkUnaryChecked_WF (c : UnaryClass) (inner : PyVal ℝ) (e : Expr ℝ) (hw : inner.WFArg)
    (h : mkUnaryChecked c.mk inner = .ok e) : WF e := by
  obtain ⟨u, rfl, rfl⟩ := (mkUnaryChecked_ok_iff c.mk inner e).mp h
  cases c <;> exact hw

theorem mkBinaryChecked_WF (c : BinaryClass) (l r : PyVal ℝ) (e : Expr ℝ) (hl : l.WFArg)
    (hr : r.WFArg) (h : mkBinaryChecked c.mk l r = .ok e) : WF e := by
  obtain ⟨a, b, rfl, rfl, rfl⟩ := (mkBinaryChecked_ok_iff c.mk l r e).mp h
  cases c <;> exact ⟨hl, hr⟩

theorem mkNaryChecked_WF (c : NaryClass) (vs : List (PyVal ℝ)) (e : Expr ℝ)
    (hw : ∀ v ∈ vs, PyVal.WFArg v) (h : mkNaryChecked c.mk vs = .ok e) : WF e := by
  obtain ⟨us, rfl, rfl⟩ := (mkNaryChecked_ok_iff c.mk vs e).mp h
  have : WFList us := WFList_iff_forall.mpr fun u hu => hw (.expr u) (List.mem_map.mpr ⟨u, hu, rfl⟩)
  cases c <;> exact this

/-- the operators keep well-formedness -/
theorem opNeg_WF {a : Expr ℝ} (ha : WF a) : WF (opNeg a) := ha

theorem opBinary_WF {a : Expr ℝ} {v : PyVal ℝ} {e : Expr ℝ} (ha : WF a) (hv : v.WFArg)
    (h : opAdd a v = .ok e ∨ opSub a v = .ok e ∨ opMul a v = .ok e ∨ opDiv a v = .ok e) :
    WF e := by
  rcases h with h | h | h | h
  · obtain ⟨a', b, h1, rfl, rfl⟩ := (mkBinaryChecked_ok_iff _ _ _ e).mp h
    injection h1 with h1; subst h1
    exact ⟨ha, hv, trivial⟩
  · obtain ⟨a', b, h1, rfl, rfl⟩ := (mkBinaryChecked_ok_iff _ _ _ e).mp h
    injection h1 with h1; subst h1
    exact ⟨ha, hv⟩
  · obtain ⟨a', b, h1, rfl, rfl⟩ := (mkBinaryChecked_ok_iff _ _ _ e).mp h
    injection h1 with h1; subst h1
    exact ⟨ha, hv, trivial⟩
  · obtain ⟨a', b, h1, rfl, rfl⟩ := (mkBinaryChecked_ok_iff _ _ _ e).mp h
    injection h1 with h1; subst h1
    exact ⟨ha, hv⟩

theorem opPow_WF {a : Expr ℝ} {v : PyVal ℝ} {e : Expr ℝ} (ha : WF a) (hv : v.WFArg)
    (h : opPow realNum a v = .ok e) : WF e := by
  cases v with
  | expr b =>
    rw [opPow_expr] at h; injection h with h; subst h; exact ⟨ha, hv⟩
  | num x =>
    obtain ⟨k, hk, rfl, rfl⟩ := (opPow_num_ok_iff a x e).mp h
    exact ⟨hk, ha⟩
  | str s => cases h
  | other => cases h

/-! ### everything that can be built -/

theorem PyVal.WFArg_of {v : PyVal ℝ} (h : ∀ u, v = .expr u → WF u) : v.WFArg := by
  cases v with
  | expr e => exact h e rfl
  | num x => trivial
  | str s => trivial
  | other => trivial

/-- The expressions that can be built through the public surface: the (checked) constructors of the
fifteen classes and the operator dunders, applied to arbitrary Python values whose expression operands
were themselves built that way. -/
inductive Constructible (isWord : Char → Bool) : Expr ℝ → Prop
  | const (v : ℝ) : Constructible isWord (mkConst v)
  | var {name : String} {e : Expr ℝ} (h : mkVariableChecked isWord name = .ok e) :
      Constructible isWord e
  | unary (c : UnaryClass) {inner : PyVal ℝ} {e : Expr ℝ}
      (hi : ∀ u, inner = .expr u → Constructible isWord u)
      (h : mkUnaryChecked c.mk inner = .ok e) : Constructible isWord e
  | binary (c : BinaryClass) {l r : PyVal ℝ} {e : Expr ℝ}
      (hl : ∀ u, l = .expr u → Constructible isWord u)
      (hr : ∀ u, r = .expr u → Constructible isWord u)
      (h : mkBinaryChecked c.mk l r = .ok e) : Constructible isWord e
  | nary (c : NaryClass) {vs : List (PyVal ℝ)} {e : Expr ℝ}
      (hv : ∀ u, PyVal.expr u ∈ vs → Constructible isWord u)
      (h : mkNaryChecked c.mk vs = .ok e) : Constructible isWord e
  | nthPower {inner n : PyVal ℝ} {e : Expr ℝ}
      (hi : ∀ u, inner = .expr u → Constructible isWord u)
      (h : mkNthPowerChecked realNum inner n = .ok e) : Constructible isWord e
  | nthRoot {inner n : PyVal ℝ} {e : Expr ℝ}
      (hi : ∀ u, inner = .expr u → Constructible isWord u)
      (h : mkNthRootChecked realNum inner n = .ok e) : Constructible isWord e
  | exponential {inner : PyVal ℝ} {b : ℝ} {e : Expr ℝ}
      (hi : ∀ u, inner = .expr u → Constructible isWord u)
      (h : mkExponentialChecked realNum inner b = .ok e) : Constructible isWord e
  | logarithm {inner : PyVal ℝ} {b : ℝ} {e : Expr ℝ}
      (hi : ∀ u, inner = .expr u → Constructible isWord u)
      (h : mkLogarithmChecked realNum inner b = .ok e) : Constructible isWord e
  | opNeg {a : Expr ℝ} (ha : Constructible isWord a) : Constructible isWord (opNeg a)
  | opAdd {a : Expr ℝ} {v : PyVal ℝ} {e : Expr ℝ} (ha : Constructible isWord a)
      (hv : ∀ u, v = .expr u → Constructible isWord u) (h : opAdd a v = .ok e) :
      Constructible isWord e
  | opSub {a : Expr ℝ} {v : PyVal ℝ} {e : Expr ℝ} (ha : Constructible isWord a)
      (hv : ∀ u, v = .expr u → Constructible isWord u) (h : opSub a v = .ok e) :
      Constructible isWord e
  | opMul {a : Expr ℝ} {v : PyVal ℝ} {e : Expr ℝ} (ha : Constructible isWord a)
      (hv : ∀ u, v = .expr u → Constructible isWord u) (h : opMul a v = .ok e) :
      Constructible isWord e
  | opDiv {a : Expr ℝ} {v : PyVal ℝ} {e : Expr ℝ} (ha : Constructible isWord a)
      (hv : ∀ u, v = .expr u → Constructible isWord u) (h : opDiv a v = .ok e) :
      Constructible isWord e
  | opPow {a : Expr ℝ} {v : PyVal ℝ} {e : Expr ℝ} (ha : Constructible isWord a)
      (hv : ∀ u, v = .expr u → Constructible isWord u) (h : opPow realNum a v = .ok e) :
      Constructible isWord e

/-- every expression that can be built is well formed -/
theorem Constructible.wf {isWord : Char → Bool} {e : Expr ℝ} (h : Constructible isWord e) :
    WF e := by
  induction h with
  | const v => exact mkConst_WF v
  | var h => exact mkVariableChecked_WF _ _ _ h
  | unary c _ h ih => exact mkUnaryChecked_WF c _ _ (PyVal.WFArg_of ih) h
  | binary c _ _ h ihl ihr =>
    exact mkBinaryChecked_WF c _ _ _ (PyVal.WFArg_of ihl) (PyVal.WFArg_of ihr) h
  | nary c _ h ih =>
    refine mkNaryChecked_WF c _ _ (fun v hv => PyVal.WFArg_of ?_) h
    rintro u rfl; exact ih u hv
  | nthPower _ h ih => exact mkNthPowerChecked_WF _ _ _ (PyVal.WFArg_of ih) h
  | nthRoot _ h ih => exact mkNthRootChecked_WF _ _ _ (PyVal.WFArg_of ih) h
  | exponential _ h ih => exact mkExponentialChecked_WF _ _ _ (PyVal.WFArg_of ih) h
  | logarithm _ h ih => exact mkLogarithmChecked_WF _ _ _ (PyVal.WFArg_of ih) h
  | opNeg _ ih => exact opNeg_WF ih
  | opAdd _ _ h iha ihv => exact opBinary_WF iha (PyVal.WFArg_of ihv) (Or.inl h)
  | opSub _ _ h iha ihv => exact opBinary_WF iha (PyVal.WFArg_of ihv) (Or.inr (Or.inl h))
  | opMul _ _ h iha ihv => exact opBinary_WF iha (PyVal.WFArg_of ihv) (Or.inr (Or.inr (Or.inl h)))
  | opDiv _ _ h iha ihv => exact opBinary_WF iha (PyVal.WFArg_of ihv) (Or.inr (Or.inr (Or.inr h)))
  | opPow _ _ h iha ihv => exact opPow_WF iha (PyVal.WFArg_of ihv) h

/-- the model's executable per-node check agrees with `WF` on the parameters -/
theorem wfNode_of_WF (isWord : Char → Bool) {e : Expr ℝ} (h : WF e)
    (hvar : ∀ f x, e = .var f x → x ≠ "" ∧ x.toList.all isWord = true) :
    wfNode realNum isWord e = true := by
  cases e with
  | var f x =>
    obtain ⟨h1, h2⟩ := hvar f x rfl
    have h1' : x.isEmpty = false := by simpa [String.isEmpty_iff] using h1
    simp [wfNode, h1', h2]
  | npow f u n => simpa [wfNode] using h.1
  | nroot f u n => simpa [wfNode] using h.1
  | exp f u b => simpa [wfNode] using h.1
  | log f u b => simpa [wfNode] using And.intro h.1 h.2.1
  | _ => rfl

end Smooth
