/-
Proofs/WFDriver — well-formedness (`WF`: n ≥ 1, bases > 0, logarithm base ≠ 1) is preserved by
simplification UNCONDITIONALLY: by every one of the 46 rewrite rules (the K1 rule
`NthRoot(NthPower(u, m), n) ⇒ NthPower(NthRoot(u, n), m)` included: it changes the meaning, not the
well-formedness), by constant folding, by one step of `_take_reduction_step`, by the `_fully_reduce`
loop for every budget (exhaustion included), by the normal-form pass and `_normalize` for every budget
and fuel; hence by `_retrieve_synthetic_partial`, by the table of the early `Differential`
(`normalizeAll` of `syntheticPartials`) and by the six expression routes.

Same architecture as Proofs/NoEvenRoot + Proofs/NoEvenRootDriver (a syntactic invariant carried
through the rules and the driver), for the predicate `WF`, over `realNum`.  No K1-free hypothesis
anywhere.
-/
import Smooth.Proofs.NoEvenRootDriver
import Smooth.Proofs.SymForward
import Smooth.Proofs.WFSym
import Smooth.Proofs.Routes

namespace Smooth
open Classical Expr

/-! ### node by node -/

section Nodes
variable (f : Flags) (u l r : Expr ℝ) (as : List (Expr ℝ)) (n : Nat) (b v : ℝ) (x : String)

theorem wfd_const : WF (.const f v) := by simp [WF]
theorem wfd_var : WF (.var f x : Expr ℝ) := by simp [WF]
theorem wfd_add : WF (.add f as) ↔ ∀ a ∈ as, WF a := by rw [WF, wfList_iff]
theorem wfd_mul : WF (.mul f as) ↔ ∀ a ∈ as, WF a := by rw [WF, wfList_iff]
theorem wfd_minus : WF (.minus f l r) ↔ WF l ∧ WF r := by rw [WF]
theorem wfd_div : WF (.div f l r) ↔ WF l ∧ WF r := by rw [WF]
theorem wfd_pow : WF (.pow f l r) ↔ WF l ∧ WF r := by rw [WF]
theorem wfd_neg : WF (.neg f u) ↔ WF u := by rw [WF]
theorem wfd_recip : WF (.recip f u) ↔ WF u := by rw [WF]
theorem wfd_cos : WF (.cos f u) ↔ WF u := by rw [WF]
theorem wfd_sin : WF (.sin f u) ↔ WF u := by rw [WF]
theorem wfd_npow : WF (.npow f u n) ↔ 1 ≤ n ∧ WF u := by rw [WF]
theorem wfd_nroot : WF (.nroot f u n) ↔ 1 ≤ n ∧ WF u := by rw [WF]
theorem wfd_exp : WF (.exp f u b) ↔ 0 < b ∧ WF u := by rw [WF]
theorem wfd_log : WF (.log f u b) ↔ 0 < b ∧ b ≠ 1 ∧ WF u := by rw [WF]

end Nodes

attribute [local simp] wfd_const wfd_var wfd_add wfd_mul wfd_minus wfd_div wfd_pow wfd_neg wfd_recip
  wfd_cos wfd_sin wfd_npow wfd_nroot wfd_exp wfd_log

section Inv
variable {f : Flags} {u l r : Expr ℝ} {as : List (Expr ℝ)} {n : Nat} {b : ℝ}

theorem wfd_add_inv (h : WF (.add f as)) : ∀ a ∈ as, WF a := (wfd_add ..).mp h
theorem wfd_mul_inv (h : WF (.mul f as)) : ∀ a ∈ as, WF a := (wfd_mul ..).mp h
theorem wfd_minus_inv (h : WF (.minus f l r)) : WF l ∧ WF r := (wfd_minus ..).mp h
theorem wfd_div_inv (h : WF (.div f l r)) : WF l ∧ WF r := (wfd_div ..).mp h
theorem wfd_pow_inv (h : WF (.pow f l r)) : WF l ∧ WF r := (wfd_pow ..).mp h
theorem wfd_neg_inv (h : WF (.neg f u)) : WF u := (wfd_neg ..).mp h
theorem wfd_recip_inv (h : WF (.recip f u)) : WF u := (wfd_recip ..).mp h
theorem wfd_cos_inv (h : WF (.cos f u)) : WF u := (wfd_cos ..).mp h
theorem wfd_sin_inv (h : WF (.sin f u)) : WF u := (wfd_sin ..).mp h
theorem wfd_npow_inv (h : WF (.npow f u n)) : 1 ≤ n ∧ WF u := (wfd_npow ..).mp h
theorem wfd_nroot_inv (h : WF (.nroot f u n)) : 1 ≤ n ∧ WF u := (wfd_nroot ..).mp h
theorem wfd_exp_inv (h : WF (.exp f u b)) : 0 < b ∧ WF u := (wfd_exp ..).mp h
theorem wfd_log_inv (h : WF (.log f u b)) : 0 < b ∧ b ≠ 1 ∧ WF u := (wfd_log ..).mp h

end Inv

/-! ### every rule keeps well-formedness -/

/-- the rule of K1, `NthRoot(NthPower(u, m), n) ⇒ NthPower(NthRoot(u, n), m)`: the two degrees are
only exchanged, so the result is well formed although it may mean something else -/
theorem wfd_ruleNRootPow {e e' : Expr ℝ} (h : ruleNRootPow e = some e') (hs : WF e) : WF e' := by
  unfold ruleNRootPow at h
  split at h
  · obtain rfl := Option.some.inj h
    have h1 := wfd_nroot_inv hs
    have h2 := wfd_npow_inv h1.2
    exact (wfd_npow ..).mpr ⟨h2.1, (wfd_nroot ..).mpr ⟨h1.1, h2.2⟩⟩
  · cases h

/-- **every one of the 46 rewrite rules maps a well-formed expression to a well-formed expression**
— no side condition: the 45 rules other than `nrootPow` are sound outright (`symfwd_rulesSound_K1`,
whose side condition `K1FreeAt` is `True` for them), and `nrootPow` is `wfd_ruleNRootPow` -/
theorem wfd_rule (r : RuleId) {e e' : Expr ℝ} (h : r.apply realNum e = some e') (hs : WF e) :
    WF e' := by
  by_cases hr : r = .nrootPow
  · subst hr
    exact wfd_ruleNRootPow (by simpa only [RuleId.apply] using h) hs
  · have hk : K1FreeAt r e := by
      cases r <;> first | exact trivial | exact absurd rfl hr
    exact (symfwd_rulesSound_K1 r e e' h hk).wf hs

/-- constant folding produces a `Constant`, which is well formed -/
theorem wfd_fold (v : ℝ) : WF (mkConst v : Expr ℝ) := wfd_const _ _

/-! ### one step -/

theorem wfd_stepTop {e : Expr ℝ} (hs : WF e) : WF (stepTop realNum e).1 := by
  unfold stepTop
  split
  · rename_i r e' hr
    exact wfd_rule r (firstRule_some_m realNum e _ r e' hr) hs
  · simpa using hs

/-- the shared body of a step: unchanged / folded to a constant (no root at all) / a child stepped /
a rule or a flag at the node -/
theorem wfd_stepNode {self : Expr ℝ} (sc : Unit → Option (Expr ℝ × StepEvent))
    (hs : WF self) (hchild : ∀ r, sc () = some r → WF r.1) :
    WF (stepNode realNum self sc).1 := by
  unfold stepNode
  split
  · exact hs
  · split
    · simp
    · cases hsc : sc () with
      | some r => exact hchild r hsc
      | none =>
        simp only
        split
        · exact wfd_stepTop ((wf_markFailed self).mpr hs)
        · exact wfd_stepTop hs

mutual
/-- **one step of `_take_reduction_step` keeps the expression well formed** -/
theorem wfd_stepF : ∀ e : Expr ℝ, WF e → WF (stepF realNum e).1
  | .const f v, _ => by rw [stepF]; simp
  | .var f x, _ => by rw [stepF]; simp
  | .add f as, hs => by
    rw [stepF]
    refine wfd_stepNode _ hs ?_
    intro q hq
    simp only [Option.map_eq_some_iff] at hq
    obtain ⟨p, hp, rfl⟩ := hq
    simpa using wfd_stepFirstUnreduced as p hp (wfd_add_inv hs)
  | .mul f as, hs => by
    rw [stepF]
    refine wfd_stepNode _ hs ?_
    intro q hq
    simp only [Option.map_eq_some_iff] at hq
    obtain ⟨p, hp, rfl⟩ := hq
    simpa using wfd_stepFirstUnreduced as p hp (wfd_mul_inv hs)
  | .minus f l r, hs => by
    rw [stepF]
    refine wfd_stepNode _ hs ?_
    intro q hq
    simp only at hq
    split at hq
    · obtain rfl := Option.some.inj hq
      simpa using ⟨wfd_stepF l (wfd_minus_inv hs).1, (wfd_minus_inv hs).2⟩
    · split at hq
      · obtain rfl := Option.some.inj hq
        simpa using ⟨(wfd_minus_inv hs).1, wfd_stepF r (wfd_minus_inv hs).2⟩
      · cases hq
  | .div f l r, hs => by
    rw [stepF]
    refine wfd_stepNode _ hs ?_
    intro q hq
    simp only at hq
    split at hq
    · obtain rfl := Option.some.inj hq
      simpa using ⟨wfd_stepF l (wfd_div_inv hs).1, (wfd_div_inv hs).2⟩
    · split at hq
      · obtain rfl := Option.some.inj hq
        simpa using ⟨(wfd_div_inv hs).1, wfd_stepF r (wfd_div_inv hs).2⟩
      · cases hq
  | .pow f l r, hs => by
    rw [stepF]
    refine wfd_stepNode _ hs ?_
    intro q hq
    simp only at hq
    split at hq
    · obtain rfl := Option.some.inj hq
      simpa using ⟨wfd_stepF l (wfd_pow_inv hs).1, (wfd_pow_inv hs).2⟩
    · split at hq
      · obtain rfl := Option.some.inj hq
        simpa using ⟨(wfd_pow_inv hs).1, wfd_stepF r (wfd_pow_inv hs).2⟩
      · cases hq
  | .neg f u, hs => by
    rw [stepF]
    refine wfd_stepNode _ hs ?_
    intro q hq
    simp only at hq
    split at hq
    · obtain rfl := Option.some.inj hq
      simpa using wfd_stepF u (wfd_neg_inv hs)
    · cases hq
  | .recip f u, hs => by
    rw [stepF]
    refine wfd_stepNode _ hs ?_
    intro q hq
    simp only at hq
    split at hq
    · obtain rfl := Option.some.inj hq
      simpa using wfd_stepF u (wfd_recip_inv hs)
    · cases hq
  | .npow f u n, hs => by
    rw [stepF]
    refine wfd_stepNode _ hs ?_
    intro q hq
    simp only at hq
    split at hq
    · obtain rfl := Option.some.inj hq
      exact (wfd_npow ..).mpr ⟨(wfd_npow_inv hs).1, wfd_stepF u (wfd_npow_inv hs).2⟩
    · cases hq
  | .nroot f u n, hs => by
    rw [stepF]
    refine wfd_stepNode _ hs ?_
    intro q hq
    simp only at hq
    split at hq
    · obtain rfl := Option.some.inj hq
      -- the rebuilt node keeps its degree `n`
      exact (wfd_nroot ..).mpr ⟨(wfd_nroot_inv hs).1, wfd_stepF u (wfd_nroot_inv hs).2⟩
    · cases hq
  | .exp f u b, hs => by
    rw [stepF]
    refine wfd_stepNode _ hs ?_
    intro q hq
    simp only at hq
    split at hq
    · obtain rfl := Option.some.inj hq
      exact (wfd_exp ..).mpr ⟨(wfd_exp_inv hs).1, wfd_stepF u (wfd_exp_inv hs).2⟩
    · cases hq
  | .log f u b, hs => by
    rw [stepF]
    refine wfd_stepNode _ hs ?_
    intro q hq
    simp only at hq
    split at hq
    · obtain rfl := Option.some.inj hq
      exact (wfd_log ..).mpr ⟨(wfd_log_inv hs).1, (wfd_log_inv hs).2.1, wfd_stepF u (wfd_log_inv hs).2.2⟩
    · cases hq
  | .cos f u, hs => by
    rw [stepF]
    refine wfd_stepNode _ hs ?_
    intro q hq
    simp only at hq
    split at hq
    · obtain rfl := Option.some.inj hq
      simpa using wfd_stepF u (wfd_cos_inv hs)
    · cases hq
  | .sin f u, hs => by
    rw [stepF]
    refine wfd_stepNode _ hs ?_
    intro q hq
    simp only at hq
    split at hq
    · obtain rfl := Option.some.inj hq
      simpa using wfd_stepF u (wfd_sin_inv hs)
    · cases hq
theorem wfd_stepFirstUnreduced :
    ∀ (as : List (Expr ℝ)) (p : List (Expr ℝ) × StepEvent), stepFirstUnreduced realNum as = some p →
      (∀ a ∈ as, WF a) → ∀ a ∈ p.1, WF a
  | [], p, h, _ => by simp [stepFirstUnreduced] at h
  | e :: es, p, h, hs => by
    rw [stepFirstUnreduced] at h
    split at h
    · obtain rfl := Option.some.inj h
      intro a ha
      rcases List.mem_cons.mp ha with rfl | ha
      · exact wfd_stepF e (hs e List.mem_cons_self)
      · exact hs a (List.mem_cons_of_mem _ ha)
    · simp only [Option.map_eq_some_iff] at h
      obtain ⟨q, hq, rfl⟩ := h
      intro a ha
      rcases List.mem_cons.mp ha with rfl | ha
      · exact hs _ List.mem_cons_self
      · exact wfd_stepFirstUnreduced es q hq
          (fun x hx => hs x (List.mem_cons_of_mem _ hx)) a ha
end

/-! ### the `_fully_reduce` loop -/

/-- **`_fully_reduce` keeps the expression well formed, for every budget** (also when the
budget runs out: only a flag is set then) -/
theorem wfd_fullyReduceLoop :
    ∀ (fuel : Nat) (e : Expr ℝ) (k : Nat) (tr : List StepEvent), WF e →
      WF (fullyReduceLoop realNum fuel e k tr).expr
  | 0, e, k, tr, hs => by simpa [fullyReduceLoop] using hs
  | fuel + 1, e, k, tr, hs => by
    unfold fullyReduceLoop
    split
    · exact hs
    · exact wfd_fullyReduceLoop fuel _ _ _ (wfd_stepF e hs)

theorem wfd_fullyReduceWith (bound : Nat) {e : Expr ℝ} (hs : WF e) :
    WF (fullyReduceWith realNum bound e).expr :=
  wfd_fullyReduceLoop bound e 0 [] hs

theorem wfd_fullyReduce {e : Expr ℝ} (hs : WF e) :
    WF (fullyReduce realNum e).expr :=
  wfd_fullyReduceWith REDUCTION_STEPS_BOUND hs

/-! ### the normal-form pass -/

theorem wfd_simplifiedAdd {ts : List (Expr ℝ)} (h : ∀ a ∈ ts, WF a) :
    WF (simplifiedAdd realNum ts) := by
  match ts, h with
  | [], _ => simp [simplifiedAdd]
  | [t], h => simpa [simplifiedAdd] using h
  | a :: b :: rest, h => simpa [simplifiedAdd] using h

theorem wfd_simplifiedMul {ts : List (Expr ℝ)} (h : ∀ a ∈ ts, WF a) :
    WF (simplifiedMul realNum ts) := by
  match ts, h with
  | [], _ => simp [simplifiedMul]
  | [t], h => simpa [simplifiedMul] using h
  | a :: b :: rest, h => simpa [simplifiedMul] using h

/-- the four-way output of `Add._normalize_fully_reduced` -/
theorem wfd_minusOut {t1 t2 : List (Expr ℝ)} (h1 : ∀ a ∈ t1, WF a)
    (h2 : ∀ a ∈ t2, WF a) :
    WF (if (decide (t1.length ≥ 1) && decide (t2.length ≥ 1)) = true then
        mkMinus (simplifiedAdd realNum t1) (simplifiedAdd realNum t2)
      else if t1.length ≥ 1 then simplifiedAdd realNum t1
      else if t2.length ≥ 1 then mkNeg (simplifiedAdd realNum t2)
      else mkConst realNum.zero) := by
  have a1 := wfd_simplifiedAdd h1
  have a2 := wfd_simplifiedAdd h2
  split
  · simp [a1, a2]
  · split
    · exact a1
    · split
      · simp [a2]
      · simp

/-- the four-way output of `Multiply._normalize_fully_reduced` -/
theorem wfd_divOut {t1 t2 : List (Expr ℝ)} (h1 : ∀ a ∈ t1, WF a)
    (h2 : ∀ a ∈ t2, WF a) :
    WF (if (decide (t1.length ≥ 1) && decide (t2.length ≥ 1)) = true then
        mkDiv (simplifiedMul realNum t1) (simplifiedMul realNum t2)
      else if t1.length ≥ 1 then simplifiedMul realNum t1
      else if t2.length ≥ 1 then mkRecip (simplifiedMul realNum t2)
      else mkConst realNum.one) := by
  have a1 := wfd_simplifiedMul h1
  have a2 := wfd_simplifiedMul h2
  split
  · simp [a1, a2]
  · split
    · exact a1
    · split
      · simp [a2]
      · simp

theorem wfd_mem_filterMap_asNeg {as : List (Expr ℝ)} (has : ∀ a ∈ as, WF a) :
    ∀ u ∈ as.filterMap asNeg, WF u := by
  intro u hu
  obtain ⟨a, ha, hau⟩ := List.mem_filterMap.mp hu
  cases a <;> simp [asNeg] at hau
  subst hau; exact wfd_neg_inv (has _ ha)

theorem wfd_mem_filterMap_asRecip {as : List (Expr ℝ)} (has : ∀ a ∈ as, WF a) :
    ∀ u ∈ as.filterMap asRecip, WF u := by
  intro u hu
  obtain ⟨a, ha, hau⟩ := List.mem_filterMap.mp hu
  cases a <;> simp [asRecip] at hau
  subst hau; exact wfd_recip_inv (has _ ha)

theorem wfd_mapM? {f : Expr ℝ → Option (Expr ℝ × Bool)} :
    ∀ {bs : List (Expr ℝ)} {cs : List (Expr ℝ × Bool)},
      (∀ b ∈ bs, ∀ c, f b = some c → WF c.1) → mapM? f bs = some cs →
      ∀ a ∈ cs.map (·.1), WF a
  | [], cs, _, h => by
    simp only [mapM?, Option.some.injEq] at h
    subst h; simp
  | b :: bs, cs, hf, h => by
    simp only [mapM?] at h
    split at h
    · next c cs' hc hcs =>
      simp only [Option.some.injEq] at h
      subst h
      intro a ha
      simp only [List.map_cons, List.mem_cons] at ha
      rcases ha with rfl | ha
      · exact hf b List.mem_cons_self c hc
      · exact wfd_mapM? (fun b' hb' => hf b' (List.mem_cons_of_mem _ hb')) hcs a ha
    · cases h

theorem wfd_map_unary {sub : Option (Expr ℝ × Bool)} {mk : Expr ℝ → Expr ℝ} {e' : Expr ℝ}
    {w : Bool} (h : sub.map (fun x => (mk x.1, x.2)) = some (e', w))
    (ih : ∀ a w', sub = some (a, w') → WF a) (hc : ∀ a, WF a → WF (mk a)) :
    WF e' := by
  cases sub with
  | none => simp at h
  | some aw =>
    simp only [Option.map_some, Option.some.injEq, Prod.mk.injEq] at h
    rw [← h.1]
    exact hc _ (ih aw.1 aw.2 rfl)

theorem wfd_norm_aux (bound : Nat) : ∀ fuel : Nat,
    (∀ e e' w, WF e → normalizeF realNum bound fuel e = some (e', w) → WF e') ∧
    (∀ e e' w, WF e → normReducedF realNum bound fuel e = some (e', w) → WF e')
  | 0 => ⟨fun e e' w _ h => by simp [normalizeF] at h, fun e e' w _ h => by simp [normReducedF] at h⟩
  | fuel + 1 => by
    have ih := wfd_norm_aux bound fuel
    refine ⟨?_, ?_⟩
    · intro e e' w hs h
      simp only [normalizeF] at h
      split at h
      · next e'' w'' hn =>
        simp only [Option.some.injEq, Prod.mk.injEq] at h
        rw [← h.1]
        exact ih.2 _ _ _ (wfd_fullyReduceWith bound hs) hn
      · cases h
    · intro e e' w hs h
      cases e with
      | const f v =>
        simp only [normReducedF, Option.some.injEq, Prod.mk.injEq] at h
        rw [← h.1]; simp
      | var f x =>
        simp only [normReducedF, Option.some.injEq, Prod.mk.injEq] at h
        rw [← h.1]; simp
      | add f as =>
        simp only [normReducedF] at h
        split at h
        · next t1 t2 ht1 ht2 =>
          injection h with h
          injection h with h1 h2
          rw [← h1]
          have has := (wfd_add_inv hs)
          exact wfd_minusOut
            (wfd_mapM? (fun b hb c hc => ih.1 b c.1 c.2 (has b (List.mem_filter.mp hb).1) hc) ht1)
            (wfd_mapM? (fun b hb c hc =>
              ih.1 b c.1 c.2 (wfd_mem_filterMap_asNeg has b hb) hc) ht2)
        · cases h
      | mul f as =>
        simp only [normReducedF] at h
        split at h
        · next t1 t2 ht1 ht2 =>
          injection h with h
          injection h with h1 h2
          rw [← h1]
          have has := (wfd_mul_inv hs)
          exact wfd_divOut
            (wfd_mapM? (fun b hb c hc => ih.1 b c.1 c.2 (has b (List.mem_filter.mp hb).1) hc) ht1)
            (wfd_mapM? (fun b hb c hc =>
              ih.1 b c.1 c.2 (wfd_mem_filterMap_asRecip has b hb) hc) ht2)
        · cases h
      | minus f l r =>
        simp only [normReducedF] at h
        split at h
        · next a w1 b w2 ha hb =>
          simp only [Option.some.injEq, Prod.mk.injEq] at h
          rw [← h.1]
          exact (wfd_minus ..).mpr ⟨ih.2 _ _ _ (wfd_minus_inv hs).1 ha, ih.2 _ _ _ (wfd_minus_inv hs).2 hb⟩
        · cases h
      | div f l r =>
        simp only [normReducedF] at h
        split at h
        · next a w1 b w2 ha hb =>
          simp only [Option.some.injEq, Prod.mk.injEq] at h
          rw [← h.1]
          exact (wfd_div ..).mpr ⟨ih.2 _ _ _ (wfd_div_inv hs).1 ha, ih.2 _ _ _ (wfd_div_inv hs).2 hb⟩
        · cases h
      | pow f l r =>
        simp only [normReducedF] at h
        split at h
        · next a w1 b w2 ha hb =>
          simp only [Option.some.injEq, Prod.mk.injEq] at h
          rw [← h.1]
          exact (wfd_pow ..).mpr ⟨ih.2 _ _ _ (wfd_pow_inv hs).1 ha, ih.2 _ _ _ (wfd_pow_inv hs).2 hb⟩
        · cases h
      | neg f u =>
        simp only [normReducedF] at h
        exact wfd_map_unary (mk := mkNeg) h (fun a w' ha => ih.2 _ _ _ (wfd_neg_inv hs) ha)
          (fun a ha => (wfd_neg ..).mpr ha)
      | recip f u =>
        simp only [normReducedF] at h
        exact wfd_map_unary (mk := mkRecip) h (fun a w' ha => ih.2 _ _ _ (wfd_recip_inv hs) ha)
          (fun a ha => (wfd_recip ..).mpr ha)
      | npow f u n =>
        simp only [normReducedF] at h
        exact wfd_map_unary (mk := (mkNPow · n)) h (fun a w' ha => ih.2 _ _ _ (wfd_npow_inv hs).2 ha)
          (fun a ha => (wfd_npow ..).mpr ⟨(wfd_npow_inv hs).1, ha⟩)
      | nroot f u n =>
        simp only [normReducedF] at h
        exact wfd_map_unary (mk := (mkNRoot · n)) h (fun a w' ha => ih.2 _ _ _ (wfd_nroot_inv hs).2 ha)
          (fun a ha => (wfd_nroot ..).mpr ⟨(wfd_nroot_inv hs).1, ha⟩)
      | exp f u b =>
        simp only [normReducedF] at h
        exact wfd_map_unary (mk := (mkExp · b)) h (fun a w' ha => ih.2 _ _ _ (wfd_exp_inv hs).2 ha)
          (fun a ha => (wfd_exp ..).mpr ⟨(wfd_exp_inv hs).1, ha⟩)
      | log f u b =>
        simp only [normReducedF] at h
        exact wfd_map_unary (mk := (mkLog · b)) h (fun a w' ha => ih.2 _ _ _ (wfd_log_inv hs).2.2 ha)
          (fun a ha => (wfd_log ..).mpr ⟨(wfd_log_inv hs).1, (wfd_log_inv hs).2.1, ha⟩)
      | cos f u =>
        simp only [normReducedF] at h
        exact wfd_map_unary (mk := mkCos) h (fun a w' ha => ih.2 _ _ _ (wfd_cos_inv hs) ha)
          (fun a ha => (wfd_cos ..).mpr ha)
      | sin f u =>
        simp only [normReducedF] at h
        exact wfd_map_unary (mk := mkSin) h (fun a w' ha => ih.2 _ _ _ (wfd_sin_inv hs) ha)
          (fun a ha => (wfd_sin ..).mpr ha)

/-- **`_normalize` keeps the expression well formed** (every budget, every fuel) -/
theorem wfd_normalizeF (bound fuel : Nat) {e e' : Expr ℝ} {w : Bool}
    (hs : WF e) (h : normalizeF realNum bound fuel e = some (e', w)) : WF e' :=
  (wfd_norm_aux bound fuel).1 e e' w hs h

/-- **the normal-form pass keeps the expression well formed** -/
theorem wfd_normReducedF (bound fuel : Nat) {e e' : Expr ℝ} {w : Bool}
    (hs : WF e) (h : normReducedF realNum bound fuel e = some (e', w)) : WF e' :=
  (wfd_norm_aux bound fuel).2 e e' w hs h

theorem wfd_normalize {e e' : Expr ℝ} {w : Bool} (hs : WF e)
    (h : normalize realNum e = some (e', w)) : WF e' :=
  wfd_normalizeF _ _ hs h

/-! ### the object layer: everything the library hands out is well formed -/

/-- `_retrieve_synthetic_partial` (`Partial.as_expression()`, `compute_early=True`): the simplified
forward symbolic partial of a well-formed expression is well formed -/
theorem wfd_retrieve {e s : Expr ℝ} {x : String} {w : Bool}
    (h : retrieveSyntheticPartial realNum e x = .ok (s, w)) (hwf : WF e) : WF s :=
  wfd_normalize (WF_symFwd x e hwf) (symfwd_liftFuel_ok h)

/-- `normalizeAll` keeps a table of well-formed expressions well formed -/
theorem wfd_normalizeAll {acc d : SAcc ℝ} {w : Bool}
    (h : normalizeAll realNum acc = .ok (d, w)) (hacc : SAccWF acc) : SAccWF d := by
  intro b hb
  obtain ⟨a, ha, _, w', hn⟩ := routes_forall₂_mem_right (routes_normalizeAll_forall₂ realNum h) b hb
  exact wfd_normalize (hacc a ha) hn

/-- every entry of the table of `Differential(e, compute_early=True)` is well formed -/
theorem wfd_differential_table {e : Expr ℝ} {d : SAcc ℝ} {w : Bool}
    (h : normalizeAll realNum (syntheticPartials realNum e) = .ok (d, w)) (hwf : WF e) :
    ∀ b ∈ d, WF b.2 :=
  wfd_normalizeAll h (WF_syntheticPartials e hwf)

theorem wfd_bind_singleVar {e s : Expr ℝ} {w : Bool}
    (h : (do let x ← singleVarName e; retrieveSyntheticPartial realNum e x) = .ok (s, w))
    (hwf : WF e) : WF s := by
  cases hx : singleVarName e with
  | error err => simp [hx, bind, Except.bind] at h
  | ok x =>
    simp only [hx, bind, Except.bind] at h
    exact wfd_retrieve h hwf

theorem wfd_routeExprP {e s : Expr ℝ} {x : String} {w : Bool}
    (h : routeExprP realNum e x = .ok (s, w)) (hwf : WF e) : WF s := by
  rw [routeExprP_eq] at h; exact wfd_retrieve h hwf

theorem wfd_routeExprPE {e s : Expr ℝ} {x : String} {w : Bool}
    (h : routeExprPE realNum e x = .ok (s, w)) (hwf : WF e) : WF s := by
  rw [routeExprPE_eq] at h; exact wfd_retrieve h hwf

theorem wfd_routeExprD {e s : Expr ℝ} {w : Bool}
    (h : routeExprD realNum e = .ok (s, w)) (hwf : WF e) : WF s := by
  rw [routeExprD_eq] at h; exact wfd_bind_singleVar h hwf

theorem wfd_routeExprDE {e s : Expr ℝ} {w : Bool}
    (h : routeExprDE realNum e = .ok (s, w)) (hwf : WF e) : WF s := by
  rw [routeExprDE_eq] at h; exact wfd_bind_singleVar h hwf

theorem wfd_routeExprFL {e s : Expr ℝ} {x : String} {w : Bool}
    (h : routeExprFL realNum e x = .ok (s, w)) (hwf : WF e) : WF s := by
  rw [routeExprFL_eq] at h; exact wfd_retrieve h hwf

theorem wfd_routeExprFE {e s : Expr ℝ} {x : String} {w : Bool}
    (h : routeExprFE realNum e x = .ok (s, w)) (hwf : WF e) : WF s := by
  rw [routeExprFE_eq] at h
  cases hn : normalizeAll realNum (syntheticPartials realNum e) with
  | error err => simp [hn, bind, Except.bind] at h
  | ok dw =>
    obtain ⟨d, w0⟩ := dw
    simp only [hn, bind, Except.bind] at h
    cases hg : SAcc.get? d x with
    | none =>
      simp only [hg] at h
      cases hret : retrieveSyntheticPartial realNum e x with
      | error err => simp [hret] at h
      | ok sw =>
        obtain ⟨s', w'⟩ := sw
        simp only [hret, pure, Except.pure] at h
        injection h with h
        injection h with h _
        subst h
        exact wfd_retrieve hret hwf
    | some s' =>
      simp only [hg, pure, Except.pure] at h
      injection h with h
      injection h with h _
      subst h
      exact SAccWF_get? (wfd_differential_table hn hwf) hg

end Smooth
