/-
Proofs/NoEvenRootSym — symbolic differentiation keeps `NoEvenRoot` (Proofs/NoEvenRoot): the local
derivative formulas, `symFwd` (forward symbolic mode, `_synthetic_partial`), `symRev` with its
accumulator (reverse symbolic mode, `_compute_synthetic_partials`) and every entry of
`syntheticPartials` (`_synthetic_partials()`).  The only formula that creates an `NthRoot` node is the
one of `NthRoot` itself, which re-uses the node (same degree) inside an `NthPower`.
Generic in the number record `N`.
-/
import Smooth.Proofs.NoEvenRoot
import Smooth.Proofs.SymReverse

namespace Smooth
open Expr
variable {α : Type}

/-! ### the local derivative formulas -/

theorem ner_unarySymFormula (N : Num α) {e m : Expr α} (he : NoEvenRoot e) (hm : NoEvenRoot m) :
    NoEvenRoot (unarySymFormula N e m) := by
  cases e with
  | const f v => exact hm
  | var f x => exact hm
  | add f as => exact hm
  | minus f l r => exact hm
  | mul f as => exact hm
  | div f l r => exact hm
  | pow f l r => exact hm
  | neg f u => simpa [unarySymFormula] using hm
  | recip f u => simpa [unarySymFormula] using ⟨hm, he.recip_inv⟩
  | npow f u n =>
    simp only [unarySymFormula]
    split
    · exact hm
    · simpa using ⟨he.npow_inv, hm⟩
  | nroot f u n =>
    simp only [unarySymFormula]
    split
    · exact hm
    · -- `Divide(m, Multiply(Constant(n), NthPower(<the node itself>, n - 1)))`
      simpa using ⟨hm, he.nroot_odd, he.nroot_inv⟩
  | exp f u b =>
    simp only [unarySymFormula]
    split
    · simp
    · split
      · simpa using ⟨he.exp_inv, hm⟩
      · simpa using ⟨he.exp_inv, hm⟩
  | log f u b =>
    simp only [unarySymFormula]
    split
    · simpa using ⟨hm, he.log_inv⟩
    · simpa using ⟨hm, he.log_inv⟩
  | cos f u => simpa [unarySymFormula] using ⟨he.cos_inv, hm⟩
  | sin f u => simpa [unarySymFormula] using ⟨he.sin_inv, hm⟩

theorem ner_divSymLeft {l r m : Expr α} (hr : NoEvenRoot r) (hm : NoEvenRoot m) :
    NoEvenRoot (divSymLeft l r m) := by
  simpa [divSymLeft] using ⟨hm, hr⟩

theorem ner_divSymRight {l r m : Expr α} (hl : NoEvenRoot l) (hr : NoEvenRoot r)
    (hm : NoEvenRoot m) : NoEvenRoot (divSymRight l r m) := by
  simpa [divSymRight] using ⟨⟨hl, hr⟩, hm⟩

theorem ner_powSymLeft (N : Num α) {l r m : Expr α} (hl : NoEvenRoot l) (hr : NoEvenRoot r)
    (hm : NoEvenRoot m) : NoEvenRoot (powSymLeft N l r m) := by
  simpa [powSymLeft] using ⟨hr, ⟨hl, hr⟩, hm⟩

theorem ner_powSymRight (N : Num α) {self l m : Expr α} (hs : NoEvenRoot self) (hl : NoEvenRoot l)
    (hm : NoEvenRoot m) : NoEvenRoot (powSymRight N self l m) := by
  simpa [powSymRight] using ⟨hl, hs, hm⟩

theorem ner_eraseIdx {as : List (Expr α)} (h : ∀ a ∈ as, NoEvenRoot a) (i : Nat) :
    ∀ a ∈ as.eraseIdx i, NoEvenRoot a :=
  fun a ha => h a (List.mem_of_mem_eraseIdx ha)

theorem ner_symMulTermsGo {as : List (Expr α)} (has : ∀ a ∈ as, NoEvenRoot a) :
    ∀ (i : Nat) (ds : List (Expr α)), (∀ d ∈ ds, NoEvenRoot d) →
      ∀ t ∈ symMulTermsGo as i ds, NoEvenRoot t
  | _, [], _ => by simp [symMulTermsGo]
  | i, d :: ds, hds => by
    intro t ht
    simp only [symMulTermsGo, List.mem_cons] at ht
    rcases ht with rfl | ht
    · rw [ner_mul]
      intro a ha
      rcases List.mem_cons.mp ha with rfl | ha
      · exact hds _ List.mem_cons_self
      · exact ner_eraseIdx has i a ha
    · exact ner_symMulTermsGo has (i + 1) ds (fun x hx => hds x (List.mem_cons_of_mem _ hx)) t ht

/-! ### forward symbolic mode -/

mutual
/-- **`_synthetic_partial` of an expression without even roots has no even root** -/
theorem ner_symFwd (N : Num α) (x : String) : ∀ e : Expr α, NoEvenRoot e → NoEvenRoot (symFwd N x e)
  | .const _ _, _ => by simp [symFwd]
  | .var _ y, _ => by
    simp only [symFwd]
    split <;> simp
  | .add _ as, h => by
    simp only [symFwd, ner_add]; exact ner_symFwdList N x as h.add_inv
  | .minus _ l r, h => by
    simp only [symFwd, ner_minus]
    exact ⟨ner_symFwd N x l h.minus_inv.1, ner_symFwd N x r h.minus_inv.2⟩
  | .mul _ as, h => by
    simp only [symFwd, ner_add, symMulTerms]
    exact ner_symMulTermsGo h.mul_inv 0 _ (ner_symFwdList N x as h.mul_inv)
  | .div _ l r, h => by
    simp only [symFwd, ner_add, List.forall_mem_cons]
    exact ⟨ner_divSymLeft h.div_inv.2 (ner_symFwd N x l h.div_inv.1),
      ner_divSymRight h.div_inv.1 h.div_inv.2 (ner_symFwd N x r h.div_inv.2), by simp⟩
  | .pow _ l r, h => by
    simp only [symFwd, ner_add, List.forall_mem_cons]
    exact ⟨ner_powSymLeft N h.pow_inv.1 h.pow_inv.2 (ner_symFwd N x l h.pow_inv.1),
      ner_powSymRight N h h.pow_inv.1 (ner_symFwd N x r h.pow_inv.2), by simp⟩
  | .neg _ u, h => by simp only [symFwd]; exact ner_unarySymFormula N h (ner_symFwd N x u h.neg_inv)
  | .recip _ u, h => by
    simp only [symFwd]; exact ner_unarySymFormula N h (ner_symFwd N x u h.recip_inv)
  | .npow _ u _, h => by
    simp only [symFwd]; exact ner_unarySymFormula N h (ner_symFwd N x u h.npow_inv)
  | .nroot _ u _, h => by
    simp only [symFwd]; exact ner_unarySymFormula N h (ner_symFwd N x u h.nroot_inv)
  | .exp _ u _, h => by
    simp only [symFwd]; exact ner_unarySymFormula N h (ner_symFwd N x u h.exp_inv)
  | .log _ u _, h => by
    simp only [symFwd]; exact ner_unarySymFormula N h (ner_symFwd N x u h.log_inv)
  | .cos _ u, h => by simp only [symFwd]; exact ner_unarySymFormula N h (ner_symFwd N x u h.cos_inv)
  | .sin _ u, h => by simp only [symFwd]; exact ner_unarySymFormula N h (ner_symFwd N x u h.sin_inv)
theorem ner_symFwdList (N : Num α) (x : String) : ∀ es : List (Expr α),
    (∀ a ∈ es, NoEvenRoot a) → ∀ d ∈ symFwdList N x es, NoEvenRoot d
  | [], _ => by simp [symFwdList]
  | e :: es, h => by
    simp only [symFwdList, List.forall_mem_cons]
    exact ⟨ner_symFwd N x e (h e List.mem_cons_self),
      ner_symFwdList N x es fun a ha => h a (List.mem_cons_of_mem _ ha)⟩
end

/-! ### reverse symbolic mode -/

/-- every accumulated expression is free of even roots -/
def NerA (acc : SAcc α) : Prop := ∀ y s, SAcc.get? acc y = some s → NoEvenRoot s

theorem NerA_nil : NerA ([] : SAcc α) := fun _ _ h => by simp [SAcc.get?] at h

theorem NerA_addTo {acc : SAcc α} (h : NerA acc) (x : String) {c : Expr α} (hc : NoEvenRoot c) :
    NerA (SAcc.addTo acc x c) := by
  intro z s hz
  rw [SAcc.get?_addTo] at hz
  by_cases hzx : z = x
  · simp only [hzx, if_true, Option.some.injEq] at hz
    subst hz
    cases hex : SAcc.get? acc x with
    | none => exact hc
    | some ex => simpa [SAcc.merged] using ⟨h x ex hex, hc⟩
  · simp only [hzx, if_false] at hz
    exact h z s hz

mutual
/-- **`_compute_synthetic_partials` keeps the accumulator free of even roots** -/
theorem NerA_symRev (N : Num α) : ∀ (e m : Expr α) (acc : SAcc α), NoEvenRoot e → NoEvenRoot m →
    NerA acc → NerA (symRev N e m acc)
  | .const _ _, _, _, _, _, ha => by simp only [symRev]; exact ha
  | .var _ y, _, _, _, hm, ha => by simp only [symRev]; exact NerA_addTo ha y hm
  | .add _ as, m, acc, h, hm, ha => by
    simp only [symRev]; exact NerA_symRevList N as m acc h.add_inv hm ha
  | .minus _ l r, m, acc, h, hm, ha => by
    simp only [symRev]
    exact NerA_symRev N r _ _ h.minus_inv.2 ((ner_neg ..).mpr hm)
      (NerA_symRev N l m acc h.minus_inv.1 hm ha)
  | .mul _ as, m, acc, h, hm, ha => by
    simp only [symRev]; exact NerA_symRevMul N as m 0 as acc h.mul_inv hm h.mul_inv ha
  | .div _ l r, m, acc, h, hm, ha => by
    simp only [symRev]
    exact NerA_symRev N r _ _ h.div_inv.2 (ner_divSymRight h.div_inv.1 h.div_inv.2 hm)
      (NerA_symRev N l _ acc h.div_inv.1 (ner_divSymLeft h.div_inv.2 hm) ha)
  | .pow _ l r, m, acc, h, hm, ha => by
    simp only [symRev]
    exact NerA_symRev N r _ _ h.pow_inv.2 (ner_powSymRight N h h.pow_inv.1 hm)
      (NerA_symRev N l _ acc h.pow_inv.1 (ner_powSymLeft N h.pow_inv.1 h.pow_inv.2 hm) ha)
  | .neg _ u, _, acc, h, hm, ha => by
    simp only [symRev]; exact NerA_symRev N u _ acc h.neg_inv (ner_unarySymFormula N h hm) ha
  | .recip _ u, _, acc, h, hm, ha => by
    simp only [symRev]; exact NerA_symRev N u _ acc h.recip_inv (ner_unarySymFormula N h hm) ha
  | .npow _ u _, _, acc, h, hm, ha => by
    simp only [symRev]; exact NerA_symRev N u _ acc h.npow_inv (ner_unarySymFormula N h hm) ha
  | .nroot _ u _, _, acc, h, hm, ha => by
    simp only [symRev]; exact NerA_symRev N u _ acc h.nroot_inv (ner_unarySymFormula N h hm) ha
  | .exp _ u _, _, acc, h, hm, ha => by
    simp only [symRev]; exact NerA_symRev N u _ acc h.exp_inv (ner_unarySymFormula N h hm) ha
  | .log _ u _, _, acc, h, hm, ha => by
    simp only [symRev]; exact NerA_symRev N u _ acc h.log_inv (ner_unarySymFormula N h hm) ha
  | .cos _ u, _, acc, h, hm, ha => by
    simp only [symRev]; exact NerA_symRev N u _ acc h.cos_inv (ner_unarySymFormula N h hm) ha
  | .sin _ u, _, acc, h, hm, ha => by
    simp only [symRev]; exact NerA_symRev N u _ acc h.sin_inv (ner_unarySymFormula N h hm) ha
theorem NerA_symRevList (N : Num α) : ∀ (es : List (Expr α)) (m : Expr α) (acc : SAcc α),
    (∀ a ∈ es, NoEvenRoot a) → NoEvenRoot m → NerA acc → NerA (symRevList N es m acc)
  | [], _, _, _, _, ha => by simp only [symRevList]; exact ha
  | e :: es, m, acc, h, hm, ha => by
    simp only [symRevList]
    exact NerA_symRevList N es m _ (fun a ha => h a (List.mem_cons_of_mem _ ha)) hm
      (NerA_symRev N e m acc (h e List.mem_cons_self) hm ha)
theorem NerA_symRevMul (N : Num α) (all : List (Expr α)) (m : Expr α) : ∀ (i : Nat)
    (es : List (Expr α)) (acc : SAcc α), (∀ a ∈ all, NoEvenRoot a) → NoEvenRoot m →
    (∀ a ∈ es, NoEvenRoot a) → NerA acc → NerA (symRevMul N all m i es acc)
  | _, [], _, _, _, _, ha => by simp only [symRevMul]; exact ha
  | i, e :: es, acc, hall, hm, h, ha => by
    simp only [symRevMul]
    refine NerA_symRevMul N all m (i + 1) es _ hall hm (fun a ha => h a (List.mem_cons_of_mem _ ha))
      (NerA_symRev N e _ acc (h e List.mem_cons_self) ?_ ha)
    rw [ner_mul]
    intro a ha
    rcases List.mem_cons.mp ha with rfl | ha
    · exact hm
    · exact ner_eraseIdx hall i a ha
end

/-- **every entry of `_synthetic_partials()` of an expression without even roots has no even root** -/
theorem ner_syntheticPartials (N : Num α) {e : Expr α} (h : NoEvenRoot e) {y : String} {s : Expr α}
    (hget : SAcc.get? (syntheticPartials N e) y = some s) : NoEvenRoot s := by
  rw [syntheticPartials_get?] at hget
  split at hget
  · injection hget with hget
    have hacc : NerA (symRev N e (mkConst N.one) []) :=
      NerA_symRev N e _ [] h (by simp) NerA_nil
    cases hg : SAcc.get? (symRev N e (mkConst N.one) []) y with
    | none =>
      rw [hg] at hget
      simp only [Option.getD_none] at hget
      subst hget; simp
    | some s' =>
      rw [hg] at hget
      simp only [Option.getD_some] at hget
      subst hget
      exact hacc y _ hg
  · cases hget

end Smooth
