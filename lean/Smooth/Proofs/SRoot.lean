/-
Proofs/SRoot — real-analysis facts about the sign-keeping n-th root `sroot` (Real/Spec.lean) that the
soundness proofs of the `NthPower`/`NthRoot` rewrite rules need.

`sroot_one` lives in Proofs/Eval.lean.  `sroot_pow_self` is the statement called `sroot_pow` in
Properties/C01.lean (copied under another name so that both files can be imported together).
-/
import Smooth.Proofs.Eval

namespace Smooth
open Classical

theorem sroot_of_nonneg (n : ℕ) {x : ℝ} (h : 0 ≤ x) : sroot n x = x ^ ((1 : ℝ) / n) := by
  simp [sroot, h]

theorem sroot_of_neg (n : ℕ) {x : ℝ} (h : x < 0) : sroot n x = -((-x) ^ ((1 : ℝ) / n)) := by
  simp [sroot, not_le.mpr h]

theorem one_div_natCast_ne_zero {n : ℕ} (hn : 1 ≤ n) : (1 : ℝ) / n ≠ 0 :=
  one_div_ne_zero (Nat.cast_ne_zero.mpr (by omega))

theorem sroot_zero {n : ℕ} (hn : 1 ≤ n) : sroot n 0 = 0 := by
  rw [sroot_of_nonneg n le_rfl]
  exact Real.zero_rpow (one_div_natCast_ne_zero hn)

theorem sroot_one_arg (n : ℕ) : sroot n 1 = 1 := by
  rw [sroot_of_nonneg n zero_le_one]
  exact Real.one_rpow _

/-! ### sign facts -/

theorem sroot_pos (n : ℕ) {x : ℝ} (h : 0 < x) : 0 < sroot n x := by
  rw [sroot_of_nonneg n h.le]
  exact Real.rpow_pos_of_pos h _

theorem sroot_neg_of_neg (n : ℕ) {x : ℝ} (h : x < 0) : sroot n x < 0 := by
  rw [sroot_of_neg n h]
  have : 0 < (-x) ^ ((1 : ℝ) / n) := Real.rpow_pos_of_pos (neg_pos.mpr h) _
  linarith

theorem sroot_ne_zero (n : ℕ) {x : ℝ} (h : x ≠ 0) : sroot n x ≠ 0 := by
  rcases lt_or_gt_of_ne h with h | h
  · exact ne_of_lt (sroot_neg_of_neg n h)
  · exact ne_of_gt (sroot_pos n h)

theorem sroot_nonneg {n : ℕ} {x : ℝ} (h : 0 ≤ x) : 0 ≤ sroot n x := by
  rw [sroot_of_nonneg n h]
  exact Real.rpow_nonneg h _

theorem sroot_nonneg_iff (n : ℕ) {x : ℝ} : 0 ≤ sroot n x ↔ 0 ≤ x := by
  constructor
  · intro h
    by_contra hx
    exact absurd h (not_le.mpr (sroot_neg_of_neg n (not_le.mp hx)))
  · exact sroot_nonneg

/-! ### the root is an odd, multiplicative function -/

/-- the sign-keeping root is an odd function (for every `n ≥ 1`, even ones included: the formula
does not look at the parity) -/
theorem sroot_neg {n : ℕ} (hn : 1 ≤ n) (x : ℝ) : sroot n (-x) = -sroot n x := by
  rcases lt_trichotomy x 0 with h | h | h
  · rw [sroot_of_neg n h, sroot_of_nonneg n (neg_pos.mpr h).le, neg_neg]
  · subst h; simp [sroot_zero hn]
  · rw [sroot_of_neg n (neg_lt_zero.mpr h), sroot_of_nonneg n h.le, neg_neg]

theorem sroot_inv {n : ℕ} (hn : 1 ≤ n) (x : ℝ) : sroot n x⁻¹ = (sroot n x)⁻¹ := by
  rcases lt_trichotomy x 0 with h | h | h
  · have h' : x⁻¹ < 0 := inv_lt_zero.mpr h
    rw [sroot_of_neg n h, sroot_of_neg n h', neg_inv, Real.inv_rpow (neg_pos.mpr h).le, inv_neg]
  · subst h; simp [sroot_zero hn]
  · have h' : 0 < x⁻¹ := inv_pos.mpr h
    rw [sroot_of_nonneg n h.le, sroot_of_nonneg n h'.le, Real.inv_rpow h.le]

theorem sroot_mul_of_nonneg (n : ℕ) {x y : ℝ} (hx : 0 ≤ x) (hy : 0 ≤ y) :
    sroot n (x * y) = sroot n x * sroot n y := by
  rw [sroot_of_nonneg n hx, sroot_of_nonneg n hy, sroot_of_nonneg n (mul_nonneg hx hy),
    Real.mul_rpow hx hy]

theorem sroot_mul {n : ℕ} (hn : 1 ≤ n) (x y : ℝ) : sroot n (x * y) = sroot n x * sroot n y := by
  have flip : ∀ z : ℝ, sroot n z = -sroot n (-z) := fun z => by rw [sroot_neg hn, neg_neg]
  rcases le_or_gt 0 x with hx | hx
  · rcases le_or_gt 0 y with hy | hy
    · exact sroot_mul_of_nonneg n hx hy
    · have hy' : 0 ≤ -y := (neg_pos.mpr hy).le
      rw [flip (x * y), flip y, ← mul_neg, sroot_mul_of_nonneg n hx hy']
      ring
  · have hx' : 0 ≤ -x := (neg_pos.mpr hx).le
    rcases le_or_gt 0 y with hy | hy
    · rw [flip (x * y), flip x, ← neg_mul, sroot_mul_of_nonneg n hx' hy]
      ring
    · have hy' : 0 ≤ -y := (neg_pos.mpr hy).le
      rw [flip x, flip y, ← neg_mul_neg, sroot_mul_of_nonneg n hx' hy']
      ring

/-- root and integer power commute, unconditionally -/
theorem sroot_npow {n : ℕ} (hn : 1 ≤ n) (x : ℝ) (m : ℕ) : sroot n (x ^ m) = sroot n x ^ m := by
  induction m with
  | zero => simp [sroot_one_arg]
  | succ m ih => rw [pow_succ, pow_succ, sroot_mul hn, ih]

/-! ### root of a power, power of a root -/

/-- the sign-keeping root really is a root: `sroot n x ^ n = x` for odd `n`, and for `x ≥ 0`
(= `sroot_pow` of Properties/C01.lean) -/
theorem sroot_pow_self {n : ℕ} (hn : 1 ≤ n) (x : ℝ) (h : 0 ≤ x ∨ n % 2 = 1) :
    sroot n x ^ n = x := by
  have hn0 : (n : ℝ) ≠ 0 := by exact_mod_cast (by omega : n ≠ 0)
  unfold sroot
  split
  · next hx =>
    rw [← Real.rpow_natCast, ← Real.rpow_mul hx]
    simp [hn0]
  · next hx =>
    have hodd : n % 2 = 1 := by
      rcases h with h | h
      · exact absurd h hx
      · exact h
    have hneg : 0 ≤ -x := by linarith [not_le.mp hx]
    have : Odd n := Nat.odd_iff.mpr hodd
    rw [Odd.neg_pow this, ← Real.rpow_natCast, ← Real.rpow_mul hneg]
    simp [hn0]

/-- iterated roots: `sroot n (sroot m x) = sroot (n * m) x`, unconditionally -/
theorem sroot_sroot (n m : ℕ) (x : ℝ) : sroot n (sroot m x) = sroot (n * m) x := by
  have hexp : (1 : ℝ) / m * ((1 : ℝ) / n) = (1 : ℝ) / ((n * m : ℕ) : ℝ) := by
    push_cast; ring
  rcases le_or_gt 0 x with h | h
  · rw [sroot_of_nonneg n (sroot_nonneg h), sroot_of_nonneg m h, sroot_of_nonneg (n * m) h,
      ← Real.rpow_mul h, hexp]
  · have hs : sroot m x < 0 := sroot_neg_of_neg m h
    rw [sroot_of_neg n hs, sroot_of_neg m h, sroot_of_neg (n * m) h, neg_neg,
      ← Real.rpow_mul (neg_pos.mpr h).le, hexp]

/-- cancelling a common factor `g` of root index and exponent -/
theorem sroot_mul_pow {g m : ℕ} (hg : 1 ≤ g) (hm : 1 ≤ m) (x : ℝ) (h : 0 ≤ x ∨ g % 2 = 1) :
    sroot (g * m) x ^ g = sroot m x := by
  have hg0 : (g : ℝ) ≠ 0 := by exact_mod_cast (by omega : g ≠ 0)
  have hm0 : (m : ℝ) ≠ 0 := by exact_mod_cast (by omega : m ≠ 0)
  have hexp : (1 : ℝ) / ((g * m : ℕ) : ℝ) * (g : ℝ) = (1 : ℝ) / m := by
    push_cast; field_simp
  rcases le_or_gt 0 x with hx | hx
  · rw [sroot_of_nonneg _ hx, sroot_of_nonneg _ hx, ← Real.rpow_natCast, ← Real.rpow_mul hx, hexp]
  · have hodd : Odd g := by
      rcases h with h | h
      · exact absurd h (not_le.mpr hx)
      · exact Nat.odd_iff.mpr h
    rw [sroot_of_neg _ hx, sroot_of_neg _ hx, Odd.neg_pow hodd, ← Real.rpow_natCast,
      ← Real.rpow_mul (neg_pos.mpr hx).le, hexp]

/-- `NthPower(NthRoot(u, m), n)` with `g = gcd m n`: both numbers can be divided by `g` -/
theorem sroot_pow_gcd {m n : ℕ} (hm : 1 ≤ m) (x : ℝ) (h : m % 2 = 0 → 0 ≤ x) :
    sroot (m / Nat.gcd m n) x ^ (n / Nat.gcd m n) = sroot m x ^ n := by
  have hgpos : 0 < Nat.gcd m n := Nat.gcd_pos_of_pos_left n (by omega)
  obtain ⟨m', hm'⟩ := Nat.gcd_dvd_left m n
  obtain ⟨n', hn'⟩ := Nat.gcd_dvd_right m n
  generalize Nat.gcd m n = g at *
  have hm1 : 1 ≤ m' := by
    rcases Nat.eq_zero_or_pos m' with h0 | h0
    · subst h0; omega
    · exact h0
  have e1 : m / g = m' := by rw [hm']; exact Nat.mul_div_cancel_left m' hgpos
  have e2 : n / g = n' := by rw [hn']; exact Nat.mul_div_cancel_left n' hgpos
  have hcond : 0 ≤ x ∨ g % 2 = 1 := by
    rcases le_or_gt 0 x with hx | hx
    · exact Or.inl hx
    · right
      have hmodd : m % 2 = 1 := by
        rcases Nat.mod_two_eq_zero_or_one m with h0 | h1
        · exact absurd (h h0) (not_le.mpr hx)
        · exact h1
      rcases Nat.mod_two_eq_zero_or_one g with h0 | h1
      · exfalso
        rw [hm', Nat.mul_mod, h0] at hmodd
        simp at hmodd
      · exact h1
  rw [e1, e2]
  conv_rhs => rw [hm', hn', pow_mul, sroot_mul_pow (by omega) hm1 x hcond]

end Smooth
