/-
Proofs/NoEvenRootOK — the K1 side condition of the soundness theorems about simplification
(`StepOK/RunOK/NormOK/NormRedOK K1FreeAt …`, Proofs/DriverSound) is a statement about the RUN of the
rewriter.  Here it is discharged from the SYNTACTIC condition `NoEvenRoot e` on the input:

* the redex of a step is a node of the stepped expression (possibly with `_evaluation_failed` set), so
  it has no even root either;
* a redex `NthRoot(NthPower(u, m), n)` without even root has `n` odd, hence is not an instance of K1;
* every step, the loop, and the normal-form pass keep `NoEvenRoot` (Proofs/NoEvenRootDriver), so the
  argument repeats along the whole run.

Then the unconditional corollaries over the reals (statement side: Properties/C08odd).
-/
import Smooth.Proofs.NoEvenRootDriver
import Smooth.Proofs.NoEvenRootSym
import Smooth.Proofs.SymForward

namespace Smooth
open Expr

/-! ### a redex without even root is not an instance of K1 -/

theorem ner_k1Free {e : Expr ℝ} (h : NoEvenRoot e) : K1Free e := by
  unfold K1Free
  split
  · have := h.nroot_odd
    omega
  · trivial

theorem ner_k1FreeAt (r : RuleId) {e : Expr ℝ} (h : NoEvenRoot e) : K1FreeAt r e := by
  cases r <;> first | exact ner_k1Free h | trivial

/-! ### the redex of a step is a node of the expression -/

theorem ner_nodeRedex {self : Expr ℝ} {child : Option (Option (RuleId × Expr ℝ))}
    (hs : NoEvenRoot self)
    (hc : ∀ c, child = some c → ∀ r e₀, c = some (r, e₀) → NoEvenRoot e₀) :
    ∀ r e₀, nodeRedex self child = some (r, e₀) → NoEvenRoot e₀ := by
  intro r e₀ h
  unfold nodeRedex at h
  split at h
  · cases h
  · split at h
    · cases h
    · cases child with
      | some c => exact hc c rfl r e₀ h
      | none =>
        simp only [Option.map_eq_some_iff] at h
        obtain ⟨re, _, hre⟩ := h
        simp only [Prod.mk.injEq] at hre
        rw [← hre.2]
        split
        · exact (ner_markFailed self).mpr hs
        · exact hs

mutual
/-- the redex `stepRedex` names is free of even roots when the stepped expression is -/
theorem ner_stepRedex : ∀ e : Expr ℝ, NoEvenRoot e →
    ∀ r e₀, stepRedex e = some (r, e₀) → NoEvenRoot e₀
  | .const _ _, _ => by intro r e₀ h; simp [stepRedex] at h
  | .var _ _, _ => by intro r e₀ h; simp [stepRedex] at h
  | .add f as, hs => by
    simp only [stepRedex]
    exact ner_nodeRedex hs fun c hc => ner_listRedex as hs.add_inv c hc
  | .mul f as, hs => by
    simp only [stepRedex]
    exact ner_nodeRedex hs fun c hc => ner_listRedex as hs.mul_inv c hc
  | .minus f l r, hs => by
    simp only [stepRedex]
    refine ner_nodeRedex hs fun c hc => ?_
    split at hc
    · obtain rfl := Option.some.inj hc; exact ner_stepRedex l hs.minus_inv.1
    · split at hc
      · obtain rfl := Option.some.inj hc; exact ner_stepRedex r hs.minus_inv.2
      · cases hc
  | .div f l r, hs => by
    simp only [stepRedex]
    refine ner_nodeRedex hs fun c hc => ?_
    split at hc
    · obtain rfl := Option.some.inj hc; exact ner_stepRedex l hs.div_inv.1
    · split at hc
      · obtain rfl := Option.some.inj hc; exact ner_stepRedex r hs.div_inv.2
      · cases hc
  | .pow f l r, hs => by
    simp only [stepRedex]
    refine ner_nodeRedex hs fun c hc => ?_
    split at hc
    · obtain rfl := Option.some.inj hc; exact ner_stepRedex l hs.pow_inv.1
    · split at hc
      · obtain rfl := Option.some.inj hc; exact ner_stepRedex r hs.pow_inv.2
      · cases hc
  | .neg f u, hs => by
    simp only [stepRedex]
    refine ner_nodeRedex hs fun c hc => ?_
    split at hc
    · obtain rfl := Option.some.inj hc; exact ner_stepRedex u hs.neg_inv
    · cases hc
  | .recip f u, hs => by
    simp only [stepRedex]
    refine ner_nodeRedex hs fun c hc => ?_
    split at hc
    · obtain rfl := Option.some.inj hc; exact ner_stepRedex u hs.recip_inv
    · cases hc
  | .npow f u n, hs => by
    simp only [stepRedex]
    refine ner_nodeRedex hs fun c hc => ?_
    split at hc
    · obtain rfl := Option.some.inj hc; exact ner_stepRedex u hs.npow_inv
    · cases hc
  | .nroot f u n, hs => by
    simp only [stepRedex]
    refine ner_nodeRedex hs fun c hc => ?_
    split at hc
    · obtain rfl := Option.some.inj hc; exact ner_stepRedex u hs.nroot_inv
    · cases hc
  | .exp f u b, hs => by
    simp only [stepRedex]
    refine ner_nodeRedex hs fun c hc => ?_
    split at hc
    · obtain rfl := Option.some.inj hc; exact ner_stepRedex u hs.exp_inv
    · cases hc
  | .log f u b, hs => by
    simp only [stepRedex]
    refine ner_nodeRedex hs fun c hc => ?_
    split at hc
    · obtain rfl := Option.some.inj hc; exact ner_stepRedex u hs.log_inv
    · cases hc
  | .cos f u, hs => by
    simp only [stepRedex]
    refine ner_nodeRedex hs fun c hc => ?_
    split at hc
    · obtain rfl := Option.some.inj hc; exact ner_stepRedex u hs.cos_inv
    · cases hc
  | .sin f u, hs => by
    simp only [stepRedex]
    refine ner_nodeRedex hs fun c hc => ?_
    split at hc
    · obtain rfl := Option.some.inj hc; exact ner_stepRedex u hs.sin_inv
    · cases hc
theorem ner_listRedex : ∀ as : List (Expr ℝ), (∀ a ∈ as, NoEvenRoot a) →
    ∀ c, listRedex as = some c → ∀ r e₀, c = some (r, e₀) → NoEvenRoot e₀
  | [], _ => by intro c h; simp [listRedex] at h
  | e :: es, hs => by
    intro c h
    simp only [listRedex] at h
    split at h
    · obtain rfl := Option.some.inj h
      exact ner_stepRedex e (hs e List.mem_cons_self)
    · exact ner_listRedex es (fun a ha => hs a (List.mem_cons_of_mem _ ha)) c h
end

/-! ### the side conditions hold of every run -/

/-- **one step**: without even root in the input, the one rule application of the step is allowed -/
theorem ner_stepOK {e : Expr ℝ} (h : NoEvenRoot e) : StepOK K1FreeAt e :=
  fun r e₀ hr => ner_k1FreeAt r (ner_stepRedex e h r e₀ hr)

/-- **the `_fully_reduce` loop**, every budget -/
theorem ner_runOK : ∀ (bound : Nat) {e : Expr ℝ}, NoEvenRoot e → RunOK K1FreeAt bound e
  | 0, _, _ => trivial
  | bound + 1, e, h => Or.inr ⟨ner_stepOK h, ner_runOK bound (ner_stepF realNum e h)⟩

theorem ner_normOK_aux (bound : Nat) : ∀ fuel : Nat,
    (∀ e : Expr ℝ, NoEvenRoot e → NormOK K1FreeAt bound fuel e) ∧
    (∀ e : Expr ℝ, NoEvenRoot e → NormRedOK K1FreeAt bound fuel e)
  | 0 => ⟨fun _ _ => by simp [NormOK], fun _ _ => by simp [NormRedOK]⟩
  | fuel + 1 => by
    have ih := ner_normOK_aux bound fuel
    refine ⟨fun e h => ?_, fun e h => ?_⟩
    · simp only [NormOK]
      exact ⟨ner_runOK bound h, ih.2 _ (ner_fullyReduceWith realNum bound h)⟩
    · cases e with
      | const f v => simp [NormRedOK]
      | var f x => simp [NormRedOK]
      | add f as =>
        simp only [NormRedOK]
        exact ⟨fun t ht => ih.1 t (h.add_inv t (List.mem_filter.mp ht).1),
          fun t ht => ih.1 t (ner_mem_filterMap_asNeg h.add_inv t ht)⟩
      | mul f as =>
        simp only [NormRedOK]
        exact ⟨fun t ht => ih.1 t (h.mul_inv t (List.mem_filter.mp ht).1),
          fun t ht => ih.1 t (ner_mem_filterMap_asRecip h.mul_inv t ht)⟩
      | minus f l r => simp only [NormRedOK]; exact ⟨ih.2 l h.minus_inv.1, ih.2 r h.minus_inv.2⟩
      | div f l r => simp only [NormRedOK]; exact ⟨ih.2 l h.div_inv.1, ih.2 r h.div_inv.2⟩
      | pow f l r => simp only [NormRedOK]; exact ⟨ih.2 l h.pow_inv.1, ih.2 r h.pow_inv.2⟩
      | neg f u => simp only [NormRedOK]; exact ih.2 u h.neg_inv
      | recip f u => simp only [NormRedOK]; exact ih.2 u h.recip_inv
      | npow f u n => simp only [NormRedOK]; exact ih.2 u h.npow_inv
      | nroot f u n => simp only [NormRedOK]; exact ih.2 u h.nroot_inv
      | exp f u b => simp only [NormRedOK]; exact ih.2 u h.exp_inv
      | log f u b => simp only [NormRedOK]; exact ih.2 u h.log_inv
      | cos f u => simp only [NormRedOK]; exact ih.2 u h.cos_inv
      | sin f u => simp only [NormRedOK]; exact ih.2 u h.sin_inv

/-- **`_normalize`**, every budget and fuel -/
theorem ner_normOK (bound fuel : Nat) {e : Expr ℝ} (h : NoEvenRoot e) :
    NormOK K1FreeAt bound fuel e :=
  (ner_normOK_aux bound fuel).1 e h

/-- **the normal-form pass**, every budget and fuel -/
theorem ner_normRedOK (bound fuel : Nat) {e : Expr ℝ} (h : NoEvenRoot e) :
    NormRedOK K1FreeAt bound fuel e :=
  (ner_normOK_aux bound fuel).2 e h

/-! ### unconditional soundness of simplification on expressions without even roots -/

/-- all 46 rewrite rules are sound outside the recorded defect K1 (as in Properties/C08) -/
theorem ner_rulesSound : RulesSound K1FreeAt := symfwd_rulesSound_K1

/-- every rule application to a redex without even root is sound — no side condition -/
theorem ner_rule_refines (r : RuleId) {e e' : Expr ℝ} (h : r.apply realNum e = some e')
    (hs : NoEvenRoot e) : Refines e e' :=
  ner_rulesSound r e e' h (ner_k1FreeAt r hs)

theorem ner_step_refines {e : Expr ℝ} (h : NoEvenRoot e) : Refines e (stepF realNum e).1 :=
  step_refines ner_rulesSound e (ner_stepOK h)

theorem ner_fullyReduce_refines (bound : Nat) {e : Expr ℝ} (h : NoEvenRoot e) :
    Refines e (fullyReduceWith realNum bound e).expr :=
  fullyReduce_refines ner_rulesSound bound e (ner_runOK bound h)

theorem ner_normReduced_refines (bound fuel : Nat) {e e' : Expr ℝ} {w : Bool} (hs : NoEvenRoot e)
    (h : normReducedF realNum bound fuel e = some (e', w)) : Refines e e' :=
  normReduced_refines ner_rulesSound bound fuel e e' w (ner_normRedOK bound fuel hs) h

theorem ner_normalize_refines (bound fuel : Nat) {e e' : Expr ℝ} {w : Bool} (hs : NoEvenRoot e)
    (h : normalizeF realNum bound fuel e = some (e', w)) : Refines e e' :=
  normalize_refines ner_rulesSound bound fuel e e' w (ner_normOK bound fuel hs) h

/-! ### the symbolic derivatives -/

/-- `_retrieve_synthetic_partial` on an expression without even roots: the normalised expression
refines the raw symbolic partial, and has no even root either -/
theorem ner_retrieveSyntheticPartial {e : Expr ℝ} (hs : NoEvenRoot e) (x : String) {s : Expr ℝ}
    {w : Bool} (h : retrieveSyntheticPartial realNum e x = .ok (s, w)) :
    Refines (symFwd realNum x e) s ∧ NoEvenRoot s := by
  have hs' := ner_symFwd realNum x e hs
  exact ⟨retrieveSyntheticPartial_refines e x s w (ner_normOK _ _ hs') h,
    ner_normalize realNum hs' (symfwd_liftFuel_ok h)⟩

/-- the side condition of the theorems about `Differential(e, compute_early=True)` -/
theorem ner_syntheticPartials_normOK {e : Expr ℝ} (hs : NoEvenRoot e) : ∀ y s,
    SAcc.get? (syntheticPartials realNum e) y = some s →
      NormOK K1FreeAt REDUCTION_STEPS_BOUND NORMALIZE_FUEL s :=
  fun _ _ hget => ner_normOK _ _ (ner_syntheticPartials realNum hs hget)

/-- the normalised components have no even root either -/
theorem ner_normalizeAll {α : Type} (N : Num α) : ∀ {acc d : SAcc α} {w : Bool},
    normalizeAll N acc = .ok (d, w) → NerA acc → NerA d := by
  intro acc d w h ha y s' hy
  have := normalizeAll_get? N h y
  cases hg : SAcc.get? acc y with
  | none => rw [hg] at this; rw [this] at hy; cases hy
  | some s =>
    rw [hg] at this
    obtain ⟨s'', w', hn, hd⟩ := this
    rw [hd] at hy
    injection hy with hy
    subst hy
    exact ner_normalize N (ha y s hg) hn

/-- **`Partial.as_expression()`** on an expression without even roots — no side condition -/
theorem ner_asExpression_sound {e : Expr ℝ} {x : String} (hwf : WF e) (hner : NoEvenRoot e)
    {s : Expr ℝ} {P' : PartialObj ℝ} {w : Bool}
    (h : (PartialObj.mk e x none).asExpression realNum = .ok (s, P', w)) :
    Refines (symFwd realNum x e) s ∧ P' = ⟨e, x, some s⟩ ∧
      WF s ∧ (∀ y, y ∈ s.vars → y ∈ e.vars) ∧ (∀ p : Point ℝ, Supp p e → Supp p s) ∧
      (∀ ρ : String → ℝ, Dom ρ e →
        Dom ρ s ∧ HasDerivAt (fun t => den (upd ρ x t) e) (den ρ s) (ρ x)) ∧
      (∀ p : Point ℝ, Supp p e → Dom (valOf p) e → evalG realNum p s = fwdG realNum p x e) ∧
      NoEvenRoot s := by
  obtain ⟨hret, hP⟩ := asExpression_late h
  obtain ⟨hr, hs⟩ := ner_retrieveSyntheticPartial hner x hret
  obtain ⟨h1, h2, h3, h4, h5⟩ := refines_symFwd_facts hr hwf
  exact ⟨hr, hP, h1, h2, h3, h4, h5, hs⟩

/-- **`Partial(e, x, compute_early=True)`** on an expression without even roots -/
theorem ner_partialNew_early_sound {e : Expr ℝ} {x : String} (hwf : WF e) (hner : NoEvenRoot e)
    {P : PartialObj ℝ} {w : Bool} (h : PartialObj.new realNum e x true = .ok (P, w)) :
    ∃ s, P = ⟨e, x, some s⟩ ∧ Refines (symFwd realNum x e) s ∧ WF s ∧ NoEvenRoot s ∧
      (∀ ρ : String → ℝ, Dom ρ e →
        Dom ρ s ∧ HasDerivAt (fun t => den (upd ρ x t) e) (den ρ s) (ρ x)) := by
  obtain ⟨s, hret, hP⟩ := partialNew_early h
  obtain ⟨hr, hs⟩ := ner_retrieveSyntheticPartial hner x hret
  obtain ⟨h1, _, _, h4, _⟩ := refines_symFwd_facts hr hwf
  exact ⟨s, hP, hr, h1, hs, h4⟩

/-- **`Differential(e, compute_early=True)`** on an expression without even roots — no side
condition: what it stores, that every stored component refines the raw reverse-mode one (and is again
well formed and free of even roots), and that on the domain of `e` every component evaluates to the
forward-mode partial (C03: the true partial derivative), also through `component_at` -/
theorem ner_differential_early_sound {e : Expr ℝ} (hwf : WF e) (hner : NoEvenRoot e)
    {D : DifferentialObj ℝ} {w : Bool} (hnew : DifferentialObj.new realNum e true = .ok (D, w)) :
    ∃ d, D = ⟨e, some d⟩ ∧ normalizeAll realNum (syntheticPartials realNum e) = .ok (d, w) ∧
      (∀ y, y ∉ e.vars → SAcc.get? d y = none) ∧
      (∀ y ∈ e.vars, ∃ s s', SAcc.get? (syntheticPartials realNum e) y = some s ∧
        SAcc.get? d y = some s' ∧ Refines s s' ∧ WF s' ∧ NoEvenRoot s') ∧
      (∀ p : Point ℝ, Supp p e → Dom (valOf p) e →
        (∀ y s', SAcc.get? d y = some s' → evalG realNum p s' = fwdG realNum p y e) ∧
        ∀ y, D.componentAt realNum y p = fwdG realNum p y e) := by
  have hok := ner_syntheticPartials_normOK hner
  obtain ⟨d, hnorm, hD⟩ := differentialNew_early realNum e hnew
  have href := normalizeAll_refines hnorm hok
  have hnerA : NerA (syntheticPartials realNum e) :=
    fun y s hget => ner_syntheticPartials realNum hner hget
  have hnerD := ner_normalizeAll realNum hnorm hnerA
  refine ⟨d, hD, hnorm, href.1, fun y hy => ?_, fun p hs hd => ⟨fun y s' hget => ?_, fun y => ?_⟩⟩
  · obtain ⟨s, s', h1, h2, h3⟩ := href.2 y hy
    exact ⟨s, s', h1, h2, h3, h3.wf (SAccWF_get? (WF_syntheticPartials e hwf) h1), hnerD y s' h2⟩
  · exact normalizeAll_eval hwf hs hd hnorm hok hget
  · exact differential_early_componentAt hwf hs hd hnew hok y

/-! ### the condition is sufficient, not necessary -/

/-- `NthRoot(x, 2)` : an even root, but never a K1 redex -/
def nerExSqrt : Expr ℝ := mkNRoot (mkVar "x") 2

theorem nerExSqrt_not_ner : ¬ NoEvenRoot nerExSqrt := by simp [nerExSqrt]

theorem nerExSqrt_step1 :
    stepF realNum nerExSqrt = (mkNRoot (.var { red := true } "x") 2, .flag) := by
  simp [nerExSqrt, stepF, stepNode, isRed, Expr.flags, foldAttempt, vars, varsAux]

theorem nerExSqrt_step2 :
    stepF realNum (mkNRoot (.var { red := true } "x") 2 : Expr ℝ) =
      (.nroot { red := true } (.var { red := true } "x") 2, .flag) := by
  simp [stepF, stepNode, stepTop, isRed, Expr.flags, foldAttempt, vars, varsAux, reducers,
    firstRule, RuleId.apply, ruleNRootOne, ruleNRootPow, ruleNRootRoot, ruleNRootNeg,
    ruleNRootRecip, markRed, setFlags]

theorem nerEx_runOK_of_red {A : RuleId → Expr ℝ → Prop} {e : Expr ℝ} (h : e.isRed = true) :
    ∀ n, RunOK A n e
  | 0 => trivial
  | _ + 1 => Or.inl h

theorem nerEx_stepOK_of_event {e : Expr ℝ} (h : (stepF realNum e).2 ≠ .rule .nrootPow) :
    StepOK K1FreeAt e := by
  intro r e₀ hr
  by_cases hrr : r = .nrootPow
  · subst hrr; exact absurd ((stepF_event_rule e _).mpr ⟨e₀, hr⟩) h
  · cases r <;> trivial

/-- the whole `_fully_reduce` run on `NthRoot(x, 2)` is K1-free, for every budget … -/
theorem nerExSqrt_runOK : ∀ bound, RunOK K1FreeAt bound nerExSqrt
  | 0 => trivial
  | 1 => Or.inr ⟨nerEx_stepOK_of_event (by rw [nerExSqrt_step1]; simp), trivial⟩
  | b + 2 => Or.inr ⟨nerEx_stepOK_of_event (by rw [nerExSqrt_step1]; simp), by
      rw [nerExSqrt_step1]
      exact Or.inr ⟨nerEx_stepOK_of_event (by rw [nerExSqrt_step2]; simp), by
        rw [nerExSqrt_step2]; exact nerEx_runOK_of_red rfl b⟩⟩

/-- the result of `_fully_reduce` on `NthRoot(x, 2)` is the same tree up to flags, for every budget -/
theorem nerExSqrt_fullyReduce (bound : Nat) :
    ∃ f g, (fullyReduceWith realNum bound nerExSqrt).expr = .nroot f (.var g "x") 2 := by
  match bound with
  | 0 => exact ⟨_, _, rfl⟩
  | 1 =>
    refine ⟨{ red := true }, { red := true }, ?_⟩
    simp [fullyReduceWith, fullyReduceLoop, nerExSqrt_step1, markRed, setFlags, Expr.flags]
    simp [nerExSqrt, isRed, Expr.flags]
  | b + 2 =>
    refine ⟨{ red := true }, { red := true }, ?_⟩
    have h0 : nerExSqrt.isRed = false := rfl
    have h1 : (mkNRoot (.var { red := true } "x") 2 : Expr ℝ).isRed = false := rfl
    have h2 : (.nroot { red := true } (.var { red := true } "x") 2 : Expr ℝ).isRed = true := rfl
    cases b <;>
      simp [fullyReduceWith, fullyReduceLoop, nerExSqrt_step1, nerExSqrt_step2, h0, h1, h2, markRed,
        setFlags, Expr.flags]

theorem nerEx_normRedOK_nroot_var (A : RuleId → Expr ℝ → Prop) (bound : Nat) (f g : Flags)
    (x : String) (n : Nat) : ∀ fuel, NormRedOK A bound fuel (.nroot f (.var g x) n)
  | 0 => by simp [NormRedOK]
  | 1 => by simp [NormRedOK]
  | _ + 2 => by simp [NormRedOK]

/-- … and so is the whole `_normalize` run, for every budget and fuel: the K1 side condition holds
although the syntactic condition `NoEvenRoot` does not -/
theorem nerExSqrt_normOK (bound : Nat) : ∀ fuel, NormOK K1FreeAt bound fuel nerExSqrt
  | 0 => by simp [NormOK]
  | fuel + 1 => by
    simp only [NormOK]
    refine ⟨nerExSqrt_runOK bound, ?_⟩
    obtain ⟨f, g, h⟩ := nerExSqrt_fullyReduce bound
    rw [h]
    exact nerEx_normRedOK_nroot_var _ _ _ _ _ _ _

end Smooth
