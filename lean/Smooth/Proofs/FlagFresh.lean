/-
Proofs/FlagFresh — the rewrite rules do not look at flags: every one of the 46 rules commutes with
`Expr.fresh` (resetting all flags), `r.apply N e.fresh = (r.apply N e).map fresh`; so does the choice
of the first applicable reducer.  Generic in the number record `N`.
(Used by Proofs/FlagIndep: reduction flags never change the result, property C09.)
-/
import Smooth.Proofs.Settled
import Smooth.Proofs.Heap

namespace Smooth
open Expr
variable {α : Type}

/-! ### `fresh` on lists, roots, recognisers -/

theorem ff_freshList_eq_map : ∀ as : List (Expr α), freshList as = as.map fresh
  | [] => rfl
  | a :: as => by simp [freshList, ff_freshList_eq_map as]

theorem ff_fresh_setFlags (g : Flags) (e : Expr α) : (e.setFlags g).fresh = e.fresh := by
  cases e <;> rfl

theorem ff_fresh_markRed (e : Expr α) : e.markRed.fresh = e.fresh := ff_fresh_setFlags _ e
theorem ff_fresh_markFailed (e : Expr α) : e.markFailed.fresh = e.fresh := ff_fresh_setFlags _ e

mutual
theorem ff_fresh_fresh : ∀ e : Expr α, e.fresh.fresh = e.fresh
  | .const _ _ => rfl
  | .var _ _ => rfl
  | .add _ as => by simp [fresh, ff_freshList_freshList as]
  | .mul _ as => by simp [fresh, ff_freshList_freshList as]
  | .minus _ l r => by simp [fresh, ff_fresh_fresh l, ff_fresh_fresh r]
  | .div _ l r => by simp [fresh, ff_fresh_fresh l, ff_fresh_fresh r]
  | .pow _ l r => by simp [fresh, ff_fresh_fresh l, ff_fresh_fresh r]
  | .neg _ u => by simp [fresh, ff_fresh_fresh u]
  | .recip _ u => by simp [fresh, ff_fresh_fresh u]
  | .npow _ u _ => by simp [fresh, ff_fresh_fresh u]
  | .nroot _ u _ => by simp [fresh, ff_fresh_fresh u]
  | .exp _ u _ => by simp [fresh, ff_fresh_fresh u]
  | .log _ u _ => by simp [fresh, ff_fresh_fresh u]
  | .cos _ u => by simp [fresh, ff_fresh_fresh u]
  | .sin _ u => by simp [fresh, ff_fresh_fresh u]
theorem ff_freshList_freshList : ∀ es : List (Expr α), freshList (freshList es) = freshList es
  | [] => rfl
  | e :: es => by simp [freshList, ff_fresh_fresh e, ff_freshList_freshList es]
end

mutual
theorem ff_varsAux_fresh : ∀ (e : Expr α) (acc : List String), varsAux e.fresh acc = varsAux e acc
  | .const _ _, _ => rfl
  | .var _ _, _ => rfl
  | .add _ as, acc => by simp [fresh, varsAux, ff_varsAuxList_fresh as]
  | .mul _ as, acc => by simp [fresh, varsAux, ff_varsAuxList_fresh as]
  | .minus _ l r, acc => by simp [fresh, varsAux, ff_varsAux_fresh l, ff_varsAux_fresh r]
  | .div _ l r, acc => by simp [fresh, varsAux, ff_varsAux_fresh l, ff_varsAux_fresh r]
  | .pow _ l r, acc => by simp [fresh, varsAux, ff_varsAux_fresh l, ff_varsAux_fresh r]
  | .neg _ u, acc => by simp [fresh, varsAux, ff_varsAux_fresh u]
  | .recip _ u, acc => by simp [fresh, varsAux, ff_varsAux_fresh u]
  | .npow _ u _, acc => by simp [fresh, varsAux, ff_varsAux_fresh u]
  | .nroot _ u _, acc => by simp [fresh, varsAux, ff_varsAux_fresh u]
  | .exp _ u _, acc => by simp [fresh, varsAux, ff_varsAux_fresh u]
  | .log _ u _, acc => by simp [fresh, varsAux, ff_varsAux_fresh u]
  | .cos _ u, acc => by simp [fresh, varsAux, ff_varsAux_fresh u]
  | .sin _ u, acc => by simp [fresh, varsAux, ff_varsAux_fresh u]
theorem ff_varsAuxList_fresh : ∀ (es : List (Expr α)) (acc : List String),
    varsAuxList (freshList es) acc = varsAuxList es acc
  | [], _ => rfl
  | e :: es, acc => by simp [freshList, varsAuxList, ff_varsAux_fresh e, ff_varsAuxList_fresh es]
end

theorem ff_vars_fresh (e : Expr α) : e.fresh.vars = e.vars := ff_varsAux_fresh e []

theorem ff_vars_setFlags (g : Flags) (e : Expr α) : (e.setFlags g).vars = e.vars := by
  rw [← ff_vars_fresh, ff_fresh_setFlags, ff_vars_fresh]

theorem ff_evalG_setFlags (N : Num α) (p : Point α) (g : Flags) (e : Expr α) :
    evalG N p (e.setFlags g) = evalG N p e :=
  evalG_congr_fresh N p (ff_fresh_setFlags g e)

theorem ff_isConstNode_fresh (e : Expr α) : isConstNode e.fresh = isConstNode e := by
  cases e <;> rfl

theorem ff_isConstNode_setFlags (g : Flags) (e : Expr α) :
    isConstNode (e.setFlags g) = isConstNode e := by
  cases e <;> rfl

theorem ff_asConst_fresh (e : Expr α) : asConst e.fresh = asConst e := by cases e <;> rfl

theorem ff_isConstSuch_fresh (p : α → Bool) (e : Expr α) :
    isConstSuch p e.fresh = isConstSuch p e := by
  unfold isConstSuch; rw [ff_asConst_fresh]

theorem ff_asAdd_fresh (e : Expr α) : asAdd e.fresh = (asAdd e).map (List.map fresh) := by
  cases e <;> simp [fresh, asAdd, ff_freshList_eq_map]
theorem ff_asMul_fresh (e : Expr α) : asMul e.fresh = (asMul e).map (List.map fresh) := by
  cases e <;> simp [fresh, asMul, ff_freshList_eq_map]
theorem ff_asNeg_fresh (e : Expr α) : asNeg e.fresh = (asNeg e).map fresh := by
  cases e <;> simp [fresh, asNeg]
theorem ff_asRecip_fresh (e : Expr α) : asRecip e.fresh = (asRecip e).map fresh := by
  cases e <;> simp [fresh, asRecip]
theorem ff_asLog_fresh (e : Expr α) :
    asLog e.fresh = (asLog e).map fun p => (p.1, p.2.fresh) := by
  cases e <;> simp [fresh, asLog]
theorem ff_asExp_fresh (e : Expr α) :
    asExp e.fresh = (asExp e).map fun p => (p.1, p.2.fresh) := by
  cases e <;> simp [fresh, asExp]
theorem ff_asNPow_fresh (e : Expr α) :
    asNPow e.fresh = (asNPow e).map fun p => (p.1, p.2.fresh) := by
  cases e <;> simp [fresh, asNPow]
theorem ff_asNRoot_fresh (e : Expr α) :
    asNRoot e.fresh = (asNRoot e).map fun p => (p.1, p.2.fresh) := by
  cases e <;> simp [fresh, asNRoot]

/-! ### the list operations of the n-ary rules -/

theorem ff_spliceFirst (sel : Expr α → Option (List (Expr α)))
    (hsel : ∀ e, sel e.fresh = (sel e).map (List.map fresh)) :
    ∀ as : List (Expr α),
      spliceFirst sel (as.map fresh) = (spliceFirst sel as).map (List.map fresh)
  | [] => rfl
  | e :: es => by
    simp only [List.map_cons, spliceFirst, hsel]
    cases hs : sel e with
    | some inner => simp
    | none =>
      simp only [ff_spliceFirst sel hsel es, Option.map_none, Option.map_map]
      congr 1

section Group
variable {κ β γ : Type}

theorem ff_groupInsert (f : β → γ) (eq : κ → κ → Bool) (k : κ) (v : β) :
    ∀ G : List (κ × List β),
      groupInsert eq k (f v) (G.map fun g => (g.1, g.2.map f)) =
        (groupInsert eq k v G).map fun g => (g.1, g.2.map f)
  | [] => by simp [groupInsert]
  | (k', vs) :: rest => by
    simp only [List.map_cons, groupInsert]
    by_cases hk : eq k' k
    · simp [hk]
    · simp [hk, ff_groupInsert f eq k v rest]

theorem ff_foldl_groupInsert (f : β → γ) (eq : κ → κ → Bool) :
    ∀ (items : List (κ × β)) (acc : List (κ × List β)),
      (items.map fun kv => (kv.1, f kv.2)).foldl (fun g kv => groupInsert eq kv.1 kv.2 g)
          (acc.map fun g => (g.1, g.2.map f)) =
        (items.foldl (fun g kv => groupInsert eq kv.1 kv.2 g) acc).map fun g => (g.1, g.2.map f)
  | [], acc => rfl
  | kv :: items, acc => by
    simp only [List.map_cons, List.foldl_cons]
    rw [ff_groupInsert f eq kv.1 kv.2 acc]
    exact ff_foldl_groupInsert f eq items _

theorem ff_groupByKey (f : β → γ) (eq : κ → κ → Bool) (items : List (κ × β)) :
    groupByKey eq (items.map fun kv => (kv.1, f kv.2)) =
      (groupByKey eq items).map fun g => (g.1, g.2.map f) :=
  ff_foldl_groupInsert f eq items []

end Group

theorem ff_consolidate {κ : Type} (sel : Expr α → Option (κ × Expr α)) (eq : κ → κ → Bool)
    (build : κ → List (Expr α) → Expr α)
    (hsel : ∀ e, sel e.fresh = (sel e).map fun p => (p.1, p.2.fresh))
    (hbuild : ∀ k vs, (build k vs).fresh = build k (vs.map fresh)) (as : List (Expr α)) :
    consolidate sel eq build (as.map fresh) =
      (consolidate sel eq build as).map (List.map fresh) := by
  have hmem : (as.map fresh).filterMap sel
      = (as.filterMap sel).map fun p => (p.1, p.2.fresh) := by
    rw [List.filterMap_map, List.map_filterMap]
    congr 1
    funext e
    exact hsel e
  have hoth : (as.map fresh).filter (fun e => (sel e).isNone)
      = (as.filter fun e => (sel e).isNone).map fresh := by
    rw [List.filter_map]
    congr 2
    funext e
    simp [hsel]
  unfold consolidate
  simp only [hmem, hoth, List.length_map, ff_groupByKey]
  split
  · rfl
  · simp only [List.all_map]
    split
    · rename_i h
      rw [if_pos]
      · rfl
      · simpa [Function.comp_def] using h
    · rename_i h
      rw [if_neg]
      · simp [hbuild, Function.comp_def]
      · simpa [Function.comp_def] using h

/-! ### the 46 rules commute with `fresh` -/

section Rules
variable (N : Num α) (e : Expr α)

theorem ff_ruleAddFlatten : ruleAddFlatten e.fresh = (ruleAddFlatten e).map fresh := by
  cases e <;> try rfl
  rename_i f as
  simp only [fresh, ruleAddFlatten, ff_freshList_eq_map, ff_spliceFirst asAdd ff_asAdd_fresh,
    Option.map_map]
  congr 1
  funext l
  simp [fresh, ff_freshList_eq_map]

theorem ff_filter_fresh (p : Expr α → Bool) (hp : ∀ e, p e.fresh = p e) (as : List (Expr α)) :
    (as.map fresh).filter p = (as.filter p).map fresh := by
  rw [List.filter_map]
  congr 2
  funext e
  exact hp e

theorem ff_ruleAddZeros : ruleAddZeros N e.fresh = (ruleAddZeros N e).map fresh := by
  cases e <;> try rfl
  rename_i f as
  simp only [fresh, ruleAddZeros, ff_freshList_eq_map]
  rw [ff_filter_fresh _ (fun e => by rw [ff_isConstSuch_fresh])]
  simp only [List.length_map]
  split
  · rfl
  · simp [fresh, ff_freshList_eq_map]

theorem ff_ruleAddLogs : ruleAddLogs N e.fresh = (ruleAddLogs N e).map fresh := by
  cases e <;> try rfl
  rename_i f as
  simp only [fresh, ruleAddLogs, ff_freshList_eq_map]
  rw [ff_consolidate asLog N.eq _ ff_asLog_fresh
    (fun k vs => by simp [fresh, ff_freshList_eq_map])]
  simp only [Option.map_map]
  congr 1
  funext l
  simp [fresh, ff_freshList_eq_map]

theorem ff_filterMap_asConst (as : List (Expr α)) :
    (as.map fresh).filterMap asConst = as.filterMap asConst := by
  rw [List.filterMap_map]
  congr 1
  funext e
  exact ff_asConst_fresh e

theorem ff_ruleAddConsts : ruleAddConsts N e.fresh = (ruleAddConsts N e).map fresh := by
  cases e <;> try rfl
  rename_i f as
  simp only [fresh, ruleAddConsts, ff_freshList_eq_map, ff_filterMap_asConst]
  rw [ff_filter_fresh _ (fun e => by rw [ff_asConst_fresh])]
  split
  · rfl
  · simp [fresh, ff_freshList_eq_map]

theorem ff_ruleMinusToSum : ruleMinusToSum e.fresh = (ruleMinusToSum e).map fresh := by
  cases e <;> rfl

theorem ff_ruleNegNeg : ruleNegNeg e.fresh = (ruleNegNeg e).map fresh := by
  cases e <;> try rfl
  rename_i f u
  cases u <;> rfl

theorem ff_ruleNegSum : ruleNegSum e.fresh = (ruleNegSum e).map fresh := by
  cases e <;> try rfl
  rename_i f u
  cases u <;> try rfl
  rename_i g as
  simp [fresh, ruleNegSum, ff_freshList_eq_map, Function.comp_def]

theorem ff_ruleMulFlatten : ruleMulFlatten e.fresh = (ruleMulFlatten e).map fresh := by
  cases e <;> try rfl
  rename_i f as
  simp only [fresh, ruleMulFlatten, ff_freshList_eq_map, ff_spliceFirst asMul ff_asMul_fresh,
    Option.map_map]
  congr 1
  funext l
  simp [fresh, ff_freshList_eq_map]

theorem ff_ruleMulZero : ruleMulZero N e.fresh = (ruleMulZero N e).map fresh := by
  cases e <;> try rfl
  rename_i f as
  simp only [fresh, ruleMulZero, ff_freshList_eq_map, List.any_map]
  have : (isConstSuch N.isZero ∘ fresh : Expr α → Bool) = isConstSuch N.isZero := by
    funext e; exact ff_isConstSuch_fresh _ e
  rw [this]
  split <;> rfl

theorem ff_ruleMulOnes : ruleMulOnes N e.fresh = (ruleMulOnes N e).map fresh := by
  cases e <;> try rfl
  rename_i f as
  simp only [fresh, ruleMulOnes, ff_freshList_eq_map]
  rw [ff_filter_fresh _ (fun e => by rw [ff_isConstSuch_fresh])]
  simp only [List.length_map]
  split
  · rfl
  · simp [fresh, ff_freshList_eq_map]

theorem ff_filterMap_asNeg (as : List (Expr α)) :
    (as.map fresh).filterMap asNeg = (as.filterMap asNeg).map fresh := by
  rw [List.filterMap_map, List.map_filterMap]
  congr 1
  funext e
  exact ff_asNeg_fresh e

theorem ff_ruleMulNegs : ruleMulNegs N e.fresh = (ruleMulNegs N e).map fresh := by
  cases e <;> try rfl
  rename_i f as
  simp only [fresh, ruleMulNegs, ff_freshList_eq_map, ff_filterMap_asNeg]
  rw [ff_filter_fresh _ (fun e => by rw [ff_asNeg_fresh]; cases asNeg e <;> rfl)]
  simp only [List.length_map]
  split
  · rfl
  · split
    · simp [fresh, ff_freshList_eq_map]
    · simp [fresh, ff_freshList_eq_map]

theorem ff_ruleMulNPows : ruleMulNPows e.fresh = (ruleMulNPows e).map fresh := by
  cases e <;> try rfl
  rename_i f as
  simp only [fresh, ruleMulNPows, ff_freshList_eq_map]
  rw [ff_consolidate asNPow _ _ ff_asNPow_fresh
    (fun k vs => by simp [fresh, ff_freshList_eq_map])]
  simp only [Option.map_map]
  congr 1
  funext l
  simp [fresh, ff_freshList_eq_map]

theorem ff_ruleMulNRoots : ruleMulNRoots e.fresh = (ruleMulNRoots e).map fresh := by
  cases e <;> try rfl
  rename_i f as
  simp only [fresh, ruleMulNRoots, ff_freshList_eq_map]
  rw [ff_consolidate asNRoot _ _ ff_asNRoot_fresh
    (fun k vs => by simp [fresh, ff_freshList_eq_map])]
  simp only [Option.map_map]
  congr 1
  funext l
  simp [fresh, ff_freshList_eq_map]

theorem ff_ruleMulExps : ruleMulExps N e.fresh = (ruleMulExps N e).map fresh := by
  cases e <;> try rfl
  rename_i f as
  simp only [fresh, ruleMulExps, ff_freshList_eq_map]
  rw [ff_consolidate asExp N.eq _ ff_asExp_fresh
    (fun k vs => by simp [fresh, ff_freshList_eq_map])]
  simp only [Option.map_map]
  congr 1
  funext l
  simp [fresh, ff_freshList_eq_map]

theorem ff_ruleMulConsts : ruleMulConsts N e.fresh = (ruleMulConsts N e).map fresh := by
  cases e <;> try rfl
  rename_i f as
  simp only [fresh, ruleMulConsts, ff_freshList_eq_map, ff_filterMap_asConst]
  rw [ff_filter_fresh _ (fun e => by rw [ff_asConst_fresh])]
  split
  · rfl
  · simp [fresh, ff_freshList_eq_map]

theorem ff_ruleDivToMul : ruleDivToMul e.fresh = (ruleDivToMul e).map fresh := by
  cases e <;> rfl

theorem ff_ruleRecipRecip : ruleRecipRecip e.fresh = (ruleRecipRecip e).map fresh := by
  cases e <;> try rfl
  rename_i f u
  cases u <;> rfl

theorem ff_ruleRecipNeg : ruleRecipNeg e.fresh = (ruleRecipNeg e).map fresh := by
  cases e <;> try rfl
  rename_i f u
  cases u <;> rfl

theorem ff_ruleRecipProd : ruleRecipProd e.fresh = (ruleRecipProd e).map fresh := by
  cases e <;> try rfl
  rename_i f u
  cases u <;> try rfl
  rename_i g as
  simp [fresh, ruleRecipProd, ff_freshList_eq_map, Function.comp_def]

theorem ff_rulePowOne : rulePowOne N e.fresh = (rulePowOne N e).map fresh := by
  cases e <;> try rfl
  rename_i f l r
  simp only [fresh, rulePowOne, ff_isConstSuch_fresh]
  split <;> rfl

theorem ff_rulePowZero : rulePowZero N e.fresh = (rulePowZero N e).map fresh := by
  cases e <;> try rfl
  rename_i f l r
  simp only [fresh, rulePowZero, ff_isConstSuch_fresh]
  split <;> rfl

theorem ff_ruleOnePow : ruleOnePow N e.fresh = (ruleOnePow N e).map fresh := by
  cases e <;> try rfl
  rename_i f l r
  simp only [fresh, ruleOnePow, ff_isConstSuch_fresh]
  split <;> rfl

theorem ff_rulePowNat : rulePowNat N e.fresh = (rulePowNat N e).map fresh := by
  cases e <;> try rfl
  rename_i f l r
  cases r <;> try rfl
  rename_i g v
  simp only [fresh, rulePowNat]
  split
  · split <;> rfl
  · rfl

theorem ff_rulePowNegOne : rulePowNegOne N e.fresh = (rulePowNegOne N e).map fresh := by
  cases e <;> try rfl
  rename_i f l r
  simp only [fresh, rulePowNegOne, ff_isConstSuch_fresh]
  split <;> rfl

theorem ff_rulePowConstBase : rulePowConstBase N e.fresh = (rulePowConstBase N e).map fresh := by
  cases e <;> try rfl
  rename_i f l r
  cases l <;> try rfl
  rename_i g v
  simp only [fresh, rulePowConstBase]
  split <;> rfl

theorem ff_rulePowPow : rulePowPow e.fresh = (rulePowPow e).map fresh := by
  cases e <;> try rfl
  rename_i f l r
  cases l <;> rfl

theorem ff_rulePowNegExp : rulePowNegExp e.fresh = (rulePowNegExp e).map fresh := by
  cases e <;> try rfl
  rename_i f l r
  cases r <;> rfl

theorem ff_rulePowRecipBase : rulePowRecipBase e.fresh = (rulePowRecipBase e).map fresh := by
  cases e <;> try rfl
  rename_i f l r
  cases l <;> rfl

theorem ff_ruleNPowOne : ruleNPowOne e.fresh = (ruleNPowOne e).map fresh := by
  cases e <;> try rfl
  rename_i f u n
  simp only [fresh, ruleNPowOne]
  split <;> rfl

theorem ff_ruleNPowRoot : ruleNPowRoot e.fresh = (ruleNPowRoot e).map fresh := by
  cases e <;> try rfl
  rename_i f u n
  cases u <;> try rfl
  rename_i g w m
  simp only [fresh, ruleNPowRoot]
  split
  · rfl
  · split <;> rfl

theorem ff_ruleNPowPow : ruleNPowPow e.fresh = (ruleNPowPow e).map fresh := by
  cases e <;> try rfl
  rename_i f u n
  cases u <;> rfl

theorem ff_ruleNPowNeg : ruleNPowNeg e.fresh = (ruleNPowNeg e).map fresh := by
  cases e <;> try rfl
  rename_i f u n
  cases u <;> try rfl
  rename_i g w
  simp only [fresh, ruleNPowNeg]
  split <;> rfl

theorem ff_ruleNPowRecip : ruleNPowRecip e.fresh = (ruleNPowRecip e).map fresh := by
  cases e <;> try rfl
  rename_i f u n
  cases u <;> rfl

theorem ff_ruleNPowExp : ruleNPowExp N e.fresh = (ruleNPowExp N e).map fresh := by
  cases e <;> try rfl
  rename_i f u n
  cases u <;> rfl

theorem ff_ruleNRootOne : ruleNRootOne e.fresh = (ruleNRootOne e).map fresh := by
  cases e <;> try rfl
  rename_i f u n
  simp only [fresh, ruleNRootOne]
  split <;> rfl

theorem ff_ruleNRootPow : ruleNRootPow e.fresh = (ruleNRootPow e).map fresh := by
  cases e <;> try rfl
  rename_i f u n
  cases u <;> rfl

theorem ff_ruleNRootRoot : ruleNRootRoot e.fresh = (ruleNRootRoot e).map fresh := by
  cases e <;> try rfl
  rename_i f u n
  cases u <;> rfl

theorem ff_ruleNRootNeg : ruleNRootNeg e.fresh = (ruleNRootNeg e).map fresh := by
  cases e <;> try rfl
  rename_i f u n
  cases u <;> try rfl
  rename_i g w
  simp only [fresh, ruleNRootNeg]
  split <;> rfl

theorem ff_ruleNRootRecip : ruleNRootRecip e.fresh = (ruleNRootRecip e).map fresh := by
  cases e <;> try rfl
  rename_i f u n
  cases u <;> rfl

theorem ff_ruleExpLog : ruleExpLog N e.fresh = (ruleExpLog N e).map fresh := by
  cases e <;> try rfl
  rename_i f u b
  cases u <;> try rfl
  rename_i g w b'
  simp only [fresh, ruleExpLog]
  split <;> rfl

theorem ff_ruleExpNeg : ruleExpNeg e.fresh = (ruleExpNeg e).map fresh := by
  cases e <;> try rfl
  rename_i f u b
  cases u <;> rfl

theorem ff_ruleLogExp : ruleLogExp N e.fresh = (ruleLogExp N e).map fresh := by
  cases e <;> try rfl
  rename_i f u b
  cases u <;> try rfl
  rename_i g w b'
  simp only [fresh, ruleLogExp]
  split <;> rfl

theorem ff_ruleLogRecip : ruleLogRecip e.fresh = (ruleLogRecip e).map fresh := by
  cases e <;> try rfl
  rename_i f u b
  cases u <;> rfl

theorem ff_ruleLogNPow : ruleLogNPow N e.fresh = (ruleLogNPow N e).map fresh := by
  cases e <;> try rfl
  rename_i f u b
  cases u <;> try rfl
  rename_i g w n
  simp only [fresh, ruleLogNPow]
  split <;> rfl

theorem ff_ruleCosNeg : ruleCosNeg e.fresh = (ruleCosNeg e).map fresh := by
  cases e <;> try rfl
  rename_i f u
  cases u <;> rfl

theorem ff_ruleSinNeg : ruleSinNeg e.fresh = (ruleSinNeg e).map fresh := by
  cases e <;> try rfl
  rename_i f u
  cases u <;> rfl

end Rules

/-- **every rule commutes with resetting the flags** -/
theorem ff_apply_fresh (N : Num α) (r : RuleId) (e : Expr α) :
    r.apply N e.fresh = (r.apply N e).map fresh := by
  cases r <;> simp only [RuleId.apply]
  · exact ff_ruleAddFlatten e
  · exact ff_ruleAddZeros N e
  · exact ff_ruleAddLogs N e
  · exact ff_ruleAddConsts N e
  · exact ff_ruleMinusToSum e
  · exact ff_ruleNegNeg e
  · exact ff_ruleNegSum e
  · exact ff_ruleMulFlatten e
  · exact ff_ruleMulZero N e
  · exact ff_ruleMulOnes N e
  · exact ff_ruleMulNegs N e
  · exact ff_ruleMulNPows e
  · exact ff_ruleMulNRoots e
  · exact ff_ruleMulExps N e
  · exact ff_ruleMulConsts N e
  · exact ff_ruleDivToMul e
  · exact ff_ruleRecipRecip e
  · exact ff_ruleRecipNeg e
  · exact ff_ruleRecipProd e
  · exact ff_rulePowOne N e
  · exact ff_rulePowZero N e
  · exact ff_ruleOnePow N e
  · exact ff_rulePowNat N e
  · exact ff_rulePowNegOne N e
  · exact ff_rulePowConstBase N e
  · exact ff_rulePowPow e
  · exact ff_rulePowNegExp e
  · exact ff_rulePowRecipBase e
  · exact ff_ruleNPowOne e
  · exact ff_ruleNPowRoot e
  · exact ff_ruleNPowPow e
  · exact ff_ruleNPowNeg e
  · exact ff_ruleNPowRecip e
  · exact ff_ruleNPowExp N e
  · exact ff_ruleNRootOne e
  · exact ff_ruleNRootPow e
  · exact ff_ruleNRootRoot e
  · exact ff_ruleNRootNeg e
  · exact ff_ruleNRootRecip e
  · exact ff_ruleExpLog N e
  · exact ff_ruleExpNeg e
  · exact ff_ruleLogExp N e
  · exact ff_ruleLogRecip e
  · exact ff_ruleLogNPow N e
  · exact ff_ruleCosNeg e
  · exact ff_ruleSinNeg e

theorem ff_reducers_fresh (e : Expr α) : reducers e.fresh = reducers e := by
  cases e <;> rfl

theorem ff_firstRule_fresh' (N : Num α) (e : Expr α) :
    ∀ rs, firstRule N e.fresh rs = (firstRule N e rs).map fun p => (p.1, p.2.fresh)
  | [] => rfl
  | r :: rs => by
    simp only [firstRule, ff_apply_fresh]
    cases h : r.apply N e with
    | some e' => rfl
    | none => simpa using ff_firstRule_fresh' N e rs

/-- the first applicable reducer of the class is the same, and rewrites to the same tree up to
flags, whatever the flags in the expression -/
theorem ff_firstRule_fresh (N : Num α) (e : Expr α) :
    firstRule N e.fresh (reducers e.fresh) =
      (firstRule N e (reducers e)).map fun p => (p.1, p.2.fresh) := by
  rw [ff_reducers_fresh, ff_firstRule_fresh']

end Smooth
